/-
  YtkProofs.DecisionsDocSet — `addContext` equals its table-driven variant (YtkModel/DecisionsDocSet.lean)
  on ALL inputs; part of YtkProofs/Decisions2.lean, its own file for the reason given there.
-/
import YtkModel.DecisionsDocSet
import YtkModel.Generated.Tables2

set_option linter.unusedSimpArgs false

/-! ## analytics -/
namespace Ytk.DocSet

theorem addContext_eq_table {δ : Type} (s : State δ) (name : String) (doc : δ) (newCtx : Ctx δ) :
    addContext s name doc newCtx = addContextT s name doc newCtx := by
  unfold addContext addContextT
  cases hx : AMap.get? s.ctxMap name with
  | none => simp [addArmOf, addArms, List.lookup, AddStep.run]
  | some ex =>
    cases hm : newCtx.mergeFn with
    | none => simp [addArmOf, addArms, List.lookup, AddStep.run, hm]
    | mergeTags =>
      simp [addArmOf, addArms, List.lookup, AddStep.run, hm]
      cases newCtx.doc <;> rfl
    | mustCreate => simp [addArmOf, addArms, List.lookup, AddStep.run, hm]

/-- what the options do to the context under construction -/
theorem applyOpt_effects {δ : Type} (ctx : Ctx δ) :
    (∀ ts, applyOpt ctx (.withTags ts) = { ctx with tags := ctx.tags ++ ts }) ∧
    applyOpt ctx .mergeTags = { ctx with mergeFn := .mergeTags } ∧
    applyOpt ctx .mustCreate = { ctx with mergeFn := .mustCreate } :=
  ⟨fun _ => rfl, rfl, rfl⟩

/-- applyOpts: the default options first, then the caller's, starting from the empty context -/
theorem applyOpts_order {δ : Type} (opts : List Opt) :
    (applyOpts opts : Ctx δ) = (defaultOpts ++ opts).foldl applyOpt ⟨none, [], .none⟩ := by
  simp [applyOpts, List.foldl_append]

/-- re-adding an existing name with a merge function does what the statement list of the option
    constructor that installed it says -/
theorem addContext_reAdd_eq_table {δ : Type} (s : State δ) (name : String) (doc : δ) (newCtx ex : Ctx δ)
    (ctor : String) (hx : AMap.get? s.ctxMap name = some ex) (hc : newCtx.mergeFn.ctor = some ctor) :
    addContext s name doc newCtx = reAddBy optionTable s name newCtx ex ctor := by
  unfold addContext reAddBy
  rw [hx]
  cases hm : newCtx.mergeFn with
  | none => simp [hm, MergeFn.ctor] at hc
  | mergeTags =>
    simp [hm, MergeFn.ctor] at hc
    subst hc
    simp [optionTable, List.lookup, mergeFnBy]
    cases newCtx.doc <;> simp [hm]
  | mustCreate =>
    simp [hm, MergeFn.ctor] at hc
    subst hc
    simp [optionTable, List.lookup, mergeFnBy]

end Ytk.DocSet
