/-
  gap7a — C07 × C02: `Diff(L, R) = [] ↔ Flatten(L) = Flatten(R)`.

  The property claims only "→".  "←" is FALSE in general (an empty keyed container on one side is
  invisible in Flatten but is reported by Diff) and TRUE when neither document has an empty list /
  container below the root: then each document is rebuilt exactly from its flattened view (C02's
  `rebuild_exact`), so equal flattened views mean equal documents.

  (This file cannot be imported by YtkProps/C07.lean: YtkProofs/DiffDet.lean and
  YtkProofs/FlattenPaths.lean both declare `Ytk.Node.SafeKeys`.  The theorems are exported from
  YtkProps/C02.lean.)
-/
import YtkProofs.Diff
import YtkProofs.RebuildB

namespace Ytk

/-- equal flattened views of two documents without empty composites below the root: equal documents -/
theorem eq_of_flatten_eq (L R : AMap Node) (hL : (Node.cont L).Valid) (hR : (Node.cont R).Valid)
    (hsL : (Node.cont L).SafeKeys) (hsR : (Node.cont R).SafeKeys)
    (hnL : ∀ p ∈ L, p.2.NoEmpty) (hnR : ∀ p ∈ R, p.2.NoEmpty) (h : flatten L = flatten R) : L = R := by
  have h1 := rebuild_exact L hL hsL hnL (flatten L) (fun _ hx => hx) (fun _ hx => hx)
  have h2 := rebuild_exact R hR hsR hnR (flatten R) (fun _ hx => hx) (fun _ hx => hx)
  rw [← h1, ← h2, h]

theorem diff_nil_iff_flatten_aux (L R : AMap Node) (hL : (Node.cont L).Valid) (hR : (Node.cont R).Valid)
    (hsL : (Node.cont L).SafeKeys) (hsR : (Node.cont R).SafeKeys)
    (hnL : ∀ p ∈ L, p.2.NoEmpty) (hnR : ∀ p ∈ R, p.2.NoEmpty) :
    diff L R = [] ↔ flatten L = flatten R := by
  constructor
  · intro h
    have he : emit L R = [] := sortMods_eq_nil.mp h
    have := emitNode_nil_flatten (.cont L) (.cont R) "" hL hR he
    simpa [flattenNode, flatten] using this
  · intro h
    have e := eq_of_flatten_eq L R hL hR hsL hsR hnL hnR h
    subst e
    simp only [diff, emit, emitNode_self _ "" hL]; rfl

end Ytk
