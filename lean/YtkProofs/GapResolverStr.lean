/-
  YtkProofs.GapResolverStr — the lexer of the resolver model at STRING level, for EVERY delimiter
  triple (empty, overlapping, equal delimiters included): one lexing step consumes the rendering
  of the token it emits (`lexAux_step`), hence `unlex d (lex d s) = s` and a prefix token is only
  lexed where the prefix string occurs.
-/
import YtkProofs.ResolverRelex

namespace Ytk.Resolver

theorem isPrefixOfChars_iff : ∀ (a b : List Char), isPrefixOfChars a b = true ↔ ∃ r, b = a ++ r
  | [], b => by simp [isPrefixOfChars]
  | _ :: _, [] => by simp [isPrefixOfChars]
  | x :: a, y :: b => by
    simp only [isPrefixOfChars, Bool.and_eq_true, beq_iff_eq, isPrefixOfChars_iff a b, List.cons_append,
      List.cons.injEq]
    constructor
    · rintro ⟨rfl, r, rfl⟩; exact ⟨r, rfl, rfl⟩
    · rintro ⟨r, rfl, rfl⟩; exact ⟨rfl, r, rfl⟩

/-- a non-empty delimiter `p` at the head of `c :: cs`: the rest behind it is lexed next -/
theorem lexAux_delim (d : Delims) {p : List Char} {c : Char} {cs : List Char} (hne : p.isEmpty = false)
    (h : isPrefixOfChars p (c :: cs) = true) :
    ∃ r, c :: cs = p ++ r ∧ lexAux d (p.length - 1) cs = lexAux d 0 r ∧ r.length ≤ cs.length := by
  obtain ⟨r, hr⟩ := (isPrefixOfChars_iff _ _).mp h
  cases p with
  | nil => simp at hne
  | cons x p =>
    simp only [List.cons_append, List.cons.injEq] at hr
    obtain ⟨rfl, rfl⟩ := hr
    refine ⟨r, rfl, ?_, by simp⟩
    simpa using lexAux_skip d p r

/-- ONE LEXING STEP, every delimiter triple: the first token `t`, the rest `r` that is lexed
    next, and the input is the rendering of `t` followed by `r` -/
theorem lexAux_step (d : Delims) (c : Char) (cs : List Char) :
    ∃ t r, lexAux d 0 (c :: cs) = t :: lexAux d 0 r ∧ c :: cs = unlexTok d t ++ r ∧ r.length ≤ cs.length := by
  simp only [lexAux]
  by_cases h1 : (!d.pre.isEmpty && isPrefixOfChars d.pre (c :: cs)) = true
  · rw [if_pos h1]
    simp only [Bool.and_eq_true, Bool.not_eq_true'] at h1
    obtain ⟨r, e, hl, hlen⟩ := lexAux_delim d h1.1 h1.2
    exact ⟨.pre, r, by rw [hl], e, hlen⟩
  · rw [if_neg h1]
    by_cases h2 : (!d.suf.isEmpty && isPrefixOfChars d.suf (c :: cs)) = true
    · rw [if_pos h2]
      simp only [Bool.and_eq_true, Bool.not_eq_true'] at h2
      obtain ⟨r, e, hl, hlen⟩ := lexAux_delim d h2.1 h2.2
      exact ⟨.suf, r, by rw [hl], e, hlen⟩
    · rw [if_neg h2]
      by_cases h3 : (!d.sep.isEmpty && isPrefixOfChars d.sep (c :: cs)) = true
      · rw [if_pos h3]
        simp only [Bool.and_eq_true, Bool.not_eq_true'] at h3
        obtain ⟨r, e, hl, hlen⟩ := lexAux_delim d h3.1 h3.2
        exact ⟨.sep, r, by rw [hl], e, hlen⟩
      · rw [if_neg h3]
        exact ⟨.ch c, cs, rfl, rfl, Nat.le_refl _⟩

theorem unlex_lexAux (d : Delims) : ∀ (n : Nat) (s : List Char), s.length ≤ n → unlex d (lexAux d 0 s) = s := by
  intro n
  induction n with
  | zero =>
    intro s h
    cases s with
    | nil => rfl
    | cons _ _ => simp at h
  | succ n ih =>
    intro s h
    cases s with
    | nil => rfl
    | cons c cs =>
      obtain ⟨t, r, hl, he, hlen⟩ := lexAux_step d c cs
      rw [hl, unlex, ih r (by simp at h; omega), ← he]

/-- rendering the lexed tokens gives the string back: EVERY delimiter triple, EVERY string -/
theorem unlex_lex' (d : Delims) (s : List Char) : unlex d (lex d s) = s :=
  unlex_lexAux d s.length s (Nat.le_refl _)

theorem lexAux_no_pre (d : Delims) : ∀ (n : Nat) (s : List Char), s.length ≤ n → ¬ d.pre <:+: s →
    Tok.pre ∉ lexAux d 0 s := by
  intro n
  induction n with
  | zero =>
    intro s h _
    cases s with
    | nil => simp [lexAux]
    | cons _ _ => simp at h
  | succ n ih =>
    intro s h hn
    cases s with
    | nil => simp [lexAux]
    | cons c cs =>
      obtain ⟨t, r, hl, he, hlen⟩ := lexAux_step d c cs
      rw [hl]
      intro hm
      rcases List.mem_cons.mp hm with rfl | hm
      · exact hn ⟨[], r, by simpa [unlexTok] using he.symm⟩
      · refine ih r (by simp at h; omega) (fun hi => hn ?_) hm
        rw [he]
        exact hi.trans (List.suffix_append _ _).isInfix

/-- if the prefix string does not occur in `s`, no prefix token is lexed -/
theorem lex_no_pre' (d : Delims) (s : List Char) (h : ¬ d.pre <:+: s) : Tok.pre ∉ lex d s :=
  lexAux_no_pre d s.length s (Nat.le_refl _) h

/-- clean tokens are lexed back from their rendering, whatever characters follow -/
theorem lex_unlex_append {d : Delims} (hd : d.LexOK) : ∀ (t : Toks), Over (CleanTok d) t → ∀ r : List Char,
    lex d (unlex d t ++ r) = t ++ lex d r := by
  intro t
  induction t with
  | nil => intro _ r; rfl
  | cons x t ih =>
    intro h r
    have := lex_unlexTok hd h.head (unlex d t ++ r)
    unfold lex at ih ⊢
    rw [unlex, List.append_assoc, this, ih h.tail r]
    rfl

/-- lexing is a homomorphism behind a string that lexes to clean tokens -/
theorem lex_append_of_clean' {d : Delims} (hd : d.LexOK) (s₁ s₂ : List Char) (h : Over (CleanTok d) (lex d s₁)) :
    lex d (s₁ ++ s₂) = lex d s₁ ++ lex d s₂ := by
  have := lex_unlex_append hd (lex d s₁) h s₂
  rwa [unlex_lex'] at this

end Ytk.Resolver
