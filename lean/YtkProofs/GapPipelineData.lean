/-
  YtkProofs.GapPipelineData — helper lemmas for the round-7 C13 additions:
  * import at the root is the replace handler's per-key loop;
  * the pipeline's base64 model agrees with the k8s one (C17) on every byte list.
-/
import YtkProofs.PipelineData
import YtkProofs.K8s

namespace Ytk.PD

/-- ImportOp's per-child loop at the root is literally SetOp's replace loop -/
theorem importRoot_eq_setReplaceRoot : ∀ (kvs : List (String × Node)) (data : AMap Node),
    importRoot data kvs = setReplaceRoot data kvs
  | [], _ => rfl
  | (k, v) :: rest, data => by
    simp only [importRoot, setReplaceRoot]
    exact importRoot_eq_setReplaceRoot rest _

/-! ## the two base64 models -/

/-- the two alphabets are the same 64 characters (only the out-of-range defaults differ) -/
theorem b64Char_eq_encChar : ∀ n, n < 64 → b64Char n = K8s.encChar n := by decide

theorem b64Encode_eq_k8s : ∀ bs : List UInt8, b64Encode (bs.map UInt8.toNat) = K8s.b64encL bs
  | [] => rfl
  | [a] => by
    have ha := UInt8.toNat_lt a
    simp only [List.map_cons, List.map_nil, b64Encode, K8s.b64encL]
    rw [b64Char_eq_encChar _ (by omega), b64Char_eq_encChar _ (by omega)]
  | [a, b] => by
    have ha := UInt8.toNat_lt a
    have hb := UInt8.toNat_lt b
    simp only [List.map_cons, List.map_nil, b64Encode, K8s.b64encL]
    rw [b64Char_eq_encChar _ (by omega), b64Char_eq_encChar _ (by omega), b64Char_eq_encChar _ (by omega)]
  | a :: b :: c :: rest => by
    have ha := UInt8.toNat_lt a
    have hb := UInt8.toNat_lt b
    have hc := UInt8.toNat_lt c
    simp only [List.map_cons, b64Encode, K8s.b64encL]
    rw [b64Char_eq_encChar _ (by omega), b64Char_eq_encChar _ (by omega), b64Char_eq_encChar _ (by omega),
      b64Char_eq_encChar _ (by omega), b64Encode_eq_k8s rest]

end Ytk.PD
