/-
  gap7a — C05 × C01: `Equals` against the PLAIN values (`AsMap` / `AsSlice` / leaf value = `encodeNode`).
-/
import YtkProofs.Equal
import YtkProofs.Codec

namespace Ytk

mutual
/-- `encodeNode` (DOM → plain value) is injective on ALL nodes: it only relabels constructors. -/
theorem encodeNode_inj : ∀ (x y : Node), encodeNode x = encodeNode y → x = y
  | .leaf a, .leaf b, h => by simp only [encodeNode, Val.sc.injEq] at h; rw [h]
  | .leaf _, .list _, h => by simp [encodeNode] at h
  | .leaf _, .cont _, h => by simp [encodeNode] at h
  | .list _, .leaf _, h => by simp [encodeNode] at h
  | .list xs, .list ys, h => by
    simp only [encodeNode, Val.arr.injEq] at h
    rw [encodeList_inj xs ys h]
  | .list _, .cont _, h => by simp [encodeNode] at h
  | .cont _, .leaf _, h => by simp [encodeNode] at h
  | .cont _, .list _, h => by simp [encodeNode] at h
  | .cont xs, .cont ys, h => by
    simp only [encodeNode, Val.obj.injEq] at h
    rw [encodeKvs_inj xs ys h]
theorem encodeList_inj : ∀ (xs ys : List Node), encodeList xs = encodeList ys → xs = ys
  | [], [], _ => rfl
  | [], _ :: _, h => by simp [encodeList] at h
  | _ :: _, [], h => by simp [encodeList] at h
  | x :: xs, y :: ys, h => by
    simp only [encodeList, List.cons.injEq] at h
    rw [encodeNode_inj x y h.1, encodeList_inj xs ys h.2]
theorem encodeKvs_inj : ∀ (xs ys : List (String × Node)), encodeKvs xs = encodeKvs ys → xs = ys
  | [], [], _ => rfl
  | [], (_, _) :: _, h => by simp [encodeKvs] at h
  | (_, _) :: _, [], h => by simp [encodeKvs] at h
  | (k, x) :: xs, (k', y) :: ys, h => by
    simp only [encodeKvs, List.cons.injEq, Prod.mk.injEq] at h
    rw [h.1.1, encodeNode_inj x y h.1.2, encodeKvs_inj xs ys h.2]
end

/-- the plain value determines the kind -/
theorem kind_of_encode_eq (x y : Node) (h : encodeNode x = encodeNode y) : x.kind = y.kind := by
  rw [encodeNode_inj x y h]

end Ytk
