/-
  YtkProofs.FuncsDomMatcher — the regenerated translation of `hasPlaceholderFunc(ph)(val)`
  (analytics/dependency_resolver.go: the default placeholder matcher of the dependency resolver and of the impact
  analysis; a function returning a closure, translated uncurried) EQUALS the model's `Analytics.hasPlaceholder`,
  for all keys and all leaf values.  Restated in YtkProps/C19.lean.
-/
import YtkModel.Generated.FuncsDom
import YtkModel.Analytics
import YtkProofs.FuncsLemmas
import YtkProofs.FuncsDomAnalytics

set_option linter.unusedSimpArgs false

namespace Ytk.FuncsDomMatcher
open Ytk Ytk.Generated Ytk.FuncsDomAnalytics

theorem stringsContains_eq (s sub : String) :
    GoDom.stringsContains s sub = Analytics.containsSub s.toList sub.toList := by
  simp only [GoDom.stringsContains, Go.stringsIndex, containsSub_index]

theorem hasPrefix_eq (s p : String) : Go.hasPrefix s p = Analytics.isPrefixOf p.toList s.toList := by
  simp only [Go.hasPrefix, isPrefixOf_eq]

theorem hasSuffix_eq (s suf : String) : GoDom.hasSuffix s suf = Analytics.isSuffixOf suf.toList s.toList := by
  simp only [GoDom.hasSuffix, Analytics.isSuffixOf, isPrefixOf_eq]

theorem hasPlaceholderFunc_generated_eq_model (k : String) (v : Scalar) :
    FuncsDom.hasPlaceholderFunc k v = .ok (Analytics.hasPlaceholder k v) := by
  simp only [FuncsDom.hasPlaceholderFunc, GoDom.anyString?, Analytics.hasPlaceholder, Go.fmtS]
  by_cases h : v.ty = "string"
  · simp only [h, beq_self_eq_true, if_true, Bool.true_and, Go.Res.pure_eq, stringsContains_eq, hasPrefix_eq,
      hasSuffix_eq, String.toList_append]
  · have : (v.ty == "string") = false := by simpa using h
    simp [this]

/-- dom.SearchEqual(in)(val) = cmp.Equal(val, in); for a string `in` it is the model's `searchEqualStr` -/
theorem SearchEqual_generated_eq_model (ph : String) (v : Scalar) :
    FuncsDom.SearchEqual ⟨"string", ph⟩ v = .ok (Analytics.searchEqualStr ph v) := by
  obtain ⟨ty, text⟩ := v
  have e : ((Scalar.mk ty text) == ⟨"string", ph⟩) = (ty == "string" && text == ph) := by
    rw [Bool.eq_iff_iff]; simp [Scalar.mk.injEq]
  simp only [FuncsDom.SearchEqual, GoDom.cmpEqual, Analytics.searchEqualStr, Go.Res.pure_eq, e]

end Ytk.FuncsDomMatcher
