/-
  YtkProofs.HeapBuilderDefs — predicates shared by the proofs about the heap-level builder model
  (YtkModel/HeapBuilder.lean).

  * `Composite h a`      the cell at `a` is a container or a list (a mutable object)
  * `Apart h x y`        the graphs below `x` and `y` share at most leaves (immutable objects)
  * `SibSep h r`         the graph below `r` is a TREE apart from shared leaves: different slots of
                         one cell never lead to a common container / list
  * `AttachSpec`         what a builder call that attaches a node `v` somewhere below `c` does to
                         the heap: exactly one existing cell `w` (reachable from `c`) is written, it
                         keeps its kind and gains at most `v`, the nil leaf and new cells; new cells
                         only point to older new cells, `v` and the nil leaf
  * `ShrinkSpec`         what a removing call does: cells only lose children
-/
import YtkModel.HeapBuilder
import YtkProofs.Heap

namespace Ytk.Heap

def Composite (h : Heap) (a : Addr) : Prop := ∃ c, h.get? a = some c ∧ c.isLeaf = false

/-- `x` and `y` reach no common container / list -/
def Apart (h : Heap) (x y : Addr) : Prop := ∀ b, Reach h x b → Reach h y b → ¬ Composite h b

/-- below `r`, two different slots of one cell never reach a common container / list -/
def SibSep (h : Heap) (r : Addr) : Prop :=
  ∀ a c, Reach h r a → h.get? a = some c →
    ∀ (i j : Nat) (ki kj : Addr), c.kids[i]? = some ki → c.kids[j]? = some kj → i ≠ j → Apart h ki kj

/-- the effect of an attaching call (AddValue / AddContainer / AddList / AddValueAt on `c`, value
    node `v`) on the heap: `w` is the one existing cell that is written -/
structure AttachSpec (h : Heap) (c v w : Addr) (h' : Heap) : Prop where
  size_le : h.size ≤ h'.size
  reach_w : Reach h c w
  frame : ∀ a, a < h.size → a ≠ w → h'.get? a = h.get? a
  written : ∃ cw cw', h.get? w = some cw ∧ h'.get? w = some cw' ∧ cw.isLeaf = false ∧
    cw'.isList = cw.isList ∧ cw'.isCont = cw.isCont ∧
    (∀ k ∈ cw'.kids, k ∈ cw.kids ∨ k = nilAddr ∨ k = v ∨ (h.size ≤ k ∧ k < h'.size)) ∧
    (∀ kvs kvs', cw = .cont kvs → cw' = .cont kvs' → AMap.Sorted kvs → AMap.Sorted kvs')
  fresh : ∀ a cell, h.size ≤ a → h'.get? a = some cell →
    (∀ k ∈ cell.kids, (h.size ≤ k ∧ k < a) ∨ k = v ∨ k = nilAddr) ∧
    (∀ kvs, cell = .cont kvs → AMap.Sorted kvs)

/-- the effect of a removing call (Remove / RemoveAt / Clear / Walk(CompactFn)): same cells, each
    keeps its kind and a sub-collection of its children -/
structure ShrinkSpec (h h' : Heap) : Prop where
  size_eq : h'.size = h.size
  leaves : ∀ a s, h.get? a = some (.leaf s) → h'.get? a = some (.leaf s)
  cells : ∀ a cell', h'.get? a = some cell' → ∃ cell, h.get? a = some cell ∧
    (∀ k ∈ cell'.kids, k ∈ cell.kids) ∧ cell'.isLeaf = cell.isLeaf ∧ cell'.isList = cell.isList ∧
    (∀ kvs kvs', cell = .cont kvs → cell' = .cont kvs' → AMap.Sorted kvs → AMap.Sorted kvs')

end Ytk.Heap
