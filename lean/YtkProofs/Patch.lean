/- Lemmas for C09: the model of patch.go refines the RFC 6902 reference on the in-scope domain. -/
import YtkModel.Patch
import YtkProofs.Pointer
import YtkProofs.Equal

namespace Ytk.Patch
open Ytk.Ptr

/-! ## tokens -/

/-- the two ways an in-domain token can read: a canonical index (and then `Atoi` agrees), or
    not an index (and then `Atoi` fails or is negative) -/
theorem idx_cases {t : String} (h : tokOk t = true) :
    (∃ n : Nat, canonIdx t = some n ∧ atoi t = some (n : Int)) ∨
    (canonIdx t = none ∧ (atoi t = none ∨ ∃ i : Int, atoi t = some i ∧ i < 0)) := by
  simp only [tokOk, Bool.and_eq_true] at h
  obtain ⟨h, _⟩ := h
  cases hc : canonIdx t with
  | some n =>
    rw [hc] at h
    have hn : n < int64Lim := by simpa using h
    refine Or.inl ⟨n, rfl, ?_⟩
    unfold atoi; unfold canonIdx at hc
    rw [atoiC_of_canonIdxC hc, if_pos hn]
  | none =>
    rw [hc] at h
    refine Or.inr ⟨rfl, ?_⟩
    cases ha : atoi t with
    | none => exact Or.inl rfl
    | some i =>
      rw [ha] at h
      exact Or.inr ⟨i, rfl, by simpa using h⟩

theorem safeTok_tokOk {t : String} (h : safeTok t = true) : tokOk t = true := by
  simp only [safeTok, Bool.and_eq_true] at h
  exact h.2

theorem safePath_ne_nil {p : Path} (h : safePath p = true) : p ≠ [] := by
  simp only [safePath, Bool.and_eq_true, bne_iff_ne, ne_eq] at h
  exact h.1

theorem safePath_tokOk {p : Path} (h : safePath p = true) : ∀ t ∈ p, tokOk t = true := by
  simp only [safePath, Bool.and_eq_true, List.all_eq_true] at h
  exact fun t ht => safeTok_tokOk (h.2 t ht)

/-! ## association maps -/

theorem insert_insert {α : Type} (m : AMap α) (k : String) (a b : α) :
    AMap.insert (AMap.insert m k a) k b = AMap.insert m k b := by
  induction m with
  | nil => simp [AMap.insert, String.lt_irrefl]
  | cons q m ih =>
    obtain ⟨k', v'⟩ := q
    simp only [AMap.insert]
    by_cases h1 : k < k'
    · simp [h1, AMap.insert, String.lt_irrefl]
    · by_cases h2 : k = k'
      · subst h2; simp [AMap.insert, String.lt_irrefl]
      · simp [h1, h2, AMap.insert, ih]

theorem insert_get_self {α : Type} {m : AMap α} (hs : AMap.Sorted m) {k : String} {a : α}
    (h : AMap.get? m k = some a) : AMap.insert m k a = m := by
  have := AMap.insert_erase_self hs h
  rw [← this, insert_insert]

theorem mem_insert {α : Type} {m : AMap α} {k : String} {a : α} {p : String × α}
    (h : p ∈ AMap.insert m k a) : p = (k, a) ∨ p ∈ m := by
  induction m with
  | nil => simp [AMap.insert] at h; exact Or.inl h
  | cons q m ih =>
    obtain ⟨k', v'⟩ := q
    simp only [AMap.insert] at h
    split at h
    · simp only [List.mem_cons] at h ⊢
      rcases h with h | h | h
      · exact Or.inl h
      · exact Or.inr (Or.inl h)
      · exact Or.inr (Or.inr h)
    · split at h
      · rename_i hk
        simp only [List.mem_cons] at h ⊢
        rcases h with h | h
        · exact Or.inl (by rw [h, hk])
        · exact Or.inr (Or.inr h)
      · simp only [List.mem_cons] at h ⊢
        rcases h with h | h
        · exact Or.inr (Or.inl h)
        · rcases ih h with h | h
          · exact Or.inl h
          · exact Or.inr (Or.inr h)

theorem mem_of_mem_erase {α : Type} {m : AMap α} {k : String} {p : String × α}
    (h : p ∈ AMap.erase m k) : p ∈ m := by
  induction m with
  | nil => simp [AMap.erase] at h
  | cons q m ih =>
    obtain ⟨k', v'⟩ := q
    simp only [AMap.erase] at h
    split at h
    · exact List.mem_cons_of_mem _ h
    · simp only [List.mem_cons] at h ⊢
      rcases h with h | h
      · exact Or.inl h
      · exact Or.inr (ih h)

/-! ## `setAt` one step at a time (in-domain tokens) -/

theorem setAt_cons_cont {kvs : AMap Node} {t : String} {c : Node} (ts : Path) (new : Node)
    (ht : tokOk t = true) (hc : AMap.get? kvs t = some c) :
    setAt (.cont kvs) (t :: ts) new = .cont (AMap.insert kvs t (setAt c ts new)) := by
  have hs := tokOk_noSuffix ht
  simp only [setAt, child_of_noSuffix kvs hs, hc, add_of_noSuffix kvs _ hs]

theorem setAt_cons_list {xs : List Node} {t : String} {i : Nat} {c : Node} (ts : Path) (new : Node)
    (ha : atoi t = some (i : Int)) (hc : xs[i]? = some c) :
    setAt (.list xs) (t :: ts) new = .list (xs.set i (setAt c ts new)) := by
  have hi : i < xs.length := by
    rcases Nat.lt_or_ge i xs.length with h | h
    · exact h
    · rw [List.getElem?_eq_none h] at hc; cases hc
  have : (0 : Int) ≤ i ∧ (i : Int) < (xs.length : Int) := ⟨by omega, by omega⟩
  simp only [setAt, ha, if_pos this, Int.toNat_natCast, hc]

/-! ## the reference, unfolded around the parent -/

/-- `modify` = resolve the parent, apply `f` there, put the result back with `setAt` -/
theorem modify_eq (f : Node → String → Option Node) (p : Path) : ∀ (d : Node), p ≠ [] →
    (∀ t ∈ p, tokOk t = true) →
    modify f d p = match getTok d (parent p) with
      | some par => (f par (lastSegment p)).map (setAt d (parent p))
      | none => none := by
  induction p with
  | nil => intro d h; exact absurd rfl h
  | cons t ts ih =>
    intro d _ hall
    cases ts with
    | nil =>
      simp only [modify, parent, lastSegment, List.length_singleton, Nat.le_refl, if_true, getTok,
        List.getLast?_singleton]
      cases f d t <;> simp [setAt]
    | cons t2 ts =>
      have ht := hall t (List.mem_cons_self ..)
      have hrest : ∀ x ∈ t2 :: ts, tokOk x = true := fun x hx => hall x (List.mem_cons_of_mem _ hx)
      rw [parent_cons_cons, lastSegment_cons_cons, getTok_cons]
      cases d with
      | leaf v => simp [modify, stepRef]
      | cont kvs =>
        simp only [modify, stepRef]
        cases hc : AMap.get? kvs t with
        | none => rfl
        | some c =>
          simp only []
          rw [ih c (by simp) hrest]
          cases getTok c (parent (t2 :: ts)) with
          | none => rfl
          | some par =>
            simp only [Option.map_map]
            congr 1
            funext new
            simp only [Function.comp]
            rw [setAt_cons_cont _ _ ht hc]
      | list xs =>
        simp only [modify, stepRef]
        cases hci : canonIdx t with
        | none => rfl
        | some i =>
          simp only []
          cases hc : xs[i]? with
          | none => rfl
          | some c =>
            simp only []
            rw [ih c (by simp) hrest]
            have ha : atoi t = some (i : Int) := by
              rcases idx_cases ht with ⟨n, h1, h2⟩ | ⟨h1, _⟩
              · rw [hci] at h1; cases h1; exact h2
              · rw [hci] at h1; cases h1
            cases getTok c (parent (t2 :: ts)) with
            | none => rfl
            | some par =>
              simp only [Option.map_map]
              congr 1
              funext new
              simp only [Function.comp]
              rw [setAt_cons_list _ _ ha hc]

theorem getTok_append (a b : Path) : ∀ (d : Node),
    getTok d (a ++ b) = match getTok d a with | some n => getTok n b | none => none := by
  induction a with
  | nil => intro d; simp [getTok]
  | cons t ts ih =>
    intro d
    rw [List.cons_append, getTok_cons, getTok_cons]
    cases stepRef d t with
    | none => rfl
    | some c => exact ih c

/-- the target resolves iff the parent resolves and has the last token -/
theorem getTok_parent_last (d : Node) {p : Path} (hp : p ≠ []) :
    getTok d p = match getTok d (parent p) with
      | some par => stepRef par (lastSegment p)
      | none => none := by
  have hsplit : p = parent p ++ [lastSegment p] := by
    rw [parent_eq_dropLast]
    have : lastSegment p = p.getLast hp := by
      simp [lastSegment, List.getLast?_eq_some_getLast hp]
    rw [this]; exact (List.dropLast_concat_getLast hp).symm
  conv => lhs; rw [hsplit]
  rw [getTok_append]
  cases getTok d (parent p) with
  | none => rfl
  | some par => exact getTok_single par _

theorem parent_tokOk {p : Path} (h : ∀ t ∈ p, tokOk t = true) : ∀ t ∈ parent p, tokOk t = true := by
  intro t ht
  rw [parent_eq_dropLast] at ht
  exact h t (List.dropLast_subset p ht)

theorem lastSegment_tokOk {p : Path} (hp : p ≠ []) (h : ∀ t ∈ p, tokOk t = true) :
    tokOk (lastSegment p) = true := by
  have : lastSegment p = p.getLast hp := by
    simp [lastSegment, List.getLast?_eq_some_getLast hp]
  rw [this]; exact h _ (List.getLast_mem hp)

end Ytk.Patch

namespace Ytk.Patch
open Ytk.Ptr

/-! ## the operations at the parent: implementation branch = reference function -/

/-- result of an implementation step, as the reference would phrase it -/
def ofSpec (root : Node) : Option Node → Res
  | some d' => (d', .ok ())
  | none => (root, .err)

theorem eval_parent (root : Node) {p : Path} (h : ∀ t ∈ p, tokOk t = true) :
    (eval (parent p) root).2 = getTok root (parent p) := by
  rw [eval_snd]; exact evalLoop_snd _ root (parent_tokOk h)

theorem eval_path (root : Node) {p : Path} (h : ∀ t ∈ p, tokOk t = true) :
    (eval p root).2 = getTok root p := by
  rw [eval_snd]; exact evalLoop_snd _ root h

theorem take_drop_eq_insertAt (xs : List Node) (i : Nat) (v : Node) :
    xs.take i ++ v :: xs.drop i = insertAt xs i v := rfl

theorem doAdd_refines (v : Node) {path : Path} (root : Node) (hp : path ≠ [])
    (h : ∀ t ∈ path, tokOk t = true) :
    doAdd (some v) path root = ofSpec root (rAdd root path v) := by
  unfold doAdd rAdd
  rw [modify_eq _ path root hp h, eval_parent root h]
  have hl := lastSegment_tokOk hp h
  simp only []
  cases getTok root (parent path) with
  | none => rfl
  | some par =>
    simp only []
    cases par with
    | leaf s =>
      cases atoi (lastSegment path) <;> simp [addLast, ofSpec]
    | cont kvs =>
      have : add kvs (lastSegment path) v = AMap.insert kvs (lastSegment path) v :=
        add_of_noSuffix kvs v (tokOk_noSuffix hl)
      cases atoi (lastSegment path) <;> simp [addLast, ofSpec, this]
    | list xs =>
      rcases idx_cases hl with ⟨n, h1, h2⟩ | ⟨h1, h2⟩
      · simp only [h2, addLast, h1]
        by_cases hn : n ≤ xs.length
        · have hc1 : ¬ ((n : Int) < 0) := by omega
          have hc2 : ¬ (xs.length < n) := by omega
          simp [hc1, hc2, hn, insertListItem, ofSpec, insertAt]
        · have hc2 : xs.length < n := by omega
          simp [hc2, hn, ofSpec]
      · rcases h2 with h2 | ⟨i, h2, hi⟩
        · simp [h2, addLast, h1, ofSpec]
        · have hc : (i < 0 ∨ (xs.length : Int) < i) := Or.inl hi
          simp [h2, addLast, h1, ofSpec, hc]

theorem doRemove_refines {path : Path} (root : Node) (hp : path ≠ [])
    (h : ∀ t ∈ path, tokOk t = true) :
    doRemove path root = ofSpec root (rRemove root path) := by
  unfold doRemove rRemove
  rw [modify_eq _ path root hp h, eval_parent root h, eval_path root h, getTok_parent_last root hp]
  have hl := lastSegment_tokOk hp h
  cases getTok root (parent path) with
  | none => rfl
  | some par =>
    simp only []
    cases par with
    | leaf s => simp [stepRef, removeLast, ofSpec]
    | cont kvs =>
      simp only [stepRef, removeLast]
      cases hg : AMap.get? kvs (lastSegment path) with
      | none => simp [ofSpec]
      | some n =>
        cases atoi (lastSegment path) <;> simp [ofSpec, remove]
    | list xs =>
      simp only [stepRef, removeLast]
      rcases idx_cases hl with ⟨n, h1, h2⟩ | ⟨h1, _⟩
      · simp only [h1, h2]
        by_cases hn : n < xs.length
        · have hx : xs[n]? = some xs[n] := List.getElem?_eq_getElem hn
          have hc1 : ¬ ((n : Int) < -1) := by omega
          have hc3 : ¬ (xs.length < n) := by omega
          have hc2 : ¬ ((n : Int) = -1) := by omega
          simp [hn, removeListItem, hc1, hc2, hc3, ofSpec, List.eraseIdx_eq_take_drop_succ]
        · have hx : xs[n]? = none := List.getElem?_eq_none (by omega)
          simp [hn, ofSpec]
      · simp [h1, ofSpec]

theorem listSet_inRange {xs : List Node} {i : Nat} (h : i < xs.length) (v : Node) :
    listSet xs i v = xs.set i v := by
  have : i + 1 - xs.length = 0 := by omega
  simp [listSet, padTo, this]

theorem doReplace_refines (v : Node) {path : Path} (root : Node) (hp : path ≠ [])
    (h : ∀ t ∈ path, tokOk t = true) :
    doReplace (some v) path root = ofSpec root (rReplace root path v) := by
  unfold doReplace rReplace
  rw [modify_eq _ path root hp h, eval_parent root h, eval_path root h, getTok_parent_last root hp]
  have hl := lastSegment_tokOk hp h
  simp only []
  cases getTok root (parent path) with
  | none => rfl
  | some par =>
    simp only []
    cases par with
    | leaf s => simp [stepRef, replaceLast, ofSpec]
    | cont kvs =>
      simp only [stepRef, replaceLast]
      have hadd : add kvs (lastSegment path) v = AMap.insert kvs (lastSegment path) v :=
        add_of_noSuffix kvs v (tokOk_noSuffix hl)
      cases hg : AMap.get? kvs (lastSegment path) with
      | none => simp [ofSpec]
      | some n =>
        cases atoi (lastSegment path) <;> simp [ofSpec, hadd]
    | list xs =>
      simp only [stepRef, replaceLast]
      rcases idx_cases hl with ⟨n, h1, h2⟩ | ⟨h1, _⟩
      · simp only [h1, h2]
        by_cases hn : n < xs.length
        · have hx : xs[n]? = some xs[n] := List.getElem?_eq_getElem hn
          have hc : ¬ ((n : Int) < 0) := by omega
          simp [hn, hc, ofSpec, listSet_inRange hn]
        · have hx : xs[n]? = none := List.getElem?_eq_none (by omega)
          simp [hn, ofSpec]
      · simp [h1, ofSpec]

end Ytk.Patch

namespace Ytk.Patch
open Ytk.Ptr

/-! ## lens laws for `setAt` along a resolving location -/

/-- a resolving step, with what `setAt` does there -/
theorem step_cases {d : Node} {t : String} {c : Node} (ht : tokOk t = true) (h : stepRef d t = some c) :
    (∃ kvs, d = .cont kvs ∧ AMap.get? kvs t = some c ∧
      ∀ ts new, setAt d (t :: ts) new = .cont (AMap.insert kvs t (setAt c ts new))) ∨
    (∃ xs i, d = .list xs ∧ canonIdx t = some i ∧ xs[i]? = some c ∧ i < xs.length ∧
      ∀ ts new, setAt d (t :: ts) new = .list (xs.set i (setAt c ts new))) := by
  cases d with
  | leaf v => simp [stepRef] at h
  | cont kvs =>
    simp only [stepRef] at h
    exact Or.inl ⟨kvs, rfl, h, fun ts new => setAt_cons_cont ts new ht h⟩
  | list xs =>
    simp only [stepRef] at h
    cases hci : canonIdx t with
    | none => rw [hci] at h; cases h
    | some i =>
      rw [hci] at h
      simp only [] at h
      have ha : atoi t = some (i : Int) := by
        rcases idx_cases ht with ⟨n, h1, h2⟩ | ⟨h1, _⟩
        · rw [hci] at h1; cases h1; exact h2
        · rw [hci] at h1; cases h1
      have hi : i < xs.length := by
        rcases Nat.lt_or_ge i xs.length with h' | h'
        · exact h'
        · rw [List.getElem?_eq_none h'] at h; cases h
      exact Or.inr ⟨xs, i, rfl, rfl, h, hi, fun ts new => setAt_cons_list ts new ha h⟩

theorem get_setAt (pp : Path) : ∀ (root : Node) (par x : Node), (∀ t ∈ pp, tokOk t = true) →
    getTok root pp = some par → getTok (setAt root pp x) pp = some x := by
  induction pp with
  | nil => intro root par x _ _; simp [setAt, getTok]
  | cons t ts ih =>
    intro root par x hall h
    have ht := hall t (List.mem_cons_self ..)
    have hrest : ∀ y ∈ ts, tokOk y = true := fun y hy => hall y (List.mem_cons_of_mem _ hy)
    rw [getTok_cons] at h
    cases hs : stepRef root t with
    | none => rw [hs] at h; cases h
    | some c =>
      rw [hs] at h
      simp only [] at h
      rcases step_cases ht hs with ⟨kvs, rfl, _, hset⟩ | ⟨xs, i, rfl, hci, _, hi, hset⟩
      · rw [hset, getTok_cons]
        simp only [stepRef, AMap.get?_insert_self]
        exact ih c par x hrest h
      · rw [hset, getTok_cons]
        simp only [stepRef, hci]
        rw [List.getElem?_set_self (by simpa using hi)]
        exact ih c par x hrest h

theorem setAt_setAt (pp : Path) : ∀ (root : Node) (par x y : Node), (∀ t ∈ pp, tokOk t = true) →
    getTok root pp = some par → setAt (setAt root pp x) pp y = setAt root pp y := by
  induction pp with
  | nil => intro root par x y _ _; simp [setAt]
  | cons t ts ih =>
    intro root par x y hall h
    have ht := hall t (List.mem_cons_self ..)
    have hrest : ∀ z ∈ ts, tokOk z = true := fun z hz => hall z (List.mem_cons_of_mem _ hz)
    rw [getTok_cons] at h
    cases hs : stepRef root t with
    | none => rw [hs] at h; cases h
    | some c =>
      rw [hs] at h
      simp only [] at h
      rcases step_cases ht hs with ⟨kvs, rfl, _, hset⟩ | ⟨xs, i, rfl, hci, _, hi, hset⟩
      · rw [hset, hset]
        have hs2 : stepRef (.cont (AMap.insert kvs t (setAt c ts x))) t = some (setAt c ts x) := by
          simp [stepRef, AMap.get?_insert_self]
        rcases step_cases ht hs2 with ⟨kvs2, he, _, hset2⟩ | ⟨xs2, i2, he, _⟩
        · rw [hset2]; cases he
          rw [insert_insert, ih c par x y hrest h]
        · cases he
      · rw [hset, hset]
        have hs2 : stepRef (.list (xs.set i (setAt c ts x))) t = some (setAt c ts x) := by
          simp only [stepRef, hci]
          exact List.getElem?_set_self (by simpa using hi)
        rcases step_cases ht hs2 with ⟨kvs2, he, _⟩ | ⟨xs2, i2, he, hci2, _, _, hset2⟩
        · cases he
        · rw [hset2]; cases he
          rw [hci] at hci2; cases hci2
          rw [List.set_set, ih c par x y hrest h]

theorem setAt_get (pp : Path) : ∀ (root : Node) (par : Node), root.WF → (∀ t ∈ pp, tokOk t = true) →
    getTok root pp = some par → setAt root pp par = root := by
  induction pp with
  | nil => intro root par _ _ h; simp [getTok] at h; simp [setAt, h]
  | cons t ts ih =>
    intro root par hwf hall h
    have ht := hall t (List.mem_cons_self ..)
    have hrest : ∀ z ∈ ts, tokOk z = true := fun z hz => hall z (List.mem_cons_of_mem _ hz)
    rw [getTok_cons] at h
    cases hs : stepRef root t with
    | none => rw [hs] at h; cases h
    | some c =>
      rw [hs] at h
      simp only [] at h
      rcases step_cases ht hs with ⟨kvs, rfl, hg, hset⟩ | ⟨xs, i, rfl, hci, hg, hi, hset⟩
      · rw [hset, ih c par (hwf.of_cont_get hg) hrest h, insert_get_self hwf.sorted hg]
      · have hc : xs[i] = c := by
          have := List.getElem?_eq_getElem hi
          rw [this] at hg; exact Option.some.inj hg
        rw [hset, ih c par (hwf.of_list_mem (hc ▸ List.getElem_mem hi)) hrest h, ← hc, List.set_getElem_self]

/-- WF is inherited along a resolving location -/
theorem getTok_wf (p : Path) : ∀ (d n : Node), d.WF → getTok d p = some n → n.WF := by
  induction p with
  | nil => intro d n h hg; simp [getTok] at hg; exact hg ▸ h
  | cons t ts ih =>
    intro d n hwf h
    rw [getTok_cons] at h
    cases hs : stepRef d t with
    | none => rw [hs] at h; cases h
    | some c =>
      rw [hs] at h
      refine ih c n ?_ h
      cases d with
      | leaf v => simp [stepRef] at hs
      | cont kvs => exact hwf.of_cont_get (by simpa [stepRef] using hs)
      | list xs =>
        simp only [stepRef] at hs
        cases hci : canonIdx t with
        | none => rw [hci] at hs; cases hs
        | some i =>
          rw [hci] at hs
          exact hwf.of_list_mem (List.mem_of_getElem? hs)

/-! ## remove then add at the same location gives the document back -/

theorem insertAt_eraseIdx {xs : List Node} {i : Nat} (hi : i < xs.length) :
    insertAt (xs.eraseIdx i) i xs[i] = xs := by
  induction xs generalizing i with
  | nil => simp at hi
  | cons x xs ih =>
    cases i with
    | zero => simp [insertAt]
    | succ j =>
      have hj : j < xs.length := by simpa using hi
      have := ih hj
      simp only [insertAt] at this ⊢
      simp [this]

theorem addLast_removeLast {par par1 n : Node} {t : String} (hwf : par.WF)
    (hn : stepRef par t = some n) (hr : removeLast par t = some par1) : addLast par1 t n = some par := by
  cases par with
  | leaf v => simp [removeLast] at hr
  | cont kvs =>
    simp only [stepRef] at hn
    simp only [removeLast, hn, Option.isSome_some, if_true, Option.some.injEq] at hr
    subst hr
    simp [addLast, AMap.insert_erase_self hwf.sorted hn]
  | list xs =>
    simp only [stepRef] at hn
    simp only [removeLast] at hr
    cases hci : canonIdx t with
    | none => rw [hci] at hr; cases hr
    | some i =>
      rw [hci] at hr hn
      simp only [] at hr hn
      by_cases hi : i < xs.length
      · simp only [hi, if_true, Option.some.injEq] at hr
        subst hr
        have hc : xs[i] = n := by
          rw [List.getElem?_eq_getElem hi] at hn; exact Option.some.inj hn
        have hlen : i ≤ (xs.eraseIdx i).length := by
          rw [List.length_eraseIdx_of_lt hi]; omega
        simp only [addLast, hci, hlen, if_true]
        rw [← hc, insertAt_eraseIdx hi]
      · simp [hi] at hr

/-- RFC: removing the value at a location and adding it back there restores the document -/
theorem rRemove_rAdd_same {d n : Node} {p : Path} (hwf : d.WF) (hp : p ≠ [])
    (h : ∀ t ∈ p, tokOk t = true) (hg : getTok d p = some n) :
    ∃ d1, rRemove d p = some d1 ∧ rAdd d1 p n = some d := by
  rw [getTok_parent_last d hp] at hg
  unfold rRemove rAdd
  rw [modify_eq _ p d hp h]
  cases hpar : getTok d (parent p) with
  | none => rw [hpar] at hg; cases hg
  | some par =>
    rw [hpar] at hg
    simp only [] at hg ⊢
    have hparwf := getTok_wf _ d par hwf hpar
    have hr : ∃ par1, removeLast par (lastSegment p) = some par1 := by
      cases par with
      | leaf v => simp [stepRef] at hg
      | cont kvs =>
        simp only [stepRef] at hg
        exact ⟨.cont (AMap.erase kvs (lastSegment p)), by simp [removeLast, hg]⟩
      | list xs =>
        simp only [stepRef] at hg
        cases hci : canonIdx (lastSegment p) with
        | none => rw [hci] at hg; cases hg
        | some i =>
          rw [hci] at hg
          simp only [] at hg
          have hi : i < xs.length := by
            rcases Nat.lt_or_ge i xs.length with h' | h'
            · exact h'
            · rw [List.getElem?_eq_none h'] at hg; cases hg
          exact ⟨.list (xs.eraseIdx i), by simp [removeLast, hci, hi]⟩
    obtain ⟨par1, hr⟩ := hr
    refine ⟨setAt d (parent p) par1, by simp [hr], ?_⟩
    rw [modify_eq _ p _ hp h, get_setAt _ d par par1 (parent_tokOk h) hpar]
    simp only []
    rw [addLast_removeLast hparwf hg hr]
    simp only [Option.map_some]
    rw [setAt_setAt _ d par par1 par (parent_tokOk h) hpar, setAt_get _ d par hwf (parent_tokOk h) hpar]

theorem rRemove_isSome_of_getTok {d n : Node} {p : Path} (hwf : d.WF) (hp : p ≠ [])
    (h : ∀ t ∈ p, tokOk t = true) (hg : getTok d p = some n) : ∃ d1, rRemove d p = some d1 := by
  obtain ⟨d1, h1, _⟩ := rRemove_rAdd_same hwf hp h hg
  exact ⟨d1, h1⟩

/-! ## prefix test -/

theorem properPrefix_eq (f p : Path) : properPrefix f p = isProperPrefix f p := by
  induction f generalizing p with
  | nil => cases p <;> simp [properPrefix, isProperPrefix]
  | cons a as ih =>
    cases p with
    | nil => simp [properPrefix, isProperPrefix]
    | cons b bs =>
      have := ih bs
      simp only [properPrefix, isProperPrefix, List.length_cons, List.take_succ_cons] at this ⊢
      rw [← this]
      have e1 : decide (as.length + 1 < bs.length + 1) = decide (as.length < bs.length) := by
        simp
      have e2 : (a :: as == b :: List.take as.length bs) = (a == b && as == List.take as.length bs) := by
        simp
      rw [e1, e2]
      exact Bool.and_left_comm _ _ _

theorem isProperPrefix_irrefl (f : Path) : isProperPrefix f f = false := by
  induction f with
  | nil => rfl
  | cons a as ih => simp [isProperPrefix, ih]

end Ytk.Patch

namespace Ytk.Patch
open Ytk.Ptr

/-! ## validity (sorted unique keys, no key ending in an index group) is preserved -/

theorem valid_list {ys : List Node} (h : ∀ y ∈ ys, y.Valid) : (Node.list ys).Valid :=
  ⟨.list (fun y hy => (h y hy).1), .list (fun y hy => (h y hy).2)⟩

theorem valid_insert {kvs : AMap Node} {k : String} {v : Node} (h : (Node.cont kvs).Valid) (hv : v.Valid)
    (hk : hasIdxSuffix k = false) : (Node.cont (AMap.insert kvs k v)).Valid := by
  refine ⟨.cont (AMap.sorted_insert h.sorted k v) ?_, .cont ?_ ?_⟩
  · intro p hp
    rcases mem_insert hp with rfl | hp
    · exact hv.1
    · exact (h.of_cont_mem hp).1.1
  · intro p hp
    rcases mem_insert hp with rfl | hp
    · exact hk
    · exact (h.of_cont_mem hp).2
  · intro p hp
    rcases mem_insert hp with rfl | hp
    · exact hv.2
    · exact (h.of_cont_mem hp).1.2

theorem valid_erase {kvs : AMap Node} (k : String) (h : (Node.cont kvs).Valid) :
    (Node.cont (AMap.erase kvs k)).Valid := by
  refine ⟨.cont (AMap.sorted_erase h.sorted k) ?_, .cont ?_ ?_⟩
  · intro p hp; exact (h.of_cont_mem (mem_of_mem_erase hp)).1.1
  · intro p hp; exact (h.of_cont_mem (mem_of_mem_erase hp)).2
  · intro p hp; exact (h.of_cont_mem (mem_of_mem_erase hp)).1.2

theorem stepRef_valid {d c : Node} {t : String} (h : d.Valid) (hs : stepRef d t = some c) : c.Valid := by
  cases d with
  | leaf v => simp [stepRef] at hs
  | cont kvs => exact (h.of_cont_mem (AMap.mem_of_get? (by simpa [stepRef] using hs))).1
  | list xs =>
    simp only [stepRef] at hs
    cases hci : canonIdx t with
    | none => rw [hci] at hs; cases hs
    | some i => rw [hci] at hs; exact h.of_list_mem (List.mem_of_getElem? hs)

theorem getTok_valid (p : Path) : ∀ (d n : Node), d.Valid → getTok d p = some n → n.Valid := by
  induction p with
  | nil => intro d n h hg; simp [getTok] at hg; exact hg ▸ h
  | cons t ts ih =>
    intro d n hv h
    rw [getTok_cons] at h
    cases hs : stepRef d t with
    | none => rw [hs] at h; cases h
    | some c => rw [hs] at h; exact ih c n (stepRef_valid hv hs) h

theorem addLast_valid {par par' v : Node} {t : String} (h : par.Valid) (hv : v.Valid)
    (ht : hasIdxSuffix t = false) (ha : addLast par t v = some par') : par'.Valid := by
  cases par with
  | leaf s => simp [addLast] at ha
  | cont kvs =>
    simp only [addLast, Option.some.injEq] at ha
    subst ha; exact valid_insert h hv ht
  | list xs =>
    simp only [addLast] at ha
    cases hci : canonIdx t with
    | none => rw [hci] at ha; cases ha
    | some i =>
      rw [hci] at ha
      simp only [] at ha
      split at ha
      · cases ha
        apply valid_list
        intro y hy
        simp only [insertAt, List.mem_append, List.mem_cons] at hy
        rcases hy with hy | rfl | hy
        · exact h.of_list_mem (List.mem_of_mem_take hy)
        · exact hv
        · exact h.of_list_mem (List.mem_of_mem_drop hy)
      · cases ha

theorem removeLast_valid {par par' : Node} {t : String} (h : par.Valid)
    (ha : removeLast par t = some par') : par'.Valid := by
  cases par with
  | leaf s => simp [removeLast] at ha
  | cont kvs =>
    simp only [removeLast] at ha
    split at ha
    · cases ha; exact valid_erase t h
    · cases ha
  | list xs =>
    simp only [removeLast] at ha
    cases hci : canonIdx t with
    | none => rw [hci] at ha; cases ha
    | some i =>
      rw [hci] at ha
      simp only [] at ha
      split at ha
      · cases ha
        exact valid_list (fun y hy => h.of_list_mem (List.mem_of_mem_eraseIdx hy))
      · cases ha

theorem replaceLast_valid {par par' v : Node} {t : String} (h : par.Valid) (hv : v.Valid)
    (ht : hasIdxSuffix t = false) (ha : replaceLast par t v = some par') : par'.Valid := by
  cases par with
  | leaf s => simp [replaceLast] at ha
  | cont kvs =>
    simp only [replaceLast] at ha
    split at ha
    · cases ha; exact valid_insert h hv ht
    · cases ha
  | list xs =>
    simp only [replaceLast] at ha
    cases hci : canonIdx t with
    | none => rw [hci] at ha; cases ha
    | some i =>
      rw [hci] at ha
      simp only [] at ha
      split at ha
      · cases ha
        apply valid_list
        intro y hy
        rcases List.mem_or_eq_of_mem_set hy with hy | rfl
        · exact h.of_list_mem hy
        · exact hv
      · cases ha

theorem modify_valid (f : Node → String → Option Node)
    (hf : ∀ par par' t, par.Valid → hasIdxSuffix t = false → f par t = some par' → par'.Valid)
    (p : Path) : ∀ (d d' : Node), d.Valid → (∀ t ∈ p, tokOk t = true) → modify f d p = some d' → d'.Valid := by
  induction p with
  | nil => intro d d' _ _ h; simp [modify] at h
  | cons t ts ih =>
    intro d d' hv hall h
    have ht := tokOk_noSuffix (hall t (List.mem_cons_self ..))
    cases ts with
    | nil => exact hf d d' t hv ht (by simpa [modify] using h)
    | cons t2 ts =>
      have hrest : ∀ x ∈ t2 :: ts, tokOk x = true := fun x hx => hall x (List.mem_cons_of_mem _ hx)
      cases d with
      | leaf s => simp [modify] at h
      | cont kvs =>
        simp only [modify] at h
        cases hc : AMap.get? kvs t with
        | none => rw [hc] at h; cases h
        | some c =>
          rw [hc] at h
          simp only [] at h
          cases hm : modify f c (t2 :: ts) with
          | none => rw [hm] at h; cases h
          | some c' =>
            rw [hm] at h
            simp only [Option.map_some, Option.some.injEq] at h
            subst h
            have hcv : c.Valid := (hv.of_cont_mem (AMap.mem_of_get? hc)).1
            exact valid_insert hv (ih c c' hcv hrest hm) ht
      | list xs =>
        simp only [modify] at h
        cases hci : canonIdx t with
        | none => rw [hci] at h; cases h
        | some i =>
          rw [hci] at h
          simp only [] at h
          cases hc : xs[i]? with
          | none => rw [hc] at h; cases h
          | some c =>
            rw [hc] at h
            simp only [] at h
            cases hm : modify f c (t2 :: ts) with
            | none => rw [hm] at h; cases h
            | some c' =>
              rw [hm] at h
              simp only [Option.map_some, Option.some.injEq] at h
              subst h
              have hcv : c.Valid := hv.of_list_mem (List.mem_of_getElem? hc)
              apply valid_list
              intro y hy
              rcases List.mem_or_eq_of_mem_set hy with hy | rfl
              · exact hv.of_list_mem hy
              · exact ih c _ hcv hrest hm

theorem rAdd_valid {d d' v : Node} {p : Path} (hd : d.Valid) (hv : v.Valid) (h : ∀ t ∈ p, tokOk t = true)
    (ha : rAdd d p v = some d') : d'.Valid :=
  modify_valid _ (fun _ _ _ hp ht hx => addLast_valid hp hv ht hx) p d d' hd h ha

theorem rRemove_valid {d d' : Node} {p : Path} (hd : d.Valid) (h : ∀ t ∈ p, tokOk t = true)
    (ha : rRemove d p = some d') : d'.Valid :=
  modify_valid _ (fun _ _ _ hp _ hx => removeLast_valid hp hx) p d d' hd h ha

theorem rReplace_valid {d d' v : Node} {p : Path} (hd : d.Valid) (hv : v.Valid) (h : ∀ t ∈ p, tokOk t = true)
    (ha : rReplace d p v = some d') : d'.Valid :=
  modify_valid _ (fun _ _ _ hp ht hx => replaceLast_valid hp hv ht hx) p d d' hd h ha

/-- what the theorems assume about one operation object -/
def OpOk (o : OpObj) : Prop := inScope o = true ∧ ∀ v, o.value = some v → v.Valid

theorem inScope_path {o : OpObj} {p : Path} (h : inScope o = true) (hp : o.path = some p) : safePath p = true := by
  simp only [inScope, hp, Bool.and_eq_true] at h; exact h.1

theorem inScope_frm {o : OpObj} {f : Path} (h : inScope o = true) (hf : o.frm = some f) : safePath f = true := by
  simp only [inScope, hf, Bool.and_eq_true] at h; exact h.2

theorem rfc6902_valid {o : OpObj} {d d' : Node} (ho : OpOk o) (hd : d.Valid)
    (h : rfc6902 o d = some d') : d'.Valid := by
  obtain ⟨hin, hval⟩ := ho
  unfold rfc6902 at h
  cases hp : o.path with
  | none => rw [hp] at h; cases h
  | some path =>
    rw [hp] at h
    have hsp := inScope_path hin hp
    have htok := safePath_tokOk hsp
    simp only [] at h
    split at h
    · cases hv : o.value with
      | none => rw [hv] at h; cases h
      | some v => rw [hv] at h; exact rAdd_valid hd (hval v hv) htok h
    · split at h
      · exact rRemove_valid hd htok h
      · split at h
        · cases hv : o.value with
          | none => rw [hv] at h; cases h
          | some v => rw [hv] at h; exact rReplace_valid hd (hval v hv) htok h
        · split at h
          · cases hf : o.frm with
            | none => rw [hf] at h; cases h
            | some f =>
              rw [hf] at h
              have hftok := safePath_tokOk (inScope_frm hin hf)
              simp only [] at h
              cases hg : getTok d f with
              | none => rw [hg] at h; cases h
              | some n =>
                rw [hg] at h
                simp only [] at h
                split at h
                · cases h
                · cases hr : rRemove d f with
                  | none => rw [hr] at h; cases h
                  | some d1 =>
                    rw [hr] at h
                    exact rAdd_valid (rRemove_valid hd hftok hr) (getTok_valid f d n hd hg) htok h
          · split at h
            · cases hf : o.frm with
              | none => rw [hf] at h; cases h
              | some f =>
                rw [hf] at h
                simp only [] at h
                cases hg : getTok d f with
                | none => rw [hg] at h; cases h
                | some n =>
                  rw [hg] at h
                  exact rAdd_valid hd (getTok_valid f d n hd hg) htok h
            · split at h
              · cases hv : o.value with
                | none => rw [hv] at h; cases h
                | some v =>
                  rw [hv] at h
                  simp only [] at h
                  cases hg : getTok d path with
                  | none => rw [hg] at h; cases h
                  | some n =>
                    rw [hg] at h
                    simp only [] at h
                    split at h
                    · cases h; exact hd
                    · cases h
              · cases h

end Ytk.Patch

namespace Ytk.Patch
open Ytk.Ptr

/-! ## the whole of `patch.Do` -/

theorem moveOrCopy_copy_refines {f path : Path} (root : Node) (hp : path ≠ [])
    (h : ∀ t ∈ path, tokOk t = true) (hf : ∀ t ∈ f, tokOk t = true) :
    moveOrCopy (some f) path root false =
      ofSpec root (match getTok root f with | some n => rAdd root path n | none => none) := by
  unfold moveOrCopy
  simp only [eval_path root hf]
  cases getTok root f with
  | none => rfl
  | some n =>
    simp only [Bool.false_eq_true, if_false, clone_id]
    exact doAdd_refines n root hp h

theorem moveOrCopy_move_refines {f path : Path} (root : Node) (hwf : root.WF) (hp : path ≠ []) (hfp : f ≠ [])
    (h : ∀ t ∈ path, tokOk t = true) (hf : ∀ t ∈ f, tokOk t = true) :
    moveOrCopy (some f) path root true =
      ofSpec root (match getTok root f with
        | some n =>
          if isProperPrefix f path then none
          else
            match rRemove root f with
            | some d1 => rAdd d1 path n
            | none => none
        | none => none) := by
  unfold moveOrCopy
  simp only [eval_path root hf]
  cases hg : getTok root f with
  | none => rfl
  | some n =>
    obtain ⟨d1, hr, hback⟩ := rRemove_rAdd_same hwf hfp hf hg
    simp only [if_true, hr]
    by_cases hsame : f = path
    · subst hsame
      simp [isProperPrefix_irrefl, hback, ofSpec]
    · simp only [if_neg hsame, properPrefix_eq]
      by_cases hpre : isProperPrefix f path = true
      · simp [hpre, ofSpec]
      · simp only [hpre, Bool.false_eq_true, if_false]
        rw [doRemove_refines root hfp hf, hr]
        simp only [ofSpec]
        rw [doAdd_refines n d1 hp h]
        cases hadd : rAdd d1 path n with
        | some d2 => simp [ofSpec]
        | none =>
          simp only [ofSpec]
          rw [doAdd_refines n d1 hfp hf, hback]
          rfl

theorem doTest_refines {v : Node} {path : Path} (root : Node) (hv : v.Valid) (hd : root.Valid)
    (h : ∀ t ∈ path, tokOk t = true) :
    doTest (some v) path root =
      ofSpec root (match getTok root path with
        | some n => if n = v then some root else none
        | none => none) := by
  unfold doTest
  simp only [eval_path root h]
  cases hg : getTok root path with
  | none => rfl
  | some n =>
    have hn := getTok_valid path root n hd hg
    simp only []
    by_cases he : n = v
    · subst he; simp [equals_refl n hn, ofSpec]
    · have : equals v n ≠ true := fun e => he ((equals_iff_eq hv hn).mp e).symm
      simp [this, he, ofSpec]

theorem patchDo_refines {o : OpObj} {d : Node} (ho : OpOk o) (hd : d.Valid) :
    patchDo o d = ofSpec d (rfc6902 o d) := by
  obtain ⟨hin, hval⟩ := ho
  unfold patchDo rfc6902
  cases hp : o.path with
  | none => rfl
  | some path =>
    have hsp := inScope_path hin hp
    have htok := safePath_tokOk hsp
    have hne := safePath_ne_nil hsp
    simp only []
    split
    · cases hv : o.value with
      | none => simp [doAdd, ofSpec]
      | some v => exact doAdd_refines v d hne htok
    · split
      · exact doRemove_refines d hne htok
      · split
        · cases hv : o.value with
          | none => simp [doReplace, ofSpec]
          | some v => exact doReplace_refines v d hne htok
        · split
          · cases hf : o.frm with
            | none => simp [moveOrCopy, ofSpec]
            | some f =>
              have hsf := inScope_frm hin hf
              exact moveOrCopy_move_refines d hd.1 hne (safePath_ne_nil hsf) htok (safePath_tokOk hsf)
          · split
            · cases hf : o.frm with
              | none => simp [moveOrCopy, ofSpec]
              | some f =>
                exact moveOrCopy_copy_refines d hne htok (safePath_tokOk (inScope_frm hin hf))
            · split
              · cases hv : o.value with
                | none => simp [doTest, ofSpec]
                | some v => exact doTest_refines d (hval v hv) hd htok
              · rfl

theorem runPatch_eq_runRfc (ops : List OpObj) : ∀ (d : Node), d.Valid → (∀ o ∈ ops, OpOk o) →
    runPatch ops d = runRfc ops d := by
  induction ops with
  | nil => intro d _ _; rfl
  | cons o os ih =>
    intro d hd hall
    have ho := hall o (List.mem_cons_self ..)
    have hrest : ∀ x ∈ os, OpOk x := fun x hx => hall x (List.mem_cons_of_mem _ hx)
    simp only [runPatch, runRfc, patchDo_refines ho hd]
    cases hr : rfc6902 o d with
    | none => simp only [ofSpec]; rw [ih d hd hrest]
    | some d' => simp only [ofSpec]; rw [ih d' (rfc6902_valid ho hd hr) hrest]

end Ytk.Patch

namespace Ytk.Patch
open Ytk.Ptr

/-! ## facts about the reference itself -/

theorem insertAt_eq_insertIdx {xs : List Node} {i : Nat} (h : i ≤ xs.length) (v : Node) :
    insertAt xs i v = xs.insertIdx i v := by
  induction xs generalizing i with
  | nil =>
    have : i = 0 := by simpa using h
    subst this; simp [insertAt]
  | cons x xs ih =>
    cases i with
    | zero => simp [insertAt]
    | succ j =>
      have hj : j ≤ xs.length := by simpa using h
      have := ih hj
      simp only [insertAt] at this
      simp [insertAt, List.insertIdx_succ_cons, this]

theorem rAdd_list {d : Node} {p : Path} {xs : List Node} {i : Nat} (v : Node) (hp : p ≠ [])
    (htok : ∀ t ∈ p, tokOk t = true) (hpar : getTok d (parent p) = some (.list xs))
    (hi : canonIdx (lastSegment p) = some i) (hle : i ≤ xs.length) :
    rAdd d p v = some (setAt d (parent p) (.list (insertAt xs i v))) ∧
    getTok (setAt d (parent p) (.list (insertAt xs i v))) (parent p) = some (.list (insertAt xs i v)) := by
  refine ⟨?_, get_setAt _ d _ _ (parent_tokOk htok) hpar⟩
  unfold rAdd
  rw [modify_eq _ p d hp htok, hpar]
  simp [addLast, hi, hle]

theorem rRemove_list {d : Node} {p : Path} {xs : List Node} {i : Nat} (hp : p ≠ [])
    (htok : ∀ t ∈ p, tokOk t = true) (hpar : getTok d (parent p) = some (.list xs))
    (hi : canonIdx (lastSegment p) = some i) (hlt : i < xs.length) :
    rRemove d p = some (setAt d (parent p) (.list (xs.eraseIdx i))) ∧
    getTok (setAt d (parent p) (.list (xs.eraseIdx i))) (parent p) = some (.list (xs.eraseIdx i)) := by
  refine ⟨?_, get_setAt _ d _ _ (parent_tokOk htok) hpar⟩
  unfold rRemove
  rw [modify_eq _ p d hp htok, hpar]
  simp [removeLast, hi, hlt]

theorem isProperPrefix_iff (f p : Path) : isProperPrefix f p = true ↔ ∃ r, r ≠ [] ∧ p = f ++ r := by
  induction f generalizing p with
  | nil =>
    cases p with
    | nil => simp [isProperPrefix]
    | cons b bs => simp [isProperPrefix]
  | cons a as ih =>
    cases p with
    | nil => simp [isProperPrefix]
    | cons b bs =>
      simp only [isProperPrefix, Bool.and_eq_true, beq_iff_eq, ih bs, List.cons_append, List.cons.injEq]
      constructor
      · rintro ⟨rfl, r, hr, rfl⟩; exact ⟨r, hr, rfl, rfl⟩
      · rintro ⟨r, hr, rfl, rfl⟩; exact ⟨rfl, r, hr, rfl⟩

/-- after a successful add the value is found at the location -/
theorem getTok_rAdd {d d' v : Node} {p : Path} (hp : p ≠ []) (htok : ∀ t ∈ p, tokOk t = true)
    (h : rAdd d p v = some d') : getTok d' p = some v := by
  unfold rAdd at h
  rw [modify_eq _ p d hp htok] at h
  cases hpar : getTok d (parent p) with
  | none => rw [hpar] at h; cases h
  | some par =>
    rw [hpar] at h
    simp only [] at h
    cases ha : addLast par (lastSegment p) v with
    | none => rw [ha] at h; cases h
    | some par' =>
      rw [ha] at h
      simp only [Option.map_some, Option.some.injEq] at h
      subst h
      rw [getTok_parent_last _ hp, get_setAt _ d par par' (parent_tokOk htok) hpar]
      simp only []
      cases par with
      | leaf s => simp [addLast] at ha
      | cont kvs =>
        simp only [addLast, Option.some.injEq] at ha
        subst ha
        simp [stepRef, AMap.get?_insert_self]
      | list xs =>
        simp only [addLast] at ha
        cases hci : canonIdx (lastSegment p) with
        | none => rw [hci] at ha; cases ha
        | some i =>
          rw [hci] at ha
          simp only [] at ha
          split at ha
          · rename_i hle
            cases ha
            simp only [stepRef, hci]
            rw [insertAt_eq_insertIdx hle, List.getElem?_insertIdx_self, if_pos hle]
          · cases ha

end Ytk.Patch
