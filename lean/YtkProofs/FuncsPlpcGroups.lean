/-
  YtkProofs.FuncsPlpcGroups — a READABLE sufficient condition for `PlpcGroupsOk` (the domain
  predicate of `ParseListPathComponent_generated_eq_model`, YtkProps/C08.lean):

    the component is  name ++ "[" ++ g₁ ++ "]" ++ … ++ "[" ++ gₖ ++ "]",  `name` contains no bracket,
    every group gᵢ is a string of at most 18 ASCII digits

  (`PlpcShape`).  18 digits are below 10^18 < 2^63, so `strconv.Atoi` does not overflow and agrees
  with the model's `atoiOr0` (which reads digit strings only); the empty group reads 0 on both
  sides (Atoi fails, the error is dropped).
-/
import YtkProofs.FuncsPlpc
import YtkProofs.ParseListComp
open Ytk Ytk.Generated

namespace Ytk

theorem digitsToNat_foldl_lt : ∀ (ds : List Char) (acc : Nat), (∀ c ∈ ds, isDigit c = true) →
    ds.foldl (fun a c => a * 10 + (c.toNat - 48)) acc < (acc + 1) * 10 ^ ds.length
  | [], acc, _ => by simp
  | c :: ds, acc, h => by
    have hc := h c (List.mem_cons_self ..)
    have h9 : c.toNat - 48 ≤ 9 := by
      simp only [isDigit, ge_iff_le, Bool.and_eq_true, decide_eq_true_eq] at hc
      omega
    have ih := digitsToNat_foldl_lt ds (acc * 10 + (c.toNat - 48)) (fun x hx => h x (List.mem_cons_of_mem _ hx))
    simp only [List.foldl_cons, List.length_cons]
    calc _ < (acc * 10 + (c.toNat - 48) + 1) * 10 ^ ds.length := ih
      _ ≤ ((acc + 1) * 10) * 10 ^ ds.length := Nat.mul_le_mul_right _ (by omega)
      _ = (acc + 1) * 10 ^ (ds.length + 1) := by rw [Nat.pow_succ, Nat.mul_assoc, Nat.mul_comm 10]

/-- a string of n digits reads a number below 10^n -/
theorem digitsToNat_lt (ds : List Char) (h : ∀ c ∈ ds, isDigit c = true) : digitsToNat ds < 10 ^ ds.length := by
  have := digitsToNat_foldl_lt ds 0 h
  simpa [digitsToNat] using this

/-- `strconv.Atoi` with the error dropped = the model's `atoiOr0` on strings of at most 18 digits
    (the empty string included) -/
theorem atoi_eq_atoiOr0_of_digits (g : List Char) (h1 : ∀ c ∈ g, isDigit c = true) (h2 : g.length ≤ 18) :
    (Go.atoi (String.ofList g)).1 = ((atoiOr0 g : Nat) : Int) := by
  cases g with
  | nil => simp [Go.atoi, Go.atoiDigits, atoiOr0]
  | cons c r =>
    have hall : (c :: r).all isDigit = true := List.all_eq_true.mpr h1
    have hall' : (c :: r).all Go.isDigit = true := by rw [Go.all_isDigit_eq]; exact hall
    have hc := h1 c (List.mem_cons_self ..)
    have hm : c ≠ '-' := by intro e; subst e; simp [isDigit] at hc
    have hp : c ≠ '+' := by intro e; subst e; simp [isDigit] at hc
    have hlt : digitsToNat (c :: r) < 9223372036854775808 := by
      have := digitsToNat_lt (c :: r) h1
      have hp : 10 ^ (c :: r).length ≤ 10 ^ 18 := Nat.pow_le_pow_right (by omega) h2
      omega
    have ha : Go.atoi (String.ofList (c :: r)) = Go.atoiDigits false (c :: r) := by
      unfold Go.atoi
      rw [String.toList_ofList]
      split
      · rename_i ds heq; simp only [List.cons.injEq] at heq; exact absurd heq.1 hm
      · rename_i ds heq; simp only [List.cons.injEq] at heq; exact absurd heq.1 hp
      · rfl
    rw [ha]
    simp only [Go.atoiDigits, List.isEmpty_cons, hall', Bool.not_true, Bool.or_self, Bool.false_eq_true, if_false,
      Go.digitsVal_eq, hlt, if_true]
    simp [atoiOr0, hall]

/-- `[g₁][g₂]…` -/
def renderGroups : List (List Char) → List Char
  | [] => []
  | g :: gs => '[' :: (g ++ ']' :: renderGroups gs)

/-- the readable domain of `ParseListPathComponent_generated_eq_model`: a bracket-free name followed
    by bracket groups, each a string of at most 18 ASCII digits -/
def PlpcShape (c : List Char) : Prop :=
  ∃ (name : List Char) (gs : List (List Char)), c = name ++ renderGroups gs ∧ '[' ∉ name ∧ ']' ∉ name ∧
    ∀ g ∈ gs, (∀ x ∈ g, isDigit x = true) ∧ g.length ≤ 18

theorem not_bracket_of_digits {g : List Char} (h : ∀ x ∈ g, isDigit x = true) : '[' ∉ g ∧ ']' ∉ g := by
  constructor <;> intro hm <;> have := h _ hm <;> simp [isDigit] at this

theorem plpcGroupsOk_of_groups : ∀ (gs : List (List Char)) (fuel : Nat) (name : List Char),
    '[' ∉ name → ']' ∉ name → (∀ g ∈ gs, (∀ x ∈ g, isDigit x = true) ∧ g.length ≤ 18) →
    PlpcGroupsOk fuel (name ++ renderGroups gs)
  | _, 0, _, _, _, _ => by simp [PlpcGroupsOk]
  | [], fuel + 1, name, h1, h2, _ => by
    simp [PlpcGroupsOk, renderGroups, indexOfChar_of_not_mem _ _ h1]
  | g :: gs, fuel + 1, name, h1, h2, hg => by
    obtain ⟨hgd, hgl⟩ := hg g (List.mem_cons_self ..)
    obtain ⟨hb1, hb2⟩ := not_bracket_of_digits hgd
    have hs : indexOfChar '[' (name ++ '[' :: (g ++ ']' :: renderGroups gs)) = some name.length :=
      indexOfChar_append '[' name _ h1
    have he : indexOfChar ']' (name ++ '[' :: (g ++ ']' :: renderGroups gs)) = some (name.length + 1 + g.length) := by
      have : name ++ '[' :: (g ++ ']' :: renderGroups gs) = (name ++ '[' :: g) ++ ']' :: renderGroups gs := by simp
      rw [this, indexOfChar_append ']' (name ++ '[' :: g) _ (by simp [h2, hb2])]
      simp; omega
    unfold PlpcGroupsOk
    simp only [renderGroups, hs, he]
    intro _
    have e1 : ((name ++ '[' :: (g ++ ']' :: renderGroups gs)).drop (name.length + 1)).take
        (name.length + 1 + g.length - (name.length + 1)) = g := by
      have : name ++ '[' :: (g ++ ']' :: renderGroups gs) = (name ++ ['[']) ++ (g ++ ']' :: renderGroups gs) := by simp
      rw [this, List.drop_left' (by simp)]
      simp
    have e2 : (name ++ '[' :: (g ++ ']' :: renderGroups gs)).drop (name.length + 1 + g.length + 1) = renderGroups gs := by
      have : name ++ '[' :: (g ++ ']' :: renderGroups gs) = (name ++ '[' :: g ++ [']']) ++ renderGroups gs := by simp
      rw [this, List.drop_left' (by simp; omega)]
    rw [e1, e2]
    refine ⟨atoi_eq_atoiOr0_of_digits g hgd hgl, ?_⟩
    have := plpcGroupsOk_of_groups gs fuel [] (by simp) (by simp) (fun g' hg' => hg g' (List.mem_cons_of_mem _ hg'))
    simpa using this

/-- `PlpcGroupsOk` from the readable shape, for every fuel -/
theorem plpcGroupsOk_of_shape (c : List Char) (h : PlpcShape c) (fuel : Nat) : PlpcGroupsOk fuel c := by
  obtain ⟨name, gs, rfl, h1, h2, hg⟩ := h
  exact plpcGroupsOk_of_groups gs fuel name h1 h2 hg

end Ytk
