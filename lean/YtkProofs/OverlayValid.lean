/-
  Every layer of an overlay reached by a history of Put / Add / Populate with valid payloads is
  a valid document (`Node.Valid`: keys strictly sorted, no key ends in an index group) — the
  hypothesis under which the merged view is independent of Go map order
  (`YtkProofs/MergeRel.lean`).
-/
import YtkProofs.Overlay
import YtkProofs.Dom

namespace Ytk

theorem slotGet_valid : ∀ (is : List Nat) (cur : Option Node) (n : Node), (∀ m, cur = some m → m.Valid) →
    slotGet cur is = some n → n.Valid
  | [], cur, n, hc, h => by
    simp only [slotGet] at h
    exact hc n h
  | i :: is, cur, n, hc, h => by
    simp only [slotGet] at h
    have hxs : ∀ x ∈ (match cur with | some (.list xs) => xs | _ => []), x.Valid := by
      intro x hx
      split at hx
      · exact (hc _ rfl).of_list_mem hx
      · cases hx
    exact slotGet_valid is _ n (fun m hm => getElem?_valid (padTo_valid hxs) hm) h

/-- both `ensurePath` branches store the updated sub-container the way `add` does -/
theorem insert_eq_add_noIdx {kvs : AMap Node} {p b : String} (v : Node) (hp : parseSeg p = (b, [])) :
    AMap.insert kvs p v = add kvs p v := by
  simp [add, hp]

theorem insert_eq_add_idx {kvs : AMap Node} {p b : String} {i : Nat} {is : List Nat} (v : Node)
    (hp : parseSeg p = (b, i :: is)) :
    AMap.insert kvs b (setSlot (AMap.get? kvs b) (i :: is) v) = add kvs p v := by
  simp [add, hp]

theorem withPath_valid {f : AMap Node → AMap Node}
    (hf : ∀ c, (Node.cont c).Valid → (Node.cont (f c)).Valid) :
    ∀ (ps : List String) (kvs r : AMap Node), (Node.cont kvs).Valid → withPath f kvs ps = .ok r →
      (Node.cont r).Valid
  | [], kvs, r, h, hr => by
    simp only [withPath, Outcome.ok.injEq] at hr
    subst hr
    exact hf kvs h
  | p :: rest, kvs, r, h, hr => by
    simp only [withPath] at hr
    cases hp : parseSeg p with
    | mk b is =>
      rw [hp] at hr
      cases is with
      | nil =>
        simp only at hr
        cases hg : AMap.get? kvs p with
        | none =>
          rw [hg] at hr
          obtain ⟨sub, hsub, e⟩ := Outcome.map_eq_ok hr
          subst e
          rw [insert_eq_add_noIdx _ hp]
          exact add_valid p h (withPath_valid hf rest [] sub Node.Valid.empty hsub)
        | some n =>
          rw [hg] at hr
          cases n with
          | cont c =>
            simp only at hr
            obtain ⟨sub, hsub, e⟩ := Outcome.map_eq_ok hr
            subst e
            rw [insert_eq_add_noIdx _ hp]
            exact add_valid p h (withPath_valid hf rest c sub (get?_valid h hg) hsub)
          | leaf s => simp at hr
          | list xs => simp at hr
      | cons i is =>
        simp only at hr
        have hcur : ∀ m, AMap.get? kvs b = some m → m.Valid := fun m hm => get?_valid h hm
        cases hs : slotGet (AMap.get? kvs b) (i :: is) with
        | none => rw [hs] at hr; simp at hr
        | some n =>
          rw [hs] at hr
          have hn := slotGet_valid (i :: is) _ n hcur hs
          cases n with
          | cont c =>
            simp only at hr
            obtain ⟨sub, hsub, e⟩ := Outcome.map_eq_ok hr
            subst e
            rw [insert_eq_add_idx _ hp]
            exact add_valid p h (withPath_valid hf rest c sub hn hsub)
          | leaf s =>
            simp only at hr
            split at hr
            · obtain ⟨sub, hsub, e⟩ := Outcome.map_eq_ok hr
              subst e
              rw [insert_eq_add_idx _ hp]
              exact add_valid p h (withPath_valid hf rest [] sub Node.Valid.empty hsub)
            · cases hr
          | list xs => simp at hr

namespace Overlay

/-- every layer is a valid document -/
def LayersValid (s : Overlay) : Prop := ∀ q ∈ s, (Node.cont q.2).Valid

theorem mem_setLayer {s : Overlay} {l : String} {c : AMap Node} {q : String × AMap Node}
    (h : q ∈ setLayer s l c) : q.2 = c ∨ q ∈ s := by
  induction s with
  | nil =>
    simp only [setLayer, List.mem_cons, List.not_mem_nil, or_false] at h
    subst h; exact Or.inl rfl
  | cons p rest ih =>
    obtain ⟨n, d⟩ := p
    simp only [setLayer] at h
    split at h
    · simp only [List.mem_cons] at h
      rcases h with rfl | h
      · exact Or.inl rfl
      · exact Or.inr (List.mem_cons_of_mem _ h)
    · simp only [List.mem_cons] at h
      rcases h with rfl | h
      · exact Or.inr (List.mem_cons_self ..)
      · rcases ih h with h | h
        · exact Or.inl h
        · exact Or.inr (List.mem_cons_of_mem _ h)

theorem LayersValid.setLayer {s : Overlay} (h : LayersValid s) (l : String) {c : AMap Node}
    (hc : (Node.cont c).Valid) : LayersValid (setLayer s l c) := by
  intro q hq
  rcases mem_setLayer hq with e | hq
  · rw [e]; exact hc
  · exact h q hq

theorem LayersValid.layerOrEmpty {s : Overlay} (h : LayersValid s) (l : String) :
    (Node.cont (layerOrEmpty s l)).Valid := by
  unfold Overlay.layerOrEmpty layer
  cases hg : AMap.get? s l with
  | none => exact Node.Valid.empty
  | some c => exact h (l, c) (AMap.mem_of_get? hg)

theorem addAll_valid : ∀ (kvs : List (String × Node)) (c : AMap Node), (Node.cont c).Valid →
    (∀ p ∈ kvs, p.2.Valid) → (Node.cont (addAll c kvs)).Valid
  | [], c, h, _ => by simpa [addAll] using h
  | (k, v) :: rest, c, h, hv => by
    simp only [addAll, List.foldl_cons]
    exact addAll_valid rest _ (add_valid k h (hv (k, v) (List.mem_cons_self ..)))
      (fun p hp => hv p (List.mem_cons_of_mem _ hp))

theorem putNode_valid {s s' : Overlay} {l path : String} {v : Node} (hs : LayersValid s) (hv : v.Valid)
    (h : putNode s l path v = .ok s') : LayersValid s' := by
  unfold putNode at h
  obtain ⟨c, hc, e⟩ := Outcome.map_eq_ok h
  subst e
  exact hs.setLayer l (withPath_valid (fun c hc => add_valid _ hc hv) _ _ c (hs.layerOrEmpty l) hc)

theorem putLeaves_valid {l path : String} : ∀ (leaves : List (String × Scalar)) {s s' : Overlay},
    LayersValid s → putLeaves s l path leaves = .ok s' → LayersValid s'
  | [], s, s', hs, h => by
    simp only [putLeaves, Outcome.ok.injEq] at h
    subst h; exact hs
  | (k, sc) :: rest, s, s', hs, h => by
    simp only [putLeaves] at h
    cases h1 : putNode s l (toPath path k) (.leaf sc) with
    | ok s₁ =>
      rw [h1] at h
      exact putLeaves_valid rest (putNode_valid hs (Node.Valid.leaf sc) h1) h
    | err => rw [h1] at h; cases h
    | panic => rw [h1] at h; cases h

/-- the payload of a step is a valid document -/
def Op.PayloadValid : Op → Prop
  | .put _ _ v => v.Valid
  | .add _ c => (Node.cont c).Valid
  | .populate _ _ d => (Node.cont d).Valid

theorem step_valid {s s' : Overlay} {op : Op} (hs : LayersValid s) (hv : op.PayloadValid)
    (h : step s op = .ok s') : LayersValid s' := by
  cases op with
  | put l path v =>
    cases v with
    | cont kvs =>
      have h' : putLeaves s l path (flattenMap kvs) = .ok s' := by simpa [step, put] using h
      exact putLeaves_valid _ hs h'
    | leaf sc =>
      have h' : putNode s l path (.leaf sc) = .ok s' := by simpa [step, put] using h
      exact putNode_valid hs hv h'
    | list xs =>
      have h' : putNode s l path (.list xs) = .ok s' := by simpa [step, put] using h
      exact putNode_valid hs hv h'
  | add l c =>
    simp only [step, Outcome.ok.injEq] at h
    subst h
    have hc : (Node.cont c).Valid := hv
    exact hs.setLayer l (addAll_valid c _ (hs.layerOrEmpty l) (fun p hp => (hc.of_cont_mem hp).1))
  | populate l path d =>
    have hd : (Node.cont d).Valid := hv
    have hall : ∀ p ∈ d, p.2.Valid := fun p hp => (hd.of_cont_mem hp).1
    simp only [step, populate] at h
    split at h
    · simp only [Outcome.ok.injEq] at h
      subst h
      exact hs.setLayer l (addAll_valid d _ (hs.layerOrEmpty l) hall)
    · obtain ⟨c, hc, e⟩ := Outcome.map_eq_ok h
      subst e
      exact hs.setLayer l (withPath_valid (fun c hc => addAll_valid d c hc hall) _ _ c (hs.layerOrEmpty l) hc)

theorem run_valid : ∀ (ops : List Op) {s s' : Overlay}, LayersValid s → (∀ op ∈ ops, op.PayloadValid) →
    run s ops = .ok s' → LayersValid s'
  | [], s, s', hs, _, h => by
    simp only [run, Outcome.ok.injEq] at h
    subst h; exact hs
  | op :: ops, s, s', hs, hv, h => by
    simp only [run] at h
    cases h1 : step s op with
    | ok s₁ =>
      rw [h1] at h
      exact run_valid ops (step_valid hs (hv op (List.mem_cons_self ..)) h1)
        (fun o ho => hv o (List.mem_cons_of_mem _ ho)) h
    | err => rw [h1] at h; cases h
    | panic => rw [h1] at h; cases h

end Overlay
end Ytk
