/-
  YtkProofs.FuncsResolver — the bridge between the BYTE level of props/resolver.go (what the
  translated functions in YtkModel/Generated/Funcs.lean compute) and the TOKEN level of the
  hand-written model YtkModel/Resolver.lean (`lex`, `findEnd`, `findPre`, …).

  `scanEnd` is the character-level meaning of the loop of `propImpl.findEndIndex` (suffix tested
  before prefix, nesting counter, a matched delimiter is skipped as a whole, every other character —
  the characters of the value separator included — is stepped over one by one).
  `scanEnd_eq_findEnd`: on `Delims.ScanOK` triples it is `findEnd` on the lexed text, the offset
  being the length of the rendering of the placeholder tokens.

  Nothing here unfolds a generated definition.
-/
import YtkProofs.ResolverRelex
import YtkProofs.FuncsLemmas

namespace Ytk.Resolver

/-! ## the lexer: basic facts that need no hypothesis on the delimiters -/

theorem isPrefixOfChars_split : ∀ (p l : List Char), isPrefixOfChars p l = true → ∃ r, l = p ++ r
  | [], l, _ => ⟨l, rfl⟩
  | _ :: _, [], h => by simp [isPrefixOfChars] at h
  | a :: as, b :: bs, h => by
    simp only [isPrefixOfChars, Bool.and_eq_true, beq_iff_eq] at h
    obtain ⟨r, hr⟩ := isPrefixOfChars_split as bs h.2
    exact ⟨r, by simp [h.1, hr]⟩

theorem isPrefixOfChars_head {a x : Char} {as xs : List Char}
    (h : isPrefixOfChars (a :: as) (x :: xs) = true) : a = x := by
  simp only [isPrefixOfChars, Bool.and_eq_true, beq_iff_eq] at h
  exact h.1

theorem isPrefixOfChars_head_ne {a x : Char} {as xs : List Char} (h : a ≠ x) :
    isPrefixOfChars (a :: as) (x :: xs) = false := by
  simp [isPrefixOfChars, h]

/-- one step of the lexer on a non-empty text, in terms of `List.drop` -/
theorem lex_pre {d : Delims} {l : List Char} (hp : d.pre ≠ []) (h : isPrefixOfChars d.pre l = true) :
    lex d l = .pre :: lex d (l.drop d.pre.length) := by
  obtain ⟨r, rfl⟩ := isPrefixOfChars_split _ _ h
  cases hpe : d.pre with
  | nil => exact absurd hpe hp
  | cons a as =>
    have h' := h
    rw [hpe] at h'
    have := lexAux_skip d as r
    simp only [lex, List.cons_append, lexAux, hpe, List.isEmpty_cons, Bool.not_false, Bool.true_and,
      List.length_cons, Nat.add_sub_cancel, this]
    rw [← List.cons_append, h']
    simp

theorem lex_suf {d : Delims} {l : List Char} (hp : d.suf ≠ []) (h0 : isPrefixOfChars d.pre l = false)
    (h : isPrefixOfChars d.suf l = true) : lex d l = .suf :: lex d (l.drop d.suf.length) := by
  obtain ⟨r, rfl⟩ := isPrefixOfChars_split _ _ h
  cases hpe : d.suf with
  | nil => exact absurd hpe hp
  | cons a as =>
    have h' := h
    have h0' := h0
    rw [hpe] at h' h0'
    have := lexAux_skip d as r
    simp only [lex, List.cons_append, lexAux, hpe, List.isEmpty_cons, Bool.not_false, Bool.true_and,
      List.length_cons, Nat.add_sub_cancel, this]
    rw [← List.cons_append, h', h0']
    simp

theorem lex_sep {d : Delims} {l : List Char} (hp : d.sep ≠ []) (h0 : isPrefixOfChars d.pre l = false)
    (h1 : isPrefixOfChars d.suf l = false)
    (h : isPrefixOfChars d.sep l = true) : lex d l = .sep :: lex d (l.drop d.sep.length) := by
  obtain ⟨r, rfl⟩ := isPrefixOfChars_split _ _ h
  cases hpe : d.sep with
  | nil => exact absurd hpe hp
  | cons a as =>
    have h' := h
    have h0' := h0
    have h1' := h1
    rw [hpe] at h' h0' h1'
    have := lexAux_skip d as r
    simp only [lex, List.cons_append, lexAux, hpe, List.isEmpty_cons, Bool.not_false, Bool.true_and,
      List.length_cons, Nat.add_sub_cancel, this]
    rw [← List.cons_append, h', h0', h1']
    simp

theorem lex_ch {d : Delims} {c : Char} {cs : List Char} (h0 : isPrefixOfChars d.pre (c :: cs) = false)
    (h1 : isPrefixOfChars d.suf (c :: cs) = false) (h2 : isPrefixOfChars d.sep (c :: cs) = false) :
    lex d (c :: cs) = .ch c :: lex d cs := by
  simp [lex, lexAux, h0, h1, h2]

/-- rendering the lexed text gives the text back (every delimiter triple) -/
theorem unlex_lex (d : Delims) : ∀ (n : Nat) (s : List Char), s.length ≤ n → unlex d (lex d s) = s := by
  intro n
  induction n with
  | zero =>
    intro s hs
    have : s = [] := List.eq_nil_of_length_eq_zero (by omega)
    subst this; rfl
  | succ n ih =>
    intro s hs
    cases s with
    | nil => rfl
    | cons c cs =>
      by_cases hP : (!d.pre.isEmpty && isPrefixOfChars d.pre (c :: cs)) = true
      · simp only [Bool.and_eq_true, Bool.not_eq_eq_eq_not, Bool.not_true, List.isEmpty_eq_false_iff] at hP
        obtain ⟨r, hr⟩ := isPrefixOfChars_split _ _ hP.2
        have hl : 1 ≤ d.pre.length := List.length_pos_iff.mpr hP.1
        rw [lex_pre hP.1 hP.2, unlex, unlexTok, ih _ (by simp at hs ⊢; omega)]
        rw [hr]; simp
      · by_cases hS : (!d.suf.isEmpty && isPrefixOfChars d.suf (c :: cs)) = true
        · simp only [Bool.and_eq_true, Bool.not_eq_eq_eq_not, Bool.not_true, List.isEmpty_eq_false_iff] at hS
          obtain ⟨r, hr⟩ := isPrefixOfChars_split _ _ hS.2
          have hl : 1 ≤ d.suf.length := List.length_pos_iff.mpr hS.1
          have e : lex d (c :: cs) = .suf :: lex d ((c :: cs).drop d.suf.length) := by
            have := lexAux_skip d d.suf.tail r
            cases hse : d.suf with
            | nil => exact absurd hse hS.1
            | cons a as =>
              rw [hse] at hr this hS
              simp only [List.cons_append, List.cons.injEq] at hr
              simp only [List.tail_cons] at this
              obtain ⟨rfl, rfl⟩ := hr
              simp only [lex, lexAux, hP, hS.2, Bool.false_eq_true, if_false, if_true, hse, List.length_cons,
                Nat.add_sub_cancel, this, List.drop_succ_cons, List.drop_left, List.isEmpty_cons, Bool.not_false,
                Bool.true_and]
          rw [e, unlex, unlexTok, ih _ (by simp at hs ⊢; omega)]
          rw [hr]; simp
        · by_cases hV : (!d.sep.isEmpty && isPrefixOfChars d.sep (c :: cs)) = true
          · simp only [Bool.and_eq_true, Bool.not_eq_eq_eq_not, Bool.not_true, List.isEmpty_eq_false_iff] at hV
            obtain ⟨r, hr⟩ := isPrefixOfChars_split _ _ hV.2
            have hl : 1 ≤ d.sep.length := List.length_pos_iff.mpr hV.1
            have e : lex d (c :: cs) = .sep :: lex d ((c :: cs).drop d.sep.length) := by
              have := lexAux_skip d d.sep.tail r
              cases hse : d.sep with
              | nil => exact absurd hse hV.1
              | cons a as =>
                rw [hse] at hr this hV
                simp only [List.cons_append, List.cons.injEq] at hr
                simp only [List.tail_cons] at this
                obtain ⟨rfl, rfl⟩ := hr
                simp only [lex, lexAux, hP, hS, hV.2, Bool.false_eq_true, if_false, if_true, hse, List.length_cons,
                  Nat.add_sub_cancel, this, List.drop_succ_cons, List.drop_left, List.isEmpty_cons, Bool.not_false,
                  Bool.true_and]
            rw [e, unlex, unlexTok, ih _ (by simp at hs ⊢; omega)]
            rw [hr]; simp
          · have e : lex d (c :: cs) = .ch c :: lex d cs := by
              simp only [lex, lexAux, hP, hS, hV, Bool.false_eq_true, if_false]
            rw [e, unlex, unlexTok, ih _ (by simp at hs ⊢; omega)]
            simp

theorem unlex_lex' (d : Delims) (s : List Char) : unlex d (lex d s) = s := unlex_lex d s.length s (Nat.le_refl _)

/-! ## the byte-level scan of `findEndIndex` -/

/-- the loop of `propImpl.findEndIndex` on the characters from the current index on: offset of the
    suffix that closes the placeholder (`none` = notFound).  `skip` = characters of a matched
    delimiter still to step over (`index += p.sl` / `index += p.pl`), `n` = Go's `nested`. -/
def scanEnd (d : Delims) : Nat → Nat → List Char → Option Nat
  | _, _, [] => none
  | skip + 1, n, _ :: cs => (scanEnd d skip n cs).map (· + 1)
  | 0, n, c :: cs =>
    if isPrefixOfChars d.suf (c :: cs) then
      (match n with
       | 0 => some 0
       | m + 1 => (scanEnd d (d.suf.length - 1) m cs).map (· + 1))
    else if isPrefixOfChars d.pre (c :: cs) then (scanEnd d (d.pre.length - 1) (n + 1) cs).map (· + 1)
    else (scanEnd d 0 n cs).map (· + 1)

theorem scanEnd_skip (d : Delims) (n : Nat) (a r : List Char) :
    scanEnd d a.length n (a ++ r) = (scanEnd d 0 n r).map (· + a.length) := by
  induction a with
  | nil => simp
  | cons x a ih =>
    simp only [List.length_cons, List.cons_append, scanEnd, ih, Option.map_map]
    congr 1

theorem scanEnd_nil (d : Delims) (k n : Nat) : scanEnd d k n [] = none := by
  cases k <;> rfl

theorem scanEnd_suf_zero {d : Delims} {l : List Char} (hl : l ≠ []) (h : isPrefixOfChars d.suf l = true) :
    scanEnd d 0 0 l = some 0 := by
  cases l with
  | nil => exact absurd rfl hl
  | cons c cs => simp [scanEnd, h]

theorem scanEnd_suf_succ {d : Delims} {l : List Char} (m : Nat) (hs : d.suf ≠ [])
    (h : isPrefixOfChars d.suf l = true) :
    scanEnd d 0 (m + 1) l = (scanEnd d 0 m (l.drop d.suf.length)).map (· + d.suf.length) := by
  obtain ⟨r, rfl⟩ := isPrefixOfChars_split _ _ h
  cases hse : d.suf with
  | nil => exact absurd hse hs
  | cons a as =>
    have h' := h
    rw [hse] at h'
    simp only [List.cons_append] at h'
    simp only [List.cons_append, scanEnd, hse, h', if_true, List.length_cons, Nat.add_sub_cancel, scanEnd_skip,
      Option.map_map, List.drop_succ_cons, List.drop_left]
    congr 1

theorem scanEnd_pre {d : Delims} {l : List Char} (n : Nat) (hp : d.pre ≠ [])
    (h0 : isPrefixOfChars d.suf l = false) (h : isPrefixOfChars d.pre l = true) :
    scanEnd d 0 n l = (scanEnd d 0 (n + 1) (l.drop d.pre.length)).map (· + d.pre.length) := by
  obtain ⟨r, rfl⟩ := isPrefixOfChars_split _ _ h
  cases hse : d.pre with
  | nil => exact absurd hse hp
  | cons a as =>
    have h' := h
    have h0' := h0
    rw [hse] at h' h0'
    simp only [List.cons_append] at h' h0'
    simp only [List.cons_append, scanEnd, h0', hse, h', if_true, List.length_cons, Nat.add_sub_cancel, scanEnd_skip,
      Option.map_map, List.drop_succ_cons, List.drop_left, Bool.false_eq_true, if_false]
    congr 1

theorem scanEnd_ch {d : Delims} {c : Char} {cs : List Char} (n : Nat)
    (h0 : isPrefixOfChars d.suf (c :: cs) = false) (h1 : isPrefixOfChars d.pre (c :: cs) = false) :
    scanEnd d 0 n (c :: cs) = (scanEnd d 0 n cs).map (· + 1) := by
  simp [scanEnd, h0, h1]

/-- characters that start neither the prefix nor the suffix are stepped over one by one -/
theorem scanEnd_plain {d : Delims} {a b : Char} {as bs : List Char} (hp : d.pre = a :: as) (hs : d.suf = b :: bs)
    (n : Nat) (r : List Char) : ∀ (x : List Char), (∀ c ∈ x, c ≠ a ∧ c ≠ b) →
    scanEnd d 0 n (x ++ r) = (scanEnd d 0 n r).map (· + x.length)
  | [], _ => by simp
  | c :: x, h => by
    have hc := h c (List.mem_cons_self ..)
    have ih := scanEnd_plain hp hs n r x (fun y hy => h y (List.mem_cons_of_mem _ hy))
    rw [List.cons_append, scanEnd_ch n (by rw [hs]; exact isPrefixOfChars_head_ne (Ne.symm hc.2))
      (by rw [hp]; exact isPrefixOfChars_head_ne (Ne.symm hc.1)), ih]
    simp only [Option.map_map, List.length_cons]
    congr 1

/-- the delimiter triples on which the byte-level scan of `findEndIndex` and the token-level
    `findEnd` agree: non-empty, pairwise different first characters (`LexOK`), and no character of
    the value separator starts the prefix or the suffix (the Go loop steps through the separator
    one character at a time, the lexer skips it as a whole).  Implied by "no character shared
    between two delimiters of a triple" (the fixed set of the harness, the builder defaults). -/
def Delims.ScanOK (d : Delims) : Prop :=
  d.LexOK ∧ ∀ c ∈ d.sep, d.pre.head? ≠ some c ∧ d.suf.head? ≠ some c

instance (d : Delims) : Decidable d.ScanOK := inferInstanceAs (Decidable (_ ∧ _))

theorem Delims.ScanOK.cases {d : Delims} (h : d.ScanOK) :
    ∃ a as b bs c cs, d.pre = a :: as ∧ d.suf = b :: bs ∧ d.sep = c :: cs ∧ a ≠ b ∧ a ≠ c ∧ b ≠ c ∧
      ∀ x ∈ d.sep, x ≠ a ∧ x ≠ b := by
  obtain ⟨pre, suf, sep⟩ := d
  obtain ⟨h1, h2⟩ := h
  cases pre with
  | nil => simp [Delims.LexOK] at h1
  | cons a as =>
    cases suf with
    | nil => simp [Delims.LexOK] at h1
    | cons b bs =>
      cases sep with
      | nil => simp [Delims.LexOK] at h1
      | cons c cs =>
        simp only [Delims.LexOK] at h1
        refine ⟨a, as, b, bs, c, cs, rfl, rfl, rfl, h1.1, h1.2.1, h1.2.2, fun x hx => ?_⟩
        have := h2 x hx
        simp only [List.head?_cons, ne_eq, Option.some.injEq] at this
        exact ⟨fun e => this.1 e.symm, fun e => this.2 e.symm⟩

/-- BYTES ↔ TOKENS for `findEndIndex`: the byte-level scan finds the closing suffix exactly where
    the token-level `findEnd` finds it on the lexed text — the offset is the length of the rendering
    of the placeholder tokens; notFound ↔ `none`. -/
theorem scanEnd_eq_findEnd {d : Delims} (hd : d.ScanOK) : ∀ (k : Nat) (s : List Char) (n : Nat), s.length ≤ k →
    scanEnd d 0 n s = (findEnd n (lex d s)).map (fun p => (unlex d p.1).length) := by
  obtain ⟨a, as, b, bs, c, cs, hp, hs, hv, hab, hac, hbc, hsep⟩ := hd.cases
  have hpn : d.pre ≠ [] := by rw [hp]; simp
  have hsn : d.suf ≠ [] := by rw [hs]; simp
  have hvn : d.sep ≠ [] := by rw [hv]; simp
  have hpl : 1 ≤ d.pre.length := by rw [hp]; simp
  have hsl : 1 ≤ d.suf.length := by rw [hs]; simp
  have hvl : 1 ≤ d.sep.length := by rw [hv]; simp
  intro k
  induction k with
  | zero =>
    intro s n hk
    have : s = [] := List.eq_nil_of_length_eq_zero (by omega)
    subst this; rfl
  | succ k ih =>
    intro s n hk
    cases s with
    | nil => rfl
    | cons x xs =>
      simp only [List.length_cons] at hk
      by_cases hP : isPrefixOfChars d.pre (x :: xs) = true
      · have hax : a = x := isPrefixOfChars_head (by rw [hp] at hP; exact hP)
        have hS : isPrefixOfChars d.suf (x :: xs) = false := by
          rw [hs]; exact isPrefixOfChars_head_ne (by rw [← hax]; exact Ne.symm hab)
        rw [scanEnd_pre n hpn hS hP, lex_pre hpn hP, ih _ _ (by simp; omega)]
        simp only [findEnd, Option.map_map]
        congr 1
        funext p
        simp [unlex, unlexTok, Nat.add_comm]
      · have hP' : isPrefixOfChars d.pre (x :: xs) = false := by simpa using hP
        by_cases hS : isPrefixOfChars d.suf (x :: xs) = true
        · rw [lex_suf hsn hP' hS]
          cases n with
          | zero => rw [scanEnd_suf_zero (by simp) hS]; simp [findEnd, unlex]
          | succ m =>
            rw [scanEnd_suf_succ m hsn hS, ih _ _ (by simp; omega)]
            simp only [findEnd, Option.map_map]
            congr 1
            funext p
            simp [unlex, unlexTok, Nat.add_comm]
        · have hS' : isPrefixOfChars d.suf (x :: xs) = false := by simpa using hS
          by_cases hV : isPrefixOfChars d.sep (x :: xs) = true
          · obtain ⟨r, hr⟩ := isPrefixOfChars_split _ _ hV
            rw [lex_sep hvn hP' hS' hV, hr, scanEnd_plain hp hs n r d.sep hsep, List.drop_left,
              ih _ _ (by have := congrArg List.length hr; simp at this; omega)]
            simp only [findEnd, Option.map_map]
            congr 1
            funext p
            simp [unlex, unlexTok, Nat.add_comm]
          · have hV' : isPrefixOfChars d.sep (x :: xs) = false := by simpa using hV
            rw [lex_ch hP' hS' hV', scanEnd_ch n hS' hP', ih _ _ (by omega)]
            simp only [findEnd, Option.map_map]
            congr 1

theorem scanEnd_eq_findEnd' {d : Delims} (hd : d.ScanOK) (s : List Char) (n : Nat) :
    scanEnd d 0 n s = (findEnd n (lex d s)).map (fun p => (unlex d p.1).length) :=
  scanEnd_eq_findEnd hd s.length s n (Nat.le_refl _)

/-! ## `strings.Index` of a delimiter on BYTES = the first delimiter TOKEN of the lexed text -/

theorem isPrefixOfChars_eq : ∀ (p l : List Char), isPrefixOfChars p l = p.isPrefixOf l
  | [], l => by cases l <;> simp [isPrefixOfChars]
  | _ :: _, [] => by simp [isPrefixOfChars]
  | a :: as, b :: bs => by simp [isPrefixOfChars, List.isPrefixOf, isPrefixOfChars_eq as bs]

theorem isPrefixOfChars_append {p l : List Char} (b : List Char) (h : isPrefixOfChars p l = true) :
    isPrefixOfChars p (l ++ b) = true := by
  obtain ⟨r, rfl⟩ := isPrefixOfChars_split _ _ h
  rw [List.append_assoc]; exact isPrefixOfChars_self _ _

def IsDelim (y : Tok) : Prop := y = .pre ∨ y = .suf ∨ y = .sep

/-- one step of the lexer under `LexOK`: exactly one delimiter matches at the head, or none -/
theorem lex_step {d : Delims} (hd : d.LexOK) (c : Char) (cs : List Char) :
    (∃ y, IsDelim y ∧ isPrefixOfChars (unlexTok d y) (c :: cs) = true ∧
        lex d (c :: cs) = y :: lex d ((c :: cs).drop (unlexTok d y).length) ∧ 1 ≤ (unlexTok d y).length ∧
        ∀ z, IsDelim z → z ≠ y → isPrefixOfChars (unlexTok d z) (c :: cs) = false)
    ∨ (isPrefixOfChars d.pre (c :: cs) = false ∧ isPrefixOfChars d.suf (c :: cs) = false ∧
        isPrefixOfChars d.sep (c :: cs) = false ∧ lex d (c :: cs) = .ch c :: lex d cs) := by
  obtain ⟨pre, suf, sep⟩ := d
  cases pre with
  | nil => simp [Delims.LexOK] at hd
  | cons a as =>
    cases suf with
    | nil => simp [Delims.LexOK] at hd
    | cons b bs =>
      cases sep with
      | nil => simp [Delims.LexOK] at hd
      | cons e es =>
        simp only [Delims.LexOK] at hd
        obtain ⟨hab, hae, hbe⟩ := hd
        by_cases hP : isPrefixOfChars (a :: as) (c :: cs) = true
        · have hca := isPrefixOfChars_head hP
          left
          refine ⟨.pre, Or.inl rfl, hP, lex_pre (by simp) hP, by simp [unlexTok], ?_⟩
          intro z hz hne
          rcases hz with rfl | rfl | rfl
          · exact absurd rfl hne
          · exact isPrefixOfChars_head_ne (by rw [← hca]; exact Ne.symm hab)
          · exact isPrefixOfChars_head_ne (by rw [← hca]; exact Ne.symm hae)
        · have hP' : isPrefixOfChars (a :: as) (c :: cs) = false := by simpa using hP
          by_cases hS : isPrefixOfChars (b :: bs) (c :: cs) = true
          · have hcb := isPrefixOfChars_head hS
            left
            refine ⟨.suf, Or.inr (Or.inl rfl), hS, lex_suf (by simp) hP' hS, by simp [unlexTok], ?_⟩
            intro z hz hne
            rcases hz with rfl | rfl | rfl
            · exact hP'
            · exact absurd rfl hne
            · exact isPrefixOfChars_head_ne (by rw [← hcb]; exact Ne.symm hbe)
          · have hS' : isPrefixOfChars (b :: bs) (c :: cs) = false := by simpa using hS
            by_cases hV : isPrefixOfChars (e :: es) (c :: cs) = true
            · left
              refine ⟨.sep, Or.inr (Or.inr rfl), hV, lex_sep (by simp) hP' hS' hV, by simp [unlexTok], ?_⟩
              intro z hz hne
              rcases hz with rfl | rfl | rfl
              · exact hP'
              · exact hS'
              · exact absurd rfl hne
            · have hV' : isPrefixOfChars (e :: es) (c :: cs) = false := by simpa using hV
              exact Or.inr ⟨hP', hS', hV', lex_ch hP' hS' hV'⟩

/-- the tokens before the first token `x`, the tokens behind it (`findPre` = `findTokG .pre`,
    `findSep` = `findTokG .sep`) -/
def findTokG (x : Tok) : Toks → Option (Toks × Toks)
  | [] => none
  | t :: r => if t = x then some ([], r) else (findTokG x r).map fun p => (t :: p.1, p.2)

theorem findPre_eq_findTokG : ∀ (s : Toks), findPre s = findTokG .pre s
  | [] => rfl
  | t :: r => by cases t <;> simp [findPre, findTokG, findPre_eq_findTokG r]

theorem findSep_eq_findTokG : ∀ (s : Toks), findSep s = findTokG .sep s
  | [] => rfl
  | t :: r => by cases t <;> simp [findSep, findTokG, findSep_eq_findTokG r]

theorem findTokG_some {x : Tok} : ∀ {s b a : Toks}, findTokG x s = some (b, a) → s = b ++ x :: a
  | [], _, _, h => by simp [findTokG] at h
  | t :: r, b, a, h => by
    unfold findTokG at h
    by_cases ht : t = x
    · simp only [ht, if_true, Option.some.injEq, Prod.mk.injEq] at h
      obtain ⟨rfl, rfl⟩ := h
      simp [ht]
    · simp only [ht, if_false, Option.map_eq_some_iff] at h
      obtain ⟨⟨b', a'⟩, hp, he⟩ := h
      simp only [Prod.mk.injEq] at he
      obtain ⟨rfl, rfl⟩ := he
      simp [findTokG_some hp]

/-- characters different from the first character of the needle are stepped over -/
theorem stringsIndexC_skip {x : Char} {xs : List Char} (r : List Char) : ∀ (y : List Char) (n : Nat),
    (∀ c ∈ y, c ≠ x) → Go.stringsIndexC (x :: xs) (y ++ r) n = Go.stringsIndexC (x :: xs) r (n + y.length)
  | [], n, _ => by simp
  | c :: y, n, h => by
    have hc : (x == c) = false := by
      rw [beq_eq_false_iff_ne]; exact Ne.symm (h c (List.mem_cons_self ..))
    have ih := stringsIndexC_skip (x := x) (xs := xs) r y (n + 1) (fun z hz => h z (List.mem_cons_of_mem _ hz))
    simp only [List.cons_append, Go.stringsIndexC, List.isPrefixOf, hc, Bool.false_and, Bool.false_eq_true,
      if_false, ih, List.length_cons]
    congr 1; omega

/-- BYTES ↔ TOKENS for `strings.Index(s, X)`, X the prefix or the separator: the byte index of the
    first occurrence is the length of the rendering of the tokens before the first X token; −1 ↔ no X
    token.  Hypothesis: the first character of X occurs in no OTHER delimiter. -/
theorem stringsIndexC_eq_findTok {d : Delims} (hd : d.LexOK) (x : Tok) (hx : x = .pre ∨ x = .sep)
    (hdis : ∀ y, IsDelim y → y ≠ x → ∀ c ∈ unlexTok d y, (unlexTok d x).head? ≠ some c) :
    ∀ (k : Nat) (s : List Char), s.length ≤ k → ∀ (n : Nat),
      Go.stringsIndexC (unlexTok d x) s n
        = (match findTokG x (lex d s) with
           | none => -1
           | some (b, _) => ((n + (unlex d b).length : Nat) : Int)) := by
  have hxd : IsDelim x := by rcases hx with rfl | rfl; exact Or.inl rfl; exact Or.inr (Or.inr rfl)
  obtain ⟨x0, xs, hX⟩ : ∃ x0 xs, unlexTok d x = x0 :: xs := by
    obtain ⟨a, as, b, bs, c, cs, hp, hs, hv, _⟩ : ∃ a as b bs c cs, d.pre = a :: as ∧ d.suf = b :: bs ∧ d.sep = c :: cs ∧ True := by
      obtain ⟨pre, suf, sep⟩ := d
      cases pre <;> cases suf <;> cases sep <;> simp [Delims.LexOK] at hd ⊢
    rcases hx with rfl | rfl
    · exact ⟨a, as, by simp [unlexTok, hp]⟩
    · exact ⟨c, cs, by simp [unlexTok, hv]⟩
  intro k
  induction k with
  | zero =>
    intro s hk n
    have : s = [] := List.eq_nil_of_length_eq_zero (by omega)
    subst this
    simp [hX, Go.stringsIndexC, lex, lexAux, findTokG]
  | succ k ih =>
    intro s hk n
    cases s with
    | nil => simp [hX, Go.stringsIndexC, lex, lexAux, findTokG]
    | cons c cs =>
      simp only [List.length_cons] at hk
      rcases lex_step hd c cs with ⟨y, hy, hm, hl, hlen, hoth⟩ | ⟨hP, hS, hV, hl⟩
      · by_cases hyx : y = x
        · subst hyx
          have : (unlexTok d y).isPrefixOf (c :: cs) = true := by rw [← isPrefixOfChars_eq]; exact hm
          rw [hl]
          simp [Go.stringsIndexC, this, findTokG, unlex]
        · obtain ⟨r, hr⟩ := isPrefixOfChars_split _ _ hm
          have hne : ∀ z ∈ unlexTok d y, z ≠ x0 := by
            intro z hz e
            have := hdis y hy hyx z hz
            rw [hX] at this
            simp [e] at this
          rw [hl, hr, List.drop_left, hX, stringsIndexC_skip r _ n hne, ← hX,
            ih r (by have := congrArg List.length hr; simp at this; omega)]
          simp only [findTokG, hyx, if_false]
          cases findTokG x (lex d r) with
          | none => rfl
          | some p => simp [unlex, Nat.add_assoc]
      · have hnx : isPrefixOfChars (unlexTok d x) (c :: cs) = false := by
          rcases hx with rfl | rfl
          · exact hP
          · exact hV
        have hnx' : (unlexTok d x).isPrefixOf (c :: cs) = false := by rw [← isPrefixOfChars_eq]; exact hnx
        have hcx : Tok.ch c ≠ x := by rcases hx with rfl | rfl <;> simp
        rw [hl]
        have e : Go.stringsIndexC (unlexTok d x) (c :: cs) n = Go.stringsIndexC (unlexTok d x) cs (n + 1) := by
          rw [hX] at hnx' ⊢
          simp [Go.stringsIndexC, hnx']
        rw [e, ih cs (by omega)]
        simp only [findTokG, hcx, if_false]
        cases findTokG x (lex d cs) with
        | none => rfl
        | some p => simp [unlex, unlexTok, Nat.add_assoc, Nat.add_comm 1]

/-! ## segments of a lexed text lex to themselves -/

/-- a segment at the FRONT of a lexed text, cut at a token boundary, re-lexes to itself -/
theorem lex_unlex_prefix {d : Delims} (hd : d.LexOK) : ∀ (k : Nat) (s : List Char), s.length ≤ k →
    ∀ (t1 t2 : Toks), lex d s = t1 ++ t2 → lex d (unlex d t1) = t1 := by
  intro k
  induction k with
  | zero =>
    intro s hk t1 t2 h
    have : s = [] := List.eq_nil_of_length_eq_zero (by omega)
    subst this
    have : t1 = [] := by
      have h' : ([] : Toks) = t1 ++ t2 := h
      cases t1 with
      | nil => rfl
      | cons _ _ => simp at h'
    subst this; rfl
  | succ k ih =>
    intro s hk t1 t2 h
    cases t1 with
    | nil => rfl
    | cons y t1' =>
      cases s with
      | nil => simp [lex, lexAux] at h
      | cons c cs =>
        simp only [List.length_cons] at hk
        rcases lex_step hd c cs with ⟨y', hy, hm, hl, hlen, _⟩ | ⟨hP, hS, hV, hl⟩
        · rw [hl] at h
          simp only [List.cons_append, List.cons.injEq] at h
          obtain ⟨rfl, h2⟩ := h
          have hi := ih _ (by simp; omega) t1' t2 h2
          have hc : CleanTok d y' := by rcases hy with rfl | rfl | rfl <;> exact trivial
          have := lex_unlexTok hd hc (unlex d t1')
          unfold lex at hi ⊢
          rw [unlex, this, hi]
        · rw [hl] at h
          simp only [List.cons_append, List.cons.injEq] at h
          obtain ⟨rfl, h2⟩ := h
          have hi := ih cs (by omega) t1' t2 h2
          have hcs : cs = unlex d t1' ++ unlex d t2 := by
            have := unlex_lex' d cs
            rw [h2, DivR.unlex_append] at this
            exact this.symm
          have np : ∀ Y, isPrefixOfChars Y (c :: cs) = false → isPrefixOfChars Y (c :: unlex d t1') = false := by
            intro Y hY
            cases hh : isPrefixOfChars Y (c :: unlex d t1') with
            | false => rfl
            | true =>
              have := isPrefixOfChars_append (unlex d t2) hh
              rw [List.cons_append, ← hcs, hY] at this
              exact absurd this (by simp)
          rw [unlex, unlexTok, List.singleton_append, lex_ch (np _ hP) (np _ hS) (np _ hV), hi]

/-- a segment at the END of a lexed text, cut at a token boundary, re-lexes to itself -/
theorem lex_unlex_suffix {d : Delims} (hd : d.LexOK) : ∀ (k : Nat) (s : List Char), s.length ≤ k →
    ∀ (t1 t2 : Toks), lex d s = t1 ++ t2 → lex d (unlex d t2) = t2 := by
  intro k
  induction k with
  | zero =>
    intro s hk t1 t2 h
    have : s = [] := List.eq_nil_of_length_eq_zero (by omega)
    subst this
    have h' : ([] : Toks) = t1 ++ t2 := h
    have : t2 = [] := by
      cases t1 <;> cases t2 <;> simp at h' ⊢
    subst this; rfl
  | succ k ih =>
    intro s hk t1 t2 h
    cases t1 with
    | nil =>
      simp only [List.nil_append] at h
      rw [← h, unlex_lex']
    | cons y t1' =>
      cases s with
      | nil => simp [lex, lexAux] at h
      | cons c cs =>
        simp only [List.length_cons] at hk
        rcases lex_step hd c cs with ⟨y', hy, hm, hl, hlen, _⟩ | ⟨hP, hS, hV, hl⟩
        · rw [hl] at h
          simp only [List.cons_append, List.cons.injEq] at h
          exact ih _ (by simp; omega) t1' t2 h.2
        · rw [hl] at h
          simp only [List.cons_append, List.cons.injEq] at h
          exact ih cs (by omega) t1' t2 h.2

/-- the delimiter triples on which the translated byte-level code of props/resolver.go and the
    token-level model agree: `ScanOK` (non-empty, pairwise different first characters, no character
    of the separator starts the prefix or the suffix) and, for `strings.Index`: the first character
    of the prefix occurs neither in the suffix nor in the separator, the first character of the
    separator neither in the prefix nor in the suffix.  Implied by "no character shared between
    two delimiters of a triple". -/
def Delims.BytesOK (d : Delims) : Prop :=
  d.ScanOK ∧ (∀ c ∈ d.suf ++ d.sep, d.pre.head? ≠ some c) ∧ (∀ c ∈ d.pre ++ d.suf, d.sep.head? ≠ some c)

instance (d : Delims) : Decidable d.BytesOK := inferInstanceAs (Decidable (_ ∧ _))

/-- `strings.Index(s, prefix)` on bytes ↔ `findPre` on the lexed text -/
theorem stringsIndex_pre {d : Delims} (hd : d.BytesOK) (s : String) :
    Go.stringsIndex s (String.ofList d.pre)
      = (match findPre (lex d s.toList) with
         | none => -1
         | some (b, _) => ((unlex d b).length : Int)) := by
  have := stringsIndexC_eq_findTok hd.1.1 .pre (Or.inl rfl) (by
    intro y hy hne c hc
    rcases hy with rfl | rfl | rfl
    · exact absurd rfl hne
    · exact hd.2.1 c (List.mem_append_left _ hc)
    · exact hd.2.1 c (List.mem_append_right _ hc)) s.toList.length s.toList (Nat.le_refl _) 0
  simp only [unlexTok, Nat.zero_add] at this
  rw [Go.stringsIndex, String.toList_ofList, this, findPre_eq_findTokG]

/-- `strings.Index(s, separator)` on bytes ↔ `findSep` on the lexed text -/
theorem stringsIndex_sep {d : Delims} (hd : d.BytesOK) (s : String) :
    Go.stringsIndex s (String.ofList d.sep)
      = (match findSep (lex d s.toList) with
         | none => -1
         | some (b, _) => ((unlex d b).length : Int)) := by
  have := stringsIndexC_eq_findTok hd.1.1 .sep (Or.inr rfl) (by
    intro y hy hne c hc
    rcases hy with rfl | rfl | rfl
    · exact hd.2.2 c (List.mem_append_left _ hc)
    · exact hd.2.2 c (List.mem_append_right _ hc)
    · exact absurd rfl hne) s.toList.length s.toList (Nat.le_refl _) 0
  simp only [unlexTok, Nat.zero_add] at this
  rw [Go.stringsIndex, String.toList_ofList, this, findSep_eq_findTokG]

/-- `strings.Index` of the prefix, counted from `n` (as `indexAfter` uses it) -/
theorem stringsIndexC_pre {d : Delims} (hd : d.BytesOK) (x : List Char) (n : Nat) :
    Go.stringsIndexC d.pre x n
      = (match findPre (lex d x) with
         | none => -1
         | some (b, _) => ((n + (unlex d b).length : Nat) : Int)) := by
  have := stringsIndexC_eq_findTok hd.1.1 .pre (Or.inl rfl) (by
    intro y hy hne c hc
    rcases hy with rfl | rfl | rfl
    · exact absurd rfl hne
    · exact hd.2.1 c (List.mem_append_left _ hc)
    · exact hd.2.1 c (List.mem_append_right _ hc)) x.length x (Nat.le_refl _) n
  simp only [unlexTok] at this
  rw [this, findPre_eq_findTokG]

end Ytk.Resolver
