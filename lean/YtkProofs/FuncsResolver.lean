/-
  YtkProofs.FuncsResolver — the bridge between the BYTE level of props/resolver.go (what the
  translated functions in YtkModel/Generated/Funcs.lean compute) and the TOKEN level of the
  hand-written model YtkModel/Resolver.lean (`lex`, `findEnd`, `findPre`, …).

  `scanEnd` is the character-level meaning of the loop of `propImpl.findEndIndex` (suffix tested
  before prefix, nesting counter, a matched delimiter is skipped as a whole, every other character —
  the characters of the value separator included — is stepped over one by one).
  `scanEnd_eq_findEnd`: on `Delims.ScanOK` triples it is `findEnd` on the lexed text, the offset
  being the length of the rendering of the placeholder tokens.

  Nothing here unfolds a generated definition.
-/
import YtkProofs.ResolverRelex
import YtkProofs.FuncsLemmas

namespace Ytk.Resolver

/-! ## the lexer: basic facts that need no hypothesis on the delimiters -/

theorem isPrefixOfChars_split : ∀ (p l : List Char), isPrefixOfChars p l = true → ∃ r, l = p ++ r
  | [], l, _ => ⟨l, rfl⟩
  | _ :: _, [], h => by simp [isPrefixOfChars] at h
  | a :: as, b :: bs, h => by
    simp only [isPrefixOfChars, Bool.and_eq_true, beq_iff_eq] at h
    obtain ⟨r, hr⟩ := isPrefixOfChars_split as bs h.2
    exact ⟨r, by simp [h.1, hr]⟩

theorem isPrefixOfChars_head {a x : Char} {as xs : List Char}
    (h : isPrefixOfChars (a :: as) (x :: xs) = true) : a = x := by
  simp only [isPrefixOfChars, Bool.and_eq_true, beq_iff_eq] at h
  exact h.1

theorem isPrefixOfChars_head_ne {a x : Char} {as xs : List Char} (h : a ≠ x) :
    isPrefixOfChars (a :: as) (x :: xs) = false := by
  simp [isPrefixOfChars, h]

/-- one step of the lexer on a non-empty text, in terms of `List.drop` -/
theorem lex_pre {d : Delims} {l : List Char} (hp : d.pre ≠ []) (h : isPrefixOfChars d.pre l = true) :
    lex d l = .pre :: lex d (l.drop d.pre.length) := by
  obtain ⟨r, rfl⟩ := isPrefixOfChars_split _ _ h
  cases hpe : d.pre with
  | nil => exact absurd hpe hp
  | cons a as =>
    have h' := h
    rw [hpe] at h'
    have := lexAux_skip d as r
    simp only [lex, List.cons_append, lexAux, hpe, List.isEmpty_cons, Bool.not_false, Bool.true_and,
      List.length_cons, Nat.add_sub_cancel, this]
    rw [← List.cons_append, h']
    simp

theorem lex_suf {d : Delims} {l : List Char} (hp : d.suf ≠ []) (h0 : isPrefixOfChars d.pre l = false)
    (h : isPrefixOfChars d.suf l = true) : lex d l = .suf :: lex d (l.drop d.suf.length) := by
  obtain ⟨r, rfl⟩ := isPrefixOfChars_split _ _ h
  cases hpe : d.suf with
  | nil => exact absurd hpe hp
  | cons a as =>
    have h' := h
    have h0' := h0
    rw [hpe] at h' h0'
    have := lexAux_skip d as r
    simp only [lex, List.cons_append, lexAux, hpe, List.isEmpty_cons, Bool.not_false, Bool.true_and,
      List.length_cons, Nat.add_sub_cancel, this]
    rw [← List.cons_append, h', h0']
    simp

theorem lex_sep {d : Delims} {l : List Char} (hp : d.sep ≠ []) (h0 : isPrefixOfChars d.pre l = false)
    (h1 : isPrefixOfChars d.suf l = false)
    (h : isPrefixOfChars d.sep l = true) : lex d l = .sep :: lex d (l.drop d.sep.length) := by
  obtain ⟨r, rfl⟩ := isPrefixOfChars_split _ _ h
  cases hpe : d.sep with
  | nil => exact absurd hpe hp
  | cons a as =>
    have h' := h
    have h0' := h0
    have h1' := h1
    rw [hpe] at h' h0' h1'
    have := lexAux_skip d as r
    simp only [lex, List.cons_append, lexAux, hpe, List.isEmpty_cons, Bool.not_false, Bool.true_and,
      List.length_cons, Nat.add_sub_cancel, this]
    rw [← List.cons_append, h', h0', h1']
    simp

theorem lex_ch {d : Delims} {c : Char} {cs : List Char} (h0 : isPrefixOfChars d.pre (c :: cs) = false)
    (h1 : isPrefixOfChars d.suf (c :: cs) = false) (h2 : isPrefixOfChars d.sep (c :: cs) = false) :
    lex d (c :: cs) = .ch c :: lex d cs := by
  simp [lex, lexAux, h0, h1, h2]

/-- rendering the lexed text gives the text back (every delimiter triple) -/
theorem unlex_lex (d : Delims) : ∀ (n : Nat) (s : List Char), s.length ≤ n → unlex d (lex d s) = s := by
  intro n
  induction n with
  | zero =>
    intro s hs
    have : s = [] := List.eq_nil_of_length_eq_zero (by omega)
    subst this; rfl
  | succ n ih =>
    intro s hs
    cases s with
    | nil => rfl
    | cons c cs =>
      by_cases hP : (!d.pre.isEmpty && isPrefixOfChars d.pre (c :: cs)) = true
      · simp only [Bool.and_eq_true, Bool.not_eq_eq_eq_not, Bool.not_true, List.isEmpty_eq_false_iff] at hP
        obtain ⟨r, hr⟩ := isPrefixOfChars_split _ _ hP.2
        have hl : 1 ≤ d.pre.length := List.length_pos_iff.mpr hP.1
        rw [lex_pre hP.1 hP.2, unlex, unlexTok, ih _ (by simp at hs ⊢; omega)]
        rw [hr]; simp
      · by_cases hS : (!d.suf.isEmpty && isPrefixOfChars d.suf (c :: cs)) = true
        · simp only [Bool.and_eq_true, Bool.not_eq_eq_eq_not, Bool.not_true, List.isEmpty_eq_false_iff] at hS
          obtain ⟨r, hr⟩ := isPrefixOfChars_split _ _ hS.2
          have hl : 1 ≤ d.suf.length := List.length_pos_iff.mpr hS.1
          have e : lex d (c :: cs) = .suf :: lex d ((c :: cs).drop d.suf.length) := by
            have := lexAux_skip d d.suf.tail r
            cases hse : d.suf with
            | nil => exact absurd hse hS.1
            | cons a as =>
              rw [hse] at hr this hS
              simp only [List.cons_append, List.cons.injEq] at hr
              simp only [List.tail_cons] at this
              obtain ⟨rfl, rfl⟩ := hr
              simp only [lex, lexAux, hP, hS.2, Bool.false_eq_true, if_false, if_true, hse, List.length_cons,
                Nat.add_sub_cancel, this, List.drop_succ_cons, List.drop_left, List.isEmpty_cons, Bool.not_false,
                Bool.true_and]
          rw [e, unlex, unlexTok, ih _ (by simp at hs ⊢; omega)]
          rw [hr]; simp
        · by_cases hV : (!d.sep.isEmpty && isPrefixOfChars d.sep (c :: cs)) = true
          · simp only [Bool.and_eq_true, Bool.not_eq_eq_eq_not, Bool.not_true, List.isEmpty_eq_false_iff] at hV
            obtain ⟨r, hr⟩ := isPrefixOfChars_split _ _ hV.2
            have hl : 1 ≤ d.sep.length := List.length_pos_iff.mpr hV.1
            have e : lex d (c :: cs) = .sep :: lex d ((c :: cs).drop d.sep.length) := by
              have := lexAux_skip d d.sep.tail r
              cases hse : d.sep with
              | nil => exact absurd hse hV.1
              | cons a as =>
                rw [hse] at hr this hV
                simp only [List.cons_append, List.cons.injEq] at hr
                simp only [List.tail_cons] at this
                obtain ⟨rfl, rfl⟩ := hr
                simp only [lex, lexAux, hP, hS, hV.2, Bool.false_eq_true, if_false, if_true, hse, List.length_cons,
                  Nat.add_sub_cancel, this, List.drop_succ_cons, List.drop_left, List.isEmpty_cons, Bool.not_false,
                  Bool.true_and]
            rw [e, unlex, unlexTok, ih _ (by simp at hs ⊢; omega)]
            rw [hr]; simp
          · have e : lex d (c :: cs) = .ch c :: lex d cs := by
              simp only [lex, lexAux, hP, hS, hV, Bool.false_eq_true, if_false]
            rw [e, unlex, unlexTok, ih _ (by simp at hs ⊢; omega)]
            simp

theorem unlex_lex' (d : Delims) (s : List Char) : unlex d (lex d s) = s := unlex_lex d s.length s (Nat.le_refl _)

/-! ## the byte-level scan of `findEndIndex` -/

/-- the loop of `propImpl.findEndIndex` on the characters from the current index on: offset of the
    suffix that closes the placeholder (`none` = notFound).  `skip` = characters of a matched
    delimiter still to step over (`index += p.sl` / `index += p.pl`), `n` = Go's `nested`. -/
def scanEnd (d : Delims) : Nat → Nat → List Char → Option Nat
  | _, _, [] => none
  | skip + 1, n, _ :: cs => (scanEnd d skip n cs).map (· + 1)
  | 0, n, c :: cs =>
    if isPrefixOfChars d.suf (c :: cs) then
      (match n with
       | 0 => some 0
       | m + 1 => (scanEnd d (d.suf.length - 1) m cs).map (· + 1))
    else if isPrefixOfChars d.pre (c :: cs) then (scanEnd d (d.pre.length - 1) (n + 1) cs).map (· + 1)
    else (scanEnd d 0 n cs).map (· + 1)

theorem scanEnd_skip (d : Delims) (n : Nat) (a r : List Char) :
    scanEnd d a.length n (a ++ r) = (scanEnd d 0 n r).map (· + a.length) := by
  induction a with
  | nil => simp
  | cons x a ih =>
    simp only [List.length_cons, List.cons_append, scanEnd, ih, Option.map_map]
    congr 1

theorem scanEnd_nil (d : Delims) (k n : Nat) : scanEnd d k n [] = none := by
  cases k <;> rfl

theorem scanEnd_suf_zero {d : Delims} {l : List Char} (hl : l ≠ []) (h : isPrefixOfChars d.suf l = true) :
    scanEnd d 0 0 l = some 0 := by
  cases l with
  | nil => exact absurd rfl hl
  | cons c cs => simp [scanEnd, h]

theorem scanEnd_suf_succ {d : Delims} {l : List Char} (m : Nat) (hs : d.suf ≠ [])
    (h : isPrefixOfChars d.suf l = true) :
    scanEnd d 0 (m + 1) l = (scanEnd d 0 m (l.drop d.suf.length)).map (· + d.suf.length) := by
  obtain ⟨r, rfl⟩ := isPrefixOfChars_split _ _ h
  cases hse : d.suf with
  | nil => exact absurd hse hs
  | cons a as =>
    have h' := h
    rw [hse] at h'
    simp only [List.cons_append] at h'
    simp only [List.cons_append, scanEnd, hse, h', if_true, List.length_cons, Nat.add_sub_cancel, scanEnd_skip,
      Option.map_map, List.drop_succ_cons, List.drop_left]
    congr 1

theorem scanEnd_pre {d : Delims} {l : List Char} (n : Nat) (hp : d.pre ≠ [])
    (h0 : isPrefixOfChars d.suf l = false) (h : isPrefixOfChars d.pre l = true) :
    scanEnd d 0 n l = (scanEnd d 0 (n + 1) (l.drop d.pre.length)).map (· + d.pre.length) := by
  obtain ⟨r, rfl⟩ := isPrefixOfChars_split _ _ h
  cases hse : d.pre with
  | nil => exact absurd hse hp
  | cons a as =>
    have h' := h
    have h0' := h0
    rw [hse] at h' h0'
    simp only [List.cons_append] at h' h0'
    simp only [List.cons_append, scanEnd, h0', hse, h', if_true, List.length_cons, Nat.add_sub_cancel, scanEnd_skip,
      Option.map_map, List.drop_succ_cons, List.drop_left, Bool.false_eq_true, if_false]
    congr 1

theorem scanEnd_ch {d : Delims} {c : Char} {cs : List Char} (n : Nat)
    (h0 : isPrefixOfChars d.suf (c :: cs) = false) (h1 : isPrefixOfChars d.pre (c :: cs) = false) :
    scanEnd d 0 n (c :: cs) = (scanEnd d 0 n cs).map (· + 1) := by
  simp [scanEnd, h0, h1]

/-- characters that start neither the prefix nor the suffix are stepped over one by one -/
theorem scanEnd_plain {d : Delims} {a b : Char} {as bs : List Char} (hp : d.pre = a :: as) (hs : d.suf = b :: bs)
    (n : Nat) (r : List Char) : ∀ (x : List Char), (∀ c ∈ x, c ≠ a ∧ c ≠ b) →
    scanEnd d 0 n (x ++ r) = (scanEnd d 0 n r).map (· + x.length)
  | [], _ => by simp
  | c :: x, h => by
    have hc := h c (List.mem_cons_self ..)
    have ih := scanEnd_plain hp hs n r x (fun y hy => h y (List.mem_cons_of_mem _ hy))
    rw [List.cons_append, scanEnd_ch n (by rw [hs]; exact isPrefixOfChars_head_ne (Ne.symm hc.2))
      (by rw [hp]; exact isPrefixOfChars_head_ne (Ne.symm hc.1)), ih]
    simp only [Option.map_map, List.length_cons]
    congr 1

/-- the delimiter triples on which the byte-level scan of `findEndIndex` and the token-level
    `findEnd` agree: non-empty, pairwise different first characters (`LexOK`), and no character of
    the value separator starts the prefix or the suffix (the Go loop steps through the separator
    one character at a time, the lexer skips it as a whole).  Implied by "no character shared
    between two delimiters of a triple" (the fixed set of the harness, the builder defaults). -/
def Delims.ScanOK (d : Delims) : Prop :=
  d.LexOK ∧ ∀ c ∈ d.sep, d.pre.head? ≠ some c ∧ d.suf.head? ≠ some c

instance (d : Delims) : Decidable d.ScanOK := inferInstanceAs (Decidable (_ ∧ _))

theorem Delims.ScanOK.cases {d : Delims} (h : d.ScanOK) :
    ∃ a as b bs c cs, d.pre = a :: as ∧ d.suf = b :: bs ∧ d.sep = c :: cs ∧ a ≠ b ∧ a ≠ c ∧ b ≠ c ∧
      ∀ x ∈ d.sep, x ≠ a ∧ x ≠ b := by
  obtain ⟨pre, suf, sep⟩ := d
  obtain ⟨h1, h2⟩ := h
  cases pre with
  | nil => simp [Delims.LexOK] at h1
  | cons a as =>
    cases suf with
    | nil => simp [Delims.LexOK] at h1
    | cons b bs =>
      cases sep with
      | nil => simp [Delims.LexOK] at h1
      | cons c cs =>
        simp only [Delims.LexOK] at h1
        refine ⟨a, as, b, bs, c, cs, rfl, rfl, rfl, h1.1, h1.2.1, h1.2.2, fun x hx => ?_⟩
        have := h2 x hx
        simp only [List.head?_cons, ne_eq, Option.some.injEq] at this
        exact ⟨fun e => this.1 e.symm, fun e => this.2 e.symm⟩

/-- BYTES ↔ TOKENS for `findEndIndex`: the byte-level scan finds the closing suffix exactly where
    the token-level `findEnd` finds it on the lexed text — the offset is the length of the rendering
    of the placeholder tokens; notFound ↔ `none`. -/
theorem scanEnd_eq_findEnd {d : Delims} (hd : d.ScanOK) : ∀ (k : Nat) (s : List Char) (n : Nat), s.length ≤ k →
    scanEnd d 0 n s = (findEnd n (lex d s)).map (fun p => (unlex d p.1).length) := by
  obtain ⟨a, as, b, bs, c, cs, hp, hs, hv, hab, hac, hbc, hsep⟩ := hd.cases
  have hpn : d.pre ≠ [] := by rw [hp]; simp
  have hsn : d.suf ≠ [] := by rw [hs]; simp
  have hvn : d.sep ≠ [] := by rw [hv]; simp
  have hpl : 1 ≤ d.pre.length := by rw [hp]; simp
  have hsl : 1 ≤ d.suf.length := by rw [hs]; simp
  have hvl : 1 ≤ d.sep.length := by rw [hv]; simp
  intro k
  induction k with
  | zero =>
    intro s n hk
    have : s = [] := List.eq_nil_of_length_eq_zero (by omega)
    subst this; rfl
  | succ k ih =>
    intro s n hk
    cases s with
    | nil => rfl
    | cons x xs =>
      simp only [List.length_cons] at hk
      by_cases hP : isPrefixOfChars d.pre (x :: xs) = true
      · have hax : a = x := isPrefixOfChars_head (by rw [hp] at hP; exact hP)
        have hS : isPrefixOfChars d.suf (x :: xs) = false := by
          rw [hs]; exact isPrefixOfChars_head_ne (by rw [← hax]; exact Ne.symm hab)
        rw [scanEnd_pre n hpn hS hP, lex_pre hpn hP, ih _ _ (by simp; omega)]
        simp only [findEnd, Option.map_map]
        congr 1
        funext p
        simp [unlex, unlexTok, Nat.add_comm]
      · have hP' : isPrefixOfChars d.pre (x :: xs) = false := by simpa using hP
        by_cases hS : isPrefixOfChars d.suf (x :: xs) = true
        · rw [lex_suf hsn hP' hS]
          cases n with
          | zero => rw [scanEnd_suf_zero (by simp) hS]; simp [findEnd, unlex]
          | succ m =>
            rw [scanEnd_suf_succ m hsn hS, ih _ _ (by simp; omega)]
            simp only [findEnd, Option.map_map]
            congr 1
            funext p
            simp [unlex, unlexTok, Nat.add_comm]
        · have hS' : isPrefixOfChars d.suf (x :: xs) = false := by simpa using hS
          by_cases hV : isPrefixOfChars d.sep (x :: xs) = true
          · obtain ⟨r, hr⟩ := isPrefixOfChars_split _ _ hV
            rw [lex_sep hvn hP' hS' hV, hr, scanEnd_plain hp hs n r d.sep hsep, List.drop_left,
              ih _ _ (by have := congrArg List.length hr; simp at this; omega)]
            simp only [findEnd, Option.map_map]
            congr 1
            funext p
            simp [unlex, unlexTok, Nat.add_comm]
          · have hV' : isPrefixOfChars d.sep (x :: xs) = false := by simpa using hV
            rw [lex_ch hP' hS' hV', scanEnd_ch n hS' hP', ih _ _ (by omega)]
            simp only [findEnd, Option.map_map]
            congr 1

theorem scanEnd_eq_findEnd' {d : Delims} (hd : d.ScanOK) (s : List Char) (n : Nat) :
    scanEnd d 0 n s = (findEnd n (lex d s)).map (fun p => (unlex d p.1).length) :=
  scanEnd_eq_findEnd hd s.length s n (Nat.le_refl _)

end Ytk.Resolver
