/-
  YtkProofs.HeapBuilderAbs — REFINEMENT: every heap-level builder operation of
  YtkModel/HeapBuilder.lean, seen through the abstraction `absH`, is the value-level operation of
  YtkModel/Dom.lean.

  All declarations live in the namespace `Ytk.Heap.Refine`.

  Final statements (hypotheses as in the plan — `Closed` / `RankedBy` are kept in the signatures
  but not needed: acyclicity below a root follows from its abstraction being defined):
    remove_abs, listSet_abs, listAppend_abs, listClear_abs, listMustSetH_abs      single-cell writes
    addH_abs, addAtSegsH_abs, addValueAtH_abs                                     AddValue / AddValueAt
    removeAtSegsH_abs, removeAtH_abs                                              RemoveAt
    compactF_abs, compactH_abs                                                    Walk(CompactFn)
  The path-level ones need ONE hypothesis more than planned: `h.MapsOk` (children maps sorted =
  unique keys, i.e. Go maps).  It is necessary: `Child` finds a member with `get?`, the models
  store with `insert` / delete with `erase`, and these address the same entry only in a sorted map.

  Organisation
    1.  fuel-free abstraction `Abs`, list / map helpers, acyclicity below a root with a defined
        abstraction
    2.  single-cell writes
    3.  footprints: `Stable g F r n` (the abstraction of `r` is `n` in EVERY heap that agrees with
        `g` on the footprint `F`), `FrameOn g g' S` (of the old cells only those in `S` are written).
        Every operation is specified by
          size ≤, FrameOn g g' {containers / lists below c}, Stable g' (Foot g c P) c (result)
        where `P` is the footprint of the attached value, disjoint from the containers / lists
        below `c` (that is `Apart`).  No reachability in the NEW heap is ever needed.
    4.  setSlotH (ensureList)        5. addH        6. spineH        7. Child refines child
    8.  entering an existing container (walk_replace / slot_replace / enter_spec)
    9.  addAtSegsH                  10. remove / removeAtSegsH
    11. Walk(CompactFn): `Shrink` (cells only lose children; preserves SibSep), the loop invariant
        `compactKvsH_spec`, `compactF_spec` by induction on the fuel
-/
import YtkProofs.HeapBuilderDefs
import YtkProofs.Lens
import YtkProofs.Builder

namespace Ytk.Heap.Refine

open Heap

-- the target statements keep the hypotheses `Closed` / `RankedBy` of the brief also where the
-- proof does not need them
set_option linter.unusedVariables false

/-! ## 1. helpers -/

/-- fuel-free abstraction -/
def Abs (h : Heap) (a : Addr) (n : Node) : Prop := ∃ f, absH f h a = some n

theorem Abs.agree {h h' : Heap} {r : Addr} {n : Node}
    (hag : ∀ b, Reach h r b → h'.get? b = h.get? b) (ha : Abs h r n) : Abs h' r n := by
  obtain ⟨f, hf⟩ := ha
  exact ⟨f, by rw [absH_agree f r hag]; exact hf⟩

theorem Abs.mono {h h' : Heap} (hl : h ≤ h') {r : Addr} {n : Node} (ha : Abs h r n) : Abs h' r n := by
  obtain ⟨f, hf⟩ := ha
  exact ⟨f, absH_mono hl f r n hf⟩

theorem Abs.reach_lt {h : Heap} {r b : Addr} {n : Node} (ha : Abs h r n) (hb : Reach h r b) :
    b < h.size := by
  obtain ⟨f, hf⟩ := ha
  exact reach_lt_of_absH f r n hf b hb

theorem Abs.lt {h : Heap} {r : Addr} {n : Node} (ha : Abs h r n) : r < h.size :=
  ha.reach_lt (.refl r)

/-! ### optMapM / optMapKvs -/

theorem optMapM_length {g : Addr → Option Node} :
    ∀ {xs : List Addr} {ns : List Node}, optMapM g xs = some ns → ns.length = xs.length
  | [], ns, h => by simp only [optMapM, Option.some.injEq] at h; subst h; rfl
  | x :: xs, ns, h => by
    obtain ⟨n, ns', _, hxs, rfl⟩ := optMapM_cons_some.mp h
    simp [optMapM_length hxs]

theorem optMapM_getElem? {g : Addr → Option Node} :
    ∀ {xs : List Addr} {ns : List Node} {i : Nat} {x : Addr}, optMapM g xs = some ns →
      xs[i]? = some x → ∃ n, ns[i]? = some n ∧ g x = some n
  | [], _, _, _, _, hx => by simp at hx
  | y :: xs, ns, i, x, h, hx => by
    obtain ⟨n, ns', hn, hxs, rfl⟩ := optMapM_cons_some.mp h
    cases i with
    | zero =>
      simp only [List.getElem?_cons_zero, Option.some.injEq] at hx
      subst hx
      exact ⟨n, by simp, hn⟩
    | succ i =>
      simp only [List.getElem?_cons_succ] at hx ⊢
      exact optMapM_getElem? hxs hx

theorem optMapM_mem {g : Addr → Option Node} {xs : List Addr} {ns : List Node} {x : Addr}
    (h : optMapM g xs = some ns) (hx : x ∈ xs) : ∃ n, g x = some n := by
  obtain ⟨i, hi⟩ := List.mem_iff_getElem?.mp hx
  obtain ⟨n, _, hn⟩ := optMapM_getElem? h hi
  exact ⟨n, hn⟩

theorem optMapKvs_mem {g : Addr → Option Node} :
    ∀ {m : List (String × Addr)} {mN : List (String × Node)} {p : String × Addr},
      optMapKvs g m = some mN → p ∈ m → ∃ n, g p.2 = some n
  | [], _, _, _, hp => by cases hp
  | (k, a) :: m, mN, p, h, hp => by
    obtain ⟨n, ns, hn, hms, rfl⟩ := optMapKvs_cons_some.mp h
    rcases List.mem_cons.mp hp with rfl | hp
    · exact ⟨n, hn⟩
    · exact optMapKvs_mem hms hp

theorem optMapM_replicate {g : Addr → Option Node} {a : Addr} {x : Node} (ha : g a = some x) :
    ∀ (n : Nat), optMapM g (List.replicate n a) = some (List.replicate n x)
  | 0 => rfl
  | n + 1 => by
    rw [List.replicate_succ, List.replicate_succ]
    exact optMapM_cons_some.mpr ⟨x, _, ha, optMapM_replicate ha n, rfl⟩

/-- replace one slot: the other POSITIONS keep their abstraction -/
theorem optMapM_set {g g' : Addr → Option Node} {r : Addr} {rn : Node} (hr : g' r = some rn) :
    ∀ {xs : List Addr} {ns : List Node} (i : Nat), optMapM g xs = some ns → i < xs.length →
      (∀ j x n, j ≠ i → xs[j]? = some x → g x = some n → g' x = some n) →
      optMapM g' (xs.set i r) = some (ns.set i rn)
  | [], _, _, _, hi, _ => by simp at hi
  | y :: xs, ns, i, h, hi, hfr => by
    obtain ⟨n, ns', hn, hxs, rfl⟩ := optMapM_cons_some.mp h
    cases i with
    | zero =>
      simp only [List.set_cons_zero]
      refine optMapM_cons_some.mpr ⟨rn, ns', hr, ?_, rfl⟩
      refine optMapM_imp (fun x hx m hm => ?_) hxs
      obtain ⟨j, hj⟩ := List.mem_iff_getElem?.mp hx
      exact hfr (j + 1) x m (by omega) (by simpa using hj) hm
    | succ i =>
      simp only [List.set_cons_succ]
      refine optMapM_cons_some.mpr ⟨n, _, hfr 0 y n (by omega) (by simp) hn, ?_, rfl⟩
      refine optMapM_set hr i hxs (by simpa using hi) (fun j x m hj hx hm => ?_)
      exact hfr (j + 1) x m (by omega) (by simpa using hx) hm

theorem optMapKvs_erase {g : Addr → Option Node} {k : String} :
    ∀ {m : List (String × Addr)} {mN : List (String × Node)},
      optMapKvs g m = some mN → optMapKvs g (AMap.erase m k) = some (AMap.erase mN k)
  | [], mN, hm => by
    simp only [optMapKvs, Option.some.injEq] at hm; subst hm; rfl
  | (k', a') :: m, mN, hm => by
    obtain ⟨n, ns, hn, hms, rfl⟩ := optMapKvs_cons_some.mp hm
    simp only [AMap.erase]
    split
    · exact hms
    · exact optMapKvs_cons_some.mpr ⟨n, _, hn, optMapKvs_erase hms, rfl⟩

/-- insert into a SORTED map: the members under OTHER keys keep their abstraction -/
theorem optMapKvs_insert_frame {g g' : Addr → Option Node} {k : String} {a : Addr} {x : Node}
    (ha : g' a = some x) :
    ∀ {m : List (String × Addr)} {mN : List (String × Node)}, AMap.Sorted m →
      optMapKvs g m = some mN → (∀ p ∈ m, p.1 ≠ k → ∀ n, g p.2 = some n → g' p.2 = some n) →
      optMapKvs g' (AMap.insert m k a) = some (AMap.insert mN k x)
  | [], mN, _, hm, _ => by
    simp only [optMapKvs, Option.some.injEq] at hm; subst hm
    simp only [AMap.insert]
    exact optMapKvs_cons_some.mpr ⟨x, [], ha, rfl, rfl⟩
  | (k', a') :: m, mN, hs, hm, hfr => by
    obtain ⟨n, ns, hn, hms, rfl⟩ := optMapKvs_cons_some.mp hm
    have hgt := hs.head_lt
    have hrest : ∀ p ∈ m, p.1 ≠ k → ∀ n, g p.2 = some n → g' p.2 = some n :=
      fun p hp => hfr p (List.mem_cons_of_mem _ hp)
    simp only [AMap.insert]
    split
    · rename_i hlt
      have hk' : k' ≠ k := fun e => by subst e; exact String.lt_irrefl _ hlt
      have hall : optMapKvs g' m = some ns :=
        optMapKvs_imp (fun p hp n' hn' => hrest p hp
          (fun e => String.lt_irrefl _ (String.lt_trans (e ▸ hgt p hp) hlt)) n' hn') hms
      exact optMapKvs_cons_some.mpr ⟨x, (k', n) :: ns, ha,
        optMapKvs_cons_some.mpr ⟨n, ns, hfr (k', a') (List.mem_cons_self ..) hk' n hn, hall, rfl⟩, rfl⟩
    · split
      · rename_i _ heq
        subst heq
        have hall : optMapKvs g' m = some ns :=
          optMapKvs_imp (fun p hp n' hn' => hrest p hp
            (fun e => String.lt_irrefl _ (e ▸ hgt p hp)) n' hn') hms
        exact optMapKvs_cons_some.mpr ⟨x, ns, ha, hall, rfl⟩
      · rename_i _ hne
        exact optMapKvs_cons_some.mpr ⟨n, _, hfr (k', a') (List.mem_cons_self ..) (fun e => hne e.symm) n hn,
          optMapKvs_insert_frame ha hs.tail hms hrest, rfl⟩

theorem AMap.insert_of_get? {α : Type} : ∀ {m : AMap α} {k : String} {a : α}, AMap.Sorted m →
    AMap.get? m k = some a → AMap.insert m k a = m
  | [], _, _, _, h => by simp at h
  | (k', a') :: m, k, a, hs, h => by
    simp only [AMap.get?] at h
    simp only [AMap.insert]
    split at h
    · rename_i he
      subst he
      cases h
      rw [if_neg (String.lt_irrefl _), if_pos rfl]
    · rename_i hne
      have hmem := AMap.mem_of_get? h
      have hlt : k' < k := hs.head_lt _ hmem
      rw [if_neg (fun hk => String.lt_irrefl _ (String.lt_trans hk hlt)), if_neg hne,
        AMap.insert_of_get? hs.tail h]

/-! ### inversion of `Abs` at a cell -/

theorem Abs.list_inv {h : Heap} {a : Addr} {n : Node} {xs : List Addr} (ha : Abs h a n)
    (hg : h.get? a = some (.list xs)) : ∃ f ns, optMapM (absH f h) xs = some ns ∧ n = .list ns := by
  obtain ⟨f, hf⟩ := ha
  obtain ⟨f', c, _, hc, hm⟩ := absH_inv hf
  rw [hg] at hc
  cases Option.some.inj hc
  obtain ⟨ns, h1, h2⟩ := hm
  exact ⟨f', ns, h1, h2⟩

theorem Abs.cont_inv {h : Heap} {a : Addr} {n : Node} {kvs : AMap Addr} (ha : Abs h a n)
    (hg : h.get? a = some (.cont kvs)) : ∃ f m, optMapKvs (absH f h) kvs = some m ∧ n = .cont m := by
  obtain ⟨f, hf⟩ := ha
  obtain ⟨f', c, _, hc, hm⟩ := absH_inv hf
  rw [hg] at hc
  cases Option.some.inj hc
  obtain ⟨ns, h1, h2⟩ := hm
  exact ⟨f', ns, h1, h2⟩

theorem Abs.leaf_inv {h : Heap} {a : Addr} {n : Node} {s : Scalar} (ha : Abs h a n)
    (hg : h.get? a = some (.leaf s)) : n = .leaf s := by
  obtain ⟨f, hf⟩ := ha
  obtain ⟨f', c, _, hc, hm⟩ := absH_inv hf
  rw [hg] at hc
  cases Option.some.inj hc
  exact hm

/-- the cell under a container-valued root -/
theorem Abs.cont_cell {h : Heap} {a : Addr} {d : AMap Node} (ha : Abs h a (.cont d)) :
    ∃ kvs f, h.get? a = some (.cont kvs) ∧ optMapKvs (absH f h) kvs = some d := by
  obtain ⟨f, hf⟩ := ha
  obtain ⟨f', c, _, hc, hm⟩ := absH_inv hf
  cases c with
  | leaf s => cases hm
  | list xs => obtain ⟨_, _, h2⟩ := hm; cases h2
  | cont kvs =>
    obtain ⟨m, h1, h2⟩ := hm
    cases h2
    exact ⟨kvs, f', hc, h1⟩

theorem Abs.list_cell {h : Heap} {a : Addr} {ns : List Node} (ha : Abs h a (.list ns)) :
    ∃ xs f, h.get? a = some (.list xs) ∧ optMapM (absH f h) xs = some ns := by
  obtain ⟨f, hf⟩ := ha
  obtain ⟨f', c, _, hc, hm⟩ := absH_inv hf
  cases c with
  | leaf s => cases hm
  | cont kvs => obtain ⟨_, _, h2⟩ := hm; cases h2
  | list xs =>
    obtain ⟨m, h1, h2⟩ := hm
    cases h2
    exact ⟨xs, f', hc, h1⟩

theorem Abs.list_intro {h : Heap} {a : Addr} {xs : List Addr} {ns : List Node} {f : Nat}
    (hg : h.get? a = some (.list xs)) (hm : optMapM (absH f h) xs = some ns) : Abs h a (.list ns) :=
  ⟨f + 1, by rw [absH]; simp only [hg, hm]⟩

theorem Abs.cont_intro {h : Heap} {a : Addr} {kvs : AMap Addr} {m : AMap Node} {f : Nat}
    (hg : h.get? a = some (.cont kvs)) (hm : optMapKvs (absH f h) kvs = some m) : Abs h a (.cont m) :=
  ⟨f + 1, by rw [absH]; simp only [hg, hm]⟩

theorem Abs.leaf_intro {h : Heap} {a : Addr} {s : Scalar} (hg : h.get? a = some (.leaf s)) :
    Abs h a (.leaf s) := ⟨1, by rw [absH]; simp only [hg]⟩

theorem Abs.nil {h : Heap} (hn : h.NilOk) : Abs h nilAddr Node.null := ⟨1, absH_nil hn⟩

/-! ### acyclicity below a root with a defined abstraction -/

theorem absH_kid {h : Heap} {f : Nat} {a k : Addr} {n : Node} {c : Cell}
    (hf : absH (f + 1) h a = some n) (hg : h.get? a = some c) (hk : k ∈ c.kids) :
    ∃ m, absH f h k = some m := by
  obtain ⟨f', c', hff, hc', hm⟩ := absH_inv hf
  cases Nat.succ.inj hff
  rw [hg] at hc'
  cases Option.some.inj hc'
  cases c with
  | leaf s => simp [Cell.kids] at hk
  | list xs =>
    obtain ⟨ns, h1, _⟩ := hm
    exact optMapM_mem h1 (by simpa [Cell.kids] using hk)
  | cont kvs =>
    obtain ⟨ns, h1, _⟩ := hm
    simp only [Cell.kids, List.mem_map] at hk
    obtain ⟨p, hp, rfl⟩ := hk
    exact optMapKvs_mem h1 hp

theorem absH_reach {h : Heap} {r b : Addr} (hr : Reach h r b) :
    ∀ {f : Nat} {n : Node}, absH f h r = some n → ∃ m, absH f h b = some m := by
  induction hr with
  | refl _ => intro f n hf; exact ⟨n, hf⟩
  | step hg hk _ ih =>
    intro f n hf
    cases f with
    | zero => simp [absH] at hf
    | succ f =>
      obtain ⟨m, hm⟩ := absH_kid hf hg hk
      exact ih (absH_fuel_succ _ _ _ hm)

theorem absH_no_cycle {h : Heap} : ∀ (f : Nat) {a k : Addr} {n : Node} {c : Cell},
    absH f h a = some n → h.get? a = some c → k ∈ c.kids → ¬ Reach h k a
  | 0, _, _, _, _, hf, _, _, _ => by simp [absH] at hf
  | f + 1, a, k, n, c, hf, hg, hk, hka => by
    obtain ⟨m, hm⟩ := absH_kid hf hg hk
    obtain ⟨m', hm'⟩ := absH_reach hka hm
    exact absH_no_cycle f hm' hg hk hka

theorem Abs.kid {h : Heap} {a k : Addr} {n : Node} {c : Cell} (ha : Abs h a n)
    (hg : h.get? a = some c) (hk : k ∈ c.kids) : ∃ m, Abs h k m := by
  obtain ⟨f, hf⟩ := ha
  cases f with
  | zero => simp [absH] at hf
  | succ f =>
    obtain ⟨m, hm⟩ := absH_kid hf hg hk
    exact ⟨m, f, hm⟩

theorem Abs.no_cycle {h : Heap} {a k : Addr} {n : Node} {c : Cell} (ha : Abs h a n)
    (hg : h.get? a = some c) (hk : k ∈ c.kids) : ¬ Reach h k a := by
  obtain ⟨f, hf⟩ := ha
  exact absH_no_cycle f hf hg hk

theorem Abs.of_reach {h : Heap} {r b : Addr} {n : Node} (ha : Abs h r n) (hb : Reach h r b) :
    ∃ m, Abs h b m := by
  obtain ⟨f, hf⟩ := ha
  obtain ⟨m, hm⟩ := absH_reach hb hf
  exact ⟨m, f, hm⟩

/-- a leaf reaches only itself -/
theorem reach_leaf {h : Heap} {a b : Addr} {s : Scalar} (hg : h.get? a = some (.leaf s))
    (hr : Reach h a b) : b = a := by
  cases hr with
  | refl _ => rfl
  | step hg' hk _ =>
    rw [hg] at hg'
    cases Option.some.inj hg'
    simp [Cell.kids] at hk

theorem not_composite_leaf {h : Heap} {a : Addr} {s : Scalar} (hg : h.get? a = some (.leaf s)) :
    ¬ Composite h a := by
  rintro ⟨c, hc, hl⟩
  rw [hg] at hc
  cases Option.some.inj hc
  simp [Cell.isLeaf] at hl

theorem composite_list {h : Heap} {a : Addr} {xs : List Addr} (hg : h.get? a = some (.list xs)) :
    Composite h a := ⟨_, hg, rfl⟩

theorem composite_cont {h : Heap} {a : Addr} {kvs : AMap Addr} (hg : h.get? a = some (.cont kvs)) :
    Composite h a := ⟨_, hg, rfl⟩

theorem sibSep_of_reach {h : Heap} {r a : Addr} (hs : SibSep h r) (hr : Reach h r a) : SibSep h a :=
  fun b c hb hg i j ki kj hi hj hij => hs b c (hr.trans hb) hg i j ki kj hi hj hij

theorem sibSep_leaf {h : Heap} {a : Addr} {s : Scalar} (hg : h.get? a = some (.leaf s)) : SibSep h a := by
  intro b c hb hc i j ki kj hi _ _
  have := reach_leaf hg hb
  subst this
  rw [hg] at hc
  cases Option.some.inj hc
  simp [Cell.kids] at hi

theorem rank_le_of_reach {h : Heap} {rank : Addr → Nat} (hr : h.RankedBy rank) {a b : Addr}
    (hab : Reach h a b) : rank b ≤ rank a := by
  induction hab with
  | refl _ => exact Nat.le_refl _
  | step hg hk _ ih => exact Nat.le_trans ih (Nat.le_of_lt (hr _ _ hg _ hk))

theorem not_reach_of_kid {h : Heap} {rank : Addr → Nat} (hr : h.RankedBy rank) {a k : Addr} {c : Cell}
    (hg : h.get? a = some c) (hk : k ∈ c.kids) : ¬ Reach h k a := fun hka =>
  Nat.lt_irrefl _ (Nat.lt_of_lt_of_le (hr a c hg k hk) (rank_le_of_reach hr hka))

theorem mem_kids_list {xs : List Addr} {k : Addr} (hk : k ∈ xs) : k ∈ (Cell.list xs).kids := by
  simpa [Cell.kids] using hk

theorem mem_kids_kvs {kvs : AMap Addr} {p : String × Addr} (hp : p ∈ kvs) : p.2 ∈ (Cell.cont kvs).kids := by
  simp only [Cell.kids, List.mem_map]; exact ⟨p, hp, rfl⟩

/-! ### padding -/

theorem padH_length (xs : List Addr) (n : Nat) : (padH xs n).length = max xs.length n := by
  simp [padH]; omega

theorem lt_padH_length (xs : List Addr) (i : Nat) : i < (padH xs (i + 1)).length := by
  rw [padH_length]; omega

theorem mem_padH {xs : List Addr} {n : Nat} {x : Addr} (h : x ∈ padH xs n) : x ∈ xs ∨ x = nilAddr := by
  simp only [padH, List.mem_append, List.mem_replicate] at h
  rcases h with h | h
  · exact Or.inl h
  · exact Or.inr h.2

theorem optMapM_padH {g g' : Addr → Option Node} {xs : List Addr} {ns : List Node} (n : Nat)
    (hm : optMapM g xs = some ns) (himp : ∀ x ∈ xs, ∀ m, g x = some m → g' x = some m)
    (hnil : g' nilAddr = some Node.null) : optMapM g' (padH xs n) = some (padTo ns n) := by
  unfold padH padTo
  rw [optMapM_length hm]
  exact optMapM_append (optMapM_imp himp hm) (optMapM_replicate hnil _)

/-! ## 2. single-cell writes -/

section single
variable {h h' : Heap} {rank : Addr → Nat} {c v l : Addr} {d : AMap Node} {vn : Node} {f : Nat}

theorem remove_abs (hc : h.Closed) (hr : h.RankedBy rank) (hd : absH f h c = some (.cont d))
    {name : String} (he : Ytk.Heap.remove h c name = some h') :
    absH f h' c = some (.cont (Ytk.remove d name)) := by
  obtain ⟨f', cell, rfl, hg, hm⟩ := absH_inv hd
  unfold Ytk.Heap.remove at he
  cases cell with
  | leaf s => cases hm
  | list xs => obtain ⟨_, _, h2⟩ := hm; cases h2
  | cont kvs =>
    obtain ⟨m, h1, h2⟩ := hm
    cases h2
    simp only [hg, Option.some.injEq] at he
    subst he
    rw [absH, get?_write_self _ _ (get?_lt hg)]
    have : optMapKvs (absH f' (h.write c (.cont (AMap.erase kvs name)))) (AMap.erase kvs name)
        = optMapKvs (absH f' h) (AMap.erase kvs name) :=
      optMapKvs_congr (fun p hp => absH_write_frame _
        (not_reach_of_kid hr hg (mem_kids_kvs (AMap.mem_erase hp))) f')
    simp only [this, optMapKvs_erase h1, Ytk.remove]

/-- writing a list cell `l` whose new items are old items, the nil leaf and `v` -/
theorem absH_write_list {xs ys : List Addr} {ms : List Node} {f' : Nat} (hg : h.get? l = some (.list xs))
    (hys : optMapM (absH f' h) ys = some ms)
    (hnr : ∀ y ∈ ys, ¬ Reach h y l) :
    absH (f' + 1) (h.write l (.list ys)) l = some (.list ms) := by
  rw [absH, get?_write_self _ _ (get?_lt hg)]
  have : optMapM (absH f' (h.write l (.list ys))) ys = optMapM (absH f' h) ys :=
    optMapM_congr (fun y hy => absH_write_frame _ (hnr y hy) f')
  simp only [this, hys]

theorem listSet_abs {i : Nat} {ns : List Node} (hc : h.Closed) (hr : h.RankedBy rank) (hn : h.NilOk)
    (hvl : ¬ Reach h v l) (hd : absH f h l = some (.list ns)) (hv : absH f h v = some vn)
    (he : Ytk.Heap.listSet h l i v = some h') :
    ∃ f', absH f' h' l = some (.list (Ytk.listSet ns i vn)) := by
  obtain ⟨f', cell, rfl, hg, hm⟩ := absH_inv hd
  unfold Ytk.Heap.listSet at he
  cases cell with
  | leaf s => cases hm
  | cont kvs => obtain ⟨_, _, h2⟩ := hm; cases h2
  | list xs =>
    obtain ⟨m, h1, h2⟩ := hm
    cases h2
    simp only [hg, Option.some.injEq] at he
    subst he
    have hpad : optMapM (absH (f' + 1) h) (padH xs (i + 1)) = some (padTo ns (i + 1)) :=
      optMapM_padH _ h1 (fun x _ m hx => absH_fuel_succ _ _ _ hx) (absH_nil hn)
    have hset : optMapM (absH (f' + 1) h) ((padH xs (i + 1)).set i v) = some ((padTo ns (i + 1)).set i vn) :=
      optMapM_set hv i hpad (lt_padH_length xs i) (fun _ _ _ _ _ hx => hx)
    refine ⟨f' + 1 + 1, ?_⟩
    refine absH_write_list hg hset (fun y hy => ?_)
    rcases List.mem_or_eq_of_mem_set hy with hy | rfl
    · rcases mem_padH hy with hy | rfl
      · exact not_reach_of_kid hr hg (mem_kids_list hy)
      · intro hr0
        have := reach_leaf hn hr0
        subst this
        rw [hn] at hg
        cases hg
    · exact hvl

theorem listAppend_abs {ns : List Node} (hc : h.Closed) (hr : h.RankedBy rank)
    (hvl : ¬ Reach h v l) (hd : absH f h l = some (.list ns)) (hv : absH f h v = some vn)
    (he : Ytk.Heap.listAppend h l v = some h') :
    ∃ f', absH f' h' l = some (.list (Ytk.listAppend ns vn)) := by
  obtain ⟨f', cell, rfl, hg, hm⟩ := absH_inv hd
  unfold Ytk.Heap.listAppend at he
  cases cell with
  | leaf s => cases hm
  | cont kvs => obtain ⟨_, _, h2⟩ := hm; cases h2
  | list xs =>
    obtain ⟨m, h1, h2⟩ := hm
    cases h2
    simp only [hg, Option.some.injEq] at he
    subst he
    have happ : optMapM (absH (f' + 1) h) (xs ++ [v]) = some (ns ++ [vn]) :=
      optMapM_append (optMapM_imp (fun x _ m hx => absH_fuel_succ _ _ _ hx) h1)
        (optMapM_cons_some.mpr ⟨vn, [], hv, rfl, rfl⟩)
    refine ⟨f' + 1 + 1, ?_⟩
    refine absH_write_list hg happ (fun y hy => ?_)
    rcases List.mem_append.mp hy with hy | hy
    · exact not_reach_of_kid hr hg (mem_kids_list hy)
    · simp only [List.mem_singleton] at hy; subst hy; exact hvl

theorem listClear_abs {ns : List Node} (hd : absH f h l = some (.list ns))
    (he : Ytk.Heap.listClear h l = some h') : absH f h' l = some (.list []) := by
  obtain ⟨f', cell, rfl, hg, hm⟩ := absH_inv hd
  unfold Ytk.Heap.listClear at he
  cases cell with
  | leaf s => cases hm
  | cont kvs => obtain ⟨_, _, h2⟩ := hm; cases h2
  | list xs =>
    simp only [hg, Option.some.injEq] at he
    subst he
    exact absH_write_list hg rfl (fun y hy => by cases hy)

/-- `MustSet` in range is `.ok` and sets the slot; out of range both sides panic -/
theorem listMustSetH_abs {i : Nat} {ns : List Node} (hc : h.Closed) (hr : h.RankedBy rank)
    (hvl : ¬ Reach h v l) (hd : absH f h l = some (.list ns)) (hv : absH f h v = some vn) :
    (i < ns.length → ∃ h' f', listMustSetH h l i v = .ok h' ∧
        absH f' h' l = some (.list (ns.set i vn)) ∧ Ytk.listMustSet ns i vn = .ok (ns.set i vn)) ∧
    (ns.length ≤ i → listMustSetH h l i v = .panic ∧ Ytk.listMustSet ns i vn = .panic) := by
  obtain ⟨f', cell, rfl, hg, hm⟩ := absH_inv hd
  cases cell with
  | leaf s => cases hm
  | cont kvs => obtain ⟨_, _, h2⟩ := hm; cases h2
  | list xs =>
    obtain ⟨m, h1, h2⟩ := hm
    cases h2
    have hlen := optMapM_length h1
    unfold listMustSetH Ytk.listMustSet
    simp only [hg]
    constructor
    · intro hi
      have hi' : i < xs.length := hlen ▸ hi
      refine ⟨_, f' + 1 + 1, by rw [if_pos hi'], ?_, by rw [if_pos hi]⟩
      have hset : optMapM (absH (f' + 1) h) (xs.set i v) = some (ns.set i vn) :=
        optMapM_set hv i (optMapM_imp (fun x _ m hx => absH_fuel_succ _ _ _ hx) h1) hi'
          (fun _ _ _ _ _ hx => hx)
      refine absH_write_list hg hset (fun y hy => ?_)
      rcases List.mem_or_eq_of_mem_set hy with hy | rfl
      · exact not_reach_of_kid hr hg (mem_kids_list hy)
      · exact hvl
    · intro hi
      have hi' : ¬ i < xs.length := by omega
      exact ⟨by rw [if_neg hi'], by rw [if_neg (by omega)]⟩

end single

/-! ## 3. footprints -/

/-- reachability from an optional root -/
def ReachO (g : Heap) : Option Addr → Addr → Prop
  | some a, b => Reach g a b
  | none, _ => False

/-- an optional address abstracts to an optional node -/
def OAbs (g : Heap) : Option Addr → Option Node → Prop
  | none, none => True
  | some a, some n => Abs g a n
  | _, _ => False

/-- the cells the abstraction of the result of an attaching call below `cur` may depend on: new
    cells, the nil leaf, what `cur` reached before, and the footprint `P` of the attached value -/
def Foot (g : Heap) (cur : Option Addr) (P : Addr → Prop) (b : Addr) : Prop :=
  g.size ≤ b ∨ b = nilAddr ∨ ReachO g cur b ∨ P b

/-- `r` abstracts to `n` in every heap that agrees with `g` on the (in-range part of the)
    footprint `F` -/
def Stable (g : Heap) (F : Addr → Prop) (r : Addr) (n : Node) : Prop :=
  ∀ h2 : Heap, (∀ b, F b → b < g.size → h2.get? b = g.get? b) → Abs h2 r n

/-- of the cells of `g`, only those in `S` are written on the way to `g1` -/
def FrameOn (g g1 : Heap) (S : Addr → Prop) : Prop := ∀ b, b < g.size → ¬ S b → g1.get? b = g.get? b

theorem Stable.abs {g : Heap} {F : Addr → Prop} {r : Addr} {n : Node} (hs : Stable g F r n) : Abs g r n :=
  hs g (fun _ _ _ => rfl)

theorem Stable.of_abs {g : Heap} {r : Addr} {n : Node} (ha : Abs g r n) : Stable g (Reach g r) r n :=
  fun _ hag => ha.agree (fun b hb => hag b hb (ha.reach_lt hb))

theorem Stable.weaken {g : Heap} {F F' : Addr → Prop} {r : Addr} {n : Node} (hs : Stable g F r n)
    (hF : ∀ b, F b → F' b) : Stable g F' r n :=
  fun h2 hag => hs h2 (fun b hb hlt => hag b (hF b hb) hlt)

theorem FrameOn.weaken {g g1 : Heap} {S S' : Addr → Prop} (hf : FrameOn g g1 S) (hS : ∀ b, S b → S' b) :
    FrameOn g g1 S' := fun b hb hn => hf b hb (fun hs => hn (hS b hs))

theorem listAt_some {g : Heap} {cur : Option Addr} {a : Addr} {xs : List Addr}
    (h : listAt g cur = some (a, xs)) : cur = some a ∧ g.get? a = some (.list xs) := by
  unfold listAt at h
  split at h
  · split at h
    · rename_i hg
      simp only [Option.some.injEq, Prod.mk.injEq] at h
      obtain ⟨rfl, rfl⟩ := h
      exact ⟨rfl, hg⟩
    · cases h
  · cases h

theorem listAt_none_of_oabs {g : Heap} {cur : Option Addr} {curN : Option Node}
    (h : listAt g cur = none) (ho : OAbs g cur curN) : ∀ ns, curN ≠ some (.list ns) := by
  intro ns e
  subst e
  cases cur with
  | none => exact ho
  | some a =>
    obtain ⟨xs, _, hg, _⟩ := Abs.list_cell (show Abs g a (.list ns) from ho)
    simp [listAt, hg] at h

theorem setSlot_nonlist {curN : Option Node} (h : ∀ ns, curN ≠ some (.list ns)) (i : Nat) (is : List Nat)
    (v : Node) : setSlot curN (i :: is) v =
      .list ((padTo [] (i + 1)).set i (setSlot (padTo [] (i + 1))[i]? is v)) := by
  cases curN with
  | none => simp only [setSlot]
  | some n =>
    cases n with
    | list ns => exact absurd rfl (h ns)
    | leaf s => simp only [setSlot]
    | cont kvs => simp only [setSlot]

theorem setSlotH_cons_some {g : Heap} {cur : Option Addr} {a : Addr} {xs : List Addr} (i : Nat)
    (is : List Nat) (v : Addr) (h : listAt g cur = some (a, xs)) :
    setSlotH g cur (i :: is) v =
      ((setSlotH g (padH xs (i + 1))[i]? is v).1.write a
        (.list ((padH xs (i + 1)).set i (setSlotH g (padH xs (i + 1))[i]? is v).2)), a) := by
  simp only [setSlotH, h]

theorem setSlotH_cons_none {g : Heap} {cur : Option Addr} (i : Nat)
    (is : List Nat) (v : Addr) (h : listAt g cur = none) :
    setSlotH g cur (i :: is) v =
      (setSlotH g (padH [] (i + 1))[i]? is v).1.alloc
        (.list ((padH [] (i + 1)).set i (setSlotH g (padH [] (i + 1))[i]? is v).2)) := by
  simp only [setSlotH, h]

theorem padH_getElem? {xs : List Addr} {n j : Nat} {x : Addr} (h : (padH xs n)[j]? = some x) :
    xs[j]? = some x ∨ (xs.length ≤ j ∧ x = nilAddr) := by
  unfold padH at h
  by_cases hj : j < xs.length
  · rw [List.getElem?_append_left hj] at h; exact Or.inl h
  · have hj' : xs.length ≤ j := Nat.le_of_not_lt hj
    rw [List.getElem?_append_right hj', List.getElem?_replicate] at h
    split at h
    · exact Or.inr ⟨hj', (Option.some.inj h).symm⟩
    · cases h

theorem padH_nil_getElem? (i : Nat) : (padH [] (i + 1))[i]? = some nilAddr := by
  simp [padH]

theorem padTo_nil_getElem? (i : Nat) : (padTo [] (i + 1))[i]? = some Node.null := by
  simp [padTo]

/-! ## 4. setSlotH (ensureList) -/

theorem setSlotH_spec {g : Heap} {v : Addr} {vn : Node} {P : Addr → Prop} (hn : g.NilOk)
    (hv : Stable g P v vn) :
    ∀ (is : List Nat) (cur : Option Addr) (curN : Option Node), OAbs g cur curN →
      (∀ a, cur = some a → SibSep g a) →
      (∀ b, ReachO g cur b → Composite g b → ¬ P b) →
      g.size ≤ (setSlotH g cur is v).1.size ∧
      FrameOn g (setSlotH g cur is v).1 (fun b => ReachO g cur b ∧ Composite g b) ∧
      Stable (setSlotH g cur is v).1 (Foot g cur P) (setSlotH g cur is v).2 (setSlot curN is vn)
  | [], cur, curN, _, _, _ => by
    refine ⟨Nat.le_refl _, fun _ _ _ => rfl, ?_⟩
    exact hv.weaken (fun b hb => Or.inr (Or.inr (Or.inr hb)))
  | i :: is, cur, curN, ho, hsib, hdis => by
    have hnilc : ¬ Composite g nilAddr := not_composite_leaf hn
    cases hla : listAt g cur with
    | some p =>
      obtain ⟨a, xs⟩ := p
      obtain ⟨rfl, hg⟩ := listAt_some hla
      rw [setSlotH_cons_some i is v hla]
      cases curN with
      | none => exact absurd ho (by simp [OAbs])
      | some n =>
      have hab : Abs g a n := ho
      obtain ⟨f0, ns, hns, rfl⟩ := hab.list_inv hg
      have halt : a < g.size := get?_lt hg
      have hac : Composite g a := composite_list hg
      have hpad : optMapM (absH (f0 + 1) g) (padH xs (i + 1)) = some (padTo ns (i + 1)) :=
        optMapM_padH _ hns (fun x _ m hx => absH_fuel_succ _ _ _ hx) (absH_nil hn)
      have hilt := lt_padH_length xs i
      obtain ⟨k, hk⟩ : ∃ k, (padH xs (i + 1))[i]? = some k := ⟨_, List.getElem?_eq_getElem hilt⟩
      obtain ⟨kn, hkn, hkabs⟩ := optMapM_getElem? hpad hk
      -- facts about the slot `k`
      have hkcase := padH_getElem? hk
      have hK1 : ∀ b, Reach g k b → Reach g a b ∨ b = nilAddr := by
        intro b hb
        rcases hkcase with h1 | ⟨_, rfl⟩
        · exact Or.inl (.step hg (mem_kids_list (List.mem_of_getElem? h1)) hb)
        · exact Or.inr (reach_leaf hn hb)
      have hK1' : ∀ b, Reach g k b → Composite g b → Reach g a b := by
        intro b hb hcb
        rcases hK1 b hb with h1 | rfl
        · exact h1
        · exact absurd hcb hnilc
      have hK2 : ¬ Reach g k a := by
        rcases hkcase with h1 | ⟨_, rfl⟩
        · exact hab.no_cycle hg (mem_kids_list (List.mem_of_getElem? h1))
        · intro hr0
          have := reach_leaf hn hr0
          subst this
          exact hnilc hac
      have hK3 : SibSep g k := by
        rcases hkcase with h1 | ⟨_, rfl⟩
        · exact sibSep_of_reach (hsib a rfl) (.step hg (mem_kids_list (List.mem_of_getElem? h1)) (.refl _))
        · exact sibSep_leaf hn
      obtain ⟨hsz, hfr, hst⟩ := setSlotH_spec hn hv is (some k) (some kn) (show Abs g k kn from ⟨_, hkabs⟩)
        (fun a' ha' => by cases ha'; exact hK3)
        (fun b hb hcb => hdis b (hK1' b hb hcb) hcb)
      rw [hk] at *
      generalize (setSlotH g (some k) is v).1 = g1 at *
      generalize (setSlotH g (some k) is v).2 = r at *
      refine ⟨by rw [size_write]; exact hsz, ?_, ?_⟩
      · intro b hb hnS
        have hba : b ≠ a := fun e => hnS ⟨e ▸ Reach.refl a, e ▸ hac⟩
        rw [get?_write_ne _ _ hba]
        exact hfr b hb (fun hS => hnS ⟨hK1' b hS.1 hS.2, hS.2⟩)
      · intro h2 hag
        simp only [size_write] at hag
        have hcell : h2.get? a = some (.list ((padH xs (i + 1)).set i r)) := by
          rw [hag a (Or.inr (Or.inr (Or.inl (Reach.refl a)))) (Nat.lt_of_lt_of_le halt hsz)]
          exact get?_write_self _ _ (Nat.lt_of_lt_of_le halt hsz)
        -- every cell other than `a` in the footprint is as in `g1`
        have hag1 : ∀ b, Foot g (some a) P b → b ≠ a → b < g1.size → h2.get? b = g1.get? b := by
          intro b hF hba hlt
          rw [hag b hF hlt, get?_write_ne _ _ hba]
        obtain ⟨fr, hrabs⟩ : Abs h2 r (setSlot (some kn) is vn) := by
          refine hst h2 (fun b hF hlt => ?_)
          rcases hF with h1 | rfl | h1 | h1
          · exact hag1 b (Or.inl h1) (fun e => Nat.not_le.mpr halt (e ▸ h1)) hlt
          · exact hag1 _ (Or.inr (Or.inl rfl)) (fun e => hnilc (e ▸ hac)) hlt
          · refine hag1 b ?_ (fun e => hK2 (e ▸ h1)) hlt
            rcases hK1 b h1 with h3 | rfl
            · exact Or.inr (Or.inr (Or.inl h3))
            · exact Or.inr (Or.inl rfl)
          · exact hag1 b (Or.inr (Or.inr (Or.inr h1)))
              (fun e => hdis b (e ▸ Reach.refl a) (e ▸ hac) h1) hlt
        -- the other slots
        have hother : ∀ j x m, j ≠ i → (padH xs (i + 1))[j]? = some x → absH (f0 + 1) g x = some m →
            absH (max (f0 + 1) fr) h2 x = some m := by
          intro j x m hji hx hm
          refine absH_fuel_le (Nat.le_max_left _ _) ?_
          rw [absH_agree (f0 + 1) x (h := g) (h' := h2)]
          · exact hm
          · intro b hb
            have hblt : b < g.size := reach_lt_of_absH _ _ _ hm b hb
            rcases padH_getElem? hx with h1 | ⟨_, rfl⟩
            · have hxk : x ∈ (Cell.list xs).kids := mem_kids_list (List.mem_of_getElem? h1)
              have hab' : Reach g a b := .step hg hxk hb
              rw [hag1 b (Or.inr (Or.inr (Or.inl hab')))
                (fun e => hab.no_cycle hg hxk (e ▸ hb)) (Nat.lt_of_lt_of_le hblt hsz)]
              refine hfr b hblt (fun hS => ?_)
              rcases hkcase with h3 | ⟨_, rfl⟩
              · exact hsib a rfl a _ (.refl a) hg i j k x h3 h1 (Ne.symm hji) b hS.1 hb hS.2
              · exact hnilc (reach_leaf hn hS.1 ▸ hS.2)
            · have := reach_leaf hn hb
              subst this
              rw [hag1 _ (Or.inr (Or.inl rfl)) (fun e => hnilc (e ▸ hac)) (Nat.lt_of_lt_of_le hblt hsz)]
              exact hfr _ hblt (fun hS => hnilc hS.2)
        have hset := optMapM_set (g := absH (f0 + 1) g) (g' := absH (max (f0 + 1) fr) h2)
          (absH_fuel_le (Nat.le_max_right _ _) hrabs) i hpad hilt hother
        have hval : setSlot (some (Node.list ns)) (i :: is) vn =
            .list ((padTo ns (i + 1)).set i (setSlot (some kn) is vn)) := by
          simp only [setSlot, hkn]
        rw [hval]
        exact Abs.list_intro hcell hset
    | none =>
      rw [setSlotH_cons_none i is v hla, setSlot_nonlist (listAt_none_of_oabs hla ho)]
      have hnilS : SibSep g nilAddr := sibSep_leaf hn
      obtain ⟨hsz, hfr, hst⟩ := setSlotH_spec hn hv is (some nilAddr) (some Node.null)
        (show Abs g nilAddr Node.null from Abs.nil hn)
        (fun a' ha' => by cases ha'; exact hnilS)
        (fun b hb hcb _ => hnilc (reach_leaf hn hb ▸ hcb))
      rw [padH_nil_getElem?, padTo_nil_getElem?] at *
      generalize (setSlotH g (some nilAddr) is v).1 = g1 at *
      generalize (setSlotH g (some nilAddr) is v).2 = r at *
      refine ⟨by rw [size_alloc]; omega, ?_, ?_⟩
      · intro b hb _
        rw [get?_eq_of_le (le_alloc g1 _) (Nat.lt_of_lt_of_le hb hsz)]
        exact hfr b hb (fun hS => hnilc (reach_leaf hn hS.1 ▸ hS.2))
      · intro h2 hag
        simp only [size_alloc] at hag
        rw [alloc_snd]
        have hcell : h2.get? g1.size = some (.list ((padH [] (i + 1)).set i r)) := by
          rw [hag g1.size (Or.inl hsz) (Nat.lt_succ_self _)]
          exact get?_alloc_new _ _
        have hag1 : ∀ b, Foot g cur P b → b < g1.size → h2.get? b = g1.get? b := by
          intro b hF hlt
          rw [hag b hF (Nat.lt_succ_of_lt hlt), get?_eq_of_le (le_alloc g1 _) hlt]
        obtain ⟨fr, hrabs⟩ : Abs h2 r (setSlot (some Node.null) is vn) := by
          refine hst h2 (fun b hF hlt => ?_)
          rcases hF with h1 | rfl | h1 | h1
          · exact hag1 b (Or.inl h1) hlt
          · exact hag1 _ (Or.inr (Or.inl rfl)) hlt
          · have := reach_leaf hn h1
            subst this
            exact hag1 _ (Or.inr (Or.inl rfl)) hlt
          · exact hag1 b (Or.inr (Or.inr (Or.inr h1))) hlt
        have hnil2 : h2.NilOk := by
          have h0 : nilAddr < g.size := get?_lt hn
          show h2.get? nilAddr = _
          rw [hag1 _ (Or.inr (Or.inl rfl)) (Nat.lt_of_lt_of_le h0 hsz), hfr _ h0 (fun hS => hnilc hS.2)]
          exact hn
        have hpad : optMapM (absH (fr + 1) h2) (padH [] (i + 1)) = some (padTo [] (i + 1)) :=
          optMapM_padH (g := absH (fr + 1) h2) _ rfl (fun x hx => by cases hx) (absH_nil hnil2)
        have hset := optMapM_set (g := absH (fr + 1) h2) (g' := absH (fr + 1) h2)
          (absH_fuel_succ _ _ _ hrabs) i hpad (lt_padH_length [] i) (fun _ _ _ _ _ hx => hx)
        exact Abs.list_intro hcell hset

/-! ## 5. addH -/

theorem reachO_some {g : Heap} {cur : Option Addr} {b : Addr} (h : ReachO g cur b) :
    ∃ a, cur = some a ∧ Reach g a b := by
  cases cur with
  | none => exact absurd h id
  | some a => exact ⟨a, rfl, h⟩

theorem sibSep_kvs {g : Heap} {c : Addr} {kvs : AMap Addr} (hs : SibSep g c)
    (hg : g.get? c = some (.cont kvs)) {p q : String × Addr} (hp : p ∈ kvs) (hq : q ∈ kvs)
    (hne : p.1 ≠ q.1) : Apart g p.2 q.2 := by
  obtain ⟨i, hi⟩ := List.mem_iff_getElem?.mp hp
  obtain ⟨j, hj⟩ := List.mem_iff_getElem?.mp hq
  have hij : i ≠ j := by
    intro e; subst e
    rw [hi] at hj
    exact hne (congrArg Prod.fst (Option.some.inj hj))
  refine hs c _ (.refl c) hg i j p.2 q.2 ?_ ?_ hij
  · simp [Cell.kids, List.getElem?_map, hi]
  · simp [Cell.kids, List.getElem?_map, hj]

/-- the optional member under a key and its abstraction -/
theorem oabs_get? {g : Heap} {f : Nat} {kvs : AMap Addr} {d : AMap Node}
    (hm : optMapKvs (absH f g) kvs = some d) (b : String) :
    OAbs g (AMap.get? kvs b) (AMap.get? d b) := by
  cases hget : AMap.get? kvs b with
  | none => rw [optMapKvs_get?_none hm hget]; exact True.intro
  | some X =>
    obtain ⟨x, hx, hdx⟩ := optMapKvs_get?_some hm hget
    rw [hdx]
    exact ⟨f, hx⟩

/-- `add(name, v)` on the container cell `c` of `g`, the value `v` given by a footprint `P` that
    avoids the containers / lists below `c` -/
theorem addH_spec {g g' : Heap} {c v : Addr} {d : AMap Node} {vn : Node} {P : Addr → Prop}
    {name : String} (hn : g.NilOk) (hv : Stable g P v vn) (hd : Abs g c (.cont d)) (hs : SibSep g c)
    (hsort : ∀ kvs, g.get? c = some (.cont kvs) → AMap.Sorted kvs)
    (hdis : ∀ b, Reach g c b → Composite g b → ¬ P b)
    (he : addH g c name v = some g') :
    g.size ≤ g'.size ∧ FrameOn g g' (fun b => Reach g c b ∧ Composite g b) ∧
      Stable g' (Foot g (some c) P) c (.cont (Ytk.add d name vn)) := by
  obtain ⟨kvs, f0, hg, hkvs⟩ := hd.cont_cell
  have hclt : c < g.size := get?_lt hg
  have hcc : Composite g c := composite_cont hg
  have hnilc : ¬ Composite g nilAddr := not_composite_leaf hn
  -- the members of `c` keep their abstraction in any heap that agrees with `g` below them
  have hkid : ∀ (h2 : Heap) (p : String × Addr), p ∈ kvs → (∀ b, Reach g p.2 b → h2.get? b = g.get? b) →
      ∀ (F : Nat) (n : Node), f0 ≤ F → absH f0 g p.2 = some n → absH F h2 p.2 = some n := by
    intro h2 p _ hagp F n hF hm
    refine absH_fuel_le hF ?_
    rw [absH_agree f0 p.2 hagp]; exact hm
  unfold addH at he
  simp only [hg] at he
  unfold Ytk.add
  cases hp : parseSeg name with
  | mk b is =>
  rw [hp] at he
  simp only at he ⊢
  cases is with
  | nil =>
    simp only [Option.some.injEq] at he
    subst he
    refine ⟨by rw [size_write]; exact Nat.le_refl _, ?_, ?_⟩
    · intro b _ hnS
      exact get?_write_ne _ _ (fun e => by subst e; exact hnS ⟨.refl _, hcc⟩)
    · intro h2 hag
      simp only [size_write] at hag
      have hcell : h2.get? c = some (.cont (AMap.insert kvs name v)) := by
        rw [hag c (Or.inr (Or.inr (Or.inl (Reach.refl c)))) hclt]
        exact get?_write_self _ _ hclt
      have hag1 : ∀ b, Foot g (some c) P b → b ≠ c → b < g.size → h2.get? b = g.get? b := by
        intro b hF hbc hlt
        rw [hag b hF hlt, get?_write_ne _ _ hbc]
      obtain ⟨fr, hvabs⟩ : Abs h2 v vn :=
        hv h2 (fun b hP hlt => hag1 b (Or.inr (Or.inr (Or.inr hP)))
          (fun e => by subst e; exact hdis _ (.refl _) hcc hP) hlt)
      have hold : optMapKvs (absH (max f0 fr) h2) kvs = some d := by
        refine optMapKvs_imp (fun p hp n hm => ?_) hkvs
        refine hkid h2 p hp (fun b hb => ?_) _ n (Nat.le_max_left _ _) hm
        exact hag1 b (Or.inr (Or.inr (Or.inl (.step hg (mem_kids_kvs hp) hb))))
          (fun e => hd.no_cycle hg (mem_kids_kvs hp) (e ▸ hb)) (reach_lt_of_absH _ _ _ hm b hb)
      exact Abs.cont_intro hcell
        (optMapKvs_insert (absH_fuel_le (Nat.le_max_right _ _) hvabs) hold)
  | cons i is =>
    have hmemX : ∀ X, AMap.get? kvs b = some X → (b, X) ∈ kvs := fun X hX => AMap.mem_of_get? hX
    have hcurR : ∀ b', ReachO g (AMap.get? kvs b) b' → Reach g c b' ∧ b' ≠ c := by
      intro b' hb'
      obtain ⟨X, hX, hXb⟩ := reachO_some hb'
      exact ⟨.step hg (mem_kids_kvs (hmemX X hX)) hXb,
        fun e => hd.no_cycle hg (mem_kids_kvs (hmemX X hX)) (e ▸ hXb)⟩
    obtain ⟨hsz, hfr1, hst1⟩ := setSlotH_spec hn hv (i :: is) (AMap.get? kvs b) (AMap.get? d b)
      (oabs_get? hkvs b)
      (fun X hX => sibSep_of_reach hs (.step hg (mem_kids_kvs (hmemX X hX)) (.refl _)))
      (fun b' hb' hcb => hdis b' (hcurR b' hb').1 hcb)
    generalize hss : setSlotH g (AMap.get? kvs b) (i :: is) v = res at he hsz hfr1 hst1
    obtain ⟨g1, r⟩ := res
    simp only [Option.some.injEq] at he hsz hfr1 hst1
    subst he
    have hclt1 : c < g1.size := Nat.lt_of_lt_of_le hclt hsz
    refine ⟨by rw [size_write]; exact hsz, ?_, ?_⟩
    · intro b' hb' hnS
      rw [get?_write_ne _ _ (fun e => by subst e; exact hnS ⟨.refl _, hcc⟩)]
      exact hfr1 b' hb' (fun hS => hnS ⟨(hcurR b' hS.1).1, hS.2⟩)
    · intro h2 hag
      simp only [size_write] at hag
      have hcell : h2.get? c = some (.cont (AMap.insert kvs b r)) := by
        rw [hag c (Or.inr (Or.inr (Or.inl (Reach.refl c)))) hclt1]
        exact get?_write_self _ _ hclt1
      have hag1 : ∀ b', Foot g (some c) P b' → b' ≠ c → b' < g1.size → h2.get? b' = g1.get? b' := by
        intro b' hF hbc hlt
        rw [hag b' hF hlt, get?_write_ne _ _ hbc]
      obtain ⟨fr, hrabs⟩ : Abs h2 r (setSlot (AMap.get? d b) (i :: is) vn) := by
        refine hst1 h2 (fun b' hF hlt => ?_)
        rcases hF with h1 | rfl | h1 | h1
        · exact hag1 b' (Or.inl h1) (fun e => Nat.not_le.mpr hclt (e ▸ h1)) hlt
        · exact hag1 _ (Or.inr (Or.inl rfl)) (fun e => hnilc (e ▸ hcc)) hlt
        · exact hag1 b' (Or.inr (Or.inr (Or.inl (hcurR b' h1).1))) (hcurR b' h1).2 hlt
        · exact hag1 b' (Or.inr (Or.inr (Or.inr h1)))
            (fun e => by subst e; exact hdis _ (.refl _) hcc h1) hlt
      have hother : ∀ p ∈ kvs, p.1 ≠ b → ∀ n, absH f0 g p.2 = some n →
          absH (max f0 fr) h2 p.2 = some n := by
        intro p hp hpb n hm
        refine hkid h2 p hp (fun b' hb' => ?_) _ n (Nat.le_max_left _ _) hm
        have hblt : b' < g.size := reach_lt_of_absH _ _ _ hm b' hb'
        rw [hag1 b' (Or.inr (Or.inr (Or.inl (.step hg (mem_kids_kvs hp) hb'))))
          (fun e => hd.no_cycle hg (mem_kids_kvs hp) (e ▸ hb')) (Nat.lt_of_lt_of_le hblt hsz)]
        refine hfr1 b' hblt (fun hS => ?_)
        obtain ⟨X, hX, hXb⟩ := reachO_some hS.1
        exact sibSep_kvs hs hg hp (hmemX X hX) hpb b' hb' hXb hS.2
      exact Abs.cont_intro hcell
        (optMapKvs_insert_frame (absH_fuel_le (Nat.le_max_right _ _) hrabs) (hsort kvs hg) hkvs hother)

/-- `AddValue(name, v)` refines `Ytk.add`.  Added hypothesis w.r.t. the plan: `h.MapsOk` (children maps
    are sorted, i.e. Go maps) — with an index group in `name` the slot is found with `get?` and
    replaced with `insert`, which address the same entry only in a sorted map. -/
theorem addH_abs {h h' : Heap} {rank : Addr → Nat} {c v : Addr} {d : AMap Node} {vn : Node} {f : Nat}
    (hc : h.Closed) (hr : h.RankedBy rank) (hn : h.NilOk) (hm : h.MapsOk) (hs : SibSep h c)
    (hap : Apart h c v) (hd : absH f h c = some (.cont d)) (hv : absH f h v = some vn) {name : String}
    (he : addH h c name v = some h') : ∃ f', absH f' h' c = some (.cont (Ytk.add d name vn)) :=
  (addH_spec hn (Stable.of_abs ⟨f, hv⟩) ⟨f, hd⟩ hs (fun kvs hg => hm c kvs hg)
    (fun b hcb hcomp hvb => hap b hcb hvb hcomp) he).2.2.abs

/-! ## 6. spineH: the new containers of `ancestorOf(path, create)` -/

/-- the node `spineH` builds: `v` wrapped in one new container per component -/
def spineVal : List String → Node → Node
  | [], v => v
  | p :: rest, v => .cont (Ytk.add [] p (spineVal rest v))

theorem spineVal_eq : ∀ (segs : List String) (v : Node), segs ≠ [] →
    spineVal segs v = .cont (addAtSegs [] segs v)
  | [], _, h => absurd rfl h
  | [p], v, _ => by simp only [spineVal, addAtSegs]
  | p :: q :: rest, v, _ => by
    rw [spineVal, spineVal_eq (q :: rest) v (by simp)]
    simp only [addAtSegs, child_nil]

theorem stable_alloc_cont1 {g1 : Heap} {F1 F : Addr → Prop} {r : Addr} {rn : Node} (k : String)
    (hst : Stable g1 F1 r rn) (hF1 : ∀ b, F1 b → F b) (hnew : F g1.size) :
    Stable (g1.alloc (.cont [(k, r)])).1 F (g1.alloc (.cont [(k, r)])).2 (.cont [(k, rn)]) := by
  intro h2 hag
  simp only [size_alloc] at hag
  rw [alloc_snd]
  have hcell : h2.get? g1.size = some (.cont [(k, r)]) := by
    rw [hag g1.size hnew (Nat.lt_succ_self _)]
    exact get?_alloc_new _ _
  obtain ⟨fr, hr⟩ : Abs h2 r rn := by
    refine hst h2 (fun b hb hlt => ?_)
    rw [hag b (hF1 b hb) (Nat.lt_succ_of_lt hlt), get?_eq_of_le (le_alloc g1 _) hlt]
  exact Abs.cont_intro hcell (optMapKvs_cons_some.mpr ⟨rn, [], hr, rfl, rfl⟩)

theorem spineH_spec {g : Heap} {v : Addr} {vn : Node} {P : Addr → Prop} (hn : g.NilOk)
    (hv : Stable g P v vn) : ∀ (segs : List String),
      g.size ≤ (spineH g segs v).1.size ∧ FrameOn g (spineH g segs v).1 (fun _ => False) ∧
      Stable (spineH g segs v).1 (fun b => g.size ≤ b ∨ b = nilAddr ∨ P b) (spineH g segs v).2
        (spineVal segs vn)
  | [] => ⟨Nat.le_refl _, fun _ _ _ => rfl, hv.weaken (fun b hb => Or.inr (Or.inr hb))⟩
  | p :: rest => by
    obtain ⟨hsz, hfr, hst⟩ := spineH_spec hn hv rest
    simp only [spineH, spineVal, Ytk.add]
    generalize (spineH g rest v).1 = h1 at *
    generalize (spineH g rest v).2 = r at *
    cases hp : parseSeg p with
    | mk b is =>
    simp only
    cases is with
    | nil =>
      simp only [AMap.insert]
      refine ⟨by rw [size_alloc]; omega, ?_, ?_⟩
      · intro b' hb' _
        rw [get?_eq_of_le (le_alloc h1 _) (Nat.lt_of_lt_of_le hb' hsz)]
        exact hfr b' hb' id
      · exact stable_alloc_cont1 p hst (fun _ hb => hb) (Or.inl hsz)
    | cons i is =>
      have hn1 : h1.NilOk := by
        show h1.get? nilAddr = _
        rw [hfr _ (get?_lt hn) id]; exact hn
      obtain ⟨hsz2, hfr2, hst2⟩ := setSlotH_spec hn1 hst (i :: is) none none True.intro
        (fun a ha => by cases ha) (fun b' hb' => absurd hb' id)
      generalize setSlotH h1 none (i :: is) r = res at hsz2 hfr2 hst2 ⊢
      obtain ⟨h2', r2⟩ := res
      simp only at hsz2 hfr2 hst2 ⊢
      simp only [AMap.get?_nil, AMap.insert]
      refine ⟨by rw [size_alloc]; omega, ?_, ?_⟩
      · intro b' hb' _
        have h1lt : b' < h1.size := Nat.lt_of_lt_of_le hb' hsz
        rw [get?_eq_of_le (le_alloc h2' _) (Nat.lt_of_lt_of_le h1lt hsz2),
          hfr2 b' h1lt (fun hS => hS.1)]
        exact hfr b' hb' id
      · refine stable_alloc_cont1 b hst2 (fun b' hb' => ?_) (Or.inl (Nat.le_trans hsz hsz2))
        rcases hb' with h3 | h3 | h3 | h3
        · exact Or.inl (Nat.le_trans hsz h3)
        · exact Or.inr (Or.inl h3)
        · exact absurd h3 id
        · exact h3

/-! ## 7. reading: Child -/

theorem oabs_getElem? {g : Heap} {f : Nat} {xs : List Addr} {ns : List Node}
    (hm : optMapM (absH f g) xs = some ns) (i : Nat) : OAbs g xs[i]? ns[i]? := by
  cases hx : xs[i]? with
  | some k =>
    obtain ⟨kn, hkn, hk⟩ := optMapM_getElem? hm hx
    rw [hkn]; exact ⟨f, hk⟩
  | none =>
    have : ns[i]? = none := by
      rw [List.getElem?_eq_none_iff] at hx ⊢
      rw [optMapM_length hm]; exact hx
    rw [this]; exact True.intro

/-- `walkIdxH` refines `walkIdx`; what it finds is reachable -/
theorem walkIdxH_abs {g : Heap} : ∀ (is : List Nat) (cur : Option Addr) (curN : Option Node),
    OAbs g cur curN → OAbs g (walkIdxH g cur is) (walkIdx curN is) ∧
      ∀ x, walkIdxH g cur is = some x → ReachO g cur x
  | [], cur, curN, ho => by
    refine ⟨ho, fun x hx => ?_⟩
    simp only [walkIdxH] at hx
    subst hx; exact Reach.refl x
  | i :: is, none, curN, ho => by
    cases curN with
    | some n => exact absurd ho id
    | none => exact ⟨True.intro, fun x hx => by simp [walkIdxH] at hx⟩
  | i :: is, some a, curN, ho => by
    cases curN with
    | none => exact absurd ho id
    | some n =>
    have hab : Abs g a n := ho
    cases hg : g.get? a with
    | none =>
      exfalso
      obtain ⟨f, hf⟩ := hab
      obtain ⟨_, c, _, hc, _⟩ := absH_inv hf
      rw [hg] at hc; cases hc
    | some cell =>
      cases cell with
      | leaf s =>
        have := hab.leaf_inv hg; subst this
        simp only [walkIdxH, hg, walkIdx]
        exact ⟨True.intro, fun x hx => by cases hx⟩
      | cont kvs =>
        obtain ⟨_, m, _, rfl⟩ := hab.cont_inv hg
        simp only [walkIdxH, hg, walkIdx]
        exact ⟨True.intro, fun x hx => by cases hx⟩
      | list xs =>
        obtain ⟨f0, ns, hns, rfl⟩ := hab.list_inv hg
        simp only [walkIdxH, hg, walkIdx]
        obtain ⟨h1, h2⟩ := walkIdxH_abs is xs[i]? ns[i]? (oabs_getElem? hns i)
        refine ⟨h1, fun x hx => ?_⟩
        obtain ⟨k, hk, hkx⟩ := reachO_some (h2 x hx)
        exact Reach.step hg (mem_kids_list (List.mem_of_getElem? hk)) hkx

/-- `Child(name)` refines `child` -/
theorem childKvs_abs {g : Heap} {f : Nat} {kvs : AMap Addr} {d : AMap Node}
    (hm : optMapKvs (absH f g) kvs = some d) (name : String) :
    OAbs g (childKvs g kvs name) (child d name) := by
  unfold childKvs child
  cases hp : parseSeg name with
  | mk b is =>
  simp only
  cases is with
  | nil => exact oabs_get? hm name
  | cons i is => exact (walkIdxH_abs (i :: is) _ _ (oabs_get? hm b)).1

theorem childH_abs {g : Heap} {c : Addr} {d : AMap Node} (hd : Abs g c (.cont d)) (name : String) :
    OAbs g (childH g c name) (child d name) := by
  obtain ⟨kvs, f0, hg, hkvs⟩ := hd.cont_cell
  unfold childH
  simp only [hg]
  exact childKvs_abs hkvs name

/-- an existing container child: the value-level child is a container too -/
theorem contChildH_some {g : Heap} {c x : Addr} {d : AMap Node} (hd : Abs g c (.cont d)) {p : String}
    (h : contChildH g c p = some x) :
    childH g c p = some x ∧ ∃ dx, child d p = some (.cont dx) ∧ Abs g x (.cont dx) := by
  unfold contChildH at h
  cases hch : childH g c p with
  | none => simp [hch] at h
  | some y =>
    simp only [hch] at h
    cases hg : g.get? y with
    | none => simp [hg] at h
    | some cell =>
      cases cell with
      | leaf s => simp [hg] at h
      | list xs => simp [hg] at h
      | cont kvs =>
        simp only [hg, Option.some.injEq] at h
        subst h
        have ho := childH_abs hd p
        rw [hch] at ho
        cases hcd : child d p with
        | none => rw [hcd] at ho; exact absurd ho id
        | some n =>
          rw [hcd] at ho
          have hab : Abs g y n := ho
          obtain ⟨_, dx, _, rfl⟩ := hab.cont_inv hg
          exact ⟨rfl, dx, rfl, hab⟩

/-- no existing container child: the value-level child is not a container -/
theorem contChildH_none {g : Heap} {c : Addr} {d : AMap Node} (hd : Abs g c (.cont d)) {p : String}
    (h : contChildH g c p = none) : ∀ dx, child d p ≠ some (.cont dx) := by
  intro dx hcd
  have ho := childH_abs hd p
  rw [hcd] at ho
  unfold contChildH at h
  cases hch : childH g c p with
  | none => rw [hch] at ho; exact ho
  | some y =>
    rw [hch] at ho
    have hab : Abs g y (.cont dx) := ho
    obtain ⟨kvs, _, hg, _⟩ := hab.cont_cell
    simp [hch, hg] at h

/-! ## 8. entering an existing container: the subtree at a component is replaced -/

theorem set_of_getElem? {α : Type} {xs : List α} {i : Nat} {k : α} (h : xs[i]? = some k) :
    xs.set i k = xs := by
  have hi : i < xs.length := (List.getElem?_eq_some_iff.mp h).1
  apply List.ext_getElem?
  intro j
  by_cases hj : i = j
  · subst hj; rw [List.getElem?_set_self hi]; exact h.symm
  · rw [List.getElem?_set_ne hj]

theorem padTo_of_lt {ns : List Node} {i : Nat} (hi : i < ns.length) : padTo ns (i + 1) = ns := by
  simp [padTo, Nat.sub_eq_zero_of_le (Nat.succ_le_of_lt hi)]

theorem reach_of_agree {g h1 : Heap} {r b : Addr} (hr : Reach h1 r b) :
    (∀ b, Reach g r b → h1.get? b = g.get? b) → Reach g r b := by
  induction hr with
  | refl _ => intro _; exact .refl _
  | @step a k b cell hg hk _ ih =>
    intro hag
    rw [hag a (.refl a)] at hg
    exact .step hg hk (ih (fun b' hb' => hag b' (.step hg hk hb')))

/-- along an existing walk through lists, replacing the node found replaces it in the abstraction -/
theorem walk_replace {g g' : Heap} {P : Addr → Prop} {x : Addr} {xn' : Node}
    (hsz : g.size ≤ g'.size) (hfr : FrameOn g g' (fun b => Reach g x b ∧ Composite g b))
    (hst : Stable g' (Foot g (some x) P) x xn') :
    ∀ (is : List Nat) (cur : Option Addr) (curN : Option Node), OAbs g cur curN →
      walkIdxH g cur is = some x → (∀ a, cur = some a → SibSep g a) →
      ∃ a, cur = some a ∧ Reach g a x ∧ Stable g' (Foot g (some a) P) a (setSlot curN is xn')
  | [], cur, curN, _, hw, _ => by
    simp only [walkIdxH] at hw
    exact ⟨x, hw, .refl x, by simpa only [setSlot] using hst⟩
  | i :: is, none, _, _, hw, _ => by simp [walkIdxH] at hw
  | i :: is, some a, curN, ho, hw, hsib => by
    cases curN with
    | none => exact absurd ho id
    | some n =>
    have hab : Abs g a n := ho
    cases hg : g.get? a with
    | none => simp [walkIdxH, hg] at hw
    | some cell =>
      cases cell with
      | leaf s => simp [walkIdxH, hg] at hw
      | cont kvs => simp [walkIdxH, hg] at hw
      | list xs =>
        obtain ⟨f0, ns, hns, rfl⟩ := hab.list_inv hg
        simp only [walkIdxH, hg] at hw
        obtain ⟨k, hk, hkx, hstk⟩ := walk_replace hsz hfr hst is xs[i]? ns[i]? (oabs_getElem? hns i) hw
          (fun a' ha' => sibSep_of_reach (hsib a rfl)
            (.step hg (mem_kids_list (List.mem_of_getElem? ha')) (.refl _)))
        have hi : i < xs.length := (List.getElem?_eq_some_iff.mp hk).1
        have hkmem : k ∈ (Cell.list xs).kids := mem_kids_list (List.mem_of_getElem? hk)
        have halt : a < g.size := get?_lt hg
        have hnxa : ¬ Reach g x a := fun hxa => hab.no_cycle hg hkmem (hkx.trans hxa)
        refine ⟨a, rfl, .step hg hkmem hkx, ?_⟩
        intro h2 hag
        have hcell : h2.get? a = some (.list xs) := by
          rw [hag a (Or.inr (Or.inr (Or.inl (Reach.refl a)))) (Nat.lt_of_lt_of_le halt hsz),
            hfr a halt (fun hS => hnxa hS.1)]
          exact hg
        obtain ⟨fr, hkabs⟩ : Abs h2 k (setSlot ns[i]? is xn') := by
          refine hstk h2 (fun b hF hlt => hag b ?_ hlt)
          rcases hF with h1 | h1 | h1 | h1
          · exact Or.inl h1
          · exact Or.inr (Or.inl h1)
          · exact Or.inr (Or.inr (Or.inl (.step hg hkmem h1)))
          · exact Or.inr (Or.inr (Or.inr h1))
        have hother : ∀ j x' m, j ≠ i → xs[j]? = some x' → absH f0 g x' = some m →
            absH (max f0 fr) h2 x' = some m := by
          intro j x' m hji hx' hm
          refine absH_fuel_le (Nat.le_max_left _ _) ?_
          rw [absH_agree f0 x' (h := g) (h' := h2)]
          · exact hm
          · intro b hb
            have hblt : b < g.size := reach_lt_of_absH _ _ _ hm b hb
            rw [hag b (Or.inr (Or.inr (Or.inl
              (.step hg (mem_kids_list (List.mem_of_getElem? hx')) hb)))) (Nat.lt_of_lt_of_le hblt hsz)]
            exact hfr b hblt (fun hS =>
              hsib a rfl a _ (.refl a) hg i j k x' hk hx' (Ne.symm hji) b (hkx.trans hS.1) hb hS.2)
        have hset := optMapM_set (g := absH f0 g) (g' := absH (max f0 fr) h2)
          (absH_fuel_le (Nat.le_max_right _ _) hkabs) i hns hi hother
        rw [set_of_getElem? hk] at hset
        have hval : setSlot (some (Node.list ns)) (i :: is) xn' =
            .list (ns.set i (setSlot ns[i]? is xn')) := by
          simp only [setSlot, padTo_of_lt (optMapM_length hns ▸ hi)]
        rw [hval]
        exact Abs.list_intro hcell hset

/-- the member `X` under the key `b0` of the (unwritten) container `c` is replaced -/
theorem slot_replace {g g' : Heap} {P : Addr → Prop} {c X : Addr} {d : AMap Node} {b0 : String}
    {newN : Node} {kvs : AMap Addr} (hd : Abs g c (.cont d)) (hs : SibSep g c)
    (hg : g.get? c = some (.cont kvs)) (hsort : AMap.Sorted kvs) (hX : AMap.get? kvs b0 = some X)
    (hsz : g.size ≤ g'.size) (hfr : FrameOn g g' (fun b => Reach g X b ∧ Composite g b))
    (hst : Stable g' (Foot g (some X) P) X newN) :
    Stable g' (Foot g (some c) P) c (.cont (AMap.insert d b0 newN)) := by
  obtain ⟨f0, m, hkvs, hdm⟩ := hd.cont_inv hg
  cases hdm
  have hXmem : (b0, X) ∈ kvs := AMap.mem_of_get? hX
  have hXk : X ∈ (Cell.cont kvs).kids := mem_kids_kvs hXmem
  have hclt : c < g.size := get?_lt hg
  intro h2 hag
  have hcell : h2.get? c = some (.cont kvs) := by
    rw [hag c (Or.inr (Or.inr (Or.inl (Reach.refl c)))) (Nat.lt_of_lt_of_le hclt hsz),
      hfr c hclt (fun hS => hd.no_cycle hg hXk hS.1)]
    exact hg
  obtain ⟨fr, hXabs⟩ : Abs h2 X newN := by
    refine hst h2 (fun b hF hlt => hag b ?_ hlt)
    rcases hF with h1 | h1 | h1 | h1
    · exact Or.inl h1
    · exact Or.inr (Or.inl h1)
    · exact Or.inr (Or.inr (Or.inl (.step hg hXk h1)))
    · exact Or.inr (Or.inr (Or.inr h1))
  have hother : ∀ p ∈ kvs, p.1 ≠ b0 → ∀ n, absH f0 g p.2 = some n →
      absH (max f0 fr) h2 p.2 = some n := by
    intro p hp hpb n hm
    refine absH_fuel_le (Nat.le_max_left _ _) ?_
    rw [absH_agree f0 p.2 (h := g) (h' := h2)]
    · exact hm
    · intro b hb
      have hblt : b < g.size := reach_lt_of_absH _ _ _ hm b hb
      rw [hag b (Or.inr (Or.inr (Or.inl (.step hg (mem_kids_kvs hp) hb)))) (Nat.lt_of_lt_of_le hblt hsz)]
      exact hfr b hblt (fun hS => sibSep_kvs hs hg hp hXmem hpb b hb hS.1 hS.2)
  have hins := optMapKvs_insert_frame (g := absH f0 g) (g' := absH (max f0 fr) h2)
    (absH_fuel_le (Nat.le_max_right _ _) hXabs) hsort hkvs hother
  rw [AMap.insert_of_get? hsort hX] at hins
  exact Abs.cont_intro hcell hins

/-- `x := c.Child(p)` was entered and everything written lies below `x`: in the abstraction the
    node at `p` is replaced by the new abstraction of `x` -/
theorem enter_spec {g g' : Heap} {P : Addr → Prop} {c x : Addr} {d : AMap Node} {p : String}
    {xn' : Node} (hd : Abs g c (.cont d)) (hs : SibSep g c)
    (hsort : ∀ kvs, g.get? c = some (.cont kvs) → AMap.Sorted kvs)
    (hch : childH g c p = some x)
    (hsz : g.size ≤ g'.size) (hfr : FrameOn g g' (fun b => Reach g x b ∧ Composite g b))
    (hst : Stable g' (Foot g (some x) P) x xn') :
    Reach g c x ∧ Stable g' (Foot g (some c) P) c (.cont (Ytk.add d p xn')) := by
  obtain ⟨kvs, f0, hg, hkvs⟩ := hd.cont_cell
  unfold childH at hch
  simp only [hg] at hch
  unfold childKvs at hch
  unfold Ytk.add
  cases hp : parseSeg p with
  | mk b is =>
  rw [hp] at hch
  simp only at hch ⊢
  cases is with
  | nil =>
    simp only at hch
    exact ⟨.step hg (mem_kids_kvs (AMap.mem_of_get? hch)) (.refl _),
      slot_replace hd hs hg (hsort kvs hg) hch hsz hfr hst⟩
  | cons i is =>
    simp only at hch
    obtain ⟨X, hX, hXx, hstX⟩ := walk_replace hsz hfr hst (i :: is) (AMap.get? kvs b) (AMap.get? d b)
      (oabs_get? hkvs b) hch
      (fun a ha => sibSep_of_reach hs (.step hg (mem_kids_kvs (AMap.mem_of_get? ha)) (.refl _)))
    exact ⟨.step hg (mem_kids_kvs (AMap.mem_of_get? hX)) hXx,
      slot_replace hd hs hg (hsort kvs hg) hX hsz
        (hfr.weaken (fun b' hS => ⟨hXx.trans hS.1, hS.2⟩)) hstX⟩

/-! ## 9. addAtSegsH (AddValueAt) -/

theorem childH_reach {g : Heap} {c x : Addr} {d : AMap Node} (hd : Abs g c (.cont d)) {p : String}
    (hch : childH g c p = some x) : Reach g c x := by
  obtain ⟨kvs, f0, hg, hkvs⟩ := hd.cont_cell
  unfold childH at hch
  simp only [hg] at hch
  unfold childKvs at hch
  cases hp : parseSeg p with
  | mk b is =>
  rw [hp] at hch
  simp only at hch
  cases is with
  | nil =>
    simp only at hch
    exact .step hg (mem_kids_kvs (AMap.mem_of_get? hch)) (.refl _)
  | cons i is =>
    simp only at hch
    obtain ⟨X, hX, hXx⟩ := reachO_some ((walkIdxH_abs (i :: is) _ _ (oabs_get? hkvs b)).2 x hch)
    exact .step hg (mem_kids_kvs (AMap.mem_of_get? hX)) hXx

/-- new containers for `segs` (holding `v`) attached at `p` of `c` -/
theorem spine_addH_spec {g g' : Heap} {c v : Addr} {d : AMap Node} {vn : Node} {P : Addr → Prop}
    {p : String} {segs : List String} (hn : g.NilOk) (hv : Stable g P v vn) (hd : Abs g c (.cont d))
    (hs : SibSep g c) (hsort : ∀ kvs, g.get? c = some (.cont kvs) → AMap.Sorted kvs)
    (hdis : ∀ b, Reach g c b → Composite g b → ¬ P b)
    (he : addH (spineH g segs v).1 c p (spineH g segs v).2 = some g') :
    g.size ≤ g'.size ∧ FrameOn g g' (fun b => Reach g c b ∧ Composite g b) ∧
      Stable g' (Foot g (some c) P) c (.cont (Ytk.add d p (spineVal segs vn))) := by
  obtain ⟨hsz1, hfr1, hst1⟩ := spineH_spec hn hv segs
  generalize (spineH g segs v).1 = h1 at *
  generalize (spineH g segs v).2 = r at *
  have hagc : ∀ b, Reach g c b → h1.get? b = g.get? b := fun b hb => hfr1 b (hd.reach_lt hb) id
  have hR : ∀ b, Reach h1 c b → Reach g c b := fun b hb => reach_of_agree hb hagc
  have hn1 : h1.NilOk := by
    show h1.get? nilAddr = _
    rw [hfr1 _ (get?_lt hn) id]; exact hn
  have hcomp : ∀ b, Reach g c b → Composite h1 b → Composite g b := by
    rintro b hb ⟨cell, hcell, hl⟩
    exact ⟨cell, by rw [← hagc b hb]; exact hcell, hl⟩
  have hs1 : SibSep h1 c := by
    intro a cell ha hcell i j ki kj hi hj hij b hkib hkjb hcb
    have hga : Reach g c a := hR a ha
    rw [hagc a hga] at hcell
    have hki : Reach g c ki := hga.trans (.step hcell (List.mem_of_getElem? hi) (.refl _))
    have hkj : Reach g c kj := hga.trans (.step hcell (List.mem_of_getElem? hj) (.refl _))
    have h1' : Reach g ki b := reach_of_agree hkib (fun b' hb' => hagc b' (hki.trans hb'))
    have h2' : Reach g kj b := reach_of_agree hkjb (fun b' hb' => hagc b' (hkj.trans hb'))
    exact hs a cell hga hcell i j ki kj hi hj hij b h1' h2' (hcomp b (hki.trans h1') hcb)
  obtain ⟨hsz, hfr, hst⟩ := addH_spec hn1 hst1 (hd.agree hagc) hs1
    (fun kvs hg => hsort kvs (by rw [← hagc c (.refl c)]; exact hg))
    (fun b hb hcb hP => by
      have hgb := hR b hb
      have hcg := hcomp b hgb hcb
      rcases hP with h3 | rfl | h3
      · exact Nat.not_le.mpr (hd.reach_lt hgb) h3
      · exact not_composite_leaf hn hcg
      · exact hdis b hgb hcg h3) he
  refine ⟨Nat.le_trans hsz1 hsz, ?_, ?_⟩
  · intro b hb hnS
    rw [hfr b (Nat.lt_of_lt_of_le hb hsz1) (fun hS => hnS ⟨hR b hS.1, hcomp b (hR b hS.1) hS.2⟩)]
    exact hfr1 b hb id
  · refine hst.weaken (fun b hF => ?_)
    rcases hF with h3 | h3 | h3 | h3 | h3 | h3
    · exact Or.inl (Nat.le_trans hsz1 h3)
    · exact Or.inr (Or.inl h3)
    · exact Or.inr (Or.inr (Or.inl (hR b h3)))
    · exact Or.inl h3
    · exact Or.inr (Or.inl h3)
    · exact Or.inr (Or.inr (Or.inr h3))

theorem addAtSegsH_spec {g : Heap} {v : Addr} {vn : Node} {P : Addr → Prop} (hn : g.NilOk)
    (hm : g.MapsOk) (hv : Stable g P v vn) :
    ∀ (segs : List String) (c : Addr) (d : AMap Node) (g' : Heap), Abs g c (.cont d) → SibSep g c →
      (∀ b, Reach g c b → Composite g b → ¬ P b) → addAtSegsH g c segs v = some g' →
      g.size ≤ g'.size ∧ FrameOn g g' (fun b => Reach g c b ∧ Composite g b) ∧
        Stable g' (Foot g (some c) P) c (.cont (addAtSegs d segs vn))
  | [], c, d, g', hd, _, _, he => by
    simp only [addAtSegsH, Option.some.injEq] at he
    subst he
    exact ⟨Nat.le_refl _, fun _ _ _ => rfl,
      (Stable.of_abs hd).weaken (fun b hb => Or.inr (Or.inr (Or.inl hb)))⟩
  | [last], c, d, g', hd, hs, hdis, he => by
    simp only [addAtSegsH] at he
    simp only [addAtSegs]
    exact addH_spec hn hv hd hs (fun kvs hg => hm c kvs hg) hdis he
  | p :: q :: rest, c, d, g', hd, hs, hdis, he => by
    simp only [addAtSegsH] at he
    cases hcc : contChildH g c p with
    | some x =>
      simp only [hcc] at he
      obtain ⟨hch, dx, hcd, hdx⟩ := contChildH_some hd hcc
      have hcx : Reach g c x := childH_reach hd hch
      obtain ⟨hsz, hfr, hst⟩ := addAtSegsH_spec hn hm hv (q :: rest) x dx g' hdx (sibSep_of_reach hs hcx)
        (fun b hb => hdis b (hcx.trans hb)) he
      simp only [addAtSegs, hcd]
      exact ⟨hsz, hfr.weaken (fun b hS => ⟨hcx.trans hS.1, hS.2⟩),
        (enter_spec hd hs (fun kvs hg => hm c kvs hg) hch hsz hfr hst).2⟩
    | none =>
      simp only [hcc] at he
      have hnc := contChildH_none hd hcc
      have hval : addAtSegs d (p :: q :: rest) vn = Ytk.add d p (spineVal (q :: rest) vn) := by
        rw [spineVal_eq (q :: rest) vn (by simp)]
        -- the `match` on `child d p` falls through to `[]`: its equation is discharged by `hnc`
        simp only [addAtSegs]
      rw [hval]
      exact spine_addH_spec hn hv hd hs (fun kvs hg => hm c kvs hg) hdis he

/-- `AddValueAt` on the component list refines `addAtSegs`.  Added hypothesis: `h.MapsOk` (see
    `addH_abs`). -/
theorem addAtSegsH_abs {h h' : Heap} {rank : Addr → Nat} {c v : Addr} {d : AMap Node} {vn : Node} {f : Nat}
    (hc : h.Closed) (hr : h.RankedBy rank) (hn : h.NilOk) (hm : h.MapsOk) (hs : SibSep h c)
    (hap : Apart h c v) (hd : absH f h c = some (.cont d)) (hv : absH f h v = some vn)
    {segs : List String} (he : addAtSegsH h c segs v = some h') :
    ∃ f', absH f' h' c = some (.cont (addAtSegs d segs vn)) :=
  (addAtSegsH_spec hn hm (Stable.of_abs ⟨f, hv⟩) segs c d h' ⟨f, hd⟩ hs
    (fun b hcb hcomp hvb => hap b hcb hvb hcomp) he).2.2.abs

theorem addValueAtH_abs {h h' : Heap} {rank : Addr → Nat} {c v : Addr} {d : AMap Node} {vn : Node} {f : Nat}
    (hc : h.Closed) (hr : h.RankedBy rank) (hn : h.NilOk) (hm : h.MapsOk) (hs : SibSep h c)
    (hap : Apart h c v) (hd : absH f h c = some (.cont d)) (hv : absH f h v = some vn)
    {path : String} (he : addValueAtH h c path v = some h') :
    ∃ f', absH f' h' c = some (.cont (addValueAt d path vn)) :=
  addAtSegsH_abs hc hr hn hm hs hap hd hv he

/-! ## 10. remove / removeAtSegsH (RemoveAt) -/

/-- no value is attached: the empty footprint -/
def NoVal : Addr → Prop := fun _ => False

theorem remove_spec {g g' : Heap} {c : Addr} {d : AMap Node} {name : String}
    (hd : Abs g c (.cont d)) (he : Ytk.Heap.remove g c name = some g') :
    g.size ≤ g'.size ∧ FrameOn g g' (fun b => Reach g c b ∧ Composite g b) ∧
      Stable g' (Foot g (some c) NoVal) c (.cont (Ytk.remove d name)) := by
  obtain ⟨kvs, f0, hg, hkvs⟩ := hd.cont_cell
  have hclt : c < g.size := get?_lt hg
  unfold Ytk.Heap.remove at he
  simp only [hg, Option.some.injEq] at he
  subst he
  refine ⟨by rw [size_write]; exact Nat.le_refl _, ?_, ?_⟩
  · intro b _ hnS
    exact get?_write_ne _ _ (fun e => by subst e; exact hnS ⟨.refl _, composite_cont hg⟩)
  · intro h2 hag
    simp only [size_write] at hag
    have hcell : h2.get? c = some (.cont (AMap.erase kvs name)) := by
      rw [hag c (Or.inr (Or.inr (Or.inl (Reach.refl c)))) hclt]
      exact get?_write_self _ _ hclt
    refine Abs.cont_intro hcell (f := f0) ?_
    refine optMapKvs_imp (fun p hp n hm => ?_) (optMapKvs_erase hkvs)
    have hpk : p.2 ∈ (Cell.cont kvs).kids := mem_kids_kvs (AMap.mem_erase hp)
    rw [absH_agree f0 p.2 (h := g) (h' := h2)]
    · exact hm
    · intro b hb
      rw [hag b (Or.inr (Or.inr (Or.inl (.step hg hpk hb)))) (reach_lt_of_absH _ _ _ hm b hb)]
      exact get?_write_ne _ _ (fun e => hd.no_cycle hg hpk (e ▸ hb))

theorem removeAtSegsH_spec {g : Heap} (hm : g.MapsOk) :
    ∀ (segs : List String) (c : Addr) (d : AMap Node) (g' : Heap), Abs g c (.cont d) → SibSep g c →
      removeAtSegsH g c segs = some g' →
      g.size ≤ g'.size ∧ FrameOn g g' (fun b => Reach g c b ∧ Composite g b) ∧
        Stable g' (Foot g (some c) NoVal) c (.cont (removeAtSegs d segs))
  | [], c, d, g', hd, _, he => by
    simp only [removeAtSegsH, Option.some.injEq] at he
    subst he
    exact ⟨Nat.le_refl _, fun _ _ _ => rfl,
      (Stable.of_abs hd).weaken (fun b hb => Or.inr (Or.inr (Or.inl hb)))⟩
  | [last], c, d, g', hd, _, he => by
    simp only [removeAtSegsH] at he
    simp only [removeAtSegs]
    exact remove_spec hd he
  | p :: q :: rest, c, d, g', hd, hs, he => by
    simp only [removeAtSegsH] at he
    cases hcc : contChildH g c p with
    | some x =>
      simp only [hcc] at he
      obtain ⟨hch, dx, hcd, hdx⟩ := contChildH_some hd hcc
      have hcx : Reach g c x := childH_reach hd hch
      obtain ⟨hsz, hfr, hst⟩ := removeAtSegsH_spec hm (q :: rest) x dx g' hdx (sibSep_of_reach hs hcx) he
      simp only [removeAtSegs, hcd]
      exact ⟨hsz, hfr.weaken (fun b hS => ⟨hcx.trans hS.1, hS.2⟩),
        (enter_spec hd hs (fun kvs hg => hm c kvs hg) hch hsz hfr hst).2⟩
    | none =>
      simp only [hcc, Option.some.injEq] at he
      subst he
      have hnc := contChildH_none hd hcc
      have hval : removeAtSegs d (p :: q :: rest) = d := by
        -- the `match` on `child d p` falls through: its equation is discharged by `hnc`
        simp only [removeAtSegs]
      rw [hval]
      exact ⟨Nat.le_refl _, fun _ _ _ => rfl,
        (Stable.of_abs hd).weaken (fun b hb => Or.inr (Or.inr (Or.inl hb)))⟩

/-- `RemoveAt` on the component list refines `removeAtSegs`.  Added hypothesis: `h.MapsOk` (the
    value-level model re-inserts the changed subtree with `insert`, which addresses the entry that
    `Child` found only in a sorted map). -/
theorem removeAtSegsH_abs {h h' : Heap} {rank : Addr → Nat} {c : Addr} {d : AMap Node} {f : Nat}
    (hc : h.Closed) (hr : h.RankedBy rank) (hm : h.MapsOk) (hs : SibSep h c)
    (hd : absH f h c = some (.cont d)) {segs : List String}
    (he : removeAtSegsH h c segs = some h') :
    ∃ f', absH f' h' c = some (.cont (removeAtSegs d segs)) :=
  (removeAtSegsH_spec hm segs c d h' ⟨f, hd⟩ hs he).2.2.abs

theorem removeAtH_abs {h h' : Heap} {rank : Addr → Nat} {c : Addr} {d : AMap Node} {f : Nat}
    (hc : h.Closed) (hr : h.RankedBy rank) (hm : h.MapsOk) (hs : SibSep h c)
    (hd : absH f h c = some (.cont d)) {path : String}
    (he : removeAtH h c path = some h') :
    ∃ f', absH f' h' c = some (.cont (removeAt d path)) := by
  unfold removeAtH at he
  split at he
  · exact removeAtSegsH_abs hc hr hm hs hd he
  · cases he

/-! ## 11. Walk(CompactFn) -/

/-- cells only lose children: same size, every cell keeps its kind and a sub-list of its kids -/
structure Shrink (h h' : Heap) : Prop where
  size_eq : h'.size = h.size
  cells : ∀ a cell', h'.get? a = some cell' → ∃ cell, h.get? a = some cell ∧
    cell'.kids.Sublist cell.kids ∧ cell'.isLeaf = cell.isLeaf

theorem Shrink.refl (h : Heap) : Shrink h h :=
  ⟨rfl, fun _ cell hg => ⟨cell, hg, List.Sublist.refl _, rfl⟩⟩

theorem Shrink.trans {a b c : Heap} (h1 : Shrink a b) (h2 : Shrink b c) : Shrink a c := by
  refine ⟨h2.size_eq.trans h1.size_eq, fun x cell'' hg => ?_⟩
  obtain ⟨cell', hg', hs', hl'⟩ := h2.cells x cell'' hg
  obtain ⟨cell, hg0, hs0, hl0⟩ := h1.cells x cell' hg'
  exact ⟨cell, hg0, hs'.trans hs0, hl'.trans hl0⟩

theorem Shrink.write {h : Heap} {a : Addr} {cell cell' : Cell} (hg : h.get? a = some cell)
    (hs : cell'.kids.Sublist cell.kids) (hl : cell'.isLeaf = cell.isLeaf) : Shrink h (h.write a cell') := by
  refine ⟨size_write _ _ _, fun x c' hx => ?_⟩
  by_cases hxa : x = a
  · subst hxa
    rw [get?_write_self _ _ (get?_lt hg)] at hx
    cases hx
    exact ⟨cell, hg, hs, hl⟩
  · rw [get?_write_ne _ _ hxa] at hx
    exact ⟨c', hx, List.Sublist.refl _, rfl⟩

theorem Shrink.reach {h h' : Heap} (hs : Shrink h h') {r b : Addr} (hr : Reach h' r b) : Reach h r b := by
  induction hr with
  | refl _ => exact .refl _
  | step hg hk _ ih =>
    obtain ⟨cell, hg0, hsub, _⟩ := hs.cells _ _ hg
    exact .step hg0 (hsub.subset hk) ih

theorem Shrink.composite {h h' : Heap} (hs : Shrink h h') {b : Addr} (hc : Composite h' b) :
    Composite h b := by
  obtain ⟨cell', hg, hl⟩ := hc
  obtain ⟨cell, hg0, _, hl0⟩ := hs.cells _ _ hg
  exact ⟨cell, hg0, hl0 ▸ hl⟩

theorem sublist_two {α : Type} {l' l : List α} (hs : l'.Sublist l) :
    ∀ {i j : Nat} {ki kj : α}, l'[i]? = some ki → l'[j]? = some kj → i < j →
      ∃ i' j' : Nat, l[i']? = some ki ∧ l[j']? = some kj ∧ i' < j' := by
  induction hs with
  | slnil => intro i j ki kj hi; simp at hi
  | cons a _ ih =>
    intro i j ki kj hi hj hij
    obtain ⟨i', j', h1, h2, h3⟩ := ih hi hj hij
    exact ⟨i' + 1, j' + 1, by simpa using h1, by simpa using h2, by omega⟩
  | @cons_cons l₁ l₂ a hsub ih =>
    intro i j ki kj hi hj hij
    cases j with
    | zero => omega
    | succ j0 =>
      simp only [List.getElem?_cons_succ] at hj
      cases i with
      | zero =>
        simp only [List.getElem?_cons_zero, Option.some.injEq] at hi
        obtain ⟨j', hj'⟩ := List.mem_iff_getElem?.mp (hsub.subset (List.mem_of_getElem? hj))
        exact ⟨0, j' + 1, by simp [hi], by simpa using hj', by omega⟩
      | succ i0 =>
        simp only [List.getElem?_cons_succ] at hi
        obtain ⟨i', j', h1, h2, h3⟩ := ih hi hj (by omega)
        exact ⟨i' + 1, j' + 1, by simpa using h1, by simpa using h2, by omega⟩

theorem Shrink.sibSep {h h' : Heap} (hs : Shrink h h') {r : Addr} (hsib : SibSep h r) : SibSep h' r := by
  intro a cell' ha hg i j ki kj hi hj hij b hkib hkjb hcb
  obtain ⟨cell, hg0, hsub, _⟩ := hs.cells _ _ hg
  have key : ∃ i' j' : Nat, cell.kids[i']? = some ki ∧ cell.kids[j']? = some kj ∧ i' ≠ j' := by
    rcases Nat.lt_or_gt_of_ne hij with hlt | hgt
    · obtain ⟨i', j', h1, h2, h3⟩ := sublist_two hsub hi hj hlt
      exact ⟨i', j', h1, h2, by omega⟩
    · obtain ⟨j', i', h1, h2, h3⟩ := sublist_two hsub hj hi hgt
      exact ⟨i', j', h2, h1, by omega⟩
  obtain ⟨i', j', h1, h2, h3⟩ := key
  exact hsib a cell (hs.reach ha) hg0 i' j' ki kj h1 h2 h3 b (hs.reach hkib) (hs.reach hkjb)
    (hs.composite hcb)

theorem optMapKvs_append {g : Addr → Option Node} :
    ∀ {xs ys : List (String × Addr)} {xN yN : List (String × Node)}, optMapKvs g xs = some xN →
      optMapKvs g ys = some yN → optMapKvs g (xs ++ ys) = some (xN ++ yN)
  | [], ys, xN, yN, hx, hy => by
    simp only [optMapKvs, Option.some.injEq] at hx; subst hx; simpa using hy
  | (k, x) :: xs, ys, xN, yN, hx, hy => by
    obtain ⟨n, ns, hn, hxs, rfl⟩ := optMapKvs_cons_some.mp hx
    exact optMapKvs_cons_some.mpr ⟨n, ns ++ yN, hn, optMapKvs_append hxs hy, rfl⟩

theorem sorted_append_keys {α : Type} {k : String} {v : α} {rest : AMap α} :
    ∀ {pre : AMap α}, AMap.Sorted (pre ++ (k, v) :: rest) →
      (∀ p ∈ pre, p.1 < k) ∧ (∀ p ∈ rest, k < p.1)
  | [], hs => ⟨fun _ hp => (by cases hp), fun p hp => hs.head_lt p hp⟩
  | (k0, v0) :: pre, hs => by
    have hs' : AMap.Sorted ((k0, v0) :: (pre ++ (k, v) :: rest)) := hs
    obtain ⟨h1, h2⟩ := sorted_append_keys (pre := pre) hs'.tail
    refine ⟨fun p hp => ?_, h2⟩
    rcases List.mem_cons.mp hp with rfl | hp
    · exact hs'.head_lt (k, v) (by simp)
    · exact h1 p hp

theorem erase_append {α : Type} {k : String} {v : α} {rest : AMap α} :
    ∀ {pre : AMap α}, (∀ p ∈ pre, p.1 ≠ k) → AMap.erase (pre ++ (k, v) :: rest) k = pre ++ rest
  | [], _ => by simp [AMap.erase]
  | (k0, v0) :: pre, h => by
    have hne : k ≠ k0 := fun e => h (k0, v0) (List.mem_cons_self ..) e.symm
    show AMap.erase ((k0, v0) :: (pre ++ (k, v) :: rest)) k = _
    simp only [AMap.erase, if_neg hne]
    rw [erase_append (fun p hp => h p (List.mem_cons_of_mem _ hp))]
    rfl

/-- what a compaction below `c` yields -/
def CompactRes (h h' : Heap) (c : Addr) (n : Node) : Prop :=
  Shrink h h' ∧ h'.MapsOk ∧ FrameOn h h' (fun b => Reach h c b ∧ Composite h b) ∧
    Stable h' (Reach h c) c n

theorem CompactRes.compose {h h1 h' : Heap} {c : Addr} {n : Node} (hs : Shrink h h1)
    (hf : FrameOn h h1 (fun b => Reach h c b ∧ Composite h b)) (hr : CompactRes h1 h' c n) :
    CompactRes h h' c n := by
  obtain ⟨hs', hm', hf', hst'⟩ := hr
  refine ⟨hs.trans hs', hm', ?_, hst'.weaken (fun b hb => hs.reach hb)⟩
  intro b hb hnS
  rw [hf' b (hs.size_eq ▸ hb) (fun hS => hnS ⟨hs.reach hS.1, hs.composite hS.2⟩)]
  exact hf b hb hnS

theorem abs_cont_nil {h : Heap} {a : Addr} {m : AMap Node} (ha : Abs h a (.cont m)) :
    h.get? a = some (.cont []) ↔ m = [] := by
  obtain ⟨kvs, f, hg, hk⟩ := ha.cont_cell
  constructor
  · intro h0
    rw [hg] at h0
    cases h0
    simpa [optMapKvs] using hk.symm
  · intro hm
    subst hm
    cases kvs with
    | nil => exact hg
    | cons p kvs =>
      obtain ⟨k, x⟩ := p
      obtain ⟨_, _, _, _, h3⟩ := optMapKvs_cons_some.mp hk
      cases h3

/-- the specification of the walker handed to the loop -/
def CompactSpec (g0 : Heap → Addr → Option Heap) : Prop :=
  ∀ (h : Heap) (c : Addr) (d : AMap Node) (h' : Heap), h.MapsOk → Abs h c (.cont d) → SibSep h c →
    g0 h c = some h' → CompactRes h h' c (.cont (compactKvs d))

theorem compactKvs_cons_keep {k : String} {x : Node} {xs : List (String × Node)}
    (hx : compactNode x ≠ .cont []) : compactKvs ((k, x) :: xs) = (k, compactNode x) :: compactKvs xs := by
  simp only [compactKvs]
  -- (the `.cont []` alternative of the `match` is excluded by `hx`, found by `simp`)

theorem compactKvs_cons_drop {k : String} {x : Node} {xs : List (String × Node)}
    (hx : compactNode x = .cont []) : compactKvs ((k, x) :: xs) = compactKvs xs := by
  simp only [compactKvs, hx]

/-- the loop of `Walk(CompactFn)` over the snapshot `todo` of the children of `c`; `pre` are the
    entries already visited and kept -/
theorem compactKvsH_spec {g0 : Heap → Addr → Option Heap} (ih : CompactSpec g0) {c : Addr} :
    ∀ (todo : List (String × Addr)) (h : Heap) (pre : List (String × Addr))
      (preN todoN : List (String × Node)) (F : Nat) (h' : Heap),
      h.MapsOk → SibSep h c → h.get? c = some (.cont (pre ++ todo)) →
      optMapKvs (absH F h) pre = some preN → optMapKvs (absH F h) todo = some todoN →
      compactKvsH g0 h c todo = some h' →
      CompactRes h h' c (.cont (preN ++ compactKvs todoN))
  | [], h, pre, preN, todoN, F, h', hm, _, hcell, hpre, htodo, he => by
    simp only [compactKvsH, Option.some.injEq] at he
    subst he
    simp only [optMapKvs, Option.some.injEq] at htodo
    subst htodo
    have habs : Abs h c (.cont (preN ++ [])) := Abs.cont_intro hcell (optMapKvs_append hpre rfl)
    exact ⟨Shrink.refl h, hm, fun _ _ _ => rfl, by simpa only [compactKvs] using Stable.of_abs habs⟩
  | (k, v) :: rest, h, pre, preN, todoN, F, h', hm, hsib, hcell, hpre, htodo, he => by
    obtain ⟨vn, restN, hvn, hrest, rfl⟩ := optMapKvs_cons_some.mp htodo
    have habs : Abs h c (.cont (preN ++ (k, vn) :: restN)) :=
      Abs.cont_intro hcell (optMapKvs_append hpre htodo)
    have hclt : c < h.size := get?_lt hcell
    have hkvmem : (k, v) ∈ pre ++ (k, v) :: rest := by simp
    have hvk : v ∈ (Cell.cont (pre ++ (k, v) :: rest)).kids := mem_kids_kvs (p := (k, v)) hkvmem
    have hcv : Reach h c v := .step hcell hvk (.refl v)
    -- the entry is kept: continue in `h1` with the entry appended to `pre`
    have stepKeep : ∀ (h1 : Heap) (vn1 : Node) (F1 : Nat), Shrink h h1 →
        FrameOn h h1 (fun b => Reach h c b ∧ Composite h b) → h1.MapsOk → SibSep h1 c →
        h1.get? c = some (.cont (pre ++ (k, v) :: rest)) → optMapKvs (absH F1 h1) pre = some preN →
        absH F1 h1 v = some vn1 → optMapKvs (absH F1 h1) rest = some restN →
        compactKvsH g0 h1 c rest = some h' →
        CompactRes h h' c (.cont (preN ++ (k, vn1) :: compactKvs restN)) := by
      intro h1 vn1 F1 hsh hfr hm1 hsib1 hcell1 hpre1 hv1 hrest1 he1
      have hcell1' : h1.get? c = some (.cont ((pre ++ [(k, v)]) ++ rest)) := by
        rw [List.append_assoc]; exact hcell1
      have := compactKvsH_spec ih rest h1 (pre ++ [(k, v)]) (preN ++ [(k, vn1)]) restN F1 h' hm1 hsib1
        hcell1' (optMapKvs_append hpre1 (optMapKvs_cons_some.mpr ⟨vn1, [], hv1, rfl, rfl⟩)) hrest1 he1
      rw [List.append_assoc] at this
      exact CompactRes.compose hsh hfr this
    simp only [compactKvsH] at he
    cases hgv : h.get? v with
    | none =>
      exfalso
      obtain ⟨_, cell, _, hc', _⟩ := absH_inv hvn
      rw [hgv] at hc'; cases hc'
    | some cell =>
    cases cell with
    | leaf s =>
      simp only [hgv] at he
      have := Abs.leaf_inv ⟨F, hvn⟩ hgv; subst this
      rw [compactKvs_cons_keep (by simp [compactNode])]
      exact stepKeep h _ F (Shrink.refl h) (fun _ _ _ => rfl) hm hsib hcell hpre hvn hrest he
    | list xs =>
      simp only [hgv] at he
      obtain ⟨_, ns, _, rfl⟩ := Abs.list_inv ⟨F, hvn⟩ hgv
      rw [compactKvs_cons_keep (by simp [compactNode])]
      exact stepKeep h _ F (Shrink.refl h) (fun _ _ _ => rfl) hm hsib hcell hpre hvn hrest he
    | cont kv =>
      simp only [hgv] at he
      obtain ⟨_, dv, _, rfl⟩ := Abs.cont_inv ⟨F, hvn⟩ hgv
      cases hg0 : g0 h v with
      | none => simp [hg0] at he
      | some h1 =>
      simp only [hg0] at he
      obtain ⟨hsh, hm1, hfr1, hst1⟩ := ih h v dv h1 hm ⟨F, hvn⟩ (sibSep_of_reach hsib hcv) hg0
      have hfr1' : FrameOn h h1 (fun b => Reach h c b ∧ Composite h b) :=
        hfr1.weaken (fun b hS => ⟨hcv.trans hS.1, hS.2⟩)
      have hnvc : ¬ Reach h v c := habs.no_cycle hcell hvk
      have hcell1 : h1.get? c = some (.cont (pre ++ (k, v) :: rest)) := by
        rw [hfr1 c hclt (fun hS => hnvc hS.1)]; exact hcell
      have hsib1 : SibSep h1 c := hsh.sibSep hsib
      have hsort := hm c _ hcell
      obtain ⟨hklt, hkgt⟩ := sorted_append_keys hsort
      have hpre_ne : ∀ p ∈ pre, p.1 ≠ k := fun p hp e => String.lt_irrefl _ (e ▸ hklt p hp)
      have hrest_ne : ∀ p ∈ rest, p.1 ≠ k := fun p hp e => String.lt_irrefl _ (e ▸ hkgt p hp)
      obtain ⟨F1v, hv1⟩ := hst1.abs
      -- the other members keep their abstraction in `h1`
      have hoth : ∀ p ∈ pre ++ (k, v) :: rest, p.1 ≠ k → ∀ n, absH F h p.2 = some n →
          absH (max F F1v) h1 p.2 = some n := by
        intro p hp hpk n hn
        refine absH_fuel_le (Nat.le_max_left _ _) ?_
        rw [absH_agree F p.2 (h := h) (h' := h1)]
        · exact hn
        · intro b hb
          exact hfr1 b (reach_lt_of_absH _ _ _ hn b hb)
            (fun hS => sibSep_kvs hsib hcell hp hkvmem hpk b hb hS.1 hS.2)
      have hpre1 : optMapKvs (absH (max F F1v) h1) pre = some preN :=
        optMapKvs_imp (fun p hp n hn => hoth p (by simp [hp]) (hpre_ne p hp) n hn) hpre
      have hrest1 : optMapKvs (absH (max F F1v) h1) rest = some restN :=
        optMapKvs_imp (fun p hp n hn => hoth p (by simp [hp]) (hrest_ne p hp) n hn) hrest
      have hv1' : absH (max F F1v) h1 v = some (.cont (compactKvs dv)) :=
        absH_fuel_le (Nat.le_max_right _ _) hv1
      obtain ⟨kv1, _, hgv1, _⟩ := Abs.cont_cell ⟨F1v, hv1⟩
      have hnil := abs_cont_nil (show Abs h1 v (.cont (compactKvs dv)) from ⟨F1v, hv1⟩)
      cases kv1 with
      | cons q qs =>
        simp only [hgv1] at he
        have hne : compactKvs dv ≠ [] := fun e => by
          have := hnil.mpr e
          rw [hgv1] at this; cases this
        rw [compactKvs_cons_keep (by simpa [compactNode] using hne)]
        exact stepKeep h1 _ _ hsh hfr1' hm1 hsib1 hcell1 hpre1 hv1' hrest1 he
      | nil =>
        have hdv : compactKvs dv = [] := hnil.mp hgv1
        simp only [hgv1, Ytk.Heap.remove, hcell1, erase_append hpre_ne] at he
        rw [compactKvs_cons_drop (by simp [compactNode, hdv])]
        -- the write that removes the entry
        have habs1c : Abs h1 c (.cont (preN ++ (k, .cont (compactKvs dv)) :: restN)) :=
          Abs.cont_intro hcell1 (optMapKvs_append hpre1
            (optMapKvs_cons_some.mpr ⟨_, restN, hv1', hrest1, rfl⟩))
        have hclt1 : c < h1.size := get?_lt hcell1
        have hsh2 : Shrink h1 (h1.write c (.cont (pre ++ rest))) := by
          refine Shrink.write hcell1 ?_ rfl
          simp only [Cell.kids]
          exact ((List.Sublist.refl pre).append (List.sublist_cons_self _ _)).map _
        have hfr2 : FrameOn h1 (h1.write c (.cont (pre ++ rest)))
            (fun b => Reach h1 c b ∧ Composite h1 b) := by
          intro b _ hnS
          exact get?_write_ne _ _ (fun e => by subst e; exact hnS ⟨.refl _, composite_cont hcell1⟩)
        have hm2 : (h1.write c (.cont (pre ++ rest))).MapsOk := by
          intro a kvs hga
          by_cases hac : a = c
          · subst hac
            rw [get?_write_self _ _ hclt1] at hga
            cases hga
            have := AMap.sorted_erase hsort k
            rwa [erase_append hpre_ne] at this
          · rw [get?_write_ne _ _ hac] at hga
            exact hm1 a kvs hga
        have hkeep : ∀ p ∈ pre ++ (k, v) :: rest, ∀ n, absH (max F F1v) h1 p.2 = some n →
            absH (max F F1v) (h1.write c (.cont (pre ++ rest))) p.2 = some n := by
          intro p hp n hn
          rw [absH_write_frame _ (habs1c.no_cycle hcell1 (mem_kids_kvs hp))]; exact hn
        have hres := compactKvsH_spec ih rest (h1.write c (.cont (pre ++ rest))) pre preN restN
          (max F F1v) h' hm2 (hsh2.sibSep hsib1) (get?_write_self _ _ hclt1)
          (optMapKvs_imp (fun p hp n hn => hkeep p (by simp [hp]) n hn) hpre1)
          (optMapKvs_imp (fun p hp n hn => hkeep p (by simp [hp]) n hn) hrest1) he
        exact CompactRes.compose hsh hfr1' (CompactRes.compose hsh2 hfr2 hres)

theorem compactF_spec : ∀ (f : Nat), CompactSpec (compactF f)
  | 0 => fun _ _ _ _ _ _ _ he => by simp [compactF] at he
  | f + 1 => by
    intro h c d h' hm hd hs he
    obtain ⟨kvs, F, hg, hkvs⟩ := hd.cont_cell
    simp only [compactF, hg] at he
    have := compactKvsH_spec (compactF_spec f) kvs h [] [] d F h' hm hs (by simpa using hg) rfl hkvs he
    simpa using this

/-- `Walk(CompactFn)` refines `compactKvs`.  Added hypothesis: `h.MapsOk` (`Remove(key)` deletes the
    entry the loop is at only when keys are unique). -/
theorem compactF_abs {h h' : Heap} {rank : Addr → Nat} {c : Addr} {d : AMap Node} {f : Nat}
    (hc : h.Closed) (hr : h.RankedBy rank) (hm : h.MapsOk) (hs : SibSep h c)
    (hd : absH f h c = some (.cont d)) {g : Nat} (he : compactF g h c = some h') :
    ∃ f', absH f' h' c = some (.cont (compactKvs d)) :=
  (compactF_spec g h c d h' hm ⟨f, hd⟩ hs he).2.2.2.abs

theorem compactH_abs {h h' : Heap} {rank : Addr → Nat} {c : Addr} {d : AMap Node} {f : Nat}
    (hc : h.Closed) (hr : h.RankedBy rank) (hm : h.MapsOk) (hs : SibSep h c)
    (hd : absH f h c = some (.cont d)) (he : compactH h c = some h') :
    ∃ f', absH f' h' c = some (.cont (compactKvs d)) :=
  compactF_abs hc hr hm hs hd he

end Ytk.Heap.Refine
