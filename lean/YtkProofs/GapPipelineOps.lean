/-
  YtkProofs.GapPipelineOps — round 8, cross-property C12/C14 ↔ C13: the data operations the INTERPRETER model
  (`Ytk.Pipeline.run`, YtkModel/Pipeline.lean) executes are the data operations of C13's model
  (`Ytk.PD`, YtkModel/PipelineData.lean) — the two files model set_op.go / template_op.go independently.
-/
import YtkProofs.Pipeline
import YtkProofs.PipelineData

namespace Ytk.Pipeline

/-- `setMergeRoot` as the fold the interpreter model writes out -/
theorem setMergeRoot_eq_foldl (mergeC : AMap Node → AMap Node → AMap Node) :
    ∀ (l : List (String × Node)) (orig : AMap Node),
      PD.setMergeRoot mergeC orig l =
        l.foldl (fun acc p =>
          match child acc p.1, p.2 with
          | some (.cont oc), .cont vc => add acc p.1 (.cont (mergeC oc vc))
          | _, v => add acc p.1 v) orig
  | [], _ => rfl
  | (k, v) :: rest, orig => by
    simp only [PD.setMergeRoot, List.foldl_cons]
    rw [setMergeRoot_eq_foldl mergeC rest]
    congr 1
    unfold PD.mergeOrReplace
    split
    · rename_i h; simp only [h]
    · rename_i h
      split
      · rename_i h1
        exact (h _ _ h1 rfl).elim
      · rfl

theorem setReplaceRoot_eq_foldl : ∀ (l : List (String × Node)) (orig : AMap Node),
    PD.setReplaceRoot orig l = l.foldl (fun acc p => addValueAt acc p.1 p.2) orig
  | [], _ => rfl
  | (k, v) :: rest, orig => by
    simp only [PD.setReplaceRoot, List.foldl_cons]
    exact setReplaceRoot_eq_foldl rest _

/-- SetOp.Do of the interpreter model IS C13's `PD.setOp` with the interpreter's own merge as `mergeC`
    (same new document; `noData` / `badStrategy` are C13's `.err`) -/
theorem setOp_eq_pd (data : Option Node) (path : String) (s : Option String) (d : AMap Node) :
    setOp data path s d =
      match PD.setOp mergeKvs d (data.map contOf) path s with
      | .ok d' => .ok d'
      | _ => .error (if data.isNone then .noData else .badStrategy) := by
  cases data with
  | none => simp [setOp, PD.setOp]
  | some dn =>
    simp only [setOp, PD.setOp, Option.map_some, Option.isNone_some]
    by_cases hm : s.getD "merge" = "merge"
    · simp only [hm, if_true, PD.setMerge]
      by_cases hp : path = ""
      · simp only [hp, ne_eq, not_true_eq_false, if_false, setMergeRoot_eq_foldl]
        rfl
      · simp only [ne_eq, hp, not_false_eq_true, if_true]
        split <;> simp_all
    · simp only [hm, if_false]
      by_cases hr : s.getD "merge" = "replace"
      · simp only [hr, if_true, PD.setReplace]
        by_cases hp : path = ""
        · simp only [hp, ne_eq, not_true_eq_false, if_false, setReplaceRoot_eq_foldl]
        · simp only [ne_eq, hp, not_false_eq_true, if_true]
      · simp only [hr, if_false]
        rfl

/-- TemplateOp.Do of the interpreter model IS C13's `PD.templateOp` with the interpreter's renderer
    (`render · d`, `renderLenient · d`, `trim`) — outside `parseAs: yaml`, which the interpreter model does
    not own (it reports `unsupported` and the harness does not generate it for C12 / C14) -/
theorem templateOp_eq_pd (yp : String → Option (Option PD.YNode)) (t p : String) (tr : Bool) (pa : Option String)
    (d : AMap Node) (hy : pa ≠ some "yaml") :
    (templateOp t p tr pa d).1 =
      (PD.templateOp (fun x => render x d) (fun x => renderLenient x d) trim yp ⟨t, p, pa, tr⟩ d).1 ∧
    (templateOp t p tr pa d).2.isSome =
      (PD.templateOp (fun x => render x d) (fun x => renderLenient x d) trim yp ⟨t, p, pa, tr⟩ d).2 := by
  have hy' : pa.getD "none" ≠ "yaml" := by
    cases pa with
    | none => decide
    | some m => simpa using hy
  simp only [templateOp, PD.templateOp]
  by_cases h1 : t = ""
  · simp [h1]
  · by_cases h2 : p = ""
    · simp [h1, h2]
    · simp only [h1, h2, if_false, hy']
      by_cases h3 : pa.getD "none" = "none"
      · simp only [h3, if_true]
        cases render t d <;> simp
      · simp [h3]

end Ytk.Pipeline
