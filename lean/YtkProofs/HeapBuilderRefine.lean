/-
  YtkProofs.HeapBuilderRefine — the refinement theorems of YtkProofs/HeapBuilderAbs.lean (stated with
  an existential fuel) combined with the invariants of YtkProofs/HeapBuilder.lean: on a well-formed
  heap the result heap is well-formed again, so `abs` (fuel = heap size) is defined and is the
  value-level edit.
-/
import YtkProofs.HeapBuilder
import YtkProofs.HeapBuilderAbs

namespace Ytk.Heap
open Heap

/-- on a closed acyclic heap a defined abstraction at any fuel is `abs` -/
theorem abs_eq_of_absH {h : Heap} (hc : h.Closed) (ha : h.Acyclic) {c : Addr} {n : Node} {f : Nat}
    (hx : absH f h c = some n) : abs h c = some n := by
  obtain ⟨f', cell, _, hg, _⟩ := absH_inv hx
  obtain ⟨m, hm⟩ := abs_defined hc ha (get?_lt hg)
  have h1 := absH_fuel_le (Nat.le_max_left f h.size) hx
  have h2 := absH_fuel_le (Nat.le_max_right f h.size) (show absH h.size h c = some m from hm)
  rw [h1] at h2
  rw [hm, ← Option.some.inj h2]

theorem abs_absH {h : Heap} {c : Addr} {n : Node} (hx : abs h c = some n) : absH h.size h c = some n := hx

theorem apart_ok {h : Heap} {c v : Addr} (hap : Apart h c v) :
    ∀ w, Reach h c w → Composite h w → ¬ Reach h v w := fun w hcw hcomp hvw => hap w hcw hvw hcomp

theorem SibSep.of_le {h h1 : Heap} {c : Addr} (hs : SibSep h c) (hl : h ≤ h1) (hc : h.Closed) (hclt : c < h.size) :
    SibSep h1 c := by
  intro a cell hca hg i j ki kj hi hj hij b hb1 hb2 hcomp
  have hca' := reach_of_le hl hc hca hclt
  have halt := reach_lt hc hca' hclt
  rw [get?_eq_of_le hl halt] at hg
  have hki : ki < h.size := hc a cell hg ki (List.mem_of_getElem? hi)
  have hkj : kj < h.size := hc a cell hg kj (List.mem_of_getElem? hj)
  have hb1' := reach_of_le hl hc hb1 hki
  have hblt := reach_lt hc hb1' hki
  refine hs a cell hca' hg i j ki kj hi hj hij b hb1' (reach_of_le hl hc hb2 hkj) ?_
  obtain ⟨cb, hgb, hl'⟩ := hcomp
  rw [get?_eq_of_le hl hblt] at hgb
  exact ⟨cb, hgb, hl'⟩

section
variable {h h' : Heap} {c v : Addr} {d : AMap Node} {vn : Node}

/-- REFINEMENT, `AddValueAt` -/
theorem addValueAtH_refines (hi : Inv h) (hs : SibSep h c) (hap : Apart h c v) (hcl : c < h.size) (hvl : v < h.size)
    (hd : abs h c = some (.cont d)) (hv : abs h v = some vn) {path : String}
    (he : addValueAtH h c path v = some h') :
    Inv h' ∧ abs h' c = some (.cont (addValueAt d path vn)) := by
  obtain ⟨rank, hr⟩ := hi.acyclic
  have hi' : Inv h' := hstep_inv (op := .addValueAt c path v) (ret := none) hi
    ⟨hcl, fun v' hv' => by cases hv'; exact ⟨hvl, apart_ok hap⟩⟩ (by simp [hstep, he, outcomeOfOption])
  obtain ⟨f', hf'⟩ := Refine.addValueAtH_abs hi.closed hr hi.nilOk hi.mapsOk hs hap (abs_absH hd) (abs_absH hv) he
  exact ⟨hi', abs_eq_of_absH hi'.closed hi'.acyclic hf'⟩

/-- the same on a component list -/
theorem addAtSegsH_refines (hi : Inv h) (hs : SibSep h c) (hap : Apart h c v) (hcl : c < h.size) (hvl : v < h.size)
    (hd : abs h c = some (.cont d)) (hv : abs h v = some vn) {segs : List String} (hne : segs ≠ [])
    (he : addAtSegsH h c segs v = some h') :
    Inv h' ∧ abs h' c = some (.cont (addAtSegs d segs vn)) := by
  obtain ⟨rank, hr⟩ := hi.acyclic
  obtain ⟨w, spec⟩ := addAtSegsH_spec hi.closed hr hi.nilOk hi.mapsOk hvl segs c h' hne hcl he
  have hi' : Inv h' := spec.inv hi hvl (apart_ok hap w spec.reach_w spec.composite_w)
  obtain ⟨f', hf'⟩ := Refine.addAtSegsH_abs hi.closed hr hi.nilOk hi.mapsOk hs hap (abs_absH hd) (abs_absH hv) he
  exact ⟨hi', abs_eq_of_absH hi'.closed hi'.acyclic hf'⟩

/-- REFINEMENT, `AddValue` (names with index groups included) -/
theorem addH_refines (hi : Inv h) (hs : SibSep h c) (hap : Apart h c v) (hcl : c < h.size) (hvl : v < h.size)
    (hd : abs h c = some (.cont d)) (hv : abs h v = some vn) {name : String}
    (he : addH h c name v = some h') :
    Inv h' ∧ abs h' c = some (.cont (Ytk.add d name vn)) := by
  obtain ⟨rank, hr⟩ := hi.acyclic
  have hi' : Inv h' := hstep_inv (op := .addValue c name v) (ret := none) hi
    ⟨hcl, fun v' hv' => by cases hv'; exact ⟨hvl, apart_ok hap⟩⟩ (by simp [hstep, he, outcomeOfOption])
  obtain ⟨f', hf'⟩ := Refine.addH_abs hi.closed hr hi.nilOk hi.mapsOk hs hap (abs_absH hd) (abs_absH hv) he
  exact ⟨hi', abs_eq_of_absH hi'.closed hi'.acyclic hf'⟩

/-- REFINEMENT, `RemoveAt` -/
theorem removeAtH_refines (hi : Inv h) (hs : SibSep h c) (hcl : c < h.size)
    (hd : abs h c = some (.cont d)) {path : String} (he : removeAtH h c path = some h') :
    Inv h' ∧ abs h' c = some (.cont (removeAt d path)) := by
  obtain ⟨rank, hr⟩ := hi.acyclic
  have hi' : Inv h' := hstep_inv (op := .removeAt c path) (ret := none) hi
    ⟨hcl, fun v' hv' => by cases hv'⟩ (by simp [hstep, he, outcomeOfOption])
  obtain ⟨f', hf'⟩ := Refine.removeAtH_abs hi.closed hr hi.mapsOk hs (abs_absH hd) he
  exact ⟨hi', abs_eq_of_absH hi'.closed hi'.acyclic hf'⟩

/-- REFINEMENT, `Remove` -/
theorem remove_refines (hi : Inv h) (hcl : c < h.size)
    (hd : abs h c = some (.cont d)) {name : String} (he : Ytk.Heap.remove h c name = some h') :
    Inv h' ∧ abs h' c = some (.cont (Ytk.remove d name)) := by
  obtain ⟨rank, hr⟩ := hi.acyclic
  have hi' : Inv h' := hstep_inv (op := .remove c name) (ret := none) hi
    ⟨hcl, fun v' hv' => by cases hv'⟩ (by simp [hstep, he, outcomeOfOption])
  have hf' := Refine.remove_abs hi.closed hr (abs_absH hd) he
  exact ⟨hi', abs_eq_of_absH hi'.closed hi'.acyclic hf'⟩

/-- REFINEMENT, `AddContainer` / `AddList`: the value-level edit is `add d name (.cont [])` resp.
    `add d name (.list [])` -/
theorem addNew_refines {c0 : Cell} {n0 : Node} (hk : c0.kids = []) (hs0 : ∀ kvs, c0 = .cont kvs → AMap.Sorted kvs)
    (hn0 : ∀ f, absH (f + 1) (h.alloc c0).1 h.size = some n0)
    (hi : Inv h) (hs : SibSep h c) (hcl : c < h.size) (hd : abs h c = some (.cont d)) {name : String}
    (he : addH (h.alloc c0).1 c name h.size = some h') :
    Inv h' ∧ abs h' c = some (.cont (Ytk.add d name n0)) := by
  obtain ⟨rank, hr⟩ := hi.acyclic
  have hl := le_alloc h c0
  have hi1 : Inv (h.alloc c0).1 :=
    ⟨closed_alloc hi.closed (by rw [hk]; intro k hkm; cases hkm), ⟨rank, rankedBy_alloc_empty hr hk⟩,
      mapsOk_alloc hi.mapsOk hs0, nilOk_mono hi.nilOk hl⟩
  have hcl1 : c < (h.alloc c0).1.size := Nat.lt_of_lt_of_le hcl (size_le_of_le hl)
  have hap : Apart (h.alloc c0).1 c h.size := by
    intro b hcb hbb _
    have hb : b = h.size := reach_of_no_kids (get?_alloc_new h c0) hk hbb
    have : b < h.size := reach_lt hi.closed (reach_of_le hl hi.closed hcb hcl) hcl
    exact Nat.lt_irrefl _ (hb ▸ this)
  have hd1 : absH ((h.alloc c0).1.size) (h.alloc c0).1 c = some (.cont d) :=
    absH_fuel_le (size_le_of_le hl) (absH_mono hl _ _ _ (abs_absH hd))
  have hv1 : absH ((h.alloc c0).1.size) (h.alloc c0).1 h.size = some n0 := by
    rw [size_alloc]; exact hn0 _
  exact addH_refines hi1 (hs.of_le hl hi.closed hcl) hap hcl1 (by rw [size_alloc]; exact Nat.lt_succ_self _)
    hd1 hv1 he

theorem addContainerH_refines (hi : Inv h) (hs : SibSep h c) (hcl : c < h.size) (hd : abs h c = some (.cont d))
    {name : String} {b : Addr} (he : addContainerH h c name = some (h', b)) :
    Inv h' ∧ abs h' c = some (.cont (Ytk.add d name (.cont []))) := by
  have he' : addH (h.alloc (.cont [])).1 c name h.size = some h' := by
    unfold addContainerH at he
    simp only at he
    split at he
    · rename_i h2' he'
      simp only [Option.some.injEq, Prod.mk.injEq] at he
      rw [← he.1]; exact he'
    · cases he
  exact addNew_refines rfl (fun kvs hk => by cases hk; exact .nil)
    (fun f => by rw [absH, get?_alloc_new]; rfl) hi hs hcl hd he'

theorem addListH_refines (hi : Inv h) (hs : SibSep h c) (hcl : c < h.size) (hd : abs h c = some (.cont d))
    {name : String} {b : Addr} (he : addListH h c name = some (h', b)) :
    Inv h' ∧ abs h' c = some (.cont (Ytk.add d name (.list []))) := by
  have he' : addH (h.alloc (.list [])).1 c name h.size = some h' := by
    unfold addListH at he
    simp only at he
    split at he
    · rename_i h2' he'
      simp only [Option.some.injEq, Prod.mk.injEq] at he
      rw [← he.1]; exact he'
    · cases he
  exact addNew_refines rfl (fun kvs hk => by cases hk)
    (fun f => by rw [absH, get?_alloc_new]; rfl) hi hs hcl hd he'

/-- REFINEMENT, `Walk(CompactFn)` -/
theorem compactH_refines (hi : Inv h) (hs : SibSep h c) (hd : abs h c = some (.cont d))
    (he : compactH h c = some h') : Inv h' ∧ abs h' c = some (.cont (compactKvs d)) := by
  obtain ⟨rank, hr⟩ := hi.acyclic
  have hi' : Inv h' := (compactF_spec _ _ c _ he).inv hi
  obtain ⟨f', hf'⟩ := Refine.compactH_abs hi.closed hr hi.mapsOk hs (abs_absH hd) he
  exact ⟨hi', abs_eq_of_absH hi'.closed hi'.acyclic hf'⟩

/-- REFINEMENT, `ListBuilder.Set` / `Append` / `Clear` / `MustSet` on the list cell `l` -/
theorem listSet_refines {l : Addr} {ns : List Node} {i : Nat} (hi : Inv h) (hvl : ¬ Reach h v l) (hll : l < h.size)
    (hvlt : v < h.size) (hd : abs h l = some (.list ns)) (hv : abs h v = some vn)
    (he : Ytk.Heap.listSet h l i v = some h') :
    Inv h' ∧ abs h' l = some (.list (Ytk.listSet ns i vn)) := by
  obtain ⟨rank, hr⟩ := hi.acyclic
  have spec := listSet_spec he
  have hi' : Inv h' := spec.inv hi hvlt hvl
  obtain ⟨f', hf'⟩ := Refine.listSet_abs hi.closed hr hi.nilOk hvl (abs_absH hd) (abs_absH hv) he
  exact ⟨hi', abs_eq_of_absH hi'.closed hi'.acyclic hf'⟩

theorem listAppend_refines {l : Addr} {ns : List Node} (hi : Inv h) (hvl : ¬ Reach h v l) (hll : l < h.size)
    (hvlt : v < h.size) (hd : abs h l = some (.list ns)) (hv : abs h v = some vn)
    (he : Ytk.Heap.listAppend h l v = some h') :
    Inv h' ∧ abs h' l = some (.list (Ytk.listAppend ns vn)) := by
  obtain ⟨rank, hr⟩ := hi.acyclic
  have spec := listAppend_spec he
  have hi' : Inv h' := spec.inv hi hvlt hvl
  obtain ⟨f', hf'⟩ := Refine.listAppend_abs hi.closed hr hvl (abs_absH hd) (abs_absH hv) he
  exact ⟨hi', abs_eq_of_absH hi'.closed hi'.acyclic hf'⟩

theorem listClear_refines {l : Addr} {ns : List Node} (hi : Inv h) (hd : abs h l = some (.list ns))
    (he : listClear h l = some h') : Inv h' ∧ abs h' l = some (.list []) := by
  have hi' : Inv h' := (listClear_spec he).inv hi
  exact ⟨hi', abs_eq_of_absH hi'.closed hi'.acyclic (Refine.listClear_abs (abs_absH hd) he)⟩

end

end Ytk.Heap
