/-
  YtkProofs.GapAnalytics — the character-level matchers of the analytics model
  (`isPrefixOf`, `containsSub`, `isSuffixOf`, `dropToSub`) characterised by core's list relations
  `<+:` (prefix), `<:+:` (infix), `<:+` (suffix).
-/
import YtkProofs.Analytics

namespace Ytk.Analytics

theorem isPrefixOf_iff : ∀ (a b : List Char), isPrefixOf a b = true ↔ a <+: b
  | [], b => by simp [isPrefixOf]
  | _ :: _, [] => by simp [isPrefixOf]
  | x :: a, y :: b => by
    simp only [isPrefixOf, Bool.and_eq_true, beq_iff_eq, isPrefixOf_iff a b, List.cons_prefix_cons]

theorem containsSub_iff (sub : List Char) : ∀ (s : List Char), containsSub s sub = true ↔ sub <:+: s
  | [] => by simp [containsSub, List.infix_nil]
  | c :: r => by
    simp only [containsSub, Bool.or_eq_true, isPrefixOf_iff, containsSub_iff sub r, List.infix_cons_iff]

theorem isSuffixOf_iff (suf s : List Char) : isSuffixOf suf s = true ↔ suf <:+ s := by
  simp only [isSuffixOf, isPrefixOf_iff, List.reverse_prefix]

theorem singleton_infix_iff (c : Char) (l : List Char) : [c] <:+: l ↔ c ∈ l := by
  constructor
  · intro h; exact h.subset (List.mem_singleton_self c)
  · intro h
    obtain ⟨s, t, rfl⟩ := List.mem_iff_append.mp h
    exact ⟨s, t, by simp⟩

/-- `dropToSub` finds the FIRST occurrence; for a character `c` outside `sub`, "c occurs in the
    text from the first occurrence of `sub` on" is "c occurs behind SOME occurrence of `sub`" -/
theorem dropToSub_spec (sub : List Char) (c : Char) (hc : c ∉ sub) (hne : sub ≠ []) :
    ∀ s : List Char, (∃ rest, dropToSub sub s = some rest ∧ c ∈ rest) ↔ ∃ a b, s = a ++ sub ++ b ∧ c ∈ b
  | [] => by
    have : sub.isEmpty = false := by cases sub <;> simp_all
    simp only [dropToSub, this, Bool.false_eq_true, if_false, reduceCtorEq, false_and, exists_false, false_iff]
    rintro ⟨a, b, h, _⟩
    have := congrArg List.length h
    simp only [List.length_nil, List.length_append] at this
    exact hne (List.eq_nil_of_length_eq_zero (by omega))
  | x :: r => by
    simp only [dropToSub]
    by_cases hp : isPrefixOf sub (x :: r) = true
    · rw [if_pos hp]
      obtain ⟨b0, hb0⟩ := (isPrefixOf_iff _ _).mp hp
      constructor
      · rintro ⟨rest, hr, hm⟩
        cases hr
        refine ⟨[], b0, by simpa using hb0.symm, ?_⟩
        rw [← hb0] at hm
        rcases List.mem_append.mp hm with h | h
        · exact absurd h hc
        · exact h
      · rintro ⟨a, b, h, hm⟩
        exact ⟨_, rfl, by rw [h]; exact List.mem_append_right _ hm⟩
    · rw [if_neg hp, dropToSub_spec sub c hc hne r]
      constructor
      · rintro ⟨a, b, h, hm⟩
        exact ⟨x :: a, b, by rw [h]; simp, hm⟩
      · rintro ⟨a, b, h, hm⟩
        cases a with
        | nil =>
          exfalso; apply hp
          rw [isPrefixOf_iff]
          exact ⟨b, by simpa using h.symm⟩
        | cons y a =>
          simp only [List.cons_append, List.cons.injEq] at h
          exact ⟨a, b, by simpa using h.2, hm⟩

theorem possiblyContainsPlaceholder_iff (s : String) :
    possiblyContainsPlaceholder s = true ↔ ∃ a b, s.toList = a ++ "${".toList ++ b ∧ '}' ∈ b := by
  rw [← dropToSub_spec "${".toList '}' (by decide) (by decide) s.toList]
  unfold possiblyContainsPlaceholder
  cases h : dropToSub "${".toList s.toList with
  | none => simp
  | some rest =>
    simp only [Option.some.injEq, exists_eq_left']
    rw [show "}".toList = ['}'] from rfl, containsSub_iff, singleton_infix_iff]

end Ytk.Analytics
