/-
  YtkProofs.GapAnalyticsNofix — the loop lemma of the PRE-FIX shape of the placeholder report (D32): under the
  hypothesis that no key equals the text of a placeholder-bearing value the value-based membership test never
  fires (this was `phLoop_failedKeys` before the repair).
-/
import YtkProofs.Analytics
import YtkModel.GapAnalyticsNofix

namespace Ytk.Analytics

theorem phLoopNofix_failedKeys (hasPh : String → Bool) (filter : String → Bool) (resolve : String → String)
    (doc : Doc) (allKeys : List String)
    (hk : ∀ k ∈ allKeys, ∀ v : Scalar, hasPh v.text = true → k ≠ v.text) :
    ∀ (rest : Flat) (acc : PhReport), (∀ kv ∈ rest, kv.1 ∈ allKeys) → (∀ k ∈ acc.failedKeys, k ∈ allKeys) →
      (phLoopNofix hasPh filter resolve doc rest acc).failedKeys =
        acc.failedKeys ++ (rest.filter fun kv => filter kv.1 && hasPh kv.2.text && (kv.2.text == resolve kv.2.text)).map (·.1) := by
  intro rest
  induction rest with
  | nil => intro acc _ _; simp [phLoopNofix]
  | cons kv r ih =>
    intro acc hr ha
    obtain ⟨k, v⟩ := kv
    simp only [phLoopNofix]
    have hkm : k ∈ allKeys := hr (k, v) (List.mem_cons_self ..)
    have hr' : ∀ kv ∈ r, kv.1 ∈ allKeys := fun kv h => hr kv (List.mem_cons_of_mem _ h)
    by_cases hcond : (filter k && hasPh v.text && (v.text == resolve v.text)) = true
    · have hph : hasPh v.text = true := by
        simp only [Bool.and_eq_true] at hcond; exact hcond.1.2
      have hnc : acc.failedKeys.contains v.text = false := by
        cases hc : acc.failedKeys.contains v.text with
        | false => rfl
        | true =>
          have hm := List.contains_iff_mem.mp hc
          exact absurd rfl (hk _ (ha _ hm) v hph)
      rw [if_pos (by rw [hcond, hnc]; rfl)]
      rw [ih _ hr' (by
        intro k' hk'
        simp only [List.mem_append, List.mem_singleton] at hk'
        rcases hk' with h | rfl
        · exact ha _ h
        · exact hkm)]
      simp only [List.filter_cons, hcond, if_true, List.map_cons, List.append_assoc, List.singleton_append]
    · rw [if_neg (by
        intro h
        apply hcond
        simp only [Bool.and_eq_true] at h ⊢
        exact h.1)]
      rw [ih _ hr' ha]
      simp only [List.filter_cons, hcond, Bool.false_eq_true, if_false]

end Ytk.Analytics
