/- Non-string-keyed maps (D3): no panic (totality), a valid DOM, and no lost scalar when the
   stringified keys of every map are distinct. -/
import YtkProofs.Codec

namespace Ytk

namespace AMap
variable {α : Type}

theorem insert_perm_of_not_mem {m : AMap α} {k : String} (a : α) (h : get? m k = none) :
    (insert m k a).Perm ((k, a) :: m) := by
  induction m with
  | nil => exact List.Perm.refl _
  | cons q m ih =>
    obtain ⟨k', v'⟩ := q
    simp only [get?] at h
    split at h
    · cases h
    · rename_i hne
      simp only [insert]
      split
      · exact List.Perm.refl _
      · exact ((ih h).cons (k', v')).trans (List.Perm.swap _ _ _)

theorem get?_ofList_aux (l : List (String × α)) (m : AMap α) (k : String)
    (h1 : get? m k = none) (h2 : ∀ p ∈ l, p.1 ≠ k) :
    get? (l.foldl (fun m p => insert m p.1 p.2) m) k = none := by
  induction l generalizing m with
  | nil => simpa using h1
  | cons p l ih =>
    simp only [List.foldl_cons]
    apply ih
    · rw [get?_insert_ne _ _ (fun e => h2 p (List.mem_cons_self ..) e.symm)]; exact h1
    · intro q hq; exact h2 q (List.mem_cons_of_mem _ hq)

/-- distinct keys: the normalised map is a permutation of the entry list -/
theorem foldl_insert_perm : ∀ (l : List (String × α)) (m : AMap α),
    (l.map (·.1)).Nodup → (∀ p ∈ l, get? m p.1 = none) →
    (l.foldl (fun m p => insert m p.1 p.2) m).Perm (l.reverse ++ m)
  | [], m, _, _ => by simp
  | p :: l, m, hn, hm => by
    simp only [List.foldl_cons, List.reverse_cons, List.append_assoc, List.singleton_append]
    simp only [List.map_cons, List.nodup_cons] at hn
    have hp := insert_perm_of_not_mem p.2 (hm p (List.mem_cons_self ..))
    have ih := foldl_insert_perm l (insert m p.1 p.2) hn.2 (by
      intro q hq
      have hne : q.1 ≠ p.1 := by
        intro e
        apply hn.1
        rw [← e]
        exact List.mem_map_of_mem hq
      rw [get?_insert_ne _ _ hne]
      exact hm q (List.mem_cons_of_mem _ hq))
    exact ih.trans (List.Perm.append_left _ hp)

theorem ofList_perm (l : List (String × α)) (hn : (l.map (·.1)).Nodup) : (ofList l).Perm l := by
  have := foldl_insert_perm l [] hn (by intro p _; rfl)
  simp only [List.append_nil] at this
  exact this.trans (List.reverse_perm l)

end AMap

theorem Val.scalarCountKvs_perm {a b : List (String × Val)} (h : a.Perm b) :
    Val.scalarCountKvs a = Val.scalarCountKvs b := by
  induction h with
  | nil => rfl
  | cons x _ ih => obtain ⟨k, v⟩ := x; simp [Val.scalarCountKvs, ih]
  | swap x y l =>
    obtain ⟨k, v⟩ := x; obtain ⟨k', v'⟩ := y
    simp only [Val.scalarCountKvs]; omega
  | trans _ _ ih1 ih2 => rw [ih1, ih2]

theorem Val.noIdxKeysKvs_iff (l : List (String × Val)) :
    Val.noIdxKeysKvs l = true ↔ ∀ p ∈ l, hasIdxSuffix p.1 = false ∧ Val.noIdxKeys p.2 = true := by
  induction l with
  | nil => simp [Val.noIdxKeysKvs]
  | cons p l ih =>
    obtain ⟨k, v⟩ := p
    simp only [Val.noIdxKeysKvs, Bool.and_eq_true, Bool.not_eq_true', ih, List.mem_cons, forall_eq_or_imp, and_assoc]

theorem Val.wf_obj_iff (l : List (String × Val)) : (Val.obj l).WF ↔ AMap.Sorted l ∧ ∀ p ∈ l, p.2.WF :=
  ⟨fun h => ⟨h.sorted, fun p hp => h.of_obj_mem hp⟩, fun h => .obj h.1 h.2⟩

/-- the keys seen so far and the keys still to come are all distinct -/
theorem keysOkKvs_spec : ∀ (kvs : List (Scalar × IVal)) (seen : List String), IVal.keysOkKvs kvs seen = true →
    ((IVal.toValKvs kvs).map (·.1)).Nodup ∧ (∀ k ∈ (IVal.toValKvs kvs).map (·.1), k ∉ seen ∧ hasIdxSuffix k = false) ∧
      (∀ p ∈ kvs, IVal.keysOk p.2 = true)
  | [], _, _ => by simp [IVal.toValKvs]
  | (k, x) :: rest, seen, h => by
    simp only [IVal.keysOkKvs, Bool.and_eq_true, Bool.not_eq_true'] at h
    obtain ⟨⟨⟨h1, h2⟩, h3⟩, h4⟩ := h
    obtain ⟨i1, i2, i3⟩ := keysOkKvs_spec rest (k.text :: seen) h4
    refine ⟨?_, ?_, ?_⟩
    · simp only [IVal.toValKvs, List.map_cons, List.nodup_cons]
      refine ⟨?_, i1⟩
      intro hm
      exact (i2 _ hm).1 (List.mem_cons_self ..)
    · intro k' hk'
      simp only [IVal.toValKvs, List.map_cons, List.mem_cons] at hk'
      rcases hk' with rfl | hk'
      · exact ⟨by simpa using h1, h2⟩
      · exact ⟨fun hs => (i2 _ hk').1 (List.mem_cons_of_mem _ hs), (i2 _ hk').2⟩
    · intro p hp
      simp only [List.mem_cons] at hp
      rcases hp with rfl | hp
      · exact h3
      · exact i3 p hp

mutual
theorem toVal_good : ∀ (v : IVal), IVal.keysOk v = true →
    (IVal.toVal v).WF ∧ Val.noIdxKeys (IVal.toVal v) = true ∧ Val.scalarCount (IVal.toVal v) = IVal.scalarCount v
  | .sc s, _ => ⟨.sc s, rfl, rfl⟩
  | .arr xs, h => by
    have := toValList_good xs (by simpa [IVal.keysOk] using h)
    exact ⟨.arr this.1, by simpa [IVal.toVal, Val.noIdxKeys] using this.2.1, by
      simpa [IVal.toVal, Val.scalarCount, IVal.scalarCount] using this.2.2⟩
  | .obj kvs, h => by
    simp only [IVal.keysOk] at h
    obtain ⟨hn, hk, hv⟩ := keysOkKvs_spec kvs [] h
    have hperm := AMap.ofList_perm (IVal.toValKvs kvs) hn
    have hall := toValKvs_good kvs hv
    refine ⟨?_, ?_, ?_⟩
    · simp only [IVal.toVal]
      rw [Val.wf_obj_iff]
      exact ⟨AMap.sorted_ofList _, fun p hp => hall.1 p (hperm.mem_iff.mp hp)⟩
    · simp only [IVal.toVal, Val.noIdxKeys]
      rw [Val.noIdxKeysKvs_iff]
      intro p hp
      have hp' := hperm.mem_iff.mp hp
      exact ⟨(hk p.1 (List.mem_map_of_mem hp')).2, hall.2.1 p hp'⟩
    · simp only [IVal.toVal, Val.scalarCount, IVal.scalarCount]
      rw [Val.scalarCountKvs_perm hperm]
      exact hall.2.2
theorem toValList_good : ∀ (xs : List IVal), IVal.keysOkList xs = true →
    (∀ x ∈ IVal.toValList xs, x.WF) ∧ Val.noIdxKeysList (IVal.toValList xs) = true ∧
      Val.scalarCountList (IVal.toValList xs) = IVal.scalarCountList xs
  | [], _ => ⟨(by intro x hx; cases hx), rfl, rfl⟩
  | x :: xs, h => by
    simp only [IVal.keysOkList, Bool.and_eq_true] at h
    have h1 := toVal_good x h.1
    have h2 := toValList_good xs h.2
    refine ⟨?_, ?_, ?_⟩
    · intro y hy
      simp only [IVal.toValList, List.mem_cons] at hy
      rcases hy with rfl | hy
      · exact h1.1
      · exact h2.1 y hy
    · simp [IVal.toValList, Val.noIdxKeysList, h1.2.1, h2.2.1]
    · simp [IVal.toValList, Val.scalarCountList, IVal.scalarCountList, h1.2.2, h2.2.2]
theorem toValKvs_good : ∀ (kvs : List (Scalar × IVal)), (∀ p ∈ kvs, IVal.keysOk p.2 = true) →
    (∀ p ∈ IVal.toValKvs kvs, p.2.WF) ∧ (∀ p ∈ IVal.toValKvs kvs, Val.noIdxKeys p.2 = true) ∧
      Val.scalarCountKvs (IVal.toValKvs kvs) = IVal.scalarCountKvs kvs
  | [], _ => ⟨(by intro p hp; cases hp), (by intro p hp; cases hp), rfl⟩
  | (k, x) :: rest, h => by
    have h1 := toVal_good x (h (k, x) (List.mem_cons_self ..))
    have h2 := toValKvs_good rest (fun p hp => h p (List.mem_cons_of_mem _ hp))
    refine ⟨?_, ?_, ?_⟩
    · intro p hp
      simp only [IVal.toValKvs, List.mem_cons] at hp
      rcases hp with rfl | hp
      · exact h1.1
      · exact h2.1 p hp
    · intro p hp
      simp only [IVal.toValKvs, List.mem_cons] at hp
      rcases hp with rfl | hp
      · exact h1.2.1
      · exact h2.2.1 p hp
    · simp [IVal.toValKvs, Val.scalarCountKvs, IVal.scalarCountKvs, h1.2.2, h2.2.2]
end

end Ytk
