/-
  YtkProofs.GapProps — helper lemmas for the round-7 C16 additions:
  `AMap.ofList` does not depend on the order of a list with pairwise distinct keys.
-/
import YtkProofs.Props

namespace Ytk.Props

/-- two entries of a list with pairwise distinct keys that share the key share the value -/
theorem val_eq_of_nodup_keys {α : Type} {k : String} {v v' : α} :
    ∀ {L : List (String × α)}, (L.map (·.1)).Nodup → (k, v) ∈ L → (k, v') ∈ L → v = v'
  | [], _, h, _ => by cases h
  | p :: L, hn, h, h' => by
    simp only [List.map_cons, List.nodup_cons, List.mem_map, not_exists, not_and] at hn
    simp only [List.mem_cons] at h h'
    rcases h with h | h <;> rcases h' with h' | h'
    · rw [← h'] at h; cases h; rfl
    · subst h; exact absurd rfl (hn.1 (k, v') h')
    · subst h'; exact absurd rfl (hn.1 (k, v) h)
    · exact val_eq_of_nodup_keys hn.2 h h'

/-- with pairwise distinct keys the normalised map holds exactly the listed pairs -/
theorem get?_ofList_iff {α : Type} {L : List (String × α)} (hn : (L.map (·.1)).Nodup) (k : String) (v : α) :
    AMap.get? (AMap.ofList L) k = some v ↔ (k, v) ∈ L := by
  unfold AMap.ofList
  constructor
  · intro h
    rcases get?_foldl_insert_some k v L [] h with h | h
    · exact h
    · cases h
  · intro h
    have hs := get?_foldl_insert_isSome k L [] (Or.inl ⟨v, h⟩)
    cases hf : AMap.get? (L.foldl (fun m p => AMap.insert m p.1 p.2) []) k with
    | none => rw [hf] at hs; cases hs
    | some v' =>
      rcases get?_foldl_insert_some k v' L [] hf with h' | h'
      · rw [val_eq_of_nodup_keys hn h h']
      · cases h'

/-- `AMap.ofList` (Go's `Map()`: a later duplicate wins) does not depend on the order of the pairs
    when the keys are pairwise distinct -/
theorem ofList_perm {α : Type} {L₁ L₂ : List (String × α)} (hp : L₁.Perm L₂)
    (hn : (L₁.map (·.1)).Nodup) : AMap.ofList L₁ = AMap.ofList L₂ := by
  have hn2 : (L₂.map (·.1)).Nodup := (hp.map _).nodup_iff.mp hn
  apply AMap.ext_of_sorted (AMap.sorted_ofList _) (AMap.sorted_ofList _)
  intro k
  cases h1 : AMap.get? (AMap.ofList L₁) k with
  | some v =>
    exact ((get?_ofList_iff hn2 k v).mpr (hp.mem_iff.mp ((get?_ofList_iff hn k v).mp h1))).symm
  | none =>
    cases h2 : AMap.get? (AMap.ofList L₂) k with
    | none => rfl
    | some v =>
      rw [(get?_ofList_iff hn k v).mpr (hp.mem_iff.mpr ((get?_ofList_iff hn2 k v).mp h2))] at h1
      cases h1

/-- decoding depends on the loaded pairs only up to their order, when their keys are distinct -/
theorem fromReader_perm (load₁ load₂ : String → List (String × String)) (t₁ t₂ : String)
    (hp : (load₁ t₁).Perm (load₂ t₂)) (hn : ((load₁ t₁).map (·.1)).Nodup) :
    fromReader load₁ t₁ = fromReader load₂ t₂ := by
  have : AMap.ofList ((load₁ t₁).map fun p => (p.1, strVal p.2))
      = AMap.ofList ((load₂ t₂).map fun p => (p.1, strVal p.2)) := by
    apply ofList_perm (hp.map _)
    simpa [List.map_map, Function.comp_def] using hn
  simp only [fromReader, decoderFn, this]

end Ytk.Props
