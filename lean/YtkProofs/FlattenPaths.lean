/-
  Flattened paths resolve: for documents with path-safe keys every (path, leaf) of the
  flattened view is found by `lookup` under that path.

  Structure: (1) the flattened view in terms of structured leaf paths (`lpKvs`) and their
  rendering; (2) rendering followed by the code's parsing (`splitPath`, `parseSeg`) gives the
  structured path back; (3) walking a structured leaf path reaches the leaf.
-/
import YtkModel.Addr
import YtkProofs.PathStr
import YtkProofs.Lens

namespace Ytk

/-- a path component: key and index groups -/
abbrev Comp := String × List Nat

/-- one more component on a rendered path, as Flatten builds it (ToPath, then ToListPath per index) -/
def extend (p : String) (c : Comp) : String := c.2.foldl toListPath (toPath p c.1)

def renderFrom (p : String) (cs : List Comp) : String := cs.foldl extend p

mutual
/-- structured leaf paths below a node reached while component `cur` is being built -/
def lp : Node → Comp → List (List Comp × Scalar)
  | .leaf v, cur => [([cur], v)]
  | .list xs, cur => lpList xs cur 0
  | .cont kvs, cur => (lpKvs kvs).map (fun q => (cur :: q.1, q.2))
def lpList : List Node → Comp → Nat → List (List Comp × Scalar)
  | [], _, _ => []
  | x :: xs, cur, i => lp x (cur.1, cur.2 ++ [i]) ++ lpList xs cur (i + 1)
def lpKvs : List (String × Node) → List (List Comp × Scalar)
  | [] => []
  | (k, x) :: r => lp x (k, []) ++ lpKvs r
end

/-! ### (1) flatten = rendered structured leaf paths -/

theorem extend_snoc (p0 : String) (k : String) (is : List Nat) (i : Nat) :
    toListPath (extend p0 (k, is)) i = extend p0 (k, is ++ [i]) := by
  simp [extend, List.foldl_append]

mutual
theorem flattenNode_lp : ∀ (n : Node) (p0 : String) (cur : Comp),
    flattenNode n (extend p0 cur) = (lp n cur).map (fun q => (renderFrom p0 q.1, q.2))
  | .leaf v, p0, cur => by simp [flattenNode, lp, renderFrom]
  | .list xs, p0, cur => by
    simp only [flattenNode, lp]
    exact flattenList_lp xs p0 cur 0
  | .cont kvs, p0, cur => by
    simp only [flattenNode, lp, List.map_map]
    rw [flattenKvs_lp kvs (extend p0 cur)]
    apply List.map_congr_left
    intro q _
    simp [renderFrom]
theorem flattenList_lp : ∀ (xs : List Node) (p0 : String) (cur : Comp) (i : Nat),
    flattenList xs (extend p0 cur) i = (lpList xs cur i).map (fun q => (renderFrom p0 q.1, q.2))
  | [], _, _, _ => rfl
  | x :: xs, p0, cur, i => by
    obtain ⟨k, is⟩ := cur
    simp only [flattenList, lpList, List.map_append]
    rw [extend_snoc, flattenNode_lp x p0 (k, is ++ [i]), flattenList_lp xs p0 (k, is) (i + 1)]
theorem flattenKvs_lp : ∀ (kvs : List (String × Node)) (p : String),
    flattenKvs kvs p = (lpKvs kvs).map (fun q => (renderFrom p q.1, q.2))
  | [], _ => rfl
  | (k, x) :: r, p => by
    simp only [flattenKvs, lpKvs, List.map_append]
    have : toPath p k = extend p (k, []) := by simp [extend]
    rw [this, flattenNode_lp x p (k, []), flattenKvs_lp r p]
end

theorem flatten_lp (d : AMap Node) : flatten d = (lpKvs d).map (fun q => (renderFrom "" q.1, q.2)) :=
  flattenKvs_lp d ""

/-! ### (2) rendering then parsing -/

/-- path-safe key: non-empty, without '.', '[' and ']' -/
def SafeKey (k : String) : Prop := k.toList ≠ [] ∧ ∀ c ∈ k.toList, c ≠ '.' ∧ c ≠ '[' ∧ c ≠ ']'

def groups (is : List Nat) : List Char := is.flatMap idxGroup

theorem toListPath_toList (p : String) (i : Nat) : (toListPath p i).toList = p.toList ++ idxGroup i := by
  simp [toListPath, idxGroup, String.toList_append]

theorem foldl_toListPath_toList (p : String) (is : List Nat) :
    (is.foldl toListPath p).toList = p.toList ++ groups is := by
  induction is generalizing p with
  | nil => simp [groups]
  | cons i is ih => simp [ih, toListPath_toList, groups, List.append_assoc]

/-- characters of a rendered component -/
def compStr (c : Comp) : List Char := c.1.toList ++ groups c.2

theorem extend_toList_empty (c : Comp) : (extend "" c).toList = compStr c := by
  simp [extend, foldl_toListPath_toList, toPath, compStr]

theorem extend_toList_nonempty {p : String} (hp : p ≠ "") (c : Comp) :
    (extend p c).toList = p.toList ++ '.' :: compStr c := by
  simp [extend, foldl_toListPath_toList, toPath, hp, compStr, String.toList_append, List.append_assoc]

theorem idxGroup_noDot (i : Nat) : '.' ∉ idxGroup i := by
  intro h
  have h2 : '.' ∈ (toString i).toList := by
    simpa [idxGroup] using h
  exact absurd (digits_all i _ h2) (by decide)

theorem groups_noDot (is : List Nat) : '.' ∉ groups is := by
  intro h
  simp only [groups, List.mem_flatMap] at h
  obtain ⟨i, _, hi⟩ := h
  exact idxGroup_noDot i hi

theorem compStr_noDot {c : Comp} (h : SafeKey c.1) : '.' ∉ compStr c := by
  intro hm
  simp only [compStr, List.mem_append] at hm
  rcases hm with hm | hm
  · exact (h.2 _ hm).1 rfl
  · exact groups_noDot _ hm

theorem compStr_ne_nil {c : Comp} (h : SafeKey c.1) : compStr c ≠ [] := by
  intro e
  simp only [compStr, List.append_eq_nil_iff] at e
  exact h.1 e.1

/-- the characters of a rendered path: components joined by dots -/
def joinComps : List Comp → List Char
  | [] => []
  | [c] => compStr c
  | c :: cs => compStr c ++ '.' :: joinComps cs

theorem renderFrom_nonempty : ∀ (cs : List Comp) (p : String), p ≠ "" → (∀ c ∈ cs, SafeKey c.1) →
    (renderFrom p cs).toList = p.toList ++ cs.flatMap (fun c => '.' :: compStr c)
  | [], p, _, _ => by simp [renderFrom]
  | c :: cs, p, hp, hs => by
    have hne : extend p c ≠ "" := by
      intro e
      have := congrArg String.toList e
      rw [extend_toList_nonempty hp] at this
      simp at this
    have ih := renderFrom_nonempty cs (extend p c) hne (fun x hx => hs x (List.mem_cons_of_mem _ hx))
    simp only [renderFrom, List.foldl_cons] at ih ⊢
    rw [ih, extend_toList_nonempty hp]
    simp [List.append_assoc]

theorem renderFrom_empty : ∀ (c : Comp) (cs : List Comp), (∀ x ∈ c :: cs, SafeKey x.1) →
    (renderFrom "" (c :: cs)).toList = compStr c ++ cs.flatMap (fun c => '.' :: compStr c) := by
  intro c cs hs
  have hne : extend "" c ≠ "" := by
    intro e
    have := congrArg String.toList e
    rw [extend_toList_empty] at this
    exact compStr_ne_nil (hs c (List.mem_cons_self ..)) (by simpa using this)
  have := renderFrom_nonempty cs (extend "" c) hne (fun x hx => hs x (List.mem_cons_of_mem _ hx))
  simp only [renderFrom, List.foldl_cons] at this ⊢
  rw [this, extend_toList_empty]

theorem splitDot_joined : ∀ (c : Comp) (cs : List Comp), (∀ x ∈ c :: cs, SafeKey x.1) →
    splitDot (compStr c ++ cs.flatMap (fun c => '.' :: compStr c)) = (c :: cs).map compStr
  | c, [], hs => by
    simp only [List.flatMap_nil, List.append_nil, List.map_cons, List.map_nil]
    exact splitDot_noDot _ (compStr_noDot (hs c (List.mem_cons_self ..)))
  | c, d :: ds, hs => by
    simp only [List.flatMap_cons, List.cons_append, List.map_cons]
    rw [splitDot_append_dot _ _ (compStr_noDot (hs c (List.mem_cons_self ..)))]
    rw [splitDot_joined d ds (fun x hx => hs x (List.mem_cons_of_mem _ hx))]
    rfl

/-- splitting a rendered path gives back its components -/
theorem splitPath_renderFrom (c : Comp) (cs : List Comp) (hs : ∀ x ∈ c :: cs, SafeKey x.1) :
    splitPath (renderFrom "" (c :: cs)) = (c :: cs).map (fun x => String.ofList (compStr x)) := by
  simp only [splitPath, renderFrom_empty c cs hs, splitDot_joined c cs hs, List.map_map]
  rfl

theorem renderFrom_ne_empty (c : Comp) (cs : List Comp) (hs : ∀ x ∈ c :: cs, SafeKey x.1) :
    renderFrom "" (c :: cs) ≠ "" := by
  intro e
  have := congrArg String.toList e
  rw [renderFrom_empty c cs hs] at this
  have h1 := compStr_ne_nil (hs c (List.mem_cons_self ..))
  simp only [String.toList_empty, List.append_eq_nil_iff] at this
  exact h1 this.1

/-- parsing a rendered component gives back key and indices -/
theorem parseSegAux_comp (k : List Char) (hk : ∀ c, k.getLast? = some c → c ≠ ']') :
    ∀ (ris : List Nat) (fuel : Nat) (acc : List Nat), ris.length ≤ fuel →
      parseSegAux fuel (k ++ groups ris.reverse) acc = (k, ris.reverse ++ acc)
  | [], fuel, acc, _ => by
    simp only [List.reverse_nil, groups, List.flatMap_nil, List.append_nil, List.nil_append]
    exact parseSegAux_none (stripIdx_none_of_last hk)
  | i :: r, 0, acc, h => by simp at h
  | i :: r, fuel + 1, acc, h => by
    have hg : k ++ groups (i :: r).reverse = (k ++ groups r.reverse) ++ '[' :: (toString i).toList ++ [']'] := by
      simp [groups, List.flatMap_append, idxGroup, List.append_assoc]
    rw [hg]
    simp only [parseSegAux]
    rw [stripIdx_group _ _ (digits_ne_nil i) (digits_all i), digitsToNat_toString]
    simp only
    rw [parseSegAux_comp k hk r fuel (i :: acc) (by simp at h; omega)]
    simp

theorem groups_length (is : List Nat) : is.length ≤ (groups is).length := by
  induction is with
  | nil => simp [groups]
  | cons i is ih =>
    simp only [groups, List.flatMap_cons, List.length_append, List.length_cons] at ih ⊢
    have : 1 ≤ (idxGroup i).length := by simp [idxGroup]
    omega

theorem parseSeg_compStr {c : Comp} (h : SafeKey c.1) : parseSeg (String.ofList (compStr c)) = c := by
  obtain ⟨k, is⟩ := c
  have hk : ∀ x, k.toList.getLast? = some x → x ≠ ']' := by
    intro x hx
    exact (h.2 x (List.mem_of_getLast? hx)).2.2
  have hfuel : is.reverse.length ≤ (String.ofList (compStr (k, is))).length := by
    rw [← String.length_toList, String.toList_ofList]
    simp only [compStr, List.length_append, List.length_reverse]
    have := groups_length is
    omega
  have := parseSegAux_comp k.toList hk is.reverse _ [] hfuel
  simp only [List.reverse_reverse, List.append_nil] at this
  simp only [parseSeg, String.toList_ofList]
  simp only [compStr] at this ⊢
  rw [this]
  simp [String.ofList_toList]

/-! ### (3) structured walk -/

/-- walk a structured path from a container: keys by `get?`, indices through lists -/
def getC : AMap Node → List Comp → Option Node
  | _, [] => none
  | kvs, [c] => walkIdx (AMap.get? kvs c.1) c.2
  | kvs, c :: cs =>
    match walkIdx (AMap.get? kvs c.1) c.2 with
    | some (.cont sub) => getC sub cs
    | _ => none

theorem child_compStr (kvs : AMap Node) {c : Comp} (h : SafeKey c.1) :
    child kvs (String.ofList (compStr c)) = walkIdx (AMap.get? kvs c.1) c.2 := by
  unfold child
  rw [parseSeg_compStr h]
  obtain ⟨k, is⟩ := c
  cases is with
  | nil =>
    simp only [walkIdx]
    have : String.ofList (compStr (k, [])) = k := by simp [compStr, groups, String.ofList_toList]
    rw [this]
  | cons i is => rfl

theorem lookupSegs_comps : ∀ (cs : List Comp) (kvs : AMap Node), (∀ x ∈ cs, SafeKey x.1) →
    lookupSegs kvs (cs.map (fun x => String.ofList (compStr x))) = getC kvs cs
  | [], _, _ => rfl
  | [c], kvs, hs => by
    simp only [List.map_cons, List.map_nil, lookupSegs, getC]
    exact child_compStr kvs (hs c (List.mem_cons_self ..))
  | c :: d :: ds, kvs, hs => by
    simp only [List.map_cons, lookupSegs, getC]
    rw [child_compStr kvs (hs c (List.mem_cons_self ..))]
    cases walkIdx (AMap.get? kvs c.1) c.2 with
    | none => rfl
    | some n =>
      cases n with
      | leaf _ => rfl
      | list _ => rfl
      | cont sub =>
        simp only
        have := lookupSegs_comps (d :: ds) sub (fun x hx => hs x (List.mem_cons_of_mem _ hx))
        simpa using this

theorem walkIdx_snoc : ∀ (is : List Nat) (cur : Option Node) (i : Nat),
    walkIdx cur (is ++ [i]) = match walkIdx cur is with
      | some (.list xs) => xs[i]?
      | _ => none
  | [], cur, i => by
    cases cur with
    | none => rfl
    | some n => cases n <;> simp [walkIdx]
  | j :: js, cur, i => by
    cases cur with
    | none => simp [walkIdx, walkIdx_none]
    | some n =>
      cases n with
      | leaf _ => simp [walkIdx, walkIdx_none]
      | cont _ => simp [walkIdx, walkIdx_none]
      | list xs => simp only [List.cons_append, walkIdx]; exact walkIdx_snoc js _ i

/-- all keys of the tree are path-safe -/
inductive Node.SafeKeys : Node → Prop
  | leaf (v : Scalar) : Node.SafeKeys (.leaf v)
  | list {xs : List Node} : (∀ x ∈ xs, Node.SafeKeys x) → Node.SafeKeys (.list xs)
  | cont {kvs : List (String × Node)} : (∀ p ∈ kvs, SafeKey p.1) → (∀ p ∈ kvs, Node.SafeKeys p.2) →
      Node.SafeKeys (.cont kvs)

theorem Node.SafeKeys.of_list {xs : List Node} (h : (Node.list xs).SafeKeys) {x : Node} (hx : x ∈ xs) : x.SafeKeys := by
  cases h with | list h => exact h x hx
theorem Node.SafeKeys.key {kvs : List (String × Node)} (h : (Node.cont kvs).SafeKeys) {p : String × Node} (hp : p ∈ kvs) :
    SafeKey p.1 := by cases h with | cont h _ => exact h p hp
theorem Node.SafeKeys.val {kvs : List (String × Node)} (h : (Node.cont kvs).SafeKeys) {p : String × Node} (hp : p ∈ kvs) :
    p.2.SafeKeys := by cases h with | cont _ h => exact h p hp

/-- every list item anywhere in the tree holds at least one scalar -/
inductive Node.ItemsHaveScalars : Node → Prop
  | leaf (v : Scalar) : Node.ItemsHaveScalars (.leaf v)
  | list {xs : List Node} : (∀ x ∈ xs, 0 < Node.scalarCount x) → (∀ x ∈ xs, Node.ItemsHaveScalars x) →
      Node.ItemsHaveScalars (.list xs)
  | cont {kvs : List (String × Node)} : (∀ p ∈ kvs, Node.ItemsHaveScalars p.2) → Node.ItemsHaveScalars (.cont kvs)

mutual
/-- every structured leaf path below `n` has safe keys and walks to its leaf, given that the
    pending component `cur` walks to `n` in `root` -/
theorem lp_spec : ∀ (n : Node) (cur : Comp) (root : AMap Node), n.Valid → n.SafeKeys → SafeKey cur.1 →
    walkIdx (AMap.get? root cur.1) cur.2 = some n →
    ∀ q ∈ lp n cur, (∀ x ∈ q.1, SafeKey x.1) ∧ getC root q.1 = some (.leaf q.2)
  | .leaf v, cur, root, _, _, hk, hw => by
    intro q hq
    simp only [lp, List.mem_singleton] at hq
    subst hq
    refine ⟨?_, ?_⟩
    · intro x hx; simp only [List.mem_singleton] at hx; subst hx; exact hk
    · simpa [getC] using hw
  | .list xs, cur, root, hv, hs, hk, hw => by
    intro q hq
    simp only [lp] at hq
    exact lpList_spec xs cur root 0 [] (fun x hx => hv.of_list_mem hx) (fun x hx => hs.of_list hx) hk
      (by simpa using hw) (by simp) q hq
  | .cont kvs, cur, root, hv, hs, hk, hw => by
    intro q hq
    simp only [lp, List.mem_map] at hq
    obtain ⟨q', hq', rfl⟩ := hq
    have := lpKvs_spec kvs kvs hv hs (fun p hp => hp) q' hq'
    refine ⟨?_, ?_⟩
    · intro x hx
      simp only [List.mem_cons] at hx
      rcases hx with rfl | hx
      · exact hk
      · exact this.1 x hx
    · obtain ⟨h1, h2, h3⟩ := this
      cases hq1 : q'.1 with
      | nil => exact absurd hq1 h3
      | cons a as =>
        simp only [getC, hw]
        rw [← hq1]; exact h2
theorem lpList_spec : ∀ (xs : List Node) (cur : Comp) (root : AMap Node) (i : Nat) (pre : List Node),
    (∀ x ∈ xs, x.Valid) → (∀ x ∈ xs, x.SafeKeys) → SafeKey cur.1 →
    walkIdx (AMap.get? root cur.1) cur.2 = some (.list (pre ++ xs)) → pre.length = i →
    ∀ q ∈ lpList xs cur i, (∀ x ∈ q.1, SafeKey x.1) ∧ getC root q.1 = some (.leaf q.2)
  | [], _, _, _, _, _, _, _, _, _ => by intro q hq; cases hq
  | x :: xs, cur, root, i, pre, hv, hs, hk, hw, hlen => by
    intro q hq
    simp only [lpList, List.mem_append] at hq
    rcases hq with hq | hq
    · apply lp_spec x (cur.1, cur.2 ++ [i]) root (hv x (List.mem_cons_self ..)) (hs x (List.mem_cons_self ..)) hk _ q hq
      simp only
      rw [walkIdx_snoc, hw]
      simp only
      rw [← hlen]
      simp
    · apply lpList_spec xs cur root (i + 1) (pre ++ [x]) (fun y hy => hv y (List.mem_cons_of_mem _ hy))
        (fun y hy => hs y (List.mem_cons_of_mem _ hy)) hk (by simpa using hw) (by simp [hlen]) q hq
/-- for the entries `kvs` (a part of the sorted container `all`): paths are non-empty, safe, and resolve -/
theorem lpKvs_spec : ∀ (kvs all : List (String × Node)), (Node.cont all).Valid → (Node.cont all).SafeKeys →
    (∀ p ∈ kvs, p ∈ all) →
    ∀ q ∈ lpKvs kvs, (∀ x ∈ q.1, SafeKey x.1) ∧ getC all q.1 = some (.leaf q.2) ∧ q.1 ≠ []
  | [], _, _, _, _ => by intro q hq; cases hq
  | (k, x) :: r, all, hv, hs, hsub => by
    intro q hq
    simp only [lpKvs, List.mem_append] at hq
    have hmem : (k, x) ∈ all := hsub (k, x) (List.mem_cons_self ..)
    rcases hq with hq | hq
    · have hx : x.Valid := (hv.of_cont_mem hmem).1
      have hsx : x.SafeKeys := hs.val hmem
      have hkk : SafeKey k := hs.key hmem
      have hget : AMap.get? all k = some x := AMap.get?_of_mem hv.sorted hmem
      have := lp_spec x (k, []) all hx hsx hkk (by simpa [walkIdx] using hget) q hq
      refine ⟨this.1, this.2, ?_⟩
      intro e
      rw [e] at this
      simp [getC] at this
    · exact lpKvs_spec r all hv hs (fun p hp => hsub p (List.mem_cons_of_mem _ hp)) q hq
end

/-- **lookup_flatten**: every flattened (path, leaf) resolves to that leaf under `lookup`. -/
theorem lookup_flatten_aux (d : AMap Node) (hv : (Node.cont d).Valid) (hs : (Node.cont d).SafeKeys)
    (p : String) (v : Scalar) (h : (p, v) ∈ flatten d) : lookup d p = some (.leaf v) := by
  rw [flatten_lp] at h
  simp only [List.mem_map] at h
  obtain ⟨q, hq, he⟩ := h
  have hpe : renderFrom "" q.1 = p := (Prod.mk.inj he).1
  have hve : q.2 = v := (Prod.mk.inj he).2
  obtain ⟨hsafe, hget, hne⟩ := lpKvs_spec d d hv hs (fun p hp => hp) q hq
  cases hq1 : q.1 with
  | nil => exact absurd hq1 hne
  | cons c cs =>
    rw [hq1] at hsafe hget hpe
    rw [← hpe, ← hve]
    simp only [lookup, if_neg (renderFrom_ne_empty c cs hsafe)]
    rw [splitPath_renderFrom c cs hsafe, lookupSegs_comps (c :: cs) d hsafe]
    exact hget

end Ytk
