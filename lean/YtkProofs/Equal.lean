/- Equals is structural equality on valid nodes; clone is the identity. -/
import YtkModel.Equal
import YtkProofs.Dom

namespace Ytk

mutual
theorem equals_sound : ∀ (x y : Node), x.Valid → y.Valid → equals x y = true → x = y
  | .leaf a, .leaf b, _, _, h => by simpa [equals] using h
  | .leaf _, .list _, _, _, h => by simp [equals] at h
  | .leaf _, .cont _, _, _, h => by simp [equals] at h
  | .list _, .leaf _, _, _, h => by simp [equals] at h
  | .list _, .cont _, _, _, h => by simp [equals] at h
  | .cont _, .leaf _, _, _, h => by simp [equals] at h
  | .cont _, .list _, _, _, h => by simp [equals] at h
  | .list xs, .list ys, hx, hy, h => by
    simp only [equals, Bool.and_eq_true, beq_iff_eq] at h
    have := equalsList_sound xs ys (fun x hm => hx.of_list_mem hm) (fun y hm => hy.of_list_mem hm) h.1 h.2
    rw [this]
  | .cont xs, .cont ys, hx, hy, h => by
    simp only [equals, Bool.and_eq_true, beq_iff_eq] at h
    have hsub := equalsKvs_sound xs ys (fun p hm => hx.of_cont_mem hm) hy h.2
    rw [AMap.eq_of_sub_of_length hx.sorted hy.sorted hsub h.1]
theorem equalsList_sound : ∀ (xs ys : List Node), (∀ x ∈ xs, x.Valid) → (∀ y ∈ ys, y.Valid) →
    xs.length = ys.length → equalsList xs ys = true → xs = ys
  | [], [], _, _, _, _ => rfl
  | [], _ :: _, _, _, hl, _ => by simp at hl
  | _ :: _, [], _, _, hl, _ => by simp at hl
  | x :: xs, y :: ys, hx, hy, hl, h => by
    simp only [equalsList, Bool.and_eq_true] at h
    have h1 := equals_sound x y (hx x (List.mem_cons_self ..)) (hy y (List.mem_cons_self ..)) h.1
    have h2 := equalsList_sound xs ys (fun a ha => hx a (List.mem_cons_of_mem _ ha))
      (fun a ha => hy a (List.mem_cons_of_mem _ ha)) (by simpa using hl) h.2
    rw [h1, h2]
theorem equalsKvs_sound : ∀ (xs : List (String × Node)) (ys : AMap Node),
    (∀ p ∈ xs, p.2.Valid ∧ hasIdxSuffix p.1 = false) → (Node.cont ys).Valid →
    equalsKvs xs ys = true → ∀ p ∈ xs, AMap.get? ys p.1 = some p.2
  | [], _, _, _, _ => by intro p hp; cases hp
  | (k, v) :: rest, ys, hx, hy, h => by
    simp only [equalsKvs, Bool.and_eq_true] at h
    obtain ⟨h1, h2⟩ := h
    have hkv := hx (k, v) (List.mem_cons_self ..)
    rw [child_of_noSuffix ys hkv.2] at h1
    intro p hp
    simp only [List.mem_cons] at hp
    rcases hp with rfl | hp
    · cases hg : AMap.get? ys k with
      | none => simp [hg] at h1
      | some o =>
        simp only [hg] at h1
        have ho : o.Valid := (hy.of_cont_mem (AMap.mem_of_get? hg)).1
        rw [equals_sound v o hkv.1 ho h1]
    · exact equalsKvs_sound rest ys (fun q hq => hx q (List.mem_cons_of_mem _ hq)) hy h2 p hp
end

mutual
theorem equals_refl : ∀ (x : Node), x.Valid → equals x x = true
  | .leaf a, _ => by simp [equals]
  | .list xs, hx => by
    simp only [equals, Bool.and_eq_true, beq_iff_eq, true_and]
    exact equalsList_refl xs (fun x hm => hx.of_list_mem hm)
  | .cont xs, hx => by
    simp only [equals, Bool.and_eq_true, beq_iff_eq, true_and]
    exact equalsKvs_complete xs xs (fun p hm => hx.of_cont_mem hm) (AMap.get?_self_of_sorted hx.sorted)
theorem equalsList_refl : ∀ (xs : List Node), (∀ x ∈ xs, x.Valid) → equalsList xs xs = true
  | [], _ => rfl
  | x :: xs, hx => by
    simp only [equalsList, Bool.and_eq_true]
    exact ⟨equals_refl x (hx x (List.mem_cons_self ..)), equalsList_refl xs (fun a ha => hx a (List.mem_cons_of_mem _ ha))⟩
theorem equalsKvs_complete : ∀ (xs : List (String × Node)) (ys : AMap Node),
    (∀ p ∈ xs, p.2.Valid ∧ hasIdxSuffix p.1 = false) → (∀ p ∈ xs, AMap.get? ys p.1 = some p.2) →
    equalsKvs xs ys = true
  | [], _, _, _ => rfl
  | (k, v) :: rest, ys, hx, hs => by
    have hkv := hx (k, v) (List.mem_cons_self ..)
    simp only [equalsKvs, Bool.and_eq_true]
    refine ⟨?_, equalsKvs_complete rest ys (fun q hq => hx q (List.mem_cons_of_mem _ hq))
      (fun q hq => hs q (List.mem_cons_of_mem _ hq))⟩
    rw [child_of_noSuffix ys hkv.2, hs (k, v) (List.mem_cons_self ..)]
    exact equals_refl v hkv.1
end

theorem equals_iff_eq {x y : Node} (hx : x.Valid) (hy : y.Valid) : equals x y = true ↔ x = y :=
  ⟨equals_sound x y hx hy, fun e => e ▸ equals_refl x hx⟩

mutual
theorem clone_id : ∀ (x : Node), clone x = x
  | .leaf _ => rfl
  | .list xs => by simp [clone, cloneList_id xs]
  | .cont kvs => by simp [clone, cloneKvs_id kvs]
theorem cloneList_id : ∀ (xs : List Node), cloneList xs = xs
  | [] => rfl
  | x :: xs => by simp [cloneList, clone_id x, cloneList_id xs]
theorem cloneKvs_id : ∀ (xs : List (String × Node)), cloneKvs xs = xs
  | [] => rfl
  | (k, x) :: xs => by simp [cloneKvs, clone_id x, cloneKvs_id xs]
end

end Ytk
