/-
  `ParseListPathComponent` (left-to-right scan) on rendered components `key[i1]…[in]` with a
  path-safe key: it finds exactly the key and the indices, i.e. agrees with `parseSeg`
  (right-to-left stripping).  Hence every path rendered by Flatten over path-safe keys is a
  `safeFlattenPath` (C08).
-/
import YtkModel.Diff
import YtkProofs.FlattenPaths
import YtkProofs.Apply

namespace Ytk

/-! ### small list facts -/

theorem drop_length_succ_append {α : Type} : ∀ (a : List α) (x : α) (rest : List α),
    (a ++ x :: rest).drop (a.length + 1) = rest
  | [], _, _ => rfl
  | _ :: a, x, rest => by
    simp [drop_length_succ_append a x rest]

theorem take_length_append {α : Type} : ∀ (a b : List α), (a ++ b).take a.length = a
  | [], _ => by simp
  | _ :: a, b => by
    simp [take_length_append a b]

theorem groups_cons (i : Nat) (is : List Nat) :
    groups (i :: is) = '[' :: ((toString i).toList ++ ']' :: groups is) := by
  simp [groups, idxGroup]

/-! ### (a) hasIdxGroup -/

theorem hasIdxGroup_append_of_not_mem : ∀ (k r : List Char), '[' ∉ k →
    hasIdxGroup (k ++ r) = hasIdxGroup r
  | [], _, _ => rfl
  | c :: cs, r, h => by
    have hc : c ≠ '[' := by intro e; exact h (by simp [e])
    have ih := hasIdxGroup_append_of_not_mem cs r (fun hm => h (List.mem_cons_of_mem _ hm))
    simp [hasIdxGroup, hc, ih]

theorem hasIdxGroup_of_not_mem (k : List Char) (h : '[' ∉ k) : hasIdxGroup k = false := by
  have := hasIdxGroup_append_of_not_mem k [] h
  simpa [hasIdxGroup] using this

theorem span_loop_all_append {p : Char → Bool} : ∀ (ds rest acc : List Char) (x : Char),
    (∀ c ∈ ds, p c = true) → p x = false →
    List.span.loop p (ds ++ x :: rest) acc = (acc.reverse ++ ds, x :: rest)
  | [], rest, acc, x, _, hx => by simp [List.span.loop, hx]
  | d :: ds, rest, acc, x, hd, hx => by
    have h1 : p d = true := hd d (List.mem_cons_self ..)
    have ih := span_loop_all_append ds rest (d :: acc) x
      (fun c hc => hd c (List.mem_cons_of_mem _ hc)) hx
    simp [List.span.loop, h1, ih]

theorem span_digits (ds rest : List Char) (hall : ∀ c ∈ ds, isDigit c = true) :
    (ds ++ ']' :: rest).span isDigit = (ds, ']' :: rest) := by
  have hb : isDigit ']' = false := by decide
  have := span_loop_all_append (p := isDigit) ds rest [] ']' hall hb
  simpa [List.span] using this

theorem hasIdxGroup_group (ds rest : List Char) (hne : ds ≠ []) (hall : ∀ c ∈ ds, isDigit c = true) :
    hasIdxGroup ('[' :: (ds ++ ']' :: rest)) = true := by
  simp only [hasIdxGroup, span_digits ds rest hall]
  cases ds with
  | nil => exact absurd rfl hne
  | cons d ds' => simp

theorem hasIdxGroup_groups_cons (i : Nat) (is : List Nat) : hasIdxGroup (groups (i :: is)) = true := by
  rw [groups_cons]
  exact hasIdxGroup_group _ _ (digits_ne_nil i) (digits_all i)

/-! ### (b) the scanning loop -/

theorem indexOfChar_of_not_mem (c : Char) : ∀ (k : List Char), c ∉ k → indexOfChar c k = none
  | [], _ => rfl
  | x :: xs, h => by
    have hx : x ≠ c := by intro e; exact h (by simp [e])
    simp [indexOfChar, hx, indexOfChar_of_not_mem c xs (fun hm => h (List.mem_cons_of_mem _ hm))]

theorem indexOfChar_append (c : Char) : ∀ (k rest : List Char), c ∉ k →
    indexOfChar c (k ++ c :: rest) = some k.length
  | [], _, _ => by simp [indexOfChar]
  | x :: xs, rest, h => by
    have hx : x ≠ c := by intro e; exact h (by simp [e])
    simp [indexOfChar, hx, indexOfChar_append c xs rest (fun hm => h (List.mem_cons_of_mem _ hm))]

theorem atoiOr0_digits (ds : List Char) (hne : ds ≠ []) (hall : ∀ c ∈ ds, isDigit c = true) :
    atoiOr0 ds = digitsToNat ds := by
  have : ds.all isDigit = true := List.all_eq_true.mpr hall
  simp [atoiOr0, hne, this]

/-- one round of the loop consumes `k[ds]` -/
theorem plpcLoop_step (f : Nat) (k ds rest : List Char) (acc : List Nat)
    (h1 : '[' ∉ k) (h2 : ']' ∉ k) (hne : ds ≠ []) (hall : ∀ c ∈ ds, isDigit c = true) :
    plpcLoop (f + 1) (k ++ '[' :: (ds ++ ']' :: rest)) acc = plpcLoop f rest (acc ++ [digitsToNat ds]) := by
  have hs : indexOfChar '[' (k ++ '[' :: (ds ++ ']' :: rest)) = some k.length :=
    indexOfChar_append _ _ _ h1
  have hnd : ']' ∉ k ++ '[' :: ds := by
    intro hm
    simp only [List.mem_append, List.mem_cons] at hm
    rcases hm with hm | hm | hm
    · exact h2 hm
    · exact absurd hm (by decide)
    · exact absurd (hall _ hm) (by decide)
  have he : k ++ '[' :: (ds ++ ']' :: rest) = (k ++ '[' :: ds) ++ ']' :: rest := by simp
  have ht : indexOfChar ']' (k ++ '[' :: (ds ++ ']' :: rest)) = some (k ++ '[' :: ds).length := by
    rw [he]; exact indexOfChar_append _ _ _ hnd
  have hlen : (k ++ '[' :: ds).length = k.length + 1 + ds.length := by
    simp only [List.length_append, List.length_cons]; omega
  have hdrop : (k ++ '[' :: (ds ++ ']' :: rest)).drop ((k ++ '[' :: ds).length + 1) = rest := by
    rw [he]; exact drop_length_succ_append _ _ _
  have hslice : ((k ++ '[' :: (ds ++ ']' :: rest)).drop (k.length + 1)).take
      ((k ++ '[' :: ds).length - (k.length + 1)) = ds := by
    rw [drop_length_succ_append, hlen]
    have : k.length + 1 + ds.length - (k.length + 1) = ds.length := by omega
    rw [this]; exact take_length_append _ _
  have hlt : ¬ ((k ++ '[' :: ds).length < k.length + 1) := by rw [hlen]; omega
  simp only [plpcLoop, hs, ht]
  rw [if_neg hlt, hdrop, hslice, atoiOr0_digits ds hne hall]

theorem plpcLoop_groups : ∀ (is : List Nat) (k : List Char) (acc : List Nat) (fuel : Nat),
    '[' ∉ k → ']' ∉ k → is.length < fuel → plpcLoop fuel (k ++ groups is) acc = some (acc ++ is)
  | [], _, _, 0, _, _, h => by simp at h
  | [], k, acc, f + 1, h1, _, _ => by
    simp only [groups, List.flatMap_nil, List.append_nil, plpcLoop, indexOfChar_of_not_mem _ _ h1]
  | _ :: _, _, _, 0, _, _, h => by simp at h
  | i :: is, k, acc, f + 1, h1, h2, h => by
    rw [groups_cons, plpcLoop_step f k _ _ acc h1 h2 (digits_ne_nil i) (digits_all i),
      digitsToNat_toString]
    have := plpcLoop_groups is [] (acc ++ [i]) f (by simp) (by simp)
      (by simp only [List.length_cons] at h; omega)
    simpa using this

/-! ### (c) the base name -/

theorem takeWhile_ne_self : ∀ (k : List Char), '[' ∉ k → k.takeWhile (· ≠ '[') = k
  | [], _ => rfl
  | c :: cs, h => by
    have hc : c ≠ '[' := by intro e; exact h (by simp [e])
    have ih := takeWhile_ne_self cs (fun hm => h (List.mem_cons_of_mem _ hm))
    simp only [ne_eq, decide_not] at ih
    simp [List.takeWhile, hc, ih]

theorem takeWhile_ne_append (k rest : List Char) (h : '[' ∉ k) :
    (k ++ '[' :: rest).takeWhile (· ≠ '[') = k := by
  refine (takeWhile_all_append (p := fun x => decide (x ≠ '[')) k rest '[' ?_ (by simp)).1
  intro c hc
  have : c ≠ '[' := by intro e; exact h (e ▸ hc)
  simp [this]

theorem takeWhile_ne_groups (k : List Char) (is : List Nat) (h : '[' ∉ k) :
    (k ++ groups is).takeWhile (· ≠ '[') = k := by
  cases is with
  | nil => simpa [groups] using takeWhile_ne_self k h
  | cons i is => rw [groups_cons]; exact takeWhile_ne_append k _ h

/-! ### theorem 1 -/

theorem parseListComp_compStr {c : Comp} (h : SafeKey c.1) :
    parseListComp (String.ofList (compStr c)) = if c.2 = [] then none else some c := by
  obtain ⟨k, is⟩ := c
  have h1 : '[' ∉ k.toList := fun hm => (h.2 _ hm).2.1 rfl
  have h2 : ']' ∉ k.toList := fun hm => (h.2 _ hm).2.2 rfl
  simp only [parseListComp, String.toList_ofList, compStr]
  cases is with
  | nil =>
    have : hasIdxGroup (k.toList ++ groups []) = false := by
      simpa [groups] using hasIdxGroup_of_not_mem _ h1
    simp [this]
  | cons i is =>
    have hg : hasIdxGroup (k.toList ++ groups (i :: is)) = true := by
      rw [hasIdxGroup_append_of_not_mem _ _ h1]; exact hasIdxGroup_groups_cons i is
    have hfuel : (i :: is).length < (k.toList ++ groups (i :: is)).length + 1 := by
      have := groups_length (i :: is)
      simp only [List.length_append]
      omega
    have hl := plpcLoop_groups (i :: is) k.toList [] _ h1 h2 hfuel
    rw [if_pos hg, hl, takeWhile_ne_groups _ _ h1]
    simp [String.ofList_toList]

/-! ### theorem 2 -/

theorem hasIdxSuffix_safeKey {k : String} (h : SafeKey k) : hasIdxSuffix k = false := by
  have hs : stripIdx k.toList = none :=
    stripIdx_none_of_last (fun x hx => (h.2 x (List.mem_of_getLast? hx)).2.2)
  simp [hasIdxSuffix, hs]

theorem compOk_compStr {c : Comp} (h : SafeKey c.1) : compOk (String.ofList (compStr c)) = true := by
  simp only [compOk, parseSeg_compStr h, parseListComp_compStr h, hasIdxSuffix_safeKey h]
  obtain ⟨k, is⟩ := c
  cases is <;> simp

/-! ### theorem 3 -/

theorem safeFlattenPath_renderFrom (c : Comp) (cs : List Comp) (hs : ∀ x ∈ c :: cs, SafeKey x.1) :
    safeFlattenPath (renderFrom "" (c :: cs)) = true := by
  simp only [safeFlattenPath, splitPath_renderFrom c cs hs, Bool.and_eq_true, bne_iff_ne, ne_eq,
    List.all_eq_true, List.mem_map]
  refine ⟨renderFrom_ne_empty c cs hs, ?_⟩
  rintro _ ⟨x, hx, rfl⟩
  exact compOk_compStr (hs x hx)

/-! ### theorem 4 -/

theorem safeFlattenPath_of_mem_flatten (d : AMap Node) (hv : (Node.cont d).Valid)
    (hs : (Node.cont d).SafeKeys) (p : String) (v : Scalar) (h : (p, v) ∈ flatten d) :
    safeFlattenPath p = true := by
  rw [flatten_lp] at h
  simp only [List.mem_map] at h
  obtain ⟨q, hq, he⟩ := h
  have hpe : renderFrom "" q.1 = p := (Prod.mk.inj he).1
  obtain ⟨hsafe, _, hne⟩ := lpKvs_spec d d hv hs (fun p hp => hp) q hq
  cases hq1 : q.1 with
  | nil => exact absurd hq1 hne
  | cons c cs =>
    rw [hq1] at hsafe hpe
    rw [← hpe]
    exact safeFlattenPath_renderFrom c cs hsafe

end Ytk
