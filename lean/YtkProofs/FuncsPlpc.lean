/-
  YtkProofs.FuncsPlpc — lemmas for `ParseListPathComponent_generated_eq_model` (YtkProps/C08.lean):
  the GoPrelude primitives `strings.Index` on a one-character needle / the regexp `.*(\\[\\d+])+`
  against the model's `indexOfChar` / `hasIdxGroup` (YtkModel/Diff.lean), the domain predicate
  `PlpcGroupsOk`, and the loop lemma (the only one here that unfolds a generated definition).
-/
import YtkProofs.FuncsPtr
import YtkModel.Diff
open Ytk Ytk.Generated

namespace Ytk.Go

theorem stringsIndexC_char (ch : Char) : ∀ (l : List Char) (n : Nat),
    stringsIndexC [ch] l n = match indexOfChar ch l with | some i => ((n + i : Nat) : Int) | none => -1
  | [], n => by simp [stringsIndexC, indexOfChar]
  | c :: cs, n => by
    unfold stringsIndexC indexOfChar
    by_cases h : c = ch
    · subst h; simp [List.isPrefixOf]
    · have h' : (ch == c) = false := by simp; exact fun e => h e.symm
      simp only [List.isPrefixOf, h', Bool.false_and, Bool.false_eq_true, if_false, h]
      rw [stringsIndexC_char ch cs (n + 1)]
      cases indexOfChar ch cs with
      | none => simp
      | some j => simp only [Option.map_some]; show ((n + 1 + j : Nat) : Int) = ((n + (j + 1) : Nat) : Int); congr 1; omega

theorem reListPropC_eq (l : List Char) : reListPropC l = hasIdxGroup l := by
  have hd : Go.isDigit = Ytk.isDigit := funext isDigit_eq
  induction l with
  | nil => rfl
  | cons c cs ih => simp only [reListPropC, hasIdxGroup, hd, ih]; rfl

end Ytk.Go

theorem indexOfChar_lt (ch : Char) : ∀ (l : List Char) (i : Nat), indexOfChar ch l = some i → i < l.length
  | [], _, h => by simp [indexOfChar] at h
  | c :: cs, i, h => by
    unfold indexOfChar at h
    split at h
    · simp at h; subst h; simp
    · cases hi : indexOfChar ch cs with
      | none => simp [hi] at h
      | some j =>
        simp [hi] at h; subst h
        have := indexOfChar_lt ch cs j hi
        simp; omega

theorem stringsIndex_char (s : String) (ch : Char) :
    Go.stringsIndex s (String.singleton ch) = match indexOfChar ch s.toList with | some i => (i : Int) | none => -1 := by
  have : (String.singleton ch).toList = [ch] := by simp
  simp only [Go.stringsIndex, this, Go.stringsIndexC_char]
  cases indexOfChar ch s.toList <;> simp


/-- the bracket groups the scanning loop visits read the same under `strconv.Atoi` with the error
    dropped (the code) and under the model's `atoiOr0`: true when every group is a digit string
    below 2^63 or not a number at all; false for signed groups (`[+5]`, `[-5]`) and overflow -/
def PlpcGroupsOk : Nat → List Char → Prop
  | 0, _ => True
  | fuel + 1, cpath =>
    match indexOfChar '[' cpath, indexOfChar ']' cpath with
    | some start, some stop =>
        start + 1 ≤ stop →
          (Go.atoi (String.ofList ((cpath.drop (start + 1)).take (stop - (start + 1))))).1
              = ((atoiOr0 ((cpath.drop (start + 1)).take (stop - (start + 1))) : Nat) : Int)
          ∧ PlpcGroupsOk fuel (cpath.drop (stop + 1))
    | _, _ => True

theorem PLPC_loop1_eq (path : String) (first : Int) : ∀ (fuel : Nat) (cpath : String) (acc : List Nat),
    cpath.toList.length + 1 ≤ fuel → PlpcGroupsOk fuel cpath.toList →
    Funcs.ParseListPathComponent_loop1 path first fuel (acc.map Int.ofNat) cpath
      = (match plpcLoop fuel cpath.toList acc with
         | some is => (Go.slice path 0 first) >>= fun n => .ok (n, is.map Int.ofNat, true)
         | none => .panic) := by
  intro fuel
  induction fuel with
  | zero => intro cpath acc h; omega
  | succ f ih =>
    intro cpath acc hf hg
    have hb1 : ("[" : String) = String.singleton '[' := by decide
    have hb2 : ("]" : String) = String.singleton ']' := by decide
    unfold Funcs.ParseListPathComponent_loop1 plpcLoop
    unfold PlpcGroupsOk at hg
    rw [hb1, hb2, stringsIndex_char, stringsIndex_char]
    cases h1 : indexOfChar '[' cpath.toList with
    | none => simp
    | some start =>
      have hne : (((start : Nat) : Int) == -1) = false := by simp
      simp only [hne, Bool.false_eq_true, if_false]
      cases h2 : indexOfChar ']' cpath.toList with
      | none =>
        have : Go.slice cpath ((start : Int) + 1) (-1) = .panic := by
          simp [Go.slice]; omega
        simp [this]
      | some stop =>
        simp only [h1, h2] at hg
        have hstop := indexOfChar_lt _ _ _ h2
        by_cases hlt : stop < start + 1
        · have : Go.slice cpath ((start : Int) + 1) (stop : Int) = .panic := by
            simp [Go.slice]; omega
          simp [this, hlt]
        · have hle : start + 1 ≤ stop := by omega
          obtain ⟨ha, hg'⟩ := hg hle
          have hs1 := Go.slice_nat cpath (start + 1) stop hle (by omega)
          have hs2 := Go.slice_nat cpath (stop + 1) cpath.toList.length (by omega) (Nat.le_refl _)
          rw [← Go.len_eq] at hs2
          have ht : (cpath.toList.drop (stop + 1)).take (cpath.toList.length - (stop + 1)) = cpath.toList.drop (stop + 1) := by
            apply List.take_of_length_le; simp
          rw [ht] at hs2
          simp only [Int.natCast_add, Int.natCast_one] at hs1 hs2
          have hrec := ih (String.ofList (cpath.toList.drop (stop + 1))) (acc ++ [atoiOr0 ((cpath.toList.drop (start + 1)).take (stop - (start + 1)))])
            (by simp; omega) (by simpa using hg')
          simp only [String.toList_ofList, List.map_append, List.map_cons, List.map_nil] at hrec
          simp only [hlt, if_false, hs1, hs2, Go.Res.ok_bind, ha]
          exact hrec

theorem takeWhile_eq_take_of_indexOfChar (ch : Char) : ∀ (l : List Char) (k : Nat), indexOfChar ch l = some k →
    l.takeWhile (· ≠ ch) = l.take k
  | [], _, h => by simp [indexOfChar] at h
  | c :: cs, k, h => by
    unfold indexOfChar at h
    by_cases hc : c = ch
    · simp [hc] at h; subst h; simp [hc]
    · cases hi : indexOfChar ch cs with
      | none => simp [hc, hi] at h
      | some j =>
        simp [hc, hi] at h; subst h
        have ih := takeWhile_eq_take_of_indexOfChar ch cs j hi
        simp only [ne_eq, decide_not] at ih
        simp [List.takeWhile_cons, hc, ih]

theorem indexOfChar_of_hasIdxGroup : ∀ (l : List Char), hasIdxGroup l = true → ∃ k, indexOfChar '[' l = some k
  | [], h => by simp [hasIdxGroup] at h
  | c :: cs, h => by
    unfold indexOfChar
    by_cases hc : c = '['
    · exact ⟨0, by simp [hc]⟩
    · have : hasIdxGroup cs = true := by
        unfold hasIdxGroup at h
        simpa [hc] using h
      obtain ⟨k, hk⟩ := indexOfChar_of_hasIdxGroup cs this
      exact ⟨k + 1, by simp [hc, hk]⟩
