/-
  String-level facts about flattened paths: splitting on '.', stripping index groups,
  decimal digits.  `render ∘ parse` identities for path-safe keys.
-/
import YtkModel.Dom
import YtkProofs.Dom

namespace Ytk

/-! ### splitDot -/

theorem splitDot_noDot : ∀ (s : List Char), '.' ∉ s → splitDot s = [s]
  | [], _ => rfl
  | c :: cs, h => by
    have hc : c ≠ '.' := fun e => h (e ▸ List.mem_cons_self ..)
    have ih := splitDot_noDot cs (fun hm => h (List.mem_cons_of_mem _ hm))
    simp [splitDot, ih, hc]

theorem splitDot_append_dot : ∀ (a b : List Char), '.' ∉ a → splitDot (a ++ '.' :: b) = a :: splitDot b
  | [], b, _ => by
    simp only [List.nil_append, splitDot]
    cases h : splitDot b with
    | nil => exact absurd h (by
        intro e
        have : splitDot b ≠ [] := by
          cases b with
          | nil => simp [splitDot]
          | cons x xs =>
            simp only [splitDot]
            cases splitDot xs with
            | nil => simp
            | cons _ _ => simp only; split <;> simp
        exact this e)
    | cons x xs => simp
  | c :: cs, b, h => by
    have hc : c ≠ '.' := fun e => h (e ▸ List.mem_cons_self ..)
    have ih := splitDot_append_dot cs b (fun hm => h (List.mem_cons_of_mem _ hm))
    simp [splitDot, ih, hc]

/-! ### decimal digits -/

theorem isDigit_iff (c : Char) : isDigit c = c.isDigit := by
  simp only [isDigit, Char.isDigit, Char.toNat, ge_iff_le, Bool.decide_and]
  rfl

theorem digits_toString (n : Nat) : (toString n).toList = Nat.toDigits 10 n := by
  rw [Nat.toString_eq_repr, Nat.toList_repr]

theorem digits_all (n : Nat) : ∀ c ∈ (toString n).toList, isDigit c = true := by
  intro c hc
  rw [digits_toString] at hc
  rw [isDigit_iff]
  exact Nat.isDigit_of_mem_toDigits (by decide) (by decide) hc

theorem digits_ne_nil (n : Nat) : (toString n).toList ≠ [] := by
  rw [digits_toString]; exact Nat.toDigits_ne_nil

theorem digitsToNat_eq (ds : List Char) : digitsToNat ds = Nat.ofDigitChars 10 ds 0 := by
  unfold digitsToNat Nat.ofDigitChars
  congr 1
  funext a c
  show a * 10 + (c.toNat - 48) = 10 * a + (c.toNat - '0'.toNat)
  rw [Nat.mul_comm]; rfl

theorem digitsToNat_toString (n : Nat) : digitsToNat (toString n).toList = n := by
  rw [digitsToNat_eq, digits_toString]; exact Nat.ofDigitChars_ten_toDigits

/-! ### one index group -/

theorem takeWhile_all_append {p : Char → Bool} : ∀ (ds rest : List Char) (x : Char), (∀ c ∈ ds, p c = true) → p x = false →
    (ds ++ x :: rest).takeWhile p = ds ∧ (ds ++ x :: rest).dropWhile p = x :: rest
  | [], rest, x, _, hx => by simp [List.takeWhile, List.dropWhile, hx]
  | d :: ds, rest, x, hd, hx => by
    have h1 : p d = true := hd d (List.mem_cons_self ..)
    have ih := takeWhile_all_append ds rest x (fun c hc => hd c (List.mem_cons_of_mem _ hc)) hx
    simp [List.takeWhile, List.dropWhile, h1, ih.1, ih.2]

/-- `s ++ "[" ++ digits ++ "]"` strips to `(s, value)` -/
theorem stripIdx_group (s ds : List Char) (hne : ds ≠ []) (hall : ∀ c ∈ ds, isDigit c = true) :
    stripIdx (s ++ '[' :: ds ++ [']']) = some (s, digitsToNat ds) := by
  unfold stripIdx
  have hrev : (s ++ '[' :: ds ++ [']']).reverse = ']' :: (ds.reverse ++ '[' :: s.reverse) := by
    simp [List.reverse_append]
  rw [hrev]
  have hb : isDigit '[' = false := by decide
  have := takeWhile_all_append (p := isDigit) ds.reverse s.reverse '[' (by
    intro c hc; exact hall c (List.mem_reverse.mp hc)) hb
  simp only [this.1, this.2]
  cases hd : ds.reverse with
  | nil => exact absurd (List.reverse_eq_nil_iff.mp hd) hne
  | cons d ds' =>
    simp only
    rw [← hd, List.reverse_reverse, List.reverse_reverse]

theorem stripIdx_none_of_last {s : List Char} (h : ∀ c, s.getLast? = some c → c ≠ ']') : stripIdx s = none := by
  unfold stripIdx
  cases hr : s.reverse with
  | nil => rfl
  | cons c r =>
    have : s.getLast? = some c := by
      rw [List.getLast?_eq_head?_reverse, hr]; rfl
    have hc := h c this
    split
    · rename_i r' heq
      cases heq
      exact absurd rfl hc
    · rfl

/-! ### components: key followed by index groups -/

/-- characters of `[i]` -/
def idxGroup (i : Nat) : List Char := '[' :: (toString i).toList ++ [']']

/-- characters of a component `key[i1]…[in]` -/
def compChars (k : List Char) : List Nat → List Char
  | [] => k
  | i :: is => compChars (k ++ idxGroup i) is

theorem compChars_snoc (k : List Char) (is : List Nat) (i : Nat) :
    compChars k (is ++ [i]) = compChars k is ++ idxGroup i := by
  induction is generalizing k with
  | nil => rfl
  | cons j js ih => simp [compChars, ih]

end Ytk
