/-
  Lemmas for C13 (pipeline data operations): lookup after AddValueAt on key-only paths
  (self and frame), and small facts about the operation models.
-/
import YtkModel.PipelineData
import YtkProofs.Dom

namespace Ytk.PD

/-- all components are plain child names (no trailing index group) -/
def SegsOk (segs : List String) : Prop := ∀ s ∈ segs, hasIdxSuffix s = false

/-- a non-empty dotted path all of whose components are plain child names -/
def PathOk (path : String) : Prop := path ≠ "" ∧ SegsOk (splitPath path)

theorem splitDot_ne_nil (cs : List Char) : splitDot cs ≠ [] := by
  cases cs with
  | nil => simp [splitDot]
  | cons c cs =>
    simp only [splitDot]
    split
    · simp
    · split <;> simp

theorem splitPath_ne_nil (p : String) : splitPath p ≠ [] := by
  simp [splitPath, splitDot_ne_nil]

theorem SegsOk.tail {s : String} {segs : List String} (h : SegsOk (s :: segs)) : SegsOk segs :=
  fun x hx => h x (List.mem_cons_of_mem _ hx)

theorem SegsOk.head {s : String} {segs : List String} (h : SegsOk (s :: segs)) : hasIdxSuffix s = false :=
  h s (List.mem_cons_self ..)

theorem walkIdx_none (is : List Nat) : walkIdx none is = none := by
  cases is <;> simp [walkIdx]

theorem child_nil (t : String) : child [] t = none := by
  simp only [child]
  split <;> simp [AMap.get?, walkIdx_none]

theorem lookupSegs_nil_map (q : List String) : lookupSegs [] q = none := by
  cases q with
  | nil => rfl
  | cons t qs =>
    cases qs with
    | nil => simp [lookupSegs, child_nil]
    | cons t2 qs => simp [lookupSegs, child_nil]

/-- AddValueAt then Lookup at the same key-only path finds the value. -/
theorem lookupSegs_addAtSegs_self (v : Node) :
    ∀ (segs : List String) (kvs : AMap Node), segs ≠ [] → SegsOk segs →
      lookupSegs (addAtSegs kvs segs v) segs = some v
  | [], _, h, _ => absurd rfl h
  | [last], kvs, _, hok => by
    have hl := hok.head
    simp [addAtSegs, lookupSegs, add_of_noSuffix _ _ hl, child_of_noSuffix _ hl, AMap.get?_insert_self]
  | p :: q :: rest, kvs, _, hok => by
    have hp := hok.head
    simp only [addAtSegs, lookupSegs, add_of_noSuffix _ _ hp, child_of_noSuffix _ hp,
      AMap.get?_insert_self]
    exact lookupSegs_addAtSegs_self v (q :: rest) _ (by simp) hok.tail

/-- Frame: a key-only path that diverges from the target (neither is a prefix of the other)
    looks up the same node before and after AddValueAt. -/
theorem lookupSegs_addAtSegs_frame (v : Node) :
    ∀ (segs q : List String) (kvs : AMap Node), SegsOk segs → SegsOk q →
      ¬ segs <+: q → ¬ q <+: segs →
      lookupSegs (addAtSegs kvs segs v) q = lookupSegs kvs q
  | [], q, _, _, _, h, _ => absurd List.nil_prefix h
  | _ :: _, [], _, _, _, _, h => absurd List.nil_prefix h
  | [s], [t], kvs, hs, hq, h1, _ => by
    have hne : t ≠ s := by
      intro e; subst e; exact h1 (List.prefix_refl _)
    simp [addAtSegs, lookupSegs, add_of_noSuffix _ _ hs.head, child_of_noSuffix _ hq.head,
      AMap.get?_insert_ne _ _ hne]
  | [s], t :: t2 :: qs, kvs, hs, hq, h1, _ => by
    have hne : t ≠ s := by
      intro e; subst e
      exact h1 (by simp [List.cons_prefix_cons])
    simp [addAtSegs, lookupSegs, add_of_noSuffix _ _ hs.head, child_of_noSuffix _ hq.head,
      AMap.get?_insert_ne _ _ hne]
  | s :: s2 :: ss, [t], kvs, hs, hq, _, h2 => by
    have hne : t ≠ s := by
      intro e; subst e
      exact h2 (by simp [List.cons_prefix_cons])
    simp [addAtSegs, lookupSegs, add_of_noSuffix _ _ hs.head, child_of_noSuffix _ hq.head,
      AMap.get?_insert_ne _ _ hne]
  | s :: s2 :: ss, t :: t2 :: qs, kvs, hs, hq, h1, h2 => by
    by_cases hne : t = s
    · subst hne
      have h1' : ¬ (s2 :: ss) <+: (t2 :: qs) := fun h => h1 (by simpa [List.cons_prefix_cons] using h)
      have h2' : ¬ (t2 :: qs) <+: (s2 :: ss) := fun h => h2 (by simpa [List.cons_prefix_cons] using h)
      simp only [addAtSegs, lookupSegs, add_of_noSuffix _ _ hs.head, child_of_noSuffix _ hs.head,
        AMap.get?_insert_self]
      rw [lookupSegs_addAtSegs_frame v (s2 :: ss) (t2 :: qs) _ hs.tail hq.tail h1' h2']
      cases hg : AMap.get? kvs t with
      | none => simp [lookupSegs_nil_map]
      | some n =>
        cases n with
        | cont c => rfl
        | leaf _ => simp [lookupSegs_nil_map]
        | list _ => simp [lookupSegs_nil_map]
    · simp [addAtSegs, lookupSegs, add_of_noSuffix _ _ hs.head, child_of_noSuffix _ hq.head,
        AMap.get?_insert_ne _ _ hne]

theorem lookup_addValueAt_self (kvs : AMap Node) {path : String} (v : Node) (h : PathOk path) :
    lookup (addValueAt kvs path v) path = some v := by
  simp only [lookup, addValueAt, if_neg h.1]
  exact lookupSegs_addAtSegs_self v _ kvs (splitPath_ne_nil _) h.2

theorem lookup_addValueAt_frame (kvs : AMap Node) {path q : String} (v : Node) (h : PathOk path)
    (hq : PathOk q) (h1 : ¬ splitPath path <+: splitPath q) (h2 : ¬ splitPath q <+: splitPath path) :
    lookup (addValueAt kvs path v) q = lookup kvs q := by
  simp only [lookup, addValueAt, if_neg hq.1]
  exact lookupSegs_addAtSegs_frame v _ _ kvs h.2 hq.2 h1 h2

end Ytk.PD
