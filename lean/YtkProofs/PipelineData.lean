/-
  Lemmas for C13 (pipeline data operations): lookup after AddValueAt on key-only paths
  (self and frame), and small facts about the operation models.
-/
import YtkModel.PipelineData
import YtkProofs.Dom

namespace Ytk.PD

/-- all components are plain child names (no trailing index group) -/
def SegsOk (segs : List String) : Prop := ∀ s ∈ segs, hasIdxSuffix s = false

/-- a non-empty dotted path all of whose components are plain child names -/
def PathOk (path : String) : Prop := path ≠ "" ∧ SegsOk (splitPath path)

theorem splitDot_ne_nil (cs : List Char) : splitDot cs ≠ [] := by
  cases cs with
  | nil => simp [splitDot]
  | cons c cs =>
    simp only [splitDot]
    split
    · simp
    · split <;> simp

theorem splitPath_ne_nil (p : String) : splitPath p ≠ [] := by
  simp [splitPath, splitDot_ne_nil]

theorem SegsOk.tail {s : String} {segs : List String} (h : SegsOk (s :: segs)) : SegsOk segs :=
  fun x hx => h x (List.mem_cons_of_mem _ hx)

theorem SegsOk.head {s : String} {segs : List String} (h : SegsOk (s :: segs)) : hasIdxSuffix s = false :=
  h s (List.mem_cons_self ..)

theorem walkIdx_none (is : List Nat) : walkIdx none is = none := by
  cases is <;> simp [walkIdx]

theorem child_nil (t : String) : child [] t = none := by
  simp only [child]
  split <;> simp [AMap.get?, walkIdx_none]

theorem lookupSegs_nil_map (q : List String) : lookupSegs [] q = none := by
  cases q with
  | nil => rfl
  | cons t qs =>
    cases qs with
    | nil => simp [lookupSegs, child_nil]
    | cons t2 qs => simp [lookupSegs, child_nil]

/-- AddValueAt then Lookup at the same key-only path finds the value. -/
theorem lookupSegs_addAtSegs_self (v : Node) :
    ∀ (segs : List String) (kvs : AMap Node), segs ≠ [] → SegsOk segs →
      lookupSegs (addAtSegs kvs segs v) segs = some v
  | [], _, h, _ => absurd rfl h
  | [last], kvs, _, hok => by
    have hl := hok.head
    simp [addAtSegs, lookupSegs, add_of_noSuffix _ _ hl, child_of_noSuffix _ hl, AMap.get?_insert_self]
  | p :: q :: rest, kvs, _, hok => by
    have hp := hok.head
    simp only [addAtSegs, lookupSegs, add_of_noSuffix _ _ hp, child_of_noSuffix _ hp,
      AMap.get?_insert_self]
    exact lookupSegs_addAtSegs_self v (q :: rest) _ (by simp) hok.tail

/-- Frame: a key-only path that diverges from the target (neither is a prefix of the other)
    looks up the same node before and after AddValueAt. -/
theorem lookupSegs_addAtSegs_frame (v : Node) :
    ∀ (segs q : List String) (kvs : AMap Node), SegsOk segs → SegsOk q →
      ¬ segs <+: q → ¬ q <+: segs →
      lookupSegs (addAtSegs kvs segs v) q = lookupSegs kvs q
  | [], q, _, _, _, h, _ => absurd List.nil_prefix h
  | _ :: _, [], _, _, _, _, h => absurd List.nil_prefix h
  | [s], [t], kvs, hs, hq, h1, _ => by
    have hne : t ≠ s := by
      intro e; subst e; exact h1 (List.prefix_refl _)
    simp [addAtSegs, lookupSegs, add_of_noSuffix _ _ hs.head, child_of_noSuffix _ hq.head,
      AMap.get?_insert_ne _ _ hne]
  | [s], t :: t2 :: qs, kvs, hs, hq, h1, _ => by
    have hne : t ≠ s := by
      intro e; subst e
      exact h1 (by simp [List.cons_prefix_cons])
    simp [addAtSegs, lookupSegs, add_of_noSuffix _ _ hs.head, child_of_noSuffix _ hq.head,
      AMap.get?_insert_ne _ _ hne]
  | s :: s2 :: ss, [t], kvs, hs, hq, _, h2 => by
    have hne : t ≠ s := by
      intro e; subst e
      exact h2 (by simp [List.cons_prefix_cons])
    simp [addAtSegs, lookupSegs, add_of_noSuffix _ _ hs.head, child_of_noSuffix _ hq.head,
      AMap.get?_insert_ne _ _ hne]
  | s :: s2 :: ss, t :: t2 :: qs, kvs, hs, hq, h1, h2 => by
    by_cases hne : t = s
    · subst hne
      have h1' : ¬ (s2 :: ss) <+: (t2 :: qs) := fun h => h1 (by simpa [List.cons_prefix_cons] using h)
      have h2' : ¬ (t2 :: qs) <+: (s2 :: ss) := fun h => h2 (by simpa [List.cons_prefix_cons] using h)
      simp only [addAtSegs, lookupSegs, add_of_noSuffix _ _ hs.head, child_of_noSuffix _ hs.head,
        AMap.get?_insert_self]
      rw [lookupSegs_addAtSegs_frame v (s2 :: ss) (t2 :: qs) _ hs.tail hq.tail h1' h2']
      cases hg : AMap.get? kvs t with
      | none => simp [lookupSegs_nil_map]
      | some n =>
        cases n with
        | cont c => rfl
        | leaf _ => simp [lookupSegs_nil_map]
        | list _ => simp [lookupSegs_nil_map]
    · simp [addAtSegs, lookupSegs, add_of_noSuffix _ _ hs.head, child_of_noSuffix _ hq.head,
        AMap.get?_insert_ne _ _ hne]

theorem lookup_addValueAt_self (kvs : AMap Node) {path : String} (v : Node) (h : PathOk path) :
    lookup (addValueAt kvs path v) path = some v := by
  simp only [lookup, addValueAt, if_neg h.1]
  exact lookupSegs_addAtSegs_self v _ kvs (splitPath_ne_nil _) h.2

theorem lookup_addValueAt_frame (kvs : AMap Node) {path q : String} (v : Node) (h : PathOk path)
    (hq : PathOk q) (h1 : ¬ splitPath path <+: splitPath q) (h2 : ¬ splitPath q <+: splitPath path) :
    lookup (addValueAt kvs path v) q = lookup kvs q := by
  simp only [lookup, addValueAt, if_neg hq.1]
  exact lookupSegs_addAtSegs_frame v _ _ kvs h.2 hq.2 h1 h2


theorem length_padTo (xs : List Node) (n : Nat) : n ≤ (padTo xs n).length := by
  simp only [padTo, List.length_append, List.length_replicate]; omega

theorem walkIdx_setSlot : ∀ (is : List Nat) (cur : Option Node) (v : Node),
    walkIdx (some (setSlot cur is v)) is = some v
  | [], _, _ => by simp [setSlot, walkIdx]
  | i :: is, cur, v => by
    simp only [setSlot, walkIdx]
    rw [List.getElem?_set_self (length_padTo _ (i + 1))]
    exact walkIdx_setSlot is _ v

/-- AddValue then Child under the same name finds the value — for every name, also one that
    ends in index groups (`l[1]`, `l[0][2]`) -/
theorem child_add_self (kvs : AMap Node) (s : String) (v : Node) : child (add kvs s v) s = some v := by
  simp only [child, add]
  cases h : (parseSeg s).2 with
  | nil => simp [AMap.get?_insert_self]
  | cons i is => simp [AMap.get?_insert_self, walkIdx_setSlot]

/-- AddValueAt then Lookup at the same path finds the value, for every non-empty path. -/
theorem lookupSegs_addAtSegs_self' (v : Node) :
    ∀ (segs : List String) (kvs : AMap Node), segs ≠ [] → lookupSegs (addAtSegs kvs segs v) segs = some v
  | [], _, h => absurd rfl h
  | [last], kvs, _ => by simp [addAtSegs, lookupSegs, child_add_self]
  | p :: q :: rest, kvs, _ => by
    simp only [addAtSegs, lookupSegs, child_add_self]
    exact lookupSegs_addAtSegs_self' v (q :: rest) _ (by simp)

theorem lookup_addValueAt_self' (kvs : AMap Node) {path : String} (v : Node) (h : path ≠ "") :
    lookup (addValueAt kvs path v) path = some v := by
  simp only [lookup, addValueAt, if_neg h]
  exact lookupSegs_addAtSegs_self' v _ kvs (splitPath_ne_nil _)



theorem splitDot_append (a b : List Char) : splitDot (a ++ '.' :: b) = splitDot a ++ splitDot b := by
  induction a with
  | nil =>
    simp only [List.nil_append, splitDot]
    split
    · rename_i he; exact absurd he (splitDot_ne_nil b)
    · rename_i h t he; simp [he]
  | cons c a ih =>
    simp only [List.cons_append, splitDot, ih]
    cases hs : splitDot a with
    | nil => exact absurd hs (splitDot_ne_nil a)
    | cons h t =>
      simp only [List.cons_append]
      split <;> simp

theorem splitDot_noDot {a : List Char} (h : '.' ∉ a) : splitDot a = [a] := by
  induction a with
  | nil => rfl
  | cons c a ih =>
    have hc : c ≠ '.' := fun e => h (by simp [e])
    have ha : '.' ∉ a := fun e => h (by simp [e])
    simp [splitDot, ih ha, hc]

/-- the key under which EnvOp stores the variable `n` -/
def envKey (path n : String) : String := toPath path ("Env." ++ n)

def envPrefix (path : String) : List String := if path = "" then [] else splitPath path

theorem splitPath_envKey (path n : String) (hn : '.' ∉ n.toList) :
    splitPath (envKey path n) = envPrefix path ++ ["Env", n] := by
  have hE : splitDot ("Env.".toList ++ n.toList) = ["Env".toList, n.toList] := by
    have : "Env.".toList ++ n.toList = "Env".toList ++ '.' :: n.toList := by simp
    rw [this, splitDot_append, splitDot_noDot hn, splitDot_noDot (by decide)]
    rfl
  by_cases hp : path = ""
  · subst hp
    simp only [envKey, toPath, if_true, envPrefix, splitPath, String.toList_append, hE]
    simp [String.ofList_toList]
  · simp only [envKey, toPath, if_neg hp, envPrefix, splitPath, String.toList_append]
    have : path.toList ++ ".".toList ++ ("Env.".toList ++ n.toList)
        = path.toList ++ '.' :: ("Env.".toList ++ n.toList) := by simp
    rw [this, splitDot_append, hE]
    simp [String.ofList_toList]

theorem splitEnv_append {k : List Char} (v : List Char) (h : '=' ∉ k) :
    splitEnv (k ++ '=' :: v) = some (k, v) := by
  induction k with
  | nil => simp [splitEnv]
  | cons c k ih =>
    have hc : c ≠ '=' := fun e => h (by simp [e])
    have hk : '=' ∉ k := fun e => h (by simp [e])
    simp [splitEnv, hc, ih hk]

/-- a variable name EnvOp can store under a single child: no `=`, no `.`, no trailing index group -/
def NameOk (n : String) : Prop := '=' ∉ n.toList ∧ '.' ∉ n.toList ∧ hasIdxSuffix n = false

theorem envKey_ne_empty (path n : String) : envKey path n ≠ "" := by
  intro e
  have := congrArg String.toList e
  by_cases hp : path = ""
  · subst hp; simp [envKey, toPath, String.toList_append] at this
  · simp [envKey, toPath, hp, String.toList_append] at this

theorem pathOk_envKey {path n : String} (hp : path = "" ∨ PathOk path) (hn : NameOk n) :
    PathOk (envKey path n) := by
  refine ⟨envKey_ne_empty path n, ?_⟩
  rw [splitPath_envKey path n hn.2.1]
  intro s hs
  simp only [List.mem_append, List.mem_cons, List.mem_nil_iff, or_false] at hs
  rcases hs with hs | rfl | rfl
  · rcases hp with rfl | hp
    · simp [envPrefix] at hs
    · simp only [envPrefix, if_neg hp.1] at hs
      exact hp.2 s hs
  · decide
  · exact hn.2.2

theorem envKey_diverge (path : String) {n n' : String} (hn : '.' ∉ n.toList) (hn' : '.' ∉ n'.toList)
    (hne : n ≠ n') : ¬ splitPath (envKey path n) <+: splitPath (envKey path n') := by
  rw [splitPath_envKey path n hn, splitPath_envKey path n' hn', List.prefix_append_right_inj]
  simp [List.cons_prefix_cons, hne]



/-- os.Environ() entries of a list of (name, value) pairs -/
def envEntries (env : List (String × String)) : List String := env.map fun p => p.1 ++ "=" ++ p.2

def sel (incl excl : String → Bool) (n : String) : Bool := incl n && !excl n

theorem envOp_cons_ok (incl excl : String → Bool) (path : String) (n v : String) (rest : List String)
    (data : AMap Node) (hn : '=' ∉ n.toList) :
    envOp incl excl path ((n ++ "=" ++ v) :: rest) data =
      envOp incl excl path rest
        (if sel incl excl n then addValueAt data (envKey path n) (.leaf ⟨"string", v⟩) else data) := by
  have hs : splitEnv (n ++ "=" ++ v).toList = some (n.toList, v.toList) := by
    have : (n ++ "=" ++ v).toList = n.toList ++ '=' :: v.toList := by simp [String.toList_append]
    rw [this, splitEnv_append _ hn]
  by_cases hsel : sel incl excl n = true
  · have hsel' : (incl n && !excl n) = true := hsel
    rw [if_pos hsel]
    simp only [envOp, hs, String.ofList_toList, envKey, hsel', if_true]
  · have hsel' : ¬ (incl n && !excl n) = true := hsel
    rw [if_neg hsel]
    simp only [envOp, hs, String.ofList_toList, hsel']
    simp

theorem envOp_spec (incl excl : String → Bool) (path : String) (hp : path = "" ∨ PathOk path) :
    ∀ (env : List (String × String)) (data : AMap Node),
    (∀ p ∈ env, NameOk p.1) → env.Pairwise (fun p p' => p.1 ≠ p'.1) →
    ∃ d', envOp incl excl path (envEntries env) data = .ok d' ∧
      (∀ p ∈ env, lookup d' (envKey path p.1) =
        if sel incl excl p.1 then some (.leaf ⟨"string", p.2⟩) else lookup data (envKey path p.1)) ∧
      (∀ q, PathOk q →
        (∀ p ∈ env, sel incl excl p.1 = true →
          ¬ splitPath (envKey path p.1) <+: splitPath q ∧ ¬ splitPath q <+: splitPath (envKey path p.1)) →
        lookup d' q = lookup data q)
  | [], data, _, _ => ⟨data, rfl, by simp, fun _ _ _ => rfl⟩
  | (n, v) :: rest, data, hok, hpw => by
    rw [List.pairwise_cons] at hpw
    have hn : NameOk n := hok (n, v) (List.mem_cons_self ..)
    have hrest : ∀ p ∈ rest, NameOk p.1 := fun p hp' => hok p (List.mem_cons_of_mem _ hp')
    have hK := pathOk_envKey hp hn
    simp only [envEntries, List.map_cons]
    rw [envOp_cons_ok incl excl path n v _ data hn.1]
    obtain ⟨d', hd, hA, hB⟩ := envOp_spec incl excl path hp rest
      (if sel incl excl n then addValueAt data (envKey path n) (.leaf ⟨"string", v⟩) else data) hrest hpw.2
    refine ⟨d', hd, ?_, ?_⟩
    · intro p hp'
      simp only [List.mem_cons] at hp'
      rcases hp' with rfl | hp'
      · -- the head: later entries address other keys
        rw [hB (envKey path n) hK (fun p' hp'' _ =>
          ⟨envKey_diverge path (hrest p' hp'').2.1 hn.2.1 (Ne.symm (hpw.1 p' hp'')),
           envKey_diverge path hn.2.1 (hrest p' hp'').2.1 (hpw.1 p' hp'')⟩)]
        by_cases hs : sel incl excl n = true
        · simp [hs, lookup_addValueAt_self _ _ hK]
        · simp [hs]
      · rw [hA p hp']
        by_cases hs' : sel incl excl p.1 = true
        · simp [hs']
        · simp only [hs']
          by_cases hs : sel incl excl n = true
          · simp only [hs, if_true]
            exact lookup_addValueAt_frame _ _ hK (pathOk_envKey hp (hrest p hp'))
              (envKey_diverge path hn.2.1 (hrest p hp').2.1 (hpw.1 p hp'))
              (envKey_diverge path (hrest p hp').2.1 hn.2.1 (Ne.symm (hpw.1 p hp')))
          · simp [hs]
    · intro q hq hdiv
      rw [hB q hq (fun p hp' hs => hdiv p (List.mem_cons_of_mem _ hp') hs)]
      by_cases hs : sel incl excl n = true
      · simp only [hs, if_true]
        have := hdiv (n, v) (List.mem_cons_self ..) hs
        exact lookup_addValueAt_frame _ _ hK hq this.1 this.2
      · simp [hs]



/-- payload keys: plain child names (no dot, no trailing index group), pairwise different -/
def KeyPlain (k : String) : Prop := '.' ∉ k.toList ∧ hasIdxSuffix k = false

theorem setMergeRoot_spec (mergeC : AMap Node → AMap Node → AMap Node) :
    ∀ (payload : List (String × Node)) (orig : AMap Node),
    (∀ p ∈ payload, hasIdxSuffix p.1 = false) → payload.Pairwise (fun p p' => p.1 ≠ p'.1) →
    (∀ p ∈ payload, AMap.get? (setMergeRoot mergeC orig payload) p.1 =
        some (mergeOrReplace mergeC (AMap.get? orig p.1) p.2)) ∧
    (∀ k, (∀ p ∈ payload, p.1 ≠ k) → AMap.get? (setMergeRoot mergeC orig payload) k = AMap.get? orig k)
  | [], orig, _, _ => ⟨by simp, fun _ _ => rfl⟩
  | (k, v) :: rest, orig, hk, hpw => by
    rw [List.pairwise_cons] at hpw
    have hk0 := hk (k, v) (List.mem_cons_self ..)
    obtain ⟨hA, hB⟩ := setMergeRoot_spec mergeC rest
      (add orig k (mergeOrReplace mergeC (child orig k) v))
      (fun p hp => hk p (List.mem_cons_of_mem _ hp)) hpw.2
    simp only [setMergeRoot]
    refine ⟨?_, ?_⟩
    · intro p hp
      simp only [List.mem_cons] at hp
      rcases hp with rfl | hp
      · rw [hB _ (fun p' hp' => Ne.symm (hpw.1 p' hp'))]
        simp [add_of_noSuffix _ _ hk0, child_of_noSuffix _ hk0, AMap.get?_insert_self]
      · rw [hA p hp, add_of_noSuffix _ _ hk0, AMap.get?_insert_ne _ _ (Ne.symm (hpw.1 p hp))]
    · intro k' hk'
      rw [hB k' (fun p hp => hk' p (List.mem_cons_of_mem _ hp)), add_of_noSuffix _ _ hk0,
        AMap.get?_insert_ne _ _ (Ne.symm (hk' (k, v) (List.mem_cons_self ..)))]

theorem splitPath_plain {k : String} (h : '.' ∉ k.toList) : splitPath k = [k] := by
  simp [splitPath, splitDot_noDot h, String.ofList_toList]

theorem addValueAt_plain (orig : AMap Node) {k : String} (v : Node) (h : KeyPlain k) :
    addValueAt orig k v = AMap.insert orig k v := by
  simp [addValueAt, splitPath_plain h.1, addAtSegs, add_of_noSuffix _ _ h.2]

theorem setReplaceRoot_spec : ∀ (payload : List (String × Node)) (orig : AMap Node),
    (∀ p ∈ payload, KeyPlain p.1) → payload.Pairwise (fun p p' => p.1 ≠ p'.1) →
    (∀ p ∈ payload, AMap.get? (setReplaceRoot orig payload) p.1 = some p.2) ∧
    (∀ k, (∀ p ∈ payload, p.1 ≠ k) → AMap.get? (setReplaceRoot orig payload) k = AMap.get? orig k)
  | [], orig, _, _ => ⟨by simp, fun _ _ => rfl⟩
  | (k, v) :: rest, orig, hk, hpw => by
    rw [List.pairwise_cons] at hpw
    have hk0 := hk (k, v) (List.mem_cons_self ..)
    obtain ⟨hA, hB⟩ := setReplaceRoot_spec rest (addValueAt orig k v)
      (fun p hp => hk p (List.mem_cons_of_mem _ hp)) hpw.2
    simp only [setReplaceRoot]
    refine ⟨?_, ?_⟩
    · intro p hp
      simp only [List.mem_cons] at hp
      rcases hp with rfl | hp
      · rw [hB _ (fun p' hp' => Ne.symm (hpw.1 p' hp')), addValueAt_plain _ _ hk0, AMap.get?_insert_self]
      · exact hA p hp
    · intro k' hk'
      rw [hB k' (fun p hp => hk' p (List.mem_cons_of_mem _ hp)), addValueAt_plain _ _ hk0,
        AMap.get?_insert_ne _ _ (Ne.symm (hk' (k, v) (List.mem_cons_self ..)))]



theorem indexOf2_drop (a b : Char) : ∀ (l : List Char) (i : Nat), indexOf2 a b l = some i →
    ∃ rest, l.drop i = a :: b :: rest
  | [], _, h => by simp [indexOf2] at h
  | [_], _, h => by simp [indexOf2] at h
  | x :: y :: rest, i, h => by
    simp only [indexOf2] at h
    split at h
    · rename_i hxy; cases h; exact ⟨rest, by simp [hxy.1, hxy.2]⟩
    · cases hr : indexOf2 a b (y :: rest) with
      | none => simp [hr] at h
      | some j =>
        simp only [hr, Option.some.injEq] at h
        subst h
        obtain ⟨r, hr'⟩ := indexOf2_drop a b (y :: rest) j hr
        exact ⟨r, by simpa using hr'⟩

/-- the `closeIdx > 0` guard is the same as `closeIdx != -1`: the text searched starts with `{{` -/
theorem possiblyTemplate_iff (s : String) :
    possiblyTemplate s = true ↔
      ∃ i, indexOf2 '{' '{' s.toList = some i ∧ (indexOf2 '}' '}' (s.toList.drop i)).isSome = true := by
  simp only [possiblyTemplate]
  cases ho : indexOf2 '{' '{' s.toList with
  | none => simp
  | some i =>
    obtain ⟨rest, hd⟩ := indexOf2_drop _ _ _ _ ho
    simp only [Option.some.injEq, exists_eq_left']
    rw [hd]
    simp only [indexOf2]
    have : ¬ ('{' = '}' ∧ '{' = '}') := by decide
    simp only [if_neg this]
    cases indexOf2 '}' '}' ('{' :: rest) <;> simp


end Ytk.PD
