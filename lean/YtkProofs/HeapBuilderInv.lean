/-
  YtkProofs.HeapBuilderInv — the well-formedness invariants of a heap (`Closed`, `MapsOk`, `NilOk`,
  `Acyclic`) are preserved by every heap transformation that satisfies `ShrinkSpec` resp.
  `AttachSpec` (YtkProofs/HeapBuilderDefs.lean).

  * `ShrinkSpec.closed / rankedBy / acyclic / mapsOk / nilOk`
  * `AttachSpec.closed / mapsOk / nilOk`
  * `AttachSpec.acyclic`   attaching `v` keeps the heap acyclic provided `v` does not reach the
                           written cell `w` (no node is attached below itself)
  * `addH_own_ancestor_cycle`  the side condition is necessary: `AddValue` of the root under its own
                           child produces a closed heap that is cyclic (and `abs` of the root is `none`)
-/
import YtkProofs.HeapBuilderDefs

namespace Ytk.Heap

open Heap

/-! ## small facts about reachability -/

/-- in a closed heap an in-range address only reaches in-range addresses -/
theorem Reach.lt_of_closed {h : Heap} (hc : h.Closed) {a b : Addr} (hr : Reach h a b)
    (ha : a < h.size) : b < h.size :=
  Reach.closed_set (fun x => x < h.size) (fun a c _ hg k hk => hc a c hg k hk) hr ha

/-- a rank does not increase along a path -/
theorem Reach.rank_le {h : Heap} {rank : Addr → Nat} (hr : h.RankedBy rank) {a b : Addr}
    (hab : Reach h a b) : rank b ≤ rank a := by
  induction hab with
  | refl _ => exact Nat.le_refl _
  | step hg hk _ ih => exact Nat.le_trans ih (Nat.le_of_lt (hr _ _ hg _ hk))

/-- a stored kid never reaches its parent in a ranked heap -/
theorem Reach.not_kid_parent {h : Heap} {rank : Addr → Nat} (hr : h.RankedBy rank) {a k : Addr}
    {c : Cell} (hg : h.get? a = some c) (hk : k ∈ c.kids) : ¬ Reach h k a := fun hka =>
  Nat.lt_irrefl _ (Nat.lt_of_le_of_lt (Reach.rank_le hr hka) (hr a c hg k hk))

/-- a leaf cell reaches only itself -/
theorem Reach.of_leaf {h : Heap} {a b : Addr} {s : Scalar} (hg : h.get? a = some (.leaf s))
    (hr : Reach h a b) : b = a := by
  cases hr with
  | refl _ => rfl
  | step hg' hk _ =>
    rw [hg] at hg'
    cases Option.some.inj hg'
    simp [Cell.kids] at hk

/-! ## ShrinkSpec -/

theorem ShrinkSpec.closed {h h' : Heap} (hs : ShrinkSpec h h') (hc : h.Closed) : h'.Closed := by
  intro a c' hg k hk
  obtain ⟨cell, hg0, hkids, _⟩ := hs.cells a c' hg
  rw [hs.size_eq]
  exact hc a cell hg0 k (hkids k hk)

theorem ShrinkSpec.rankedBy {h h' : Heap} {rank : Addr → Nat} (hs : ShrinkSpec h h')
    (hr : h.RankedBy rank) : h'.RankedBy rank := by
  intro a c' hg k hk
  obtain ⟨cell, hg0, hkids, _⟩ := hs.cells a c' hg
  exact hr a cell hg0 k (hkids k hk)

theorem ShrinkSpec.acyclic {h h' : Heap} (hs : ShrinkSpec h h') (ha : h.Acyclic) : h'.Acyclic := by
  obtain ⟨rank, hr⟩ := ha
  exact ⟨rank, hs.rankedBy hr⟩

theorem ShrinkSpec.mapsOk {h h' : Heap} (hs : ShrinkSpec h h') (hm : h.MapsOk) : h'.MapsOk := by
  intro a kvs' hg
  obtain ⟨cell, hg0, _, hleaf, hlist, hsorted⟩ := hs.cells a _ hg
  cases cell with
  | leaf s => simp [Cell.isLeaf] at hleaf
  | list xs => simp [Cell.isList] at hlist
  | cont kvs => exact hsorted kvs kvs' rfl rfl (hm a kvs hg0)

theorem ShrinkSpec.nilOk {h h' : Heap} (hs : ShrinkSpec h h') (hn : h.NilOk) : h'.NilOk :=
  hs.leaves nilAddr Scalar.null hn

/-! ## AttachSpec: Closed, MapsOk, NilOk -/

/-- the written cell is an existing cell -/
theorem AttachSpec.w_lt {h h' : Heap} {c v w : Addr} (hs : AttachSpec h c v w h') : w < h.size := by
  obtain ⟨cw, _, hgw, _⟩ := hs.written
  exact get?_lt hgw

/-- the written cell is not the nil leaf -/
theorem AttachSpec.w_ne_nil {h h' : Heap} {c v w : Addr} (hs : AttachSpec h c v w h')
    (hn : h.NilOk) : w ≠ nilAddr := by
  obtain ⟨cw, _, hgw, _, hleaf, _⟩ := hs.written
  intro he
  rw [he, hn] at hgw
  cases Option.some.inj hgw
  simp [Cell.isLeaf] at hleaf

theorem AttachSpec.closed {h h' : Heap} {c v w : Addr} (hs : AttachSpec h c v w h') (hc : h.Closed)
    (hv : v < h.size) (hpos : 0 < h.size) : h'.Closed := by
  intro a c' hg k hk
  by_cases hnew : h.size ≤ a
  · have halt := get?_lt hg
    rcases (hs.fresh a c' hnew hg).1 k hk with ⟨_, hka⟩ | rfl | rfl
    · exact Nat.lt_trans hka halt
    · exact Nat.lt_of_lt_of_le hv hs.size_le
    · exact Nat.lt_of_lt_of_le hpos hs.size_le
  · have hold : a < h.size := Nat.lt_of_not_le hnew
    by_cases haw : a = w
    · subst haw
      obtain ⟨cw, cw', hgw, hgw', _, _, _, hkids, _⟩ := hs.written
      rw [hg] at hgw'
      cases Option.some.inj hgw'
      rcases hkids k hk with hk0 | rfl | rfl | ⟨_, hlt⟩
      · exact Nat.lt_of_lt_of_le (hc a cw hgw k hk0) hs.size_le
      · exact Nat.lt_of_lt_of_le hpos hs.size_le
      · exact Nat.lt_of_lt_of_le hv hs.size_le
      · exact hlt
    · rw [hs.frame a hold haw] at hg
      exact Nat.lt_of_lt_of_le (hc a c' hg k hk) hs.size_le

theorem AttachSpec.mapsOk {h h' : Heap} {c v w : Addr} (hs : AttachSpec h c v w h') (hm : h.MapsOk) :
    h'.MapsOk := by
  intro a kvs' hg
  by_cases hnew : h.size ≤ a
  · exact (hs.fresh a _ hnew hg).2 kvs' rfl
  · have hold : a < h.size := Nat.lt_of_not_le hnew
    by_cases haw : a = w
    · subst haw
      obtain ⟨cw, cw', hgw, hgw', _, _, hcont, _, hsorted⟩ := hs.written
      rw [hg] at hgw'
      cases Option.some.inj hgw'
      cases cw with
      | leaf s => simp [Cell.isCont] at hcont
      | list xs => simp [Cell.isCont] at hcont
      | cont kvs => exact hsorted kvs kvs' rfl rfl (hm a kvs hgw)
    · rw [hs.frame a hold haw] at hg
      exact hm a kvs' hg

theorem AttachSpec.nilOk {h h' : Heap} {c v w : Addr} (hs : AttachSpec h c v w h') (hn : h.NilOk) :
    h'.NilOk := by
  have h0 : nilAddr < h.size := get?_lt hn
  unfold NilOk
  rw [hs.frame nilAddr h0 (Ne.symm (hs.w_ne_nil hn))]
  exact hn

/-! ## AttachSpec: Acyclic -/

section attachRank
open Classical

/-- the rank on the new heap: old cells keep their rank, those that reach the written cell `w`
    are lifted by `B` above everything else; new cells sit above `v` and the nil leaf, ordered by
    address -/
noncomputable def attachRank (h : Heap) (w : Addr) (rank : Addr → Nat) (M B : Nat) (a : Addr) : Nat :=
  if h.size ≤ a then M + a else rank a + (if Reach h a w then B else 0)

theorem attachRank_new {h : Heap} {w : Addr} {rank : Addr → Nat} {M B : Nat} {a : Addr}
    (ha : h.size ≤ a) : attachRank h w rank M B a = M + a := by
  simp [attachRank, ha]

theorem attachRank_reach {h : Heap} {w : Addr} {rank : Addr → Nat} {M B : Nat} {a : Addr}
    (ha : a < h.size) (hr : Reach h a w) : attachRank h w rank M B a = rank a + B := by
  simp [attachRank, Nat.not_le.mpr ha, hr]

theorem attachRank_noreach {h : Heap} {w : Addr} {rank : Addr → Nat} {M B : Nat} {a : Addr}
    (ha : a < h.size) (hr : ¬ Reach h a w) : attachRank h w rank M B a = rank a := by
  simp [attachRank, Nat.not_le.mpr ha, hr]

/-- an old cell's new rank is at least its old rank -/
theorem le_attachRank_old {h : Heap} {w : Addr} {rank : Addr → Nat} {M B : Nat} {a : Addr}
    (ha : a < h.size) : rank a ≤ attachRank h w rank M B a := by
  by_cases hr : Reach h a w
  · rw [attachRank_reach ha hr]; exact Nat.le_add_right _ _
  · rw [attachRank_noreach ha hr]; exact Nat.le_refl _

end attachRank

/-- the main one: attaching `v` keeps the heap acyclic provided `v` does not reach the written
    cell -/
theorem AttachSpec.acyclic {h h' : Heap} {c v w : Addr} (hs : AttachSpec h c v w h') (hc : h.Closed)
    (ha : h.Acyclic) (hn : h.NilOk) (hv : v < h.size) (hvw : ¬ Reach h v w) : h'.Acyclic := by
  obtain ⟨ρ, hρ⟩ := ha
  have h0 : nilAddr < h.size := get?_lt hn
  have hw : w < h.size := hs.w_lt
  have hw0 : w ≠ nilAddr := hs.w_ne_nil hn
  -- the nil leaf does not reach `w`
  have h0w : ¬ Reach h nilAddr w := fun hr => hw0 (Reach.of_leaf hn hr)
  let M := ρ v + ρ nilAddr + 1
  let B := M + h'.size + 1
  have hMv : ρ v < M := by omega
  have hM0 : ρ nilAddr < M := by omega
  have hBM : M + h'.size < B := by omega
  refine ⟨attachRank h w ρ M B, ?_⟩
  have rv : attachRank h w ρ M B v = ρ v := attachRank_noreach hv hvw
  have r0 : attachRank h w ρ M B nilAddr = ρ nilAddr := attachRank_noreach h0 h0w
  intro a c' hg k hk
  by_cases hnew : h.size ≤ a
  · -- a new cell
    rw [attachRank_new hnew]
    rcases (hs.fresh a c' hnew hg).1 k hk with ⟨hk1, hka⟩ | rfl | rfl
    · have hka : @LT.lt Nat _ k a := hka
      rw [attachRank_new hk1]; omega
    · rw [rv]; omega
    · rw [r0]; omega
  · have hold : a < h.size := Nat.lt_of_not_le hnew
    by_cases haw : a = w
    · -- the written cell
      subst haw
      obtain ⟨cw, cw', hgw, hgw', _, _, _, hkids, _⟩ := hs.written
      rw [hg] at hgw'
      cases Option.some.inj hgw'
      rw [attachRank_reach hold (Reach.refl a)]
      rcases hkids k hk with hk0 | rfl | rfl | ⟨hk1, hlt⟩
      · have hkold : k < h.size := hc a cw hgw k hk0
        rw [attachRank_noreach hkold (Reach.not_kid_parent hρ hgw hk0)]
        have := hρ a cw hgw k hk0
        omega
      · rw [r0]; omega
      · rw [rv]; omega
      · have hlt : @LT.lt Nat _ k h'.size := hlt
        rw [attachRank_new hk1]; omega
    · -- an untouched old cell
      rw [hs.frame a hold haw] at hg
      have hkold : k < h.size := hc a c' hg k hk
      have hlt := hρ a c' hg k hk
      by_cases hkw : Reach h k w
      · rw [attachRank_reach hkold hkw, attachRank_reach hold (Reach.step hg hk hkw)]
        omega
      · rw [attachRank_noreach hkold hkw]
        exact Nat.lt_of_lt_of_le hlt (le_attachRank_old hold)

/-! ## the side condition is necessary: attaching an ancestor below itself creates a cycle -/

/-- root 1 = {"a": #2}, #2 = {} ; `AddValue` of the ROOT under its own child: #2 := {"up": #1} -/
def cycHeap : Heap := ⟨[.leaf Scalar.null, .cont [("a", 2)], .cont []]⟩

/-- the heap after `#2.AddValue("up", #1)` -/
def cycHeap' : Heap := ⟨[.leaf Scalar.null, .cont [("a", 2)], .cont [("up", 1)]]⟩

theorem addH_own_ancestor_cycle :
    cycHeap.Closed ∧ cycHeap.Acyclic ∧
    ∃ h', addH cycHeap 2 "up" 1 = some h' ∧ h'.Closed ∧ ¬ h'.Acyclic ∧ abs h' 1 = none := by
  refine ⟨closed_of_all (by decide), ⟨fun a => 3 - a, rankedBy_of_all (by decide)⟩,
    cycHeap', by decide +kernel, closed_of_all (by decide), ?_, by decide +kernel⟩
  rintro ⟨rank, hr⟩
  have h1 : rank 2 < rank 1 := hr 1 (.cont [("a", 2)]) rfl 2 (by simp [Cell.kids])
  have h2 : rank 1 < rank 2 := hr 2 (.cont [("up", 1)]) rfl 1 (by simp [Cell.kids])
  exact Nat.lt_irrefl _ (Nat.lt_trans h1 h2)

end Ytk.Heap
