/-
  YtkProofs.FuncsPtr — the bridge between the model's `Ptr.PropSeg` / `Ptr.parseS` and the types of
  the translated functions (YtkModel/Generated/Funcs.lean); used by `*_generated_eq_model` in
  YtkProps/C02.lean and C10.lean.
-/
import YtkProofs.FuncsLemmas
import YtkModel.Pointer

namespace Ytk.Ptr

/-- the model's `PropSeg` as the Go struct props.PathSegment of the translation (Index ≥ 0) -/
def segToGo (s : PropSeg) : Generated.Funcs.props_PathSegment := ⟨(s.index : Int), s.isNum, s.value⟩

/-- patch.MustParsePath as the translation sees it: the model's `parseS`, panic on error -/
def mustParseRes (s : String) : Go.Res (List String) :=
  match parseS s with
  | some q => .ok q
  | none => .panic

end Ytk.Ptr
