/-
  YtkProofs.FuncsPtr — the bridge between the model's `Ptr.PropSeg` / `Ptr.parseS` and the types of
  the translated functions (YtkModel/Generated/Funcs.lean); used by `*_generated_eq_model` in
  YtkProps/C02.lean and C10.lean.
-/
import YtkProofs.FuncsLemmas
import YtkModel.Pointer

namespace Ytk.Go

theorem isDigit_eq (c : Char) : Go.isDigit c = Ytk.isDigit c := by
  simp only [Go.isDigit, Ytk.isDigit, Char.le_def, ge_iff_le]
  have h0 : ('0' : Char).val = 48 := by decide
  have h9 : ('9' : Char).val = 57 := by decide
  simp only [h0, h9, UInt32.le_iff_toNat_le, Char.toNat]
  rfl

theorem all_isDigit_eq (ds : List Char) : ds.all Go.isDigit = ds.all Ytk.isDigit := by
  have : Go.isDigit = Ytk.isDigit := funext isDigit_eq
  rw [this]

theorem digitsVal_eq (ds : List Char) : Go.digitsVal ds = Ytk.digitsToNat ds := by
  simp [Go.digitsVal, Ytk.digitsToNat]

end Ytk.Go

namespace Ytk.Ptr

/-- the model's `PropSeg` as the Go struct props.PathSegment of the translation (Index ≥ 0) -/
def segToGo (s : PropSeg) : Generated.Funcs.props_PathSegment := ⟨(s.index : Int), s.isNum, s.value⟩

/-- patch.MustParsePath as the translation sees it: the model's `parseS`, panic on error -/
def mustParseRes (s : String) : Go.Res (List String) :=
  match parseS s with
  | some q => .ok q
  | none => .panic

theorem goAtoiDigits_eq (neg : Bool) (ds : List Char) :
    (if (Go.atoiDigits neg ds).2.isNone then some (Go.atoiDigits neg ds).1 else none)
      = (match digitsVal ds with
         | some n => if neg then (if n ≤ int64Lim then some (-(n : Int)) else none)
                     else (if n < int64Lim then some (n : Int) else none)
         | none => none) := by
  unfold Go.atoiDigits digitsVal
  simp only [allDigits, Go.all_isDigit_eq, Go.digitsVal_eq]
  by_cases h1 : ds = []
  · simp [h1]
  · by_cases h2 : ds.all Ytk.isDigit = true
    · simp only [h1, h2, if_false, if_true]
      cases neg
      · by_cases h : digitsToNat ds < int64Lim
        · have h' : digitsToNat ds < 9223372036854775808 := h
          simp [h, h', h1]
        · have h' : ¬ digitsToNat ds < 9223372036854775808 := h
          simp [h, h', h1]
      · by_cases h : digitsToNat ds ≤ int64Lim
        · have h' : digitsToNat ds ≤ 9223372036854775808 := h
          simp [h, h', h1]
        · have h' : ¬ digitsToNat ds ≤ 9223372036854775808 := h
          simp [h, h', h1]
    · simp [h1, h2]

/-- `strconv.Atoi` of the prelude agrees with the model's `atoi` (value when it succeeds, success) -/
theorem goAtoi_eq (t : String) :
    (if (Go.atoi t).2.isNone then some (Go.atoi t).1 else none) = atoi t := by
  unfold Go.atoi atoi atoiC
  split <;> rename_i h <;> simp only [h, goAtoiDigits_eq] <;> cases digitsVal _ <;> simp

end Ytk.Ptr
