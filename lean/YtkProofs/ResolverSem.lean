/-
  YtkProofs.ResolverSem — fuel-free (big-step) reading of the resolver model:
  `firstPh`, composition / inversion lemmas for `Resolves`, the relation `Reaches`
  ("a placeholder with text `o` is met while `o` is on the expansion stack") and its
  equivalence with the result `cycle o`; the dependency relation `Dep` and the
  "true cycle" corollary.
-/
import YtkProofs.Resolver

namespace Ytk.Resolver

/-! ## the first placeholder the scanner finds -/

/-- text before the first prefix, placeholder text up to its matching suffix, rest -/
def firstPh (s : Toks) : Option (Toks × Toks × Toks) :=
  match findPre s with
  | none => none
  | some (before, afterPre) =>
    match findEnd 0 afterPre with
    | none => none
    | some (ph, after) => some (before, ph, after)

/-- the part of `step` behind the stack test -/
def body (norm : Toks → Toks) (rec : Toks → List Toks → Res) (tbl : Table)
    (before ph after : Toks) (seen : List Toks) : Res :=
  match rec ph (seen ++ [ph]) with
  | .ok ph' =>
    match resolvePlaceholder tbl (norm ph') with
    | some pv =>
      match rec pv (seen ++ [ph]) with
      | .ok pv' => (rec after seen).prepend (before ++ pv')
      | e => e
    | none => (rec after seen).prepend (before ++ .pre :: ph ++ [.suf])
  | e => e

variable {norm : Toks → Toks} {tbl : Table}

theorem resolve_succ_none {s : Toks} (n : Nat) (seen : List Toks) (h : firstPh s = none) :
    resolve norm (n + 1) tbl s seen = .ok s := by
  rw [resolve_succ]; unfold step
  unfold firstPh at h
  cases hfp : findPre s with
  | none => rfl
  | some p =>
    obtain ⟨before, afterPre⟩ := p
    simp only [hfp] at h ⊢
    cases hfe : findEnd 0 afterPre with
    | none => rfl
    | some q => simp [hfe] at h

theorem resolve_succ_here {s before ph after : Toks} (n : Nat) {seen : List Toks}
    (h : firstPh s = some (before, ph, after)) (hc : ph ∈ seen) :
    resolve norm (n + 1) tbl s seen = .cycle ph := by
  rw [resolve_succ]; unfold step
  unfold firstPh at h
  cases hfp : findPre s with
  | none => simp [hfp] at h
  | some p =>
    obtain ⟨before', afterPre⟩ := p
    simp only [hfp] at h ⊢
    cases hfe : findEnd 0 afterPre with
    | none => simp [hfe] at h
    | some q =>
      obtain ⟨ph', after'⟩ := q
      simp only [hfe, Option.some.injEq, Prod.mk.injEq] at h ⊢
      obtain ⟨rfl, rfl, rfl⟩ := h
      have : seen.contains ph' = true := by simpa using hc
      rw [if_pos this]

theorem resolve_succ_some {s before ph after : Toks} (n : Nat) {seen : List Toks}
    (h : firstPh s = some (before, ph, after)) (hc : ph ∉ seen) :
    resolve norm (n + 1) tbl s seen = body norm (resolve norm n tbl) tbl before ph after seen := by
  rw [resolve_succ]; unfold step
  unfold firstPh at h
  cases hfp : findPre s with
  | none => simp [hfp] at h
  | some p =>
    obtain ⟨before', afterPre⟩ := p
    simp only [hfp] at h ⊢
    cases hfe : findEnd 0 afterPre with
    | none => simp [hfe] at h
    | some q =>
      obtain ⟨ph', after'⟩ := q
      simp only [hfe, Option.some.injEq, Prod.mk.injEq] at h ⊢
      obtain ⟨rfl, rfl, rfl⟩ := h
      have hc' : seen.contains ph' = false := by simpa using hc
      simp only [hc', Bool.false_eq_true, ↓reduceIte, seen_restore hc']
      rfl

theorem firstPh_split {s before ph after : Toks} (h : firstPh s = some (before, ph, after)) :
    ∃ afterPre, findPre s = some (before, afterPre) ∧ findEnd 0 afterPre = some (ph, after) := by
  unfold firstPh at h
  cases hfp : findPre s with
  | none => simp [hfp] at h
  | some p =>
    obtain ⟨before', afterPre⟩ := p
    simp only [hfp] at h
    cases hfe : findEnd 0 afterPre with
    | none => simp [hfe] at h
    | some q =>
      obtain ⟨ph', after'⟩ := q
      simp only [hfe, Option.some.injEq, Prod.mk.injEq] at h
      obtain ⟨rfl, rfl, rfl⟩ := h
      exact ⟨afterPre, rfl, hfe⟩

theorem firstPh_of {s before afterPre ph after : Toks} (h₁ : findPre s = some (before, afterPre))
    (h₂ : findEnd 0 afterPre = some (ph, after)) : firstPh s = some (before, ph, after) := by
  simp [firstPh, h₁, h₂]

theorem firstPh_after_length {s before ph after : Toks} (h : firstPh s = some (before, ph, after)) :
    after.length < s.length := by
  obtain ⟨afterPre, h₁, h₂⟩ := firstPh_split h
  obtain ⟨rfl, _⟩ := findPre_some h₁
  have := findEnd_length h₂
  simp; omega

/-! ## composing `Resolves` -/

theorem Resolves.plain {s : Toks} (seen : List Toks) (h : firstPh s = none) :
    Resolves norm tbl s seen (.ok s) :=
  ⟨1, resolve_succ_none 0 seen h, by simp⟩

theorem Resolves.here {s before ph after : Toks} {seen : List Toks}
    (h : firstPh s = some (before, ph, after)) (hc : ph ∈ seen) :
    Resolves norm tbl s seen (.cycle ph) :=
  ⟨1, resolve_succ_here 0 h hc, by simp⟩

/-- the key part fails (circular reference inside the placeholder text) -/
theorem Resolves.key_fail {s before ph after : Toks} {seen : List Toks} {o : Toks}
    (h : firstPh s = some (before, ph, after)) (hc : ph ∉ seen)
    (h₁ : Resolves norm tbl ph (seen ++ [ph]) (.cycle o)) :
    Resolves norm tbl s seen (.cycle o) := by
  obtain ⟨n, hn, _⟩ := h₁
  refine ⟨n + 1, ?_, by simp⟩
  rw [resolve_succ_some n h hc]; unfold body; rw [hn]

/-- the looked-up value / default fails -/
theorem Resolves.value_fail {s before ph after : Toks} {seen : List Toks} {ph' pv o : Toks}
    (h : firstPh s = some (before, ph, after)) (hc : ph ∉ seen)
    (h₁ : Resolves norm tbl ph (seen ++ [ph]) (.ok ph'))
    (hp : resolvePlaceholder tbl (norm ph') = some pv)
    (h₂ : Resolves norm tbl pv (seen ++ [ph]) (.cycle o)) :
    Resolves norm tbl s seen (.cycle o) := by
  obtain ⟨n₁, hn₁⟩ := h₁.fuel
  obtain ⟨n₂, hn₂⟩ := h₂.fuel
  refine ⟨max n₁ n₂ + 1, ?_, by simp⟩
  rw [resolve_succ_some _ h hc]; unfold body
  rw [hn₁ _ (Nat.le_max_left ..)]
  simp only [hp]
  rw [hn₂ _ (Nat.le_max_right ..)]

/-- the placeholder is substituted, scanning continues behind it -/
theorem Resolves.subst {s before ph after : Toks} {seen : List Toks} {ph' pv pv' : Toks} {r : Res}
    (h : firstPh s = some (before, ph, after)) (hc : ph ∉ seen)
    (h₁ : Resolves norm tbl ph (seen ++ [ph]) (.ok ph'))
    (hp : resolvePlaceholder tbl (norm ph') = some pv)
    (h₂ : Resolves norm tbl pv (seen ++ [ph]) (.ok pv'))
    (h₃ : Resolves norm tbl after seen r) :
    Resolves norm tbl s seen (r.prepend (before ++ pv')) := by
  obtain ⟨n₁, hn₁⟩ := h₁.fuel
  obtain ⟨n₂, hn₂⟩ := h₂.fuel
  obtain ⟨n₃, hn₃⟩ := h₃.fuel
  refine ⟨max n₁ (max n₂ n₃) + 1, ?_, prepend_ne_outOfFuel.mpr h₃.ne⟩
  rw [resolve_succ_some _ h hc]; unfold body
  rw [hn₁ _ (Nat.le_max_left ..)]
  simp only [hp]
  rw [hn₂ _ (by omega)]
  simp only
  rw [hn₃ _ (by omega)]

/-- the placeholder is unresolvable and stays verbatim, scanning continues behind it -/
theorem Resolves.verbatim {s before ph after : Toks} {seen : List Toks} {ph' : Toks} {r : Res}
    (h : firstPh s = some (before, ph, after)) (hc : ph ∉ seen)
    (h₁ : Resolves norm tbl ph (seen ++ [ph]) (.ok ph'))
    (hp : resolvePlaceholder tbl (norm ph') = Option.none)
    (h₃ : Resolves norm tbl after seen r) :
    Resolves norm tbl s seen (r.prepend (before ++ .pre :: ph ++ [.suf])) := by
  obtain ⟨n₁, hn₁⟩ := h₁.fuel
  obtain ⟨n₃, hn₃⟩ := h₃.fuel
  refine ⟨max n₁ n₃ + 1, ?_, prepend_ne_outOfFuel.mpr h₃.ne⟩
  rw [resolve_succ_some _ h hc]; unfold body
  rw [hn₁ _ (Nat.le_max_left ..)]
  simp only [hp]
  rw [hn₃ _ (Nat.le_max_right ..)]

theorem prepend_eq_cycle {p : Toks} {r : Res} {o : Toks} (h : r.prepend p = .cycle o) : r = .cycle o := by
  cases r <;> simp_all [Res.prepend]

theorem prepend_eq_ok {p : Toks} {r : Res} {t : Toks} (h : r.prepend p = .ok t) :
    ∃ t', r = .ok t' ∧ t = p ++ t' := by
  cases r <;> simp_all [Res.prepend]

/-! ## `Reaches`: the scanner meets a placeholder that is on the expansion stack -/

/-- `Reaches norm tbl stack s o`: scanning `s` left to right with expansion stack `stack`
    (the texts of the placeholders whose expansion is in progress), the resolver arrives at a
    placeholder with text `o` while `o` is on the stack.  The stack grows by the text of a
    placeholder exactly while its key part or its looked-up value / default is being expanded
    (`key`, `value`), and is back to `stack` when scanning continues behind it (`rest`).
    The side conditions `Resolves … (.ok _)` say what the earlier parts resolved to (they
    determine which table entry / default is expanded next). -/
inductive Reaches (norm : Toks → Toks) (tbl : Table) : List Toks → Toks → Toks → Prop
  /-- the first placeholder of `s` is on the stack -/
  | here {stack : List Toks} {s before ph after : Toks} :
      firstPh s = some (before, ph, after) → ph ∈ stack → Reaches norm tbl stack s ph
  /-- inside the text of the first placeholder (nested key / default text) -/
  | key {stack : List Toks} {s before ph after o : Toks} :
      firstPh s = some (before, ph, after) → ph ∉ stack →
      Reaches norm tbl (stack ++ [ph]) ph o → Reaches norm tbl stack s o
  /-- inside the value (table entry or default) the first placeholder is replaced by -/
  | value {stack : List Toks} {s before ph after ph' pv o : Toks} :
      firstPh s = some (before, ph, after) → ph ∉ stack →
      Resolves norm tbl ph (stack ++ [ph]) (.ok ph') →
      resolvePlaceholder tbl (norm ph') = some pv →
      Reaches norm tbl (stack ++ [ph]) pv o → Reaches norm tbl stack s o
  /-- behind the first placeholder, which was expanded completely (stack restored) -/
  | rest {stack : List Toks} {s before ph after ph' o : Toks} :
      firstPh s = some (before, ph, after) → ph ∉ stack →
      Resolves norm tbl ph (stack ++ [ph]) (.ok ph') →
      (∀ pv, resolvePlaceholder tbl (norm ph') = some pv →
        ∃ pv', Resolves norm tbl pv (stack ++ [ph]) (.ok pv')) →
      Reaches norm tbl stack after o → Reaches norm tbl stack s o

/-- soundness: a reported circular reference is a placeholder met while on the stack -/
theorem reaches_of_cycle : ∀ (n : Nat) (s : Toks) (seen : List Toks) (o : Toks),
    resolve norm n tbl s seen = .cycle o → Reaches norm tbl seen s o := by
  intro n
  induction n with
  | zero => intro s seen o h; simp at h
  | succ n ih =>
    intro s seen o h
    cases hf : firstPh s with
    | none => rw [resolve_succ_none n seen hf] at h; cases h
    | some p =>
      obtain ⟨before, ph, after⟩ := p
      by_cases hc : ph ∈ seen
      · rw [resolve_succ_here n hf hc] at h
        cases h
        exact .here hf hc
      · rw [resolve_succ_some n hf hc] at h
        unfold body at h
        cases h1 : resolve norm n tbl ph (seen ++ [ph]) with
        | outOfFuel => simp [h1] at h
        | cycle o' =>
          simp only [h1] at h
          cases h
          exact .key hf hc (ih _ _ _ h1)
        | ok ph' =>
          have r1 : Resolves norm tbl ph (seen ++ [ph]) (.ok ph') := ⟨n, h1, by simp⟩
          simp only [h1] at h
          cases hp : resolvePlaceholder tbl (norm ph') with
          | none =>
            simp only [hp] at h
            exact .rest hf hc r1 (by simp [hp]) (ih _ _ _ (prepend_eq_cycle h))
          | some pv =>
            simp only [hp] at h
            cases h2 : resolve norm n tbl pv (seen ++ [ph]) with
            | outOfFuel => simp [h2] at h
            | cycle o' =>
              simp only [h2] at h
              cases h
              exact .value hf hc r1 hp (ih _ _ _ h2)
            | ok pv' =>
              simp only [h2] at h
              refine .rest hf hc r1 ?_ (ih _ _ _ (prepend_eq_cycle h))
              intro pv₂ hpv₂
              rw [hp] at hpv₂
              cases hpv₂
              exact ⟨pv', n, h2, by simp⟩

/-- completeness: with enough fuel a placeholder met on the stack is reported -/
theorem cycle_of_reaches {seen : List Toks} {s o : Toks} (h : Reaches norm tbl seen s o) :
    Resolves norm tbl s seen (.cycle o) := by
  induction h with
  | here hf hc => exact .here hf hc
  | key hf hc _ ih => exact .key_fail hf hc ih
  | value hf hc r1 hp _ ih => exact .value_fail hf hc r1 hp ih
  | @rest stack s before ph after ph' o hf hc r1 hv _ ih =>
    cases hp : resolvePlaceholder tbl (norm ph') with
    | none => exact Resolves.verbatim hf hc r1 hp ih
    | some pv =>
      obtain ⟨pv', r2⟩ := hv pv hp
      exact Resolves.subst hf hc r1 hp r2 ih

/-! ## the dependency relation between placeholder texts; true cycles -/

/-- `TopPh s q`: `q` is the text of one of the placeholders the scanner finds in `s`
    (top level, left to right, each closed by its matching suffix) -/
inductive TopPh : Toks → Toks → Prop
  | first {s before ph after : Toks} : firstPh s = some (before, ph, after) → TopPh s ph
  | later {s before ph after q : Toks} : firstPh s = some (before, ph, after) → TopPh after q → TopPh s q

/-- `Dep p q`: expanding the placeholder with text `p` makes the resolver scan `q`:
    `q` is a placeholder in the text `p` itself, or in the table value / default that the
    resolved text of `p` is replaced by. -/
def Dep (norm : Toks → Toks) (tbl : Table) (p q : Toks) : Prop :=
  TopPh p q ∨ ∃ stack p' pv, Resolves norm tbl p stack (.ok p') ∧
    resolvePlaceholder tbl (norm p') = some pv ∧ TopPh pv q

/-- a placeholder met on the stack is a placeholder of `s`, or reached from one through `Dep`,
    and it either was on the initial stack or depends on itself -/
theorem reaches_dep {stack : List Toks} {s o : Toks} (h : Reaches norm tbl stack s o) :
    ∃ p, TopPh s p ∧ (p = o ∨ Relation.TransGen (Dep norm tbl) p o) ∧
      (o ∈ stack ∨ Relation.TransGen (Dep norm tbl) o o) := by
  induction h with
  | here hf hc => exact ⟨_, .first hf, .inl rfl, .inl hc⟩
  | @key stack s before ph after o hf hc _ ih =>
    obtain ⟨p, hp, hpo, hcyc⟩ := ih
    have hd : Dep norm tbl ph p := .inl hp
    have hpo' : Relation.TransGen (Dep norm tbl) ph o := by
      rcases hpo with rfl | hpo
      · exact .single hd
      · exact Relation.TransGen.trans (.single hd) hpo
    refine ⟨ph, .first hf, .inr hpo', ?_⟩
    rcases hcyc with hm | hcyc
    · rcases List.mem_append.mp hm with hm | hm
      · exact .inl hm
      · have : o = ph := by simpa using hm
        subst this
        exact .inr hpo'
    · exact .inr hcyc
  | @value stack s before ph after ph' pv o hf hc r1 hrp _ ih =>
    obtain ⟨p, hp, hpo, hcyc⟩ := ih
    have hd : Dep norm tbl ph p := .inr ⟨_, _, _, r1, hrp, hp⟩
    have hpo' : Relation.TransGen (Dep norm tbl) ph o := by
      rcases hpo with rfl | hpo
      · exact .single hd
      · exact Relation.TransGen.trans (.single hd) hpo
    refine ⟨ph, .first hf, .inr hpo', ?_⟩
    rcases hcyc with hm | hcyc
    · rcases List.mem_append.mp hm with hm | hm
      · exact .inl hm
      · have : o = ph := by simpa using hm
        subst this
        exact .inr hpo'
    · exact .inr hcyc
  | rest hf _ _ _ _ ih =>
    obtain ⟨p, hp, hpo, hcyc⟩ := ih
    exact ⟨p, .later hf hp, hpo, hcyc⟩

end Ytk.Resolver
