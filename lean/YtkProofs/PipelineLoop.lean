/-
  Fuel monotonicity of the pipeline interpreter and the closed n-fold form of LoopOp.Do (C14 `loop_trace`).

  * `run_succ` / `run_mono` — a run that did not run out of fuel is the same with any larger fuel
    (the error `Err.fuel` is produced by `run 0` only and nothing in the interpreter catches errors).
  * `iterSt` — the state after k iterations of "body, then post-action"; `loopIter_closed` — the closed
    form of `run m (.loopIter t b p) st` when the test holds exactly k times; `loop_op_closed` — the
    `.op (.loop i t b p)` wrapper with the init action first.
-/
import YtkProofs.Pipeline

namespace Ytk.Pipeline

/-! ## fuel monotonicity -/

/-- `r'` extends `r`: they are equal as soon as `r` did not run out of fuel -/
def Ext (r' r : Res) : Prop := r.err ≠ some .fuel → r' = r

theorem Ext.refl (r : Res) : Ext r r := fun _ => rfl

theorem Ext.wrap {l : String} {r' r : Res} (h : Ext r' r) : Ext (wrap l r') (wrap l r) := by
  intro hne
  have : r' = r := h hne
  rw [this]

theorem Ext.pre {evs : List Event} {r' r : Res} (h : Ext r' r) : Ext (Res.pre evs r') (Res.pre evs r) := by
  intro hne
  have : r' = r := h hne
  rw [this]

theorem Ext.mapSt {f : St → St} {r' r : Res} (h : Ext r' r) : Ext (r'.mapSt f) (r.mapSt f) := by
  intro hne
  have : r' = r := h hne
  rw [this]

theorem Ext.andThen {r' r : Res} {k' k : St → Res} (h : Ext r' r) (hk : ∀ st, Ext (k' st) (k st)) :
    Ext (r'.andThen k') (r.andThen k) := by
  intro hne
  cases he : r.err with
  | some e =>
    have h1 : r.andThen k = r := by simp [Res.andThen, he]
    rw [h1] at hne
    have hr : r' = r := h hne
    subst hr
    simp [Res.andThen, he]
  | none =>
    have hr : r' = r := h (by rw [he]; simp)
    subst hr
    have h2 : (r'.andThen k).err = (k r'.st).err := by simp [Res.andThen, he]
    have hk' : k' r'.st = k r'.st := hk r'.st (by rw [← h2]; exact hne)
    simp [Res.andThen, he, hk']

theorem Ext.guardWhen {w : Option String} {st : St} {k' k : St → Res} (hk : ∀ st, Ext (k' st) (k st)) :
    Ext (guardWhen w st k') (guardWhen w st k) := by
  unfold Pipeline.guardWhen
  cases w with
  | none => exact hk st
  | some t =>
    simp only
    cases evalBool t st.data with
    | none => exact Ext.refl _
    | some b =>
      cases b with
      | false => exact Ext.refl _
      | true => exact Ext.pre (hk st)

/-- one more unit of fuel does not change a run that did not run out of fuel -/
theorem run_succ : ∀ (n : Nat) (t : Task) (st : St), Ext (run (n + 1) t st) (run n t st) := by
  intro n
  induction n with
  | zero => intro t st h; exact absurd rfl h
  | succ n ih =>
    intro t st
    cases t with
    | act a => exact Ext.wrap (ih _ _)
    | doAct a =>
      simp only [run]
      exact Ext.guardWhen fun st =>
        Ext.andThen (Ext.wrap (ih _ _)) fun st => Ext.guardWhen fun st => Ext.wrap (ih _ _)
    | ops os =>
      cases os with
      | nil => exact Ext.refl _
      | cons o os => exact Ext.andThen (ih _ _) fun st => ih _ _
    | steps as =>
      cases as with
      | nil => exact Ext.refl _
      | cons a as => exact Ext.andThen (ih _ _) fun st => ih _ _
    | cloneOps os =>
      cases os with
      | nil => exact Ext.refl _
      | cons o os => exact Ext.andThen (ih _ _) fun st => ih _ _
    | items v b its =>
      cases its with
      | nil => exact Ext.refl _
      | cons it its => exact Ext.andThen (ih _ _) fun st => ih _ _
    | item v b it =>
      exact Ext.mapSt (Ext.andThen (ih _ _) fun st => Ext.wrap (ih _ _))
    | loopIter t b p =>
      simp only [run]
      cases evalBool t st.data with
      | none => exact Ext.refl _
      | some bv =>
        cases bv with
        | false => exact Ext.refl _
        | true =>
          simp only
          refine Ext.pre (Ext.andThen (ih _ _) fun st => Ext.andThen ?_ fun st => ih _ _)
          cases p with
          | none => exact Ext.refl _
          | some pa => exact ih _ _
    | op o =>
      simp only [run]
      apply Ext.wrap
      cases o with
      | set d p s => exact Ext.refl _
      | template t p tr pa => exact Ext.refl _
      | log m => exact Ext.refl _
      | abort m => exact Ext.refl _
      | ext fn id k => exact Ext.refl _
      | forEach q its v b => exact ih _ _
      | loop i t b p =>
        refine Ext.andThen ?_ fun st => ih _ _
        cases i with
        | none => exact Ext.refl _
        | some a => exact ih _ _
      | call name ap args =>
        simp only
        cases AMap.get? st.defs name with
        | none => exact Ext.refl _
        | some spec => exact Ext.mapSt (ih _ _)
      | define name b => exact Ext.refl _

/-- fuel monotonicity: a run that did not run out of fuel is the same run with any larger fuel -/
theorem run_mono {n m : Nat} (h : n ≤ m) (t : Task) (st : St) (hne : (run n t st).err ≠ some .fuel) :
    run m t st = run n t st := by
  induction m with
  | zero =>
    have : n = 0 := by omega
    subst this; rfl
  | succ m ih =>
    by_cases hm : n = m + 1
    · subst hm; rfl
    · have hle : n ≤ m := by omega
      have e := ih hle
      rw [← e] at hne ⊢
      exact run_succ m t st hne

/-- in particular a run that ended without error -/
theorem run_mono_ok {n m : Nat} (h : n ≤ m) (t : Task) (st : St) (hok : (run n t st).err = none) :
    run m t st = run n t st :=
  run_mono h t st (by rw [hok]; simp)

/-! ## the closed n-fold form of a loop -/

/-- the body of one iteration, run with fuel `n`: LoopOp.Do calls `l.Action.Do(ctx)` directly -/
def iterBody (n : Nat) (b : Action) (st : St) : Res := run n (.doAct b) st

/-- the post-action of one iteration, run with fuel `n` (`Execute(PostAction)`; nothing when there is none) -/
def iterPost (n : Nat) (p : Option Action) (st : St) : Res :=
  match p with
  | none => Res.ok st
  | some pa => run n (.act pa) st

/-- the state one iteration (body, then post-action) leaves -/
def iterStep (n : Nat) (b : Action) (p : Option Action) (st : St) : St :=
  (iterPost n p (iterBody n b st).st).st

/-- the state after `k` iterations -/
def iterSt (n : Nat) (b : Action) (p : Option Action) : Nat → St → St
  | 0, st => st
  | k + 1, st => iterSt n b p k (iterStep n b p st)

/-- the events of one iteration that starts in `st`: the test (true), the body's events, the
    post-action's events -/
def iterEvents (n : Nat) (t : String) (b : Action) (p : Option Action) (st : St) : List Event :=
  .test t (some true) :: ((iterBody n b st).tr ++ (iterPost n p (iterBody n b st).st).tr)

/-- the test holds, and body and post-action end without error, in the iteration that starts in `st` -/
def IterOk (n : Nat) (t : String) (b : Action) (p : Option Action) (st : St) : Prop :=
  evalBool t st.data = some true ∧ (iterBody n b st).err = none ∧ (iterPost n p (iterBody n b st).st).err = none

/-- `testsTrueFor k`: the first `k` iterations go through (with fuel `n` for body and post-action), and
    the test is false on the state after them -/
def TestsTrueFor (n : Nat) (t : String) (b : Action) (p : Option Action) (k : Nat) (st : St) : Prop :=
  (∀ i, i < k → IterOk n t b p (iterSt n b p i st)) ∧ evalBool t (iterSt n b p k st).data = some false

theorem iterSt_succ' (n : Nat) (b : Action) (p : Option Action) : ∀ (k : Nat) (st : St),
    iterSt n b p (k + 1) st = iterStep n b p (iterSt n b p k st)
  | 0, _ => rfl
  | k + 1, st => by
    show iterSt n b p (k + 1) (iterStep n b p st) = _
    rw [iterSt_succ' n b p k]
    rfl

/-- the trace of `k` iterations from `st` on -/
def iterTrace (n : Nat) (t : String) (b : Action) (p : Option Action) (k : Nat) (st : St) : List Event :=
  (List.range k).flatMap fun i => iterEvents n t b p (iterSt n b p i st)

theorem iterTrace_succ (n : Nat) (t : String) (b : Action) (p : Option Action) (k : Nat) (st : St) :
    iterTrace n t b p (k + 1) st = iterEvents n t b p st ++ iterTrace n t b p k (iterStep n b p st) := by
  simp only [iterTrace, List.range_succ_eq_map, List.flatMap_cons, List.flatMap_map]
  rfl

theorem TestsTrueFor.tail {n : Nat} {t : String} {b : Action} {p : Option Action} {k : Nat} {st : St}
    (h : TestsTrueFor n t b p (k + 1) st) : TestsTrueFor n t b p k (iterStep n b p st) :=
  ⟨fun i hi => h.1 (i + 1) (by omega), h.2⟩

theorem iterBody_mono {n m : Nat} (hm : n ≤ m) (b : Action) (st : St) (h : (iterBody n b st).err = none) :
    iterBody m b st = iterBody n b st := run_mono_ok hm _ _ h

theorem iterPost_mono {n m : Nat} (hm : n ≤ m) (p : Option Action) (st : St) (h : (iterPost n p st).err = none) :
    iterPost m p st = iterPost n p st := by
  cases p with
  | none => rfl
  | some pa => exact run_mono_ok hm _ _ h

theorem loopIter_true (m : Nat) (t : String) (b : Action) (p : Option Action) (st : St)
    (ht : evalBool t st.data = some true) :
    run (m + 1) (.loopIter t b p) st =
      Res.pre [.test t (some true)] ((iterBody m b st).andThen fun st =>
        (iterPost m p st).andThen fun st => run m (.loopIter t b p) st) := by
  simp only [run, ht]
  cases p <;> rfl

theorem loop_op_eq (m : Nat) (i : Option Action) (t : String) (b : Action) (p : Option Action) (st : St) :
    run (m + 1) (.op (.loop i t b p)) st =
      wrap "loop" ((iterPost m i st).andThen fun st => run m (.loopIter t b p) st) := by
  cases i <;> rfl

/-- one iteration that goes through, with any fuel `m ≥ n` for the loop -/
theorem loopIter_unfold {n m : Nat} (hm : n ≤ m) (t : String) (b : Action) (p : Option Action) (st : St)
    (h : IterOk n t b p st) :
    run (m + 1) (.loopIter t b p) st =
      Res.pre (iterEvents n t b p st) (run m (.loopIter t b p) (iterStep n b p st)) := by
  obtain ⟨ht, hb, hp⟩ := h
  rw [loopIter_true m t b p st ht, iterBody_mono hm b st hb]
  simp only [Res.andThen, hb]
  rw [iterPost_mono hm p _ hp]
  simp only [hp, Res.pre, iterEvents, iterStep, List.cons_append, List.nil_append, List.append_assoc]

/-- Closed form of LoopOp.Do's `for { … }`: if the test holds on the states before the first `k`
    iterations, body and post-action end without error in each of them (with fuel `n`), and the test is
    false on the state after `k` iterations, then with any fuel `m ≥ n + k + 1` the loop ends without
    error in the `k`-fold iterate of "body, then post-action" and its trace is
    (test · body · post)ᵏ · test. -/
theorem loopIter_closed (n : Nat) (t : String) (b : Action) (p : Option Action) : ∀ (k : Nat) (st : St) (m : Nat),
    TestsTrueFor n t b p k st → n + k + 1 ≤ m →
    run m (.loopIter t b p) st =
      ⟨iterTrace n t b p k st ++ [.test t (some false)], iterSt n b p k st, none⟩
  | 0, st, m, h, hm => by
    obtain ⟨m', rfl⟩ : ∃ m', m = m' + 1 := ⟨m - 1, by omega⟩
    have hf : evalBool t st.data = some false := h.2
    simp [run, hf, iterTrace, iterSt]
  | k + 1, st, m, h, hm => by
    obtain ⟨m', rfl⟩ : ∃ m', m = m' + 1 := ⟨m - 1, by omega⟩
    rw [loopIter_unfold (by omega) t b p st (h.1 0 (by omega)),
      loopIter_closed n t b p k (iterStep n b p st) m' h.tail (by omega), iterTrace_succ]
    simp [Res.pre, iterSt]

/-- The loop operation as the executor runs it: init first (once, before the first test), then the
    closed form, inside the before/after pair of `Execute`. -/
theorem loop_op_closed (n : Nat) (i : Option Action) (t : String) (b : Action) (p : Option Action) (k : Nat)
    (st : St) (m : Nat) (hi : (iterPost n i st).err = none)
    (h : TestsTrueFor n t b p k (iterPost n i st).st) (hm : n + k + 1 ≤ m) :
    run (m + 1) (.op (.loop i t b p)) st =
      ⟨.before "loop" :: ((iterPost n i st).tr ++
          (iterTrace n t b p k (iterPost n i st).st ++ [.test t (some false)])) ++ [.after "loop" none],
        iterSt n b p k (iterPost n i st).st, none⟩ := by
  rw [loop_op_eq, iterPost_mono (by omega) i st hi]
  simp only [Res.andThen, hi]
  rw [loopIter_closed n t b p k _ m h hm]
  simp [wrap]

/-! ## the closed form of ForEachOp.Do's iteration -/

/-- performWithItem for the item `it`, resolved against the current data, with fuel `n` -/
def itemRes (n : Nat) (v : String) (b : Action) (it : ItemE) (st : St) : Res :=
  run n (.item v b (it.resolve st.data)) st

/-- the state after iterating over `its` -/
def itemsSt (n : Nat) (v : String) (b : Action) : List ItemE → St → St
  | [], st => st
  | it :: its, st => itemsSt n v b its (itemRes n v b it st).st

/-- the concatenated traces of the iterations over `its` -/
def itemsTrace (n : Nat) (v : String) (b : Action) : List ItemE → St → List Event
  | [], _ => []
  | it :: its, st => (itemRes n v b it st).tr ++ itemsTrace n v b its (itemRes n v b it st).st

/-- every iteration over `its` ends without error -/
def ItemsOk (n : Nat) (v : String) (b : Action) : List ItemE → St → Prop
  | [], _ => True
  | it :: its, st => (itemRes n v b it st).err = none ∧ ItemsOk n v b its (itemRes n v b it st).st

theorem items_cons_eq (m : Nat) (v : String) (b : Action) (it : ItemE) (its : List ItemE) (st : St) :
    run (m + 1) (.items v b (it :: its)) st =
      (itemRes m v b it st).andThen fun st => run m (.items v b its) st := rfl

/-- all iterations succeed: one trace per item, in item order, each iteration starting from the state the
    previous one left -/
theorem items_closed (n : Nat) (v : String) (b : Action) : ∀ (its : List ItemE) (st : St) (m : Nat),
    ItemsOk n v b its st → n + its.length + 1 ≤ m →
    run m (.items v b its) st = ⟨itemsTrace n v b its st, itemsSt n v b its st, none⟩
  | [], st, m, _, hm => by
    obtain ⟨m', rfl⟩ : ∃ m', m = m' + 1 := ⟨m - 1, by omega⟩
    rfl
  | it :: its, st, m, h, hm => by
    obtain ⟨m', rfl⟩ : ∃ m', m = m' + 1 := ⟨m - 1, by omega⟩
    simp only [List.length_cons] at hm
    have e : itemRes m' v b it st = itemRes n v b it st := run_mono_ok (by omega) _ _ h.1
    rw [items_cons_eq, e]
    simp only [Res.andThen, h.1]
    rw [items_closed n v b its _ m' h.2 (by omega)]
    simp [itemsTrace, itemsSt]

/-- the iteration at position `pre.length` fails: the traces of the items before it, then the failing
    iteration's trace; its state and error are the result; no later item runs -/
theorem items_failing (n : Nat) (v : String) (b : Action) (it : ItemE) (post : List ItemE) (e : Err)
    (he : e ≠ .fuel) : ∀ (pre : List ItemE) (st : St) (m : Nat),
    ItemsOk n v b pre st → (itemRes n v b it (itemsSt n v b pre st)).err = some e → n + pre.length + 1 ≤ m →
    run m (.items v b (pre ++ it :: post)) st =
      ⟨itemsTrace n v b pre st ++ (itemRes n v b it (itemsSt n v b pre st)).tr,
        (itemRes n v b it (itemsSt n v b pre st)).st, some e⟩
  | [], st, m, _, hf, hm => by
    obtain ⟨m', rfl⟩ : ∃ m', m = m' + 1 := ⟨m - 1, by omega⟩
    have hf' : (itemRes n v b it st).err = some e := hf
    have e1 : itemRes m' v b it st = itemRes n v b it st :=
      run_mono (by simp at hm; omega) _ _ (by
        show (itemRes n v b it st).err ≠ some .fuel
        rw [hf']; simpa using he)
    rw [List.nil_append, items_cons_eq, e1]
    simp only [Res.andThen, hf', itemsTrace, itemsSt, List.nil_append]
    rw [← hf']
  | p :: pre, st, m, h, hf, hm => by
    obtain ⟨m', rfl⟩ : ∃ m', m = m' + 1 := ⟨m - 1, by omega⟩
    simp only [List.length_cons] at hm
    have e1 : itemRes m' v b p st = itemRes n v b p st := run_mono_ok (by omega) _ _ h.1
    rw [List.cons_append, items_cons_eq, e1]
    simp only [Res.andThen, h.1]
    rw [items_failing n v b it post e he pre _ m' h.2 hf (by omega)]
    simp [itemsTrace, itemsSt]

end Ytk.Pipeline
