/-
  Relational (any Go-map iteration order) variants of Walk and Search on overlay documents
  (dom/overlay.go: Walk / walkContainer / walkList / walkNode, Search; dom/container.go:
  Search, Flatten / flattenContainer / flattenList / flattenLeaf).

  The executable model (`walk`, `search`, `flatten`) ranges over the children of a container in
  key order; Go ranges over a map.  Here every `range` over a children map (and, for Search,
  the `range` over the flattened map) may use ANY permutation; layers are still visited in
  creation order (`m.names` is a slice) and list items in index order.

  * `EnumNode / EnumList / EnumKvs`  — the (path, leaf) sequences a full traversal can produce
  * `WalkNodeRel / … / WalkRel`      — operational walk with visitor state, early exit and the
                                       trace of visited triples
  * `SearchLayerRel / SearchRel`     — Flatten() into a Go map (later writes overwrite) followed
                                       by a range over that map
  * `LayerwisePerm g s E`            — `E` is a concatenation, in layer order, of one
                                       permutation of `g layer` per layer
-/
import YtkProofs.Overlay
import YtkProofs.Rebuild
import YtkProofs.Props

namespace Ytk
namespace Overlay

abbrev Triple := String × String × Scalar

/-! ## per-layer permutations, layers in order -/

/-- `E` is the concatenation, in layer order, of one permutation of `g layer` for every layer -/
inductive LayerwisePerm {β : Type} (g : String × AMap Node → List β) : Overlay → List β → Prop
  | nil : LayerwisePerm g [] []
  | cons {q : String × AMap Node} {rest : Overlay} {part E : List β} :
      part.Perm (g q) → LayerwisePerm g rest E → LayerwisePerm g (q :: rest) (part ++ E)

theorem LayerwisePerm.refl {β : Type} (g : String × AMap Node → List β) :
    ∀ (s : Overlay), LayerwisePerm g s (s.flatMap g)
  | [] => .nil
  | q :: rest => by
    simp only [List.flatMap_cons]
    exact .cons (List.Perm.refl _) (LayerwisePerm.refl g rest)

theorem LayerwisePerm.perm {β : Type} {g : String × AMap Node → List β} {s : Overlay} {E : List β}
    (h : LayerwisePerm g s E) : E.Perm (s.flatMap g) := by
  induction h with
  | nil => exact List.Perm.refl _
  | cons hp _ ih =>
    simp only [List.flatMap_cons]
    exact List.Perm.append hp ih

/-- the same thing spelled out with the list of per-layer parts -/
theorem layerwisePerm_iff_parts {β : Type} (g : String × AMap Node → List β) (s : Overlay) (E : List β) :
    LayerwisePerm g s E ↔
      ∃ parts : List (List β), parts.length = s.length ∧ E = parts.flatten ∧
        ∀ (i : Nat) (h1 : i < parts.length) (h2 : i < s.length), (parts[i]).Perm (g s[i]) := by
  constructor
  · intro h
    induction h with
    | nil => exact ⟨[], rfl, rfl, fun i h1 _ => absurd h1 (Nat.not_lt_zero _)⟩
    | @cons q rest part E hp _ ih =>
      obtain ⟨parts, hl, he, hall⟩ := ih
      refine ⟨part :: parts, by simp [hl], by simp [he], ?_⟩
      intro i h1 h2
      cases i with
      | zero => simpa using hp
      | succ j =>
        simp only [List.getElem_cons_succ]
        exact hall j (by simpa using h1) (by simpa using h2)
  · rintro ⟨parts, hl, he, hall⟩
    induction s generalizing parts E with
    | nil =>
      have : parts = [] := List.eq_nil_of_length_eq_zero (by simpa using hl)
      subst this; subst he
      exact .nil
    | cons q rest ih =>
      cases parts with
      | nil => simp at hl
      | cons part parts =>
        subst he
        simp only [List.flatten_cons]
        refine .cons ?_ (ih parts.flatten parts (by simpa using hl) rfl ?_)
        · exact hall 0 (by simp) (by simp)
        · intro i h1 h2
          exact hall (i + 1) (by simpa using h1) (by simpa using h2)

/-! ## traversal enumerations -/

mutual
/-- `EnumNode n p out`: `out` is the sequence of (path, leaf) positions that some complete
    traversal of `n`, rooted at path `p`, reaches — the children of every container are ranged
    over in an arbitrary permutation (Go map order), the items of a list in index order.
    walkContainer/walkList/walkNode and flattenContainer/flattenList/flattenLeaf share this
    recursion scheme. -/
inductive EnumNode : Node → String → List (String × Scalar) → Prop
  | leaf (v : Scalar) (p : String) : EnumNode (.leaf v) p [(p, v)]
  | list {xs : List Node} {p : String} {out : List (String × Scalar)} :
      EnumList xs p 0 out → EnumNode (.list xs) p out
  | cont {kvs kvs' : List (String × Node)} {p : String} {out : List (String × Scalar)} :
      kvs'.Perm kvs → EnumKvs kvs' p out → EnumNode (.cont kvs) p out
inductive EnumList : List Node → String → Nat → List (String × Scalar) → Prop
  | nil (p : String) (i : Nat) : EnumList [] p i []
  | cons {x : Node} {xs : List Node} {p : String} {i : Nat} {a b : List (String × Scalar)} :
      EnumNode x (toListPath p i) a → EnumList xs p (i + 1) b → EnumList (x :: xs) p i (a ++ b)
/-- the entries are visited in the order given (the permutation is chosen in `EnumNode.cont`) -/
inductive EnumKvs : List (String × Node) → String → List (String × Scalar) → Prop
  | nil (p : String) : EnumKvs [] p []
  | cons {k : String} {x : Node} {xs : List (String × Node)} {p : String} {a b : List (String × Scalar)} :
      EnumNode x (toPath p k) a → EnumKvs xs p b → EnumKvs ((k, x) :: xs) p (a ++ b)
end

theorem flattenKvs_perm {xs ys : List (String × Node)} (p : String) (h : xs.Perm ys) :
    (flattenKvs xs p).Perm (flattenKvs ys p) := by
  induction h with
  | nil => exact List.Perm.refl _
  | cons q _ ih => obtain ⟨k, x⟩ := q; simp only [flattenKvs]; exact List.Perm.append_left _ ih
  | swap a b l =>
    obtain ⟨ka, xa⟩ := a; obtain ⟨kb, xb⟩ := b
    simp only [flattenKvs, ← List.append_assoc]
    exact List.Perm.append_right _ List.perm_append_comm
  | trans _ _ ih1 ih2 => exact ih1.trans ih2

mutual
/-- every traversal enumerates a permutation of the key-order flattening -/
theorem enumNode_perm : ∀ {n : Node} {p : String} {out : List (String × Scalar)},
    EnumNode n p out → out.Perm (flattenNode n p)
  | _, _, _, .leaf v p => by simp only [flattenNode]; exact List.Perm.refl _
  | _, _, _, .list h => by simp only [flattenNode]; exact enumList_perm h
  | _, _, _, .cont hp h => by simp only [flattenNode]; exact (enumKvs_perm h).trans (flattenKvs_perm _ hp)
theorem enumList_perm : ∀ {xs : List Node} {p : String} {i : Nat} {out : List (String × Scalar)},
    EnumList xs p i out → out.Perm (flattenList xs p i)
  | _, _, _, _, .nil p i => by simp only [flattenList]; exact List.Perm.refl _
  | _, _, _, _, .cons h1 h2 => by
    simp only [flattenList]; exact List.Perm.append (enumNode_perm h1) (enumList_perm h2)
theorem enumKvs_perm : ∀ {xs : List (String × Node)} {p : String} {out : List (String × Scalar)},
    EnumKvs xs p out → out.Perm (flattenKvs xs p)
  | _, _, _, .nil p => by simp only [flattenKvs]; exact List.Perm.refl _
  | _, _, _, .cons h1 h2 => by
    simp only [flattenKvs]; exact List.Perm.append (enumNode_perm h1) (enumKvs_perm h2)
end

mutual
/-- the key-order traversal is one of the allowed traversals -/
theorem enumNode_self : ∀ (n : Node) (p : String), EnumNode n p (flattenNode n p)
  | .leaf v, p => by simp only [flattenNode]; exact .leaf v p
  | .list xs, p => by simp only [flattenNode]; exact .list (enumList_self xs p 0)
  | .cont kvs, p => by simp only [flattenNode]; exact .cont (List.Perm.refl _) (enumKvs_self kvs p)
theorem enumList_self : ∀ (xs : List Node) (p : String) (i : Nat), EnumList xs p i (flattenList xs p i)
  | [], p, i => by simp only [flattenList]; exact .nil p i
  | x :: xs, p, i => by simp only [flattenList]; exact .cons (enumNode_self x _) (enumList_self xs p (i + 1))
theorem enumKvs_self : ∀ (xs : List (String × Node)) (p : String), EnumKvs xs p (flattenKvs xs p)
  | [], p => by simp only [flattenKvs]; exact .nil p
  | (k, x) :: xs, p => by simp only [flattenKvs]; exact .cons (enumNode_self x _) (enumKvs_self xs p)
end

/-- a complete traversal of an overlay: layers in creation order, each layer's root container
    traversed by some `EnumNode` run -/
inductive EnumOverlay : Overlay → List Triple → Prop
  | nil : EnumOverlay [] []
  | cons {n : String} {c : AMap Node} {rest : Overlay} {a : List (String × Scalar)} {E : List Triple} :
      EnumNode (.cont c) "" a → EnumOverlay rest E → EnumOverlay ((n, c) :: rest) (tag n a ++ E)

/-- the per-layer triples of the property text -/
def layerTriples (q : String × AMap Node) : List Triple := tag q.1 (flatten q.2)

theorem triples_eq_flatMap (s : Overlay) : triples s = s.flatMap layerTriples := rfl

theorem enumOverlay_layerwise {s : Overlay} {E : List Triple} (h : EnumOverlay s E) :
    LayerwisePerm layerTriples s E := by
  induction h with
  | nil => exact .nil
  | @cons n c rest a E h1 _ ih =>
    refine .cons ?_ ih
    have := enumNode_perm h1
    simp only [flattenNode] at this
    exact this.map _

theorem enumOverlay_self : ∀ (s : Overlay), EnumOverlay s (triples s)
  | [] => .nil
  | (n, c) :: rest => by
    simp only [triples, List.flatMap_cons]
    refine .cons ?_ (enumOverlay_self rest)
    have := enumNode_self (.cont c) ""
    simp only [flattenNode] at this
    exact this

/-! ## the visited prefix of an enumeration under a visitor with early exit -/

section walk
variable {σ : Type} (fn : σ → String → String → Scalar → σ × Bool)

/-- the triples the visitor is actually called on when it is run over `E` from state `st`:
    everything up to and including the first triple on which it returns `false` -/
def visited : List Triple → σ → List Triple
  | [], _ => []
  | (l, p, v) :: rest, st =>
    match fn st l p v with
    | (st', true) => (l, p, v) :: visited rest st'
    | (_, false) => [(l, p, v)]

theorem foldUntil_single (l p : String) (v : Scalar) (st : σ) : foldUntil fn [(l, p, v)] st = fn st l p v := by
  simp only [foldUntil]
  rcases fn st l p v with ⟨st', b⟩
  cases b <;> rfl

theorem visited_single (l p : String) (v : Scalar) (st : σ) : visited fn [(l, p, v)] st = [(l, p, v)] := by
  simp only [visited]
  rcases fn st l p v with ⟨st', b⟩
  cases b <;> rfl

theorem foldUntil_append_true {xs : List Triple} {st st' : σ} (h : foldUntil fn xs st = (st', true))
    (ys : List Triple) : foldUntil fn (xs ++ ys) st = foldUntil fn ys st' := by
  rw [foldUntil_append, h]

theorem foldUntil_append_false {xs : List Triple} {st st' : σ} (h : foldUntil fn xs st = (st', false))
    (ys : List Triple) : foldUntil fn (xs ++ ys) st = (st', false) := by
  rw [foldUntil_append, h]

theorem visited_append_true : ∀ {xs : List Triple} {st st' : σ}, foldUntil fn xs st = (st', true) →
    ∀ (ys : List Triple), visited fn (xs ++ ys) st = visited fn xs st ++ visited fn ys st'
  | [], st, st', h, ys => by
    simp only [foldUntil, Prod.mk.injEq, and_true] at h
    subst h
    simp [visited]
  | (l, p, v) :: xs, st, st', h, ys => by
    simp only [foldUntil] at h
    simp only [List.cons_append, visited]
    rcases hf : fn st l p v with ⟨st₁, b⟩
    rw [hf] at h
    cases b
    · simp at h
    · simp only [List.cons_append]
      rw [visited_append_true h ys]

theorem visited_append_false : ∀ {xs : List Triple} {st st' : σ}, foldUntil fn xs st = (st', false) →
    ∀ (ys : List Triple), visited fn (xs ++ ys) st = visited fn xs st
  | [], st, st', h, ys => by simp [foldUntil] at h
  | (l, p, v) :: xs, st, st', h, ys => by
    simp only [foldUntil] at h
    simp only [List.cons_append, visited]
    rcases hf : fn st l p v with ⟨st₁, b⟩
    rw [hf] at h
    cases b
    · rfl
    · simp only
      rw [visited_append_false h ys]

/-- the visited triples are a prefix of the enumeration -/
theorem visited_prefix : ∀ (E : List Triple) (st : σ), visited fn E st <+: E
  | [], _ => by simp [visited]
  | (l, p, v) :: rest, st => by
    simp only [visited]
    rcases fn st l p v with ⟨st', b⟩
    cases b
    · exact ⟨rest, rfl⟩
    · simp only
      obtain ⟨t, ht⟩ := visited_prefix rest st'
      exact ⟨t, by simp [ht]⟩

/-- running the visitor over the visited prefix alone gives the same final state and flag -/
theorem foldUntil_visited : ∀ (E : List Triple) (st : σ), foldUntil fn (visited fn E st) st = foldUntil fn E st
  | [], _ => by simp [visited]
  | (l, p, v) :: rest, st => by
    simp only [visited, foldUntil]
    rcases hf : fn st l p v with ⟨st', b⟩
    cases b
    · simp [foldUntil, hf]
    · simp only [foldUntil, hf]
      exact foldUntil_visited rest st'

/-- no early stop: everything was visited -/
theorem visited_of_true : ∀ (E : List Triple) (st : σ), (foldUntil fn E st).2 = true → visited fn E st = E
  | [], _, _ => rfl
  | (l, p, v) :: rest, st, h => by
    simp only [foldUntil] at h
    simp only [visited]
    rcases hf : fn st l p v with ⟨st', b⟩
    rw [hf] at h
    cases b
    · simp at h
    · simp only
      rw [visited_of_true rest st' h]

/-- early stop: the last visited triple is the first one on which the visitor returned `false` -/
theorem visited_of_false : ∀ (E : List Triple) (st : σ), (foldUntil fn E st).2 = false →
    ∃ (pre : List Triple) (t : Triple), visited fn E st = pre ++ [t] ∧
      (foldUntil fn pre st).2 = true ∧ (fn (foldUntil fn pre st).1 t.1 t.2.1 t.2.2).2 = false
  | [], _, h => by simp [foldUntil] at h
  | (l, p, v) :: rest, st, h => by
    simp only [foldUntil] at h
    simp only [visited]
    rcases hf : fn st l p v with ⟨st', b⟩
    rw [hf] at h
    cases b
    · exact ⟨[], (l, p, v), rfl, rfl, by simp [foldUntil, hf]⟩
    · simp only at h ⊢
      obtain ⟨pre, t, e, h1, h2⟩ := visited_of_false rest st' h
      refine ⟨(l, p, v) :: pre, t, by simp [e], ?_, ?_⟩
      · simpa [foldUntil, hf] using h1
      · simpa [foldUntil, hf] using h2

/-- nothing is visited after a `false`: on every visited triple that has a successor in the
    trace the visitor returned `true` -/
theorem visited_nonlast_true : ∀ (E : List Triple) (st : σ) (pre : List Triple) (t : Triple) (post : List Triple),
    visited fn E st = pre ++ t :: post → post ≠ [] →
    (foldUntil fn pre st).2 = true ∧ (fn (foldUntil fn pre st).1 t.1 t.2.1 t.2.2).2 = true
  | [], _, pre, t, post, h, _ => by simp [visited] at h
  | (l, p, v) :: rest, st, pre, t, post, h, hne => by
    simp only [visited] at h
    rcases hf : fn st l p v with ⟨st', b⟩
    rw [hf] at h
    cases b
    · simp only at h
      cases pre with
      | nil =>
        simp only [List.nil_append, List.cons.injEq] at h
        exact absurd h.2.symm hne
      | cons a pre =>
        simp only [List.cons_append, List.cons.injEq] at h
        cases pre <;> simp at h
    · simp only at h
      cases pre with
      | nil =>
        simp only [List.nil_append, List.cons.injEq] at h
        obtain ⟨e, _⟩ := h
        subst e
        simp [foldUntil, hf]
      | cons a pre =>
        simp only [List.cons_append, List.cons.injEq] at h
        obtain ⟨e, h⟩ := h
        subst e
        have := visited_nonlast_true rest st' pre t post h hne
        simpa [foldUntil, hf] using this

theorem visited_all (h : ∀ st l p v, (fn st l p v).2 = true) (E : List Triple) (st : σ) : visited fn E st = E := by
  apply visited_of_true
  rw [foldUntil_all fn h]

/-! ## Walk with arbitrary map order: operational relation with trace -/

variable (layer : String)

mutual
/-- `WalkNodeRel fn layer n p st tr r`: walkNode(layer, p, _, n, fn) started in visitor state
    `st` may call the visitor on exactly the triples `tr` (in this order) and return with
    visitor state `r.1` and continue-flag `r.2` -/
inductive WalkNodeRel : Node → String → σ → List Triple → σ × Bool → Prop
  | leaf (v : Scalar) (p : String) (st : σ) : WalkNodeRel (.leaf v) p st [(layer, p, v)] (fn st layer p v)
  | list {xs : List Node} {p : String} {st : σ} {tr : List Triple} {r : σ × Bool} :
      WalkListRel xs p 0 st tr r → WalkNodeRel (.list xs) p st tr r
  | cont {kvs kvs' : List (String × Node)} {p : String} {st : σ} {tr : List Triple} {r : σ × Bool} :
      kvs'.Perm kvs → WalkKvsRel kvs' p st tr r → WalkNodeRel (.cont kvs) p st tr r
inductive WalkListRel : List Node → String → Nat → σ → List Triple → σ × Bool → Prop
  | nil (p : String) (i : Nat) (st : σ) : WalkListRel [] p i st [] (st, true)
  | stop {x : Node} {xs : List Node} {p : String} {i : Nat} {st st' : σ} {tr : List Triple} :
      WalkNodeRel x (toListPath p i) st tr (st', false) → WalkListRel (x :: xs) p i st tr (st', false)
  | next {x : Node} {xs : List Node} {p : String} {i : Nat} {st st' : σ} {tr₁ tr₂ : List Triple} {r : σ × Bool} :
      WalkNodeRel x (toListPath p i) st tr₁ (st', true) → WalkListRel xs p (i + 1) st' tr₂ r →
      WalkListRel (x :: xs) p i st (tr₁ ++ tr₂) r
inductive WalkKvsRel : List (String × Node) → String → σ → List Triple → σ × Bool → Prop
  | nil (p : String) (st : σ) : WalkKvsRel [] p st [] (st, true)
  | stop {k : String} {x : Node} {xs : List (String × Node)} {p : String} {st st' : σ} {tr : List Triple} :
      WalkNodeRel x (toPath p k) st tr (st', false) → WalkKvsRel ((k, x) :: xs) p st tr (st', false)
  | next {k : String} {x : Node} {xs : List (String × Node)} {p : String} {st st' : σ} {tr₁ tr₂ : List Triple}
      {r : σ × Bool} :
      WalkNodeRel x (toPath p k) st tr₁ (st', true) → WalkKvsRel xs p st' tr₂ r →
      WalkKvsRel ((k, x) :: xs) p st (tr₁ ++ tr₂) r
end

mutual
/-- soundness: every relational run visits the `visited` prefix of some complete traversal -/
theorem walkNodeRel_enum : ∀ {n : Node} {p : String} {st : σ} {tr : List Triple} {r : σ × Bool},
    WalkNodeRel fn layer n p st tr r →
    ∃ E, EnumNode n p E ∧ tr = visited fn (tag layer E) st ∧ r = foldUntil fn (tag layer E) st
  | _, _, _, _, _, .leaf v p st =>
    ⟨[(p, v)], .leaf v p, by simp [tag, visited_single], by simp [tag, foldUntil_single]⟩
  | _, _, _, _, _, .list h => by
    obtain ⟨E, he, h1, h2⟩ := walkListRel_enum h
    exact ⟨E, .list he, h1, h2⟩
  | _, _, _, _, _, .cont hp h => by
    obtain ⟨E, he, h1, h2⟩ := walkKvsRel_enum h
    exact ⟨E, .cont hp he, h1, h2⟩
theorem walkListRel_enum : ∀ {xs : List Node} {p : String} {i : Nat} {st : σ} {tr : List Triple} {r : σ × Bool},
    WalkListRel fn layer xs p i st tr r →
    ∃ E, EnumList xs p i E ∧ tr = visited fn (tag layer E) st ∧ r = foldUntil fn (tag layer E) st
  | _, _, _, _, _, _, .nil p i st => ⟨[], .nil p i, by simp [tag, visited], by simp [tag, foldUntil]⟩
  | _, _, _, _, _, _, .stop (xs := xs) (p := p) (i := i) h => by
    obtain ⟨E, he, h1, h2⟩ := walkNodeRel_enum h
    refine ⟨E ++ flattenList xs p (i + 1), .cons he (enumList_self xs p (i + 1)), ?_, ?_⟩
    · rw [tag_append, visited_append_false fn h2.symm]; exact h1
    · rw [tag_append, foldUntil_append_false fn h2.symm]
  | _, _, _, _, _, _, .next h h' => by
    obtain ⟨E₁, he₁, h1, h2⟩ := walkNodeRel_enum h
    obtain ⟨E₂, he₂, h3, h4⟩ := walkListRel_enum h'
    refine ⟨E₁ ++ E₂, .cons he₁ he₂, ?_, ?_⟩
    · rw [tag_append, visited_append_true fn h2.symm, ← h1, ← h3]
    · rw [tag_append, foldUntil_append_true fn h2.symm]; exact h4
theorem walkKvsRel_enum : ∀ {xs : List (String × Node)} {p : String} {st : σ} {tr : List Triple} {r : σ × Bool},
    WalkKvsRel fn layer xs p st tr r →
    ∃ E, EnumKvs xs p E ∧ tr = visited fn (tag layer E) st ∧ r = foldUntil fn (tag layer E) st
  | _, _, _, _, _, .nil p st => ⟨[], .nil p, by simp [tag, visited], by simp [tag, foldUntil]⟩
  | _, _, _, _, _, .stop (xs := xs) (p := p) h => by
    obtain ⟨E, he, h1, h2⟩ := walkNodeRel_enum h
    refine ⟨E ++ flattenKvs xs p, .cons he (enumKvs_self xs p), ?_, ?_⟩
    · rw [tag_append, visited_append_false fn h2.symm]; exact h1
    · rw [tag_append, foldUntil_append_false fn h2.symm]
  | _, _, _, _, _, .next h h' => by
    obtain ⟨E₁, he₁, h1, h2⟩ := walkNodeRel_enum h
    obtain ⟨E₂, he₂, h3, h4⟩ := walkKvsRel_enum h'
    refine ⟨E₁ ++ E₂, .cons he₁ he₂, ?_, ?_⟩
    · rw [tag_append, visited_append_true fn h2.symm, ← h1, ← h3]
    · rw [tag_append, foldUntil_append_true fn h2.symm]; exact h4
end

mutual
/-- completeness: the `visited` prefix of every complete traversal is a relational run -/
theorem enum_walkNodeRel : ∀ {n : Node} {p : String} {E : List (String × Scalar)}, EnumNode n p E →
    ∀ (st : σ), WalkNodeRel fn layer n p st (visited fn (tag layer E) st) (foldUntil fn (tag layer E) st)
  | _, _, _, .leaf v p, st => by
    have h1 : visited fn (tag layer [(p, v)]) st = [(layer, p, v)] := by simp [tag, visited_single]
    have h2 : foldUntil fn (tag layer [(p, v)]) st = fn st layer p v := by simp [tag, foldUntil_single]
    rw [h1, h2]
    exact .leaf v p st
  | _, _, _, .list h, st => .list (enum_walkListRel h st)
  | _, _, _, .cont hp h, st => .cont hp (enum_walkKvsRel h st)
theorem enum_walkListRel : ∀ {xs : List Node} {p : String} {i : Nat} {E : List (String × Scalar)},
    EnumList xs p i E →
    ∀ (st : σ), WalkListRel fn layer xs p i st (visited fn (tag layer E) st) (foldUntil fn (tag layer E) st)
  | _, _, _, _, .nil p i, st => by
    have h1 : visited fn (tag layer []) st = [] := by simp [tag, visited]
    have h2 : foldUntil fn (tag layer []) st = (st, true) := by simp [tag, foldUntil]
    rw [h1, h2]
    exact .nil p i st
  | _, _, _, _, .cons (a := a) (b := b) h h', st => by
    have ih := enum_walkNodeRel h st
    rcases hf : foldUntil fn (tag layer a) st with ⟨st', fl⟩
    rw [hf] at ih
    cases fl
    · rw [tag_append, visited_append_false fn hf, foldUntil_append_false fn hf]
      exact .stop ih
    · rw [tag_append, visited_append_true fn hf, foldUntil_append_true fn hf]
      exact .next ih (enum_walkListRel h' st')
theorem enum_walkKvsRel : ∀ {xs : List (String × Node)} {p : String} {E : List (String × Scalar)},
    EnumKvs xs p E →
    ∀ (st : σ), WalkKvsRel fn layer xs p st (visited fn (tag layer E) st) (foldUntil fn (tag layer E) st)
  | _, _, _, .nil p, st => by
    have h1 : visited fn (tag layer []) st = [] := by simp [tag, visited]
    have h2 : foldUntil fn (tag layer []) st = (st, true) := by simp [tag, foldUntil]
    rw [h1, h2]
    exact .nil p st
  | _, _, _, .cons (a := a) (b := b) h h', st => by
    have ih := enum_walkNodeRel h st
    rcases hf : foldUntil fn (tag layer a) st with ⟨st', fl⟩
    rw [hf] at ih
    cases fl
    · rw [tag_append, visited_append_false fn hf, foldUntil_append_false fn hf]
      exact .stop ih
    · rw [tag_append, visited_append_true fn hf, foldUntil_append_true fn hf]
      exact .next ih (enum_walkKvsRel h' st')
end

/-- Walk(fn) with arbitrary map order: `m.names` in order, `walkContainer(n, "", overlays[n], fn)`
    for each, stop at the first `false` -/
inductive WalkRel : Overlay → σ → List Triple → σ × Bool → Prop
  | nil (st : σ) : WalkRel [] st [] (st, true)
  | stop {n : String} {c : AMap Node} {rest : Overlay} {st st' : σ} {tr : List Triple} :
      WalkNodeRel fn n (.cont c) "" st tr (st', false) → WalkRel ((n, c) :: rest) st tr (st', false)
  | next {n : String} {c : AMap Node} {rest : Overlay} {st st' : σ} {tr₁ tr₂ : List Triple} {r : σ × Bool} :
      WalkNodeRel fn n (.cont c) "" st tr₁ (st', true) → WalkRel rest st' tr₂ r →
      WalkRel ((n, c) :: rest) st (tr₁ ++ tr₂) r

theorem walkRel_enum {s : Overlay} {st : σ} {tr : List Triple} {r : σ × Bool} (h : WalkRel fn s st tr r) :
    ∃ E, EnumOverlay s E ∧ tr = visited fn E st ∧ r = foldUntil fn E st := by
  induction h with
  | nil st => exact ⟨[], .nil, by simp [visited], by simp [foldUntil]⟩
  | @stop n c rest st st' tr h =>
    obtain ⟨E, he, h1, h2⟩ := walkNodeRel_enum fn n h
    refine ⟨tag n E ++ triples rest, .cons he (enumOverlay_self rest), ?_, ?_⟩
    · rw [visited_append_false fn h2.symm]; exact h1
    · rw [foldUntil_append_false fn h2.symm]
  | @next n c rest st st' tr₁ tr₂ r h _ ih =>
    obtain ⟨E₁, he₁, h1, h2⟩ := walkNodeRel_enum fn n h
    obtain ⟨E₂, he₂, h3, h4⟩ := ih
    refine ⟨tag n E₁ ++ E₂, .cons he₁ he₂, ?_, ?_⟩
    · rw [visited_append_true fn h2.symm, ← h1, ← h3]
    · rw [foldUntil_append_true fn h2.symm]; exact h4

theorem enum_walkRel {s : Overlay} {E : List Triple} (h : EnumOverlay s E) :
    ∀ (st : σ), WalkRel fn s st (visited fn E st) (foldUntil fn E st) := by
  induction h with
  | nil => intro st; simpa [visited, foldUntil] using WalkRel.nil (fn := fn) st
  | @cons n c rest a E h1 _ ih =>
    intro st
    have hn := enum_walkNodeRel fn n h1 st
    rcases hf : foldUntil fn (tag n a) st with ⟨st', fl⟩
    rw [hf] at hn
    cases fl
    · rw [visited_append_false fn hf, foldUntil_append_false fn hf]
      exact .stop hn
    · rw [visited_append_true fn hf, foldUntil_append_true fn hf]
      exact .next hn (ih st')

end walk

/-! ## Search with arbitrary map order -/

/-- any two flattened entries with the same path carry the same leaf (true for every valid,
    path-safe document: `flatten_functional`; false e.g. for `{"a": {"b": 1}, "a.b": 2}`) -/
def PathsFunctional (c : AMap Node) : Prop :=
  ∀ x ∈ flatten c, ∀ y ∈ flatten c, x.1 = y.1 → x.2 = y.2

theorem pathsFunctional_of_valid (c : AMap Node) (hv : (Node.cont c).Valid) (hs : (Node.cont c).SafeKeys) :
    PathsFunctional c := flatten_functional c hv hs

/-- one run of `containerImpl.Search(fn)`: `Flatten()` performs the map writes `ret[path] = leaf`
    in the order `ws` of some traversal (a later write to the same path overwrites: `AMap.ofList`),
    then the resulting Go map is ranged over in any order `m'` and the matching paths are
    appended in that order -/
inductive SearchLayerRel (f : Scalar → Bool) (c : AMap Node) : List String → Prop
  | mk {ws m' : List (String × Scalar)} :
      EnumNode (.cont c) "" ws → m'.Perm (AMap.ofList ws) →
      SearchLayerRel f c ((m'.filter fun p => f p.2).map (·.1))

/-- overlay Search(fn): `m.names` in order, each layer's result tagged with the layer name -/
inductive SearchRel (f : Scalar → Bool) : Overlay → List (String × String) → Prop
  | nil : SearchRel f [] []
  | cons {n : String} {c : AMap Node} {rest : Overlay} {paths : List String} {r : List (String × String)} :
      SearchLayerRel f c paths → SearchRel f rest r →
      SearchRel f ((n, c) :: rest) (paths.map (fun path => (n, path)) ++ r)

theorem mem_ofList_of_functional {α : Type} {L : List (String × α)}
    (hf : ∀ x ∈ L, ∀ y ∈ L, x.1 = y.1 → x.2 = y.2) (x : String × α) : x ∈ AMap.ofList L ↔ x ∈ L := by
  unfold AMap.ofList
  constructor
  · intro h
    rcases mem_foldl_insert _ _ x h with h | h
    · cases h
    · exact h
  · intro h
    exact AMap.mem_of_get? (get?_foldl_insert_mem _ [] x.1 x.2 hf h)

/-- with functional paths the flattened Go map does not depend on the traversal order -/
theorem ofList_enum_eq {c : AMap Node} (hf : PathsFunctional c) {ws : List (String × Scalar)}
    (h : EnumNode (.cont c) "" ws) : AMap.ofList ws = flattenMap c := by
  have hp : ws.Perm (flatten c) := by
    have := enumNode_perm h
    simp only [flattenNode] at this
    exact this
  have hf' : ∀ x ∈ ws, ∀ y ∈ ws, x.1 = y.1 → x.2 = y.2 :=
    fun x hx y hy => hf x (hp.mem_iff.mp hx) y (hp.mem_iff.mp hy)
  apply AMap.ext_of_sorted (AMap.sorted_ofList _) (AMap.sorted_ofList _)
  intro k
  have key : ∀ v, AMap.get? (AMap.ofList ws) k = some v ↔ AMap.get? (AMap.ofList (flatten c)) k = some v := by
    intro v
    constructor
    · intro hg
      have h1 := (mem_ofList_of_functional hf' (k, v)).mp (AMap.mem_of_get? hg)
      have h2 := (mem_ofList_of_functional hf (k, v)).mpr (hp.mem_iff.mp h1)
      exact AMap.get?_of_mem (AMap.sorted_ofList _) h2
    · intro hg
      have h1 := (mem_ofList_of_functional hf (k, v)).mp (AMap.mem_of_get? hg)
      have h2 := (mem_ofList_of_functional hf' (k, v)).mpr (hp.mem_iff.mpr h1)
      exact AMap.get?_of_mem (AMap.sorted_ofList _) h2
  cases h1 : AMap.get? (AMap.ofList ws) k with
  | some v => exact ((key v).mp h1).symm
  | none =>
    cases h2 : AMap.get? (AMap.ofList (flatten c)) k with
    | none => rfl
    | some v => rw [(key v).mpr h2] at h1; cases h1

theorem searchLayerRel_perm {f : Scalar → Bool} {c : AMap Node} (hf : PathsFunctional c) {out : List String}
    (h : SearchLayerRel f c out) : out.Perm (Ytk.search f c) := by
  cases h with
  | mk he hp =>
    rw [ofList_enum_eq hf he] at hp
    exact (hp.filter _).map _

theorem searchLayerRel_self (f : Scalar → Bool) (c : AMap Node) : SearchLayerRel f c (Ytk.search f c) := by
  have he : EnumNode (.cont c) "" (flatten c) := by
    have := enumNode_self (.cont c) ""
    simp only [flattenNode] at this
    exact this
  exact SearchLayerRel.mk (f := f) he (List.Perm.refl _)

/-- a layer's tagged search result, as in `search_spec` -/
def layerHits (f : Scalar → Bool) (q : String × AMap Node) : List (String × String) :=
  (Ytk.search f q.2).map fun path => (q.1, path)

theorem search_eq_flatMap (f : Scalar → Bool) (s : Overlay) : search f s = s.flatMap (layerHits f) := rfl

theorem searchRel_layerwise {f : Scalar → Bool} {s : Overlay} {out : List (String × String)}
    (hf : ∀ q ∈ s, PathsFunctional q.2) (h : SearchRel f s out) : LayerwisePerm (layerHits f) s out := by
  induction h with
  | nil => exact .nil
  | @cons n c rest paths r h1 _ ih =>
    refine .cons ?_ (ih (fun q hq => hf q (List.mem_cons_of_mem _ hq)))
    exact (searchLayerRel_perm (hf (n, c) (List.mem_cons_self ..)) h1).map _

theorem searchRel_self (f : Scalar → Bool) : ∀ (s : Overlay), SearchRel f s (search f s)
  | [] => .nil
  | (n, c) :: rest => by
    simp only [search, List.flatMap_cons]
    exact .cons (searchLayerRel_self f c) (searchRel_self f rest)

end Overlay
end Ytk
