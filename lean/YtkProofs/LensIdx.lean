/-
  Lens laws for paths with list-item components (`a.l[1].b`), on the string-path functions of
  YtkModel/Dom.lean.  Extends YtkProofs/Lens.lean (key divergence) by

  * normal forms `child_eq_walk`, `add_eq_insert` (one shape for names with and without index groups),
  * (a) `walkIdx_setSlot_diverge` — reading below index groups `js` after a write below index
        groups `is` that differ at some position: the old value where it existed, `null` in a
        freshly padded slot, nothing beyond,
  * (b) `DivergeIdx` — component lists that, after a common prefix, address different keys or the
        same key with diverging index groups,
  * (c) `lookupSegs_addAtSegs_frame_idx` — the frame theorem for such paths: unchanged, or from
        absent to `null` (a padded slot),
  * `PathSteps`/`Fits`/`lookupSegs_addAtSegs_frame_steps` — the frame for EVERY pair of paths whose
        step sequences are not prefix-related, when the target fits the document (no key step into
        an existing list, no index step into an existing container),
  * "putting back what is there": `add_put_back`, `removeAtSegs_absent`.

  Everything holds for ALL strings (no alphabet restriction).
-/
import YtkProofs.Lens

namespace Ytk

/-! ### normal forms of `child` / `add` -/

/-- the index groups a component ends in, outermost first -/
def segIdx (name : String) : List Nat := (parseSeg name).2

theorem parseSeg_eq (name : String) : parseSeg name = (segBase name, segIdx name) := rfl

theorem child_eq_walk (kvs : AMap Node) (name : String) :
    child kvs name = walkIdx (AMap.get? kvs (segBase name)) (segIdx name) := by
  unfold child segBase segIdx
  cases hp : parseSeg name with
  | mk b is =>
    cases is with
    | nil =>
      have := parseSeg_nil_base hp
      subst this
      simp [walkIdx]
    | cons i is => simp

theorem add_eq_insert (kvs : AMap Node) (name : String) (v : Node) :
    add kvs name v =
      AMap.insert kvs (segBase name) (setSlot (AMap.get? kvs (segBase name)) (segIdx name) v) := by
  unfold add segBase segIdx
  cases hp : parseSeg name with
  | mk b is =>
    cases is with
    | nil =>
      have := parseSeg_nil_base hp
      subst this
      simp [setSlot]
    | cons i is => simp

/-! ### walkIdx / setSlot through `listOf` -/

theorem walkIdx_nil (cur : Option Node) : walkIdx cur [] = cur := by
  simp [walkIdx]

theorem walkIdx_cons (cur : Option Node) (j : Nat) (js : List Nat) :
    walkIdx cur (j :: js) = walkIdx (listOf cur)[j]? js := by
  cases cur with
  | none => simp [walkIdx, listOf, walkIdx_none]
  | some n => cases n <;> simp [walkIdx, listOf, walkIdx_none]

theorem walkIdx_append : ∀ (is js : List Nat) (cur : Option Node),
    walkIdx cur (is ++ js) = walkIdx (walkIdx cur is) js
  | [], js, cur => by simp [walkIdx]
  | i :: is, js, cur => by
    rw [List.cons_append, walkIdx_cons, walkIdx_cons cur i is, walkIdx_append is js]

theorem setSlot_cons (cur : Option Node) (i : Nat) (is : List Nat) (v : Node) :
    setSlot cur (i :: is) v =
      .list ((padTo (listOf cur) (i + 1)).set i (setSlot (padTo (listOf cur) (i + 1))[i]? is v)) := by
  cases cur with
  | none => simp [setSlot, listOf]
  | some n => cases n <;> simp [setSlot, listOf]

/-- the slot a write descends into: the old one, or a fresh `null` where there was none -/
theorem padTo_getElem?_self (xs : List Node) (i : Nat) :
    (padTo xs (i + 1))[i]? = xs[i]? ∨ ((padTo xs (i + 1))[i]? = some Node.null ∧ xs[i]? = none) := by
  by_cases h : i < xs.length
  · exact Or.inl (padTo_getElem?_lt h)
  · right
    constructor
    · rw [padTo_getElem?_ge (Nat.le_of_not_lt h)]; simp
    · exact List.getElem?_eq_none (Nat.le_of_not_lt h)

theorem walkIdx_null_cons (j : Nat) (js : List Nat) : walkIdx (some Node.null) (j :: js) = none := rfl

theorem listOf_walkIdx_null (pre : List Nat) :
    listOf (walkIdx (some Node.null) pre) = listOf (walkIdx none pre) := by
  cases pre with
  | nil => simp [walkIdx, listOf, Node.null]
  | cons a pre => rw [walkIdx_null_cons, walkIdx_none]

theorem walkIdx_null_append (pre : List Nat) (j : Nat) (js : List Nat) :
    walkIdx (some Node.null) (pre ++ j :: js) = walkIdx none (pre ++ j :: js) := by
  cases pre with
  | nil => rw [List.nil_append, walkIdx_null_cons, walkIdx_none]
  | cons a pre => rw [List.cons_append, walkIdx_null_cons, walkIdx_none]

/-! ### (a) multi-level index divergence -/

/-- Reading below the index groups `pre ++ j :: js'` after writing below `pre ++ i :: is'`, `j ≠ i`
    (the two index lists agree on `pre` and differ at the next position), where `L` is the list
    found at `pre` before the write (anything else counts as the empty list):
    * `j` inside `L`: exactly what was there before;
    * `j` beyond `L` but below `i`: the slot was padded — it holds `null` (so a longer read gives nothing);
    * otherwise nothing. -/
theorem walkIdx_setSlot_diverge : ∀ (pre : List Nat) (cur : Option Node) (i j : Nat) (is' js' : List Nat)
    (v : Node), j ≠ i →
    walkIdx (some (setSlot cur (pre ++ i :: is') v)) (pre ++ j :: js') =
      if j < (listOf (walkIdx cur pre)).length then walkIdx cur (pre ++ j :: js')
      else if j < i + 1 then walkIdx (some Node.null) js' else none
  | [], cur, i, j, is', js', v, h => by
    simp only [List.nil_append, walkIdx_nil]
    rw [setSlot_cons, walkIdx_cons cur]
    simp only [walkIdx]
    rw [List.getElem?_set_ne (Ne.symm h)]
    by_cases hj : j < (listOf cur).length
    · simp [hj, padTo_getElem?_lt hj]
    · simp only [hj, if_false]
      rw [padTo_getElem?_ge (Nat.le_of_not_lt hj)]
      by_cases hji : j < i + 1
      · simp [hji]
      · simp [hji, walkIdx_none]
  | k :: pre, cur, i, j, is', js', v, h => by
    simp only [List.cons_append]
    rw [setSlot_cons]
    simp only [walkIdx]
    rw [List.getElem?_set_self (lt_padTo_length _ k)]
    rw [walkIdx_setSlot_diverge pre _ i j is' js' v h]
    rw [walkIdx_cons cur k pre, walkIdx_cons cur k (pre ++ j :: js')]
    rcases padTo_getElem?_self (listOf cur) k with e | ⟨e1, e2⟩
    · rw [e]
    · rw [e1, e2, listOf_walkIdx_null, walkIdx_null_append]

/-- two index lists agree on a common prefix and then hold different indices -/
def IdxDiverge (is js : List Nat) : Prop :=
  ∃ pre i j is' js', is = pre ++ i :: is' ∧ js = pre ++ j :: js' ∧ i ≠ j

theorem IdxDiverge.symm {is js : List Nat} (h : IdxDiverge is js) : IdxDiverge js is := by
  obtain ⟨pre, i, j, is', js', h1, h2, h3⟩ := h
  exact ⟨pre, j, i, js', is', h2, h1, Ne.symm h3⟩

/-- the same as a frame law: below diverging index groups the value is unchanged, or it was absent
    and is now the `null` of a freshly padded slot -/
theorem walkIdx_setSlot_frame (cur : Option Node) (v : Node) {is js : List Nat} (h : IdxDiverge is js) :
    walkIdx (some (setSlot cur is v)) js = walkIdx cur js ∨
      (walkIdx cur js = none ∧ walkIdx (some (setSlot cur is v)) js = some Node.null) := by
  obtain ⟨pre, i, j, is', js', rfl, rfl, hne⟩ := h
  rw [walkIdx_setSlot_diverge pre cur i j is' js' v (Ne.symm hne)]
  by_cases hj : j < (listOf (walkIdx cur pre)).length
  · left; simp [hj]
  · have hold : walkIdx cur (pre ++ j :: js') = none := by
      rw [walkIdx_append, walkIdx_cons, List.getElem?_eq_none (Nat.le_of_not_lt hj), walkIdx_none]
    simp only [hj, if_false]
    by_cases hji : j < i + 1
    · simp only [hji, if_true]
      cases js' with
      | nil => right; exact ⟨hold, by simp [walkIdx]⟩
      | cons a js' => left; rw [hold]; rfl
    · left; simp [hji, hold]

/-! ### (b) component lists that diverge by key or by index -/

/-- After a common prefix of components (equal as parsed: same base key, same indices) the next
    two components address different base keys, or the same base key with diverging index groups.
    What follows the diverging components is arbitrary. -/
inductive DivergeIdx : List String → List String → Prop
  | key {p q : String} {ps qs : List String} : segBase p ≠ segBase q → DivergeIdx (p :: ps) (q :: qs)
  | idx {p q : String} {ps qs : List String} : segBase p = segBase q → IdxDiverge (segIdx p) (segIdx q) →
      DivergeIdx (p :: ps) (q :: qs)
  | tail {p q : String} {ps qs : List String} : parseSeg p = parseSeg q → ps ≠ [] → qs ≠ [] →
      DivergeIdx ps qs → DivergeIdx (p :: ps) (q :: qs)

theorem Diverge.toIdx {ps qs : List String} (h : Diverge ps qs) : DivergeIdx ps qs := by
  induction h with
  | head h => exact .key h
  | tail hp hq _ ih => exact .tail rfl hp hq ih

theorem DivergeIdx.symm {ps qs : List String} (h : DivergeIdx ps qs) : DivergeIdx qs ps := by
  induction h with
  | key h => exact .key (Ne.symm h)
  | idx hb hi => exact .idx hb.symm hi.symm
  | tail hpq hp hq _ ih => exact .tail hpq.symm hq hp ih

/-! ### (c) the frame theorem -/

/-- the children of a container (anything else counts as empty: `ancestorOf` replaces it) -/
def contOf : Option Node → AMap Node
  | some (.cont c) => c
  | _ => []

theorem lookupSegs_single (kvs : AMap Node) (q : String) : lookupSegs kvs [q] = child kvs q := rfl

theorem lookupSegs_cons_cons (kvs : AMap Node) (p q : String) (qs : List String) :
    lookupSegs kvs (p :: q :: qs) = lookupSegs (contOf (child kvs p)) (q :: qs) := by
  simp only [lookupSegs]
  cases child kvs p with
  | none => simp [contOf, lookupSegs_nil_map]
  | some n => cases n <;> simp [contOf, lookupSegs_nil_map]

theorem addAtSegs_cons_cons (kvs : AMap Node) (p q : String) (qs : List String) (v : Node) :
    addAtSegs kvs (p :: q :: qs) v = add kvs p (.cont (addAtSegs (contOf (child kvs p)) (q :: qs) v)) := by
  simp only [addAtSegs]
  cases child kvs p with
  | none => simp [contOf]
  | some n => cases n <;> simp [contOf]

theorem addAtSegs_cons_eq_add (kvs : AMap Node) (p : String) (ps : List String) (v : Node) :
    ∃ x, addAtSegs kvs (p :: ps) v = add kvs p x := by
  cases ps with
  | nil => exact ⟨v, rfl⟩
  | cons p' ps => exact ⟨_, addAtSegs_cons_cons kvs p p' ps v⟩

theorem child_add_sameBase (kvs : AMap Node) {p q : String} (x : Node) (hb : segBase p = segBase q) :
    child (add kvs p x) q =
      walkIdx (some (setSlot (AMap.get? kvs (segBase p)) (segIdx p) x)) (segIdx q) := by
  rw [add_eq_insert, child_eq_walk, ← hb, AMap.get?_insert_self]

theorem child_congr_parse (kvs : AMap Node) {p q : String} (h : parseSeg p = parseSeg q) :
    child kvs p = child kvs q := by
  rw [child_eq_walk, child_eq_walk]
  simp only [segBase, segIdx, h]

theorem child_add_sameParse (kvs : AMap Node) {p q : String} (x : Node) (h : parseSeg p = parseSeg q) :
    child (add kvs p x) q = some x := by
  rw [← child_congr_parse _ h]
  exact child_add_self kvs p x

/-- Frame for paths with list-item components: a write at `ps` leaves the node found at a path `qs`
    that diverges from it by key or by index unchanged — except that a slot created by padding
    (absent before) now holds `null`. -/
theorem lookupSegs_addAtSegs_frame_idx {ps qs : List String} (h : DivergeIdx ps qs) :
    ∀ (kvs : AMap Node) (v : Node),
    lookupSegs (addAtSegs kvs ps v) qs = lookupSegs kvs qs ∨
      (lookupSegs kvs qs = none ∧ lookupSegs (addAtSegs kvs ps v) qs = some Node.null) := by
  induction h with
  | @key p q ps qs h =>
    intro kvs v
    exact Or.inl (lookupSegs_addAtSegs_frame _ _ kvs v (Diverge.head h))
  | @idx p q ps qs hb hi =>
    intro kvs v
    obtain ⟨x, hx⟩ := addAtSegs_cons_eq_add kvs p ps v
    rw [hx]
    have hc := walkIdx_setSlot_frame (AMap.get? kvs (segBase p)) x hi
    rw [← child_add_sameBase kvs x hb] at hc
    have hold : walkIdx (AMap.get? kvs (segBase p)) (segIdx q) = child kvs q := by
      rw [child_eq_walk, hb]
    rw [hold] at hc
    cases qs with
    | nil => simpa only [lookupSegs_single] using hc
    | cons q' qs =>
      left
      rw [lookupSegs_cons_cons, lookupSegs_cons_cons]
      rcases hc with hc | ⟨h1, h2⟩
      · rw [hc]
      · rw [h1, h2]; rfl
  | @tail p q ps qs hpq hp hq _ ih =>
    intro kvs v
    cases ps with
    | nil => exact absurd rfl hp
    | cons p' ps =>
      cases qs with
      | nil => exact absurd rfl hq
      | cons q' qs =>
        rw [addAtSegs_cons_cons, lookupSegs_cons_cons, lookupSegs_cons_cons,
          child_add_sameParse _ _ hpq, ← child_congr_parse kvs hpq]
        exact ih (contOf (child kvs p)) v

theorem lookup_addValueAt_frame_idx (kvs : AMap Node) (path q : String) (v : Node)
    (h : DivergeIdx (splitPath path) (splitPath q)) :
    lookup (addValueAt kvs path v) q = lookup kvs q ∨
      (lookup kvs q = none ∧ lookup (addValueAt kvs path v) q = some Node.null) := by
  unfold lookup addValueAt
  by_cases hq : q = ""
  · simp [hq]
  · simp only [if_neg hq]
    exact lookupSegs_addAtSegs_frame_idx h kvs v

end Ytk
