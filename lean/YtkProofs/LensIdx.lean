/-
  Lens laws for paths with list-item components (`a.l[1].b`), on the string-path functions of
  YtkModel/Dom.lean.  Extends YtkProofs/Lens.lean (key divergence) by

  * normal forms `child_eq_walk`, `add_eq_insert` (one shape for names with and without index groups),
  * (a) `walkIdx_setSlot_diverge` — reading below index groups `js` after a write below index
        groups `is` that differ at some position: the old value where it existed, `null` in a
        freshly padded slot, nothing beyond,
  * (b) `DivergeIdx` — component lists that, after a common prefix, address different keys or the
        same key with diverging index groups,
  * (c) `lookupSegs_addAtSegs_frame_idx` — the frame theorem for such paths: unchanged, or from
        absent to `null` (a padded slot),
  * `PathSteps`/`Fits`/`lookupSegs_addAtSegs_frame_steps` — the frame for EVERY pair of paths whose
        step sequences are not prefix-related, when the target fits the document (no key step into
        an existing list, no index step into an existing container),
  * "putting back what is there": `add_put_back`, `removeAtSegs_absent`.

  Everything holds for ALL strings (no alphabet restriction).
-/
import YtkProofs.Lens

namespace Ytk

/-! ### normal forms of `child` / `add` -/

/-- the index groups a component ends in, outermost first -/
def segIdx (name : String) : List Nat := (parseSeg name).2

theorem parseSeg_eq (name : String) : parseSeg name = (segBase name, segIdx name) := rfl

theorem child_eq_walk (kvs : AMap Node) (name : String) :
    child kvs name = walkIdx (AMap.get? kvs (segBase name)) (segIdx name) := by
  unfold child segBase segIdx
  cases hp : parseSeg name with
  | mk b is =>
    cases is with
    | nil =>
      have := parseSeg_nil_base hp
      subst this
      simp [walkIdx]
    | cons i is => simp

theorem add_eq_insert (kvs : AMap Node) (name : String) (v : Node) :
    add kvs name v =
      AMap.insert kvs (segBase name) (setSlot (AMap.get? kvs (segBase name)) (segIdx name) v) := by
  unfold add segBase segIdx
  cases hp : parseSeg name with
  | mk b is =>
    cases is with
    | nil =>
      have := parseSeg_nil_base hp
      subst this
      simp [setSlot]
    | cons i is => simp

/-! ### walkIdx / setSlot through `listOf` -/

theorem walkIdx_nil (cur : Option Node) : walkIdx cur [] = cur := by
  simp [walkIdx]

theorem walkIdx_cons_listOf (cur : Option Node) (j : Nat) (js : List Nat) :
    walkIdx cur (j :: js) = walkIdx (listOf cur)[j]? js := by
  cases cur with
  | none => simp [walkIdx, listOf, walkIdx_none]
  | some n => cases n <;> simp [walkIdx, listOf, walkIdx_none]

theorem walkIdx_append : ∀ (is js : List Nat) (cur : Option Node),
    walkIdx cur (is ++ js) = walkIdx (walkIdx cur is) js
  | [], js, cur => by simp [walkIdx]
  | i :: is, js, cur => by
    rw [List.cons_append, walkIdx_cons_listOf, walkIdx_cons_listOf cur i is, walkIdx_append is js]

theorem setSlot_cons (cur : Option Node) (i : Nat) (is : List Nat) (v : Node) :
    setSlot cur (i :: is) v =
      .list ((padTo (listOf cur) (i + 1)).set i (setSlot (padTo (listOf cur) (i + 1))[i]? is v)) := by
  cases cur with
  | none => simp [setSlot, listOf]
  | some n => cases n <;> simp [setSlot, listOf]

/-- the slot a write descends into: the old one, or a fresh `null` where there was none -/
theorem padTo_getElem?_self (xs : List Node) (i : Nat) :
    (padTo xs (i + 1))[i]? = xs[i]? ∨ ((padTo xs (i + 1))[i]? = some Node.null ∧ xs[i]? = none) := by
  by_cases h : i < xs.length
  · exact Or.inl (padTo_getElem?_lt h)
  · right
    constructor
    · rw [padTo_getElem?_ge (Nat.le_of_not_lt h)]; simp
    · exact List.getElem?_eq_none (Nat.le_of_not_lt h)

theorem walkIdx_null_cons (j : Nat) (js : List Nat) : walkIdx (some Node.null) (j :: js) = none := rfl

theorem listOf_walkIdx_null (pre : List Nat) :
    listOf (walkIdx (some Node.null) pre) = listOf (walkIdx none pre) := by
  cases pre with
  | nil => simp [walkIdx, listOf, Node.null]
  | cons a pre => rw [walkIdx_null_cons, walkIdx_none]

theorem walkIdx_null_append (pre : List Nat) (j : Nat) (js : List Nat) :
    walkIdx (some Node.null) (pre ++ j :: js) = walkIdx none (pre ++ j :: js) := by
  cases pre with
  | nil => rw [List.nil_append, walkIdx_null_cons, walkIdx_none]
  | cons a pre => rw [List.cons_append, walkIdx_null_cons, walkIdx_none]

/-! ### (a) multi-level index divergence -/

/-- Reading below the index groups `pre ++ j :: js'` after writing below `pre ++ i :: is'`, `j ≠ i`
    (the two index lists agree on `pre` and differ at the next position), where `L` is the list
    found at `pre` before the write (anything else counts as the empty list):
    * `j` inside `L`: exactly what was there before;
    * `j` beyond `L` but below `i`: the slot was padded — it holds `null` (so a longer read gives nothing);
    * otherwise nothing. -/
theorem walkIdx_setSlot_diverge : ∀ (pre : List Nat) (cur : Option Node) (i j : Nat) (is' js' : List Nat)
    (v : Node), j ≠ i →
    walkIdx (some (setSlot cur (pre ++ i :: is') v)) (pre ++ j :: js') =
      if j < (listOf (walkIdx cur pre)).length then walkIdx cur (pre ++ j :: js')
      else if j < i + 1 then walkIdx (some Node.null) js' else none
  | [], cur, i, j, is', js', v, h => by
    simp only [List.nil_append, walkIdx_nil]
    rw [setSlot_cons, walkIdx_cons_listOf cur]
    simp only [walkIdx]
    rw [List.getElem?_set_ne (Ne.symm h)]
    by_cases hj : j < (listOf cur).length
    · simp [hj, padTo_getElem?_lt hj]
    · simp only [hj, if_false]
      rw [padTo_getElem?_ge (Nat.le_of_not_lt hj)]
      by_cases hji : j < i + 1
      · simp [hji]
      · simp [hji, walkIdx_none]
  | k :: pre, cur, i, j, is', js', v, h => by
    simp only [List.cons_append]
    rw [setSlot_cons]
    simp only [walkIdx]
    rw [List.getElem?_set_self (lt_padTo_length _ k)]
    rw [walkIdx_setSlot_diverge pre _ i j is' js' v h]
    rw [walkIdx_cons_listOf cur k pre, walkIdx_cons_listOf cur k (pre ++ j :: js')]
    rcases padTo_getElem?_self (listOf cur) k with e | ⟨e1, e2⟩
    · rw [e]
    · rw [e1, e2, listOf_walkIdx_null, walkIdx_null_append]

/-- two index lists agree on a common prefix and then hold different indices -/
def IdxDiverge (is js : List Nat) : Prop :=
  ∃ pre i j is' js', is = pre ++ i :: is' ∧ js = pre ++ j :: js' ∧ i ≠ j

theorem IdxDiverge.symm {is js : List Nat} (h : IdxDiverge is js) : IdxDiverge js is := by
  obtain ⟨pre, i, j, is', js', h1, h2, h3⟩ := h
  exact ⟨pre, j, i, js', is', h2, h1, Ne.symm h3⟩

/-- the same as a frame law: below diverging index groups the value is unchanged, or it was absent
    and is now the `null` of a freshly padded slot -/
theorem walkIdx_setSlot_frame (cur : Option Node) (v : Node) {is js : List Nat} (h : IdxDiverge is js) :
    walkIdx (some (setSlot cur is v)) js = walkIdx cur js ∨
      (walkIdx cur js = none ∧ walkIdx (some (setSlot cur is v)) js = some Node.null) := by
  obtain ⟨pre, i, j, is', js', rfl, rfl, hne⟩ := h
  rw [walkIdx_setSlot_diverge pre cur i j is' js' v (Ne.symm hne)]
  by_cases hj : j < (listOf (walkIdx cur pre)).length
  · left; simp [hj]
  · have hold : walkIdx cur (pre ++ j :: js') = none := by
      rw [walkIdx_append, walkIdx_cons_listOf, List.getElem?_eq_none (Nat.le_of_not_lt hj), walkIdx_none]
    simp only [hj, if_false]
    by_cases hji : j < i + 1
    · simp only [hji, if_true]
      cases js' with
      | nil => right; exact ⟨hold, by simp [walkIdx]⟩
      | cons a js' => left; rw [hold]; rfl
    · left; simp [hji, hold]

/-! ### (b) component lists that diverge by key or by index -/

/-- After a common prefix of components (equal as parsed: same base key, same indices) the next
    two components address different base keys, or the same base key with diverging index groups.
    What follows the diverging components is arbitrary. -/
inductive DivergeIdx : List String → List String → Prop
  | key {p q : String} {ps qs : List String} : segBase p ≠ segBase q → DivergeIdx (p :: ps) (q :: qs)
  | idx {p q : String} {ps qs : List String} : segBase p = segBase q → IdxDiverge (segIdx p) (segIdx q) →
      DivergeIdx (p :: ps) (q :: qs)
  | tail {p q : String} {ps qs : List String} : parseSeg p = parseSeg q → ps ≠ [] → qs ≠ [] →
      DivergeIdx ps qs → DivergeIdx (p :: ps) (q :: qs)

theorem Diverge.toIdx {ps qs : List String} (h : Diverge ps qs) : DivergeIdx ps qs := by
  induction h with
  | head h => exact .key h
  | tail hp hq _ ih => exact .tail rfl hp hq ih

theorem DivergeIdx.symm {ps qs : List String} (h : DivergeIdx ps qs) : DivergeIdx qs ps := by
  induction h with
  | key h => exact .key (Ne.symm h)
  | idx hb hi => exact .idx hb.symm hi.symm
  | tail hpq hp hq _ ih => exact .tail hpq.symm hq hp ih

/-! ### (c) the frame theorem -/

/-- the children of a container (anything else counts as empty: `ancestorOf` replaces it) -/
def kidsOf : Option Node → AMap Node
  | some (.cont c) => c
  | _ => []

theorem lookupSegs_single (kvs : AMap Node) (q : String) : lookupSegs kvs [q] = child kvs q := rfl

theorem lookupSegs_cons_cons (kvs : AMap Node) (p q : String) (qs : List String) :
    lookupSegs kvs (p :: q :: qs) = lookupSegs (kidsOf (child kvs p)) (q :: qs) := by
  simp only [lookupSegs]
  cases child kvs p with
  | none => simp [kidsOf, lookupSegs_nil_map]
  | some n => cases n <;> simp [kidsOf, lookupSegs_nil_map]

theorem addAtSegs_cons_cons (kvs : AMap Node) (p q : String) (qs : List String) (v : Node) :
    addAtSegs kvs (p :: q :: qs) v = add kvs p (.cont (addAtSegs (kidsOf (child kvs p)) (q :: qs) v)) := by
  simp only [addAtSegs]
  cases child kvs p with
  | none => simp [kidsOf]
  | some n => cases n <;> simp [kidsOf]

theorem addAtSegs_cons_eq_add (kvs : AMap Node) (p : String) (ps : List String) (v : Node) :
    ∃ x, addAtSegs kvs (p :: ps) v = add kvs p x := by
  cases ps with
  | nil => exact ⟨v, rfl⟩
  | cons p' ps => exact ⟨_, addAtSegs_cons_cons kvs p p' ps v⟩

theorem child_add_sameBase (kvs : AMap Node) {p q : String} (x : Node) (hb : segBase p = segBase q) :
    child (add kvs p x) q =
      walkIdx (some (setSlot (AMap.get? kvs (segBase p)) (segIdx p) x)) (segIdx q) := by
  rw [add_eq_insert, child_eq_walk, ← hb, AMap.get?_insert_self]

theorem child_congr_parse (kvs : AMap Node) {p q : String} (h : parseSeg p = parseSeg q) :
    child kvs p = child kvs q := by
  rw [child_eq_walk, child_eq_walk]
  simp only [segBase, segIdx, h]

theorem child_add_sameParse (kvs : AMap Node) {p q : String} (x : Node) (h : parseSeg p = parseSeg q) :
    child (add kvs p x) q = some x := by
  rw [← child_congr_parse _ h]
  exact child_add_self kvs p x

/-- Frame for paths with list-item components: a write at `ps` leaves the node found at a path `qs`
    that diverges from it by key or by index unchanged — except that a slot created by padding
    (absent before) now holds `null`. -/
theorem lookupSegs_addAtSegs_frame_idx {ps qs : List String} (h : DivergeIdx ps qs) :
    ∀ (kvs : AMap Node) (v : Node),
    lookupSegs (addAtSegs kvs ps v) qs = lookupSegs kvs qs ∨
      (lookupSegs kvs qs = none ∧ lookupSegs (addAtSegs kvs ps v) qs = some Node.null) := by
  induction h with
  | @key p q ps qs h =>
    intro kvs v
    exact Or.inl (lookupSegs_addAtSegs_frame _ _ kvs v (Diverge.head h))
  | @idx p q ps qs hb hi =>
    intro kvs v
    obtain ⟨x, hx⟩ := addAtSegs_cons_eq_add kvs p ps v
    rw [hx]
    have hc := walkIdx_setSlot_frame (AMap.get? kvs (segBase p)) x hi
    rw [← child_add_sameBase kvs x hb] at hc
    have hold : walkIdx (AMap.get? kvs (segBase p)) (segIdx q) = child kvs q := by
      rw [child_eq_walk, hb]
    rw [hold] at hc
    cases qs with
    | nil => simpa only [lookupSegs_single] using hc
    | cons q' qs =>
      left
      rw [lookupSegs_cons_cons, lookupSegs_cons_cons]
      rcases hc with hc | ⟨h1, h2⟩
      · rw [hc]
      · rw [h1, h2]; rfl
  | @tail p q ps qs hpq hp hq _ ih =>
    intro kvs v
    cases ps with
    | nil => exact absurd rfl hp
    | cons p' ps =>
      cases qs with
      | nil => exact absurd rfl hq
      | cons q' qs =>
        rw [addAtSegs_cons_cons, lookupSegs_cons_cons, lookupSegs_cons_cons,
          child_add_sameParse _ _ hpq, ← child_congr_parse kvs hpq]
        exact ih (kidsOf (child kvs p)) v

theorem lookup_addValueAt_frame_idx (kvs : AMap Node) (path q : String) (v : Node)
    (h : DivergeIdx (splitPath path) (splitPath q)) :
    lookup (addValueAt kvs path v) q = lookup kvs q ∨
      (lookup kvs q = none ∧ lookup (addValueAt kvs path v) q = some Node.null) := by
  unfold lookup addValueAt
  by_cases hq : q = ""
  · simp [hq]
  · simp only [if_neg hq]
    exact lookupSegs_addAtSegs_frame_idx h kvs v

/-! ### every pair of paths that are not prefix-related -/

/-- one step of a path: into a container by key, or into a list by index -/
inductive Step
  | key (k : String)
  | idx (i : Nat)
  deriving DecidableEq, Repr

/-- the steps of one dotted component: its base key, then its index groups -/
def segSteps (s : String) : List Step := .key (segBase s) :: (segIdx s).map .idx

/-- the steps of a component list -/
def pathSteps : List String → List Step
  | [] => []
  | s :: r => segSteps s ++ pathSteps r

/-- the index groups `is` walked from `cur` never step into a container -/
def IdxFits : Option Node → List Nat → Prop
  | _, [] => True
  | some (.cont _), _ :: _ => False
  | some (.list xs), i :: is => IdxFits xs[i]? is
  | _, _ :: _ => True

/-- The target path fits the document: on the way to the target no index step lands on an existing
    container and no key step lands on an existing list (such a node would be REPLACED by the
    write, together with everything below it).  Existing leaves and absent nodes always fit. -/
def Fits (kvs : AMap Node) : List String → Prop
  | [] => True
  | [p] => IdxFits (AMap.get? kvs (segBase p)) (segIdx p)
  | p :: rest => IdxFits (AMap.get? kvs (segBase p)) (segIdx p) ∧ (∀ xs, child kvs p ≠ some (.list xs)) ∧
      Fits (kidsOf (child kvs p)) rest

theorem Fits.head {kvs : AMap Node} {p : String} {ps : List String} (h : Fits kvs (p :: ps)) :
    IdxFits (AMap.get? kvs (segBase p)) (segIdx p) := by
  cases ps with
  | nil => exact h
  | cons p' ps => exact h.1

/-- an index walk that fits and continues never stands on a container -/
theorem IdxFits.not_cont : ∀ (pre : List Nat) (cur : Option Node) (i : Nat) (rest : List Nat),
    IdxFits cur (pre ++ i :: rest) → ∀ c, walkIdx cur pre ≠ some (.cont c)
  | [], cur, i, rest, h, c => by
    intro e
    rw [walkIdx_nil] at e
    subst e
    exact h
  | k :: pre, cur, i, rest, h, c => by
    cases cur with
    | none => simp [walkIdx_none]
    | some n =>
      cases n with
      | leaf _ => simp [walkIdx]
      | cont _ => exact absurd h (by simp [IdxFits])
      | list xs =>
        simp only [walkIdx]
        exact IdxFits.not_cont pre _ i rest (by simpa [IdxFits] using h) c

/-- walking the common prefix after a write reaches the rest of the write -/
theorem walkIdx_setSlot_prefix : ∀ (pre : List Nat) (cur : Option Node) (rest : List Nat) (v : Node),
    ∃ c', walkIdx (some (setSlot cur (pre ++ rest) v)) pre = some (setSlot c' rest v)
  | [], cur, rest, v => ⟨cur, by simp [walkIdx]⟩
  | k :: pre, cur, rest, v => by
    simp only [List.cons_append]
    rw [setSlot_cons]
    simp only [walkIdx]
    rw [List.getElem?_set_self (lt_padTo_length _ k)]
    exact walkIdx_setSlot_prefix pre _ rest v

theorem lookupSegs_of_kidsOf_nil {kvs : AMap Node} {q : String} (h : kidsOf (child kvs q) = [])
    (q' : String) (qs : List String) : lookupSegs kvs (q :: q' :: qs) = none := by
  rw [lookupSegs_cons_cons, h, lookupSegs_nil_map]

theorem lookupSegs_of_child_none {kvs : AMap Node} {q : String} (h : child kvs q = none)
    (qs : List String) : lookupSegs kvs (q :: qs) = none := by
  cases qs with
  | nil => exact h
  | cons q' qs => exact lookupSegs_of_kidsOf_nil (by rw [h]; rfl) q' qs

/-- Two component lists whose step sequences are not prefix-related, by the way they part:
    different keys, different indices, or a key step against an index step (`keyIdx`, `idxKey`). -/
inductive Unrelated : List String → List String → Prop
  | key {p q : String} {ps qs : List String} : segBase p ≠ segBase q → Unrelated (p :: ps) (q :: qs)
  | idx {p q : String} {ps qs : List String} : segBase p = segBase q → IdxDiverge (segIdx p) (segIdx q) →
      Unrelated (p :: ps) (q :: qs)
  | keyIdx {p q : String} {ps qs : List String} : segBase p = segBase q →
      (∃ j js, segIdx q = segIdx p ++ j :: js) → ps ≠ [] → Unrelated (p :: ps) (q :: qs)
  | idxKey {p q : String} {ps qs : List String} : segBase p = segBase q →
      (∃ i is, segIdx p = segIdx q ++ i :: is) → qs ≠ [] → Unrelated (p :: ps) (q :: qs)
  | tail {p q : String} {ps qs : List String} : parseSeg p = parseSeg q → ps ≠ [] → qs ≠ [] →
      Unrelated ps qs → Unrelated (p :: ps) (q :: qs)

theorem DivergeIdx.unrelated {ps qs : List String} (h : DivergeIdx ps qs) : Unrelated ps qs := by
  induction h with
  | key h => exact .key h
  | idx hb hi => exact .idx hb hi
  | tail hpq hp hq _ ih => exact .tail hpq hp hq ih

theorem idx_compare : ∀ (is js : List Nat),
    is = js ∨ IdxDiverge is js ∨ (∃ j js', js = is ++ j :: js') ∨ (∃ i is', is = js ++ i :: is')
  | [], [] => .inl rfl
  | [], j :: js => .inr (.inr (.inl ⟨j, js, rfl⟩))
  | i :: is, [] => .inr (.inr (.inr ⟨i, is, rfl⟩))
  | i :: is, j :: js => by
    by_cases h : i = j
    · subst h
      rcases idx_compare is js with h | ⟨pre, a, b, is', js', h1, h2, h3⟩ | ⟨b, js', h⟩ | ⟨a, is', h⟩
      · left; rw [h]
      · right; left; exact ⟨i :: pre, a, b, is', js', by simp [h1], by simp [h2], h3⟩
      · right; right; left; exact ⟨b, js', by simp [h]⟩
      · right; right; right; exact ⟨a, is', by simp [h]⟩
    · right; left; exact ⟨[], i, j, is, js, rfl, rfl, h⟩

theorem segSteps_congr {p q : String} (h : parseSeg p = parseSeg q) : segSteps p = segSteps q := by
  simp only [segSteps, segBase, segIdx, h]

/-- step sequences that are not prefix-related part in one of the five ways of `Unrelated` -/
theorem unrelated_of_steps : ∀ (ps qs : List String),
    ¬ pathSteps ps <+: pathSteps qs → ¬ pathSteps qs <+: pathSteps ps → Unrelated ps qs
  | [], _, h1, _ => absurd List.nil_prefix h1
  | _ :: _, [], _, h2 => absurd List.nil_prefix h2
  | p :: ps, q :: qs, h1, h2 => by
    by_cases hb : segBase p = segBase q
    · rcases idx_compare (segIdx p) (segIdx q) with he | hd | ⟨j, js, he⟩ | ⟨i, is, he⟩
      · have hpq : parseSeg p = parseSeg q := by rw [parseSeg_eq, parseSeg_eq, hb, he]
        have h1' : ¬ pathSteps ps <+: pathSteps qs := by
          intro h; apply h1
          simp only [pathSteps, segSteps_congr hpq]
          exact (List.prefix_append_right_inj _).mpr h
        have h2' : ¬ pathSteps qs <+: pathSteps ps := by
          intro h; apply h2
          simp only [pathSteps, segSteps_congr hpq]
          exact (List.prefix_append_right_inj _).mpr h
        have hp : ps ≠ [] := by rintro rfl; exact h1' List.nil_prefix
        have hq : qs ≠ [] := by rintro rfl; exact h2' List.nil_prefix
        exact .tail hpq hp hq (unrelated_of_steps ps qs h1' h2')
      · exact .idx hb hd
      · refine .keyIdx hb ⟨j, js, he⟩ ?_
        rintro rfl
        apply h1
        refine ⟨(j :: js).map Step.idx ++ pathSteps qs, ?_⟩
        simp [pathSteps, segSteps, hb, he]
      · refine .idxKey hb ⟨i, is, he⟩ ?_
        rintro rfl
        apply h2
        refine ⟨(i :: is).map Step.idx ++ pathSteps ps, ?_⟩
        simp [pathSteps, segSteps, hb, he]
    · exact .key hb

theorem IdxFits_none (is : List Nat) : IdxFits none is := by
  cases is <;> simp [IdxFits]

theorem Fits_nil_map : ∀ (segs : List String), Fits ([] : AMap Node) segs
  | [] => trivial
  | [p] => by simp only [Fits]; exact IdxFits_none _
  | p :: q :: r => by
    simp only [Fits]
    refine ⟨IdxFits_none _, ?_, ?_⟩
    · intro xs; rw [child_nil]; simp
    · rw [child_nil]; exact Fits_nil_map (q :: r)

/-- Frame, general form: a write at a target `ps` that fits the document leaves the node found at
    every path `qs` whose steps are not prefix-related to the target's unchanged — except that a
    slot created by padding (absent before) now holds `null`. -/
theorem lookupSegs_addAtSegs_frame_unrelated {ps qs : List String} (h : Unrelated ps qs) :
    ∀ (kvs : AMap Node) (v : Node), Fits kvs ps →
    lookupSegs (addAtSegs kvs ps v) qs = lookupSegs kvs qs ∨
      (lookupSegs kvs qs = none ∧ lookupSegs (addAtSegs kvs ps v) qs = some Node.null) := by
  induction h with
  | @key p q ps qs h => intro kvs v _; exact lookupSegs_addAtSegs_frame_idx (.key h) kvs v
  | @idx p q ps qs hb hi => intro kvs v _; exact lookupSegs_addAtSegs_frame_idx (.idx hb hi) kvs v
  | @keyIdx p q ps qs hb he hp =>
    intro kvs v hf
    obtain ⟨j, js, he⟩ := he
    cases ps with
    | nil => exact absurd rfl hp
    | cons p' ps =>
      left
      have hnl : ∀ xs, child kvs p ≠ some (.list xs) := hf.2.1
      have hold : child kvs q = none := by
        rw [child_eq_walk, ← hb, he, walkIdx_append, ← child_eq_walk, walkIdx_cons_listOf]
        have : listOf (child kvs p) = [] := by
          cases hc : child kvs p with
          | none => rfl
          | some n =>
            cases n with
            | list xs => exact absurd hc (hnl xs)
            | leaf _ => rfl
            | cont _ => rfl
        rw [this]
        simp [walkIdx_none]
      have hnew : child (addAtSegs kvs (p :: p' :: ps) v) q = none := by
        rw [addAtSegs_cons_cons, child_add_sameBase _ _ hb, he, walkIdx_append, walkIdx_setSlot_self]
        rfl
      rw [lookupSegs_of_child_none hold, lookupSegs_of_child_none hnew]
  | @idxKey p q ps qs hb he hq =>
    intro kvs v hf
    obtain ⟨i, is, he⟩ := he
    cases qs with
    | nil => exact absurd rfl hq
    | cons q' qs =>
      left
      obtain ⟨x, hx⟩ := addAtSegs_cons_eq_add kvs p ps v
      have hold : kidsOf (child kvs q) = [] := by
        have hnc := IdxFits.not_cont (segIdx q) _ i is (he ▸ hf.head)
        rw [child_eq_walk, ← hb]
        cases hc : walkIdx (AMap.get? kvs (segBase p)) (segIdx q) with
        | none => rfl
        | some n =>
          cases n with
          | cont c => exact absurd hc (hnc c)
          | leaf _ => rfl
          | list _ => rfl
      have hnew : kidsOf (child (addAtSegs kvs (p :: ps) v) q) = [] := by
        rw [hx, child_add_sameBase _ _ hb, he]
        obtain ⟨c', hc'⟩ := walkIdx_setSlot_prefix (segIdx q) (AMap.get? kvs (segBase p)) (i :: is) x
        rw [hc', setSlot_cons]
        rfl
      rw [lookupSegs_of_kidsOf_nil hold, lookupSegs_of_kidsOf_nil hnew]
  | @tail p q ps qs hpq hp hq _ ih =>
    intro kvs v hf
    cases ps with
    | nil => exact absurd rfl hp
    | cons p' ps =>
      cases qs with
      | nil => exact absurd rfl hq
      | cons q' qs =>
        rw [addAtSegs_cons_cons, lookupSegs_cons_cons, lookupSegs_cons_cons,
          child_add_sameParse _ _ hpq, ← child_congr_parse kvs hpq]
        exact ih (kidsOf (child kvs p)) v hf.2.2

theorem lookupSegs_addAtSegs_frame_steps (kvs : AMap Node) (ps qs : List String) (v : Node)
    (hf : Fits kvs ps) (h1 : ¬ pathSteps ps <+: pathSteps qs) (h2 : ¬ pathSteps qs <+: pathSteps ps) :
    lookupSegs (addAtSegs kvs ps v) qs = lookupSegs kvs qs ∨
      (lookupSegs kvs qs = none ∧ lookupSegs (addAtSegs kvs ps v) qs = some Node.null) :=
  lookupSegs_addAtSegs_frame_unrelated (unrelated_of_steps ps qs h1 h2) kvs v hf

theorem lookup_addValueAt_frame_steps (kvs : AMap Node) (path q : String) (v : Node)
    (hf : Fits kvs (splitPath path))
    (h1 : ¬ pathSteps (splitPath path) <+: pathSteps (splitPath q))
    (h2 : ¬ pathSteps (splitPath q) <+: pathSteps (splitPath path)) :
    lookup (addValueAt kvs path v) q = lookup kvs q ∨
      (lookup kvs q = none ∧ lookup (addValueAt kvs path v) q = some Node.null) := by
  unfold lookup addValueAt
  by_cases hq : q = ""
  · simp [hq]
  · simp only [if_neg hq]
    exact lookupSegs_addAtSegs_frame_steps kvs _ _ v hf h1 h2

/-! ### putting back what is there -/

theorem insert_put_back {α : Type} {m : AMap α} (hs : AMap.Sorted m) {k : String} {a : α}
    (h : AMap.get? m k = some a) : AMap.insert m k a = m := by
  apply AMap.ext_of_sorted (AMap.sorted_insert hs k a) hs
  intro x
  by_cases hx : x = k
  · subst hx; rw [AMap.get?_insert_self, h]
  · rw [AMap.get?_insert_ne _ _ hx]

theorem padTo_eq_self {xs : List Node} {n : Nat} (h : n ≤ xs.length) : padTo xs n = xs := by
  simp [padTo, Nat.sub_eq_zero_of_le h]

/-- writing below index groups the value that is found there rebuilds the same node -/
theorem setSlot_put_back : ∀ (is : List Nat) (cur : Option Node) (v : Node), walkIdx cur is = some v →
    cur = some (setSlot cur is v)
  | [], cur, v, h => by rw [walkIdx_nil] at h; rw [h]; rfl
  | i :: is, cur, v, h => by
    cases cur with
    | none => simp [walkIdx_none] at h
    | some n =>
      cases n with
      | leaf _ => simp [walkIdx] at h
      | cont _ => simp [walkIdx] at h
      | list xs =>
        simp only [walkIdx] at h
        have hi : i < xs.length := by
          rcases Nat.lt_or_ge i xs.length with hlt | hge
          · exact hlt
          · rw [List.getElem?_eq_none hge, walkIdx_none] at h; cases h
        have ih := setSlot_put_back is xs[i]? v h
        rw [setSlot_cons]
        simp only [listOf, padTo_eq_self (Nat.succ_le_of_lt hi)]
        rw [List.getElem?_eq_getElem hi] at ih ⊢
        congr 2
        rw [← Option.some.inj ih]
        exact (List.set_getElem_self hi).symm

/-- `AddValue(name, Child(name))` changes nothing (sorted maps; every name) -/
theorem add_put_back {kvs : AMap Node} (hs : AMap.Sorted kvs) {name : String} {v : Node}
    (h : child kvs name = some v) : add kvs name v = kvs := by
  rw [child_eq_walk] at h
  rw [add_eq_insert]
  have hb := setSlot_put_back _ _ _ h
  exact insert_put_back hs hb

/-- in a valid container a name that `Child` does not resolve is not a literal key either -/
theorem get?_none_of_child_none' {kvs : AMap Node} (hv : (Node.cont kvs).Valid) {c : String}
    (h : child kvs c = none) : AMap.get? kvs c = none := by
  by_cases hs : hasIdxSuffix c = false
  · rwa [child_of_noSuffix kvs hs] at h
  · cases hg : AMap.get? kvs c with
    | none => rfl
    | some x =>
      exfalso
      obtain ⟨_, hk⟩ := hv
      cases hk with
      | cont hk1 _ => exact hs (hk1 _ (AMap.mem_of_get? hg))

/-- removing a path at which lookup finds nothing changes nothing (valid documents) -/
theorem removeAtSegs_absent : ∀ (segs : List String) (kvs : AMap Node), (Node.cont kvs).Valid →
    lookupSegs kvs segs = none → removeAtSegs kvs segs = kvs
  | [], _, _, _ => rfl
  | [s], kvs, hv, h => by
    simp only [removeAtSegs, remove]
    exact AMap.erase_of_get?_none (get?_none_of_child_none' hv h)
  | s :: t :: r, kvs, hv, h => by
    simp only [removeAtSegs]
    simp only [lookupSegs] at h
    cases hch : child kvs s with
    | none => rfl
    | some n =>
      cases n with
      | leaf _ => rfl
      | list _ => rfl
      | cont c =>
        rw [hch] at h
        simp only
        rw [removeAtSegs_absent (t :: r) c (child_valid hv hch) h]
        exact add_put_back hv.sorted hch

theorem removeAt_absent_of_ne (kvs : AMap Node) (path : String) (hv : (Node.cont kvs).Valid)
    (hp : path ≠ "") (h : lookup kvs path = none) : removeAt kvs path = kvs := by
  simp only [lookup, if_neg hp] at h
  exact removeAtSegs_absent _ kvs hv h

/-! ### Boolean checkers (for concrete instances) -/

def idxFitsB : Option Node → List Nat → Bool
  | _, [] => true
  | some (.cont _), _ :: _ => false
  | some (.list xs), i :: is => idxFitsB xs[i]? is
  | _, _ :: _ => true

theorem idxFitsB_sound : ∀ (is : List Nat) (cur : Option Node), idxFitsB cur is = true → IdxFits cur is
  | [], _, _ => by simp [IdxFits]
  | i :: is, none, _ => by simp [IdxFits]
  | i :: is, some (.leaf _), _ => by simp [IdxFits]
  | i :: is, some (.cont _), h => by simp [idxFitsB] at h
  | i :: is, some (.list xs), h => by
    simp only [idxFitsB] at h
    simp only [IdxFits]
    exact idxFitsB_sound is _ h

def notListB : Option Node → Bool
  | some (.list _) => false
  | _ => true

def fitsB (kvs : AMap Node) : List String → Bool
  | [] => true
  | [p] => idxFitsB (AMap.get? kvs (segBase p)) (segIdx p)
  | p :: rest => idxFitsB (AMap.get? kvs (segBase p)) (segIdx p) && notListB (child kvs p) &&
      fitsB (kidsOf (child kvs p)) rest

theorem fitsB_sound : ∀ (segs : List String) (kvs : AMap Node), fitsB kvs segs = true → Fits kvs segs
  | [], _, _ => trivial
  | [p], kvs, h => by
    simp only [fitsB] at h
    simp only [Fits]
    exact idxFitsB_sound _ _ h
  | p :: q :: r, kvs, h => by
    simp only [fitsB, Bool.and_eq_true] at h
    simp only [Fits]
    refine ⟨idxFitsB_sound _ _ h.1.1, ?_, fitsB_sound (q :: r) _ h.2⟩
    intro xs e
    rw [e] at h
    simp [notListB] at h


/-! ### frame for removal, every pair of paths that are not prefix-related -/

/-- a write below index groups that already resolve pads nothing: exact frame -/
theorem walkIdx_setSlot_frame_exact {cur : Option Node} {is js : List Nat} {w : Node} (x : Node)
    (hw : walkIdx cur is = some w) (h : IdxDiverge is js) :
    walkIdx (some (setSlot cur is x)) js = walkIdx cur js := by
  obtain ⟨pre, i, j, is', js', rfl, rfl, hne⟩ := h
  rw [walkIdx_setSlot_diverge pre cur i j is' js' x (Ne.symm hne)]
  have hi : i < (listOf (walkIdx cur pre)).length := by
    rw [walkIdx_append, walkIdx_cons_listOf] at hw
    rcases Nat.lt_or_ge i (listOf (walkIdx cur pre)).length with hlt | hge
    · exact hlt
    · rw [List.getElem?_eq_none hge, walkIdx_none] at hw; cases hw
  by_cases hj : j < (listOf (walkIdx cur pre)).length
  · simp [hj]
  · have hold : walkIdx cur (pre ++ j :: js') = none := by
      rw [walkIdx_append, walkIdx_cons_listOf, List.getElem?_eq_none (Nat.le_of_not_lt hj), walkIdx_none]
    have hji : ¬ j < i + 1 := by omega
    simp [hj, hji, hold]

theorem segIdx_of_noSuffix {p : String} (h : hasIdxSuffix p = false) : segIdx p = [] := by
  simp [segIdx, parseSeg_of_noSuffix h]

/-- `Remove(name)` deletes the literal key: a name with index groups is no key a component resolves through -/
theorem child_remove_indexed (kvs : AMap Node) {p : String} (hp : segIdx p ≠ []) (q : String) :
    child (remove kvs p) q = child kvs q := by
  have hne : segBase q ≠ p := by
    intro e
    apply hp
    apply segIdx_of_noSuffix
    rw [← e]
    exact segBase_noSuffix q
  rw [child_eq_walk, child_eq_walk]
  unfold remove
  rw [AMap.get?_erase_ne _ hne]

theorem IdxDiverge.ne_nil {is js : List Nat} (h : IdxDiverge is js) : is ≠ [] := by
  obtain ⟨pre, i, j, is', js', rfl, _, _⟩ := h
  simp

theorem lookupSegs_congr_child {kvs kvs' : AMap Node} {q : String} (h : child kvs' q = child kvs q)
    (qs : List String) : lookupSegs kvs' (q :: qs) = lookupSegs kvs (q :: qs) := by
  cases qs with
  | nil => exact h
  | cons q' qs => rw [lookupSegs_cons_cons, lookupSegs_cons_cons, h]

theorem walkIdx_cons_some {x : Option Node} {i : Nat} {is : List Nat} {w : Node}
    (h : walkIdx x (i :: is) = some w) : ∃ xs, x = some (.list xs) := by
  cases x with
  | none => simp [walkIdx_none] at h
  | some n =>
    cases n with
    | leaf _ => simp [walkIdx] at h
    | cont _ => simp [walkIdx] at h
    | list xs => exact ⟨xs, rfl⟩

/-- Frame for removal: removing `ps` is invisible at every path `qs` whose steps are not
    prefix-related to it — no side condition, no padding (removal never creates or replaces nodes). -/
theorem lookupSegs_removeAtSegs_frame_unrelated {ps qs : List String} (h : Unrelated ps qs) :
    ∀ (kvs : AMap Node), lookupSegs (removeAtSegs kvs ps) qs = lookupSegs kvs qs := by
  induction h with
  | @key p q ps qs h => intro kvs; exact lookupSegs_removeAtSegs_frame _ _ kvs (Diverge.head h)
  | @idx p q ps qs hb hi =>
    intro kvs
    apply lookupSegs_congr_child
    cases ps with
    | nil => exact child_remove_indexed kvs (IdxDiverge.ne_nil hi) q
    | cons p' ps =>
      simp only [removeAtSegs]
      cases hch : child kvs p with
      | none => rfl
      | some n =>
        cases n with
        | leaf _ => rfl
        | list _ => rfl
        | cont c =>
          simp only
          rw [child_add_sameBase _ _ hb, child_eq_walk kvs q, ← hb]
          exact walkIdx_setSlot_frame_exact _ (by rw [← child_eq_walk]; exact hch) hi
  | @keyIdx p q ps qs hb he hp =>
    intro kvs
    obtain ⟨j, js, he⟩ := he
    apply lookupSegs_congr_child
    cases ps with
    | nil => exact absurd rfl hp
    | cons p' ps =>
      simp only [removeAtSegs]
      cases hch : child kvs p with
      | none => rfl
      | some n =>
        cases n with
        | leaf _ => rfl
        | list _ => rfl
        | cont c =>
          simp only
          have hold : child kvs q = none := by
            rw [child_eq_walk, ← hb, he, walkIdx_append, ← child_eq_walk, hch]
            rfl
          rw [hold, child_add_sameBase _ _ hb, he, walkIdx_append, walkIdx_setSlot_self]
          rfl
  | @idxKey p q ps qs hb he hq =>
    intro kvs
    obtain ⟨i, is, he⟩ := he
    cases ps with
    | nil =>
      apply lookupSegs_congr_child
      exact child_remove_indexed kvs (by rw [he]; simp) q
    | cons p' ps =>
      cases qs with
      | nil => exact absurd rfl hq
      | cons q' qs =>
        simp only [removeAtSegs]
        cases hch : child kvs p with
        | none => rfl
        | some n =>
          cases n with
          | leaf _ => rfl
          | list _ => rfl
          | cont c =>
            simp only
            have hold : kidsOf (child kvs q) = [] := by
              rw [child_eq_walk, he, walkIdx_append] at hch
              obtain ⟨xs, hxs⟩ := walkIdx_cons_some hch
              rw [child_eq_walk, ← hb, hxs]
              rfl
            have hnew : kidsOf (child (add kvs p (.cont (removeAtSegs c (p' :: ps)))) q) = [] := by
              rw [child_add_sameBase _ _ hb, he]
              obtain ⟨c', hc'⟩ := walkIdx_setSlot_prefix (segIdx q) (AMap.get? kvs (segBase p)) (i :: is)
                (.cont (removeAtSegs c (p' :: ps)))
              rw [hc', setSlot_cons]
              rfl
            rw [lookupSegs_of_kidsOf_nil hold, lookupSegs_of_kidsOf_nil hnew]
  | @tail p q ps qs hpq hp hq _ ih =>
    intro kvs
    cases ps with
    | nil => exact absurd rfl hp
    | cons p' ps =>
      cases qs with
      | nil => exact absurd rfl hq
      | cons q' qs =>
        simp only [removeAtSegs]
        cases hch : child kvs p with
        | none => rfl
        | some n =>
          cases n with
          | leaf _ => rfl
          | list _ => rfl
          | cont c =>
            simp only
            rw [lookupSegs_cons_cons, lookupSegs_cons_cons, child_add_sameParse _ _ hpq,
              ← child_congr_parse kvs hpq, hch]
            exact ih c

theorem lookupSegs_removeAtSegs_frame_steps (kvs : AMap Node) (ps qs : List String)
    (h1 : ¬ pathSteps ps <+: pathSteps qs) (h2 : ¬ pathSteps qs <+: pathSteps ps) :
    lookupSegs (removeAtSegs kvs ps) qs = lookupSegs kvs qs :=
  lookupSegs_removeAtSegs_frame_unrelated (unrelated_of_steps ps qs h1 h2) kvs

end Ytk
