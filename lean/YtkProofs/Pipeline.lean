/-
  Lemmas about the pipeline interpreter (C12, C14).

  `run_ind`  — every predicate on results that is closed under the interpreter's combinators
               (ok / fail / atomic events / wrap / andThen / pre / mapSt) holds of every run.
  `run_inv`  — every predicate on the data that each primitive state update preserves is an invariant.
-/
import YtkModel.Pipeline
import YtkProofs.AMap
import YtkProofs.Dom

namespace Ytk.Pipeline

/-! ## events -/

def Event.isAtom : Event → Bool
  | .before _ => false
  | .after _ _ => false
  | _ => true

/-- closure conditions of a predicate on results under everything `run` builds results with -/
structure Closed (P : Res → Prop) : Prop where
  atoms : ∀ (evs : List Event) (st : St) (e : Option Err), (∀ ev ∈ evs, ev.isAtom = true) → P ⟨evs, st, e⟩
  wrap : ∀ (l : String) (r : Res), P r → P (wrap l r)
  andThen : ∀ (r : Res) (k : St → Res), P r → (∀ st, P (k st)) → P (r.andThen k)
  pre : ∀ (evs : List Event) (r : Res), (∀ ev ∈ evs, ev.isAtom = true) → P r → P (Res.pre evs r)
  mapSt : ∀ (r : Res) (f : St → St), P r → P (r.mapSt f)

namespace Closed
variable {P : Res → Prop} (h : Closed P)
include h

theorem ok (st : St) : P (Res.ok st) := h.atoms [] st none (by simp)
theorem fail (st : St) (e : Err) : P (Res.fail st e) := h.atoms [] st (some e) (by simp)

theorem guardWhen (w : Option String) (st : St) (k : St → Res) (hk : ∀ st, P (k st)) : P (guardWhen w st k) := by
  unfold Pipeline.guardWhen
  split
  · exact hk st
  · split
    · exact h.atoms _ _ _ (by simp [Event.isAtom])
    · exact h.atoms _ _ _ (by simp [Event.isAtom])
    · exact h.pre _ _ (by simp [Event.isAtom]) (hk st)

theorem extOp (fn id : String) (n : Nat) (st : St) : P (extOp fn id n st) := by
  unfold Pipeline.extOp
  simp only
  split
  · exact h.wrap _ _ (h.atoms _ _ _ (by simp [Event.isAtom]))
  · split
    · exact h.wrap _ _ (h.atoms _ _ _ (by simp [Event.isAtom]))
    · split
      · exact h.wrap _ _ (h.atoms _ _ _ (by simp [Event.isAtom]))
      · exact h.fail _ _
end Closed

theorem run_ind {P : Res → Prop} (h : Closed P) : ∀ (n : Nat) (t : Task) (st : St), P (run n t st) := by
  intro n
  induction n with
  | zero => intro t st; exact h.fail _ _
  | succ n ih =>
    intro t st
    cases t with
    | act a => exact h.wrap _ _ (ih _ _)
    | doAct a =>
      simp only [run]
      exact h.guardWhen _ _ _ fun st =>
        h.andThen _ _ (h.wrap _ _ (ih _ _)) fun st => h.guardWhen _ _ _ fun st => h.wrap _ _ (ih _ _)
    | ops os =>
      cases os with
      | nil => exact h.ok _
      | cons o os => exact h.andThen _ _ (ih _ _) fun st => ih _ _
    | steps as =>
      cases as with
      | nil => exact h.ok _
      | cons a as => exact h.andThen _ _ (ih _ _) fun st => ih _ _
    | cloneOps os =>
      cases os with
      | nil => exact h.ok _
      | cons o os => exact h.andThen _ _ (ih _ _) fun st => ih _ _
    | items v b its =>
      cases its with
      | nil => exact h.ok _
      | cons it its => exact h.andThen _ _ (ih _ _) fun st => ih _ _
    | item v b it =>
      exact h.mapSt _ _ (h.andThen _ _ (ih _ _) fun st => h.wrap _ _ (ih _ _))
    | loopIter t b p =>
      simp only [run]
      split
      · exact h.atoms _ _ _ (by simp [Event.isAtom])
      · exact h.atoms _ _ _ (by simp [Event.isAtom])
      · refine h.pre _ _ (by simp [Event.isAtom]) (h.andThen _ _ (ih _ _) fun st => h.andThen _ _ ?_ fun st => ih _ _)
        cases p with
        | none => exact h.ok _
        | some pa => exact ih _ _
    | op o =>
      simp only [run]
      apply h.wrap
      cases o with
      | set d p s =>
        simp only
        split
        · exact h.ok _
        · exact h.fail _ _
      | template t p tr pa => exact h.atoms _ _ _ (by simp)
      | log m => exact h.atoms _ _ _ (by simp [Event.isAtom])
      | abort m => exact h.fail _ _
      | ext fn id k => exact h.extOp _ _ _ _
      | forEach q its v b => exact ih _ _
      | loop i t b p =>
        refine h.andThen _ _ ?_ fun st => ih _ _
        cases i with
        | none => exact h.ok _
        | some a => exact ih _ _
      | call name ap args =>
        simp only
        split
        · exact h.fail _ _
        · exact h.mapSt _ _ (ih _ _)
      | define name b =>
        simp only
        split
        · exact h.fail _ _
        · exact h.ok _

/-! ## well-nested traces -/

/-- Dyck words over before/after pairs with matching labels; other events are neutral -/
inductive WN : List Event → Prop
  | nil : WN []
  | atom (e : Event) : e.isAtom = true → WN [e]
  | wrap (l : String) (e : Option Err) {tr : List Event} : WN tr → WN (.before l :: tr ++ [.after l e])
  | app {a b : List Event} : WN a → WN b → WN (a ++ b)

theorem WN.atoms : ∀ (evs : List Event), (∀ ev ∈ evs, ev.isAtom = true) → WN evs
  | [], _ => .nil
  | e :: es, h => by
    have := WN.app (WN.atom e (h e (by simp))) (WN.atoms es (fun ev hev => h ev (by simp [hev])))
    simpa using this

theorem closed_WN : Closed (fun r => WN r.tr) where
  atoms := fun evs _ _ h => WN.atoms evs h
  wrap := fun l r h => WN.wrap l r.err h
  andThen := by
    intro r k hr hk
    unfold Res.andThen
    split
    · exact hr
    · exact WN.app hr (hk _)
  pre := fun evs r h hr => WN.app (WN.atoms evs h) hr
  mapSt := fun _ _ h => h

/-- the stack discipline a listener can check on line: `before l` pushes, `after l _` must pop `l` -/
def balanced : List String → List Event → Bool
  | stk, [] => stk.isEmpty
  | stk, .before l :: r => balanced (l :: stk) r
  | [], .after _ _ :: _ => false
  | l' :: stk, .after l _ :: r => l = l' && balanced stk r
  | stk, .ran _ :: r => balanced stk r
  | stk, .log _ :: r => balanced stk r
  | stk, .test _ _ :: r => balanced stk r

theorem WN.balanced_append {tr : List Event} (h : WN tr) :
    ∀ (stk : List String) (rest : List Event), balanced stk (tr ++ rest) = balanced stk rest := by
  induction h with
  | nil => intro stk rest; rfl
  | atom e he =>
    intro stk rest
    cases e <;> simp_all [Event.isAtom, balanced]
  | wrap l e _ ih =>
    intro stk rest
    simp [balanced, ih]
  | app _ _ iha ihb =>
    intro stk rest
    rw [List.append_assoc, iha, ihb]

theorem WN.balanced {tr : List Event} (h : WN tr) : balanced [] tr = true := by
  have := h.balanced_append [] []
  simpa [Pipeline.balanced] using this

/-! ## fail-fast -/

def Event.isOk : Event → Bool
  | .after _ (some _) => false
  | _ => true

/-- no after-event carries an error -/
def Clean (tr : List Event) : Prop := ∀ ev ∈ tr, ev.isOk = true

/-- a clean prefix followed only by after-events that all carry `e` -/
def FailTail (e : Err) (tr : List Event) : Prop :=
  ∃ pre post, tr = pre ++ post ∧ Clean pre ∧ ∀ ev ∈ post, ∃ l, ev = .after l (some e)

/-- the fail-fast shape of a result -/
def FailFast (r : Res) : Prop :=
  (r.err = none → Clean r.tr) ∧ (∀ e, r.err = some e → FailTail e r.tr)

theorem clean_of_atoms {evs : List Event} (h : ∀ ev ∈ evs, ev.isAtom = true) : Clean evs := by
  intro ev hev
  have := h ev hev
  cases ev <;> simp_all [Event.isAtom, Event.isOk]

theorem Clean.append {a b : List Event} (ha : Clean a) (hb : Clean b) : Clean (a ++ b) := by
  intro ev hev
  rcases List.mem_append.mp hev with h | h
  · exact ha ev h
  · exact hb ev h

theorem FailTail.prepend {e : Err} {a tr : List Event} (ha : Clean a) (h : FailTail e tr) : FailTail e (a ++ tr) := by
  obtain ⟨pre, post, rfl, hp, hq⟩ := h
  exact ⟨a ++ pre, post, by simp, ha.append hp, hq⟩

theorem closed_FailFast : Closed FailFast where
  atoms := by
    intro evs st e h
    refine ⟨fun _ => clean_of_atoms h, fun e' _ => ⟨evs, [], by simp, clean_of_atoms h, by simp⟩⟩
  wrap := by
    intro l r ⟨h1, h2⟩
    refine ⟨?_, ?_⟩
    · intro hn
      have hn' : r.err = none := hn
      intro ev hev
      simp only [Pipeline.wrap, List.mem_cons, List.mem_append] at hev
      rcases hev with (rfl | hev) | hev
      · rfl
      · exact h1 hn' ev hev
      · rcases hev with rfl | hev
        · simp [hn', Event.isOk]
        · cases hev
    · intro e he
      have he' : r.err = some e := he
      obtain ⟨pre, post, htr, hp, hq⟩ := h2 e he'
      refine ⟨.before l :: pre, post ++ [.after l (some e)], ?_, ?_, ?_⟩
      · simp [Pipeline.wrap, htr, he']
      · intro ev hev
        simp only [List.mem_cons] at hev
        rcases hev with rfl | hev
        · rfl
        · exact hp ev hev
      · intro ev hev
        simp only [List.mem_append, List.mem_singleton] at hev
        rcases hev with hev | rfl
        · exact hq ev hev
        · exact ⟨l, rfl⟩
  andThen := by
    intro r k hr hk
    unfold Res.andThen
    split
    · exact hr
    · rename_i hn
      have hc := hr.1 hn
      obtain ⟨k1, k2⟩ := hk r.st
      exact ⟨fun h => hc.append (k1 h), fun e he => (k2 e he).prepend hc⟩
  pre := by
    intro evs r h ⟨h1, h2⟩
    exact ⟨fun hn => (clean_of_atoms h).append (h1 hn), fun e he => (h2 e he).prepend (clean_of_atoms h)⟩
  mapSt := fun _ _ h => h

/-! ## operation order and children order -/

theorem opsIn_kinds_sublist (order : List (String × String × String)) (ops : List Op) :
    ((opsIn order ops).map Op.kind).Sublist (order.map (·.1)) := by
  induction order with
  | nil => simp [opsIn]
  | cons e es ih =>
    simp only [opsIn, List.filterMap_cons, List.map_cons] at ih ⊢
    split
    · exact List.Sublist.cons _ ih
    · rename_i o ho
      have hk : o.kind = e.1 := by
        have := List.find?_some ho
        simpa using this
      simp only [List.map_cons, hk]
      exact List.Sublist.cons_cons _ ih

theorem opsIn_complete (order : List (String × String × String)) (ops : List Op) (o : Op) (ho : o ∈ ops)
    (hk : o.kind ∈ order.map (·.1)) : ∃ o' ∈ opsIn order ops, o'.kind = o.kind := by
  obtain ⟨e, he, hek⟩ := List.mem_map.mp hk
  have hsome : (ops.find? (fun x => x.kind == e.1)).isSome = true := by
    rw [List.find?_isSome]
    exact ⟨o, ho, by simp [hek]⟩
  obtain ⟨o', ho'⟩ := Option.isSome_iff_exists.mp hsome
  refine ⟨o', ?_, ?_⟩
  · simp only [opsIn, List.mem_filterMap]
    exact ⟨e, he, ho'⟩
  · have := List.find?_some ho'
    simp at this
    rw [this, hek]

theorem insertAct_perm (a : Action) (l : List Action) : (insertAct a l).Perm (a :: l) := by
  induction l with
  | nil => simp [insertAct]
  | cons b bs ih =>
    simp only [insertAct]
    split
    · exact List.Perm.refl _
    · exact ((List.Perm.cons b ih).trans (List.Perm.swap a b bs))

theorem sortActs_perm (l : List Action) : (sortActs l).Perm l := by
  induction l with
  | nil => simp [sortActs]
  | cons a as ih => exact (insertAct_perm a _).trans (List.Perm.cons a ih)

theorem insertAct_sorted (a : Action) (l : List Action) (h : l.Pairwise (fun x y => x.order ≤ y.order)) :
    (insertAct a l).Pairwise (fun x y => x.order ≤ y.order) := by
  induction l with
  | nil => simp [insertAct]
  | cons b bs ih =>
    simp only [insertAct]
    split
    · rename_i hab
      refine List.Pairwise.cons ?_ h
      intro c hc
      simp only [List.mem_cons] at hc
      rcases hc with rfl | hc
      · exact hab
      · exact Int.le_trans hab (List.rel_of_pairwise_cons h hc)
    · rename_i hab
      have hba : b.order ≤ a.order := Int.le_of_lt (Int.not_le.mp hab)
      refine List.Pairwise.cons ?_ (ih h.tail)
      intro c hc
      have := (insertAct_perm a bs).subset hc
      simp only [List.mem_cons] at this
      rcases this with rfl | hc
      · exact hba
      · exact List.rel_of_pairwise_cons h hc

theorem sortActs_sorted (l : List Action) : (sortActs l).Pairwise (fun x y => x.order ≤ y.order) := by
  induction l with
  | nil => simp [sortActs]
  | cons a as ih => exact insertAct_sorted a _ ih

theorem eq_of_nodup_map_order {l : List Action} (hd : (l.map Action.order).Nodup) {a b : Action}
    (ha : a ∈ l) (hb : b ∈ l) (hab : a.order = b.order) : a = b := by
  induction l with
  | nil => cases ha
  | cons c cs ih =>
    simp only [List.map_cons, List.nodup_cons, List.mem_map, not_exists, not_and] at hd
    simp only [List.mem_cons] at ha hb
    rcases ha with rfl | ha <;> rcases hb with rfl | hb
    · rfl
    · exact absurd hab.symm (hd.1 b hb)
    · exact absurd hab (hd.1 a ha)
    · exact ih hd.2 ha hb

/-- the sorted list of children does not depend on the order in which the Go map hands them out -/
theorem sortActs_perm_eq {cs cs' : List Action} (h : cs.Perm cs') (hd : (cs.map Action.order).Nodup) :
    sortActs cs = sortActs cs' := by
  apply List.Perm.eq_of_pairwise (le := fun x y => x.order ≤ y.order) ?_ (sortActs_sorted cs) (sortActs_sorted cs')
  · exact (sortActs_perm cs).trans (h.trans (sortActs_perm cs').symm)
  · intro a b ha hb h1 h2
    have ha' : a ∈ cs := (sortActs_perm cs).subset ha
    have hb' : b ∈ cs := h.symm.subset ((sortActs_perm cs').subset hb)
    exact eq_of_nodup_map_order hd ha' hb' (Int.le_antisymm h1 h2)

/-! ## a data invariant: the top-level key list stays strictly sorted -/

theorem sorted_add {d : AMap Node} (h : AMap.Sorted d) (k : String) (v : Node) : AMap.Sorted (add d k v) := by
  unfold add
  split
  rename_i b is _
  cases is with
  | nil => exact AMap.sorted_insert h _ _
  | cons i is => exact AMap.sorted_insert h _ _

theorem sorted_addAtSegs {d : AMap Node} (h : AMap.Sorted d) (segs : List String) (v : Node) :
    AMap.Sorted (addAtSegs d segs v) := by
  cases segs with
  | nil => exact h
  | cons p rest =>
    cases rest with
    | nil => exact sorted_add h _ _
    | cons q rest => simp only [addAtSegs]; exact sorted_add h _ _

theorem sorted_addValueAt {d : AMap Node} (h : AMap.Sorted d) (p : String) (v : Node) :
    AMap.Sorted (addValueAt d p v) := sorted_addAtSegs h _ _

theorem sorted_remove {d : AMap Node} (h : AMap.Sorted d) (k : String) : AMap.Sorted (remove d k) :=
  AMap.sorted_erase h k

theorem sorted_removeAtSegs {d : AMap Node} (h : AMap.Sorted d) (segs : List String) :
    AMap.Sorted (removeAtSegs d segs) := by
  cases segs with
  | nil => exact h
  | cons p rest =>
    cases rest with
    | nil => exact sorted_remove h _
    | cons q rest =>
      simp only [removeAtSegs]
      split
      · exact sorted_add h _ _
      · exact h

theorem sorted_removeAt {d : AMap Node} (h : AMap.Sorted d) (p : String) : AMap.Sorted (removeAt d p) :=
  sorted_removeAtSegs h _

theorem sorted_foldl {α : Type} (f : AMap Node → α → AMap Node) (hf : ∀ d x, AMap.Sorted d → AMap.Sorted (f d x)) :
    ∀ (l : List α) (d : AMap Node), AMap.Sorted d → AMap.Sorted (l.foldl f d)
  | [], _, h => h
  | x :: xs, d, h => sorted_foldl f hf xs (f d x) (hf d x h)

theorem sorted_setOp {d d' : AMap Node} (h : AMap.Sorted d) {data : Option Node} {p : String} {s : Option String}
    (hs : setOp data p s d = .ok d') : AMap.Sorted d' := by
  unfold setOp at hs
  split at hs
  · cases hs
  · simp only at hs
    split at hs
    · split at hs
      · split at hs
        · cases hs; exact sorted_addValueAt h _ _
        · cases hs; exact sorted_addValueAt h _ _
      · cases hs
        apply sorted_foldl _ _ _ _ h
        intro d x hd
        split
        · exact sorted_add hd _ _
        · exact sorted_add hd _ _
    · split at hs
      · split at hs
        · cases hs; exact sorted_addValueAt h _ _
        · cases hs
          exact sorted_foldl _ (fun d x hd => sorted_addValueAt hd _ _) _ _ h
      · cases hs

theorem sorted_templateOp {d : AMap Node} (h : AMap.Sorted d) (t p : String) (tr : Bool) (pa : Option String) :
    AMap.Sorted (templateOp t p tr pa d).1 := by
  unfold templateOp
  split
  · exact h
  · split
    · exact h
    · simp only
      split
      · exact h
      · split
        · exact sorted_addValueAt h _ _
        · exact h

/-- results whose data is sorted whenever … -/
def SortedRes (r : Res) : Prop := AMap.Sorted r.st.data

theorem sorted_wrap {l : String} {r : Res} (h : SortedRes r) : SortedRes (wrap l r) := h

theorem sorted_andThen {r : Res} {k : St → Res} (hr : SortedRes r) (hk : ∀ st, AMap.Sorted st.data → SortedRes (k st)) :
    SortedRes (r.andThen k) := by
  unfold Res.andThen
  split
  · exact hr
  · exact hk _ hr

theorem sorted_guardWhen {w : Option String} {st : St} {k : St → Res} (hs : AMap.Sorted st.data)
    (hk : ∀ st, AMap.Sorted st.data → SortedRes (k st)) : SortedRes (guardWhen w st k) := by
  unfold guardWhen
  split
  · exact hk st hs
  · split
    · exact hs
    · exact hs
    · exact hk st hs

theorem sorted_extOp (fn id : String) (n : Nat) {st : St} (hs : AMap.Sorted st.data) : SortedRes (extOp fn id n st) := by
  unfold extOp
  simp only
  split
  · exact hs
  · split
    · exact hs
    · split
      · exact sorted_add (sorted_add (sorted_add hs _ _) _ _) _ _
      · exact hs

theorem sorted_run : ∀ (n : Nat) (t : Task) (st : St), AMap.Sorted st.data → AMap.Sorted (run n t st).st.data := by
  intro n
  induction n with
  | zero => intro t st hs; exact hs
  | succ n ih =>
    intro t st hs
    cases t with
    | act a => exact ih _ _ hs
    | doAct a =>
      simp only [run]
      exact sorted_guardWhen hs fun st hs =>
        sorted_andThen (sorted_wrap (ih _ _ hs)) fun st hs => sorted_guardWhen hs fun st hs => sorted_wrap (ih _ _ hs)
    | ops os =>
      cases os with
      | nil => exact hs
      | cons o os => exact sorted_andThen (ih _ _ hs) fun st hs => ih _ _ hs
    | steps as =>
      cases as with
      | nil => exact hs
      | cons a as => exact sorted_andThen (ih _ _ hs) fun st hs => ih _ _ hs
    | cloneOps os =>
      cases os with
      | nil => exact hs
      | cons o os => exact sorted_andThen (ih _ _ hs) fun st hs => ih _ _ hs
    | items v b its =>
      cases its with
      | nil => exact hs
      | cons it its => exact sorted_andThen (ih _ _ hs) fun st hs => ih _ _ hs
    | item v b it =>
      simp only [run, Res.mapSt, St.setData]
      apply sorted_remove
      exact sorted_andThen (ih _ _ (sorted_add hs _ _)) fun st hs => sorted_wrap (ih _ _ hs)
    | loopIter t b p =>
      simp only [run]
      split
      · exact hs
      · exact hs
      · show SortedRes _
        refine sorted_andThen (ih _ _ hs) fun st hs => sorted_andThen ?_ fun st hs => ih _ _ hs
        cases p with
        | none => exact hs
        | some pa => exact ih _ _ hs
    | op o =>
      simp only [run]
      apply sorted_wrap
      cases o with
      | set d p s =>
        simp only
        split
        · rename_i d' hd; exact sorted_setOp hs hd
        · exact hs
      | template t p tr pa => exact sorted_templateOp hs _ _ _ _
      | log m => exact hs
      | abort m => exact hs
      | ext fn id k => exact sorted_extOp _ _ _ hs
      | forEach q its v b => exact ih _ _ hs
      | loop i t b p =>
        refine sorted_andThen ?_ fun st hs => ih _ _ hs
        cases i with
        | none => exact hs
        | some a => exact ih _ _ hs
      | call name ap args =>
        simp only
        split
        · exact hs
        · simp only [Res.mapSt, St.setData, SortedRes]
          exact sorted_removeAt (ih _ _ (sorted_addValueAt hs _ _)) _
      | define name b =>
        simp only
        split
        · exact hs
        · exact hs

end Ytk.Pipeline
