/-
  Refinement of the builder's string-path algorithm (`bstep`, YtkModel/Builder.lean) to the
  structured plain-tree specification (YtkModel/PlainSpec.lean).

  Two stages:
  1. the string-path functions on component lists (`addAtSegs`, `removeAtSegs`, `updateAtSegs`,
     `lookupSegs`) are structured edits on `Node` (`setN` of Rebuild.lean, `updN`, `getN` below) along
     `toSteps segs` = the steps `segOfComp` (the code's component parser) finds — for EVERY string;
  2. `encodeNode` (AsMap) maps the structured `Node` edits to the `Val` edits of PlainSpec.
-/
import YtkModel.PlainSpec
import YtkModel.Builder
import YtkModel.Codec
import YtkProofs.Builder
import YtkProofs.LensIdx
import YtkProofs.Rebuild

namespace Ytk

open Plain

/-! ### the steps of path strings -/

/-- the steps of a list of dotted components -/
def toSteps (segs : List String) : List PSeg := segs.flatMap segOfComp

/-- the steps of a path string (what `AddValueAt` / `RemoveAt` / `Lookup` walk) -/
def pathStepsOf (path : String) : List PSeg := toSteps (splitPath path)

theorem segOfComp_eq (c : String) : segOfComp c = .key (segBase c) :: (segIdx c).map .idx := by
  unfold segOfComp segBase segIdx
  cases hp : parseSeg c with
  | mk b is =>
    cases is with
    | nil => simp [parseSeg_nil_base hp]
    | cons i is => rfl

theorem toSteps_cons (c : String) (cs : List String) :
    toSteps (c :: cs) = .key (segBase c) :: ((segIdx c).map .idx ++ toSteps cs) := by
  simp [toSteps, segOfComp_eq]

theorem toSteps_nil : toSteps [] = [] := rfl

theorem toSteps_append (a b : List String) : toSteps (a ++ b) = toSteps a ++ toSteps b := by
  simp [toSteps]

theorem keyHead_toSteps (cs : List String) : KeyHead (toSteps cs) := by
  cases cs with
  | nil => simp [toSteps, KeyHead]
  | cons c cs => simp [toSteps_cons, KeyHead]

/-! ### stage 2 basics: `encodeNode` is a homomorphism for the map / list primitives -/

theorem encodeList_eq_map : ∀ (xs : List Node), encodeList xs = xs.map encodeNode
  | [] => rfl
  | x :: xs => by simp [encodeList, encodeList_eq_map xs]

theorem encodeKvs_get? : ∀ (m : List (String × Node)) (k : String),
    AMap.get? (encodeKvs m) k = (AMap.get? m k).map encodeNode
  | [], _ => rfl
  | (k', x) :: m, k => by
    simp only [encodeKvs, AMap.get?]
    split
    · rfl
    · exact encodeKvs_get? m k

theorem encodeKvs_insert : ∀ (m : List (String × Node)) (k : String) (x : Node),
    encodeKvs (AMap.insert m k x) = AMap.insert (encodeKvs m) k (encodeNode x)
  | [], _, _ => rfl
  | (k', y) :: m, k, x => by
    simp only [encodeKvs, AMap.insert]
    split
    · rfl
    · split
      · rfl
      · simp only [encodeKvs, encodeKvs_insert m k x]

theorem encodeKvs_erase : ∀ (m : List (String × Node)) (k : String),
    encodeKvs (AMap.erase m k) = AMap.erase (encodeKvs m) k
  | [], _ => rfl
  | (k', y) :: m, k => by
    simp only [encodeKvs, AMap.erase]
    split
    · rfl
    · simp only [encodeKvs, encodeKvs_erase m k]

theorem map_padTo (xs : List Node) (n : Nat) : (padTo xs n).map encodeNode = padNull (xs.map encodeNode) n := by
  simp [padTo, padNull, Node.null, Val.null, encodeNode]

theorem members_map (cur : Option Node) : members (cur.map encodeNode) = encodeKvs (contOf cur) := by
  cases cur with
  | none => rfl
  | some n => cases n <;> rfl

theorem items_map (cur : Option Node) : items (cur.map encodeNode) = (listOf cur).map encodeNode := by
  cases cur with
  | none => rfl
  | some n => cases n <;> simp [items, listOf, encodeNode, encodeList_eq_map]

/-! ### set -/

/-- stage 2: AsMap of a structured write on the DOM is the structured write on the plain tree -/
theorem encode_setN : ∀ (p : List PSeg) (cur : Option Node) (v : Node),
    encodeNode (setN cur p v) = setAt (cur.map encodeNode) p (encodeNode v)
  | [], _, _ => rfl
  | .key k :: r, cur, v => by
    simp only [setN, setAt, encodeNode, encodeKvs_insert, members_map, encodeKvs_get?]
    rw [encode_setN r]
  | .idx i :: r, cur, v => by
    simp only [setN, setAt, encodeNode, encodeList_eq_map, List.map_set, map_padTo, items_map]
    rw [encode_setN r, ← map_padTo, List.getElem?_map]

/-- stage 1: `addAtSegs` (ancestorOf(create) + AddValue) is the structured write along the steps of
    its components — every component list, every document -/
theorem addAtSegs_setN_all : ∀ (cs : List String) (kvs : AMap Node) (v : Node), cs ≠ [] →
    Node.cont (addAtSegs kvs cs v) = setN (some (.cont kvs)) (toSteps cs) v
  | [], _, _, h => absurd rfl h
  | [c], kvs, v, _ => by
    simp only [addAtSegs, toSteps_cons, toSteps_nil, setN, contOf_some_cont]
    rw [add_eq_insert, setN_idx (segIdx c) _ [] v (by simp [KeyHead])]
    simp [setN]
  | c :: d :: ds, kvs, v, _ => by
    have ih := addAtSegs_setN_all (d :: ds) (contOf (walkIdx (AMap.get? kvs (segBase c)) (segIdx c))) v (by simp)
    rw [toSteps_cons]
    simp only [addAtSegs_cons2, setN, contOf_some_cont]
    rw [add_eq_insert, setN_idx (segIdx c) _ (toSteps (d :: ds)) v (keyHead_toSteps _), child_eq_walk, ih]
    congr 3
    exact setN_congr _ v (keyHead_toSteps _) (contOf_some_cont _)

theorem encode_addValueAt (d : AMap Node) (path : String) (v : Node) :
    encodeNode (.cont (addValueAt d path v)) =
      specSet (encodeNode (.cont d)) (pathStepsOf path) (encodeNode v) := by
  unfold addValueAt specSet pathStepsOf
  rw [addAtSegs_setN_all _ d v (splitPath_ne_nil path), encode_setN]
  rfl

theorem encode_add (d : AMap Node) (name : String) (v : Node) :
    encodeNode (.cont (add d name v)) = specSet (encodeNode (.cont d)) (segOfComp name) (encodeNode v) := by
  have := addAtSegs_setN_all [name] d v (by simp)
  simp only [addAtSegs] at this
  unfold specSet
  rw [this, encode_setN]
  simp [toSteps]

end Ytk
