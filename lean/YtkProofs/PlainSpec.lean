/-
  Refinement of the builder's string-path algorithm (`bstep`, YtkModel/Builder.lean) to the
  structured plain-tree specification (YtkModel/PlainSpec.lean).

  Two stages:
  1. the string-path functions on component lists (`addAtSegs`, `removeAtSegs`, `updateAtSegs`,
     `lookupSegs`) are structured edits on `Node` (`setN` of Rebuild.lean, `updN`, `getN` below) along
     `toSteps segs` = the steps `segOfComp` (the code's component parser) finds — for EVERY string;
  2. `encodeNode` (AsMap) maps the structured `Node` edits to the `Val` edits of PlainSpec.
-/
import YtkModel.PlainSpec
import YtkModel.Builder
import YtkModel.Codec
import YtkProofs.Builder
import YtkProofs.LensIdx
import YtkProofs.Rebuild
import YtkProofs.RebuildB
import YtkProofs.ValidB

namespace Ytk

open Plain

/-! ### the steps of path strings -/

/-- the steps of a list of dotted components -/
def toSteps (segs : List String) : List PSeg := segs.flatMap segOfComp

/-- the steps of a path string (what `AddValueAt` / `RemoveAt` / `Lookup` walk) -/
def pathStepsOf (path : String) : List PSeg := toSteps (splitPath path)

theorem segOfComp_eq (c : String) : segOfComp c = .key (segBase c) :: (segIdx c).map .idx := by
  unfold segOfComp segBase segIdx
  cases hp : parseSeg c with
  | mk b is =>
    cases is with
    | nil => simp [parseSeg_nil_base hp]
    | cons i is => rfl

theorem toSteps_cons (c : String) (cs : List String) :
    toSteps (c :: cs) = .key (segBase c) :: ((segIdx c).map .idx ++ toSteps cs) := by
  simp [toSteps, segOfComp_eq]

theorem toSteps_nil : toSteps [] = [] := rfl

theorem toSteps_append (a b : List String) : toSteps (a ++ b) = toSteps a ++ toSteps b := by
  simp [toSteps]

theorem keyHead_toSteps (cs : List String) : KeyHead (toSteps cs) := by
  cases cs with
  | nil => simp [toSteps, KeyHead]
  | cons c cs => simp [toSteps_cons, KeyHead]

/-! ### stage 2 basics: `encodeNode` is a homomorphism for the map / list primitives -/

theorem encodeList_eq_map : ∀ (xs : List Node), encodeList xs = xs.map encodeNode
  | [] => rfl
  | x :: xs => by simp [encodeList, encodeList_eq_map xs]

theorem encodeKvs_get? : ∀ (m : List (String × Node)) (k : String),
    AMap.get? (encodeKvs m) k = (AMap.get? m k).map encodeNode
  | [], _ => rfl
  | (k', x) :: m, k => by
    simp only [encodeKvs, AMap.get?]
    split
    · rfl
    · exact encodeKvs_get? m k

theorem encodeKvs_insert : ∀ (m : List (String × Node)) (k : String) (x : Node),
    encodeKvs (AMap.insert m k x) = AMap.insert (encodeKvs m) k (encodeNode x)
  | [], _, _ => rfl
  | (k', y) :: m, k, x => by
    simp only [encodeKvs, AMap.insert]
    split
    · rfl
    · split
      · rfl
      · simp only [encodeKvs, encodeKvs_insert m k x]

theorem encodeKvs_erase : ∀ (m : List (String × Node)) (k : String),
    encodeKvs (AMap.erase m k) = AMap.erase (encodeKvs m) k
  | [], _ => rfl
  | (k', y) :: m, k => by
    simp only [encodeKvs, AMap.erase]
    split
    · rfl
    · simp only [encodeKvs, encodeKvs_erase m k]

theorem map_padTo (xs : List Node) (n : Nat) : (padTo xs n).map encodeNode = padNull (xs.map encodeNode) n := by
  simp [padTo, padNull, Node.null, Val.null, encodeNode]

theorem members_map (cur : Option Node) : members (cur.map encodeNode) = encodeKvs (contOf cur) := by
  cases cur with
  | none => rfl
  | some n => cases n <;> rfl

theorem items_map (cur : Option Node) : items (cur.map encodeNode) = (listOf cur).map encodeNode := by
  cases cur with
  | none => rfl
  | some n => cases n <;> simp [items, listOf, encodeNode, encodeList_eq_map]

/-! ### set -/

/-- stage 2: AsMap of a structured write on the DOM is the structured write on the plain tree -/
theorem encode_setN : ∀ (p : List PSeg) (cur : Option Node) (v : Node),
    encodeNode (setN cur p v) = setAt (cur.map encodeNode) p (encodeNode v)
  | [], _, _ => rfl
  | .key k :: r, cur, v => by
    simp only [setN, setAt, encodeNode, encodeKvs_insert, members_map, encodeKvs_get?]
    rw [encode_setN r]
  | .idx i :: r, cur, v => by
    simp only [setN, setAt, encodeNode, encodeList_eq_map, List.map_set, map_padTo, items_map]
    rw [encode_setN r, ← map_padTo, List.getElem?_map]

/-- stage 1: `addAtSegs` (ancestorOf(create) + AddValue) is the structured write along the steps of
    its components — every component list, every document -/
theorem addAtSegs_setN_all : ∀ (cs : List String) (kvs : AMap Node) (v : Node), cs ≠ [] →
    Node.cont (addAtSegs kvs cs v) = setN (some (.cont kvs)) (toSteps cs) v
  | [], _, _, h => absurd rfl h
  | [c], kvs, v, _ => by
    simp only [addAtSegs, toSteps_cons, toSteps_nil, setN, contOf_some_cont]
    rw [add_eq_insert, setN_idx (segIdx c) _ [] v (by simp [KeyHead])]
    simp [setN]
  | c :: d :: ds, kvs, v, _ => by
    have ih := addAtSegs_setN_all (d :: ds) (contOf (walkIdx (AMap.get? kvs (segBase c)) (segIdx c))) v (by simp)
    rw [toSteps_cons]
    simp only [addAtSegs_cons2, setN, contOf_some_cont]
    rw [add_eq_insert, setN_idx (segIdx c) _ (toSteps (d :: ds)) v (keyHead_toSteps _), child_eq_walk, ih]
    congr 3
    exact setN_congr _ v (keyHead_toSteps _) (contOf_some_cont _)

theorem encode_addValueAt (d : AMap Node) (path : String) (v : Node) :
    encodeNode (.cont (addValueAt d path v)) =
      specSet (encodeNode (.cont d)) (pathStepsOf path) (encodeNode v) := by
  unfold addValueAt specSet pathStepsOf
  rw [addAtSegs_setN_all _ d v (splitPath_ne_nil path), encode_setN]
  rfl

theorem encode_add (d : AMap Node) (name : String) (v : Node) :
    encodeNode (.cont (add d name v)) = specSet (encodeNode (.cont d)) (segOfComp name) (encodeNode v) := by
  have := addAtSegs_setN_all [name] d v (by simp)
  simp only [addAtSegs] at this
  unfold specSet
  rw [this, encode_setN]
  simp [toSteps]

/-! ### update in place (the shape of RemoveAt and of the list edits) -/

/-- apply `f` to the node at a step path; nothing there: unchanged (the `Node` twin of `Plain.updAt`) -/
def updN (f : Node → Node) : Node → List PSeg → Node
  | n, [] => f n
  | .cont m, .key k :: r =>
    match AMap.get? m k with
    | some c => .cont (AMap.insert m k (updN f c r))
    | none => .cont m
  | .list xs, .idx i :: r =>
    match xs[i]? with
    | some c => .list (xs.set i (updN f c r))
    | none => .list xs
  | n, _ :: _ => n

/-- the node at a step path (the `Node` twin of `Plain.getAt`) -/
def getN : Node → List PSeg → Option Node
  | n, [] => some n
  | .cont m, .key k :: r =>
    match AMap.get? m k with
    | some c => getN c r
    | none => none
  | .list xs, .idx i :: r =>
    match xs[i]? with
    | some c => getN c r
    | none => none
  | _, _ :: _ => none

theorem encode_updN {f : Node → Node} {F : Val → Val} (hf : ∀ x, encodeNode (f x) = F (encodeNode x)) :
    ∀ (p : List PSeg) (n : Node), encodeNode (updN f n p) = updAt F (encodeNode n) p
  | [], n => by simp [updN, updAt, hf]
  | .key k :: r, .cont m => by
    simp only [updN, updAt, encodeNode, encodeKvs_get?]
    cases AMap.get? m k with
    | none => rfl
    | some c => simp [encodeNode, encodeKvs_insert, encode_updN hf r c]
  | .key k :: r, .leaf _ => by simp [updN, updAt, encodeNode]
  | .key k :: r, .list _ => by simp [updN, updAt, encodeNode]
  | .idx i :: r, .list xs => by
    simp only [updN, updAt, encodeNode, encodeList_eq_map, List.getElem?_map]
    cases xs[i]? with
    | none => simp [encodeNode, encodeList_eq_map]
    | some c => simp [encodeNode, encodeList_eq_map, List.map_set, encode_updN hf r c]
  | .idx i :: r, .leaf _ => by simp [updN, updAt, encodeNode]
  | .idx i :: r, .cont _ => by simp [updN, updAt, encodeNode]

theorem encode_getN : ∀ (p : List PSeg) (n : Node), (getN n p).map encodeNode = getAt (encodeNode n) p
  | [], n => by simp [getN, getAt]
  | .key k :: r, .cont m => by
    simp only [getN, getAt, encodeNode, encodeKvs_get?]
    cases AMap.get? m k with
    | none => rfl
    | some c => simp [encode_getN r c]
  | .key k :: r, .leaf _ => by simp [getN, getAt, encodeNode]
  | .key k :: r, .list _ => by simp [getN, getAt, encodeNode]
  | .idx i :: r, .list xs => by
    simp only [getN, getAt, encodeNode, encodeList_eq_map, List.getElem?_map]
    cases xs[i]? with
    | none => rfl
    | some c => simp [encode_getN r c]
  | .idx i :: r, .leaf _ => by simp [getN, getAt, encodeNode]
  | .idx i :: r, .cont _ => by simp [getN, getAt, encodeNode]

theorem set_same {α : Type} {xs : List α} {i : Nat} {x : α} (h : xs[i]? = some x) : xs.set i x = xs := by
  obtain ⟨hi, rfl⟩ := List.getElem?_eq_some_iff.mp h
  exact List.set_getElem_self hi

/-- index groups that lead to a node: writing `W` there is the update along the index steps -/
theorem setSlot_updN {f : Node → Node} : ∀ (is : List Nat) (c w W : Node) (r : List PSeg),
    walkIdx (some c) is = some w → W = updN f w r → setSlot (some c) is W = updN f c (is.map .idx ++ r)
  | [], c, w, W, r, hw, hW => by
    simp only [walkIdx_nil, Option.some.injEq] at hw
    subst hw
    simp [setSlot, hW]
  | i :: is, .leaf _, w, W, r, hw, _ => by simp [walkIdx] at hw
  | i :: is, .cont _, w, W, r, hw, _ => by simp [walkIdx] at hw
  | i :: is, .list xs, w, W, r, hw, hW => by
    simp only [walkIdx] at hw
    cases hx : xs[i]? with
    | none => rw [hx, walkIdx_none] at hw; cases hw
    | some x =>
      rw [hx] at hw
      have hi : i < xs.length := (List.getElem?_eq_some_iff.mp hx).1
      rw [setSlot_cons]
      simp only [listOf, padTo_eq_self (Nat.succ_le_of_lt hi), hx, List.map_cons, List.cons_append, updN]
      rw [setSlot_updN is x w W r hw hW]

/-- index groups that lead nowhere: the update along them changes nothing -/
theorem updN_idx_none {f : Node → Node} : ∀ (is : List Nat) (c : Node) (r : List PSeg),
    walkIdx (some c) is = none → updN f c (is.map .idx ++ r) = c
  | [], c, r, hw => by simp [walkIdx] at hw
  | i :: is, .leaf _, r, _ => by simp [updN]
  | i :: is, .cont _, r, _ => by simp [updN]
  | i :: is, .list xs, r, hw => by
    simp only [walkIdx] at hw
    simp only [List.map_cons, List.cons_append, updN]
    cases hx : xs[i]? with
    | none => rfl
    | some x =>
      rw [hx] at hw
      simp only
      rw [updN_idx_none is x r hw, set_same hx]

/-- ONE component of a string path, as every string-path function of the builder handles it —
    `Child(p)`, then put back `W` of what was found — is the structured update along the steps of
    that component, continued by `r` (sorted maps: putting back what is there is the identity). -/
theorem comp_updN {f : Node → Node} (kvs : AMap Node) (hs : AMap.Sorted kvs) (p : String) (r : List PSeg)
    (W : Node → Node) (hW : ∀ w, child kvs p = some w → W w = updN f w r) :
    Node.cont (match child kvs p with
      | some w => add kvs p (W w)
      | none => kvs) = updN f (.cont kvs) (segOfComp p ++ r) := by
  rw [segOfComp_eq, List.cons_append]
  simp only [updN]
  rw [child_eq_walk] at hW ⊢
  cases hg : AMap.get? kvs (segBase p) with
  | none => simp [walkIdx_none]
  | some c =>
    rw [hg] at hW
    simp only
    cases hw : walkIdx (some c) (segIdx p) with
    | none =>
      simp only
      rw [updN_idx_none _ c r hw, insert_put_back hs hg]
    | some w =>
      simp only
      rw [add_eq_insert, hg, setSlot_updN _ c w (W w) r hw (hW w hw)]

/-- the same with the code's "continue only in a container" shape (`ancestorOf(create=false)`) -/
theorem comp_cont_updN {f : Node → Node} (kvs : AMap Node) (hs : AMap.Sorted kvs) (p : String) (r : List PSeg)
    (W : AMap Node → AMap Node) (hW : ∀ c, child kvs p = some (.cont c) → Node.cont (W c) = updN f (.cont c) r)
    (hr : ∀ w, (∀ c, w ≠ .cont c) → updN f w r = w) :
    Node.cont (match child kvs p with
      | some (.cont c) => add kvs p (.cont (W c))
      | _ => kvs) = updN f (.cont kvs) (segOfComp p ++ r) := by
  rw [← comp_updN kvs hs p r (fun w => match w with | .cont c => .cont (W c) | w => w)]
  · cases hc : child kvs p with
    | none => rfl
    | some w =>
      cases w with
      | cont c => rfl
      | leaf v => simp only; rw [add_put_back hs hc]
      | list xs => simp only; rw [add_put_back hs hc]
  · intro w hw
    cases w with
    | cont c => exact hW c hw
    | leaf v => exact (hr _ (by simp)).symm
    | list xs => exact (hr _ (by simp)).symm

/-- a key step does nothing on a leaf or a list -/
theorem updN_key_noncont {f : Node → Node} {r : List PSeg} (hk : KeyHead r) (hne : r ≠ []) (w : Node)
    (hw : ∀ c, w ≠ .cont c) : updN f w r = w := by
  cases r with
  | nil => exact absurd rfl hne
  | cons s r =>
    cases s with
    | idx i => exact absurd hk (by simp [KeyHead])
    | key k =>
      cases w with
      | cont c => exact absurd rfl (hw c)
      | leaf _ => simp [updN]
      | list _ => simp [updN]

theorem toSteps_ne_nil {cs : List String} (h : cs ≠ []) : toSteps cs ≠ [] := by
  cases cs with
  | nil => exact absurd rfl h
  | cons c cs => simp [toSteps_cons]

/-- stage 1 for `updateAtSegs` (ListBuilder edits through `Lookup`) -/
theorem updateAtSegs_updN (f : Node → Node) : ∀ (cs : List String) (kvs : AMap Node), (Node.cont kvs).Valid →
    cs ≠ [] → Node.cont (updateAtSegs kvs f cs) = updN f (.cont kvs) (toSteps cs)
  | [], _, _, h => absurd rfl h
  | [c], kvs, hv, _ => by
    have := comp_updN (f := f) kvs hv.sorted c [] f (fun w _ => by simp [updN])
    simp only [List.append_nil] at this
    simp only [updateAtSegs, toSteps, List.flatMap_cons, List.flatMap_nil, List.append_nil]
    rw [← this]
    cases child kvs c <;> rfl
  | c :: d :: ds, kvs, hv, _ => by
    have := comp_cont_updN (f := f) kvs hv.sorted c (toSteps (d :: ds)) (fun c' => updateAtSegs c' f (d :: ds))
      (fun c' hc => updateAtSegs_updN f (d :: ds) c' (child_valid hv hc) (by simp))
      (updN_key_noncont (keyHead_toSteps _) (toSteps_ne_nil (by simp)))
    have e : toSteps (c :: d :: ds) = segOfComp c ++ toSteps (d :: ds) := by simp [toSteps]
    rw [e, ← this]
    simp only [updateAtSegs]
    cases child kvs c with
    | none => rfl
    | some w => cases w <;> rfl

/-! ### remove -/

def onCont (g : AMap Node → AMap Node) : Node → Node
  | .cont m => .cont (g m)
  | n => n

/-- delete the last key from the container at the parent path (the `Node` twin of `Plain.specRemove`) -/
def removeN (n : Node) (p : List PSeg) : Node :=
  match p.getLast? with
  | some (.key k) => updN (onCont fun m => AMap.erase m k) n p.dropLast
  | _ => n

theorem encode_onCont_erase (k : String) (x : Node) :
    encodeNode (onCont (fun m => AMap.erase m k) x) = onObj (fun m => AMap.erase m k) (encodeNode x) := by
  cases x <;> simp [onCont, onObj, encodeNode, encodeKvs_erase]

theorem encode_removeN (n : Node) (p : List PSeg) : encodeNode (removeN n p) = specRemove (encodeNode n) p := by
  unfold removeN specRemove
  cases p.getLast? with
  | none => rfl
  | some s =>
    cases s with
    | idx i => rfl
    | key k => exact encode_updN (encode_onCont_erase k) _ _

theorem removeAtSegs_cons2 (kvs : AMap Node) (p : String) {rest : List String} (h : rest ≠ []) :
    removeAtSegs kvs (p :: rest) =
      match child kvs p with
      | some (.cont c) => add kvs p (.cont (removeAtSegs c rest))
      | _ => kvs := by
  cases rest with
  | nil => exact absurd rfl h
  | cons q rest => rfl

/-- in a valid container no literal key ends in an index group -/
theorem get?_none_of_idx {kvs : AMap Node} (hv : (Node.cont kvs).Valid) {c : String} (h : segIdx c ≠ []) :
    AMap.get? kvs c = none := by
  cases hg : AMap.get? kvs c with
  | none => rfl
  | some x =>
    exfalso
    obtain ⟨_, hk⟩ := hv
    cases hk with
    | cont hk1 _ => exact h (segIdx_of_noSuffix (hk1 _ (AMap.mem_of_get? hg)))

/-- a remove path whose last component ends in an index group removes nothing (valid documents):
    `delete` on a literal key that no document built through the API has -/
theorem removeAtSegs_idx_last {last : String} (hl : segIdx last ≠ []) : ∀ (ps : List String) (kvs : AMap Node),
    (Node.cont kvs).Valid → removeAtSegs kvs (ps ++ [last]) = kvs
  | [], kvs, hv => by
    simp only [List.nil_append, removeAtSegs, remove]
    exact AMap.erase_of_get?_none (get?_none_of_idx hv hl)
  | p :: ps, kvs, hv => by
    rw [List.cons_append, removeAtSegs_cons2 kvs p (by simp)]
    cases hc : child kvs p with
    | none => rfl
    | some w =>
      cases w with
      | leaf _ => rfl
      | list _ => rfl
      | cont c =>
        simp only
        rw [removeAtSegs_idx_last hl ps c (child_valid hv hc), add_put_back hv.sorted hc]

theorem onCont_noncont (g : AMap Node → AMap Node) (w : Node) (hw : ∀ c, w ≠ .cont c) : onCont g w = w := by
  cases w with
  | cont c => exact absurd rfl (hw c)
  | leaf _ => rfl
  | list _ => rfl

/-- a remove path whose last component is a plain key: the key is deleted in the container at the
    parent path -/
theorem removeAtSegs_key_last (k : String) : ∀ (ps : List String) (kvs : AMap Node),
    (Node.cont kvs).Valid →
      Node.cont (removeAtSegs kvs (ps ++ [k])) = updN (onCont fun m => AMap.erase m k) (.cont kvs) (toSteps ps)
  | [], kvs, _ => by simp [removeAtSegs, remove, toSteps, updN, onCont]
  | p :: ps, kvs, hv => by
    rw [List.cons_append, removeAtSegs_cons2 kvs p (by simp)]
    have := comp_cont_updN (f := onCont fun m => AMap.erase m k) kvs hv.sorted p (toSteps ps)
      (fun c' => removeAtSegs c' (ps ++ [k]))
      (fun c' hc => removeAtSegs_key_last k ps c' (child_valid hv hc))
      (by
        intro w hw
        cases ps with
        | nil => simpa [toSteps, updN] using onCont_noncont _ w hw
        | cons q ps => exact updN_key_noncont (keyHead_toSteps _) (toSteps_ne_nil (by simp)) w hw)
    have e : toSteps (p :: ps) = segOfComp p ++ toSteps ps := by simp [toSteps]
    rw [e, ← this]

theorem segBase_of_idx_nil {c : String} (h : segIdx c = []) : segBase c = c := by
  have : parseSeg c = (segBase c, []) := by rw [← h]; rfl
  exact parseSeg_nil_base this

/-- stage 1 for `removeAtSegs` (ancestorOf(create=false) + Remove) -/
theorem removeAtSegs_removeN (cs : List String) (kvs : AMap Node) (hv : (Node.cont kvs).Valid) (hne : cs ≠ []) :
    Node.cont (removeAtSegs kvs cs) = removeN (.cont kvs) (toSteps cs) := by
  rcases List.eq_nil_or_concat cs with h | ⟨ps, last, rfl⟩
  · exact absurd h hne
  · rw [List.concat_eq_append] at *
    rw [toSteps_append, toSteps_cons, toSteps_nil, List.append_nil]
    rcases List.eq_nil_or_concat (segIdx last) with hi | ⟨is, j, hi⟩
    · rw [hi, List.map_nil, segBase_of_idx_nil hi]
      unfold removeN
      rw [show (toSteps ps ++ [PSeg.key last]).getLast? = some (PSeg.key last) by simp]
      simp only [List.dropLast_concat]
      exact removeAtSegs_key_last last ps kvs hv
    · have hl : segIdx last ≠ [] := by rw [hi]; simp
      rw [removeAtSegs_idx_last hl ps kvs hv, hi]
      unfold removeN
      rw [show (toSteps ps ++ PSeg.key (segBase last) :: List.map PSeg.idx (is.concat j)).getLast? =
        some (PSeg.idx j) by
          have e : toSteps ps ++ PSeg.key (segBase last) :: List.map PSeg.idx (is.concat j) =
              (toSteps ps ++ PSeg.key (segBase last) :: List.map PSeg.idx is) ++ [PSeg.idx j] := by simp
          rw [e, List.getLast?_concat]]

/-! ### lookup -/

theorem getN_idx : ∀ (is : List Nat) (c : Node) (r : List PSeg),
    getN c (is.map .idx ++ r) = match walkIdx (some c) is with
      | some w => getN w r
      | none => none
  | [], c, r => by simp [walkIdx]
  | i :: is, .leaf _, r => by simp [getN, walkIdx]
  | i :: is, .cont _, r => by simp [getN, walkIdx]
  | i :: is, .list xs, r => by
    simp only [List.map_cons, List.cons_append, getN, walkIdx]
    cases xs[i]? with
    | none => simp [walkIdx_none]
    | some x => exact getN_idx is x r

theorem comp_getN (kvs : AMap Node) (p : String) (r : List PSeg) :
    getN (.cont kvs) (segOfComp p ++ r) = match child kvs p with
      | some w => getN w r
      | none => none := by
  rw [segOfComp_eq, List.cons_append, child_eq_walk]
  simp only [getN]
  cases AMap.get? kvs (segBase p) with
  | none => simp [walkIdx_none]
  | some c => exact getN_idx _ c r

theorem getN_key_noncont {r : List PSeg} (hk : KeyHead r) (hne : r ≠ []) (w : Node)
    (hw : ∀ c, w ≠ .cont c) : getN w r = none := by
  cases r with
  | nil => exact absurd rfl hne
  | cons s r =>
    cases s with
    | idx i => exact absurd hk (by simp [KeyHead])
    | key k =>
      cases w with
      | cont c => exact absurd rfl (hw c)
      | leaf _ => simp [getN]
      | list _ => simp [getN]

/-- stage 1 for `lookupSegs` (Lookup) -/
theorem lookupSegs_getN : ∀ (cs : List String) (kvs : AMap Node), cs ≠ [] →
    lookupSegs kvs cs = getN (.cont kvs) (toSteps cs)
  | [], _, h => absurd rfl h
  | [c], kvs, _ => by
    have := comp_getN kvs c []
    simp only [List.append_nil] at this
    simp only [lookupSegs, toSteps, List.flatMap_cons, List.flatMap_nil, List.append_nil]
    rw [this]
    cases child kvs c <;> simp [getN]
  | c :: d :: ds, kvs, _ => by
    have e : toSteps (c :: d :: ds) = segOfComp c ++ toSteps (d :: ds) := by simp [toSteps]
    rw [e, comp_getN]
    simp only [lookupSegs]
    cases child kvs c with
    | none => rfl
    | some w =>
      cases w with
      | cont c' => exact lookupSegs_getN (d :: ds) c' (by simp)
      | leaf _ => exact (getN_key_noncont (keyHead_toSteps _) (toSteps_ne_nil (by simp)) _ (by simp)).symm
      | list _ => exact (getN_key_noncont (keyHead_toSteps _) (toSteps_ne_nil (by simp)) _ (by simp)).symm

/-! ### compaction -/

mutual
theorem encode_compactNode : ∀ (n : Node), encodeNode (compactNode n) = specCompact (encodeNode n)
  | .leaf _ => rfl
  | .list _ => rfl
  | .cont kvs => by simp only [compactNode, encodeNode, specCompact, encode_compactKvs kvs]
theorem encode_compactKvs : ∀ (kvs : List (String × Node)),
    encodeKvs (compactKvs kvs) = specCompactKvs (encodeKvs kvs)
  | [] => rfl
  | (k, x) :: r => by
    simp only [compactKvs, encodeKvs, specCompactKvs]
    rw [← encode_compactNode x]
    cases compactNode x with
    | leaf v => simp only [encodeNode, encodeKvs, encode_compactKvs r]
    | list xs => simp only [encodeNode, encodeKvs, encode_compactKvs r]
    | cont m =>
      cases m with
      | nil => simp only [encodeNode, encodeKvs, encode_compactKvs r]
      | cons q m =>
        obtain ⟨k', y⟩ := q
        simp only [encodeNode, encodeKvs, encode_compactKvs r]
end

/-! ### histories -/

/-- AsMap of a document -/
def encDoc (d : AMap Node) : Val := encodeNode (.cont d)

/-- The structured edit a builder call denotes.  A member NAME (`AddValue`, `AddContainer`, `AddList`,
    `Remove`) is one component — `segOfComp`: its key, then its index groups (`l[1][0]`); a PATH
    (`AddValueAt`, `RemoveAt`, the list a ListBuilder edits) is the dotted list of its components.
    Values cross by AsMap (`encodeNode`).  For rendered structured paths over path-safe keys this is
    the identity (`pathStepsOf_render`, `segOfComp_render` in YtkProps/C03.lean). -/
def toStructured : BOp → SOp
  | .addValue name v => .set (segOfComp name) (encodeNode v)
  | .addValueAt path v => .set (pathStepsOf path) (encodeNode v)
  | .addContainer name => .set (segOfComp name) (.obj [])
  | .addList name => .set (segOfComp name) (.arr [])
  | .remove name => .remove (segOfComp name)
  | .removeAt path => .remove (pathStepsOf path)
  | .listSet path i v => .listSet (pathStepsOf path) i (encodeNode v)
  | .listAppend path v => .listAppend (pathStepsOf path) (encodeNode v)
  | .listClear path => .listClear (pathStepsOf path)
  | .listMustSet path i v => .listMustSet (pathStepsOf path) i (encodeNode v)
  | .compact => .compact

/-- the list a ListBuilder call edits is addressed by a non-empty lookup path (`Lookup("")` is nil by
    definition, so there is no such ListBuilder) -/
def BOp.PathOk : BOp → Prop
  | .listSet p _ _ | .listAppend p _ | .listClear p | .listMustSet p _ _ => p ≠ ""
  | _ => True

theorem encode_onList {g : List Node → List Node} {G : List Val → List Val}
    (h : ∀ xs, (g xs).map encodeNode = G (xs.map encodeNode)) (x : Node) :
    encodeNode (onList g x) = onArr G (encodeNode x) := by
  cases x <;> simp [onList, onArr, encodeNode, encodeList_eq_map, h]

theorem encode_updateAt (d : AMap Node) (hv : (Node.cont d).Valid) (path : String) (hp : path ≠ "")
    {g : List Node → List Node} {G : List Val → List Val}
    (h : ∀ xs, (g xs).map encodeNode = G (xs.map encodeNode)) :
    encDoc (updateAt d path (onList g)) = updAt (onArr G) (encDoc d) (pathStepsOf path) := by
  unfold encDoc updateAt pathStepsOf
  rw [if_neg hp, updateAtSegs_updN _ _ d hv (splitPath_ne_nil path)]
  exact encode_updN (encode_onList h) _ _

theorem encode_removeAt (d : AMap Node) (hv : (Node.cont d).Valid) (path : String) :
    encDoc (removeAt d path) = specRemove (encDoc d) (pathStepsOf path) := by
  unfold encDoc removeAt pathStepsOf
  rw [removeAtSegs_removeN _ d hv (splitPath_ne_nil path), encode_removeN]

theorem encode_remove (d : AMap Node) (hv : (Node.cont d).Valid) (name : String) :
    encDoc (remove d name) = specRemove (encDoc d) (segOfComp name) := by
  have := removeAtSegs_removeN [name] d hv (by simp)
  simp only [removeAtSegs, toSteps, List.flatMap_cons, List.flatMap_nil, List.append_nil] at this
  unfold encDoc
  rw [this, encode_removeN]

theorem encode_lookup (d : AMap Node) (path : String) (hp : path ≠ "") :
    (lookup d path).map encodeNode = getAt (encDoc d) (pathStepsOf path) := by
  unfold lookup encDoc pathStepsOf
  rw [if_neg hp, lookupSegs_getN _ d (splitPath_ne_nil path), encode_getN]

/-- ONE builder call is the structured edit it denotes, on the AsMap of the document -/
theorem bstep_eq_specStep (d : AMap Node) (op : BOp) (hv : (Node.cont d).Valid) (hp : op.PathOk) :
    (bstep d op).map encDoc = specStep (encDoc d) (toStructured op) := by
  cases op with
  | addValue name v => exact congrArg Outcome.ok (encode_add d name v)
  | addValueAt path v => exact congrArg Outcome.ok (encode_addValueAt d path v)
  | addContainer name => exact congrArg Outcome.ok (encode_add d name (.cont []))
  | addList name => exact congrArg Outcome.ok (encode_add d name (.list []))
  | remove name => exact congrArg Outcome.ok (encode_remove d hv name)
  | removeAt path => exact congrArg Outcome.ok (encode_removeAt d hv path)
  | listSet path i v =>
    refine congrArg Outcome.ok (encode_updateAt d hv path hp ?_)
    intro xs
    simp [listSet, List.map_set, map_padTo]
  | listAppend path v =>
    refine congrArg Outcome.ok (encode_updateAt d hv path hp ?_)
    intro xs
    simp [listAppend]
  | listClear path =>
    refine congrArg Outcome.ok (encode_updateAt d hv path hp ?_)
    intro xs
    rfl
  | listMustSet path i v =>
    have hl := encode_lookup d path hp
    simp only [bstep, toStructured, specStep, specListMustSet]
    rw [← hl]
    cases hq : lookup d path with
    | none => rfl
    | some n =>
      cases n with
      | leaf _ => rfl
      | cont _ => rfl
      | list xs =>
        simp only [Option.map, encodeNode, encodeList_eq_map, List.length_map]
        split
        · refine congrArg Outcome.ok (encode_updateAt d hv path hp ?_)
          intro ys
          simp [List.map_set]
        · rfl
  | compact => exact congrArg Outcome.ok (congrArg Val.obj (encode_compactKvs d))

/-- a WHOLE history: the AsMap of the builder run is the run of the denoted structured edits on the
    AsMap of the start document — same document or same panic -/
theorem brun_eq_specRun : ∀ (h : List BOp) (d : AMap Node), (Node.cont d).Valid →
    (∀ op ∈ h, op.ValuesValid ∧ op.PathOk) →
    (brun d h).map encDoc = specRun (encDoc d) (h.map toStructured)
  | [], _, _, _ => rfl
  | op :: ops, d, hv, hh => by
    have h1 := bstep_eq_specStep d op hv (hh op (List.mem_cons_self ..)).2
    simp only [brun, List.map_cons, specRun]
    rw [← h1]
    cases hs : bstep d op with
    | ok d1 =>
      exact brun_eq_specRun ops d1 (bstep_valid hv (hh op (List.mem_cons_self ..)).1 hs)
        (fun o ho => hh o (List.mem_cons_of_mem _ ho))
    | err => rfl
    | panic => rfl

/-! ### structured histories: paths are rendered, never parsed -/

theorem segOfComp_compName {c : Comp} (h : SafeKey c.1) : segOfComp (compName c) = compSteps c := by
  rw [segOfComp_eq]
  unfold segBase segIdx compName
  rw [parseSeg_compStr h]
  rfl

theorem renderFrom_single (c : Comp) : renderFrom "" [c] = compName c := by
  have h : (renderFrom "" [c]).toList = compStr c := by
    simp only [renderFrom, List.foldl_cons, List.foldl_nil]
    exact extend_toList_empty c
  rw [← String.ofList_toList (s := renderFrom "" [c]), h]
  rfl

theorem flatMap_congr' {α β : Type} {f g : α → List β} : ∀ (l : List α), (∀ x ∈ l, f x = g x) →
    l.flatMap f = l.flatMap g
  | [], _ => rfl
  | a :: l, h => by
    simp only [List.flatMap_cons]
    rw [h a (List.mem_cons_self ..), flatMap_congr' l (fun x hx => h x (List.mem_cons_of_mem _ hx))]

/-- parse ∘ render = id on steps: the path string `ToPath` / `ToListPath` build from structured
    components over path-safe keys denotes exactly their steps -/
theorem pathStepsOf_renderFrom {cs : List Comp} (hne : cs ≠ []) (hs : ∀ x ∈ cs, SafeKey x.1) :
    pathStepsOf (renderFrom "" cs) = steps cs := by
  cases cs with
  | nil => exact absurd rfl hne
  | cons c cs =>
    unfold pathStepsOf toSteps steps
    rw [splitPath_renderFrom c cs hs, List.flatMap_map]
    apply flatMap_congr'
    intro x hx
    exact segOfComp_compName (hs x hx)

theorem segOfComp_renderFrom {c : Comp} (h : SafeKey c.1) : segOfComp (renderFrom "" [c]) = compSteps c := by
  rw [renderFrom_single, segOfComp_compName h]

/-- a builder call with STRUCTURED paths: a component is a key with index groups, a path a list of
    components -/
inductive POp where
  | addValue (c : Comp) (v : Node)
  | addValueAt (cs : List Comp) (v : Node)
  | addContainer (c : Comp)
  | addList (c : Comp)
  | remove (c : Comp)
  | removeAt (cs : List Comp)
  | listSet (cs : List Comp) (i : Nat) (v : Node)
  | listAppend (cs : List Comp) (v : Node)
  | listClear (cs : List Comp)
  | listMustSet (cs : List Comp) (i : Nat) (v : Node)
  | compact
  deriving Repr

/-- the call the Go program makes: path strings built by `ToPath` / `ToListPath` (`renderFrom`) -/
def POp.render : POp → BOp
  | .addValue c v => .addValue (renderFrom "" [c]) v
  | .addValueAt cs v => .addValueAt (renderFrom "" cs) v
  | .addContainer c => .addContainer (renderFrom "" [c])
  | .addList c => .addList (renderFrom "" [c])
  | .remove c => .remove (renderFrom "" [c])
  | .removeAt cs => .removeAt (renderFrom "" cs)
  | .listSet cs i v => .listSet (renderFrom "" cs) i v
  | .listAppend cs v => .listAppend (renderFrom "" cs) v
  | .listClear cs => .listClear (renderFrom "" cs)
  | .listMustSet cs i v => .listMustSet (renderFrom "" cs) i v
  | .compact => .compact

/-- the edit of the plain tree: no string anywhere -/
def POp.spec : POp → SOp
  | .addValue c v => .set (compSteps c) (encodeNode v)
  | .addValueAt cs v => .set (steps cs) (encodeNode v)
  | .addContainer c => .set (compSteps c) (.obj [])
  | .addList c => .set (compSteps c) (.arr [])
  | .remove c => .remove (compSteps c)
  | .removeAt cs => .remove (steps cs)
  | .listSet cs i v => .listSet (steps cs) i (encodeNode v)
  | .listAppend cs v => .listAppend (steps cs) (encodeNode v)
  | .listClear cs => .listClear (steps cs)
  | .listMustSet cs i v => .listMustSet (steps cs) i (encodeNode v)
  | .compact => .compact

def POp.comps : POp → List Comp
  | .addValue c _ | .addContainer c | .addList c | .remove c => [c]
  | .addValueAt cs _ | .removeAt cs | .listSet cs _ _ | .listAppend cs _ | .listClear cs | .listMustSet cs _ _ => cs
  | .compact => [("k", [])]

def POp.value : POp → Node
  | .addValue _ v | .addValueAt _ v | .listSet _ _ v | .listAppend _ v | .listMustSet _ _ v => v
  | _ => Node.null

/-- THE DOMAIN of a structured call: a non-empty path, path-safe keys (non-empty, no `.`, `[`, `]`),
    a valid value (sorted unique keys, none ending in an index group) -/
def POp.Ok (op : POp) : Prop := op.comps ≠ [] ∧ (∀ x ∈ op.comps, SafeKey x.1) ∧ op.value.Valid

/-- the domain, as a program -/
def POp.okB (op : POp) : Bool := !op.comps.isEmpty && op.comps.all (fun x => safeKeyB x.1) && op.value.validB

theorem POp.okB_sound {op : POp} (h : op.okB = true) : op.Ok := by
  simp only [POp.okB, Bool.and_eq_true, Bool.not_eq_true', List.all_eq_true] at h
  refine ⟨?_, fun x hx => safeKeyB_sound (h.1.2 x hx), Node.validB_sound _ h.2⟩
  intro e; rw [e] at h; simp at h

/-- a start document and a structured history inside the domain, as a program -/
def inDomB (d : AMap Node) (h : List POp) : Bool := (Node.cont d).validB && h.all POp.okB

theorem inDomB_sound {d : AMap Node} {h : List POp} (hd : inDomB d h = true) :
    (Node.cont d).Valid ∧ ∀ op ∈ h, op.Ok := by
  simp only [inDomB, Bool.and_eq_true, List.all_eq_true] at hd
  exact ⟨Node.validB_sound _ hd.1, fun op ho => POp.okB_sound (hd.2 op ho)⟩

theorem renderFrom_ne_empty' {cs : List Comp} (hne : cs ≠ []) (hs : ∀ x ∈ cs, SafeKey x.1) :
    renderFrom "" cs ≠ "" := by
  cases cs with
  | nil => exact absurd rfl hne
  | cons c cs => exact renderFrom_ne_empty c cs hs

theorem POp.toStructured_render {op : POp} (h : op.Ok) : toStructured op.render = op.spec := by
  obtain ⟨hne, hs, _⟩ := h
  cases op <;>
    simp only [POp.render, POp.spec, toStructured, POp.comps] at hne hs ⊢ <;>
    first
      | rfl
      | rw [segOfComp_renderFrom (hs _ (List.mem_cons_self ..))]
      | rw [pathStepsOf_renderFrom hne hs]

theorem POp.render_ok {op : POp} (h : op.Ok) : op.render.ValuesValid ∧ op.render.PathOk := by
  obtain ⟨hne, hs, hv⟩ := h
  cases op <;>
    simp only [POp.render, BOp.ValuesValid, BOp.PathOk, POp.comps, POp.value] at hne hs hv ⊢ <;>
    first
      | exact ⟨trivial, trivial⟩
      | exact ⟨hv, trivial⟩
      | exact ⟨hv, renderFrom_ne_empty' hne hs⟩
      | exact ⟨trivial, renderFrom_ne_empty' hne hs⟩

/-- structured histories: rendering the paths, running the builder's string-path algorithm and taking
    AsMap is running the structured edits on the plain tree -/
theorem brun_render_eq_specRun (d : AMap Node) (h : List POp) (hd : (Node.cont d).Valid) (hh : ∀ op ∈ h, op.Ok) :
    (brun d (h.map POp.render)).map encDoc = specRun (encDoc d) (h.map POp.spec) := by
  rw [brun_eq_specRun (h.map POp.render) d hd, List.map_map]
  · congr 1
    apply List.map_congr_left
    intro op ho
    exact POp.toStructured_render (hh op ho)
  · intro op ho
    obtain ⟨o, ho', rfl⟩ := List.mem_map.mp ho
    exact POp.render_ok (hh o ho')

end Ytk
