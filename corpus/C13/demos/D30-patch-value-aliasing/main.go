package main

import (
	"fmt"
	"os"

	"github.com/rkosegi/yaml-toolkit/dom"
	"github.com/rkosegi/yaml-toolkit/pipeline"
	"gopkg.in/yaml.v3"
)

func main() {
	var spec pipeline.ActionSpec
	src := `
forEach:
  item: [a, b]
  action:
    patch:
      op: add
      path: "/{{ .forEach }}"
      value: {x: 1}
`
	if err := yaml.Unmarshal([]byte(src), &spec); err != nil {
		panic(err)
	}
	d := dom.Builder().Container()
	ex := pipeline.New(pipeline.WithData(d))
	if err := ex.Execute(&spec); err != nil {
		panic(err)
	}
	fmt.Println("after forEach:", d.AsMap())
	// now edit a.x only
	d.AddValueAt("a.x", dom.LeafNode(2))
	fmt.Println("after a.x=2 :", d.AsMap())
	if fmt.Sprint(d.Lookup("b.x").(dom.Leaf).Value()) != "1" {
		fmt.Println("FAIL: editing a.x changed b.x (patch value node is shared)")
		os.Exit(1)
	}
	fmt.Println("PASS")
}
