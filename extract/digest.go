package main

// Source digests: one hash per top-level declaration of every non-test Go file of the repository,
// computed over the declaration printed by go/printer from an AST parsed WITHOUT comments, so that
// reformatting and comment edits do not change it.  ./check compares them with the digests recorded
// when the hand-written model was last validated (source_pins.json): a difference in a file a
// property is anchored in is not an alarm, it makes that property's run revalidate the model against
// the code with a larger case budget (DESIGN.md section 10.7).

import (
	"bytes"
	"crypto/sha256"
	"encoding/hex"
	"encoding/json"
	"fmt"
	"go/ast"
	"go/parser"
	"go/printer"
	"go/token"
	"os"
	"path/filepath"
	"sort"
	"strings"
)

func declName(d ast.Decl, idx int) []string {
	switch x := d.(type) {
	case *ast.FuncDecl:
		n := x.Name.Name
		if x.Recv != nil && len(x.Recv.List) > 0 {
			var b bytes.Buffer
			_ = printer.Fprint(&b, token.NewFileSet(), x.Recv.List[0].Type)
			n = strings.TrimPrefix(b.String(), "*") + "." + n
		}
		return []string{"func " + n}
	case *ast.GenDecl:
		var out []string
		for _, s := range x.Specs {
			switch y := s.(type) {
			case *ast.TypeSpec:
				out = append(out, "type "+y.Name.Name)
			case *ast.ValueSpec:
				for _, id := range y.Names {
					out = append(out, strings.ToLower(x.Tok.String())+" "+id.Name)
				}
			}
		}
		if len(out) == 0 {
			return nil // imports
		}
		return []string{strings.Join(out, ",")}
	}
	return []string{fmt.Sprintf("decl#%d", idx)}
}

func writeDigests(repo, outFile string) error {
	res := map[string]string{}
	err := filepath.Walk(repo, func(p string, info os.FileInfo, err error) error {
		if err != nil {
			return err
		}
		if info.IsDir() {
			if n := info.Name(); n == ".git" || n == "testdata" || n == "vendor" || (strings.HasPrefix(n, ".") && p != repo) {
				return filepath.SkipDir
			}
			return nil
		}
		if !strings.HasSuffix(p, ".go") || strings.HasSuffix(p, "_test.go") {
			return nil
		}
		rel, _ := filepath.Rel(repo, p)
		fset := token.NewFileSet()
		f, err := parser.ParseFile(fset, p, nil, 0) // no comments
		if err != nil {
			res[rel+"#parse-error"] = err.Error()
			return nil
		}
		for i, d := range f.Decls {
			names := declName(d, i)
			if names == nil {
				continue
			}
			var b bytes.Buffer
			_ = (&printer.Config{Mode: printer.RawFormat}).Fprint(&b, fset, d)
			h := sha256.Sum256(b.Bytes())
			key := rel + "#" + names[0]
			for n := 2; ; n++ { // two declarations of one name cannot occur, but keep keys unique anyway
				if _, dup := res[key]; !dup {
					break
				}
				key = fmt.Sprintf("%s#%s~%d", rel, names[0], n)
			}
			res[key] = hex.EncodeToString(h[:8])
		}
		return nil
	})
	if err != nil {
		return err
	}
	keys := make([]string, 0, len(res))
	for k := range res {
		keys = append(keys, k)
	}
	sort.Strings(keys)
	var b bytes.Buffer
	b.WriteString("{\n")
	for i, k := range keys {
		kk, _ := json.Marshal(k)
		vv, _ := json.Marshal(res[k])
		b.Write([]byte(" "))
		b.Write(kk)
		b.WriteString(": ")
		b.Write(vv)
		if i < len(keys)-1 {
			b.WriteString(",")
		}
		b.WriteString("\n")
	}
	b.WriteString("}\n")
	return os.WriteFile(outFile, b.Bytes(), 0o644)
}
