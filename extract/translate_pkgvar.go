package main

// translate_pkgvar.go — the one form of package-level variable the translator accepts (see
// translate_expr.go, case *ast.Ident): `var v = T{}` with T a slice type and NO other write to
// v anywhere in the package (no assignment, no `v[i] = …`, no `&v`, no ++/--, no append target).
// Such a variable is the constant empty slice; it is translated to `[]`.  Anything else fails loudly.

import (
	"go/ast"
	"go/token"
	"go/types"
)

func (x *xl) pkgVarEmptySlice(v *types.Var) bool {
	if _, ok := v.Type().Underlying().(*types.Slice); !ok {
		return false
	}
	info := x.p.info
	init := false
	written := false
	mentions := func(e ast.Expr) bool {
		r := false
		ast.Inspect(e, func(n ast.Node) bool {
			if id, ok := n.(*ast.Ident); ok && info.Uses[id] == v {
				r = true
			}
			return !r
		})
		return r
	}
	for _, f := range x.p.files {
		for _, d := range f.Decls {
			if gd, ok := d.(*ast.GenDecl); ok && gd.Tok == token.VAR {
				for _, sp := range gd.Specs {
					vs := sp.(*ast.ValueSpec)
					for i, n := range vs.Names {
						if info.Defs[n] != v {
							continue
						}
						if len(vs.Values) != len(vs.Names) {
							return false
						}
						cl, ok := vs.Values[i].(*ast.CompositeLit)
						if !ok || len(cl.Elts) != 0 {
							return false
						}
						init = true
					}
				}
			}
		}
		ast.Inspect(f, func(n ast.Node) bool {
			switch y := n.(type) {
			case *ast.AssignStmt:
				for _, l := range y.Lhs {
					if mentions(l) {
						written = true
					}
				}
			case *ast.IncDecStmt:
				if mentions(y.X) {
					written = true
				}
			case *ast.UnaryExpr:
				if y.Op == token.AND && mentions(y.X) {
					written = true
				}
			case *ast.RangeStmt:
				if (y.Key != nil && mentions(y.Key)) || (y.Value != nil && mentions(y.Value)) {
					written = true
				}
			}
			return true
		})
	}
	return init && !written
}
