package main

// translate_rec.go — extensions of the translator for props/resolver.go `resolve` /
// `resolvePlaceholder` / `Resolve` (hooks in translate.go, translate_expr.go, translate_stmt.go):
//
//   * function-typed values (`LookupFn`): `func(A) B` ↦ `(A → B)`, a PURE TOTAL function of the
//     model (the callee can neither panic nor have effects — an assumption on the caller's
//     function, stated in the theorems as "the lookup is a function"); a call `f(a)` ↦ `(f a)`;
//   * `&x` of a local variable of a non-composite type ↦ `(some x)` (pointer identity and
//     aliasing are not modelled: sound for values that are never written through the pointer,
//     which the translator enforces by rejecting `*p = …`);
//   * a method with a flattened receiver calling another method with a flattened receiver ON THE
//     SAME RECEIVER: the callee's flattened parameters are the caller's flattened parameters of the
//     same selector chains;
//   * direct self-recursion (`Rec: true` in the whitelist entry): the generated definition takes a
//     leading `Nat` fuel (after the flattened parameters), is `.fuel` at 0, and every self-call
//     runs with one unit less — `rec_` below.  A caller of a recursive function receives a
//     parameter `<callee>_fuel : Nat` and passes it on.

import (
	"fmt"
	"go/ast"
	"go/types"
	"strings"
)

const xlRecName = "rec_"

// sigType: Lean type of a function-typed value
func (w *xlWorld) sigType(sig *types.Signature) (string, error) {
	if sig.Recv() != nil || sig.Variadic() || sig.Results().Len() != 1 || sig.Params().Len() == 0 {
		return "", fmt.Errorf("unsupported function type %s", sig.String())
	}
	var ts []string
	for i := 0; i < sig.Params().Len(); i++ {
		t, err := w.leanType(sig.Params().At(i).Type())
		if err != nil {
			return "", err
		}
		ts = append(ts, t)
	}
	r, err := w.leanType(sig.Results().At(0).Type())
	if err != nil {
		return "", err
	}
	return "(" + strings.Join(append(ts, r), " → ") + ")", nil
}

// funcValueCall: `f(a, …)` where f is a local variable / parameter / flattened field of function type
func (x *xl) funcValueCall(c *ast.CallExpr) ([]string, string, bool, error) {
	t := x.typeOf(c.Fun)
	if t == nil {
		return nil, "", false, nil
	}
	if _, ok := t.Underlying().(*types.Signature); !ok {
		return nil, "", false, nil
	}
	switch f := c.Fun.(type) {
	case *ast.Ident:
		if _, ok := x.p.info.Uses[f].(*types.Var); !ok {
			return nil, "", false, nil
		}
	case *ast.SelectorExpr:
		if sel, ok := x.p.info.Selections[f]; !ok || sel.Kind() != types.FieldVal {
			return nil, "", false, nil
		}
	default:
		return nil, "", false, nil
	}
	bs, es, err := x.exprs(append([]ast.Expr{c.Fun}, c.Args...))
	if err != nil {
		return nil, "", true, err
	}
	return bs, "(" + strings.Join(es, " ") + ")", true, nil
}

// recvIsMine: the call is a method call whose receiver expression is this function's (flattened) receiver
func (x *xl) recvIsMine(c *ast.CallExpr) bool {
	sel, ok := c.Fun.(*ast.SelectorExpr)
	if !ok {
		return false
	}
	id, ok := sel.X.(*ast.Ident)
	return ok && x.f.Flatten && x.p.info.Uses[id] == x.recv
}

// flatCall: call of a translated flattened method on the same receiver; self-calls of a recursive function
func (x *xl) flatCall(c *ast.CallExpr, fn *types.Func) ([]string, string, bool, error) {
	self := x.f.Rec && fn == x.p.info.Defs[x.fd.Name]
	d := x.lookupDone(fn)
	if !self && (d == nil || d.flatKeys == nil && !d.rec) {
		return nil, "", false, nil
	}
	isMethod := false
	if sel, ok := c.Fun.(*ast.SelectorExpr); ok {
		if s, ok := x.p.info.Selections[sel]; ok && s.Kind() == types.MethodVal {
			isMethod = true
		}
	}
	if isMethod && !x.recvIsMine(c) {
		return nil, "", true, x.errf(c, "call of the flattened method %s on another receiver", fn.Name())
	}
	bs, es, err := x.exprs(c.Args)
	if err != nil {
		return nil, "", true, err
	}
	if self {
		x.touched[xlRecName] = true
		x.usesRec = true
		bs, t := x.bindTmp(bs, xlRecName+" "+strings.Join(es, " "))
		return bs, t, true, nil
	}
	var pre []string
	for i, key := range d.flatKeys {
		fp, err := x.flatParam(c, key, d.flatTypes[i]) // translate_dom.go
		if err != nil {
			return nil, "", true, err
		}
		pre = append(pre, fp)
	}
	if d.rec {
		fp := d.lean + "_fuel"
		if _, ok := x.opaque[fp]; !ok {
			x.opaque[fp] = fp
			x.used[fp] = true
			x.opaquePs = append(x.opaquePs, xlParam{fp, "Nat"})
		}
		x.touched[fp] = true
		pre = append(pre, fp)
	}
	app := d.lean + " " + strings.Join(append(pre, es...), " ")
	if d.monadic {
		bs, t := x.bindTmp(bs, app)
		return bs, t, true, nil
	}
	return bs, "(" + app + ")", true, nil
}

// flatKeyList: the selector chains of the flattened parameters, in parameter order
func (x *xl) flatKeyList() ([]string, []string) {
	keys, typs := []string{}, []string{}
	for _, p := range x.flatPs {
		for k, n := range x.flat {
			if n == p.name {
				keys, typs = append(keys, k), append(typs, p.typ)
			}
		}
	}
	return keys, typs
}

// emitRec: the definition of a directly self-recursive function
func (x *xl) emitRec(fn *types.Func, params []xlParam, retT string, body []string) (string, error) {
	w, f := x.w, x.f
	var fixed []xlParam
	for _, p := range x.opaquePs {
		if p.name != xlRecName {
			return "", fmt.Errorf("recursive function with opaque callees / recursive callees")
		}
	}
	fixed = append(fixed, x.flatPs...)
	var b strings.Builder
	for _, a := range x.aux {
		b.WriteString(a)
		b.WriteString("\n")
	}
	recv := ""
	if f.Recv != "" {
		recv = f.Recv + "."
	}
	fmt.Fprintf(&b, "/-- %s  %s.%s%s   source digest %s   (self-recursive: fuel) -/\n", w.relPos(x.fd.Pos()), f.Pkg, recv, f.Name, xlDigest(w.fset, x.fd))
	fmt.Fprintf(&b, "def %s", f.Lean)
	var fixedNames []string
	for _, a := range fixed {
		fmt.Fprintf(&b, " (%s : %s)", a.name, a.typ)
		fixedNames = append(fixedNames, a.name)
	}
	ts := []string{"Nat"}
	under := []string{"0"}
	names := []string{"fuel + 1"}
	for _, p := range params {
		ts = append(ts, p.typ)
		under = append(under, "_")
		names = append(names, p.name)
	}
	fmt.Fprintf(&b, " : %s → Go.Res %s\n", strings.Join(ts, " → "), retT)
	fmt.Fprintf(&b, "  | %s => .fuel\n", strings.Join(under, ", "))
	fmt.Fprintf(&b, "  | %s => do\n", strings.Join(names, ", "))
	fmt.Fprintf(&b, "    let %s := %s\n", xlRecName, strings.Join(append(append([]string{f.Lean}, fixedNames...), "fuel"), " "))
	b.WriteString(strings.Join(ind(ind(body)), "\n"))
	b.WriteString("\n")
	d := &xlDone{lean: f.Lean, monadic: true, nparams: -1, rec: true, f: f, sig: fn.Type().(*types.Signature)}
	d.flatKeys, d.flatTypes = x.flatKeyList()
	w.done[fn] = d
	return b.String(), nil
}
