package main

// translate_stmt.go — statements, loops and whole functions of the Go→Lean translator.
//
// Statement lists are translated in continuation style: `if c {A} else {B}; rest` becomes
// `if c then ⟦A; rest⟧ else ⟦B; rest⟧` (so an `if` / `match` is always the LAST element of a
// block and `return` inside a branch simply ends that branch).  Assignments become shadowing
// `let`s; every Go variable (go/types object) keeps ONE Lean name, so after a loop or in a
// recursive call the name always denotes the current value.

import (
	"fmt"
	"go/ast"
	"go/parser"
	"go/token"
	"go/types"
	"path/filepath"
	"sort"
	"strings"
)

type cont struct {
	ret  func(v string) string // the last line of a block ending in `return v`
	fall func() ([]string, error)
}

func (x *xl) pureWrap(s string) string {
	if x.monadic {
		return "pure " + s
	}
	return s
}

func (x *xl) blockKw() string {
	if x.monadic {
		return " do"
	}
	return ""
}

func ind(ls []string) []string {
	out := make([]string, 0, len(ls))
	for _, l := range ls {
		for _, p := range strings.Split(l, "\n") {
			out = append(out, "  "+p)
		}
	}
	return out
}

// lhsName: Lean name for an assignment target (identifier or `_`)
func (x *xl) lhsName(e ast.Expr) (string, types.Object, error) {
	id, ok := e.(*ast.Ident)
	if !ok {
		return "", nil, x.errf(e, "assignment to %T (only local variables can be assigned)", e)
	}
	if id.Name == "_" {
		return "_", nil, nil
	}
	o := x.p.info.Defs[id]
	if o == nil {
		o = x.p.info.Uses[id]
	}
	v, ok := o.(*types.Var)
	if !ok || v.IsField() || v.Parent() == v.Pkg().Scope() {
		return "", nil, x.errf(e, "assignment to %s (not a local variable)", id.Name)
	}
	return x.nameOf(v), v, nil
}

func (x *xl) zeroOf(n ast.Node, t types.Type) (string, error) {
	if isBuilder(t) || isStringy(t) {
		return "\"\"", nil
	}
	if isInty(t) {
		return "0", nil
	}
	if b, ok := t.Underlying().(*types.Basic); ok && b.Kind() == types.Bool {
		return "false", nil
	}
	return x.nilOf(n, t)
}

func (x *xl) rhs(e ast.Expr, t types.Type) ([]string, string, error) {
	if isNilIdent(x.p.info, e) {
		s, err := x.nilOf(e, t)
		return nil, s, err
	}
	return x.expr(e)
}

// simple: a statement without control flow; returns its `let` lines
func (x *xl) simple(s ast.Stmt) ([]string, error) {
	if x.w.dom {
		if l, ok, err := x.domSimple(s); ok || err != nil {
			return l, err
		}
	}
	switch y := s.(type) {
	case *ast.EmptyStmt:
		return nil, nil
	case *ast.AssignStmt:
		if y.Tok == token.DEFINE || y.Tok == token.ASSIGN {
			var lines []string
			if len(y.Lhs) == len(y.Rhs) {
				var vals, names []string
				for i := range y.Rhs {
					var lt types.Type
					var lo types.Object
					isDef := false
					if id, ok := y.Lhs[i].(*ast.Ident); ok && id.Name != "_" {
						o := x.p.info.Defs[id]
						isDef = o != nil
						if o == nil {
							o = x.p.info.Uses[id]
						}
						if o != nil {
							lt = o.Type()
							lo = o
						}
					}
					var b []string
					var v string
					var err error
					if x.w.dom && lo != nil && domKind(lt) != "" {
						if isDef && x.nullable(y.Rhs[i]) {
							x.optVars[lo] = true
						}
						b, v, err = x.exprTo(y.Rhs[i], lt, x.optVars[lo])
					} else {
						b, v, err = x.rhs(y.Rhs[i], lt)
					}
					if err != nil {
						return nil, err
					}
					lines = append(lines, b...)
					vals = append(vals, v)
				}
				for i := range y.Lhs {
					n, _, err := x.lhsName(y.Lhs[i])
					if err != nil {
						return nil, err
					}
					names = append(names, n)
				}
				return append(lines, fmt.Sprintf("let %s := %s", tupleVal(names), tupleVal(vals))), nil
			}
			if len(y.Rhs) == 1 {
				b, v, err := x.expr(y.Rhs[0])
				if err != nil {
					return nil, err
				}
				var names []string
				for i := range y.Lhs {
					n, _, err := x.lhsName(y.Lhs[i])
					if err != nil {
						return nil, err
					}
					names = append(names, n)
				}
				return append(b, fmt.Sprintf("let %s := %s", tupleVal(names), v)), nil
			}
			return nil, x.errf(s, "assignment shape")
		}
		ops := map[token.Token]token.Token{token.ADD_ASSIGN: token.ADD, token.SUB_ASSIGN: token.SUB, token.MUL_ASSIGN: token.MUL}
		op, ok := ops[y.Tok]
		if !ok || len(y.Lhs) != 1 || len(y.Rhs) != 1 {
			return nil, x.errf(s, "assignment operator %s", y.Tok)
		}
		n, _, err := x.lhsName(y.Lhs[0])
		if err != nil {
			return nil, err
		}
		be := &ast.BinaryExpr{X: y.Lhs[0], Op: op, Y: y.Rhs[0], OpPos: y.TokPos}
		b, v, err := x.binary(be)
		if err != nil {
			return nil, err
		}
		return append(b, fmt.Sprintf("let %s := %s", n, v)), nil
	case *ast.IncDecStmt:
		n, o, err := x.lhsName(y.X)
		if err != nil {
			return nil, err
		}
		if o == nil || !isInty(o.Type()) {
			return nil, x.errf(s, "++/-- on a non-int")
		}
		op := "+"
		if y.Tok == token.DEC {
			op = "-"
		}
		return []string{fmt.Sprintf("let %s := (%s %s 1)", n, n, op)}, nil
	case *ast.DeclStmt:
		gd, ok := y.Decl.(*ast.GenDecl)
		if !ok || gd.Tok != token.VAR {
			return nil, x.errf(s, "declaration")
		}
		var lines []string
		for _, sp := range gd.Specs {
			vs := sp.(*ast.ValueSpec)
			for i, id := range vs.Names {
				o := x.p.info.Defs[id]
				if id.Name == "_" || o == nil {
					return nil, x.errf(s, "blank declaration")
				}
				if len(vs.Values) == 0 && x.w.dom && domKind(o.Type()) != "" && domKind(o.Type()) != "any" {
					x.optVars[o] = true
					vt, err := x.varLeanType(o.(*types.Var))
					if err != nil {
						return nil, x.errf(s, "%v", err)
					}
					lines = append(lines, fmt.Sprintf("let %s : %s := none", x.nameOf(o), vt))
				} else if len(vs.Values) == len(vs.Names) && x.w.dom && domKind(o.Type()) != "" {
					if x.nullable(vs.Values[i]) {
						x.optVars[o] = true
					}
					b, v, err := x.exprTo(vs.Values[i], o.Type(), x.optVars[o])
					if err != nil {
						return nil, err
					}
					lines = append(append(lines, b...), fmt.Sprintf("let %s := %s", x.nameOf(o), v))
				} else if len(vs.Values) == 0 {
					z, err := x.zeroOf(id, o.Type())
					if err != nil {
						return nil, err
					}
					lines = append(lines, fmt.Sprintf("let %s := %s", x.nameOf(o), z))
				} else if len(vs.Values) == len(vs.Names) {
					b, v, err := x.rhs(vs.Values[i], o.Type())
					if err != nil {
						return nil, err
					}
					lines = append(append(lines, b...), fmt.Sprintf("let %s := %s", x.nameOf(o), v))
				} else {
					return nil, x.errf(s, "declaration shape")
				}
			}
		}
		return lines, nil
	case *ast.ExprStmt:
		if c, ok := y.X.(*ast.CallExpr); ok {
			if id, ok := c.Fun.(*ast.Ident); ok && len(c.Args) == 2 {
				// copy(dst, src) on a local slice variable: dst := Go.copyL dst src (the count is dropped)
				if b, ok := x.p.info.Uses[id].(*types.Builtin); ok && b.Name() == "copy" {
					if _, ok := x.typeOf(c.Args[1]).Underlying().(*types.Slice); !ok {
						return nil, x.errf(s, "copy from a string")
					}
					n, _, err := x.lhsName(c.Args[0])
					if err != nil {
						return nil, err
					}
					bs, v, err := x.expr(c.Args[1])
					if err != nil {
						return nil, err
					}
					return append(bs, fmt.Sprintf("let %s := (Go.copyL %s %s)", n, n, v)), nil
				}
			}
			if sel, ok := c.Fun.(*ast.SelectorExpr); ok {
				if id, ok := sel.X.(*ast.Ident); ok && isBuilder(x.typeOf(sel.X)) {
					n, _, err := x.lhsName(id)
					if err != nil {
						return nil, err
					}
					switch {
					case sel.Sel.Name == "WriteString" && len(c.Args) == 1:
						b, v, err := x.expr(c.Args[0])
						if err != nil {
							return nil, err
						}
						return append(b, fmt.Sprintf("let %s := (%s ++ %s)", n, n, v)), nil
					case (sel.Sel.Name == "WriteRune" || sel.Sel.Name == "WriteByte") && len(c.Args) == 1: // WriteByte: an ASCII byte is a character
						b, v, err := x.expr(c.Args[0])
						if err != nil {
							return nil, err
						}
						return append(b, fmt.Sprintf("let %s := (%s.push %s)", n, n, v)), nil
					case sel.Sel.Name == "Reset" && len(c.Args) == 0:
						return []string{fmt.Sprintf("let %s := \"\"", n)}, nil
					}
				}
			}
		}
		return nil, x.errf(s, "expression statement")
	}
	return nil, x.errf(s, "statement %T", s)
}

func isPanicStmt(info *types.Info, s ast.Stmt) (*ast.CallExpr, bool) {
	es, ok := s.(*ast.ExprStmt)
	if !ok {
		return nil, false
	}
	c, ok := es.X.(*ast.CallExpr)
	if !ok {
		return nil, false
	}
	id, ok := c.Fun.(*ast.Ident)
	if !ok {
		return nil, false
	}
	b, ok := info.Uses[id].(*types.Builtin)
	return c, ok && b.Name() == "panic"
}

// block translates a statement list followed by the continuation k
func (x *xl) block(stmts []ast.Stmt, k *cont) ([]string, error) {
	var lines []string
	for i, s := range stmts {
		rest := stmts[i+1:]
		if x.w.dom && x.declThenAssign(s, rest) {
			// `var v T` directly followed by `v = e`: the same as `v := e` (v is not nil-able on that account)
			continue
		}
		if c, ok := isPanicStmt(x.p.info, s); ok {
			b, _, err := x.exprs(c.Args)
			if err != nil {
				return nil, err
			}
			return append(append(lines, b...), "Go.Res.panic"), nil
		}
		switch y := s.(type) {
		case *ast.BlockStmt:
			// a nested block: names are per object, so it can be spliced
			more, err := x.block(append(append([]ast.Stmt{}, y.List...), rest...), k)
			if err != nil {
				return nil, err
			}
			return append(lines, more...), nil
		case *ast.ReturnStmt:
			if x.recvAcc {
				var rid *ast.Ident
				if len(y.Results) == 1 {
					rid, _ = y.Results[0].(*ast.Ident)
				}
				if rid == nil || x.p.info.Uses[rid] != x.acc {
					return nil, x.errf(s, "a method with Acc $recv must return its receiver")
				}
				return append(lines, k.ret(x.nameOf(x.acc))), nil
			}
			if len(y.Results) != len(x.results) {
				return nil, x.errf(s, "return with %d values (function has %d results)", len(y.Results), len(x.results))
			}
			var vals []string
			for j, r := range y.Results {
				var b []string
				var v string
				var err error
				if x.w.dom && x.f.External == "" {
					b, v, err = x.exprTo(r, x.results[j], x.f.NullRes)
				} else {
					b, v, err = x.rhs(r, x.results[j])
				}
				if err != nil {
					return nil, err
				}
				lines = append(lines, b...)
				vals = append(vals, v)
			}
			if x.acc != nil {
				vals = append(vals, x.nameOf(x.acc))
			}
			return append(lines, k.ret(tupleVal(vals))), nil
		case *ast.IfStmt:
			if x.w.dom && y.Init != nil {
				if l, ok, err := x.optionMatch(y, rest, k); ok || err != nil {
					if err != nil {
						return nil, err
					}
					return append(lines, l...), nil
				}
			}
			if y.Init != nil {
				l, err := x.simple(y.Init)
				if err != nil {
					return nil, err
				}
				lines = append(lines, l...)
			}
			b, c, err := x.expr(y.Cond)
			if err != nil {
				return nil, err
			}
			lines = append(lines, b...)
			thenL, err := x.block(append(append([]ast.Stmt{}, y.Body.List...), rest...), k)
			if err != nil {
				return nil, err
			}
			var elseS []ast.Stmt
			if y.Else != nil {
				elseS = []ast.Stmt{y.Else}
			}
			elseL, err := x.block(append(elseS, rest...), k)
			if err != nil {
				return nil, err
			}
			lines = append(lines, "if "+c+" then")
			lines = append(lines, ind(thenL)...)
			lines = append(lines, "else")
			lines = append(lines, ind(elseL)...)
			return lines, nil
		case *ast.SwitchStmt:
			l, err := x.switchStmt(y, rest, k)
			if err != nil {
				return nil, err
			}
			return append(lines, l...), nil
		case *ast.ForStmt, *ast.RangeStmt:
			l, done, err := x.loop(s, rest, k)
			if err != nil {
				return nil, err
			}
			lines = append(lines, l...)
			if done {
				return lines, nil
			}
		default:
			l, err := x.simple(s)
			if err != nil {
				return nil, err
			}
			lines = append(lines, l...)
		}
	}
	f, err := k.fall()
	if err != nil {
		return nil, err
	}
	return append(lines, f...), nil
}

func (x *xl) switchStmt(y *ast.SwitchStmt, rest []ast.Stmt, k *cont) ([]string, error) {
	var lines []string
	if y.Init != nil {
		l, err := x.simple(y.Init)
		if err != nil {
			return nil, err
		}
		lines = append(lines, l...)
	}
	tag := ""
	if y.Tag != nil {
		b, t, err := x.expr(y.Tag)
		if err != nil {
			return nil, err
		}
		if _, ok := x.typeOf(y.Tag).Underlying().(*types.Basic); !ok {
			return nil, x.errf(y, "switch on %s", x.typeOf(y.Tag))
		}
		lines = append(lines, b...)
		tag = x.newTmp()
		lines = append(lines, fmt.Sprintf("let %s := %s", tag, t))
	}
	var def *ast.CaseClause
	type arm struct {
		cond string
		body []ast.Stmt
	}
	var arms []arm
	for _, cs := range y.Body.List {
		cc := cs.(*ast.CaseClause)
		for _, st := range cc.Body {
			if br, ok := st.(*ast.BranchStmt); ok {
				return nil, x.errf(br, "%s in switch", br.Tok)
			}
		}
		if cc.List == nil {
			def = cc
			continue
		}
		var cs []string
		for _, e := range cc.List {
			if x.impure(e) {
				return nil, x.errf(e, "case expression that can panic")
			}
			_, v, err := x.expr(e)
			if err != nil {
				return nil, err
			}
			if tag != "" {
				v = fmt.Sprintf("(%s == %s)", tag, v)
			}
			cs = append(cs, v)
		}
		c := cs[0]
		if len(cs) > 1 {
			c = "(" + strings.Join(cs, " || ") + ")"
		}
		arms = append(arms, arm{c, cc.Body})
	}
	var build func(i int) ([]string, error)
	build = func(i int) ([]string, error) {
		if i == len(arms) {
			var body []ast.Stmt
			if def != nil {
				body = def.Body
			}
			return x.block(append(append([]ast.Stmt{}, body...), rest...), k)
		}
		thenL, err := x.block(append(append([]ast.Stmt{}, arms[i].body...), rest...), k)
		if err != nil {
			return nil, err
		}
		elseL, err := build(i + 1)
		if err != nil {
			return nil, err
		}
		out := []string{"if " + arms[i].cond + " then"}
		out = append(out, ind(thenL)...)
		out = append(out, "else")
		return append(out, ind(elseL)...), nil
	}
	l, err := build(0)
	if err != nil {
		return nil, err
	}
	return append(lines, l...), nil
}

// ---------------------------------------------------------------- loops

func containsReturn(n ast.Node) bool {
	r := false
	ast.Inspect(n, func(m ast.Node) bool {
		if _, ok := m.(*ast.ReturnStmt); ok {
			r = true
		}
		if _, ok := m.(*ast.FuncLit); ok {
			return false
		}
		return !r
	})
	return r
}

// loopVars: local variables declared before `from` that the loop nodes assign (state) or only read (captured)
func (x *xl) loopVars(nodes []ast.Node, before token.Pos, extraOutside map[types.Object]bool) (state, captured []*types.Var, err error) {
	info := x.p.info
	assigned := map[*types.Var]bool{}
	usedV := map[*types.Var]bool{}
	outside := func(o types.Object) (*types.Var, bool) {
		v, ok := o.(*types.Var)
		if !ok || v.IsField() || v.Pkg() == nil || v.Parent() == v.Pkg().Scope() {
			return nil, false
		}
		if x.f.Flatten && o == x.recv {
			return nil, false
		}
		return v, v.Pos() < before || extraOutside[o]
	}
	mark := func(e ast.Expr) {
		if id, ok := e.(*ast.Ident); ok && id.Name != "_" {
			o := info.Uses[id]
			if o == nil {
				return // a definition inside the loop
			}
			if v, ok := outside(o); ok {
				assigned[v] = true
			}
		}
	}
	for _, n := range nodes {
		if n == nil {
			continue
		}
		ast.Inspect(n, func(m ast.Node) bool {
			switch y := m.(type) {
			case *ast.FuncLit:
				err = x.errf(y, "function literal")
				return false
			case *ast.BranchStmt:
				err = x.errf(y, "%s", y.Tok)
			case *ast.AssignStmt:
				for _, l := range y.Lhs {
					mark(l)
					switch l2 := l.(type) {
					case *ast.IndexExpr:
						mark(l2.X)
						if s3, ok := l2.X.(*ast.SelectorExpr); ok {
							mark(s3.X) // c.children[k] = v
						}
					case *ast.SelectorExpr:
						mark(l2.X)
					case *ast.StarExpr:
						mark(l2.X)
					}
				}
			case *ast.CallExpr:
				if x.acc != nil {
					for _, a := range y.Args {
						if id, ok := a.(*ast.Ident); ok && info.Uses[id] == x.acc {
							mark(a)
						}
					}
				}
			case *ast.IncDecStmt:
				mark(y.X)
			case *ast.UnaryExpr:
				if y.Op == token.AND && x.w.dom {
					mark(y.X) // `&v` handed to a callee's accumulator parameter
				}
			case *ast.RangeStmt:
				if y.Tok == token.ASSIGN {
					mark(y.Key)
					mark(y.Value)
				}
			case *ast.ExprStmt:
				if c, ok := y.X.(*ast.CallExpr); ok {
					if sel, ok := c.Fun.(*ast.SelectorExpr); ok && isBuilder(x.typeOf(sel.X)) {
						mark(sel.X)
					}
					if id, ok := c.Fun.(*ast.Ident); ok && len(c.Args) == 2 {
						if b, ok := info.Uses[id].(*types.Builtin); ok && b.Name() == "copy" {
							mark(c.Args[0])
						}
					}
					if sel, ok := c.Fun.(*ast.SelectorExpr); ok && x.w.dom && domKind(x.typeOf(sel.X)) != "" {
						mark(sel.X) // statement call of a builder method
					}
					if fn := x.calleeFunc(c); fn != nil && fn.Pkg() != nil && fn.Pkg().Path() == "slices" && len(c.Args) == 1 {
						mark(c.Args[0])
					}
				}
			case *ast.Ident:
				if o := info.Uses[y]; o != nil {
					if v, ok := outside(o); ok {
						usedV[v] = true
					}
				}
			}
			return true
		})
	}
	if err != nil {
		return nil, nil, err
	}
	for v := range usedV {
		if assigned[v] {
			state = append(state, v)
		} else {
			captured = append(captured, v)
		}
	}
	for v := range assigned {
		if !usedV[v] {
			state = append(state, v)
		}
	}
	byPos := func(vs []*types.Var) {
		sort.Slice(vs, func(i, j int) bool { return vs[i].Pos() < vs[j].Pos() })
	}
	byPos(state)
	byPos(captured)
	return state, captured, nil
}

// loop translates a for / range statement; done = the rest has been consumed
func (x *xl) loop(s ast.Stmt, rest []ast.Stmt, k *cont) ([]string, bool, error) {
	var lines []string
	var body *ast.BlockStmt
	var nodes []ast.Node
	extra := map[types.Object]bool{}
	fs, isFor := s.(*ast.ForStmt)
	rs, _ := s.(*ast.RangeStmt)
	isMapRange := false
	var idxObj types.Object
	if isFor {
		if fs.Init != nil {
			l, err := x.simple(fs.Init)
			if err != nil {
				return nil, false, err
			}
			lines = append(lines, l...)
			if as, ok := fs.Init.(*ast.AssignStmt); ok {
				for _, l := range as.Lhs {
					if id, ok := l.(*ast.Ident); ok {
						if o := x.p.info.Defs[id]; o != nil {
							extra[o] = true
						}
					}
				}
			}
		}
		body = fs.Body
		if fs.Cond != nil {
			nodes = append(nodes, fs.Cond)
		}
		if fs.Post != nil {
			nodes = append(nodes, fs.Post)
		}
		nodes = append(nodes, fs.Body)
	} else {
		body = rs.Body
		nodes = []ast.Node{rs.Body}
		if _, ok := x.typeOf(rs.X).Underlying().(*types.Map); ok && x.w.dom && (domKind(x.typeOf(rs.X)) == "cont" || domKind(x.typeOf(rs.X)) == "leafmap") {
			isMapRange = true
		}
		if rs.Key != nil && !isMapRange {
			if id, ok := rs.Key.(*ast.Ident); !ok || id.Name != "_" {
				if !x.w.dom || !ok {
					return nil, false, x.errf(rs, "range with an index variable")
				}
				idxObj = x.p.info.Defs[id]
			}
		}
		if rs.Tok == token.ASSIGN {
			return nil, false, x.errf(rs, "range assigning to existing variables")
		}
		if _, ok := x.typeOf(rs.X).Underlying().(*types.Slice); !ok && !isMapRange {
			return nil, false, x.errf(rs, "range over %s", x.typeOf(rs.X))
		}
	}
	state, captured, err := x.loopVars(nodes, s.Pos(), extra)
	if err != nil {
		return nil, false, err
	}
	x.loopN++
	loopNo := x.loopN
	name := fmt.Sprintf("%s_loop%d", x.f.Lean, loopNo)
	hasRet := containsReturn(body)
	// `for { … }` without condition (break is rejected): the loop is left by `return` only
	condless := isFor && fs.Cond == nil
	if condless && !hasRet {
		return nil, false, x.errf(s, "for loop without condition and without return")
	}

	var stNames, stTypes []string
	for _, v := range state {
		t, err := x.varLeanType(v)
		if err != nil {
			return nil, false, x.errf(s, "%v", err)
		}
		stNames, stTypes = append(stNames, x.nameOf(v)), append(stTypes, t)
	}
	sigma := tupleType(stTypes)
	retT, err := x.resultType()
	if err != nil {
		return nil, false, err
	}
	outT := sigma
	if condless {
		outT = retT
	} else if hasRet {
		outT = fmt.Sprintf("(Go.Ctl %s %s)", retT, sigma)
	}
	if x.monadic {
		outT = "Go.Res " + outT
	}
	exitVal := tupleVal(stNames)
	if hasRet {
		exitVal = "(.next " + exitVal + ")"
	}
	exitVal = x.pureWrap(exitVal)

	// the range / fuel argument (evaluated before the loop)
	var driverArg, driverT, pat0, patS string
	restName := ""
	idxName := ""
	if isFor {
		if x.fuelIdx >= len(x.f.Fuel) {
			return nil, false, x.errf(s, "for loop without a fuel expression in the whitelist entry")
		}
		fe, err := parser.ParseExpr(substParams(x.f.Fuel[x.fuelIdx], x.goParamNames))
		if err != nil {
			return nil, false, fmt.Errorf("fuel expression %q: %v", x.f.Fuel[x.fuelIdx], err)
		}
		x.fuelIdx++
		if err := types.CheckExpr(x.w.fset, x.p.pkg, s.Pos(), fe, x.p.info); err != nil {
			return nil, false, fmt.Errorf("%s: fuel expression: %v", x.w.fset.Position(s.Pos()), err)
		}
		if x.impure(fe) {
			return nil, false, x.errf(s, "fuel expression that can panic")
		}
		_, fv, err := x.expr(fe)
		if err != nil {
			return nil, false, err
		}
		driverArg, driverT, pat0, patS = fv+".toNat", "Nat", "0", "fuel + 1"
	} else {
		b, v, err := x.expr(rs.X)
		if err != nil {
			return nil, false, err
		}
		lines = append(lines, b...)
		var et string
		if isMapRange && domKind(x.typeOf(rs.X)) == "leafmap" {
			et = "(String × GoDom.Leaf)"
		} else if isMapRange {
			et = "(String × Node)"
		} else {
			et, err = x.w.leanType(x.typeOf(rs.X).Underlying().(*types.Slice).Elem())
			if err != nil {
				return nil, false, x.errf(rs, "%v", err)
			}
		}
		elem := "_"
		if id, ok := rs.Value.(*ast.Ident); ok && id.Name != "_" {
			elem = x.nameOf(x.p.info.Defs[id])
		}
		if isMapRange {
			key := "_"
			if id, ok := rs.Key.(*ast.Ident); ok && id.Name != "_" {
				key = x.nameOf(x.p.info.Defs[id])
			}
			elem = "(" + key + ", " + elem + ")"
		}
		restName = x.fresh("rest")
		driverArg, driverT, pat0, patS = v, "(List "+et+")", "[]", elem+" :: "+restName
		if idxObj != nil {
			// `for i, x := range xs`: a counter next to the list
			idxName = x.nameOf(idxObj)
			driverArg, driverT, pat0, patS = v+") (0", "(List "+et+") → Int", "[], "+idxName, elem+" :: "+restName+", "+idxName
		}
	}

	// body of the auxiliary definition
	savedTouched := x.touched
	x.touched = map[string]bool{}
	var capNames []string
	for _, v := range captured {
		capNames = append(capNames, x.nameOf(v))
	}
	recArg := "fuel"
	if !isFor {
		recArg = restName
		if idxName != "" {
			recArg = restName + " (" + idxName + " + 1)"
		}
	}
	callWith := func(caps []string, drv string) string {
		parts := append([]string{name}, caps...)
		parts = append(parts, drv)
		parts = append(parts, stNames...)
		return strings.Join(parts, " ")
	}
	const capMark = "\x00CAPS\x00"
	inner := &cont{
		ret: func(v string) string { return x.pureWrap("(.ret " + v + ")") },
		fall: func() ([]string, error) {
			var l []string
			if isFor && fs.Post != nil {
				p, err := x.simple(fs.Post)
				if err != nil {
					return nil, err
				}
				l = append(l, p...)
			}
			return append(l, callWith([]string{capMark}, recArg)), nil
		},
	}
	if !hasRet {
		inner.ret = func(string) string { return "" }
	}
	if condless {
		inner.ret = func(v string) string { return x.pureWrap(v) }
	}
	var bodyL []string
	if isFor && fs.Cond != nil {
		b, c, err := x.expr(fs.Cond)
		if err != nil {
			return nil, false, err
		}
		bl, err := x.block(body.List, inner)
		if err != nil {
			return nil, false, err
		}
		bodyL = append(bodyL, b...)
		bodyL = append(bodyL, "if "+c+" then")
		bodyL = append(bodyL, ind(bl)...)
		bodyL = append(bodyL, "else")
		bodyL = append(bodyL, "  "+exitVal)
	} else {
		bl, err := x.block(body.List, inner)
		if err != nil {
			return nil, false, err
		}
		bodyL = bl
	}
	// flattened-receiver / opaque parameters referenced inside the loop are captured too
	var extraCaps []xlParam
	for _, p := range append(append(append([]xlParam{}, x.recPs...), x.opaquePs...), x.flatPs...) {
		if x.touched[p.name] {
			extraCaps = append(extraCaps, p)
		}
	}
	for n := range x.touched {
		savedTouched[n] = true
	}
	x.touched = savedTouched
	var allCaps []string
	var capDecl []string
	for _, p := range extraCaps {
		allCaps = append(allCaps, p.name)
		capDecl = append(capDecl, fmt.Sprintf("(%s : %s)", p.name, p.typ))
	}
	for _, v := range captured {
		t, err := x.varLeanType(v)
		if err != nil {
			return nil, false, x.errf(s, "%v", err)
		}
		allCaps = append(allCaps, x.nameOf(v))
		capDecl = append(capDecl, fmt.Sprintf("(%s : %s)", x.nameOf(v), t))
	}
	capsTxt := strings.Join(allCaps, " ")
	for i := range bodyL {
		repl := name + " "
		if capsTxt != "" {
			repl += capsTxt + " "
		}
		bodyL[i] = strings.ReplaceAll(bodyL[i], name+" "+capMark+" ", repl)
	}
	hdr := "def " + name
	if len(capDecl) > 0 {
		hdr += " " + strings.Join(capDecl, " ")
	}
	var d strings.Builder
	fmt.Fprintf(&d, "/-- loop %d of %s (%s) -/\n", loopNo, x.f.Lean, x.w.relPos(s.Pos()))
	fmt.Fprintf(&d, "%s : %s → %s\n", hdr, strings.Join(append([]string{driverT}, stTypes...), " → "), outT)
	under := make([]string, len(stNames))
	for i := range under {
		under[i] = "_"
	}
	if isFor {
		fmt.Fprintf(&d, "  | %s => .fuel\n", strings.Join(append([]string{pat0}, under...), ", "))
	} else {
		fmt.Fprintf(&d, "  | %s => %s\n", strings.Join(append([]string{pat0}, stNames...), ", "), exitVal)
	}
	fmt.Fprintf(&d, "  | %s =>%s\n", strings.Join(append([]string{patS}, stNames...), ", "), x.blockKw())
	d.WriteString(strings.Join(ind(ind(bodyL)), "\n"))
	d.WriteString("\n")
	x.aux = append(x.aux, d.String())

	// the call site
	call := strings.Join(append(append([]string{name}, allCaps...), append([]string{"(" + driverArg + ")"}, stNames...)...), " ")
	for _, c := range allCaps {
		x.touched[c] = true
	}
	if !hasRet {
		if x.monadic {
			pat := tupleVal(stNames)
			if len(stNames) == 0 {
				pat = "_"
			}
			lines = append(lines, fmt.Sprintf("let %s ← %s", pat, call))
		} else {
			pat := tupleVal(stNames)
			if len(stNames) == 0 {
				pat = "_"
			}
			lines = append(lines, fmt.Sprintf("let %s := %s", pat, call))
		}
		return lines, false, nil
	}
	r := x.fresh("r")
	if condless {
		lines = append(lines, fmt.Sprintf("let %s ← %s", r, call), k.ret(r))
		return lines, true, nil
	}
	restL, err := x.block(rest, k)
	if err != nil {
		return nil, false, err
	}
	if x.monadic {
		lines = append(lines, "match ← "+call+" with")
	} else {
		lines = append(lines, "match "+call+" with")
	}
	lines = append(lines, "| .ret "+r+" => "+k.ret(r))
	lines = append(lines, "| .next "+tupleVal(stNames)+" =>"+x.blockKw())
	lines = append(lines, ind(restL)...)
	return lines, true, nil
}

func (w *xlWorld) relPos(p token.Pos) string {
	pos := w.fset.Position(p)
	rel, err := filepath.Rel(w.repo, pos.Filename)
	if err != nil {
		rel = pos.Filename
	}
	return fmt.Sprintf("%s:%d", rel, pos.Line)
}

func (x *xl) resultType() (string, error) {
	var ts []string
	for _, t := range x.results {
		s, err := x.w.leanType(t)
		if err != nil {
			return "", err
		}
		if x.f.NullRes {
			s = "(Option " + s + ")"
		}
		ts = append(ts, s)
	}
	if x.acc != nil {
		s, err := x.varLeanType(x.acc)
		if err != nil {
			return "", err
		}
		ts = append(ts, s)
	}
	return tupleType(ts), nil
}

// ---------------------------------------------------------------- functions

func (x *xl) scanMonadic(body *ast.BlockStmt) bool {
	r := false
	ast.Inspect(body, func(n ast.Node) bool {
		switch n.(type) {
		case *ast.ForStmt:
			r = true
		}
		return !r
	})
	return r || x.impure2(body)
}

func (x *xl) impure2(n ast.Node) bool {
	r := false
	ast.Inspect(n, func(m ast.Node) bool {
		switch y := m.(type) {
		case *ast.IndexExpr, *ast.SliceExpr, *ast.StarExpr:
			r = true
		case *ast.CallExpr:
			if x.calleeMonadic(y) {
				r = true
			}
		}
		return !r
	})
	return r
}

func (w *xlWorld) translateFunc(repo string, p *xlPkg, f *xlFunc, fd *ast.FuncDecl) (string, error) {
	if f.Dispatch != "" {
		return w.translateDispatch(p, f)
	}
	fn := p.info.Defs[fd.Name].(*types.Func)
	sig := fn.Type().(*types.Signature)
	domMode := w.dom && f.External == ""
	xlPlainMode = domMode && f.Plain
	defer func() { xlPlainMode = false }()
	x := &xl{w: w, p: p, f: f, fd: fd, names: map[types.Object]string{}, used: map[string]bool{}, flat: map[string]string{},
		opaque: map[string]string{}, touched: map[string]bool{}, optVars: map[types.Object]bool{}, paramObjs: map[types.Object]bool{},
		inGroup: map[*types.Func]bool{}, dispatch: map[string]string{},
		mutated: map[types.Object]bool{}, accAlias: map[types.Object]bool{}}
	if !domMode {
		// the plain subset of translate.go
		saved := w.dom
		w.dom = false
		defer func() { w.dom = saved }()
	}
	x.monadic = domMode || x.scanMonadic(fd.Body) || f.Rec
	null := map[string]bool{}
	for _, n := range f.Nullable {
		null[n] = true
	}
	var params []xlParam
	addParam := func(v *types.Var) error {
		x.paramObjs[v] = true
		var t string
		var err error
		if f.Acc == "$recv" && v == sig.Recv() {
			// the method mutates its own receiver and returns it: the receiver is the threaded value
			if k := domKind(v.Type()); !domMode || (k != "list" && k != "cont") || sig.Results().Len() != 1 || domKind(sig.Results().At(0).Type()) != k {
				return fmt.Errorf("Acc $recv needs a list / container builder receiver and that builder as the single result")
			}
			x.acc, x.recvAcc = v, true
			t, err = w.leanType(v.Type())
		} else if f.Acc != "" && v.Name() == f.Acc {
			pt, ok := v.Type().Underlying().(*types.Pointer)
			if !ok {
				return fmt.Errorf("accumulator %s is not a pointer", f.Acc)
			}
			x.acc = v
			t, err = w.leanType(pt.Elem())
		} else {
			t, err = w.leanType(v.Type())
		}
		if err != nil {
			return fmt.Errorf("%s: parameter %s: %v", w.fset.Position(v.Pos()), v.Name(), err)
		}
		if null[v.Name()] {
			if !domMode || domKind(v.Type()) == "" {
				return fmt.Errorf("parameter %s cannot be Nullable", v.Name())
			}
			delete(null, v.Name())
			x.optVars[v] = true
			t = "(Option " + t + ")"
		}
		n := ""
		if v.Name() == "" || v.Name() == "_" {
			n = x.fresh("arg")
		} else {
			n = x.nameOf(v)
		}
		params = append(params, xlParam{n, t})
		return nil
	}
	if r := sig.Recv(); r != nil {
		if f.Flatten {
			x.recv = r
		} else if err := addParam(r); err != nil {
			return "", err
		} else {
			// `$0` in fuel expressions = the (non-flattened) receiver
			x.goParamNames, x.leanParamNames = []string{"$0", r.Name()}, []string{"$0", params[0].name}
		}
	}
	paramVars := []*types.Var{}
	for i := 0; i < sig.Params().Len(); i++ {
		paramVars = append(paramVars, sig.Params().At(i))
	}
	resultTuple := sig.Results()
	bodyList := fd.Body.List
	if f.Curried {
		// `func F(a) func(b) T { return func(b) T { body } }` ↦ F a b := ⟦body⟧
		lit, lsig, err := x.curriedLit(fd)
		if err != nil {
			return "", err
		}
		for i := 0; i < lsig.Params().Len(); i++ {
			paramVars = append(paramVars, lsig.Params().At(i))
		}
		resultTuple, bodyList = lsig.Results(), lit.Body.List
	}
	for _, pv := range paramVars {
		if err := addParam(pv); err != nil {
			return "", err
		}
		x.goParamNames = append(x.goParamNames, pv.Name())
		x.leanParamNames = append(x.leanParamNames, params[len(params)-1].name)
	}
	if len(null) > 0 {
		return "", fmt.Errorf("Nullable names a parameter that does not exist")
	}
	if f.Acc != "" && x.acc == nil {
		return "", fmt.Errorf("accumulator parameter %s not found", f.Acc)
	}
	if sig.Variadic() && !domMode {
		return "", fmt.Errorf("variadic function")
	}
	for i := 0; i < resultTuple.Len(); i++ {
		if resultTuple.At(i).Name() != "" {
			return "", fmt.Errorf("%s: unsupported: named results", w.fset.Position(fd.Pos()))
		}
		x.results = append(x.results, resultTuple.At(i).Type())
	}
	if x.recvAcc {
		x.results = nil // `return l` hands back the receiver = the threaded value
	}
	if len(x.results) == 0 && x.acc == nil {
		return "", fmt.Errorf("%s: unsupported: function without results", w.fset.Position(fd.Pos()))
	}
	if f.NullRes && (len(x.results) != 1 || domKind(x.results[0]) == "") {
		return "", fmt.Errorf("NullRes needs a single DOM-typed result")
	}
	retT, err := x.resultType()
	if err != nil {
		return "", err
	}
	if f.Rec {
		// the self-call `rec_` is captured by loops like an opaque parameter (translate_rec.go)
		var ts []string
		for _, p := range params {
			ts = append(ts, p.typ)
		}
		x.used[xlRecName] = true
		x.opaquePs = append(x.opaquePs, xlParam{xlRecName, "(" + strings.Join(append(ts, "Go.Res "+retT), " → ") + ")"})
	}
	// recursion group
	_, isRec := w.recs[fn]
	if isRec {
		for g, r := range w.recs {
			if r.f.RecGroup == f.RecGroup && (f.RecGroup != "" || g == fn) {
				x.inGroup[g] = true
				x.used[r.param] = true
				if r.isDisp {
					x.dispatch[r.f.Name] = r.param
				}
			}
		}
		// deterministic order: whitelist order = registration order is not kept in a map, so sort by name
		var rs []*xlRec
		for g := range x.inGroup {
			rs = append(rs, w.recs[g])
		}
		sort.Slice(rs, func(i, j int) bool { return rs[i].param < rs[j].param })
		for _, r := range rs {
			x.recPs = append(x.recPs, xlParam{r.param, r.typ})
		}
	}
	k := &cont{
		ret: func(v string) string { return x.pureWrap(v) },
		fall: func() ([]string, error) {
			if x.acc != nil && len(x.results) == 0 {
				return []string{x.pureWrap(x.nameOf(x.acc))}, nil
			}
			return nil, fmt.Errorf("%s: unsupported: control reaches the end of the function without return", w.fset.Position(fd.Pos()))
		},
	}
	body, err := x.block(bodyList, k)
	if err != nil {
		return "", err
	}
	if err := x.checkAliases(); err != nil {
		return "", err
	}
	if x.fuelIdx != len(f.Fuel) {
		return "", fmt.Errorf("whitelist entry has %d fuel expressions, the function has %d for loops", len(f.Fuel), x.fuelIdx)
	}
	for _, o := range f.Opaque {
		if _, ok := x.opaque[o]; !ok {
			return "", fmt.Errorf("opaque callee %s is not called", o)
		}
	}
	if f.Rec {
		return x.emitRec(fn, params, retT, body)
	}
	pre := append(append([]xlParam{}, x.opaquePs...), x.flatPs...)
	all := append(append([]xlParam{}, pre...), params...)
	var b strings.Builder
	for _, a := range x.aux {
		b.WriteString(a)
		b.WriteString("\n")
	}
	recv := ""
	if f.Recv != "" {
		recv = f.Recv + "."
	}
	if x.monadic {
		retT = "Go.Res " + retT
	}
	doc := fmt.Sprintf("/-- %s  %s.%s%s   source digest %s -/\n", w.relPos(fd.Pos()), f.Pkg, recv, f.Name, xlDigest(w.fset, fd))
	done := &xlDone{lean: f.Lean, monadic: x.monadic, nparams: len(all), f: f, nopaque: len(x.opaquePs), sig: sig}
	for i, key := range x.flatKeys {
		done.flat = append(done.flat, xlFlat{key, x.flatPs[i].typ})
	}
	if f.External != "" {
		done.lean = f.External
	}
	if len(x.opaquePs)+len(x.flatPs) > 0 {
		done.nparams = -1 // cannot be called from code translated by translate.go alone
	}
	w.done[fn] = done
	if f.Flatten && len(x.opaquePs) == 0 {
		// callable by a flattened method on the same receiver (translate_rec.go)
		done.flatKeys, done.flatTypes = x.flatKeyList()
	}
	if !isRec {
		b.WriteString(doc)
		fmt.Fprintf(&b, "def %s", f.Lean)
		for _, a := range all {
			fmt.Fprintf(&b, " (%s : %s)", a.name, a.typ)
		}
		fmt.Fprintf(&b, " : %s :=%s\n", retT, x.blockKw())
		b.WriteString(strings.Join(ind(body), "\n"))
		b.WriteString("\n")
		return b.String(), nil
	}
	// recursive: <fn>_rec is structural on the fuel; <fn> instantiates it
	rec := w.recs[fn]
	var preNames []string
	for _, a := range pre {
		preNames = append(preNames, a.name)
	}
	b.WriteString("\x01")
	b.WriteString(doc)
	fmt.Fprintf(&b, "def %s", rec.lean)
	for _, a := range pre {
		fmt.Fprintf(&b, " (%s : %s)", a.name, a.typ)
	}
	var pts, pns, under []string
	for _, a := range params {
		pts, pns, under = append(pts, a.typ), append(pns, a.name), append(under, "_")
	}
	fmt.Fprintf(&b, " : %s → %s\n", strings.Join(append([]string{"Nat"}, pts...), " → "), retT)
	fmt.Fprintf(&b, "  | %s => .fuel\n", strings.Join(append([]string{"0"}, under...), ", "))
	fmt.Fprintf(&b, "  | %s => do\n", strings.Join(append([]string{"fuel + 1"}, pns...), ", "))
	var lets []string
	for _, r := range x.recPs {
		if !x.touched[r.name] {
			continue
		}
		var target *xlRec
		for g := range x.inGroup {
			if w.recs[g].param == r.name {
				target = w.recs[g]
			}
		}
		if target != rec && len(pre) > 0 {
			return "", fmt.Errorf("recursion group with flattened / opaque parameters: only self-recursion is supported")
		}
		lets = append(lets, fmt.Sprintf("let %s := %s", r.name, strings.Join(append(append([]string{target.lean}, preNames...), "fuel"), " ")))
	}
	b.WriteString(strings.Join(ind(ind(append(lets, body...))), "\n"))
	b.WriteString("\n\x01")
	recFuel := substParams(f.RecFuel, x.leanParamNames)
	fmt.Fprintf(&b, "/-- %s.%s%s with the recursion fuel instantiated: %s -/\n", f.Pkg, recv, f.Name, recFuel)
	fmt.Fprintf(&b, "def %s", f.Lean)
	for _, a := range all {
		fmt.Fprintf(&b, " (%s : %s)", a.name, a.typ)
	}
	fmt.Fprintf(&b, " : %s :=\n  %s\n", retT, strings.Join(append(append(append([]string{rec.lean}, preNames...), "("+recFuel+")"), pns...), " "))
	return b.String(), nil
}

// substParams: `$1`, `$2`, … in a whitelist fuel expression stand for the function's parameters by
// position, so that renaming a parameter or a local variable does not invalidate the whitelist
func substParams(s string, names []string) string {
	if len(names) >= 2 && names[0] == "$0" {
		s, names = strings.ReplaceAll(s, "$0", names[1]), names[2:]
	}
	for i := len(names); i >= 1; i-- {
		s = strings.ReplaceAll(s, fmt.Sprintf("$%d", i), names[i-1])
	}
	return s
}
