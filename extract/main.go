// Command extract regenerates the Lean fact tables (lean/YtkModel/Generated/*.lean) from
// /repo's working tree with go/parser + go/ast (+ go/types where needed).  Output is Lean
// *data* only, never proofs.  Each table is produced by one registered generator:
//
//	func init() { generators["OpOrder"] = genOpOrder }   // -> Generated/OpOrder.lean
//
// A generator failure is a failed obligation (non-zero exit), never a skipped one.
package main

import (
	"flag"
	"fmt"
	"os"
	"path/filepath"
	"sort"
)

// generators maps a table name to a function producing the full text of Generated/<name>.lean.
var generators = map[string]func(repo string) (string, error){}

func main() {
	repo := flag.String("repo", "/repo", "repository root")
	out := flag.String("out", "", "output directory")
	digest := flag.String("digest", "", "write per-declaration source digests (JSON) to this file and exit")
	api := flag.String("api", "", "write the API surface (every function and method, JSON; apisurface.go) to this file ('-' = stdout) and exit")
	anchorsFile := flag.String("anchors", "", "with -api: properties.jsonl whose anchors.files define the anchored files")
	flag.Parse()
	if *api != "" {
		if err := writeAPISurface(*repo, *anchorsFile, *api); err != nil {
			fmt.Fprintln(os.Stderr, err)
			os.Exit(1)
		}
		return
	}
	if *digest != "" {
		if err := writeDigests(*repo, *digest); err != nil {
			fmt.Fprintln(os.Stderr, err)
			os.Exit(1)
		}
		return
	}
	if *out == "" {
		fmt.Fprintln(os.Stderr, "usage: extract -repo /repo -out dir")
		os.Exit(2)
	}
	names := make([]string, 0, len(generators))
	for n := range generators {
		names = append(names, n)
	}
	sort.Strings(names)
	rc := 0
	for _, n := range names {
		txt, err := generators[n](*repo)
		if err != nil {
			fmt.Fprintf(os.Stderr, "extract %s: %v\n", n, err)
			rc = 1
			continue
		}
		if err := os.WriteFile(filepath.Join(*out, n+".lean"), []byte(txt), 0o644); err != nil {
			fmt.Fprintln(os.Stderr, err)
			rc = 1
		}
	}
	os.Exit(rc)
}

// leanStr renders a Go string as a Lean string literal.
func leanStr(s string) string {
	out := "\""
	for _, r := range s {
		switch r {
		case '"':
			out += "\\\""
		case '\\':
			out += "\\\\"
		case '\n':
			out += "\\n"
		case '\t':
			out += "\\t"
		default:
			out += string(r)
		}
	}
	return out + "\""
}
