package main

// Decision-table extractor, second batch (C04, C06, C07, C08, C09, C12, C13, C17, C18): more of the
// finite decision logic the code spells out as if-chains, switches and fixed statement sequences,
// regenerated as Lean data (lean/YtkModel/Generated/Tables2.lean, types in lean/YtkModel/TableTypes2.lean).
//
//	1. diff/diff.go          handleExisting (kind-pair chain), diffList, diff (key present on both sides /
//	                         left only / right only), flattenLeaf, appendMod, the ModificationType constants
//	   diff/apply.go         applySingle: modification type -> (parent walk, final action), the two parent
//	                         walks, applyNonListItem / applyListItem
//	2. xform/diff2patch.go   DiffMod2PatchOp: modification type -> fields of the patch.OpObj built; default
//	3. analytics/document_set.go   addContext (re-add policy), applyOpts + defaultOpts, what each option
//	                         constructor (WithTags / MergeTags / MustCreate) does to the context
//	4. k8s/embedded.go       YamlDoc / JsonDoc / Properties: decoder / encoder wiring; os.OpenFile flags and
//	                         mode of doc.Save and builderImpl.Create; the step list of doc.Save
//	   pipeline/export_op.go os.OpenFile flags and mode of ExportOp.Do
//	5. dom/overlay.go        hasValue (ordered guards), firstValidListItem, overlayDocument.Put (kind chain)
//	   dom/merge.go          coalesce; the argument order of the coalesce / firstValidListItem calls
//	6. pipeline/executor.go  exec.Execute: the statement sequence (OnBefore -> Do -> OnAfter -> return)
//	   pipeline/action_spec.go   ActionSpec.Do: phases, the statements run per phase, the final return
//
// How the code is rendered.  A statement or expression becomes ONE canonical string: comments and
// layout dropped, the receiver printed as `recv`, parameters by position (`arg0`, `arg1`, …), named
// results `res0`, …, local variables `v0`, `v1`, … in order of their definition — so renaming any of
// them leaves the output unchanged, while every change of a callee, an argument, an operator, a
// constant or the ORDER of statements changes it.  The printer understands a fixed grammar
// (see canon.expr / canon.stmt); anything else — a statement kind it does not know, an identifier that
// is neither a role, a builtin, an imported package nor a package-level name — is an error: the run then
// reports a broken obligation, a partial table is never written.  If / else-if chains become ordered
// lists of arms (a condition `a || b` becomes two arms with the same body); switches over constants are
// sorted by key (case order has no meaning in Go).

import (
	"fmt"
	"go/ast"
	"go/token"
	"go/types"
	"sort"
	"strconv"
	"strings"
)

func init() { generators["Tables2"] = genTables2 }

// ---------------------------------------------------------------- canonical printer

type canon struct {
	p     *tPkg
	roles map[string]string
	nloc  int
	pkgs  map[string]bool // names under which the file imports packages
	glob  map[string]bool // package-level identifiers of the package
	err   error
}

var canonBuiltins = map[string]bool{"nil": true, "true": true, "false": true, "append": true, "len": true, "cap": true,
	"make": true, "new": true, "string": true, "int": true, "uint": true, "error": true, "panic": true, "copy": true,
	"delete": true, "_": true, "clear": true, "min": true, "max": true, "any": true, "byte": true, "rune": true, "bool": true,
	"int64": true, "uint64": true, "float64": true, "recover": true, "close": true, "print": true, "println": true}

func (p *tPkg) globals() map[string]bool {
	g := map[string]bool{}
	for _, f := range p.files {
		for _, d := range f.Decls {
			switch x := d.(type) {
			case *ast.FuncDecl:
				if x.Recv == nil {
					g[x.Name.Name] = true
				}
			case *ast.GenDecl:
				for _, sp := range x.Specs {
					switch s := sp.(type) {
					case *ast.ValueSpec:
						for _, n := range s.Names {
							g[n.Name] = true
						}
					case *ast.TypeSpec:
						g[s.Name.Name] = true
					}
				}
			}
		}
	}
	return g
}

func importNames(f *ast.File) map[string]bool {
	m := map[string]bool{}
	for _, im := range f.Imports {
		if im.Name != nil {
			m[im.Name.Name] = true
			continue
		}
		path, _ := strconv.Unquote(im.Path.Value)
		parts := strings.Split(path, "/")
		name := parts[len(parts)-1]
		if strings.HasPrefix(name, "v") && len(parts) > 1 { // …/slim-sprig/v3
			if _, err := strconv.Atoi(name[1:]); err == nil {
				name = parts[len(parts)-2]
			}
		}
		m[name] = true
	}
	return m
}

// newCanon prepares the printer for one function of `file`: receiver, parameters and named results get
// their positional role names.
func (p *tPkg) newCanon(file string, fd *ast.FuncDecl) *canon {
	c := &canon{p: p, roles: map[string]string{}, pkgs: importNames(p.files[file]), glob: p.globals()}
	if r := recvName(fd); r != "" {
		c.roles[r] = "recv"
	}
	for i, n := range paramNames(fd) {
		if n != "_" {
			c.roles[n] = "arg" + strconv.Itoa(i)
		}
	}
	if fd.Type.Results != nil {
		i := 0
		for _, f := range fd.Type.Results.List {
			for _, n := range f.Names {
				c.roles[n.Name] = "res" + strconv.Itoa(i)
				i++
			}
		}
	}
	return c
}

func (c *canon) fail(n ast.Node, format string, a ...interface{}) string {
	if c.err == nil {
		c.err = fmt.Errorf("%s: %s", c.p.pos(n), fmt.Sprintf(format, a...))
	}
	return "?"
}

func (c *canon) local(id *ast.Ident) string {
	if id.Name == "_" {
		return "_"
	}
	r := "v" + strconv.Itoa(c.nloc)
	c.nloc++
	c.roles[id.Name] = r
	return r
}

// scope: names defined inside a block / if / loop / function literal are forgotten at its end (the counter
// keeps running, so every definition still gets a fresh name).
func (c *canon) scope() func() {
	saved := make(map[string]string, len(c.roles))
	for k, v := range c.roles {
		saved[k] = v
	}
	return func() { c.roles = saved }
}

func (c *canon) exprs(es []ast.Expr) string {
	var out []string
	for _, e := range es {
		out = append(out, c.expr(e))
	}
	return strings.Join(out, ",")
}

func (c *canon) expr(e ast.Expr) string {
	switch x := e.(type) {
	case *ast.Ident:
		if r, ok := c.roles[x.Name]; ok {
			return r
		}
		if canonBuiltins[x.Name] || c.glob[x.Name] {
			return x.Name
		}
		return c.fail(x, "identifier %s is neither a parameter, a local defined in a form the extractor understands, a builtin nor a package-level name", x.Name)
	case *ast.BasicLit:
		if x.Kind == token.INT { // 0644, 0o644 and 420 are the same number
			if v, err := strconv.ParseInt(x.Value, 0, 64); err == nil {
				return strconv.FormatInt(v, 10)
			}
		}
		return x.Value
	case *ast.ParenExpr:
		return "(" + c.expr(x.X) + ")"
	case *ast.SelectorExpr:
		if id, ok := x.X.(*ast.Ident); ok {
			if _, isRole := c.roles[id.Name]; !isRole && c.pkgs[id.Name] {
				return id.Name + "." + x.Sel.Name
			}
		}
		return c.expr(x.X) + "." + x.Sel.Name
	case *ast.CallExpr:
		s := c.expr(x.Fun) + "(" + c.exprs(x.Args)
		if x.Ellipsis.IsValid() {
			s += "..."
		}
		return s + ")"
	case *ast.UnaryExpr:
		return x.Op.String() + c.expr(x.X)
	case *ast.StarExpr:
		return "*" + c.expr(x.X)
	case *ast.BinaryExpr:
		if x.Op == token.OR { // a|b|c on integers: commutative and associative, printed sorted
			var ops []string
			var flat func(e ast.Expr)
			flat = func(e ast.Expr) {
				if b, ok := e.(*ast.BinaryExpr); ok && b.Op == token.OR {
					flat(b.X)
					flat(b.Y)
					return
				}
				ops = append(ops, c.expr(e))
			}
			flat(x)
			sort.Strings(ops)
			return strings.Join(ops, "|")
		}
		return c.expr(x.X) + x.Op.String() + c.expr(x.Y)
	case *ast.TypeAssertExpr:
		if x.Type == nil {
			return c.fail(x, "type switch guard")
		}
		return c.expr(x.X) + ".(" + types.ExprString(x.Type) + ")"
	case *ast.IndexExpr:
		return c.expr(x.X) + "[" + c.expr(x.Index) + "]"
	case *ast.SliceExpr:
		lo, hi := "", ""
		if x.Low != nil {
			lo = c.expr(x.Low)
		}
		if x.High != nil {
			hi = c.expr(x.High)
		}
		if x.Slice3 {
			return c.fail(x, "3-index slice")
		}
		return c.expr(x.X) + "[" + lo + ":" + hi + "]"
	case *ast.CompositeLit:
		var elts []string
		for _, el := range x.Elts {
			if kv, ok := el.(*ast.KeyValueExpr); ok {
				k := ""
				if id, ok := kv.Key.(*ast.Ident); ok {
					k = id.Name // struct field name (or a constant used as a map key)
				} else {
					k = c.expr(kv.Key)
				}
				elts = append(elts, k+":"+c.expr(kv.Value))
			} else {
				elts = append(elts, c.expr(el))
			}
		}
		t := ""
		if x.Type != nil {
			t = types.ExprString(x.Type)
		}
		return t + "{" + strings.Join(elts, ",") + "}"
	case *ast.FuncLit:
		defer c.scope()()
		var ps []string
		for _, f := range x.Type.Params.List {
			if len(f.Names) == 0 {
				ps = append(ps, "_")
			}
			for _, n := range f.Names {
				ps = append(ps, c.local(n))
			}
		}
		return "func(" + strings.Join(ps, ",") + "){" + strings.Join(c.stmts(x.Body.List), ";") + "}"
	}
	return c.fail(e, "expression %s (%T) is outside the grammar the extractor understands", types.ExprString(e), e)
}

func (c *canon) stmts(ss []ast.Stmt) []string {
	var out []string
	for _, s := range ss {
		if t := c.stmt(s); t != "" {
			out = append(out, t)
		}
	}
	return out
}

func (c *canon) block(b *ast.BlockStmt) string {
	defer c.scope()()
	return "{" + strings.Join(c.stmts(b.List), ";") + "}"
}

func (c *canon) stmt(s ast.Stmt) string {
	switch x := s.(type) {
	case *ast.ExprStmt:
		return c.expr(x.X)
	case *ast.AssignStmt:
		rhs := c.exprs(x.Rhs) // the right-hand side is evaluated before the new names exist
		var lhs []string
		for _, l := range x.Lhs {
			if id, ok := l.(*ast.Ident); ok && x.Tok == token.DEFINE {
				if _, known := c.roles[id.Name]; !known || id.Name == "_" {
					lhs = append(lhs, c.local(id))
					continue
				}
			}
			lhs = append(lhs, c.expr(l))
		}
		return strings.Join(lhs, ",") + x.Tok.String() + rhs
	case *ast.ReturnStmt:
		if len(x.Results) == 0 {
			return "return"
		}
		return "return " + c.exprs(x.Results)
	case *ast.IfStmt:
		defer c.scope()()
		out := "if "
		if x.Init != nil {
			out += c.stmt(x.Init) + ";"
		}
		out += c.expr(x.Cond) + c.block(x.Body)
		switch el := x.Else.(type) {
		case nil:
		case *ast.BlockStmt:
			out += "else" + c.block(el)
		case *ast.IfStmt:
			out += "else " + c.stmt(el)
		default:
			return c.fail(x, "unexpected else")
		}
		return out
	case *ast.RangeStmt:
		defer c.scope()()
		src := c.expr(x.X)
		k, v := "_", "_"
		if x.Tok != token.DEFINE && (x.Key != nil || x.Value != nil) {
			return c.fail(x, "range loop assigning to existing variables")
		}
		if id, ok := x.Key.(*ast.Ident); ok {
			k = c.local(id)
		}
		if id, ok := x.Value.(*ast.Ident); ok {
			v = c.local(id)
		}
		return "for " + k + "," + v + " in " + src + c.block(x.Body)
	case *ast.BlockStmt:
		return c.block(x)
	case *ast.DeclStmt:
		gd, ok := x.Decl.(*ast.GenDecl)
		if !ok || gd.Tok != token.VAR {
			return c.fail(x, "declaration other than var")
		}
		var out []string
		for _, sp := range gd.Specs {
			vs := sp.(*ast.ValueSpec)
			vals := ""
			if len(vs.Values) > 0 {
				vals = c.exprs(vs.Values)
			}
			var names []string
			for _, n := range vs.Names {
				names = append(names, c.local(n))
			}
			if vals != "" {
				out = append(out, strings.Join(names, ",")+":="+vals)
			}
		}
		return strings.Join(out, ";") // a zero-valued `var x T` declares a name and decides nothing
	case *ast.IncDecStmt:
		return c.expr(x.X) + x.Tok.String()
	case *ast.ForStmt:
		defer c.scope()()
		init, cond, post := "", "", ""
		if x.Init != nil {
			init = c.stmt(x.Init)
		}
		if x.Cond != nil {
			cond = c.expr(x.Cond)
		}
		if x.Post != nil {
			post = c.stmt(x.Post)
		}
		return "for " + init + ";" + cond + ";" + post + c.block(x.Body)
	case *ast.DeferStmt:
		return "defer " + c.expr(x.Call)
	case *ast.GoStmt:
		return "go " + c.expr(x.Call)
	case *ast.BranchStmt: // break / continue / goto / fallthrough
		if x.Label != nil {
			return x.Tok.String() + " " + x.Label.Name
		}
		return x.Tok.String()
	}
	return c.fail(s, "statement of kind %T is outside the grammar the extractor understands", s)
}

// splitOr: the operands of a top-level `a || b || c` (parentheses around the whole expression dropped).
func splitOr(e ast.Expr) []ast.Expr {
	if be, ok := e.(*ast.BinaryExpr); ok && be.Op == token.LOR {
		return append(splitOr(be.X), splitOr(be.Y)...)
	}
	return []ast.Expr{e}
}

type tArm struct {
	cond  string
	steps []string
}

// chain turns `if c1 {A} else if c2 {B} else {C}` into ordered arms; `a || b` becomes two arms; the final
// else is the arm `otherwise` (required unless allowNoElse, in which case `otherwise` has no steps).
func (c *canon) chain(is *ast.IfStmt, allowNoElse bool) []tArm {
	var arms []tArm
	var cur ast.Stmt = is
	for cur != nil {
		switch x := cur.(type) {
		case *ast.IfStmt:
			if x.Init != nil {
				c.fail(x, "init statement in an if-chain")
				return nil
			}
			var conds []string
			for _, d := range splitOr(x.Cond) {
				conds = append(conds, c.expr(d))
			}
			steps := c.stmts(x.Body.List)
			for _, cd := range conds {
				arms = append(arms, tArm{cd, steps})
			}
			cur = x.Else
			if cur == nil {
				if !allowNoElse {
					c.fail(x, "the if-chain has no final else")
					return nil
				}
				arms = append(arms, tArm{"otherwise", nil})
			}
		case *ast.BlockStmt:
			arms = append(arms, tArm{"otherwise", c.stmts(x.List)})
			cur = nil
		default:
			c.fail(cur, "unexpected else")
			return nil
		}
	}
	return arms
}

// guardSeq turns `if c1 { return X }; if c2 { return Y }; return Z` into ordered arms.
func (c *canon) guardSeq(body []ast.Stmt) []tArm {
	var arms []tArm
	for i, s := range body {
		if i == len(body)-1 {
			if _, ok := s.(*ast.ReturnStmt); !ok {
				c.fail(s, "the last statement is not a return")
				return nil
			}
			arms = append(arms, tArm{"otherwise", []string{c.stmt(s)}})
			break
		}
		is, ok := s.(*ast.IfStmt)
		if !ok || is.Init != nil || is.Else != nil || len(is.Body.List) != 1 {
			c.fail(s, "statement is not a guard `if <cond> { return … }`")
			return nil
		}
		if _, ok := is.Body.List[0].(*ast.ReturnStmt); !ok {
			c.fail(s, "guard body is not a return")
			return nil
		}
		steps := c.stmts(is.Body.List)
		for _, d := range splitOr(is.Cond) {
			arms = append(arms, tArm{c.expr(d), steps})
		}
	}
	return arms
}

// ---------------------------------------------------------------- output helpers

func strList(ss []string) string {
	var parts []string
	for _, s := range ss {
		parts = append(parts, leanStr(s))
	}
	return "[" + strings.Join(parts, ", ") + "]"
}

func (o *tOut) strs(name, doc string, ss []string) {
	fmt.Fprintf(&o.sb, "/-- %s -/\ndef %s : List String := [", doc, name)
	for i, s := range ss {
		fmt.Fprintf(&o.sb, "\n  %s%s", leanStr(s), sepOf(i, len(ss)))
	}
	o.sb.WriteString("]\n\n")
}

func (o *tOut) arms(name, doc string, arms []tArm) {
	fmt.Fprintf(&o.sb, "/-- %s -/\ndef %s : List CondArm := [\n", doc, name)
	for i, a := range arms {
		fmt.Fprintf(&o.sb, "  ⟨%s, %s⟩%s\n", leanStr(a.cond), strList(a.steps), sepOf(i, len(arms)))
	}
	o.sb.WriteString("]\n\n")
}

func (o *tOut) pairsT(name, doc string, kvs [][2]string) {
	fmt.Fprintf(&o.sb, "/-- %s -/\ndef %s : List (String × String) := [", doc, name)
	for i, kv := range kvs {
		fmt.Fprintf(&o.sb, "\n  (%s, %s)%s", leanStr(kv[0]), leanStr(kv[1]), sepOf(i, len(kvs)))
	}
	o.sb.WriteString("]\n\n")
}

func genTables2(repo string) (string, error) {
	o := &tOut{}
	o.sb.WriteString("/- GENERATED by /verif/extract (tables2.go) from the repository's sources — do not edit.\n")
	o.sb.WriteString("   Finite decision tables, second batch: kind chains, constant switches and fixed statement sequences\n")
	o.sb.WriteString("   as Lean data.  Statements are canonical strings: receiver `recv`, parameters `arg0…`, named results\n")
	o.sb.WriteString("   `res0…`, locals `v0…` in order of definition.  Constant-keyed tables are sorted by key; chains and\n")
	o.sb.WriteString("   statement sequences keep source order. -/\n")
	o.sb.WriteString("import YtkModel.TableTypes2\n\nnamespace Ytk.Generated\nopen Ytk.TableT\n\n")
	for _, g := range []func(string, *tOut) error{tables2Diff, tables2Xform, tables2Analytics, tables2K8s, tables2Dom, tables2Pipeline} {
		if err := g(repo, o); err != nil {
			return "", err
		}
	}
	o.sb.WriteString("end Ytk.Generated\n")
	return o.sb.String(), nil
}

// bodyOf: canonical statements of a whole function body.
func (p *tPkg) bodyOf(file, recv, name string) (*ast.FuncDecl, []string, error) {
	fd, err := p.fn(file, recv, name)
	if err != nil {
		return nil, nil, err
	}
	c := p.newCanon(file, fd)
	ss := c.stmts(fd.Body.List)
	if c.err != nil {
		return nil, nil, fmt.Errorf("%s: %v", name, c.err)
	}
	return fd, ss, nil
}

// ---------------------------------------------------------------- 1. diff

func tables2Diff(repo string, o *tOut) error {
	p, err := loadTPkg(repo, "diff")
	if err != nil {
		return err
	}
	// ---- handleExisting: the kind-pair chain
	he, err := p.fn("diff.go", "", "handleExisting")
	if err != nil {
		return err
	}
	params := paramNames(he)
	if len(params) != 4 || len(he.Body.List) != 1 {
		return fmt.Errorf("%s: handleExisting: expected (left, right, path, res) and a body that is a single if-chain", p.pos(he))
	}
	chain, ok := he.Body.List[0].(*ast.IfStmt)
	if !ok {
		return fmt.Errorf("%s: handleExisting: body is not an if-chain", p.pos(he))
	}
	c := p.newCanon("diff.go", he)
	type karm struct {
		l, r  string
		steps []string
	}
	var karms []karm
	var cur ast.Stmt = chain
	for cur != nil {
		switch x := cur.(type) {
		case *ast.IfStmt:
			if x.Init != nil {
				return fmt.Errorf("%s: handleExisting: init statement in the kind chain", p.pos(x))
			}
			l, r, ok := kindTest(x.Cond)
			if !ok || l[0] != params[0] || r[0] != params[1] {
				return fmt.Errorf("%s: handleExisting: condition %s is not `<left>.IsX() && <right>.IsY()`", p.pos(x), types.ExprString(x.Cond))
			}
			karms = append(karms, karm{l[1], r[1], c.stmts(x.Body.List)})
			cur = x.Else
		case *ast.BlockStmt:
			karms = append(karms, karm{"any", "any", c.stmts(x.List)})
			cur = nil
		default:
			return fmt.Errorf("%s: handleExisting: unexpected else", p.pos(cur))
		}
	}
	if c.err != nil {
		return fmt.Errorf("handleExisting: %v", c.err)
	}
	if len(karms) == 0 || karms[len(karms)-1].l != "any" {
		return fmt.Errorf("%s: handleExisting: the kind chain has no final else", p.pos(chain))
	}
	fmt.Fprintf(&o.sb, "/-! ## 1. diff — %s (handleExisting), kind chain at %s (ORDERED: first matching arm wins) -/\n\n", p.pos(he), p.pos(chain))
	o.sb.WriteString("/-- diff.handleExisting(left = arg0, right = arg1, path = arg2, res = arg3): (kind of left, kind of right) ↦ the statements run -/\ndef diffHandleExisting : List KindArm := [\n")
	for i, a := range karms {
		fmt.Fprintf(&o.sb, "  ⟨%s, %s, %s⟩%s\n", leanStr(a.l), leanStr(a.r), strList(a.steps), sepOf(i, len(karms)))
	}
	o.sb.WriteString("]\n\n")
	// ---- diffList, flattenLeaf, appendMod: whole bodies
	for _, it := range []struct{ fn, tbl, doc string }{
		{"diffList", "diffListSteps", "diff.diffList(left = arg0, right = arg1, path = arg2, res = arg3): the whole body"},
		{"flattenLeaf", "diffFlattenLeafSteps", "diff.flattenLeaf(leaf = arg0, path = arg1, res = arg2): the whole body"},
		{"flattenNode", "diffFlattenNodeSteps", "diff.flattenNode(node = arg0, path = arg1, res = arg2): the whole body"},
		{"appendMod", "diffAppendModSteps", "diff.appendMod(t = arg0, path = arg1, val = arg2, oldVal = arg3, res = arg4): the whole body"},
	} {
		fd, ss, err := p.bodyOf("diff.go", "", it.fn)
		if err != nil {
			return err
		}
		o.strs(it.tbl, it.doc+" ("+p.pos(fd)+")", ss)
	}
	// ---- diff: the two loops
	df, err := p.fn("diff.go", "", "diff")
	if err != nil {
		return err
	}
	dparams := paramNames(df)
	if len(dparams) != 4 || len(df.Body.List) != 2 {
		return fmt.Errorf("%s: diff: expected (left, right, path, res) and a body of exactly two range loops", p.pos(df))
	}
	var keyArms []tArm
	for i, s := range df.Body.List {
		rs, ok := s.(*ast.RangeStmt)
		if !ok || len(rs.Body.List) != 1 {
			return fmt.Errorf("%s: diff: statement %d is not a range loop with a single if", p.pos(s), i)
		}
		side, other := dparams[0], dparams[1]
		if i == 1 {
			side, other = dparams[1], dparams[0]
		}
		if types.ExprString(rs.X) != side+".Children()" {
			return fmt.Errorf("%s: diff: loop %d does not range over %s.Children()", p.pos(rs), i, side)
		}
		is, ok := rs.Body.List[0].(*ast.IfStmt)
		if !ok || is.Init == nil {
			return fmt.Errorf("%s: diff: loop body is not `if n2 := <other>.Child(k); …`", p.pos(rs))
		}
		as, ok := is.Init.(*ast.AssignStmt)
		keyName := ""
		if id, ok := rs.Key.(*ast.Ident); ok {
			keyName = id.Name
		}
		if !ok || len(as.Lhs) != 1 || len(as.Rhs) != 1 || types.ExprString(as.Rhs[0]) != other+".Child("+keyName+")" {
			return fmt.Errorf("%s: diff: loop %d does not look the key up with %s.Child(<key>)", p.pos(is), i, other)
		}
		found := types.ExprString(as.Lhs[0])
		cc := p.newCanon("diff.go", df)
		cc.roles[keyName] = "key"
		if id, ok := rs.Value.(*ast.Ident); ok {
			cc.roles[id.Name] = "item"
		}
		cc.roles[found] = "found"
		thenSteps := cc.stmts(is.Body.List)
		var elseSteps []string
		if is.Else != nil {
			eb, ok := is.Else.(*ast.BlockStmt)
			if !ok {
				return fmt.Errorf("%s: diff: unexpected else-if", p.pos(is))
			}
			elseSteps = cc.stmts(eb.List)
		}
		if cc.err != nil {
			return fmt.Errorf("diff: %v", cc.err)
		}
		present, absent := thenSteps, elseSteps
		switch types.ExprString(is.Cond) {
		case found + " != nil":
		case found + " == nil":
			present, absent = elseSteps, thenSteps
		default:
			return fmt.Errorf("%s: diff: condition %s is not a nil test of the looked-up child", p.pos(is), types.ExprString(is.Cond))
		}
		if i == 0 {
			keyArms = append(keyArms, tArm{"left:both", present}, tArm{"left:leftOnly", absent})
		} else {
			keyArms = append(keyArms, tArm{"right:both", present}, tArm{"right:rightOnly", absent})
		}
	}
	fmt.Fprintf(&o.sb, "/-! ## 1. diff — %s (diff): loop over the left keys, then loop over the right keys -/\n\n", p.pos(df))
	o.arms("diffKeyCases", "diff.diff(left = arg0, right = arg1, path = arg2, res = arg3): per key (`key`, node `item`, the other side's node `found`) — first loop ranges over left.Children(), second over right.Children()", keyArms)
	// ---- the ModificationType constants
	var mts [][2]string
	for _, d := range p.files["diff.go"].Decls {
		gd, ok := d.(*ast.GenDecl)
		if !ok || gd.Tok != token.CONST {
			continue
		}
		for _, sp := range gd.Specs {
			vs := sp.(*ast.ValueSpec)
			for i, n := range vs.Names {
				if i >= len(vs.Values) {
					continue
				}
				call, ok := vs.Values[i].(*ast.CallExpr)
				isMT := ok && types.ExprString(call.Fun) == "ModificationType"
				if vs.Type != nil && types.ExprString(vs.Type) == "ModificationType" {
					isMT = true
				}
				if !isMT {
					continue
				}
				v, ok := stringValue(vs.Values[i])
				if !ok {
					return fmt.Errorf("%s: constant %s is not a string", p.pos(n), n.Name)
				}
				mts = append(mts, [2]string{n.Name, v})
			}
		}
	}
	if len(mts) == 0 {
		return fmt.Errorf("diff/diff.go: no ModificationType constants found")
	}
	sort.Slice(mts, func(i, j int) bool { return mts[i][0] < mts[j][0] })
	o.pairsT("diffModTypes", "the constants of type diff.ModificationType (diff/diff.go): name, value (sorted by name)", mts)

	// ---- apply.go: applySingle
	as, err := p.fn("apply.go", "", "applySingle")
	if err != nil {
		return err
	}
	ap := paramNames(as)
	if len(ap) != 2 {
		return fmt.Errorf("%s: applySingle: expected (node, mod)", p.pos(as))
	}
	sw, err := findSwitch(p, as, func(t ast.Expr) bool { return types.ExprString(t) == ap[1]+".Type" })
	if err != nil {
		return err
	}
	if as.Body.List[len(as.Body.List)-1] != ast.Stmt(sw) {
		return fmt.Errorf("%s: applySingle: the switch over the modification type is not the last statement", p.pos(sw))
	}
	ac := p.newCanon("apply.go", as)
	pre := ac.stmts(as.Body.List[:len(as.Body.List)-1])
	if ac.err != nil {
		return fmt.Errorf("applySingle: %v", ac.err)
	}
	walks := map[string][]tArm{}
	var walkOrder []string
	classify := func(body []ast.Stmt) (string, error) {
		if len(body) != 2 {
			return "", fmt.Errorf("case body is not `for … parents …; <final action>`")
		}
		rs, ok := body[0].(*ast.RangeStmt)
		if !ok || len(rs.Body.List) == 0 {
			return "", fmt.Errorf("case body does not start with the loop over the parent components")
		}
		cc := p.newCanon("apply.go", as)
		for k, v := range ac.roles {
			cc.roles[k] = v
		}
		cc.nloc = ac.nloc
		src := cc.expr(rs.X)
		if id, ok := rs.Value.(*ast.Ident); ok {
			cc.roles[id.Name] = "comp"
		}
		// loop body: optional `x := current.Child(c)` then one if / else
		var lead []string
		stmts := rs.Body.List
		for len(stmts) > 1 {
			lead = append(lead, cc.stmt(stmts[0]))
			stmts = stmts[1:]
		}
		is, ok := stmts[0].(*ast.IfStmt)
		if !ok {
			return "", fmt.Errorf("the parent loop does not end in an if / else")
		}
		var arms []tArm
		if is.Init != nil {
			lead = append(lead, cc.stmt(is.Init))
			is2 := *is
			is2.Init = nil
			arms = cc.chain(&is2, false)
		} else {
			arms = cc.chain(is, false)
		}
		final := cc.stmt(body[1])
		if cc.err != nil {
			return "", cc.err
		}
		arms = append([]tArm{{"range", []string{src}}, {"lead", lead}}, arms...)
		key := "walk" + strconv.Itoa(len(walkOrder))
		for _, k := range walkOrder {
			if fmt.Sprint(walks[k]) == fmt.Sprint(arms) {
				key = k
			}
		}
		if _, ok := walks[key]; !ok {
			walks[key] = arms
			walkOrder = append(walkOrder, key)
		}
		return fmt.Sprint(walks[key]) + "\x00" + final, nil
	}
	rows, _, hasDefault, err := p.switchTable(sw, p.keyOf, classify)
	if err != nil {
		return err
	}
	if hasDefault {
		return fmt.Errorf("%s: applySingle: the switch has a default clause (the model ignores unknown modification types)", p.pos(sw))
	}
	// name the walks after the (sorted) keys using them, so that case order does not matter
	walkName := map[string]string{}
	var walkTables [][2]interface{}
	for i := range rows {
		parts := strings.SplitN(rows[i].target, "\x00", 2)
		if _, ok := walkName[parts[0]]; !ok {
			walkName[parts[0]] = "walk" + rows[i].key
			for _, k := range walkOrder {
				if fmt.Sprint(walks[k]) == parts[0] {
					walkTables = append(walkTables, [2]interface{}{"walk" + rows[i].key, walks[k]})
				}
			}
		}
		rows[i].target = walkName[parts[0]] + ";" + parts[1]
	}
	fmt.Fprintf(&o.sb, "/-! ## 1. diff — %s (applySingle), switch at %s -/\n\n", p.pos(as), p.pos(sw))
	o.strs("applyPrelude", "diff.applySingle(node = arg0, mod = arg1): the statements before the switch", pre)
	o.rows("applyActions", "diff.applySingle: `switch mod.Type` — constant, its value, `<parent walk>;<final statement>` (a walk is named after the first key, in sorted order, that uses it)", rows)
	o.str("applyActionsDefault", "diff.applySingle: a modification type without a case (no default clause)", "nothing")
	o.sb.WriteString("/-- diff.applySingle: the loops over the parent components (`comp`): what is ranged over, the statements before the if, the arms -/\ndef applyWalks : List (String × List CondArm) := [\n")
	for i, wt := range walkTables {
		fmt.Fprintf(&o.sb, "  (%s, [", leanStr(wt[0].(string)))
		arms := wt[1].([]tArm)
		for j, a := range arms {
			fmt.Fprintf(&o.sb, "⟨%s, %s⟩%s", leanStr(a.cond), strList(a.steps), map[bool]string{true: "", false: ", "}[j == len(arms)-1])
		}
		fmt.Fprintf(&o.sb, "])%s\n", sepOf(i, len(walkTables)))
	}
	o.sb.WriteString("]\n\n")
	for _, it := range []struct{ fn, tbl string }{{"applyNonListItem", "applyNonListItemSteps"}, {"applyListItem", "applyListItemSteps"}} {
		fd, ss, err := p.bodyOf("apply.go", "", it.fn)
		if err != nil {
			return err
		}
		o.strs(it.tbl, "diff."+it.fn+": the whole body ("+p.pos(fd)+")", ss)
	}
	return nil
}

// ---------------------------------------------------------------- 2. xform

// qualConst resolves `pkg.Name` to the string constant of that package.
func qualConst(repo string, cache map[string]*tPkg, e ast.Expr) (string, string, error) {
	s, ok := e.(*ast.SelectorExpr)
	if !ok {
		return "", "", fmt.Errorf("%s is not a qualified constant", types.ExprString(e))
	}
	id, ok := s.X.(*ast.Ident)
	if !ok {
		return "", "", fmt.Errorf("%s is not a qualified constant", types.ExprString(e))
	}
	p, ok := cache[id.Name]
	if !ok {
		var err error
		p, err = loadTPkg(repo, id.Name)
		if err != nil {
			return "", "", err
		}
		cache[id.Name] = p
	}
	v, ok := p.strConst(s.Sel.Name)
	if !ok {
		return "", "", fmt.Errorf("%s.%s is not a string constant", id.Name, s.Sel.Name)
	}
	return id.Name + "." + s.Sel.Name, v, nil
}

func tables2Xform(repo string, o *tOut) error {
	p, err := loadTPkg(repo, "xform")
	if err != nil {
		return err
	}
	fd, err := p.fn("diff2patch.go", "", "DiffMod2PatchOp")
	if err != nil {
		return err
	}
	params := paramNames(fd)
	if len(params) != 1 || len(fd.Body.List) != 1 {
		return fmt.Errorf("%s: DiffMod2PatchOp: expected one parameter and a body that is a single switch", p.pos(fd))
	}
	sw, ok := fd.Body.List[0].(*ast.SwitchStmt)
	if !ok || sw.Tag == nil || types.ExprString(sw.Tag) != params[0]+".Type" {
		return fmt.Errorf("%s: DiffMod2PatchOp: body is not `switch <arg0>.Type`", p.pos(fd))
	}
	cache := map[string]*tPkg{}
	fields := map[string][][2]string{}
	key := func(e ast.Expr) (string, string, error) {
		c, v, err := qualConst(repo, cache, e)
		if err != nil {
			return "", "", fmt.Errorf("%s: %v", p.pos(e), err)
		}
		return c, v, nil
	}
	cn := p.newCanon("diff2patch.go", fd)
	classify := func(body []ast.Stmt) (string, error) {
		if len(body) != 1 {
			return "", fmt.Errorf("case body is not a single return")
		}
		rs, ok := body[0].(*ast.ReturnStmt)
		if !ok || len(rs.Results) != 1 {
			return "", fmt.Errorf("case body is not a single return")
		}
		if id, ok := rs.Results[0].(*ast.Ident); ok && id.Name == "nil" {
			return "nil", nil
		}
		ue, ok := rs.Results[0].(*ast.UnaryExpr)
		if !ok || ue.Op != token.AND {
			return "", fmt.Errorf("returned value is neither nil nor &patch.OpObj{…}")
		}
		cl, ok := ue.X.(*ast.CompositeLit)
		if !ok || types.ExprString(cl.Type) != "patch.OpObj" {
			return "", fmt.Errorf("returned value is neither nil nor &patch.OpObj{…}")
		}
		var fs [][2]string
		op := ""
		for _, el := range cl.Elts {
			kv, ok := el.(*ast.KeyValueExpr)
			if !ok {
				return "", fmt.Errorf("positional field in the patch.OpObj literal")
			}
			name := types.ExprString(kv.Key)
			if name == "Op" {
				cst, v, err := qualConst(repo, cache, kv.Value)
				if err != nil {
					return "", err
				}
				op = v
				fs = append(fs, [2]string{"Op", cst})
				continue
			}
			fs = append(fs, [2]string{name, cn.expr(kv.Value)})
		}
		if cn.err != nil {
			return "", cn.err
		}
		if op == "" {
			return "", fmt.Errorf("the patch.OpObj literal does not set Op")
		}
		sort.Slice(fs, func(i, j int) bool { return fs[i][0] < fs[j][0] })
		for i := 1; i < len(fs); i++ {
			if fs[i][0] == fs[i-1][0] {
				return "", fmt.Errorf("field %s set twice", fs[i][0])
			}
		}
		var enc []string
		for _, f := range fs {
			enc = append(enc, f[0]+"\x01"+f[1])
		}
		return op + "\x00" + strings.Join(enc, "\x02"), nil
	}
	rows, dflt, hasDefault, err := p.switchTable(sw, key, classify)
	if err != nil {
		return err
	}
	if !hasDefault {
		return fmt.Errorf("%s: DiffMod2PatchOp: switch has no default clause", p.pos(sw))
	}
	if strings.Contains(dflt, "\x00") {
		return fmt.Errorf("%s: DiffMod2PatchOp: the default clause builds an operation object (the model returns none)", p.pos(sw))
	}
	for i := range rows { // split `op \x00 fields` again; the field table is keyed by the modification type
		parts := strings.SplitN(rows[i].target, "\x00", 2)
		rows[i].target = parts[0]
		if len(parts) == 2 {
			var fs [][2]string
			for _, f := range strings.Split(parts[1], "\x02") {
				kv := strings.SplitN(f, "\x01", 2)
				fs = append(fs, [2]string{kv[0], kv[1]})
			}
			fields[rows[i].key] = fs
		}
	}
	fmt.Fprintf(&o.sb, "/-! ## 2. xform — %s (DiffMod2PatchOp), switch at %s -/\n\n", p.pos(fd), p.pos(sw))
	o.rows("mod2opTable", "xform.DiffMod2PatchOp(mod = arg0): `switch mod.Type` — modification type constant, its value, the VALUE of the patch operation constant put into OpObj.Op (`nil` = no operation object)", rows)
	o.str("mod2opDefault", "xform.DiffMod2PatchOp: any other modification type", dflt)
	o.sb.WriteString("/-- xform.DiffMod2PatchOp: modification type value ↦ the fields of the &patch.OpObj{…} literal, sorted by field name (fields not listed stay nil) -/\ndef mod2opFields : List (String × List (String × String)) := [\n")
	n := 0
	for _, r := range rows {
		if r.target != "nil" {
			n++
		}
	}
	i := 0
	for _, r := range rows {
		if r.target == "nil" {
			continue
		}
		var parts []string
		for _, f := range fields[r.key] {
			parts = append(parts, "("+leanStr(f[0])+", "+leanStr(f[1])+")")
		}
		fmt.Fprintf(&o.sb, "  (%s, [%s])%s\n", leanStr(r.key), strings.Join(parts, ", "), sepOf(i, n))
		i++
	}
	o.sb.WriteString("]\n\n")
	return nil
}

// ---------------------------------------------------------------- 3. analytics

func tables2Analytics(repo string, o *tOut) error {
	p, err := loadTPkg(repo, "analytics")
	if err != nil {
		return err
	}
	const file = "document_set.go"
	ac, err := p.fn(file, "documentSet", "addContext")
	if err != nil {
		return err
	}
	if len(paramNames(ac)) != 3 || len(ac.Body.List) != 2 {
		return fmt.Errorf("%s: addContext: expected (name, doc, newCtx) and a body `lookup; if exists {…} else {…}`", p.pos(ac))
	}
	c := p.newCanon(file, ac)
	lookup := c.stmt(ac.Body.List[0])
	outer, ok := ac.Body.List[1].(*ast.IfStmt)
	if !ok || outer.Init != nil || outer.Else == nil {
		return fmt.Errorf("%s: addContext: second statement is not `if exists {…} else {…}`", p.pos(ac))
	}
	elseBlk, ok := outer.Else.(*ast.BlockStmt)
	if !ok {
		return fmt.Errorf("%s: addContext: unexpected else-if", p.pos(outer))
	}
	outerCond := c.expr(outer.Cond)
	var arms []tArm
	// the then-branch may start with a nested if / else on the merge function: one arm per path
	if len(outer.Body.List) > 0 {
		if inner, ok := outer.Body.List[0].(*ast.IfStmt); ok && inner.Else != nil && inner.Init == nil {
			rest := outer.Body.List[1:]
			ib, ok := inner.Else.(*ast.BlockStmt)
			if !ok {
				return fmt.Errorf("%s: addContext: unexpected else-if on the merge function", p.pos(inner))
			}
			ic := c.expr(inner.Cond)
			thenSteps := c.stmts(inner.Body.List)
			elseSteps := c.stmts(ib.List)
			restSteps := c.stmts(rest)
			arms = append(arms, tArm{outerCond + "&&" + ic, append(append([]string{}, thenSteps...), restSteps...)})
			arms = append(arms, tArm{outerCond + "&&otherwise", append(append([]string{}, elseSteps...), restSteps...)})
		} else {
			arms = append(arms, tArm{outerCond, c.stmts(outer.Body.List)})
		}
	}
	arms = append(arms, tArm{"otherwise", c.stmts(elseBlk.List)})
	if c.err != nil {
		return fmt.Errorf("addContext: %v", c.err)
	}
	fmt.Fprintf(&o.sb, "/-! ## 3. analytics — %s (documentSet.addContext) -/\n\n", p.pos(ac))
	o.str("docsetAddLookup", "documentSet.addContext(name = arg0, doc = arg1, newCtx = arg2): the first statement", lookup)
	o.arms("docsetAddCases", "documentSet.addContext: the re-add decision — one arm per path through `if exists { if newCtx.mergeFn != nil {…} else {…}; … } else {…}`", arms)
	// applyOpts
	fd, ss, err := p.bodyOf(file, "documentSet", "applyOpts")
	if err != nil {
		return err
	}
	o.strs("docsetApplyOpts", "documentSet.applyOpts(name = arg0, ctx = arg1, opts = arg2): the whole body ("+p.pos(fd)+")", ss)
	fd, ss, err = p.bodyOf(file, "documentSet", "newContext")
	if err != nil {
		return err
	}
	o.strs("docsetNewContext", "documentSet.newContext(name = arg0, opts = arg1): the whole body ("+p.pos(fd)+")", ss)
	// defaultOpts = []AddLayerOpt{WithTags(wildcardTag)}
	var defs [][2]string
	found := false
	defPos := ""
	for _, d := range p.files[file].Decls {
		gd, ok := d.(*ast.GenDecl)
		if !ok || gd.Tok != token.VAR {
			continue
		}
		for _, sp := range gd.Specs {
			vs := sp.(*ast.ValueSpec)
			for i, n := range vs.Names {
				if n.Name != "defaultOpts" || i >= len(vs.Values) {
					continue
				}
				cl, ok := vs.Values[i].(*ast.CompositeLit)
				if !ok {
					return fmt.Errorf("%s: defaultOpts is not a slice literal", p.pos(n))
				}
				found = true
				defPos = p.pos(n)
				for _, el := range cl.Elts {
					call, ok := el.(*ast.CallExpr)
					if !ok {
						return fmt.Errorf("%s: defaultOpts: element is not an option constructor call", p.pos(el))
					}
					id, ok := call.Fun.(*ast.Ident)
					if !ok {
						return fmt.Errorf("%s: defaultOpts: element is not an option constructor call", p.pos(el))
					}
					var args []string
					for _, a := range call.Args {
						if s, ok := stringValue(a); ok {
							args = append(args, s)
						} else if aid, ok := a.(*ast.Ident); ok {
							v, ok := p.strConst(aid.Name)
							if !ok {
								return fmt.Errorf("%s: defaultOpts: argument %s is not a string constant", p.pos(a), aid.Name)
							}
							args = append(args, v)
						} else {
							return fmt.Errorf("%s: defaultOpts: argument is not a string constant", p.pos(a))
						}
					}
					defs = append(defs, [2]string{id.Name, strings.Join(args, ",")})
				}
			}
		}
	}
	if !found {
		return fmt.Errorf("analytics/%s: `defaultOpts = []AddLayerOpt{…}` not found", file)
	}
	o.pairsT("docsetDefaultOpts", "analytics.defaultOpts ("+defPos+"): option constructor, its (resolved, comma-joined) string arguments — in order", defs)
	// the option constructors: `return func(ds, name, ctx) { … }`; inside, ctx is `own`; a nested
	// `ctx.mergeFn = func(other, doc) error {…}` is printed with `other` / `doc`
	o.sb.WriteString("/-- the option constructors of analytics: what the returned closure does to the context under construction (`own`);\n    the closure stored in own.mergeFn is called by addContext as mergeFn(existing context = `other`, new document = `doc`) -/\ndef docsetOptions : List (String × List String) := [\n")
	ctors := []string{"MergeTags", "MustCreate", "WithTags"}
	for i, name := range ctors {
		fd, err := p.fn(file, "", name)
		if err != nil {
			return err
		}
		if len(fd.Body.List) != 1 {
			return fmt.Errorf("%s: %s: body is not a single `return func(…) {…}`", p.pos(fd), name)
		}
		rs, ok := fd.Body.List[0].(*ast.ReturnStmt)
		if !ok || len(rs.Results) != 1 {
			return fmt.Errorf("%s: %s: body is not a single `return func(…) {…}`", p.pos(fd), name)
		}
		fl, ok := rs.Results[0].(*ast.FuncLit)
		if !ok {
			return fmt.Errorf("%s: %s: body is not a single `return func(…) {…}`", p.pos(fd), name)
		}
		var fps []string
		for _, f := range fl.Type.Params.List {
			for _, n := range f.Names {
				fps = append(fps, n.Name)
			}
		}
		if len(fps) != 3 {
			return fmt.Errorf("%s: %s: the option closure does not have three named parameters", p.pos(fl), name)
		}
		cc := p.newCanon(file, fd)
		if fps[0] != "_" {
			cc.roles[fps[0]] = "set"
		}
		if fps[1] != "_" {
			cc.roles[fps[1]] = "name"
		}
		cc.roles[fps[2]] = "own"
		var steps []string
		for _, s := range fl.Body.List {
			// own.mergeFn = func(other, doc) error { … }
			if as, ok := s.(*ast.AssignStmt); ok && as.Tok == token.ASSIGN && len(as.Lhs) == 1 && len(as.Rhs) == 1 {
				if inner, ok := as.Rhs[0].(*ast.FuncLit); ok {
					lhs := cc.expr(as.Lhs[0])
					var ips []string
					for _, f := range inner.Type.Params.List {
						for _, n := range f.Names {
							ips = append(ips, n.Name)
						}
					}
					if len(ips) != 2 {
						return fmt.Errorf("%s: %s: the stored closure does not have two named parameters", p.pos(inner), name)
					}
					cc.roles[ips[0]] = "other"
					cc.roles[ips[1]] = "doc"
					for _, t := range cc.stmts(inner.Body.List) {
						steps = append(steps, lhs+":"+t)
					}
					continue
				}
			}
			steps = append(steps, cc.stmt(s))
		}
		if cc.err != nil {
			return fmt.Errorf("%s: %v", name, cc.err)
		}
		fmt.Fprintf(&o.sb, "  (%s, %s)%s  -- %s\n", leanStr(name), strList(steps), sepOf(i, len(ctors)), p.pos(fd))
	}
	o.sb.WriteString("]\n\n")
	return nil
}

// ---------------------------------------------------------------- 4. k8s embedded, pipeline export: codec wiring, open flags

// openCall finds the single os.OpenFile call of fd and resolves its flags and mode; a receiver field is
// followed to its single assignment in the same function.
func openCall(p *tPkg, fd *ast.FuncDecl) (flags []string, mode int64, pos string, err error) {
	var calls []*ast.CallExpr
	ast.Inspect(fd.Body, func(n ast.Node) bool {
		if c, ok := n.(*ast.CallExpr); ok && isSel(c.Fun, "os", "OpenFile") {
			calls = append(calls, c)
		}
		return true
	})
	if len(calls) != 1 || len(calls[0].Args) != 3 {
		return nil, 0, "", fmt.Errorf("%s: %s: expected exactly one os.OpenFile(name, flags, mode) call, found %d", p.pos(fd), fd.Name.Name, len(calls))
	}
	resolve := func(e ast.Expr) (ast.Expr, error) {
		s, ok := e.(*ast.SelectorExpr)
		if !ok {
			return e, nil
		}
		if id, ok := s.X.(*ast.Ident); !ok || id.Name != recvName(fd) {
			return e, nil
		}
		var found []ast.Expr
		ast.Inspect(fd.Body, func(n ast.Node) bool {
			if as, ok := n.(*ast.AssignStmt); ok && len(as.Lhs) == 1 && len(as.Rhs) == 1 && types.ExprString(as.Lhs[0]) == types.ExprString(e) {
				found = append(found, as.Rhs[0])
			}
			return true
		})
		if len(found) != 1 {
			return nil, fmt.Errorf("%s: %s: %s is not assigned exactly once in the function", p.pos(e), fd.Name.Name, types.ExprString(e))
		}
		return found[0], nil
	}
	fe, err := resolve(calls[0].Args[1])
	if err != nil {
		return nil, 0, "", err
	}
	var walk func(e ast.Expr) error
	walk = func(e ast.Expr) error {
		switch x := e.(type) {
		case *ast.BinaryExpr:
			if x.Op != token.OR {
				return fmt.Errorf("%s: flags are not combined with |", p.pos(x))
			}
			if err := walk(x.X); err != nil {
				return err
			}
			return walk(x.Y)
		case *ast.ParenExpr:
			return walk(x.X)
		case *ast.SelectorExpr:
			if id, ok := x.X.(*ast.Ident); ok && id.Name == "os" && strings.HasPrefix(x.Sel.Name, "O_") {
				flags = append(flags, x.Sel.Name)
				return nil
			}
		}
		return fmt.Errorf("%s: flag expression %s is not an os.O_* constant", p.pos(e), types.ExprString(e))
	}
	if err := walk(fe); err != nil {
		return nil, 0, "", err
	}
	sort.Strings(flags)
	for i := 1; i < len(flags); i++ {
		if flags[i] == flags[i-1] {
			return nil, 0, "", fmt.Errorf("%s: flag %s given twice", p.pos(fe), flags[i])
		}
	}
	me, err := resolve(calls[0].Args[2])
	if err != nil {
		return nil, 0, "", err
	}
	lit, ok := me.(*ast.BasicLit)
	if !ok || lit.Kind != token.INT {
		return nil, 0, "", fmt.Errorf("%s: file mode %s is not an integer literal", p.pos(me), types.ExprString(me))
	}
	mode, perr := strconv.ParseInt(lit.Value, 0, 64)
	if perr != nil {
		return nil, 0, "", fmt.Errorf("%s: file mode %s: %v", p.pos(me), lit.Value, perr)
	}
	return flags, mode, p.pos(calls[0]), nil
}

func tables2K8s(repo string, o *tOut) error {
	p, err := loadTPkg(repo, "k8s")
	if err != nil {
		return err
	}
	const file = "embedded.go"
	fmt.Fprintf(&o.sb, "/-! ## 4. k8s — k8s/%s: the Document constructors, doc.Save, builderImpl.Create -/\n\n", file)
	o.sb.WriteString("/-- k8s.YamlDoc / JsonDoc / Properties: `NewBuilder().Manifest(m).Decoder(d(…)).Encoder(e(…)).Open()` — the manifest argument,\n    the decoder constructor and its arguments, the encoder constructor and its arguments (sorted by constructor) -/\ndef k8sDocCtors : List CodecWiring := [\n")
	ctors := []string{"JsonDoc", "Properties", "YamlDoc"}
	for i, name := range ctors {
		fd, err := p.fn(file, "", name)
		if err != nil {
			return err
		}
		if len(fd.Body.List) != 1 {
			return fmt.Errorf("%s: %s: body is not a single return", p.pos(fd), name)
		}
		rs, ok := fd.Body.List[0].(*ast.ReturnStmt)
		if !ok || len(rs.Results) != 1 {
			return fmt.Errorf("%s: %s: body is not a single return of a builder chain", p.pos(fd), name)
		}
		cn := p.newCanon(file, fd)
		calls := map[string]*ast.CallExpr{}
		var order []string
		cur := rs.Results[0]
		for {
			call, ok := cur.(*ast.CallExpr)
			if !ok {
				return fmt.Errorf("%s: %s: the returned expression is not a chain of builder calls", p.pos(cur), name)
			}
			if id, ok := call.Fun.(*ast.Ident); ok {
				if id.Name != "NewBuilder" || len(call.Args) != 0 {
					return fmt.Errorf("%s: %s: the chain does not start with NewBuilder()", p.pos(call), name)
				}
				break
			}
			sel, ok := call.Fun.(*ast.SelectorExpr)
			if !ok {
				return fmt.Errorf("%s: %s: the returned expression is not a chain of builder calls", p.pos(cur), name)
			}
			if _, dup := calls[sel.Sel.Name]; dup {
				return fmt.Errorf("%s: %s: %s called twice in the chain", p.pos(call), name, sel.Sel.Name)
			}
			calls[sel.Sel.Name] = call
			order = append(order, sel.Sel.Name)
			cur = sel.X
		}
		if len(calls) != 4 || calls["Manifest"] == nil || calls["Decoder"] == nil || calls["Encoder"] == nil || calls["Open"] == nil || order[0] != "Open" {
			return fmt.Errorf("%s: %s: the chain is not NewBuilder().Manifest(…).Decoder(…).Encoder(…).Open() (in any order before Open)", p.pos(fd), name)
		}
		if len(calls["Manifest"].Args) != 1 || len(calls["Open"].Args) != 0 {
			return fmt.Errorf("%s: %s: unexpected arguments of Manifest / Open", p.pos(fd), name)
		}
		man := cn.expr(calls["Manifest"].Args[0])
		one := func(which string) (string, []string, error) {
			call := calls[which]
			if len(call.Args) != 1 {
				return "", nil, fmt.Errorf("%s: %s: %s does not take one argument", p.pos(call), name, which)
			}
			inner, ok := call.Args[0].(*ast.CallExpr)
			if !ok {
				return "", nil, fmt.Errorf("%s: %s: the argument of %s is not a constructor call", p.pos(call), name, which)
			}
			id, ok := inner.Fun.(*ast.Ident)
			if !ok {
				return "", nil, fmt.Errorf("%s: %s: the argument of %s is not a constructor call of the package", p.pos(call), name, which)
			}
			var args []string
			for _, a := range inner.Args {
				args = append(args, cn.expr(a))
			}
			return id.Name, args, nil
		}
		df, da, err := one("Decoder")
		if err != nil {
			return err
		}
		ef, ea, err := one("Encoder")
		if err != nil {
			return err
		}
		if cn.err != nil {
			return fmt.Errorf("%s: %v", name, cn.err)
		}
		fmt.Fprintf(&o.sb, "  ⟨%s, %s, %s, %s, %s, %s⟩%s  -- %s\n", leanStr(name), leanStr(man), leanStr(df), strList(da), leanStr(ef), strList(ea), sepOf(i, len(ctors)), p.pos(fd))
	}
	o.sb.WriteString("]\n\n")
	// os.OpenFile calls
	type oc struct {
		site  string
		flags []string
		mode  int64
		pos   string
	}
	var opens []oc
	sv, err := p.fn(file, "doc", "Save")
	if err != nil {
		return err
	}
	fl, md, ps, err := openCall(p, sv)
	if err != nil {
		return err
	}
	opens = append(opens, oc{"k8s.doc.Save", fl, md, ps})
	cr, err := p.fn(file, "builderImpl", "Create")
	if err != nil {
		return err
	}
	fl, md, ps, err = openCall(p, cr)
	if err != nil {
		return err
	}
	opens = append(opens, oc{"k8s.builderImpl.Create", fl, md, ps})
	pp, err := loadTPkg(repo, "pipeline")
	if err != nil {
		return err
	}
	ex, err := pp.fn("export_op.go", "ExportOp", "Do")
	if err != nil {
		return err
	}
	fl, md, ps, err = openCall(pp, ex)
	if err != nil {
		return err
	}
	opens = append(opens, oc{"pipeline.ExportOp.Do", fl, md, ps})
	o.sb.WriteString("/-- the os.OpenFile calls that write files: site, the os.O_* flags (sorted), the file mode (as a number) -/\ndef openCalls : List OpenCall := [\n")
	for i, c := range opens {
		fmt.Fprintf(&o.sb, "  ⟨%s, %s, %d⟩%s  -- %s (mode 0%o)\n", leanStr(c.site), strList(c.flags), c.mode, sepOf(i, len(opens)), c.pos, c.mode)
	}
	o.sb.WriteString("]\n\n")
	// doc.Save: var (...); for _, fn := range []func() error{ f1, f2, f3 } { if err = fn(); err != nil { return err } }; return f.Close()
	if len(sv.Body.List) != 3 {
		return fmt.Errorf("%s: doc.Save: expected `var (…); for _, fn := range []func() error{…} {…}; return f.Close()`", p.pos(sv))
	}
	cn := p.newCanon(file, sv)
	if cn.stmt(sv.Body.List[0]) != "" {
		return fmt.Errorf("%s: doc.Save: the first statement is not a declaration of zero-valued variables", p.pos(sv))
	}
	rng, ok := sv.Body.List[1].(*ast.RangeStmt)
	if !ok {
		return fmt.Errorf("%s: doc.Save: the second statement is not a range loop", p.pos(sv))
	}
	lits, ok := rng.X.(*ast.CompositeLit)
	if !ok || types.ExprString(lits.Type) != "[]func() error" {
		return fmt.Errorf("%s: doc.Save: the loop does not range over a []func() error literal", p.pos(rng))
	}
	var steps []string
	for _, el := range lits.Elts {
		f, ok := el.(*ast.FuncLit)
		if !ok {
			return fmt.Errorf("%s: doc.Save: step is not a function literal", p.pos(el))
		}
		steps = append(steps, strings.Join(cn.stmts(f.Body.List), ";"))
	}
	if id, ok := rng.Value.(*ast.Ident); ok {
		cn.roles[id.Name] = "step"
	}
	loop := cn.stmts(rng.Body.List)
	final := cn.stmt(sv.Body.List[2])
	if cn.err != nil {
		return fmt.Errorf("doc.Save: %v", cn.err)
	}
	o.strs("k8sSaveSteps", "k8s.doc.Save ("+p.pos(sv)+"): the bodies of the function literals run one after the other (v0 = err, v1 = the file)", steps)
	o.strs("k8sSaveLoop", "k8s.doc.Save: the loop body run for every `step`", loop)
	o.str("k8sSaveFinal", "k8s.doc.Save: the statement after the loop", final)
	return nil
}

// ---------------------------------------------------------------- 5. dom predicates, Put

func tables2Dom(repo string, o *tOut) error {
	p, err := loadTPkg(repo, "dom")
	if err != nil {
		return err
	}
	hv, err := p.fn("overlay.go", "", "hasValue")
	if err != nil {
		return err
	}
	c := p.newCanon("overlay.go", hv)
	arms := c.guardSeq(hv.Body.List)
	if c.err != nil {
		return fmt.Errorf("hasValue: %v", c.err)
	}
	fmt.Fprintf(&o.sb, "/-! ## 5. dom — %s (hasValue): ordered guards -/\n\n", p.pos(hv))
	o.arms("hasValueCases", "dom.hasValue(n = arg0): the guards in order (`a || b` split into two arms), then the final return", arms)
	fd, ss, err := p.bodyOf("merge.go", "", "coalesce")
	if err != nil {
		return err
	}
	o.strs("coalesceSteps", "dom.coalesce(nodes = arg0): the whole body ("+p.pos(fd)+")", ss)
	fd, ss, err = p.bodyOf("overlay.go", "", "firstValidListItem")
	if err != nil {
		return err
	}
	o.strs("firstValidListItemSteps", "dom.firstValidListItem(idx = arg0, lists = arg1): the whole body ("+p.pos(fd)+")", ss)
	// the calls of coalesce / firstValidListItem in merge.go, with their arguments
	var calls []string
	for _, fnName := range []string{"mergeListsMeld", "mergeContainers"} {
		mf, err := p.fn("merge.go", "merger", fnName)
		if err != nil {
			return err
		}
		var bad error
		ast.Inspect(mf.Body, func(n ast.Node) bool {
			call, ok := n.(*ast.CallExpr)
			if !ok {
				return true
			}
			id, ok := call.Fun.(*ast.Ident)
			if !ok || (id.Name != "coalesce" && id.Name != "firstValidListItem") {
				return true
			}
			var args []string
			for _, a := range call.Args {
				args = append(args, argOrigin(mf, a))
			}
			for _, a := range args {
				if a == "?" {
					bad = fmt.Errorf("%s: %s: argument of %s is not traced to a parameter", p.pos(call), fnName, id.Name)
				}
			}
			calls = append(calls, fnName+":"+id.Name+"("+strings.Join(args, ",")+")")
			return true
		})
		if bad != nil {
			return bad
		}
	}
	if len(calls) == 0 {
		return fmt.Errorf("dom/merge.go: no call of coalesce / firstValidListItem found")
	}
	o.strs("coalesceCalls", "the calls of coalesce / firstValidListItem in merger.mergeListsMeld and merger.mergeContainers: every argument traced to the side it comes from (`left` = first parameter / the accumulated map copied from it, `right` = second parameter)", calls)
	// Put
	put, err := p.fn("overlay.go", "overlayDocument", "Put")
	if err != nil {
		return err
	}
	if len(paramNames(put)) != 3 || len(put.Body.List) != 1 {
		return fmt.Errorf("%s: Put: expected (overlay, path, value) and a body that is a single if / else", p.pos(put))
	}
	is, ok := put.Body.List[0].(*ast.IfStmt)
	if !ok {
		return fmt.Errorf("%s: Put: body is not an if / else", p.pos(put))
	}
	pc := p.newCanon("overlay.go", put)
	parms := pc.chain(is, false)
	if pc.err != nil {
		return fmt.Errorf("Put: %v", pc.err)
	}
	fmt.Fprintf(&o.sb, "/-! ## 5. dom — %s (overlayDocument.Put): kind chain (ORDERED) -/\n\n", p.pos(put))
	o.arms("overlayPutCases", "overlayDocument.Put(overlay = arg0, path = arg1, value = arg2): kind of the value ↦ the statements run", parms)
	return nil
}

// argOrigin traces an argument of a coalesce / firstValidListItem call in a merger method back to the
// side it comes from: the first parameter (or something read from it / from the map copied from it) is
// `left`, the second `right`; an index variable is `idx`.
func argOrigin(fd *ast.FuncDecl, e ast.Expr) string {
	params := paramNames(fd)
	origin := map[string]string{}
	if len(params) == 2 {
		origin[params[0]] = "left"
		origin[params[1]] = "right"
	}
	var exprOrigin func(e ast.Expr) string
	exprOrigin = func(e ast.Expr) string {
		found := ""
		ast.Inspect(e, func(n ast.Node) bool {
			if id, ok := n.(*ast.Ident); ok {
				if o, ok := origin[id.Name]; ok && o != "idx" {
					if found != "" && found != o {
						found = "?"
					} else if found == "" {
						found = o
					}
				}
			}
			return true
		})
		return found
	}
	// propagate through simple definitions, in source order (two passes are enough for the chains in merge.go)
	for pass := 0; pass < 2; pass++ {
		ast.Inspect(fd.Body, func(n ast.Node) bool {
			switch x := n.(type) {
			case *ast.AssignStmt:
				if x.Tok == token.DEFINE && len(x.Rhs) == 1 {
					o := exprOrigin(x.Rhs[0])
					for _, l := range x.Lhs {
						if id, ok := l.(*ast.Ident); ok && o != "" {
							if _, known := origin[id.Name]; !known {
								origin[id.Name] = o
							}
						}
					}
				}
			case *ast.RangeStmt:
				o := exprOrigin(x.X)
				if id, ok := x.Value.(*ast.Ident); ok && o != "" {
					origin[id.Name] = o
				}
			case *ast.ForStmt:
				if as, ok := x.Init.(*ast.AssignStmt); ok && len(as.Lhs) == 1 {
					if id, ok := as.Lhs[0].(*ast.Ident); ok {
						origin[id.Name] = "idx"
					}
				}
			}
			return true
		})
	}
	// `merged[k] = v` copies left's children into merged: reads of merged[...] are left
	ast.Inspect(fd.Body, func(n ast.Node) bool {
		if rs, ok := n.(*ast.RangeStmt); ok && len(params) == 2 && types.ExprString(rs.X) == params[0]+".Children()" && len(rs.Body.List) == 1 {
			if as, ok := rs.Body.List[0].(*ast.AssignStmt); ok && len(as.Lhs) == 1 {
				if ix, ok := as.Lhs[0].(*ast.IndexExpr); ok {
					if id, ok := ix.X.(*ast.Ident); ok {
						origin[id.Name] = "left"
					}
				}
			}
		}
		return true
	})
	// second propagation for names defined from the copied map (`n, exists := merged[k]`)
	ast.Inspect(fd.Body, func(n ast.Node) bool {
		if x, ok := n.(*ast.AssignStmt); ok && x.Tok == token.DEFINE && len(x.Rhs) == 1 {
			o := exprOrigin(x.Rhs[0])
			if id, ok := x.Lhs[0].(*ast.Ident); ok && o != "" {
				if _, known := origin[id.Name]; !known {
					origin[id.Name] = o
				}
			}
		}
		return true
	})
	if id, ok := e.(*ast.Ident); ok {
		if o, ok := origin[id.Name]; ok {
			return o
		}
		return "?"
	}
	if o := exprOrigin(e); o != "" {
		return o
	}
	return "?"
}

// ---------------------------------------------------------------- 6. pipeline executor

func tables2Pipeline(repo string, o *tOut) error {
	p, err := loadTPkg(repo, "pipeline")
	if err != nil {
		return err
	}
	fd, ss, err := p.bodyOf("executor.go", "exec", "Execute")
	if err != nil {
		return err
	}
	fmt.Fprintf(&o.sb, "/-! ## 6. pipeline — %s (exec.Execute): the statement sequence -/\n\n", p.pos(fd))
	o.strs("executeSteps", "exec.Execute(act = arg0) (err = res0): the whole body, in order", ss)
	do, err := p.fn("action_spec.go", "ActionSpec", "Do")
	if err != nil {
		return err
	}
	if len(do.Body.List) < 2 {
		return fmt.Errorf("%s: ActionSpec.Do: expected `for _, a := range []Action{…} {…}; return …`", p.pos(do))
	}
	rng, ok := do.Body.List[0].(*ast.RangeStmt)
	if !ok {
		return fmt.Errorf("%s: ActionSpec.Do: the first statement is not a range loop", p.pos(do))
	}
	lit, ok := rng.X.(*ast.CompositeLit)
	if !ok || types.ExprString(lit.Type) != "[]Action" {
		return fmt.Errorf("%s: ActionSpec.Do: the loop does not range over a []Action{…} literal", p.pos(rng))
	}
	c := p.newCanon("action_spec.go", do)
	var phases []string
	for _, el := range lit.Elts {
		phases = append(phases, c.expr(el))
	}
	if id, ok := rng.Value.(*ast.Ident); ok {
		c.roles[id.Name] = "phase"
	}
	if rng.Key != nil {
		if id, ok := rng.Key.(*ast.Ident); !ok || id.Name != "_" {
			return fmt.Errorf("%s: ActionSpec.Do: the loop uses its index", p.pos(rng))
		}
	}
	per := c.stmts(rng.Body.List)
	final := c.stmts(do.Body.List[1:])
	if c.err != nil {
		return fmt.Errorf("ActionSpec.Do: %v", c.err)
	}
	fmt.Fprintf(&o.sb, "/-! ## 6. pipeline — %s (ActionSpec.Do): phases, statements per phase, final return -/\n\n", p.pos(do))
	o.strs("actionDoPhases", "ActionSpec.Do(ctx = arg0): the elements of the `[]Action{…}` literal the loop ranges over, in order", phases)
	o.strs("actionDoPhaseSteps", "ActionSpec.Do: the loop body, run for every `phase` in order", per)
	o.strs("actionDoFinal", "ActionSpec.Do: the statements after the loop", final)
	return nil
}
