package main

// API surface (`extract -api <file>`): one JSON record per top-level function and method (exported and
// unexported) of every non-test Go file of the repository:
//
//	key        "<file>#func <Recv>.<Name>"  — the same key source digests use (digest.go), so the two join
//	pkg, recv, name, file, line, exported, stmts, digest
//	reachable  true iff the function is reachable in the reference graph below from an exported function or
//	           exported method declared in an anchored file (anchors.files of properties.jsonl, passed with
//	           -anchors <properties.jsonl>; the roots themselves are reachable)
//	anchored   the file is an anchored file
//
// The reference graph is deliberately an over-approximation of the call graph (this is a coverage map, not
// a proof obligation): an edge f -> g exists when the body of f (including its function literals) mentions g
// — a static call, a method value, a function used as a value — or mentions an interface method that g's
// receiver type implements (fan-out to every implementation inside the repository), or mentions a
// package-level variable whose initializer mentions g.  Type-checking uses go/types with the source
// importer, like the effects extractor.
//
// stmts = number of ast.Stmt nodes in the body other than block statements (the braces themselves), function
// literals included.  It is a size measure for ranking, nothing more.
//
// Output is deterministic: records sorted by key, fixed field order.

import (
	"bufio"
	"bytes"
	"crypto/sha256"
	"encoding/hex"
	"encoding/json"
	"fmt"
	"go/ast"
	"go/importer"
	"go/parser"
	"go/printer"
	"go/token"
	"go/types"
	"os"
	"path/filepath"
	"sort"
	"strings"
)

const apiModule = "github.com/rkosegi/yaml-toolkit/"

type apiFn struct {
	Key       string `json:"key"`
	Pkg       string `json:"pkg"`
	Recv      string `json:"recv"`
	Ptr       bool   `json:"ptr_recv"`
	Name      string `json:"name"`
	File      string `json:"file"`
	Line      int    `json:"line"`
	Exported  bool   `json:"exported"`
	Stmts     int    `json:"stmts"`
	Anchored  bool   `json:"anchored"`
	Reachable bool   `json:"reachable"`
	Digest    string `json:"digest"`

	obj  *types.Func
	body *ast.BlockStmt
	info *types.Info
}

type apiPkg struct {
	dir     string // relative to repo, "" never occurs (the module root has no Go files)
	files   []*ast.File
	names   []string // file paths relative to repo, parallel to files
	imports map[string]bool
	info    *types.Info
	pkg     *types.Package
}

type apiImporter struct {
	own  map[string]*types.Package
	base types.ImporterFrom
}

func (im apiImporter) Import(p string) (*types.Package, error) { return im.ImportFrom(p, "", 0) }
func (im apiImporter) ImportFrom(p, dir string, m types.ImportMode) (*types.Package, error) {
	if pk, ok := im.own[p]; ok {
		return pk, nil
	}
	return im.base.ImportFrom(p, dir, m)
}

func apiAnchors(file string) (map[string]bool, error) {
	res := map[string]bool{}
	if file == "" {
		return res, nil
	}
	f, err := os.Open(file)
	if err != nil {
		return nil, err
	}
	defer f.Close()
	sc := bufio.NewScanner(f)
	sc.Buffer(make([]byte, 1<<20), 1<<26)
	for sc.Scan() {
		line := bytes.TrimSpace(sc.Bytes())
		if len(line) == 0 {
			continue
		}
		var rec struct {
			Anchors struct {
				Files []string `json:"files"`
			} `json:"anchors"`
		}
		if err := json.Unmarshal(line, &rec); err != nil {
			return nil, fmt.Errorf("%s: %v", file, err)
		}
		for _, a := range rec.Anchors.Files {
			res[filepath.ToSlash(a)] = true
		}
	}
	return res, sc.Err()
}

func apiCountStmts(b *ast.BlockStmt) int {
	n := 0
	ast.Inspect(b, func(x ast.Node) bool {
		if s, ok := x.(ast.Stmt); ok {
			if _, blk := s.(*ast.BlockStmt); !blk {
				n++
			}
		}
		return true
	})
	return n
}

func writeAPISurface(repo, anchorsFile, outFile string) error {
	repo, _ = filepath.Abs(repo)
	if anchorsFile != "" {
		anchorsFile, _ = filepath.Abs(anchorsFile)
	}
	if outFile != "-" {
		outFile, _ = filepath.Abs(outFile)
	}
	anchors, err := apiAnchors(anchorsFile)
	if err != nil {
		return err
	}
	cwd, _ := os.Getwd()
	if err := os.Chdir(repo); err != nil { // the source importer resolves module dependencies from the cwd
		return err
	}
	defer os.Chdir(cwd)

	fset := token.NewFileSet()
	pkgs := map[string]*apiPkg{}
	err = filepath.Walk(repo, func(p string, fi os.FileInfo, err error) error {
		if err != nil {
			return err
		}
		if fi.IsDir() {
			if n := fi.Name(); n == ".git" || n == "testdata" || n == "vendor" || (strings.HasPrefix(n, ".") && p != repo) {
				return filepath.SkipDir
			}
			return nil
		}
		if !strings.HasSuffix(p, ".go") || strings.HasSuffix(p, "_test.go") {
			return nil
		}
		rel, _ := filepath.Rel(repo, p)
		rel = filepath.ToSlash(rel)
		f, err := parser.ParseFile(fset, p, nil, 0) // no comments: same AST the digests are computed over
		if err != nil {
			return fmt.Errorf("parse %s: %v", rel, err)
		}
		dir := filepath.ToSlash(filepath.Dir(rel))
		pk := pkgs[dir]
		if pk == nil {
			pk = &apiPkg{dir: dir, imports: map[string]bool{}}
			pkgs[dir] = pk
		}
		pk.files = append(pk.files, f)
		pk.names = append(pk.names, rel)
		for _, im := range f.Imports {
			ip := strings.Trim(im.Path.Value, "\"")
			if strings.HasPrefix(ip, apiModule) {
				pk.imports[strings.TrimPrefix(ip, apiModule)] = true
			}
		}
		return nil
	})
	if err != nil {
		return err
	}

	// dependency order
	dirs := make([]string, 0, len(pkgs))
	for d := range pkgs {
		dirs = append(dirs, d)
	}
	sort.Strings(dirs)
	var order []string
	state := map[string]int{}
	var visit func(d string) error
	visit = func(d string) error {
		switch state[d] {
		case 1:
			return fmt.Errorf("import cycle through %s", d)
		case 2:
			return nil
		}
		state[d] = 1
		deps := make([]string, 0)
		for i := range pkgs[d].imports {
			deps = append(deps, i)
		}
		sort.Strings(deps)
		for _, i := range deps {
			if pkgs[i] == nil {
				return fmt.Errorf("%s imports %s%s which has no Go files", d, apiModule, i)
			}
			if err := visit(i); err != nil {
				return err
			}
		}
		state[d] = 2
		order = append(order, d)
		return nil
	}
	for _, d := range dirs {
		if err := visit(d); err != nil {
			return err
		}
	}

	own := map[string]*types.Package{}
	base := importer.ForCompiler(fset, "source", nil).(types.ImporterFrom)
	for _, d := range order {
		pk := pkgs[d]
		pk.info = &types.Info{Types: map[ast.Expr]types.TypeAndValue{}, Uses: map[*ast.Ident]types.Object{},
			Defs: map[*ast.Ident]types.Object{}, Selections: map[*ast.SelectorExpr]*types.Selection{},
			Instances: map[*ast.Ident]types.Instance{}}
		var terr error
		conf := types.Config{Importer: apiImporter{own, base}, Error: func(e error) {
			if terr == nil {
				terr = e
			}
		}}
		tp, _ := conf.Check(apiModule+d, fset, pk.files, pk.info)
		if terr != nil {
			return fmt.Errorf("type-checking %s: %v", d, terr)
		}
		pk.pkg = tp
		own[apiModule+d] = tp
	}

	// records
	var fns []*apiFn
	byObj := map[*types.Func]*apiFn{}
	seen := map[string]bool{}
	for _, d := range order {
		pk := pkgs[d]
		for i, f := range pk.files {
			rel := pk.names[i]
			for idx, decl := range f.Decls {
				fd, ok := decl.(*ast.FuncDecl)
				if !ok {
					continue
				}
				key := rel + "#" + declName(fd, idx)[0]
				base := key
				for n := 2; seen[key]; n++ { // e.g. two init functions in one file
					key = fmt.Sprintf("%s~%d", base, n)
				}
				seen[key] = true
				var b bytes.Buffer
				_ = (&printer.Config{Mode: printer.RawFormat}).Fprint(&b, fset, fd)
				h := sha256.Sum256(b.Bytes())
				rec := &apiFn{Key: key, Pkg: d, Name: fd.Name.Name, File: rel, Line: fset.Position(fd.Pos()).Line,
					Exported: fd.Name.IsExported(), Anchored: anchors[rel], Digest: hex.EncodeToString(h[:8]),
					body: fd.Body, info: pk.info}
				if fd.Recv != nil && len(fd.Recv.List) > 0 {
					var rb bytes.Buffer
					_ = printer.Fprint(&rb, token.NewFileSet(), fd.Recv.List[0].Type)
					rec.Ptr = strings.HasPrefix(rb.String(), "*")
					rec.Recv = strings.TrimPrefix(rb.String(), "*")
				}
				if fd.Body != nil {
					rec.Stmts = apiCountStmts(fd.Body)
				}
				if o, ok := pk.info.Defs[fd.Name].(*types.Func); ok {
					rec.obj = o
					byObj[o] = rec
				}
				fns = append(fns, rec)
			}
		}
	}

	// concrete methods by name, for interface fan-out
	type meth struct {
		rec  *apiFn
		recv types.Type // the named receiver type (not the pointer)
	}
	methodsByName := map[string][]meth{}
	for _, r := range fns {
		if r.obj == nil {
			continue
		}
		sig := r.obj.Type().(*types.Signature)
		if sig.Recv() == nil {
			continue
		}
		t := sig.Recv().Type()
		if p, ok := t.(*types.Pointer); ok {
			t = p.Elem()
		}
		methodsByName[r.Name] = append(methodsByName[r.Name], meth{r, t})
	}
	implements := func(t types.Type, it *types.Interface) bool {
		return types.Implements(t, it) || types.Implements(types.NewPointer(t), it)
	}

	// package-level variables: functions mentioned by the initializer
	varRefs := map[*types.Var][]*types.Func{}
	collect := func(n ast.Node, info *types.Info, fn func(o types.Object, id *ast.Ident)) {
		ast.Inspect(n, func(x ast.Node) bool {
			if id, ok := x.(*ast.Ident); ok {
				if o := info.Uses[id]; o != nil {
					fn(o, id)
				}
			}
			return true
		})
	}
	for _, d := range order {
		pk := pkgs[d]
		for _, f := range pk.files {
			for _, decl := range f.Decls {
				gd, ok := decl.(*ast.GenDecl)
				if !ok || gd.Tok != token.VAR {
					continue
				}
				for _, s := range gd.Specs {
					vs := s.(*ast.ValueSpec)
					var refs []*types.Func
					for _, v := range vs.Values {
						collect(v, pk.info, func(o types.Object, _ *ast.Ident) {
							if fo, ok := o.(*types.Func); ok {
								refs = append(refs, fo)
							}
						})
					}
					for _, id := range vs.Names {
						if v, ok := pk.info.Defs[id].(*types.Var); ok && len(refs) > 0 {
							varRefs[v] = refs
						}
					}
				}
			}
		}
	}

	// edges
	edges := map[*apiFn]map[*apiFn]bool{}
	addFunc := func(from *apiFn, fo *types.Func) {
		fo = fo.Origin()
		if to := byObj[fo]; to != nil {
			edges[from][to] = true
			return
		}
		// interface method of a repository or foreign interface: fan out to implementations in the repository
		sig, _ := fo.Type().(*types.Signature)
		if sig == nil || sig.Recv() == nil {
			return
		}
		it, _ := sig.Recv().Type().Underlying().(*types.Interface)
		if it == nil {
			return
		}
		for _, m := range methodsByName[fo.Name()] {
			if implements(m.recv, it) {
				edges[from][m.rec] = true
			}
		}
	}
	for _, r := range fns {
		edges[r] = map[*apiFn]bool{}
		if r.body == nil {
			continue
		}
		r := r
		collect(r.body, r.info, func(o types.Object, _ *ast.Ident) {
			switch x := o.(type) {
			case *types.Func:
				addFunc(r, x)
			case *types.Var:
				for _, fo := range varRefs[x] {
					addFunc(r, fo)
				}
			}
		})
	}

	// reachability from exported functions / exported methods declared in anchored files
	var work []*apiFn
	for _, r := range fns {
		if r.Anchored && r.Exported {
			r.Reachable = true
			work = append(work, r)
		}
	}
	for len(work) > 0 {
		r := work[len(work)-1]
		work = work[:len(work)-1]
		for to := range edges[r] {
			if !to.Reachable {
				to.Reachable = true
				work = append(work, to)
			}
		}
	}

	sort.Slice(fns, func(i, j int) bool { return fns[i].Key < fns[j].Key })
	var b bytes.Buffer
	b.WriteString("[\n")
	for i, r := range fns {
		js, _ := json.Marshal(r)
		b.WriteString(" ")
		b.Write(js)
		if i < len(fns)-1 {
			b.WriteString(",")
		}
		b.WriteString("\n")
	}
	b.WriteString("]\n")
	if outFile == "-" {
		_, err = os.Stdout.Write(b.Bytes())
		return err
	}
	return os.WriteFile(outFile, b.Bytes(), 0o644)
}
