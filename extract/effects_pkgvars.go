package main

// effects extractor, part 3: the package-level variables of the analysed packages and, for each, the functions
// that write it — found by a purely syntactic scan of every (non-test) file, independent of the points-to
// analysis of effects.go.  A function is a writer of variable v when its body (function literals nested in it
// included; a literal is also listed itself, being a table entry) contains
//   assign   v = …, v op= …, v++ / v--, `for v = range …`
//   store    an assignment / inc-dec / delete / clear / copy whose target is reached from v by selecting fields,
//            indexing, slicing or dereferencing (v[i] = …, v.f = …, *v = …, delete(v, k)) — this deliberately
//            includes stores THROUGH a pointer / map / slice held in v
//   append   append(v…, …) wherever its result goes (it may write into v's spare capacity)
//   addr     &v, &v.f, &v[i], a pointer-receiver method called on (or taken from) the addressable value v, v[:]
//            of an array
// The same forms in a package-level initializer of another variable set `initWritten`.
// Table fact `pkgVars`; the theorems of YtkProps/C20.lean state over it that no function reachable from the read
// API is a writer of any package-level variable, and that a variable the extractor relied on being immutable
// (`resolved`) has no writer at all.

import (
	"fmt"
	"go/ast"
	"go/token"
	"go/types"
	"sort"
	"strings"
)

type effPkgVar struct {
	v           *types.Var
	name        string
	global      int
	init        ast.Expr // nil: no initializer of its own (none at all, or a tuple assignment)
	info        *types.Info
	writers     map[*effFn]bool
	kinds       map[string]bool
	initWritten bool
	resolved    bool
	fnv         map[*effFn]bool
}

func (pv *effPkgVar) resolve(tg []*effFn) {
	pv.resolved = true
	for _, t := range tg {
		pv.fnv[t] = true
	}
}

// registerPkgVars: every package-level variable, in source order; global indices are allocated here so that the
// numbering does not depend on the order in which the analysis meets them.
func (w *effWorld) registerPkgVars(files []*ast.File, info *types.Info, pkg *types.Package) {
	for _, f := range files {
		for _, d := range f.Decls {
			gd, ok := d.(*ast.GenDecl)
			if !ok || gd.Tok != token.VAR {
				continue
			}
			for _, sp := range gd.Specs {
				vs := sp.(*ast.ValueSpec)
				for i, nm := range vs.Names {
					v, ok := info.Defs[nm].(*types.Var)
					if !ok || nm.Name == "_" {
						continue
					}
					pv := &effPkgVar{v: v, info: info, writers: map[*effFn]bool{}, kinds: map[string]bool{}, fnv: map[*effFn]bool{}}
					pv.global = w.global(v)
					pv.name = w.gnames[pv.global]
					if len(vs.Values) == len(vs.Names) {
						pv.init = vs.Values[i]
					}
					w.pkgVars[v] = pv
					w.varOrder = append(w.varOrder, pv)
				}
			}
		}
	}
}

// immutable: condition (b) of the resolution of calls through package-level variables, see effects_fnvals.go.
func (w *effWorld) immutable(v *types.Var) *effPkgVar {
	pv := w.pkgVars[v]
	if pv == nil || pv.init == nil || v.Exported() || len(pv.writers) > 0 || pv.initWritten {
		return nil
	}
	return pv
}

// basePkgVar: the package-level variable an lvalue-like expression is rooted in; direct = it IS the variable.
func (w *effWorld) basePkgVar(info *types.Info, e ast.Expr) (pv *effPkgVar, direct bool) {
	direct = true
	for {
		switch x := e.(type) {
		case *ast.ParenExpr:
			e = x.X
			continue
		case *ast.SelectorExpr:
			if info.Selections[x] != nil {
				e, direct = x.X, false
				continue
			}
			if v, ok := info.Uses[x.Sel].(*types.Var); ok {
				return w.pkgVars[v], direct
			}
			return nil, false
		case *ast.IndexExpr:
			e, direct = x.X, false
			continue
		case *ast.StarExpr:
			e, direct = x.X, false
			continue
		case *ast.SliceExpr:
			e, direct = x.X, false
			continue
		case *ast.TypeAssertExpr:
			e, direct = x.X, false
			continue
		case *ast.Ident:
			if v, ok := info.Uses[x].(*types.Var); ok && v.Pkg() != nil && v.Parent() == v.Pkg().Scope() {
				return w.pkgVars[v], direct
			}
		}
		return nil, false
	}
}

func (w *effWorld) scanPkgVarWrites(files []*ast.File, info *types.Info) {
	var walk func(n ast.Node, encl []*effFn)
	walk = func(root ast.Node, encl []*effFn) {
		mark := func(e ast.Expr, kind string) {
			pv, direct := w.basePkgVar(info, e)
			if pv == nil {
				return
			}
			if kind == "assign" && !direct {
				kind = "store"
			}
			pv.kinds[kind] = true
			if len(encl) == 0 || encl[0].fn == nil {
				pv.initWritten = true // in a package-level initializer (possibly inside a literal stored there)
			}
			for _, f := range encl {
				pv.writers[f] = true
			}
		}
		ast.Inspect(root, func(n ast.Node) bool {
			switch x := n.(type) {
			case *ast.FuncLit:
				if n == root {
					return true
				}
				if ef := w.lits[x]; ef != nil {
					walk(x, append(append([]*effFn{}, encl...), ef))
				} else {
					walk(x, encl)
				}
				return false
			case *ast.AssignStmt:
				if x.Tok != token.DEFINE {
					for _, l := range x.Lhs {
						mark(l, "assign")
					}
				}
			case *ast.IncDecStmt:
				mark(x.X, "assign")
			case *ast.RangeStmt:
				if x.Tok == token.ASSIGN {
					if x.Key != nil {
						mark(x.Key, "assign")
					}
					if x.Value != nil {
						mark(x.Value, "assign")
					}
				}
			case *ast.UnaryExpr:
				if x.Op == token.AND {
					mark(x.X, "addr")
				}
			case *ast.SliceExpr:
				if t := info.TypeOf(x.X); t != nil {
					if _, isArr := t.Underlying().(*types.Array); isArr {
						mark(x.X, "addr")
					}
				}
			case *ast.SelectorExpr:
				// a pointer-receiver method on an addressable value: implicit &x
				if sel := info.Selections[x]; sel != nil && sel.Kind() == types.MethodVal {
					if fn, ok := sel.Obj().(*types.Func); ok {
						if r := fn.Type().(*types.Signature).Recv(); r != nil {
							_, ptrRecv := r.Type().(*types.Pointer)
							_, isPtr := info.TypeOf(x.X).Underlying().(*types.Pointer)
							_, isIface := info.TypeOf(x.X).Underlying().(*types.Interface)
							if ptrRecv && !isPtr && !isIface {
								mark(x.X, "addr")
							}
						}
					}
				}
			case *ast.CallExpr:
				if id, ok := ast.Unparen(x.Fun).(*ast.Ident); ok && len(x.Args) > 0 {
					if b, ok := info.Uses[id].(*types.Builtin); ok {
						switch b.Name() {
						case "append":
							mark(x.Args[0], "append")
						case "delete", "clear", "copy":
							mark(x.Args[0], "store")
						}
					}
				}
			}
			return true
		})
	}
	for _, f := range files {
		for _, d := range f.Decls {
			switch x := d.(type) {
			case *ast.FuncDecl:
				if x.Body == nil {
					continue
				}
				if fn, ok := info.Defs[x.Name].(*types.Func); ok && w.fns[fn] != nil {
					walk(x.Body, []*effFn{w.fns[fn]})
				}
			case *ast.GenDecl:
				walk(x, nil)
			}
		}
	}
}

func (w *effWorld) renderPkgVars(index map[*effFn]int) string {
	var sb strings.Builder
	sb.WriteString("/-- Every package-level variable of the analysed packages: its global index (`globalNames`, roots\n")
	sb.WriteString("    1000+3*global+d), the table functions that syntactically write it (assign, store into / through it, append,\n")
	sb.WriteString("    address taken — extract/effects_pkgvars.go), whether a package-level initializer does, and whether the\n")
	sb.WriteString("    extractor resolved calls of function values read from it to `fnValues` relying on it never being written. -/\n")
	sb.WriteString("def pkgVars : List PkgVar := [\n")
	idx := func(m map[*effFn]bool) []int {
		var out []int
		for f := range m {
			out = append(out, index[f])
		}
		sort.Ints(out)
		return out
	}
	for i, pv := range w.varOrder {
		kinds := make([]string, 0, len(pv.kinds))
		for k := range pv.kinds {
			kinds = append(kinds, leanStr(k))
		}
		sort.Strings(kinds)
		fmt.Fprintf(&sb, "  { name := %s, global := %d, exported := %v, hasInit := %v,\n    writers := %s, writeKinds := [%s], initWritten := %v, resolved := %v, fnValues := %s }",
			leanStr(pv.name), pv.global, pv.v.Exported(), pv.init != nil, leanNats(idx(pv.writers)), strings.Join(kinds, ", "),
			pv.initWritten, pv.resolved, leanNats(idx(pv.fnv)))
		if i < len(w.varOrder)-1 {
			sb.WriteString(",")
		}
		sb.WriteString("\n")
	}
	sb.WriteString("]\n\n")
	return sb.String()
}
