#!/bin/bash
# usage: mutate.sh <name> <prop> <file> <python-regex-old> <new>   (applies one substitution in the scratch worktree, runs check, reverts)
name="$1"; prop="$2"; file="$3"; old="$4"; new="$5"
cd /tmp/ag-tables2/mut && git checkout -q -- . 
python3 - "$file" "$old" "$new" <<'PY'
import sys,re
f,old,new=sys.argv[1:4]
s=open(f).read()
n=s.count(old)
if n!=1:
    print("MUTATION-NOT-APPLIED: %d occurrences of %r"%(n,old)); sys.exit(3)
open(f,'w').write(s.replace(old,new))
PY
[ $? -eq 0 ] || exit 3
(cd /tmp/ag-tables2/mut && go build ./... 2>&1 | head -3)
cd /tmp/ag-tables2/verif
out=$(YTK_REPO=/tmp/ag-tables2/mut ./check $prop 2>&1)
echo "=== $name ($prop): $(echo "$out" | grep -c VIOLATION) violation line(s)"
echo "$out" | grep "VIOLATION\|^OK\|KNOWN" | head -4
echo "$out" | grep -A1 "VIOLATION" | grep -v VIOLATION | head -3 | cut -c1-330
python3 - $prop <<'PY'
import json,sys,re
d=json.load(open('/tmp/ag-tables2/verif/evidence/%s.json'%sys.argv[1]))
cov=d.get('coverage',{})
print('  broken:', [b for b in cov.get('broken',[])][:6], 'obligations', cov.get('obligations'), 'discharged', cov.get('discharged'))
for n in cov.get('notes',[]):
    for m in re.finditer(r'error: (YtkProps/\S+|extract[^\n]*|[^\n]*extractor[^\n]*)', n):
        print('  ', m.group(0)[:200])
    if n.startswith('extractor'): print('  ', n[:300].replace('\n',' '))
PY
cd /tmp/ag-tables2/mut && git checkout -q -- .
