run('DiffMod2PatchOp: switch became a map','C09','xform/diff2patch.go','''	switch mod.Type {
	case diff.ModAdd:
		return &patch.OpObj{
			Op:    patch.OpAdd,
			Path:  PointerFromPropPathString(mod.Path),
			Value: dom.LeafNode(mod.Value),
		}''','''	if op, ok := map[diff.ModificationType]patch.Op{diff.ModAdd: patch.OpAdd}[mod.Type]; ok {
		return &patch.OpObj{Op: op, Path: PointerFromPropPathString(mod.Path), Value: dom.LeafNode(mod.Value)}
	}
	switch mod.Type {''')
run('hasValue: guards merged into one expression','C04','dom/overlay.go','''	if n == nil || n == nilLeaf {
		return false
	}
	if !n.IsList() && !n.IsContainer() && n.(Leaf).Value() == nil {
		return false
	}
	return true''','''	return !(n == nil || n == nilLeaf) && (n.IsList() || n.IsContainer() || n.(Leaf).Value() != nil)''')
run('Execute: deferred OnAfter','C12','pipeline/executor.go','''	err = act.Do(ctx)
	p.l.OnAfter(ctx, err)
	return err''','''	defer func() { p.l.OnAfter(ctx, err) }()
	err = act.Do(ctx)
	return err''')
