run('right-only key emits nothing','C07','diff/diff.go','''		if n2 := left.Child(k); n2 == nil {
			// k is present in right, but missing in left
			appendMod(ModDelete, utils.ToPath(path, k), nil, nil, res)''','''		if n2 := left.Child(k); n2 == nil && len(k) > 1000 {
			// k is present in right, but missing in left
			appendMod(ModDelete, utils.ToPath(path, k), nil, nil, res)''')
run('leaf/leaf Change swaps value and old','C07','diff/diff.go','appendMod(ModChange, path, right.(dom.Leaf).Value(), left.(dom.Leaf).Value(), res)','appendMod(ModChange, path, left.(dom.Leaf).Value(), right.(dom.Leaf).Value(), res)')
run('appendMod swaps Value/OldValue','C07','diff/diff.go','''		Value:    val,
		OldValue: oldVal,''','''		Value:    oldVal,
		OldValue: val,''')
run('kind mismatch flattens left','C07','diff/diff.go','''		appendMod(ModDelete, path, nil, nil, res)
		flattenNode(right, path, res)''','''		appendMod(ModDelete, path, nil, nil, res)
		flattenNode(left, path, res)''')
run('kind mismatch: Adds before Delete','C07','diff/diff.go','''		appendMod(ModDelete, path, nil, nil, res)
		flattenNode(right, path, res)''','''		flattenNode(right, path, res)
		appendMod(ModDelete, path, nil, nil, res)''')
run('ModChange constant renamed value','C07','diff/diff.go','ModChange = ModificationType("Change")','ModChange = ModificationType("Update")')
run('handleExisting: leaf arm dropped (falls to replace)','C07','diff/diff.go','} else if left.IsLeaf() && right.IsLeaf() {','} else if left.IsLeaf() && right.IsLeaf() && path == "" {')
run('handleExisting: list arm before container arm (harmless)','C07','diff/diff.go','''	if left.IsContainer() && right.IsContainer() {
		diff(left.(dom.Container), right.(dom.Container), path, res)
	} else if left.IsList() && right.IsList() {
		// lists don't merge
		diffList(left.(dom.List), right.(dom.List), path, res)
	} else if''','''	if left.IsList() && right.IsList() {
		// lists don't merge
		diffList(left.(dom.List), right.(dom.List), path, res)
	} else if left.IsContainer() && right.IsContainer() {
		diff(left.(dom.Container), right.(dom.Container), path, res)
	} else if''')
run('Delete walk creates parents','C08','diff/apply.go','''			if x == nil || !x.IsContainer() {
				return
			} else {''','''			if x == nil || !x.IsContainer() {
				current = current.AddContainer(c)
			} else {''')
run('Delete walk: only nil test','C08','diff/apply.go','''			x := current.Child(c)
			if x == nil || !x.IsContainer() {
				return''','''			x := current.Child(c)
			if x == nil {
				return''')
run('Add stores mod.OldValue','C08','diff/apply.go','current.AddValue(pc[len(pc)-1], dom.LeafNode(mod.Value))','current.AddValue(pc[len(pc)-1], dom.LeafNode(mod.OldValue))')
run('path split on /','C08','diff/apply.go','strings.Split(mod.Path, ".")','strings.Split(mod.Path, "/")')
run('applyNonListItem always creates','C08','diff/apply.go','	if x == nil || !x.IsContainer() {\n		current = current.AddContainer(c)','	if x == nil || x.IsContainer() {\n		current = current.AddContainer(c)')
run('applySingle: switch becomes if-chain','C08','diff/apply.go','	switch mod.Type {\n	case ModAdd, ModChange:','	switch {\n	case mod.Type == ModAdd || mod.Type == ModChange:')
run('mod2op: Add without value','C09','xform/diff2patch.go','''			Op:    patch.OpAdd,
			Path:  PointerFromPropPathString(mod.Path),
			Value: dom.LeafNode(mod.Value),''','''			Op:    patch.OpAdd,
			Path:  PointerFromPropPathString(mod.Path),''')
run('mod2op: default builds a test op','C09','xform/diff2patch.go','''	default:
		return nil''','''	default:
		return &patch.OpObj{Op: patch.OpTest}''')
run('mod2op: Change carries OldValue','C09','xform/diff2patch.go','''			Op:    patch.OpReplace,
			Path:  PointerFromPropPathString(mod.Path),
			Value: dom.LeafNode(mod.Value),''','''			Op:    patch.OpReplace,
			Path:  PointerFromPropPathString(mod.Path),
			Value: dom.LeafNode(mod.OldValue),''')
