#!/usr/bin/env python3
# quick sweep: mutation -> extractor -> lake build of the property module; reports which table theorems break
import subprocess,sys,os,re,shutil
MUT='/tmp/ag-tables2/mut'; V='/tmp/ag-tables2/verif'; OUT='/tmp/ag-tables2/out3'
env=dict(os.environ, GOFLAGS='-mod=mod', GOPROXY='off')
def sh(cmd,cwd=None):
    r=subprocess.run(cmd,shell=True,cwd=cwd,env=env,capture_output=True,text=True); return r.returncode,(r.stdout+r.stderr)
def run(name,prop,file,old,new):
    sh('git checkout -q -- .',MUT)
    p=os.path.join(MUT,file); s=open(p).read()
    if s.count(old)!=1:
        print(f'{name}: NOT APPLIED ({s.count(old)} occurrences)'); return
    open(p,'w').write(s.replace(old,new))
    rc,o=sh('go build ./...',MUT)
    if rc!=0: print(f'{name}: mutant does not compile: {o[:200]}'); sh('git checkout -q -- .',MUT); return
    shutil.rmtree(OUT,ignore_errors=True); os.makedirs(OUT)
    rc,o=sh(f'/tmp/ag-tables2/extract -repo {MUT} -out {OUT}')
    if rc!=0:
        msg=[l for l in o.split('\n') if 'Tables2' in l or 'extract' in l][:2]
        print(f'{name} [{prop}]: EXTRACTOR FAILS LOUDLY: {" | ".join(msg)[:260]}')
    else:
        shutil.copy(f'{OUT}/Tables2.lean',f'{V}/lean/YtkModel/Generated/Tables2.lean')
        rc,o=sh(f'lake build YtkProps.{prop}',f'{V}/lean')
        src=open(f'{V}/lean/YtkProps/{prop}.lean').read().split('\n')
        thms=[]
        for m in re.finditer(r'error: YtkProps/%s\.lean:(\d+):'%prop,o):
            ln=int(m.group(1))
            for i in range(ln-1,-1,-1):
                mm=re.match(r'theorem (\S+)',src[i])
                if mm:
                    if mm.group(1) not in thms: thms.append(mm.group(1))
                    break
        print(f'{name} [{prop}]: build rc={rc}; broken theorems: {thms}')
    sh('git checkout -q -- .',MUT)
exec(open(sys.argv[1]).read())
# restore
shutil.rmtree(OUT,ignore_errors=True); os.makedirs(OUT)
sh(f'/tmp/ag-tables2/extract -repo /repo -out {OUT}')
shutil.copy(f'{OUT}/Tables2.lean',f'{V}/lean/YtkModel/Generated/Tables2.lean')
