import subprocess,os,glob,shutil,json
MUT='/tmp/ag-tables2/mut'; V='/tmp/ag-tables2/verif'
env=dict(os.environ, GOFLAGS='-mod=mod', GOPROXY='off')
def sh(cmd,cwd=None):
    r=subprocess.run(cmd,shell=True,cwd=cwd,env=env,capture_output=True,text=True); return r.returncode,(r.stdout+r.stderr)
base=open('/tmp/ag-tables2/out/Tables2.lean').read()
def data(t): # drop comment-only differences (positions)
    import re
    return re.sub(r'/-.*?-/','',re.sub(r'  -- [^\n]*','',t),flags=re.S)
res={'fail':[], 'changed':[], 'same':[], 'noapply':[]}
for d in sorted(glob.glob(V+'/seeded/C*-*')):
    name=os.path.basename(d)
    sh('git checkout -q -- . && git clean -fdq',MUT)
    rc,o=sh(f'git apply {d}/patch.diff',MUT)
    if rc!=0: res['noapply'].append(name); continue
    out='/tmp/ag-tables2/out4'; shutil.rmtree(out,ignore_errors=True); os.makedirs(out)
    rc,o=sh(f'/tmp/ag-tables2/extract -repo {MUT} -out {out}')
    if rc!=0:
        which=[l.split(':')[0] for l in o.split('\n') if l.startswith('extract ')]
        res['fail'].append((name,which))
    elif data(open(out+'/Tables2.lean').read())!=data(base): res['changed'].append(name)
    else: res['same'].append(name)
sh('git checkout -q -- . && git clean -fdq',MUT)
print('extractor fails:',res['fail'])
print('Tables2 data changed:',res['changed'])
print('no apply:',res['noapply'])
print('unchanged count:',len(res['same']))
