run('MustCreate returns nil','C18','analytics/document_set.go','			return ErrLayerAlreadyExists','			return nil')
run('MergeTags overwrites the stored document','C18','analytics/document_set.go','''			if context.doc == nil {
				context.doc = newCtx.doc
			}''','''			context.doc = doc''')
run('default re-add keeps the old document','C18','analytics/document_set.go','''		} else {
			newCtx.doc = doc
		}
		ds.ctxMap[name] = newCtx''','''		} else {
			newCtx.doc = existingCtx.doc
		}
		ds.ctxMap[name] = newCtx''')
run('error checked after the store','C18','analytics/document_set.go','''			err := newCtx.mergeFn(existingCtx, doc)
			if err != nil {
				return err
			}
		} else {
			newCtx.doc = doc
		}
		ds.ctxMap[name] = newCtx
		return nil''','''			err := newCtx.mergeFn(existingCtx, doc)
			ds.ctxMap[name] = newCtx
			if err != nil {
				return err
			}
		} else {
			newCtx.doc = doc
		}
		ds.ctxMap[name] = newCtx
		return nil''')
run('default tag changed','C18','analytics/document_set.go','	wildcardTag = "*"','	wildcardTag = "all"')
run('user options before defaults','C18','analytics/document_set.go','''	for _, opt := range defaultOpts {
		opt(ds, name, ctx)
	}
	for _, opt := range opts {
		opt(ds, name, ctx)
	}''','''	for _, opt := range opts {
		opt(ds, name, ctx)
	}
	for _, opt := range defaultOpts {
		opt(ds, name, ctx)
	}''')
run('WithTags replaces the tags','C18','analytics/document_set.go','		ctx.tags = append(ctx.tags, tag...)','		ctx.tags = append([]string{}, tag...)')
run('new name not appended','C18','analytics/document_set.go','''		ds.ctxMap[name] = newCtx
		ds.names = append(ds.names, name)
		return nil''','''		ds.ctxMap[name] = newCtx
		return nil''')
run('Properties wired with the doc encoder','C17','k8s/embedded.go','		Encoder(EncodeEmbeddedProps()).','		Encoder(EncodeEmbeddedDoc("x", dom.DefaultYamlEncoder)).')
run('YamlDoc encodes another item','C17','k8s/embedded.go','		Encoder(EncodeEmbeddedDoc(item, dom.DefaultYamlEncoder)).','		Encoder(EncodeEmbeddedDoc(file, dom.DefaultYamlEncoder)).')
run('Save: open before encode','C17','k8s/embedded.go','''		func() error {
			return e.enc(e.m, e.cb)
		},
		func() error {
			f, err = os.OpenFile(e.file, os.O_RDWR|os.O_CREATE|os.O_TRUNC, 0644)
			return err
		},''','''		func() error {
			f, err = os.OpenFile(e.file, os.O_RDWR|os.O_CREATE|os.O_TRUNC, 0644)
			return err
		},
		func() error {
			return e.enc(e.m, e.cb)
		},''')
run('Save: O_APPEND instead of O_TRUNC','C17','k8s/embedded.go','os.O_RDWR|os.O_CREATE|os.O_TRUNC, 0644','os.O_RDWR|os.O_CREATE|os.O_APPEND, 0644')
run('Save: errors ignored','C17','k8s/embedded.go','''		if err = fn(); err != nil {
			return err
		}
	}
	return f.Close()''','''		if err = fn(); err != nil {
			continue
		}
	}
	return f.Close()''')
run('Create: file mode 0600','C17','k8s/embedded.go','	b.fileMode = 0o660','	b.fileMode = 0o600')
run('Create: flags through a helper (shape change)','C17','k8s/embedded.go','	b.createFlags = os.O_CREATE | os.O_RDWR','	b.createFlags = os.O_CREATE | os.O_RDWR | b.createFlags')
run('Export: O_EXCL added','C13','pipeline/export_op.go','os.O_WRONLY|os.O_CREATE|os.O_TRUNC','os.O_WRONLY|os.O_CREATE|os.O_TRUNC|os.O_EXCL')
run('Export: read-only open','C13','pipeline/export_op.go','os.O_WRONLY|os.O_CREATE|os.O_TRUNC','os.O_RDONLY|os.O_CREATE|os.O_TRUNC')
run('hasValue: nilLeaf has a value','C04','dom/overlay.go','	if n == nil || n == nilLeaf {','	if n == nil {')
run('hasValue: empty list has no value','C04','dom/overlay.go','''	return true
}

func firstValidListItem''','''	return !n.IsList() || n.(List).Size() > 0
}

func firstValidListItem''')
run('coalesce: returns the last node with a value (of the reversed list)','C04','dom/merge.go','''		if hasValue(node) {
			return node
		}
	}
	return nilLeaf''','''		if !hasValue(node) {
			return node
		}
	}
	return nilLeaf''')
run('firstValidListItem: >= instead of >','C04','dom/overlay.go','		if list.Size() > idx {','		if list.Size() >= idx {')
run('meld: tail from the right list first','C04','dom/merge.go','		l.Set(uint(i), firstValidListItem(i, l1, l2))','		l.Set(uint(i), firstValidListItem(i, l2, l1))')
run('mergeContainers: coalesce(v, n)','C04','dom/merge.go','				merged[k] = coalesce(n, v)','				merged[k] = coalesce(v, n)')
run('Put: lists flattened too (IsList arm added)','C06','dom/overlay.go','''	} else {
		current := m.ensureOverlay(overlay)''','''	} else if value.IsList() {
		return
	} else {
		current := m.ensureOverlay(overlay)''')
run('Put: ensureOverlay before the kind test','C06','dom/overlay.go','''func (m *overlayDocument) Put(overlay, path string, value Node) {
	if value.IsContainer() {''','''func (m *overlayDocument) Put(overlay, path string, value Node) {
	m.ensureOverlay(overlay)
	if value.IsContainer() {''')
run('Put: stores a clone','C06','dom/overlay.go','		current.AddValue(components[len(components)-1], value)','		current.AddValue(components[len(components)-1], value.Clone())')
run('Execute: OnBefore dropped','C12','pipeline/executor.go','	p.l.OnBefore(ctx)\n','')
run('Execute: returns nil','C12','pipeline/executor.go','	p.l.OnAfter(ctx, err)\n	return err','	p.l.OnAfter(ctx, err)\n	return nil')
run('Execute: OnAfter without the error','C12','pipeline/executor.go','	p.l.OnAfter(ctx, err)','	p.l.OnAfter(ctx, nil)')
run('Do: error of a phase ignored','C12','pipeline/action_spec.go','''		err := ctx.Executor().Execute(a)
		if err != nil {
			return err
		}''','''		_ = ctx.Executor().Execute(a)''')
run('Do: phase run directly, not through the executor','C12','pipeline/action_spec.go','		err := ctx.Executor().Execute(a)','		err := a.Do(ctx)')
run('Do: false condition skips the phase only','C12','pipeline/action_spec.go','''			} else if !ok {
				return nil
			}''','''			} else if !ok {
				continue
			}''')
run('Do: third phase added','C12','pipeline/action_spec.go','[]Action{s.Operations, s.Children}','[]Action{s.Operations, s.Children, s.Operations}')
