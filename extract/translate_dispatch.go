package main

// translate_dispatch.go — DYNAMIC DISPATCH of a dom.Node interface method (`v.Equals(o)`, `v.Clone()`)
// inside the Go→Lean translation of translate_dom.go.
//
// A whitelist entry {Pkg: "dom", Name: "Equals", Dispatch: "Node", RecFuel: …, RecGroup: g} stands for no Go
// function: it is the method table of the interface.  The generator
//   - enumerates EVERY named type of the package whose pointer (or value) type implements the
//     interface, maps it to its DomPrelude representation (container / list / leaf) and FAILS when an
//     implementation has none (a new kind of node), when two implementations of one kind resolve the
//     method to different functions (an override in a builder type), or when the function a kind
//     resolves to is not whitelisted;
//   - emits `<Lean>_rec : Nat → Node → … ` = a `match` on the node's constructor calling the translated
//     method of that kind (a member of the same recursion group: with the remaining fuel), and the
//     wrapper `<Lean>` with the fuel instantiated.
// Calls `v.M(…)` on a value of an interface type inside the group go to `rec_<Lean>`; after the group
// to `<Lean>` (instead of the hand-written GoDom.equals / GoDom.clone).

import (
	"fmt"
	"go/types"
	"sort"
	"strings"
)

type xlDispArm struct {
	kind  string   // cont | list | leaf
	impls []string // implementation types, sorted
	fn    *types.Func
}

type xlDisp struct {
	method *types.Func // the interface's method object
	params []string    // Lean types of the parameters (without the receiver)
	res    string
	arms   []xlDispArm
	nullAt map[int]bool
}

func (w *xlWorld) registerDispatch(f *xlFunc, p *xlPkg) error {
	if f.Recv != "" || f.Flatten || f.Acc != "" || len(f.Fuel) > 0 || len(f.Opaque) > 0 || f.External != "" || len(f.Nullable) > 0 {
		return fmt.Errorf("a Dispatch entry takes only Pkg, Name, Lean, Dispatch, RecFuel, RecGroup")
	}
	obj := p.pkg.Scope().Lookup(f.Dispatch)
	if obj == nil {
		return fmt.Errorf("interface %s not found", f.Dispatch)
	}
	iface, ok := obj.Type().Underlying().(*types.Interface)
	if !ok {
		return fmt.Errorf("%s is not an interface", f.Dispatch)
	}
	if domKind(obj.Type()) != "node" {
		return fmt.Errorf("dispatch on %s: only the interface dom.Node is represented by the constructors of `Node`", f.Dispatch)
	}
	var method *types.Func
	for i := 0; i < iface.NumMethods(); i++ {
		if iface.Method(i).Name() == f.Name {
			method = iface.Method(i)
		}
	}
	if method == nil {
		return fmt.Errorf("interface %s has no method %s", f.Dispatch, f.Name)
	}
	// every implementation of the interface in the package
	byKind := map[string]*xlDispArm{}
	names := p.pkg.Scope().Names()
	sort.Strings(names)
	for _, n := range names {
		tn, ok := p.pkg.Scope().Lookup(n).(*types.TypeName)
		if !ok || tn.IsAlias() {
			continue
		}
		named, ok := tn.Type().(*types.Named)
		if !ok || types.IsInterface(named) {
			continue
		}
		var recvT types.Type
		if types.Implements(types.NewPointer(named), iface) {
			recvT = types.NewPointer(named)
		}
		if types.Implements(named, iface) {
			recvT = named
		}
		if recvT == nil {
			continue
		}
		k := domKind(recvT)
		if k != "cont" && k != "list" && k != "leaf" {
			return fmt.Errorf("type %s implements dom.%s but has no DomPrelude representation (a new kind of node?)", types.TypeString(recvT, nil), f.Dispatch)
		}
		mo, _, _ := types.LookupFieldOrMethod(recvT, true, p.pkg, f.Name)
		cf, ok := mo.(*types.Func)
		if !ok {
			return fmt.Errorf("method %s of %s not found", f.Name, n)
		}
		a := byKind[k]
		if a == nil {
			a = &xlDispArm{kind: k, fn: cf}
			byKind[k] = a
		} else if a.fn != cf {
			return fmt.Errorf("%s and %s are both %s nodes but resolve %s to different functions (%s, %s)", a.impls[0], n, k, f.Name,
				w.fset.Position(a.fn.Pos()), w.fset.Position(cf.Pos()))
		}
		a.impls = append(a.impls, types.TypeString(recvT, func(*types.Package) string { return "" }))
	}
	d := &xlDisp{method: method}
	sig := method.Type().(*types.Signature)
	// parameter types; nil-ability by position, as the translated implementations declare it
	nullAt := map[int]bool{}
	first := true
	for _, k := range []string{"cont", "list", "leaf"} {
		a := byKind[k]
		if a == nil {
			return fmt.Errorf("no %s implementation of dom.%s found", k, f.Dispatch)
		}
		var mf *xlFunc
		if r, ok := w.recs[a.fn]; ok && r.f.RecGroup == f.RecGroup {
			mf = r.f
		} else if dn, ok := w.done[a.fn]; ok && dn.f != nil {
			mf = dn.f
			if !dn.monadic || dn.nopaque > 0 || len(dn.flat) > 0 || mf.Flatten {
				return fmt.Errorf("implementation %s: not callable from a dispatcher", funcKey(a.fn))
			}
		} else {
			return fmt.Errorf("%s.%s (%s) is an implementation of dom.%s.%s but is not whitelisted before / in group %q",
				strings.Join(a.impls, ","), f.Name, w.fset.Position(a.fn.Pos()), f.Dispatch, f.Name, f.RecGroup)
		}
		if mf.Acc != "" || mf.Flatten {
			return fmt.Errorf("implementation %s: accumulators / flattened receivers cannot be dispatched", funcKey(a.fn))
		}
		msig := a.fn.Type().(*types.Signature)
		here := map[int]bool{}
		for i := 0; i < msig.Params().Len(); i++ {
			for _, nn := range mf.Nullable {
				if nn == msig.Params().At(i).Name() {
					here[i] = true
				}
			}
		}
		if first {
			nullAt, first = here, false
		} else if fmt.Sprint(here) != fmt.Sprint(nullAt) {
			return fmt.Errorf("the implementations of %s disagree on which parameters may be nil", f.Name)
		}
		if mf.NullRes != f.NullRes {
			return fmt.Errorf("implementation %s: NullRes differs from the dispatcher's", funcKey(a.fn))
		}
		d.arms = append(d.arms, *a)
	}
	for i := 0; i < sig.Params().Len(); i++ {
		t, err := w.leanType(sig.Params().At(i).Type())
		if err != nil {
			return err
		}
		if nullAt[i] {
			if domKind(sig.Params().At(i).Type()) == "" {
				return fmt.Errorf("parameter %d cannot be Nullable", i+1)
			}
			t = "(Option " + t + ")"
		}
		d.params = append(d.params, t)
	}
	if sig.Variadic() {
		return fmt.Errorf("variadic interface method")
	}
	var rts []string
	for i := 0; i < sig.Results().Len(); i++ {
		t, err := w.leanType(sig.Results().At(i).Type())
		if err != nil {
			return err
		}
		if f.NullRes {
			t = "(Option " + t + ")"
		}
		rts = append(rts, t)
	}
	d.res = tupleType(rts)
	// the implementations must have exactly these parameter types behind their receiver
	for _, a := range d.arms {
		var mf *xlFunc
		if r, ok := w.recs[a.fn]; ok {
			mf = r.f
		} else {
			mf = w.done[a.fn].f
		}
		pts, res, err := w.sigLeanTypes(mf, a.fn.Type().(*types.Signature))
		if err != nil {
			return err
		}
		if len(pts) != len(d.params)+1 || strings.Join(pts[1:], ",") != strings.Join(d.params, ",") || res != d.res || pts[0] != domKindLean(a.kind) {
			return fmt.Errorf("implementation %s has the translated type %s → %s, the interface method %s → %s", funcKey(a.fn),
				strings.Join(pts, " → "), res, strings.Join(d.params, " → "), d.res)
		}
	}
	w.disps[f] = d
	d.nullAt = nullAt
	if f.RecFuel == "" {
		// a method table over non-recursive implementations: a plain definition
		for _, a := range d.arms {
			if _, ok := w.done[a.fn]; !ok {
				return fmt.Errorf("a Dispatch entry without RecFuel needs implementations translated before it")
			}
		}
		return nil
	}
	w.recs[method] = &xlRec{lean: f.Lean + "_rec", param: "rec_" + f.Lean, f: f, sig: sig, isDisp: true,
		typ: "(" + strings.Join(append(append([]string{"Node"}, d.params...), "Go.Res "+d.res), " → ") + ")"}
	return nil
}

// translateDispatch: the text of the dispatcher (same three-part protocol as a recursive function)
func (w *xlWorld) translateDispatch(p *xlPkg, f *xlFunc) (string, error) {
	d := w.disps[f]
	if d == nil {
		return "", fmt.Errorf("dispatcher was not registered (Dispatch needs RecFuel)")
	}
	var tbl0 []string
	for _, a := range d.arms {
		tbl0 = append(tbl0, strings.Join(a.impls, ", ")+" ↦ "+w.dispTarget(a.fn))
	}
	if f.RecFuel == "" {
		var b strings.Builder
		fmt.Fprintf(&b, "/-- dynamic dispatch of %s.%s.%s on the implementation of the receiver: %s -/\n", f.Pkg, f.Dispatch, f.Name, strings.Join(tbl0, "; "))
		fmt.Fprintf(&b, "def %s (recv : Node)", f.Lean)
		var args []string
		for i, t := range d.params {
			args = append(args, fmt.Sprintf("a%d", i+1))
			fmt.Fprintf(&b, " (a%d : %s)", i+1, t)
		}
		fmt.Fprintf(&b, " : Go.Res %s :=\n  match recv with\n", d.res)
		for _, a := range d.arms {
			ctor := map[string]string{"cont": ".cont", "list": ".list", "leaf": ".leaf"}[a.kind]
			fmt.Fprintf(&b, "  | %s x => %s\n", ctor, strings.Join(append([]string{w.done[a.fn].lean, "x"}, args...), " "))
		}
		w.dispDone[f.Name] = f.Lean
		w.dispInfo[f.Name] = d
		return b.String(), nil
	}
	rec := w.recs[d.method]
	var b strings.Builder
	b.WriteString("\x01")
	var tbl []string
	for _, a := range d.arms {
		tbl = append(tbl, strings.Join(a.impls, ", ")+" ↦ "+w.dispTarget(a.fn))
	}
	fmt.Fprintf(&b, "/-- dynamic dispatch of %s.%s.%s on the implementation of the receiver: %s -/\n", f.Pkg, f.Dispatch, f.Name, strings.Join(tbl, "; "))
	var args, under []string
	for i := range d.params {
		args, under = append(args, fmt.Sprintf("a%d", i+1)), append(under, "_")
	}
	fmt.Fprintf(&b, "def %s : %s → Go.Res %s\n", rec.lean, strings.Join(append([]string{"Nat", "Node"}, d.params...), " → "), d.res)
	fmt.Fprintf(&b, "  | %s => .fuel\n", strings.Join(append([]string{"0", "_"}, under...), ", "))
	fmt.Fprintf(&b, "  | %s =>\n    match recv with\n", strings.Join(append([]string{"fuel + 1", "recv"}, args...), ", "))
	for _, a := range d.arms {
		ctor := map[string]string{"cont": ".cont", "list": ".list", "leaf": ".leaf"}[a.kind]
		var call []string
		if r, ok := w.recs[a.fn]; ok && r.f.RecGroup == f.RecGroup {
			call = []string{r.lean, "fuel", "x"}
		} else {
			call = []string{w.done[a.fn].lean, "x"}
		}
		fmt.Fprintf(&b, "    | %s x => %s\n", ctor, strings.Join(append(call, args...), " "))
	}
	b.WriteString("\x01")
	names := append([]string{"recv"}, args...)
	recFuel := substParams(f.RecFuel, names)
	fmt.Fprintf(&b, "/-- %s.%s.%s with the recursion fuel instantiated: %s -/\n", f.Pkg, f.Dispatch, f.Name, recFuel)
	fmt.Fprintf(&b, "def %s (recv : Node)", f.Lean)
	for i, t := range d.params {
		fmt.Fprintf(&b, " (%s : %s)", args[i], t)
	}
	fmt.Fprintf(&b, " : Go.Res %s :=\n  %s\n", d.res, strings.Join(append([]string{rec.lean, "(" + recFuel + ")"}, names...), " "))
	w.dispDone[f.Name] = f.Lean
	w.dispInfo[f.Name] = d
	return b.String(), nil
}

func (w *xlWorld) dispTarget(fn *types.Func) string {
	if r, ok := w.recs[fn]; ok {
		return r.f.Lean
	}
	if d, ok := w.done[fn]; ok {
		return d.lean
	}
	return fn.Name()
}
