package main

// translate_expr.go — expressions of the Go→Lean translator (see translate.go).

import (
	"fmt"
	"go/ast"
	"go/constant"
	"go/token"
	"go/types"
	"strings"
)

// xl: translation of one function
type xl struct {
	w        *xlWorld
	p        *xlPkg
	f        *xlFunc
	fd       *ast.FuncDecl
	names    map[types.Object]string
	used     map[string]bool
	monadic  bool
	tmp      int
	loopN    int
	fuelIdx  int
	aux      []string
	results  []types.Type
	recv     types.Object
	flat     map[string]string
	flatPs   []xlParam
	opaque   map[string]string
	opaquePs []xlParam
	touched  map[string]bool // flattened-receiver / opaque parameters referenced (loops capture them)
	usesRec  bool            // a self-call was translated (translate_rec.go)
	// translate_dom.go
	optVars                      map[types.Object]bool // variables of Lean type `Option …` (may be nil)
	paramObjs                    map[types.Object]bool
	acc                          *types.Var // accumulator parameter (`res *[]T`)
	inGroup                      map[*types.Func]bool
	recPs                        []xlParam         // recursive callees of the current group (`rec_<fn>`)
	dispatch                     map[string]string // interface method name -> dispatcher of the current group
	flatKeys                     []string
	recvAcc                      bool // whitelist Acc "$recv": the receiver is the threaded value and the only result
	inStmtCall                   bool
	mutated                      map[types.Object]bool // variables that are the target of an in-place mutation (functional update)
	aliasPairs                   [][2]types.Object     // `a := b` / `a = b` between variables of a reference kind
	accAlias                     map[types.Object]bool // `m := *ret`: a second name of the accumulator map
	goParamNames, leanParamNames []string              // parameters by position (`$k` in fuel expressions)
}

type xlParam struct{ name, typ string }

func (x *xl) errf(n ast.Node, format string, a ...any) error {
	return fmt.Errorf("%s: unsupported: %s", x.w.fset.Position(n.Pos()), fmt.Sprintf(format, a...))
}

func (x *xl) fresh(base string) string {
	if leanKeywords[base] {
		base += "_"
	}
	n := base
	for i := 2; x.used[n]; i++ {
		n = fmt.Sprintf("%s_%d", base, i)
	}
	x.used[n] = true
	return n
}

func (x *xl) nameOf(o types.Object) string {
	if n, ok := x.names[o]; ok {
		return n
	}
	n := x.fresh(o.Name())
	x.names[o] = n
	return n
}

func (x *xl) newTmp() string {
	for {
		x.tmp++
		n := fmt.Sprintf("t%d", x.tmp)
		if !x.used[n] {
			x.used[n] = true
			return n
		}
	}
}

func (x *xl) typeOf(e ast.Expr) types.Type { return x.p.info.Types[e].Type }

func isStringy(t types.Type) bool {
	b, ok := t.Underlying().(*types.Basic)
	return ok && b.Info()&types.IsString != 0
}
func isInty(t types.Type) bool {
	b, ok := t.Underlying().(*types.Basic)
	return ok && (b.Kind() == types.Int || b.Kind() == types.UntypedInt)
}
func hasFmtMethod(t types.Type) bool {
	for _, tt := range []types.Type{t, types.NewPointer(t)} {
		ms := types.NewMethodSet(tt)
		for _, n := range []string{"String", "Error", "Format", "GoString"} {
			if ms.Lookup(nil, n) != nil {
				return true
			}
		}
	}
	return false
}
func isBuilder(t types.Type) bool {
	if p, ok := t.(*types.Pointer); ok {
		t = p.Elem()
	}
	n, ok := t.(*types.Named)
	return ok && n.Obj().Pkg() != nil && n.Obj().Pkg().Path() == "strings" && n.Obj().Name() == "Builder"
}
func isErrorT(t types.Type) bool {
	n, ok := t.(*types.Named)
	return ok && n.Obj().Pkg() == nil && n.Obj().Name() == "error"
}

func leanChar(r rune) string {
	switch r {
	case '\'':
		return "'\\''"
	case '\\':
		return "'\\\\'"
	case '\n':
		return "'\\n'"
	case '\t':
		return "'\\t'"
	}
	if r < 32 || r == 127 {
		return fmt.Sprintf("(Char.ofNat %d)", r)
	}
	return "'" + string(r) + "'"
}

func (x *xl) constant(e ast.Expr, tv types.TypeAndValue) (string, error) {
	t := tv.Type
	switch tv.Value.Kind() {
	case constant.Bool:
		if constant.BoolVal(tv.Value) {
			return "true", nil
		}
		return "false", nil
	case constant.String:
		return leanStr(constant.StringVal(tv.Value)), nil
	case constant.Int:
		v, ok := constant.Int64Val(tv.Value)
		if !ok {
			return "", x.errf(e, "integer constant out of range")
		}
		if b, ok := t.Underlying().(*types.Basic); ok {
			switch b.Kind() {
			case types.Int32, types.UntypedRune, types.Uint8:
				return leanChar(rune(v)), nil
			case types.Int, types.UntypedInt:
				if v < 0 {
					return fmt.Sprintf("(%d)", v), nil
				}
				return fmt.Sprintf("%d", v), nil
			}
		}
	}
	return "", x.errf(e, "constant of type %s", t)
}

// impure: does evaluating e need the Res monad?
func (x *xl) impure(e ast.Expr) bool {
	r := false
	ast.Inspect(e, func(n ast.Node) bool {
		switch y := n.(type) {
		case *ast.IndexExpr, *ast.SliceExpr:
			r = true
		case *ast.StarExpr, *ast.TypeAssertExpr:
			r = true
		case *ast.CallExpr:
			if x.calleeMonadic(y) {
				r = true
			}
		}
		return !r
	})
	return r
}

func (x *xl) calleeFunc(c *ast.CallExpr) *types.Func {
	switch f := c.Fun.(type) {
	case *ast.Ident:
		if fn, ok := x.p.info.Uses[f].(*types.Func); ok {
			return fn
		}
	case *ast.SelectorExpr:
		if fn, ok := x.p.info.Uses[f.Sel].(*types.Func); ok {
			return fn
		}
	}
	return nil
}

func funcKey(fn *types.Func) string {
	if fn.Pkg() == nil {
		return fn.Name()
	}
	return fn.Pkg().Name() + "." + fn.Name()
}

func (x *xl) calleeMonadic(c *ast.CallExpr) bool {
	if id, ok := c.Fun.(*ast.Ident); ok {
		if b, ok := x.p.info.Uses[id].(*types.Builtin); ok && b.Name() == "panic" {
			return true
		}
		if b, ok := x.p.info.Uses[id].(*types.Builtin); ok && b.Name() == "make" && len(c.Args) == 2 {
			if tv := x.p.info.Types[c.Args[1]]; tv.Value == nil || constant.Sign(tv.Value) != 0 {
				return true
			}
		}
	}
	fn := x.calleeFunc(c)
	if fn == nil {
		return false
	}
	if d := x.lookupDone(fn); d != nil {
		return d.monadic
	}
	if x.f.Rec && fn == x.p.info.Defs[x.fd.Name] {
		return true
	}
	for _, o := range x.f.Opaque {
		if o == funcKey(fn) {
			return true
		}
	}
	return false
}

func (x *xl) lookupDone(fn *types.Func) *xlDone {
	if d, ok := x.w.done[fn]; ok {
		return d
	}
	return nil
}

// exprs translates a list of expressions left to right
func (x *xl) exprs(es []ast.Expr) ([]string, []string, error) {
	var binds, out []string
	for _, e := range es {
		b, s, err := x.expr(e)
		if err != nil {
			return nil, nil, err
		}
		binds = append(binds, b...)
		out = append(out, s)
	}
	return binds, out, nil
}

func (x *xl) bindTmp(binds []string, rhs string) ([]string, string) {
	t := x.newTmp()
	return append(binds, fmt.Sprintf("let %s ← %s", t, rhs)), t
}

// zero value / nil of a type
func (x *xl) nilOf(n ast.Node, t types.Type) (string, error) {
	switch t.Underlying().(type) {
	case *types.Slice:
		return "[]", nil
	case *types.Pointer:
		return "none", nil
	}
	if isErrorT(t) {
		return "none", nil
	}
	return "", x.errf(n, "nil of type %s", t)
}

func isNilIdent(info *types.Info, e ast.Expr) bool {
	id, ok := e.(*ast.Ident)
	if !ok {
		return false
	}
	_, isNil := info.Uses[id].(*types.Nil)
	return isNil
}

func (x *xl) expr(e ast.Expr) ([]string, string, error) {
	info := x.p.info
	if tv, ok := info.Types[e]; ok && tv.Value != nil {
		s, err := x.constant(e, tv)
		return nil, s, err
	}
	if x.w.dom {
		if b, s, ok, err := x.domNew(e); ok || err != nil {
			return b, s, err
		}
	}
	switch y := e.(type) {
	case *ast.ParenExpr:
		return x.expr(y.X)
	case *ast.TypeAssertExpr:
		if x.w.dom {
			return x.typeAssert(y)
		}
	case *ast.Ident:
		switch o := info.Uses[y].(type) {
		case *types.Var:
			if x.w.dom && isDomPkgVar(o, "nilLeaf") {
				return nil, "GoDom.nilLeaf", nil
			}
			if o.IsField() {
				return nil, "", x.errf(e, "field identifier %s", y.Name)
			}
			if o.Parent() == o.Pkg().Scope() {
				if x.pkgVarEmptySlice(o) {
					return nil, "[]", nil
				}
				return nil, "", x.errf(e, "package-level variable %s", y.Name)
			}
			if x.f.Flatten && o == x.recv {
				return nil, "", x.errf(e, "receiver used as a value")
			}
			return nil, x.nameOf(o), nil
		case *types.Nil:
			return nil, "", x.errf(e, "nil in a position without a known type")
		}
		return nil, "", x.errf(e, "identifier %s", y.Name)
	case *ast.SelectorExpr:
		return x.selector(y)
	case *ast.UnaryExpr:
		b, s, err := x.expr(y.X)
		if err != nil {
			return nil, "", err
		}
		switch y.Op {
		case token.AND:
			// &x of a local variable: pointer identity is not modelled (translate_rec.go)
			if id, ok := y.X.(*ast.Ident); ok {
				if v, ok := info.Uses[id].(*types.Var); ok && !v.IsField() && v.Parent() != v.Pkg().Scope() {
					switch v.Type().Underlying().(type) {
					case *types.Basic, *types.Slice: // slices have value semantics in the model
						return b, "(some " + s + ")", nil
					}
				}
			}
		case token.NOT:
			return b, "(!" + s + ")", nil
		case token.SUB:
			if isInty(x.typeOf(y.X)) {
				return b, "(-" + s + ")", nil
			}
		}
		return nil, "", x.errf(e, "unary operator %s", y.Op)
	case *ast.StarExpr:
		if id, ok := y.X.(*ast.Ident); ok && x.acc != nil && info.Uses[id] == x.acc {
			return nil, x.nameOf(x.acc), nil
		}
		b, s, err := x.expr(y.X)
		if err != nil {
			return nil, "", err
		}
		if _, ok := x.typeOf(y.X).Underlying().(*types.Pointer); !ok {
			return nil, "", x.errf(e, "dereference of %s", x.typeOf(y.X))
		}
		b, t := x.bindTmp(b, "Go.deref "+s)
		return b, t, nil
	case *ast.BinaryExpr:
		return x.binary(y)
	case *ast.IndexExpr:
		if x.w.dom {
			if b, s, ok, err := x.domIndex(y); ok || err != nil {
				return b, s, err
			}
		}
		bs, es, err := x.exprs([]ast.Expr{y.X, y.Index})
		if err != nil {
			return nil, "", err
		}
		t := x.typeOf(y.X)
		var fn string
		if isStringy(t) {
			fn = "Go.byteAt"
		} else if _, ok := t.Underlying().(*types.Slice); ok {
			fn = "Go.index"
		} else {
			return nil, "", x.errf(e, "index into %s", t)
		}
		bs, tmp := x.bindTmp(bs, fmt.Sprintf("%s %s %s", fn, es[0], es[1]))
		return bs, tmp, nil
	case *ast.SliceExpr:
		if y.Slice3 {
			return nil, "", x.errf(e, "3-index slice")
		}
		t := x.typeOf(y.X)
		var fn, ln string
		if isStringy(t) {
			fn, ln = "Go.slice", "Go.len"
		} else if _, ok := t.Underlying().(*types.Slice); ok {
			fn, ln = "Go.sliceL", "Go.lenL"
		} else {
			return nil, "", x.errf(e, "slice of %s", t)
		}
		bs, s, err := x.expr(y.X)
		if err != nil {
			return nil, "", err
		}
		lo, hi := "0", "("+ln+" "+s+")"
		if y.Low != nil {
			b, v, err := x.expr(y.Low)
			if err != nil {
				return nil, "", err
			}
			bs, lo = append(bs, b...), v
		}
		if y.High != nil {
			b, v, err := x.expr(y.High)
			if err != nil {
				return nil, "", err
			}
			bs, hi = append(bs, b...), v
		}
		bs, tmp := x.bindTmp(bs, fmt.Sprintf("%s %s %s %s", fn, s, lo, hi))
		return bs, tmp, nil
	case *ast.CallExpr:
		return x.call(y)
	case *ast.CompositeLit:
		t := x.typeOf(y)
		if _, ok := t.Underlying().(*types.Slice); ok {
			bs, es, err := x.exprs(y.Elts)
			if err != nil {
				return nil, "", err
			}
			for _, el := range y.Elts {
				if _, ok := el.(*ast.KeyValueExpr); ok {
					return nil, "", x.errf(e, "keyed slice literal")
				}
			}
			return bs, "[" + strings.Join(es, ", ") + "]", nil
		}
		if isBuilder(t) && len(y.Elts) == 0 {
			return nil, "\"\"", nil
		}
		if st, ok := t.Underlying().(*types.Struct); ok && x.w.dom {
			// a struct literal with every field given by name
			sn, err := x.w.leanType(t)
			if err != nil {
				return nil, "", x.errf(e, "%v", err)
			}
			if len(y.Elts) != st.NumFields() {
				return nil, "", x.errf(e, "struct literal that does not name every field")
			}
			var bs, fs []string
			for _, el := range y.Elts {
				kv, ok := el.(*ast.KeyValueExpr)
				if !ok {
					return nil, "", x.errf(e, "positional struct literal")
				}
				fid := kv.Key.(*ast.Ident)
				var ft types.Type
				for i := 0; i < st.NumFields(); i++ {
					if st.Field(i).Name() == fid.Name {
						ft = st.Field(i).Type()
					}
				}
				b, v, err := x.exprTo(kv.Value, ft, false)
				if err != nil {
					return nil, "", err
				}
				bs, fs = append(bs, b...), append(fs, leanField(fid.Name)+" := "+v)
			}
			return bs, "({ " + strings.Join(fs, ", ") + " } : " + sn + ")", nil
		}
		return nil, "", x.errf(e, "composite literal of type %s", t)
	}
	return nil, "", x.errf(e, "expression %T", e)
}

func (x *xl) selector(y *ast.SelectorExpr) ([]string, string, error) {
	info := x.p.info
	if x.w.dom {
		if b, s, ok, err := x.domField(y); ok || err != nil {
			return b, s, err
		}
	}
	if sel, ok := info.Selections[y]; ok && sel.Kind() == types.FieldVal {
		// flattened receiver chain?
		if x.f.Flatten {
			chain := []string{y.Sel.Name}
			cur := y.X
			for {
				if s2, ok := cur.(*ast.SelectorExpr); ok {
					if sl, ok := info.Selections[s2]; ok && sl.Kind() == types.FieldVal {
						chain = append([]string{s2.Sel.Name}, chain...)
						cur = s2.X
						continue
					}
				}
				break
			}
			if id, ok := cur.(*ast.Ident); ok && info.Uses[id] == x.recv {
				key := strings.Join(chain, ".")
				if n, ok := x.flat[key]; ok {
					x.touched[n] = true
					return nil, n, nil
				}
				lt, err := x.w.leanType(x.typeOf(y))
				if err != nil {
					return nil, "", x.errf(y, "%v", err)
				}
				n := x.fresh(x.recv.Name() + "_" + strings.Join(chain, "_"))
				x.flat[key] = n
				x.flatKeys = append(x.flatKeys, key)
				x.touched[n] = true
				x.flatPs = append(x.flatPs, xlParam{n, lt})
				return nil, n, nil
			}
		}
		if _, ok := x.typeOf(y.X).Underlying().(*types.Struct); !ok {
			return nil, "", x.errf(y, "field selection through %s", x.typeOf(y.X))
		}
		if _, err := x.w.leanType(x.typeOf(y.X)); err != nil {
			return nil, "", x.errf(y, "%v", err)
		}
		b, s, err := x.expr(y.X)
		if err != nil {
			return nil, "", err
		}
		return b, s + "." + leanField(y.Sel.Name), nil
	}
	return nil, "", x.errf(y, "selector %s", y.Sel.Name)
}

func (x *xl) binary(y *ast.BinaryExpr) ([]string, string, error) {
	info := x.p.info
	// comparisons with nil
	if y.Op == token.EQL || y.Op == token.NEQ {
		var other ast.Expr
		if isNilIdent(info, y.Y) {
			other = y.X
		} else if isNilIdent(info, y.X) {
			other = y.Y
		}
		if other != nil && x.w.dom && domKind(x.typeOf(other)) != "" {
			b, s, err := x.expr(other)
			if err != nil {
				return nil, "", err
			}
			neg := ""
			if y.Op == token.NEQ {
				neg = "!"
			}
			if domKind(x.typeOf(other)) == "any" {
				return b, "(" + neg + "(" + s + " == GoDom.anyNil))", nil
			}
			if !x.nullable(other) {
				return nil, "", x.errf(y, "comparison with nil of a value the translation assumes non-nil (mark the parameter Nullable)")
			}
			if y.Op == token.EQL {
				return b, s + ".isNone", nil
			}
			return b, s + ".isSome", nil
		}
		if other == nil && x.w.dom {
			// n == nilLeaf
			var o2 ast.Expr
			if id, ok := y.Y.(*ast.Ident); ok && isDomPkgVar(info.Uses[id], "nilLeaf") {
				o2 = y.X
			} else if id, ok := y.X.(*ast.Ident); ok && isDomPkgVar(info.Uses[id], "nilLeaf") {
				o2 = y.Y
			}
			if o2 != nil {
				b, s, err := x.exprTo(o2, x.nodeType(), true)
				if err != nil {
					return nil, "", err
				}
				if y.Op == token.NEQ {
					return b, "(!(GoDom.isNilLeaf " + s + "))", nil
				}
				return b, "(GoDom.isNilLeaf " + s + ")", nil
			}
		}
		if other != nil {
			t := x.typeOf(other)
			_, isPtr := t.Underlying().(*types.Pointer)
			if !isPtr && !isErrorT(t) {
				return nil, "", x.errf(y, "comparison of %s with nil", t)
			}
			b, s, err := x.expr(other)
			if err != nil {
				return nil, "", err
			}
			if y.Op == token.EQL {
				return b, s + ".isNone", nil
			}
			return b, s + ".isSome", nil
		}
	}
	if y.Op == token.LAND || y.Op == token.LOR {
		bl, l, err := x.expr(y.X)
		if err != nil {
			return nil, "", err
		}
		br, r, err := x.expr(y.Y)
		if err != nil {
			return nil, "", err
		}
		if len(br) == 0 {
			op := "&&"
			if y.Op == token.LOR {
				op = "||"
			}
			return bl, fmt.Sprintf("(%s %s %s)", l, op, r), nil
		}
		// short circuit: the right operand is only evaluated when needed
		inner := "(do\n" + indentLines(append(append([]string{}, br...), "pure "+r), "    ") + ")"
		var rhs string
		if y.Op == token.LAND {
			rhs = fmt.Sprintf("(if %s then %s else pure false)", l, inner)
		} else {
			rhs = fmt.Sprintf("(if %s then pure true else %s)", l, inner)
		}
		bl, t := x.bindTmp(bl, rhs)
		return bl, t, nil
	}
	bs, es, err := x.exprs([]ast.Expr{y.X, y.Y})
	if err != nil {
		return nil, "", err
	}
	l, r := es[0], es[1]
	tl := x.typeOf(y.X)
	switch y.Op {
	case token.ADD:
		if isStringy(tl) {
			return bs, fmt.Sprintf("(%s ++ %s)", l, r), nil
		}
		if isInty(tl) {
			return bs, fmt.Sprintf("(%s + %s)", l, r), nil
		}
	case token.SUB:
		if isInty(tl) {
			return bs, fmt.Sprintf("(%s - %s)", l, r), nil
		}
	case token.MUL:
		if isInty(tl) {
			return bs, fmt.Sprintf("(%s * %s)", l, r), nil
		}
	case token.EQL, token.NEQ:
		if _, err := x.w.leanType(tl); err != nil {
			return nil, "", x.errf(y, "%v", err)
		}
		if _, ok := tl.Underlying().(*types.Basic); !ok {
			return nil, "", x.errf(y, "comparison of %s", tl)
		}
		if y.Op == token.EQL {
			return bs, fmt.Sprintf("(%s == %s)", l, r), nil
		}
		return bs, fmt.Sprintf("(%s != %s)", l, r), nil
	case token.LSS, token.LEQ, token.GTR, token.GEQ:
		if isInty(tl) {
			op := map[token.Token]string{token.LSS: "<", token.LEQ: "≤", token.GTR: ">", token.GEQ: "≥"}[y.Op]
			return bs, fmt.Sprintf("(decide (%s %s %s))", l, op, r), nil
		}
	}
	return nil, "", x.errf(y, "operator %s on %s", y.Op, tl)
}

func indentLines(ls []string, ind string) string {
	var out []string
	for _, l := range ls {
		for _, p := range strings.Split(l, "\n") {
			out = append(out, ind+p)
		}
	}
	return strings.Join(out, "\n")
}

func (x *xl) sprintf(c *ast.CallExpr) ([]string, string, error) {
	info := x.p.info
	if len(c.Args) == 0 {
		return nil, "", x.errf(c, "Sprintf without format")
	}
	tv := info.Types[c.Args[0]]
	if tv.Value == nil || tv.Value.Kind() != constant.String {
		return nil, "", x.errf(c, "Sprintf with a non-constant format")
	}
	format := constant.StringVal(tv.Value)
	bs, args, err := x.exprs(c.Args[1:])
	if err != nil {
		return nil, "", err
	}
	var parts []string
	lit := ""
	ai := 0
	flush := func() {
		if lit != "" {
			parts = append(parts, leanStr(lit))
			lit = ""
		}
	}
	rs := []rune(format)
	for i := 0; i < len(rs); i++ {
		if rs[i] != '%' {
			lit += string(rs[i])
			continue
		}
		if i+1 >= len(rs) {
			return nil, "", x.errf(c, "format %q", format)
		}
		i++
		switch rs[i] {
		case '%':
			lit += "%"
		case 's', 'd':
			if ai >= len(args) {
				return nil, "", x.errf(c, "format %q: missing argument", format)
			}
			t := x.typeOf(c.Args[1+ai])
			flush()
			if rs[i] == 's' && isStringy(t) {
				parts = append(parts, "Go.fmtS "+args[ai])
			} else if rs[i] == 'd' && isInty(t) {
				parts = append(parts, "Go.fmtD "+args[ai])
			} else if bt, ok := t.Underlying().(*types.Basic); ok && rs[i] == 'd' && bt.Kind() == types.Uint && x.w.dom {
				parts = append(parts, "Go.fmtD (Int.ofNat "+args[ai]+")")
			} else {
				return nil, "", x.errf(c, "format verb %%%c applied to %s", rs[i], t)
			}
			ai++
		case 'v': // %v of a plain string / int (a type with a String, Error or Format method prints differently: rejected)
			if ai >= len(args) {
				return nil, "", x.errf(c, "format %q: missing argument", format)
			}
			t := x.typeOf(c.Args[1+ai])
			flush()
			if hasFmtMethod(t) {
				return nil, "", x.errf(c, "format verb %%v applied to %s, which has a String / Error / Format method", t)
			} else if isStringy(t) {
				parts = append(parts, "Go.fmtS "+args[ai])
			} else if isInty(t) {
				parts = append(parts, "Go.fmtD "+args[ai])
			} else {
				return nil, "", x.errf(c, "format verb %%v applied to %s", t)
			}
			ai++
		default:
			return nil, "", x.errf(c, "format verb %%%c", rs[i])
		}
	}
	flush()
	if ai != len(args) {
		return nil, "", x.errf(c, "format %q: extra arguments", format)
	}
	if len(parts) == 0 {
		return bs, "\"\"", nil
	}
	return bs, "(" + strings.Join(parts, " ++ ") + ")", nil
}

func (x *xl) call(c *ast.CallExpr) ([]string, string, error) {
	info := x.p.info
	if c.Ellipsis != token.NoPos {
		// only append(xs, ys...)
		if id, ok := c.Fun.(*ast.Ident); !ok || id.Name != "append" {
			return nil, "", x.errf(c, "variadic call")
		}
	}
	// conversions
	if tv, ok := info.Types[c.Fun]; ok && tv.IsType() {
		if len(c.Args) != 1 {
			return nil, "", x.errf(c, "conversion")
		}
		from, to := x.typeOf(c.Args[0]), tv.Type
		if x.w.dom {
			if b, s, ok, err := x.domConversion(c, to); ok || err != nil {
				return b, s, err
			}
		}
		b, s, err := x.expr(c.Args[0])
		if err != nil {
			return nil, "", err
		}
		if isStringy(from) && isStringy(to) {
			return b, s, nil
		}
		if sl, ok := to.Underlying().(*types.Slice); ok && isStringy(from) {
			if bt, ok := sl.Elem().(*types.Basic); ok && bt.Kind() == types.Int32 {
				return b, "(Go.runes " + s + ")", nil
			}
		}
		return nil, "", x.errf(c, "conversion from %s to %s", from, to)
	}
	switch f := c.Fun.(type) {
	case *ast.Ident:
		if x.w.dom {
			if b, s, ok, err := x.domFuncValueCall(c, f); ok || err != nil {
				return b, s, err
			}
		}
		if bi, ok := info.Uses[f].(*types.Builtin); ok {
			switch bi.Name() {
			case "len":
				b, s, err := x.expr(c.Args[0])
				if err != nil {
					return nil, "", err
				}
				t := x.typeOf(c.Args[0])
				if isStringy(t) {
					return b, "(Go.len " + s + ")", nil
				}
				if _, ok := t.Underlying().(*types.Slice); ok {
					return b, "(Go.lenL " + s + ")", nil
				}
				if _, ok := t.Underlying().(*types.Map); ok && x.w.dom && domKind(t) == "cont" {
					return b, "(GoDom.mapLen " + s + ")", nil
				}
				return nil, "", x.errf(c, "len of %s", t)
			case "append":
				bs, es, err := x.exprs(c.Args)
				if err != nil {
					return nil, "", err
				}
				if c.Ellipsis != token.NoPos {
					if len(es) != 2 {
						return nil, "", x.errf(c, "append with ...")
					}
					if _, ok := x.typeOf(c.Args[1]).Underlying().(*types.Slice); !ok {
						return nil, "", x.errf(c, "append of a string with ...")
					}
					return bs, fmt.Sprintf("(%s ++ %s)", es[0], es[1]), nil
				}
				if len(es) == 1 {
					return bs, es[0], nil
				}
				return bs, fmt.Sprintf("(%s ++ [%s])", es[0], strings.Join(es[1:], ", ")), nil
			case "make":
				if _, ok := x.typeOf(c).Underlying().(*types.Slice); ok && len(c.Args) == 2 {
					if tv := info.Types[c.Args[1]]; tv.Value != nil && constant.Sign(tv.Value) == 0 {
						return nil, "[]", nil
					}
				}
				if sl, ok := x.typeOf(c).Underlying().(*types.Slice); ok && len(c.Args) == 2 {
					// make([]T, n): n zero values, panic for n < 0 (GoPrelude makeL)
					z, err := x.zeroOf(c, sl.Elem())
					if err != nil {
						return nil, "", err
					}
					bs, n, err := x.expr(c.Args[1])
					if err != nil {
						return nil, "", err
					}
					bs, t := x.bindTmp(bs, fmt.Sprintf("Go.makeL %s %s", z, n))
					return bs, t, nil
				}
				return nil, "", x.errf(c, "make other than make([]T, n)")
			case "panic":
				// the argument is evaluated first (it may itself panic), its value is not modelled
				bs, _, err := x.exprs(c.Args)
				if err != nil {
					return nil, "", err
				}
				bs, t := x.bindTmp(bs, "(Go.Res.panic : Go.Res Unit)")
				return bs, t, nil
			}
			return nil, "", x.errf(c, "builtin %s", bi.Name())
		}
	case *ast.SelectorExpr:
		if x.w.dom {
			if sel, ok := info.Selections[f]; ok && sel.Kind() == types.MethodVal {
				if b, s, ok, err := x.domMethod(c, f); ok || err != nil {
					return b, s, err
				}
				if b, s, ok, err := x.domRegexpCall(c, f); ok || err != nil {
					return b, s, err
				}
			}
			if sel, ok := info.Selections[f]; ok && sel.Kind() == types.FieldVal {
				// a function-valued field of the flattened receiver
				sig, ok := x.typeOf(f).Underlying().(*types.Signature)
				if !ok {
					return nil, "", x.errf(c, "call of a field that is not a function")
				}
				bs, fv, err := x.selector(f)
				if err != nil {
					return nil, "", err
				}
				if sig.Variadic() || len(c.Args) != sig.Params().Len() {
					return nil, "", x.errf(c, "call of a function value: argument count")
				}
				args := []string{fv}
				for i, a := range c.Args {
					b, v, err := x.exprTo(a, sig.Params().At(i).Type(), false)
					if err != nil {
						return nil, "", err
					}
					bs, args = append(bs, b...), append(args, v)
				}
				bs, t := x.bindTmp(bs, strings.Join(args, " "))
				return bs, t, nil
			}
		}
		// methods of strings.Builder values / package-level regexps
		if sel, ok := info.Selections[f]; ok && sel.Kind() == types.MethodVal {
			rt := x.typeOf(f.X)
			if isBuilder(rt) && f.Sel.Name == "String" && len(c.Args) == 0 {
				return x.expr(f.X)
			}
			if id, ok := f.X.(*ast.Ident); ok && f.Sel.Name == "MatchString" && len(c.Args) == 1 {
				if v, ok := info.Uses[id].(*types.Var); ok && v.Parent() == v.Pkg().Scope() {
					pat, ok := x.regexpPattern(v)
					if !ok {
						return nil, "", x.errf(c, "MatchString on %s: not a package-level regexp.MustCompile(literal)", id.Name)
					}
					prim, ok := xlRegexps[pat]
					if !ok {
						return nil, "", x.errf(c, "regular expression %q has no GoPrelude counterpart", pat)
					}
					b, s, err := x.expr(c.Args[0])
					if err != nil {
						return nil, "", err
					}
					return b, fmt.Sprintf("(%s %s)", prim, s), nil
				}
			}
		}
	}
	fn := x.calleeFunc(c)
	if fn == nil {
		if bs, v, ok, err := x.funcValueCall(c); ok {
			return bs, v, err
		}
		return nil, "", x.errf(c, "call of a non-function")
	}
	if !(x.w.dom && x.f.External == "") {
		// (DOM mode: callWhitelisted below coerces the arguments — nil-able parameters, interface conversions)
		if bs, v, ok, err := x.flatCall(c, fn); ok {
			return bs, v, err
		}
	}
	// standard library
	if fn.Pkg() != nil && !strings.HasPrefix(fn.Pkg().Path(), xlModule) {
		key := fn.Pkg().Path() + "." + fn.Name()
		if sig := fn.Type().(*types.Signature); sig.Recv() != nil {
			return nil, "", x.errf(c, "method %s of %s", fn.Name(), sig.Recv().Type())
		}
		if key == "fmt.Sprintf" {
			return x.sprintf(c)
		}
		if key == "fmt.Errorf" || key == "errors.New" {
			// arguments are evaluated (formatting itself has no effect), the text is not modelled
			bs, _, err := x.exprs(c.Args[1:])
			if err != nil {
				return nil, "", err
			}
			return bs, "(some ())", nil
		}
		if x.w.dom {
			if b, s, ok, err := x.domStdlib(c, key); ok || err != nil {
				return b, s, err
			}
		}
		prims := map[string]struct {
			lean  string
			nargs int
		}{
			"strings.Index":     {"Go.stringsIndex", 2},
			"strings.HasPrefix": {"Go.hasPrefix", 2},
			"slices.Index":      {"Go.slicesIndex", 2},
			"slices.Contains":   {"Go.slicesContains", 2},
			"strconv.Atoi":      {"Go.atoi", 1},
			"strings.Join":      {"Go.stringsJoin", 2},
			"strings.TrimSpace": {"Go.trimSpace", 1},
		}
		if x.w.dom {
			prims["github.com/google/go-cmp/cmp.Equal"] = struct {
				lean  string
				nargs int
			}{"GoDom.cmpEqual", 2}
		}
		p, ok := prims[key]
		if !ok || len(c.Args) != p.nargs {
			return nil, "", x.errf(c, "call of %s", key)
		}
		bs, es, err := x.exprs(c.Args)
		if err != nil {
			return nil, "", err
		}
		return bs, fmt.Sprintf("(%s %s)", p.lean, strings.Join(es, " ")), nil
	}
	if x.w.dom && x.f.External == "" {
		isOpaque := false
		for _, o := range x.f.Opaque {
			if o == funcKey(fn) {
				isOpaque = true
			}
		}
		if !isOpaque {
			return x.callWhitelisted(c, fn)
		}
	}
	// whitelisted / opaque functions of the library
	var argEs []ast.Expr
	if sel, ok := c.Fun.(*ast.SelectorExpr); ok {
		if s, ok := info.Selections[sel]; ok && s.Kind() == types.MethodVal {
			argEs = append(argEs, sel.X)
		}
	}
	argEs = append(argEs, c.Args...)
	if d := x.lookupDone(fn); d != nil {
		if d.nparams != len(argEs) {
			return nil, "", x.errf(c, "call of %s: flattened receiver or opaque parameters cannot be passed", fn.Name())
		}
		bs, es, err := x.exprs(argEs)
		if err != nil {
			return nil, "", err
		}
		app := d.lean + " " + strings.Join(es, " ")
		if d.monadic {
			bs, t := x.bindTmp(bs, app)
			return bs, t, nil
		}
		return bs, "(" + app + ")", nil
	}
	for _, o := range x.f.Opaque {
		if o == funcKey(fn) {
			sig := fn.Type().(*types.Signature)
			pn, ok := x.opaque[o]
			if !ok {
				var ats []string
				if sig.Recv() != nil {
					t, err := x.w.leanType(sig.Recv().Type())
					if err != nil {
						return nil, "", x.errf(c, "%v", err)
					}
					ats = append(ats, t)
				}
				for i := 0; i < sig.Params().Len(); i++ {
					t, err := x.w.leanType(sig.Params().At(i).Type())
					if err != nil {
						return nil, "", x.errf(c, "%v", err)
					}
					ats = append(ats, t)
				}
				var rts []string
				for i := 0; i < sig.Results().Len(); i++ {
					t, err := x.w.leanType(sig.Results().At(i).Type())
					if err != nil {
						return nil, "", x.errf(c, "%v", err)
					}
					rts = append(rts, t)
				}
				pn = x.fresh(strings.ReplaceAll(o, ".", "_"))
				x.opaque[o] = pn
				x.opaquePs = append(x.opaquePs, xlParam{pn, strings.Join(append(ats, "Go.Res "+tupleType(rts)), " → ")})
			}
			x.touched[pn] = true
			bs, es, err := x.exprs(argEs)
			if err != nil {
				return nil, "", err
			}
			bs, t := x.bindTmp(bs, pn+" "+strings.Join(es, " "))
			return bs, t, nil
		}
	}
	return nil, "", x.errf(c, "call of %s (neither whitelisted nor a supported primitive)", funcKey(fn))
}

// regexpPattern: the literal of `var v = regexp.MustCompile("…")`
func (x *xl) regexpPattern(v *types.Var) (string, bool) {
	for _, f := range x.p.files {
		for _, d := range f.Decls {
			gd, ok := d.(*ast.GenDecl)
			if !ok || gd.Tok != token.VAR {
				continue
			}
			for _, sp := range gd.Specs {
				vs := sp.(*ast.ValueSpec)
				for i, n := range vs.Names {
					if x.p.info.Defs[n] != v || i >= len(vs.Values) {
						continue
					}
					call, ok := vs.Values[i].(*ast.CallExpr)
					if !ok || len(call.Args) != 1 {
						return "", false
					}
					fn := x.calleeFunc(call)
					if fn == nil || fn.Pkg() == nil || fn.Pkg().Path() != "regexp" || fn.Name() != "MustCompile" {
						return "", false
					}
					tv := x.p.info.Types[call.Args[0]]
					if tv.Value == nil || tv.Value.Kind() != constant.String {
						return "", false
					}
					return constant.StringVal(tv.Value), true
				}
			}
		}
	}
	return "", false
}
