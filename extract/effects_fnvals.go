package main

// effects extractor, part 2: function literals as table entries and the syntactic enumeration of the
// possible values of a function-typed expression (used by effA.call for dynamic calls).
//
// fnVals(e) answers "which functions can the value of e be?" — ok only when EVERY possibility is one of:
//   - a function literal (each literal of the analysed packages is an effFn `encl$N`);
//   - a declared function of the analysed packages (by name, possibly package-qualified);
//   - a conversion T(x) / parenthesised x of such a value;
//   - the result of a call of a declared function of the analysed packages (not through an interface) all of
//     whose return statements return such values (defaultListMerger() -> its literal;
//     ListsMergeAppend() -> ListsMergeFunc(..) -> that one's literal);
//   - a local variable (not a parameter, not captured, address never taken) every definition of which is such
//     a value, or the value variable of a `range` over an enumerable collection;
//   - an element X[i] of an enumerable collection;
//   - an IMMUTABLE package-level variable with such an initializer.
// elemFnVals(X) answers the same for the elements of a slice / array / map valued expression: a composite literal
// of enumerable values, a slice X[a:b] of one, append(X, f...) of them, a local variable only ever defined as one,
// or an IMMUTABLE package-level variable whose initializer is one.
// IMMUTABLE (effWorld.immutable): unexported, declared with an initializer, and no file of the analysed packages
// assigns it, op-assigns it, inc/decs it, appends to it, stores into an element / field of it, deletes from it,
// or takes its address (effects_pkgvars.go).  Writes through an alias (x := v; x[0] = f) are not visible to that
// scan: they appear in the effect table as a write through the variable's root, and the table theorem
// `resolvedVars_neverWritten` (YtkProps/C20.lean) demands that no function of the table has one.
// Anything else — parameters, struct fields, method values, interface calls, channels — is not enumerable here.

import (
	"fmt"
	"go/ast"
	"go/token"
	"go/types"
	"sort"
	"strings"
)

type fvCtx struct {
	info *types.Info
	ef   *effFn // nil: a package-level initializer
}

const fvMaxDepth = 12

// collectLits registers every function literal below a top-level declaration as an effFn.
func (w *effWorld) collectLits(d ast.Decl, info *types.Info, pkg *types.Package) {
	add := func(root ast.Node, base string) {
		n := 0
		ast.Inspect(root, func(x ast.Node) bool {
			fl, ok := x.(*ast.FuncLit)
			if !ok {
				return true
			}
			n++
			ef := &effFn{name: fmt.Sprintf("%s$%d", base, n), lit: fl, body: fl.Body, ftype: fl.Type, info: info, pkg: pkg}
			ef.slots = append(ef.slots, nil)
			if sig, ok := info.TypeOf(fl).(*types.Signature); ok {
				for i := 0; i < sig.Params().Len(); i++ {
					ef.slots = append(ef.slots, sig.Params().At(i))
				}
			}
			ef.sum = effSummary{retTop: eset{}, fresh: eset{}, stores: map[[2]eobj]bool{}}
			w.lits[fl] = ef
			w.order = append(w.order, ef)
			return true
		})
	}
	pk := strings.TrimPrefix(pkg.Path(), effModule)
	switch x := d.(type) {
	case *ast.FuncDecl:
		if x.Body != nil {
			if fn, ok := info.Defs[x.Name].(*types.Func); ok {
				add(x.Body, effFullName(fn))
			}
		}
	case *ast.GenDecl:
		for _, sp := range x.Specs {
			if vs, ok := sp.(*ast.ValueSpec); ok && len(vs.Names) > 0 {
				for _, v := range vs.Values {
					add(v, pk+"."+vs.Names[0].Name)
				}
			}
		}
	}
}

// paramVars: the parameters of ef and of every function literal nested in it (never enumerable).
func (w *effWorld) paramVars(ef *effFn) map[*types.Var]bool {
	if m, ok := w.params[ef]; ok {
		return m
	}
	m := map[*types.Var]bool{}
	for _, v := range ef.slots {
		if v != nil {
			m[v] = true
		}
	}
	fields := func(fl *ast.FieldList) {
		if fl == nil {
			return
		}
		for _, f := range fl.List {
			for _, nm := range f.Names {
				if v, ok := ef.info.Defs[nm].(*types.Var); ok {
					m[v] = true
				}
			}
		}
	}
	fields(ef.ftype.Params)
	fields(ef.ftype.Results)
	ast.Inspect(ef.body, func(n ast.Node) bool {
		if fl, ok := n.(*ast.FuncLit); ok {
			fields(fl.Type.Params)
			fields(fl.Type.Results)
		}
		return true
	})
	w.params[ef] = m
	return m
}

type fvDef struct {
	e    ast.Expr
	elem bool // the variable is an element of e (range value)
}

// localDefs: every definition of local variable v in the body of ctx.ef; ok=false when v is a parameter, a
// captured variable, has its address taken, or is defined in a way that is not a plain expression.
func (w *effWorld) localDefs(ctx fvCtx, v *types.Var) ([]fvDef, bool) {
	ef := ctx.ef
	if ef == nil || v.IsField() || w.paramVars(ef)[v] || v.Pos() < ef.body.Pos() || v.Pos() >= ef.body.End() {
		return nil, false
	}
	is := func(e ast.Expr) bool {
		id, ok := ast.Unparen(e).(*ast.Ident)
		return ok && (ctx.info.Defs[id] == v || ctx.info.Uses[id] == v)
	}
	var defs []fvDef
	ok := true
	ast.Inspect(ef.body, func(n ast.Node) bool {
		switch x := n.(type) {
		case *ast.AssignStmt:
			for i, l := range x.Lhs {
				if !is(l) {
					continue
				}
				if len(x.Lhs) == len(x.Rhs) && (x.Tok == token.ASSIGN || x.Tok == token.DEFINE) {
					defs = append(defs, fvDef{x.Rhs[i], false})
				} else {
					ok = false
				}
			}
		case *ast.ValueSpec:
			for i, nm := range x.Names {
				if ctx.info.Defs[nm] != v {
					continue
				}
				if len(x.Values) == len(x.Names) {
					defs = append(defs, fvDef{x.Values[i], false})
				} else if len(x.Values) != 0 {
					ok = false
				} // no value: nil, calling it panics — no function to enumerate
			}
		case *ast.RangeStmt:
			if x.Key != nil && is(x.Key) {
				ok = false
			}
			if x.Value != nil && is(x.Value) {
				defs = append(defs, fvDef{x.X, true})
			}
		case *ast.UnaryExpr:
			if x.Op == token.AND && is(x.X) {
				ok = false
			}
		case *ast.IncDecStmt:
			if is(x.X) {
				ok = false
			}
		}
		return true
	})
	return defs, ok
}

func fvUnion(a, b []*effFn) []*effFn {
	seen := map[*effFn]bool{}
	var out []*effFn
	for _, l := range [][]*effFn{a, b} {
		for _, f := range l {
			if !seen[f] {
				seen[f] = true
				out = append(out, f)
			}
		}
	}
	sort.Slice(out, func(i, j int) bool { return out[i].name < out[j].name })
	return out
}

// staticCallee: the declared function a call expression calls, when that is known statically (no interface
// dispatch, no function value).
func fvStaticCallee(info *types.Info, call *ast.CallExpr) *types.Func {
	switch f := ast.Unparen(call.Fun).(type) {
	case *ast.Ident:
		fn, _ := info.Uses[f].(*types.Func)
		return fn
	case *ast.SelectorExpr:
		if sel := info.Selections[f]; sel != nil {
			if sel.Kind() == types.MethodVal {
				if _, isIface := info.TypeOf(f.X).Underlying().(*types.Interface); !isIface {
					fn, _ := sel.Obj().(*types.Func)
					return fn
				}
			}
			return nil
		}
		fn, _ := info.Uses[f.Sel].(*types.Func)
		return fn
	}
	return nil
}

func (w *effWorld) pkgVarOf(info *types.Info, e ast.Expr) *types.Var {
	var id *ast.Ident
	switch x := ast.Unparen(e).(type) {
	case *ast.Ident:
		id = x
	case *ast.SelectorExpr:
		if info.Selections[x] == nil {
			id = x.Sel
		}
	}
	if id == nil {
		return nil
	}
	if v, ok := info.Uses[id].(*types.Var); ok && v.Pkg() != nil && v.Parent() == v.Pkg().Scope() {
		return v
	}
	return nil
}

// fnVals: see the file comment.  how = a short description of the resolution for the table.
func (w *effWorld) fnVals(ctx fvCtx, e ast.Expr, depth int) ([]*effFn, string, bool) {
	if depth > fvMaxDepth {
		return nil, "", false
	}
	info := ctx.info
	e = ast.Unparen(e)
	if v := w.pkgVarOf(info, e); v != nil {
		pv := w.immutable(v)
		if pv == nil {
			return nil, "", false
		}
		tg, _, ok := w.fnVals(fvCtx{pv.info, nil}, pv.init, depth+1)
		if !ok {
			return nil, "", false
		}
		pv.resolve(tg)
		return tg, "var " + pv.name, true
	}
	switch x := e.(type) {
	case *ast.FuncLit:
		if ef := w.lits[x]; ef != nil {
			return []*effFn{ef}, "literal", true
		}
	case *ast.Ident:
		switch o := info.Uses[x].(type) {
		case *types.Func:
			if ef := w.fns[o.Origin()]; ef != nil && o.Type().(*types.Signature).Recv() == nil {
				return []*effFn{ef}, "func", true
			}
		case *types.Var:
			defs, ok := w.localDefs(ctx, o)
			if !ok {
				return nil, "", false
			}
			var out []*effFn
			var hows []string
			for _, d := range defs {
				var tg []*effFn
				var how string
				if d.elem {
					tg, how, ok = w.elemFnVals(ctx, d.e, depth+1)
					how = "range " + how
				} else {
					tg, how, ok = w.fnVals(ctx, d.e, depth+1)
				}
				if !ok {
					return nil, "", false
				}
				out = fvUnion(out, tg)
				hows = append(hows, how)
			}
			return out, strings.Join(hows, " | "), true
		}
	case *ast.SelectorExpr:
		if info.Selections[x] == nil {
			if o, ok := info.Uses[x.Sel].(*types.Func); ok {
				if ef := w.fns[o.Origin()]; ef != nil {
					return []*effFn{ef}, "func", true
				}
			}
		}
	case *ast.IndexExpr:
		if tv, ok := info.Types[x.X]; ok && tv.Type != nil {
			if _, isSig := tv.Type.Underlying().(*types.Signature); !isSig {
				tg, how, ok := w.elemFnVals(ctx, x.X, depth+1)
				return tg, "element of " + how, ok
			}
		}
	case *ast.CallExpr:
		if tv, ok := info.Types[ast.Unparen(x.Fun)]; ok && tv.IsType() {
			if len(x.Args) == 1 {
				return w.fnVals(ctx, x.Args[0], depth+1)
			}
			return nil, "", false
		}
		if callee := fvStaticCallee(info, x); callee != nil {
			if ef := w.fns[callee.Origin()]; ef != nil {
				tg, ok := w.retFnVals(ef, depth+1)
				return tg, "result of " + ef.name, ok
			}
		}
	}
	return nil, "", false
}

// retFnVals: the function values a declared function with exactly one result can return.
func (w *effWorld) retFnVals(ef *effFn, depth int) ([]*effFn, bool) {
	sig := ef.fn.Type().(*types.Signature)
	if sig.Results().Len() != 1 {
		return nil, false
	}
	var out []*effFn
	ok := true
	ast.Inspect(ef.body, func(n ast.Node) bool {
		switch x := n.(type) {
		case *ast.FuncLit:
			return false // its return statements are its own
		case *ast.ReturnStmt:
			if len(x.Results) != 1 {
				ok = false
				return false
			}
			tg, _, k := w.fnVals(fvCtx{ef.info, ef}, x.Results[0], depth+1)
			if !k {
				ok = false
				return false
			}
			out = fvUnion(out, tg)
		}
		return ok
	})
	return out, ok
}

// elemFnVals: the function values the elements of a slice / array / map valued expression can be.
func (w *effWorld) elemFnVals(ctx fvCtx, e ast.Expr, depth int) ([]*effFn, string, bool) {
	if depth > fvMaxDepth {
		return nil, "", false
	}
	info := ctx.info
	e = ast.Unparen(e)
	if v := w.pkgVarOf(info, e); v != nil {
		pv := w.immutable(v)
		if pv == nil {
			return nil, "", false
		}
		tg, _, ok := w.elemFnVals(fvCtx{pv.info, nil}, pv.init, depth+1)
		if !ok {
			return nil, "", false
		}
		pv.resolve(tg)
		return tg, "var " + pv.name, true
	}
	switch x := e.(type) {
	case *ast.CompositeLit:
		switch info.TypeOf(x).Underlying().(type) {
		case *types.Slice, *types.Array, *types.Map:
		default:
			return nil, "", false
		}
		var out []*effFn
		for _, el := range x.Elts {
			if kv, ok := el.(*ast.KeyValueExpr); ok {
				el = kv.Value
			}
			tg, _, ok := w.fnVals(ctx, el, depth+1)
			if !ok {
				return nil, "", false
			}
			out = fvUnion(out, tg)
		}
		return out, "composite literal", true
	case *ast.SliceExpr:
		return w.elemFnVals(ctx, x.X, depth+1)
	case *ast.Ident:
		if o, ok := info.Uses[x].(*types.Var); ok {
			defs, ok := w.localDefs(ctx, o)
			if !ok {
				return nil, "", false
			}
			var out []*effFn
			for _, d := range defs {
				if d.elem {
					return nil, "", false
				}
				tg, _, ok := w.elemFnVals(ctx, d.e, depth+1)
				if !ok {
					return nil, "", false
				}
				out = fvUnion(out, tg)
			}
			return out, "local " + o.Name(), true
		}
	case *ast.CallExpr:
		if id, ok := ast.Unparen(x.Fun).(*ast.Ident); ok {
			if b, ok := info.Uses[id].(*types.Builtin); ok && b.Name() == "append" && len(x.Args) > 0 {
				out, _, ok := w.elemFnVals(ctx, x.Args[0], depth+1)
				if !ok {
					return nil, "", false
				}
				for i, arg := range x.Args[1:] {
					var tg []*effFn
					if x.Ellipsis.IsValid() && i == len(x.Args)-2 {
						tg, _, ok = w.elemFnVals(ctx, arg, depth+1)
					} else {
						tg, _, ok = w.fnVals(ctx, arg, depth+1)
					}
					if !ok {
						return nil, "", false
					}
					out = fvUnion(out, tg)
				}
				return out, "append", true
			}
		}
	}
	return nil, "", false
}

// ---------------------------------------------------------------- closed world by type

// collectMethodValues records the type of every method value / method expression / instantiated generic function
// that is used as a value (not immediately called): such a function value has no table entry of its own, so a
// type it has cannot be resolved by closedWorld.
func (w *effWorld) collectMethodValues(files []*ast.File, info *types.Info) {
	for _, f := range files {
		called := map[ast.Expr]bool{}
		ast.Inspect(f, func(n ast.Node) bool {
			if c, ok := n.(*ast.CallExpr); ok {
				fun := ast.Unparen(c.Fun)
				called[fun] = true
				switch ix := fun.(type) { // explicit instantiation f[T](…)
				case *ast.IndexExpr:
					fun = ast.Unparen(ix.X)
				case *ast.IndexListExpr:
					fun = ast.Unparen(ix.X)
				}
				called[fun] = true
				if se, ok := fun.(*ast.SelectorExpr); ok {
					called[se.Sel] = true
				}
			}
			return true
		})
		for id, inst := range info.Instances {
			if id.Pos() >= f.Pos() && id.Pos() < f.End() && !called[id] {
				if _, isSig := inst.Type.(*types.Signature); isSig {
					w.mvalSigs = append(w.mvalSigs, inst.Type)
				}
			}
		}
		ast.Inspect(f, func(n ast.Node) bool {
			se, ok := n.(*ast.SelectorExpr)
			if !ok || called[se] {
				return true
			}
			if sel := info.Selections[se]; sel != nil && (sel.Kind() == types.MethodVal || sel.Kind() == types.MethodExpr) {
				if t := info.TypeOf(se); t != nil {
					w.mvalSigs = append(w.mvalSigs, t)
				}
			}
			return true
		})
	}
}

// mentionsUnexported: does the type mention a named type of the analysed packages that other packages cannot name?
func (w *effWorld) mentionsUnexported(t types.Type, seen map[types.Type]bool) bool {
	if t == nil || seen[t] {
		return false
	}
	seen[t] = true
	switch x := t.(type) {
	case *types.Named:
		if o := x.Obj(); o != nil && o.Pkg() != nil && !o.Exported() {
			if _, mine := w.pkgs[o.Pkg().Path()]; mine {
				return true
			}
		}
		for i := 0; i < x.TypeArgs().Len(); i++ {
			if w.mentionsUnexported(x.TypeArgs().At(i), seen) {
				return true
			}
		}
	case *types.Pointer:
		return w.mentionsUnexported(x.Elem(), seen)
	case *types.Slice:
		return w.mentionsUnexported(x.Elem(), seen)
	case *types.Array:
		return w.mentionsUnexported(x.Elem(), seen)
	case *types.Chan:
		return w.mentionsUnexported(x.Elem(), seen)
	case *types.Map:
		return w.mentionsUnexported(x.Key(), seen) || w.mentionsUnexported(x.Elem(), seen)
	case *types.Signature:
		for _, tu := range []*types.Tuple{x.Params(), x.Results()} {
			for i := 0; i < tu.Len(); i++ {
				if w.mentionsUnexported(tu.At(i).Type(), seen) {
					return true
				}
			}
		}
	}
	return false
}

// closedWorld: a function value of a type whose signature mentions an unexported type of the analysed packages
// in a parameter or result cannot be written as a function literal or declaration by any other package (it could
// not name the type), so — reflection and instantiation of someone else's generic code aside — it is one of the
// functions of that signature the analysed packages define.
func (w *effWorld) closedWorld(t types.Type) ([]*effFn, string, bool) {
	if t == nil {
		return nil, "", false
	}
	sig, ok := t.Underlying().(*types.Signature)
	if !ok || !w.mentionsUnexported(sig, map[types.Type]bool{}) {
		return nil, "", false
	}
	for _, m := range w.mvalSigs {
		if types.Identical(m.Underlying(), sig) {
			return nil, "", false
		}
	}
	var out []*effFn
	for _, ef := range w.order {
		var s types.Type
		if ef.lit != nil {
			s = ef.info.TypeOf(ef.lit)
		} else if fs := ef.fn.Type().(*types.Signature); fs.Recv() == nil && fs.TypeParams().Len() == 0 {
			s = fs
		}
		if s != nil && types.Identical(s.Underlying(), sig) {
			out = append(out, ef)
		}
	}
	out = fvUnion(out, nil)
	return out, "any function of type " + types.TypeString(t, func(p *types.Package) string {
		return strings.TrimPrefix(p.Path(), effModule)
	}) + " (its signature mentions an unexported type: only the analysed packages can define one)", true
}
