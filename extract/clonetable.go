package main

// clone-table extractor (C15): for every type of package pipeline that has a CloneWith method,
// its fields (name, Go type as written, kind, `clone:"…"` tag) and what the CloneWith body does
// with each field, classified syntactically.  Unknown shapes classify as `none` (conservative:
// `clone_complete` then fails).  Output: Generated/CloneTable.lean (data only).

import (
	"fmt"
	"go/ast"
	"go/parser"
	"go/printer"
	"go/token"
	"io/fs"
	"path/filepath"
	"reflect"
	"sort"
	"strings"
)

func init() { generators["CloneTable"] = genCloneTable }

type ctField struct {
	Name, GoType, Kind, Tag, Act string
	Embedded                     bool
}

type ctType struct {
	Name    string
	PtrRecv bool
	Fields  []ctField
}

func exprStr(fset *token.FileSet, e ast.Expr) string {
	var sb strings.Builder
	_ = printer.Fprint(&sb, fset, e)
	return strings.Join(strings.Fields(sb.String()), "")
}

func genCloneTable(repo string) (string, error) {
	fset := token.NewFileSet()
	pkgs, err := parser.ParseDir(fset, filepath.Join(repo, "pipeline"), func(fi fs.FileInfo) bool {
		return !strings.HasSuffix(fi.Name(), "_test.go")
	}, parser.ParseComments)
	if err != nil {
		return "", err
	}
	pkg := pkgs["pipeline"]
	if pkg == nil {
		return "", fmt.Errorf("package pipeline not found")
	}
	typeDecls := map[string]ast.Expr{}     // named type -> type expression
	cloneFns := map[string]*ast.FuncDecl{} // receiver type name -> CloneWith
	ptrRecv := map[string]bool{}
	fileNames := make([]string, 0, len(pkg.Files))
	for n := range pkg.Files {
		fileNames = append(fileNames, n)
	}
	sort.Strings(fileNames)
	for _, fn := range fileNames {
		for _, d := range pkg.Files[fn].Decls {
			switch x := d.(type) {
			case *ast.GenDecl:
				for _, s := range x.Specs {
					if ts, ok := s.(*ast.TypeSpec); ok {
						typeDecls[ts.Name.Name] = ts.Type
					}
				}
			case *ast.FuncDecl:
				if x.Name.Name != "CloneWith" || x.Recv == nil || len(x.Recv.List) != 1 {
					continue
				}
				rt := x.Recv.List[0].Type
				isPtr := false
				if st, ok := rt.(*ast.StarExpr); ok {
					rt, isPtr = st.X, true
				}
				if id, ok := rt.(*ast.Ident); ok {
					cloneFns[id.Name] = x
					ptrRecv[id.Name] = isPtr
				}
			}
		}
	}
	// kind of a field type
	var kindOf func(e ast.Expr) string
	kindOf = func(e ast.Expr) string {
		s := exprStr(fset, e)
		switch s {
		case "string":
			return "str"
		case "*string":
			return "strPtr"
		case "bool":
			return "bool"
		case "*bool":
			return "boolPtr"
		case "int":
			return "int"
		case "*[]string":
			return "strs"
		case "*[]int":
			return "ints"
		case "map[string]interface{}", "map[string]any":
			return "map"
		case "*AnyVal":
			return "anyVal"
		}
		ptr := false
		if st, ok := e.(*ast.StarExpr); ok {
			e, ptr = st.X, true
		}
		if id, ok := e.(*ast.Ident); ok {
			if under, ok := typeDecls[id.Name]; ok {
				if _, has := cloneFns[id.Name]; has {
					if _, isMap := under.(*ast.MapType); isMap {
						return "recordMap"
					}
					if ptr {
						return "recordPtr"
					}
					return "record"
				}
				if uid, ok := under.(*ast.Ident); ok && uid.Name == "string" {
					if ptr {
						return "strPtr"
					}
					return "str"
				}
			}
		}
		return "other"
	}
	names := make([]string, 0, len(cloneFns))
	for n := range cloneFns {
		names = append(names, n)
	}
	sort.Strings(names)
	var out []ctType
	for _, tn := range names {
		fd := cloneFns[tn]
		t := ctType{Name: tn, PtrRecv: ptrRecv[tn]}
		recv := ""
		if len(fd.Recv.List[0].Names) == 1 {
			recv = fd.Recv.List[0].Names[0].Name
		}
		switch under := typeDecls[tn].(type) {
		case *ast.StructType:
			for _, f := range under.Fields.List {
				tag := ""
				if f.Tag != nil {
					raw := strings.Trim(f.Tag.Value, "`")
					tag = reflect.StructTag(raw).Get("clone")
				}
				if len(f.Names) == 0 { // embedded
					n := exprStr(fset, f.Type)
					n = strings.TrimPrefix(n, "*")
					if i := strings.LastIndex(n, "."); i >= 0 {
						n = n[i+1:]
					}
					t.Fields = append(t.Fields, ctField{Name: n, GoType: exprStr(fset, f.Type), Kind: kindOf(f.Type), Tag: tag, Embedded: true})
				}
				for _, n := range f.Names {
					t.Fields = append(t.Fields, ctField{Name: n.Name, GoType: exprStr(fset, f.Type), Kind: kindOf(f.Type), Tag: tag})
				}
			}
			acts := classifyStructClone(fset, fd, recv, tn)
			for i := range t.Fields {
				a := acts[t.Fields[i].Name]
				if acts["*"] == "reflectAll" && t.Fields[i].Kind == "recordPtr" {
					a = "reflectAll" // the loop clones every non-nil field that is an Action
				}
				if a == "" {
					a = "none"
				}
				t.Fields[i].Act = a
			}
		case *ast.MapType:
			act := "none"
			if recognisesMapAll(fset, fd, recv) {
				act = "mapAll"
			}
			t.Fields = []ctField{{Name: "*", GoType: exprStr(fset, under.Value), Kind: kindOf(under.Value), Act: act}}
		default:
			return "", fmt.Errorf("type %s with CloneWith is neither struct nor map", tn)
		}
		out = append(out, t)
	}
	if len(out) == 0 {
		return "", fmt.Errorf("no CloneWith methods found")
	}
	var sb strings.Builder
	sb.WriteString("/- GENERATED by /verif/extract (clone-table) from /repo/pipeline — do not edit.\n")
	sb.WriteString("   For every type with a CloneWith method: fields, kinds, clone tags, and what CloneWith does with each field. -/\n")
	sb.WriteString("import YtkModel.CloneTypes\n\nnamespace Ytk.Generated\nopen Ytk.CloneT\n\n")
	sb.WriteString("def cloneTable : List CloneType := [\n")
	for i, t := range out {
		fmt.Fprintf(&sb, "  { name := %s, ptrRecv := %v, fields := [\n", leanStr(t.Name), t.PtrRecv)
		for j, f := range t.Fields {
			ref := ""
			if strings.HasPrefix(f.Kind, "record") {
				ref = strings.TrimPrefix(f.GoType, "*")
			}
			fmt.Fprintf(&sb, "      { name := %s, goType := %s, kind := .%s, ref := %s, tag := %s, act := .%s, embedded := %v }",
				leanStr(f.Name), leanStr(f.GoType), f.Kind, leanStr(ref), leanStr(f.Tag), f.Act, f.Embedded)
			if j < len(t.Fields)-1 {
				sb.WriteString(",")
			}
			sb.WriteString("\n")
		}
		sb.WriteString("    ] }")
		if i < len(out)-1 {
			sb.WriteString(",")
		}
		sb.WriteString("\n")
	}
	sb.WriteString("]\n\nend Ytk.Generated\n")
	return sb.String(), nil
}

// isRecvField reports whether e is `recv.F` and returns F.
func isRecvField(e ast.Expr, recv string) (string, bool) {
	if p, ok := e.(*ast.ParenExpr); ok {
		e = p.X
	}
	se, ok := e.(*ast.SelectorExpr)
	if !ok {
		return "", false
	}
	id, ok := se.X.(*ast.Ident)
	if !ok || recv == "" || id.Name != recv {
		return "", false
	}
	return se.Sel.Name, true
}

func callName(c *ast.CallExpr) string {
	switch f := c.Fun.(type) {
	case *ast.Ident:
		return f.Name
	case *ast.SelectorExpr:
		return f.Sel.Name
	}
	return ""
}

// isCtxArg: the expression mentions only the context parameter (ctx, ctx.TemplateEngine(), ctx.Snapshot(), ss).
// It is not inspected further: which data the template engine renders against is C13/C14's concern.

// classifyExpr classifies the expression assigned to field F of the clone.
func classifyExpr(e ast.Expr, recv, field string, guarded bool) string {
	is := func(x ast.Expr) bool { f, ok := isRecvField(x, recv); return ok && f == field }
	if is(e) {
		return "copy"
	}
	// strip a type assertion: X.(T)
	if ta, ok := e.(*ast.TypeAssertExpr); ok {
		e = ta.X
	}
	call, ok := e.(*ast.CallExpr)
	if !ok {
		return "none"
	}
	name := callName(call)
	switch {
	case name == "RenderLenient" && len(call.Args) == 2:
		a := call.Args[0]
		if is(a) {
			return "render"
		}
		// string(recv.F) conversion
		if c2, ok := a.(*ast.CallExpr); ok && len(c2.Args) == 1 {
			if id, ok := c2.Fun.(*ast.Ident); ok && id.Name == "string" && is(c2.Args[0]) {
				return "render"
			}
		}
		return "none"
	case (name == "safeRenderStrPointer" || name == "safeRenderStrSlice") && len(call.Args) == 3 && is(call.Args[0]):
		return "render"
	case name == "safeCloneValOrRef" && len(call.Args) == 2 && is(call.Args[0]):
		return "nested"
	case name == "safeCopyIntSlice" && len(call.Args) == 1 && is(call.Args[0]):
		return "copySlice"
	case name == "CloneWith" && len(call.Args) == 1:
		// recv.F.CloneWith(ctx)
		if se, ok := call.Fun.(*ast.SelectorExpr); ok && is(se.X) {
			return "nested"
		}
		return "none"
	case name == "ptr" && len(call.Args) == 1 && guarded:
		// ptr(recv.F.CloneWith(ctx).(T)) inside `if recv.F != nil`
		if classifyExpr(call.Args[0], recv, field, false) == "nested" {
			return "nested"
		}
		return "none"
	case len(call.Args) == 1:
		// conversion T(render(...)) e.g. OutputFormat(ctx.TemplateEngine().RenderLenient(string(e.Format), ss))
		if id, ok := call.Fun.(*ast.Ident); ok && id.Name != "ptr" && strings.ToUpper(id.Name[:1]) == id.Name[:1] {
			if classifyExpr(call.Args[0], recv, field, false) == "render" {
				return "render"
			}
		}
	}
	return "none"
}

// classifyStructClone handles the two shapes used in the repository:
//
//	return &T{F: expr, ...}            (or T{...} for value receivers)
//	cp := new(T) / &T{} ; cp.F = expr ; if recv.F != nil { cp.F = ptr(...) } ; return cp
//
// and OpSpec's reflection loop, recognised as a whole.
func classifyStructClone(fset *token.FileSet, fd *ast.FuncDecl, recv, tn string) map[string]string {
	acts := map[string]string{}
	if fd.Body == nil {
		return acts
	}
	if recognisesReflectAll(fset, fd, recv) {
		acts["*"] = "reflectAll" // every (pointer-to-operation) field is handled by the loop
		return acts
	}
	cloneVar := ""
	set := func(field string, a string) {
		// a field assigned twice with different classifications is not understood
		if old, ok := acts[field]; ok && old != a {
			acts[field] = "none"
			return
		}
		acts[field] = a
	}
	fromLit := func(cl *ast.CompositeLit) bool {
		if id, ok := cl.Type.(*ast.Ident); !ok || id.Name != tn {
			return false
		}
		for _, el := range cl.Elts {
			kv, ok := el.(*ast.KeyValueExpr)
			if !ok {
				return false
			}
			k, ok := kv.Key.(*ast.Ident)
			if !ok {
				return false
			}
			set(k.Name, classifyExpr(kv.Value, recv, k.Name, false))
		}
		return true
	}
	for _, st := range fd.Body.List {
		switch s := st.(type) {
		case *ast.AssignStmt:
			if len(s.Lhs) != 1 || len(s.Rhs) != 1 {
				return map[string]string{}
			}
			if id, ok := s.Lhs[0].(*ast.Ident); ok && s.Tok == token.DEFINE {
				// cp := new(T) | &T{...}   or   ss := ctx.Snapshot()
				switch r := s.Rhs[0].(type) {
				case *ast.CallExpr:
					if fid, ok := r.Fun.(*ast.Ident); ok && fid.Name == "new" && len(r.Args) == 1 {
						if tid, ok := r.Args[0].(*ast.Ident); ok && tid.Name == tn {
							cloneVar = id.Name
						}
					}
				case *ast.UnaryExpr:
					if cl, ok := r.X.(*ast.CompositeLit); ok && r.Op == token.AND {
						if fromLit(cl) {
							cloneVar = id.Name
						}
					}
				}
				continue
			}
			if f, ok := isRecvField(s.Lhs[0], cloneVar); ok && s.Tok == token.ASSIGN {
				set(f, classifyExpr(s.Rhs[0], recv, f, false))
				continue
			}
			return map[string]string{}
		case *ast.IfStmt:
			// if recv.F != nil { cp.F = ptr(recv.F.CloneWith(ctx).(T)) }
			be, ok := s.Cond.(*ast.BinaryExpr)
			if !ok || be.Op != token.NEQ || s.Init != nil || s.Else != nil || len(s.Body.List) != 1 {
				return map[string]string{}
			}
			gf, ok1 := isRecvField(be.X, recv)
			nilId, ok2 := be.Y.(*ast.Ident)
			as, ok3 := s.Body.List[0].(*ast.AssignStmt)
			if !ok1 || !ok2 || nilId.Name != "nil" || !ok3 || len(as.Lhs) != 1 || len(as.Rhs) != 1 {
				return map[string]string{}
			}
			f, ok := isRecvField(as.Lhs[0], cloneVar)
			if !ok || f != gf {
				return map[string]string{}
			}
			set(f, classifyExpr(as.Rhs[0], recv, f, true))
		case *ast.ReturnStmt:
			if len(s.Results) != 1 {
				return map[string]string{}
			}
			r := s.Results[0]
			if u, ok := r.(*ast.UnaryExpr); ok && u.Op == token.AND {
				r = u.X
			}
			switch x := r.(type) {
			case *ast.CompositeLit:
				if !fromLit(x) {
					return map[string]string{}
				}
			case *ast.Ident:
				if x.Name != cloneVar || cloneVar == "" {
					return map[string]string{}
				}
			default:
				return map[string]string{}
			}
		default:
			return map[string]string{}
		}
	}
	return acts
}

// recognisesReflectAll: OpSpec.CloneWith — a loop over reflect.VisibleFields(TypeOf(recv)) that, for each
// non-nil field, stores field.Interface().(Action).CloneWith(ctx) into the same-named field of the result.
func recognisesReflectAll(fset *token.FileSet, fd *ast.FuncDecl, recv string) bool {
	src := exprStrNode(fset, fd.Body)
	need := []string{
		"reflect.VisibleFields(",
		"reflect.TypeOf(" + recv + ")",
		"reflect.ValueOf(" + recv + ")",
		".FieldByIndex(field.Index)",
		".Interface().(Action).CloneWith(ctx)",
		".FieldByName(field.Name)",
		".Set(reflect.ValueOf(cloned))",
	}
	for _, n := range need {
		if !strings.Contains(src, n) {
			return false
		}
	}
	// exactly one range loop over the fields, no `continue`/`break`
	loops, jumps := 0, 0
	ast.Inspect(fd.Body, func(n ast.Node) bool {
		switch x := n.(type) {
		case *ast.RangeStmt:
			loops++
		case *ast.BranchStmt:
			_ = x
			jumps++
		}
		return true
	})
	return loops == 1 && jumps == 0
}

func exprStrNode(fset *token.FileSet, n ast.Node) string {
	var sb strings.Builder
	_ = printer.Fprint(&sb, fset, n)
	return strings.Join(strings.Fields(sb.String()), "")
}

// recognisesMapAll: ChildActions.CloneWith —
//
//	r := make(T); for k, v := range recv { r[k] = v.CloneWith(ctx).(ActionSpec) }; return r
func recognisesMapAll(fset *token.FileSet, fd *ast.FuncDecl, recv string) bool {
	if fd.Body == nil || len(fd.Body.List) != 3 {
		return false
	}
	as, ok := fd.Body.List[0].(*ast.AssignStmt)
	if !ok || len(as.Lhs) != 1 || as.Tok != token.DEFINE {
		return false
	}
	rv, ok := as.Lhs[0].(*ast.Ident)
	if !ok {
		return false
	}
	rs, ok := fd.Body.List[1].(*ast.RangeStmt)
	if !ok || rs.Key == nil || rs.Value == nil || len(rs.Body.List) != 1 {
		return false
	}
	if id, ok := rs.X.(*ast.Ident); !ok || id.Name != recv {
		return false
	}
	k, v := exprStr(fset, rs.Key), exprStr(fset, rs.Value)
	body := exprStrNode(fset, rs.Body.List[0])
	if body != fmt.Sprintf("%s[%s]=%s.CloneWith(ctx).(ActionSpec)", rv.Name, k, v) {
		return false
	}
	ret, ok := fd.Body.List[2].(*ast.ReturnStmt)
	if !ok || len(ret.Results) != 1 {
		return false
	}
	id, ok := ret.Results[0].(*ast.Ident)
	return ok && id.Name == rv.Name
}
