package main

// Decision-table extractor (C01, C04, C09, C13, C16, C17): finite decision tables that the code
// spells out as switch statements, map literals and if / else-if chains, regenerated as Lean data
// (lean/YtkModel/Generated/Tables.lean, types in lean/YtkModel/TableTypes.lean).
//
//	1. patch/patch.go        Do: guards before the switch, op constant -> handler, the leading
//	                         `if obj.X == nil { return ErrY }` guards of every handler, Err* variables
//	2. k8s/manifest.go       ManifestFromBytes: kind -> (binary key, text key); dataHandler: which
//	                         section goes through base64
//	3. common/common.go      DefaultFile{Decoder,Encoder}Provider: suffix -> codec function
//	4. pipeline/*.go         ParseFileMode.toValue, parseFile default mode, ExportOp.Do format switch,
//	                         setHandlerFnMap + default strategy, TemplateOp.Do parseAs switch + default
//	5. dom/codec.go          reflect.Kind switches of decodeContainerFn / decodeListFn
//	   dom/merge.go          kind dispatch of mergeContainers / mergeListsMeld (ordered)
//
// Every sub-extractor accepts exactly the syntactic shape it understands and returns an error for
// anything else (a switch that became a map, a case body it cannot classify, a missing default):
// the run then reports a broken obligation — a partial table is never written.
// Tables keyed by pairwise distinct constants are sorted by key (case order has no meaning in Go);
// ordered chains keep source order.  Parameters are named by position (arg0, arg1), so renaming a
// parameter or a local variable does not change the output.  Source positions go into comments only.

import (
	"fmt"
	"go/ast"
	"go/parser"
	"go/token"
	"go/types"
	"os"
	"path/filepath"
	"sort"
	"strconv"
	"strings"
)

func init() { generators["Tables"] = genTables }

type tRow struct{ cnst, key, target string }
type tGuard struct{ subject, result string }

// tPkg is one parsed package directory (non-test files).
type tPkg struct {
	repo  string
	name  string
	fset  *token.FileSet
	files map[string]*ast.File // base name -> file
}

func loadTPkg(repo, name string) (*tPkg, error) {
	p := &tPkg{repo: repo, name: name, fset: token.NewFileSet(), files: map[string]*ast.File{}}
	dir := filepath.Join(repo, name)
	ents, err := os.ReadDir(dir)
	if err != nil {
		return nil, fmt.Errorf("package %s: %v", name, err)
	}
	for _, e := range ents {
		if !strings.HasSuffix(e.Name(), ".go") || strings.HasSuffix(e.Name(), "_test.go") {
			continue
		}
		f, err := parser.ParseFile(p.fset, filepath.Join(dir, e.Name()), nil, parser.SkipObjectResolution)
		if err != nil {
			return nil, err
		}
		p.files[e.Name()] = f
	}
	return p, nil
}

func (p *tPkg) pos(n ast.Node) string {
	ps := p.fset.Position(n.Pos())
	rel, err := filepath.Rel(p.repo, ps.Filename)
	if err != nil {
		rel = ps.Filename
	}
	return fmt.Sprintf("%s:%d", rel, ps.Line)
}

// fn finds a function (recv == "") or method (recv = receiver type name without *) in file.
func (p *tPkg) fn(file, recv, name string) (*ast.FuncDecl, error) {
	f, ok := p.files[file]
	if !ok {
		return nil, fmt.Errorf("%s/%s: file not found", p.name, file)
	}
	for _, d := range f.Decls {
		fd, ok := d.(*ast.FuncDecl)
		if !ok || fd.Name.Name != name || fd.Body == nil {
			continue
		}
		r := ""
		if fd.Recv != nil && len(fd.Recv.List) == 1 {
			t := fd.Recv.List[0].Type
			if s, ok := t.(*ast.StarExpr); ok {
				t = s.X
			}
			if id, ok := t.(*ast.Ident); ok {
				r = id.Name
			}
		}
		if r == recv {
			return fd, nil
		}
	}
	return nil, fmt.Errorf("%s/%s: func %s%s not found", p.name, file, map[bool]string{true: recv + ".", false: ""}[recv != ""], name)
}

// strConst resolves a package-level string constant (`X = "v"`, `X T = "v"`, `X = T("v")`) anywhere in the package.
func (p *tPkg) strConst(name string) (string, bool) {
	for _, f := range p.files {
		for _, d := range f.Decls {
			gd, ok := d.(*ast.GenDecl)
			if !ok || gd.Tok != token.CONST {
				continue
			}
			for _, sp := range gd.Specs {
				vs := sp.(*ast.ValueSpec)
				for i, n := range vs.Names {
					if n.Name == name && i < len(vs.Values) {
						return stringValue(vs.Values[i])
					}
				}
			}
		}
	}
	return "", false
}

// keyOf: a case expression that is a string literal or a string constant of the package.
func (p *tPkg) keyOf(e ast.Expr) (string, string, error) {
	switch x := e.(type) {
	case *ast.BasicLit:
		if s, ok := stringValue(x); ok {
			return x.Value, s, nil
		}
	case *ast.Ident:
		if s, ok := p.strConst(x.Name); ok {
			return x.Name, s, nil
		}
	}
	return "", "", fmt.Errorf("%s: case expression %s is neither a string literal nor a string constant of the package", p.pos(e), types.ExprString(e))
}

func paramNames(fd *ast.FuncDecl) []string {
	var out []string
	for _, f := range fd.Type.Params.List {
		for _, n := range f.Names {
			out = append(out, n.Name)
		}
	}
	return out
}

func recvName(fd *ast.FuncDecl) string {
	if fd.Recv != nil && len(fd.Recv.List) == 1 && len(fd.Recv.List[0].Names) == 1 {
		return fd.Recv.List[0].Names[0].Name
	}
	return ""
}

// subjectOf renders `obj`, `obj.Path`, `target` with parameters named by position.
func subjectOf(e ast.Expr, params []string) (string, bool) {
	switch x := e.(type) {
	case *ast.Ident:
		for i, p := range params {
			if p == x.Name {
				return "arg" + strconv.Itoa(i), true
			}
		}
	case *ast.SelectorExpr:
		if b, ok := subjectOf(x.X, params); ok {
			return b + "." + x.Sel.Name, true
		}
	}
	return "", false
}

// nilGuard recognises `if <subject> == nil { return <Ident> }` (no init, no else).
func nilGuard(s ast.Stmt, params []string) (tGuard, bool) {
	is, ok := s.(*ast.IfStmt)
	if !ok || is.Init != nil || is.Else != nil || len(is.Body.List) != 1 {
		return tGuard{}, false
	}
	be, ok := is.Cond.(*ast.BinaryExpr)
	if !ok || be.Op != token.EQL {
		return tGuard{}, false
	}
	if id, ok := be.Y.(*ast.Ident); !ok || id.Name != "nil" {
		return tGuard{}, false
	}
	subj, ok := subjectOf(be.X, params)
	if !ok {
		return tGuard{}, false
	}
	rs, ok := is.Body.List[0].(*ast.ReturnStmt)
	if !ok || len(rs.Results) != 1 {
		return tGuard{}, false
	}
	id, ok := rs.Results[0].(*ast.Ident)
	if !ok {
		return tGuard{}, false
	}
	return tGuard{subj, id.Name}, true
}

// leadingGuards: the maximal prefix of nil guards.  The statement the prefix stops at must not look like a
// guard of another shape (an init-less `if` whose condition mentions nil and whose body only returns): such a
// guard would silently drop out of the table, so it is an error instead.
func leadingGuards(body []ast.Stmt, params []string) ([]tGuard, []ast.Stmt, error) {
	var gs []tGuard
	i := 0
	for ; i < len(body); i++ {
		g, ok := nilGuard(body[i], params)
		if !ok {
			break
		}
		gs = append(gs, g)
	}
	if i < len(body) {
		if is, ok := body[i].(*ast.IfStmt); ok && is.Init == nil && len(is.Body.List) == 1 {
			_, returns := is.Body.List[0].(*ast.ReturnStmt)
			mentionsNil := false
			ast.Inspect(is.Cond, func(n ast.Node) bool {
				if id, ok := n.(*ast.Ident); ok && id.Name == "nil" {
					mentionsNil = true
				}
				return true
			})
			if returns && mentionsNil {
				return nil, nil, fmt.Errorf("guard `if %s {…}` is not of the shape `if <param>.<Field> == nil { return ErrX }`", types.ExprString(is.Cond))
			}
		}
	}
	return gs, body[i:], nil
}

// isErrorfReturn: `return fmt.Errorf(…)` / `return nil, fmt.Errorf(…)`.
func isErrorfReturn(s ast.Stmt) bool {
	rs, ok := s.(*ast.ReturnStmt)
	if !ok || len(rs.Results) == 0 {
		return false
	}
	c, ok := rs.Results[len(rs.Results)-1].(*ast.CallExpr)
	if !ok || !isSel(c.Fun, "fmt", "Errorf") {
		return false
	}
	for _, r := range rs.Results[:len(rs.Results)-1] {
		if id, ok := r.(*ast.Ident); !ok || id.Name != "nil" {
			return false
		}
	}
	return true
}

// switchTable walks the clauses of a tag switch.  Every case expression yields one row with the
// body's class; the default clause (if any) is classified with the same function.
func (p *tPkg) switchTable(sw *ast.SwitchStmt, key func(ast.Expr) (string, string, error),
	classify func(body []ast.Stmt) (string, error)) (rows []tRow, dflt string, hasDefault bool, err error) {
	if sw.Init != nil || sw.Tag == nil {
		return nil, "", false, fmt.Errorf("%s: not a plain tag switch", p.pos(sw))
	}
	seen := map[string]bool{}
	for _, cl := range sw.Body.List {
		cc := cl.(*ast.CaseClause)
		for _, s := range cc.Body {
			if b, ok := s.(*ast.BranchStmt); ok && b.Tok == token.FALLTHROUGH {
				return nil, "", false, fmt.Errorf("%s: fallthrough", p.pos(s))
			}
		}
		cls, err := classify(cc.Body)
		if err != nil {
			return nil, "", false, fmt.Errorf("%s: %v", p.pos(cc), err)
		}
		if cc.List == nil {
			dflt, hasDefault = cls, true
			continue
		}
		for _, e := range cc.List {
			c, k, err := key(e)
			if err != nil {
				return nil, "", false, err
			}
			if seen[k] {
				return nil, "", false, fmt.Errorf("%s: duplicate case key %q", p.pos(e), k)
			}
			seen[k] = true
			rows = append(rows, tRow{c, k, cls})
		}
	}
	if len(rows) == 0 {
		return nil, "", false, fmt.Errorf("%s: switch without cases", p.pos(sw))
	}
	sort.Slice(rows, func(i, j int) bool { return rows[i].key < rows[j].key })
	return rows, dflt, hasDefault, nil
}

func findSwitch(p *tPkg, fd *ast.FuncDecl, tagOK func(ast.Expr) bool) (*ast.SwitchStmt, error) {
	var found []*ast.SwitchStmt
	ast.Inspect(fd.Body, func(n ast.Node) bool {
		if sw, ok := n.(*ast.SwitchStmt); ok && sw.Tag != nil && tagOK(sw.Tag) {
			found = append(found, sw)
		}
		return true
	})
	if len(found) != 1 {
		return nil, fmt.Errorf("%s: func %s: expected exactly one switch over the expected tag, found %d", p.pos(fd), fd.Name.Name, len(found))
	}
	return found[0], nil
}

func containsCall(n ast.Node, match func(*ast.CallExpr) bool) bool {
	hit := false
	ast.Inspect(n, func(m ast.Node) bool {
		if c, ok := m.(*ast.CallExpr); ok && match(c) {
			hit = true
		}
		return !hit
	})
	return hit
}

func stmtsContainCall(body []ast.Stmt, match func(*ast.CallExpr) bool) bool {
	for _, s := range body {
		if containsCall(s, match) {
			return true
		}
	}
	return false
}

func callsIdent(name string) func(*ast.CallExpr) bool {
	return func(c *ast.CallExpr) bool {
		id, ok := c.Fun.(*ast.Ident)
		return ok && id.Name == name
	}
}

func callsMethod(name string) func(*ast.CallExpr) bool {
	return func(c *ast.CallExpr) bool {
		s, ok := c.Fun.(*ast.SelectorExpr)
		return ok && s.Sel.Name == name
	}
}

func callsSel3(a, b, c string) func(*ast.CallExpr) bool { // a.b.c(…)
	return func(x *ast.CallExpr) bool {
		s, ok := x.Fun.(*ast.SelectorExpr)
		return ok && s.Sel.Name == c && isSel(s.X, a, b)
	}
}

func callsSel(a, b string) func(*ast.CallExpr) bool {
	return func(x *ast.CallExpr) bool { return isSel(x.Fun, a, b) }
}

// ---------------------------------------------------------------- output helpers

type tOut struct{ sb strings.Builder }

func (o *tOut) rows(name, doc string, rows []tRow) {
	fmt.Fprintf(&o.sb, "/-- %s -/\ndef %s : List Row := [\n", doc, name)
	for i, r := range rows {
		fmt.Fprintf(&o.sb, "  ⟨%s, %s, %s⟩%s\n", leanStr(r.cnst), leanStr(r.key), leanStr(r.target), sepOf(i, len(rows)))
	}
	o.sb.WriteString("]\n\n")
}

func (o *tOut) guards(name, doc string, gs []tGuard) {
	fmt.Fprintf(&o.sb, "/-- %s -/\ndef %s : List Guard := [%s]\n\n", doc, name, guardList(gs))
}

func guardList(gs []tGuard) string {
	var parts []string
	for _, g := range gs {
		parts = append(parts, fmt.Sprintf("⟨%s, %s⟩", leanStr(g.subject), leanStr(g.result)))
	}
	return strings.Join(parts, ", ")
}

func (o *tOut) str(name, doc, v string) {
	fmt.Fprintf(&o.sb, "/-- %s -/\ndef %s : String := %s\n\n", doc, name, leanStr(v))
}

func sepOf(i, n int) string {
	if i == n-1 {
		return ""
	}
	return ","
}

func genTables(repo string) (string, error) {
	o := &tOut{}
	o.sb.WriteString("/- GENERATED by /verif/extract (tables.go) from the repository's sources — do not edit.\n")
	o.sb.WriteString("   Finite decision tables (switch statements, map literals, if-chains) as Lean data.\n")
	o.sb.WriteString("   Constant-keyed tables are sorted by key; ordered chains keep source order. -/\n")
	o.sb.WriteString("import YtkModel.TableTypes\n\nnamespace Ytk.Generated\nopen Ytk.TableT\n\n")
	for _, g := range []func(string, *tOut) error{tablesPatch, tablesK8s, tablesCommon, tablesPipeline, tablesDom} {
		if err := g(repo, o); err != nil {
			return "", err
		}
	}
	o.sb.WriteString("end Ytk.Generated\n")
	return o.sb.String(), nil
}

// ---------------------------------------------------------------- 1. patch

func tablesPatch(repo string, o *tOut) error {
	p, err := loadTPkg(repo, "patch")
	if err != nil {
		return err
	}
	do, err := p.fn("patch.go", "", "Do")
	if err != nil {
		return err
	}
	params := paramNames(do)
	if len(params) != 2 {
		return fmt.Errorf("%s: patch.Do: expected 2 parameters", p.pos(do))
	}
	// shape: guards*, switch arg0.Op {…}, return fmt.Errorf(…)
	pre, rest, err := leadingGuards(do.Body.List, params)
	if err != nil {
		return fmt.Errorf("%s: patch.Do: %v", p.pos(do), err)
	}
	if len(rest) != 2 {
		return fmt.Errorf("%s: patch.Do: expected `nil guards; switch obj.Op {…}; return fmt.Errorf(…)`, found %d statements after the guards", p.pos(do), len(rest))
	}
	sw, ok := rest[0].(*ast.SwitchStmt)
	if !ok {
		return fmt.Errorf("%s: patch.Do: statement after the guards is not a switch", p.pos(rest[0]))
	}
	if s, ok := subjectOf(sw.Tag, params); !ok || s != "arg0.Op" {
		return fmt.Errorf("%s: patch.Do: switch tag is not <arg0>.Op", p.pos(sw))
	}
	if !isErrorfReturn(rest[1]) {
		return fmt.Errorf("%s: patch.Do: statement after the switch is not `return fmt.Errorf(…)`", p.pos(rest[1]))
	}
	// a case body is `return h(arg0, arg1)`
	directCall := func(params []string) func(body []ast.Stmt) (string, error) {
		return func(body []ast.Stmt) (string, error) {
			if len(body) != 1 {
				return "", fmt.Errorf("case body is not a single return")
			}
			rs, ok := body[0].(*ast.ReturnStmt)
			if !ok || len(rs.Results) != 1 {
				return "", fmt.Errorf("case body is not `return h(obj, target)`")
			}
			c, ok := rs.Results[0].(*ast.CallExpr)
			if !ok || len(c.Args) != 2 {
				return "", fmt.Errorf("case body is not `return h(obj, target)`")
			}
			id, ok := c.Fun.(*ast.Ident)
			a0, ok0 := subjectOf(c.Args[0], params)
			a1, ok1 := subjectOf(c.Args[1], params)
			if !ok || !ok0 || !ok1 || a0 != "arg0" || a1 != "arg1" {
				return "", fmt.Errorf("case body is not `return h(obj, target)`")
			}
			return id.Name, nil
		}
	}
	rows, _, hasDefault, err := p.switchTable(sw, p.keyOf, directCall(params))
	if err != nil {
		return err
	}
	if hasDefault {
		return fmt.Errorf("%s: patch.Do: the switch has a default clause (the model assumes the fall-through error return)", p.pos(sw))
	}
	fmt.Fprintf(&o.sb, "/-! ## 1. patch — %s (Do), switch at %s -/\n\n", p.pos(do), p.pos(sw))
	o.guards("patchPreChecks", "patch.Do: the guards evaluated, in this order, before the operation is dispatched", pre)
	o.rows("patchDispatch", "patch.Do: `switch obj.Op` — operation constant, its name, handler function", rows)
	o.str("patchDispatchDefault", "patch.Do: what happens when no case matches (`return fmt.Errorf(…)` after the switch)", "error")
	// handlers: leading guards; a body that is just `return f(arg0, arg1, <literal>…)` delegates to f
	fmt.Fprintf(&o.sb, "/-- the leading `if obj.X == nil { return ErrY }` guards of every handler (a handler whose body is a\n    single `return f(obj, target, …)` is followed into `f`) -/\ndef patchRequires : List (String × List Guard) := [\n")
	for i, r := range rows {
		gs, via, err := handlerGuards(p, r.target, 0)
		if err != nil {
			return err
		}
		fmt.Fprintf(&o.sb, "  (%s, [%s])%s%s\n", leanStr(r.target), guardList(gs), sepOf(i, len(rows)), via)
	}
	o.sb.WriteString("]\n\n")
	// exported error variables
	type kv struct{ k, v string }
	var errs []kv
	for _, f := range p.files {
		for _, d := range f.Decls {
			gd, ok := d.(*ast.GenDecl)
			if !ok || gd.Tok != token.VAR {
				continue
			}
			for _, sp := range gd.Specs {
				vs := sp.(*ast.ValueSpec)
				for i, n := range vs.Names {
					if !strings.HasPrefix(n.Name, "Err") || i >= len(vs.Values) {
						continue
					}
					c, ok := vs.Values[i].(*ast.CallExpr)
					if !ok || !(isSel(c.Fun, "errors", "New") || isSel(c.Fun, "fmt", "Errorf")) || len(c.Args) != 1 {
						return fmt.Errorf("%s: error variable %s is not errors.New(\"…\")", p.pos(n), n.Name)
					}
					s, ok := stringValue(c.Args[0])
					if !ok {
						return fmt.Errorf("%s: error variable %s: message is not a string literal", p.pos(n), n.Name)
					}
					errs = append(errs, kv{n.Name, s})
				}
			}
		}
	}
	sort.Slice(errs, func(i, j int) bool { return errs[i].k < errs[j].k })
	o.sb.WriteString("/-- exported error variables of package patch: name, message -/\ndef patchErrors : List (String × String) := [\n")
	for i, e := range errs {
		fmt.Fprintf(&o.sb, "  (%s, %s)%s\n", leanStr(e.k), leanStr(e.v), sepOf(i, len(errs)))
	}
	o.sb.WriteString("]\n\n")
	return nil
}

func handlerGuards(p *tPkg, name string, depth int) ([]tGuard, string, error) {
	fd, err := p.fn("patch.go", "", name)
	if err != nil {
		return nil, "", err
	}
	params := paramNames(fd)
	if len(params) < 2 {
		return nil, "", fmt.Errorf("%s: handler %s: expected (obj, target, …) parameters", p.pos(fd), name)
	}
	gs, rest, err := leadingGuards(fd.Body.List, params)
	if err != nil {
		return nil, "", fmt.Errorf("%s: %s: %v", p.pos(fd), name, err)
	}
	if len(gs) == 0 && len(rest) == 1 && depth < 3 {
		if rs, ok := rest[0].(*ast.ReturnStmt); ok && len(rs.Results) == 1 {
			if c, ok := rs.Results[0].(*ast.CallExpr); ok && len(c.Args) >= 2 {
				if id, ok := c.Fun.(*ast.Ident); ok {
					a0, ok0 := subjectOf(c.Args[0], params)
					a1, ok1 := subjectOf(c.Args[1], params)
					lits := true
					for _, a := range c.Args[2:] {
						if x, ok := a.(*ast.Ident); !ok || (x.Name != "true" && x.Name != "false") {
							lits = false
						}
					}
					if ok0 && ok1 && a0 == "arg0" && a1 == "arg1" && lits {
						g2, _, err := handlerGuards(p, id.Name, depth+1)
						return g2, fmt.Sprintf("  -- %s (via %s)", p.pos(fd), id.Name), err
					}
				}
			}
		}
	}
	return gs, "  -- " + p.pos(fd), nil
}

// ---------------------------------------------------------------- 2. k8s

func tablesK8s(repo string, o *tOut) error {
	p, err := loadTPkg(repo, "k8s")
	if err != nil {
		return err
	}
	fd, err := p.fn("manifest.go", "", "ManifestFromBytes")
	if err != nil {
		return err
	}
	// find `if kind, ok := doc["kind"]; ok { <chain> } else { return nil, errKindMissing }`
	var outer *ast.IfStmt
	for _, s := range fd.Body.List {
		is, ok := s.(*ast.IfStmt)
		if !ok || is.Init == nil {
			continue
		}
		as, ok := is.Init.(*ast.AssignStmt)
		if !ok || len(as.Rhs) != 1 {
			continue
		}
		ix, ok := as.Rhs[0].(*ast.IndexExpr)
		if !ok {
			continue
		}
		if s, ok := stringValue(ix.Index); ok && s == "kind" {
			outer = is
		}
	}
	if outer == nil {
		return fmt.Errorf("%s: ManifestFromBytes: `if kind, ok := doc[\"kind\"]; ok {…}` not found", p.pos(fd))
	}
	missing, err := k8sElse(p, outer.Else)
	if err != nil {
		return fmt.Errorf("kind missing branch: %v", err)
	}
	if len(outer.Body.List) != 1 {
		return fmt.Errorf("%s: ManifestFromBytes: the body of the kind test is not a single if-chain", p.pos(outer))
	}
	chain, ok := outer.Body.List[0].(*ast.IfStmt)
	if !ok || chain.Init == nil {
		return fmt.Errorf("%s: ManifestFromBytes: expected `if ks, ok := kind.(string); !ok {…} else if …`", p.pos(outer.Body))
	}
	// first link: type assertion to string, negated
	as, ok := chain.Init.(*ast.AssignStmt)
	if !ok || len(as.Lhs) != 2 || len(as.Rhs) != 1 {
		return fmt.Errorf("%s: unexpected init of the kind chain", p.pos(chain))
	}
	ta, ok := as.Rhs[0].(*ast.TypeAssertExpr)
	if !ok || types.ExprString(ta.Type) != "string" {
		return fmt.Errorf("%s: kind is not asserted to string", p.pos(chain))
	}
	ksVar := as.Lhs[0].(*ast.Ident).Name
	okVar := as.Lhs[1].(*ast.Ident).Name
	if ue, ok := chain.Cond.(*ast.UnaryExpr); !ok || ue.Op != token.NOT || types.ExprString(ue.X) != okVar {
		return fmt.Errorf("%s: first link of the kind chain is not `!ok`", p.pos(chain))
	}
	nonString, err := k8sElse(p, chain.Body)
	if err != nil {
		return fmt.Errorf("non-string kind branch: %v", err)
	}
	type krow struct{ kind, assigns string }
	type kr struct {
		kind string
		m    map[string]string // local variable -> resolved key
	}
	var kinds []kr
	unsupported := ""
	cur := chain.Else
	for cur != nil {
		switch x := cur.(type) {
		case *ast.IfStmt:
			if x.Init != nil {
				return fmt.Errorf("%s: unexpected init in the kind chain", p.pos(x))
			}
			be, ok := x.Cond.(*ast.BinaryExpr)
			if !ok || be.Op != token.EQL || types.ExprString(be.X) != ksVar {
				return fmt.Errorf("%s: link of the kind chain is not `%s == \"…\"`", p.pos(x), ksVar)
			}
			kind, ok := stringValue(be.Y)
			if !ok {
				return fmt.Errorf("%s: kind is not compared with a string literal", p.pos(x))
			}
			m := map[string]string{}
			for _, s := range x.Body.List {
				a, ok := s.(*ast.AssignStmt)
				if !ok || a.Tok != token.ASSIGN || len(a.Lhs) != 1 || len(a.Rhs) != 1 {
					return fmt.Errorf("%s: kind %s: statement is not `<var> = <key constant>`", p.pos(s), kind)
				}
				l, ok1 := a.Lhs[0].(*ast.Ident)
				r, ok2 := a.Rhs[0].(*ast.Ident)
				if !ok1 || !ok2 {
					return fmt.Errorf("%s: kind %s: statement is not `<var> = <key constant>`", p.pos(s), kind)
				}
				v, ok := p.strConst(r.Name)
				if !ok {
					return fmt.Errorf("%s: %s is not a string constant", p.pos(r), r.Name)
				}
				if _, dup := m[l.Name]; dup {
					return fmt.Errorf("%s: kind %s assigns %s twice", p.pos(s), kind, l.Name)
				}
				m[l.Name] = v
			}
			for _, k := range kinds {
				if k.kind == kind {
					return fmt.Errorf("%s: kind %s tested twice", p.pos(x), kind)
				}
			}
			kinds = append(kinds, kr{kind, m})
			cur = x.Else
		case *ast.BlockStmt:
			unsupported, err = k8sElse(p, x)
			if err != nil {
				return fmt.Errorf("unsupported kind branch: %v", err)
			}
			cur = nil
		default:
			return fmt.Errorf("%s: unexpected else branch", p.pos(cur))
		}
	}
	if unsupported == "" {
		return fmt.Errorf("%s: the kind chain has no final else (unsupported kind)", p.pos(chain))
	}
	// &dataHandler{bk: <local>, tk: <local>}
	fieldOf := map[string]string{} // local -> field
	ast.Inspect(fd.Body, func(n ast.Node) bool {
		cl, ok := n.(*ast.CompositeLit)
		if !ok || types.ExprString(cl.Type) != "dataHandler" {
			return true
		}
		for _, el := range cl.Elts {
			if kv, ok := el.(*ast.KeyValueExpr); ok {
				k, ok1 := kv.Key.(*ast.Ident)
				v, ok2 := kv.Value.(*ast.Ident)
				if ok1 && ok2 {
					fieldOf[v.Name] = k.Name
				}
			}
		}
		return true
	})
	var rows []struct{ kind, bk, tk string }
	for _, k := range kinds {
		byField := map[string]string{}
		for local, v := range k.m {
			f, ok := fieldOf[local]
			if !ok {
				return fmt.Errorf("%s: kind %s assigns %s, which is not a field of the dataHandler literal", p.pos(fd), k.kind, local)
			}
			byField[f] = v
		}
		if len(byField) != 2 || byField["bk"] == "" || byField["tk"] == "" {
			return fmt.Errorf("%s: kind %s does not set exactly dataHandler.bk and dataHandler.tk", p.pos(fd), k.kind)
		}
		rows = append(rows, struct{ kind, bk, tk string }{k.kind, byField["bk"], byField["tk"]})
	}
	sort.Slice(rows, func(i, j int) bool { return rows[i].kind < rows[j].kind })
	fmt.Fprintf(&o.sb, "/-! ## 2. k8s — %s (ManifestFromBytes), kind chain at %s -/\n\n", p.pos(fd), p.pos(chain))
	o.sb.WriteString("/-- manifest kind ↦ (dataHandler.bk = binary section key, dataHandler.tk = text section key) -/\ndef k8sKinds : List KindRow := [\n")
	for i, r := range rows {
		fmt.Fprintf(&o.sb, "  ⟨%s, %s, %s⟩%s\n", leanStr(r.kind), leanStr(r.bk), leanStr(r.tk), sepOf(i, len(rows)))
	}
	o.sb.WriteString("]\n\n")
	o.str("k8sKindUnsupported", "any other kind", unsupported)
	o.str("k8sKindNonString", "`kind` is not a string", nonString)
	o.str("k8sKindMissing", "no `kind` element", missing)
	// dataHandler.afterLoad / beforeSave: which function handles which field, and whether it uses base64
	al, err := p.fn("manifest.go", "dataHandler", "afterLoad")
	if err != nil {
		return err
	}
	bs, err := p.fn("manifest.go", "dataHandler", "beforeSave")
	if err != nil {
		return err
	}
	loadOf, err := k8sFieldCalls(p, al)
	if err != nil {
		return err
	}
	saveOf, err := k8sFieldCalls(p, bs)
	if err != nil {
		return err
	}
	o.sb.WriteString("/-- dataHandler.afterLoad / beforeSave: the function applied to each section key field and whether that\n    function goes through base64.StdEncoding (DecodeString on load, EncodeToString on save) -/\ndef k8sSections : List SectionRow := [\n")
	fields := []string{"bk", "tk"}
	for i, f := range fields {
		lf, ok1 := loadOf[f]
		sf, ok2 := saveOf[f]
		if !ok1 || !ok2 || len(loadOf) != 2 || len(saveOf) != 2 {
			return fmt.Errorf("%s: dataHandler.afterLoad / beforeSave do not handle exactly the fields bk and tk", p.pos(al))
		}
		lfd, err := p.fn("manifest.go", "", lf)
		if err != nil {
			return err
		}
		sfd, err := p.fn("manifest.go", "", sf)
		if err != nil {
			return err
		}
		l64 := containsCall(lfd.Body, callsSel3("base64", "StdEncoding", "DecodeString"))
		s64 := containsCall(sfd.Body, callsSel3("base64", "StdEncoding", "EncodeToString"))
		if containsCall(lfd.Body, func(c *ast.CallExpr) bool {
			s, ok := c.Fun.(*ast.SelectorExpr)
			return ok && isPkgPrefix(s.X, "base64") && !callsSel3("base64", "StdEncoding", "DecodeString")(c)
		}) || containsCall(sfd.Body, func(c *ast.CallExpr) bool {
			s, ok := c.Fun.(*ast.SelectorExpr)
			return ok && isPkgPrefix(s.X, "base64") && !callsSel3("base64", "StdEncoding", "EncodeToString")(c)
		}) {
			return fmt.Errorf("%s: %s / %s use a base64 encoding other than StdEncoding.DecodeString / EncodeToString", p.pos(lfd), lf, sf)
		}
		fmt.Fprintf(&o.sb, "  ⟨%s, %s, %v, %s, %v⟩%s  -- %s, %s\n", leanStr(f), leanStr(lf), l64, leanStr(sf), s64, sepOf(i, len(fields)), p.pos(lfd), p.pos(sfd))
	}
	o.sb.WriteString("]\n\n")
	return nil
}

func isPkgPrefix(e ast.Expr, pkg string) bool {
	switch x := e.(type) {
	case *ast.Ident:
		return x.Name == pkg
	case *ast.SelectorExpr:
		return isPkgPrefix(x.X, pkg)
	}
	return false
}

// k8sElse classifies a block that must be a single `return nil, <error>`.
func k8sElse(p *tPkg, s ast.Stmt) (string, error) {
	b, ok := s.(*ast.BlockStmt)
	if !ok || len(b.List) != 1 {
		return "", fmt.Errorf("%s: not a single-statement block", p.pos(s))
	}
	rs, ok := b.List[0].(*ast.ReturnStmt)
	if !ok || len(rs.Results) != 2 {
		return "", fmt.Errorf("%s: not `return nil, <error>`", p.pos(b))
	}
	if id, ok := rs.Results[0].(*ast.Ident); !ok || id.Name != "nil" {
		return "", fmt.Errorf("%s: not `return nil, <error>`", p.pos(b))
	}
	if id, ok := rs.Results[1].(*ast.Ident); ok && id.Name == "nil" {
		return "", fmt.Errorf("%s: returns a nil error", p.pos(b))
	}
	return "error", nil
}

// k8sFieldCalls: in a dataHandler method, the calls `f(k, d.<field>)`: field -> f.
func k8sFieldCalls(p *tPkg, fd *ast.FuncDecl) (map[string]string, error) {
	recv := recvName(fd)
	out := map[string]string{}
	var err error
	ast.Inspect(fd.Body, func(n ast.Node) bool {
		c, ok := n.(*ast.CallExpr)
		if !ok {
			return true
		}
		id, ok := c.Fun.(*ast.Ident)
		if !ok {
			return true
		}
		for _, a := range c.Args {
			if s, ok := a.(*ast.SelectorExpr); ok {
				if x, ok := s.X.(*ast.Ident); ok && x.Name == recv {
					if _, dup := out[s.Sel.Name]; dup {
						err = fmt.Errorf("%s: field %s handled twice", p.pos(c), s.Sel.Name)
					}
					out[s.Sel.Name] = id.Name
				}
			}
		}
		return true
	})
	return out, err
}

// ---------------------------------------------------------------- 3. common

func tablesCommon(repo string, o *tOut) error {
	p, err := loadTPkg(repo, "common")
	if err != nil {
		return err
	}
	for _, it := range []struct{ fn, tbl, what string }{
		{"DefaultFileDecoderProvider", "fileDecoders", "decoder"},
		{"DefaultFileEncoderProvider", "fileEncoders", "encoder"},
	} {
		fd, err := p.fn("common.go", "", it.fn)
		if err != nil {
			return err
		}
		params := paramNames(fd)
		if len(params) != 1 || len(fd.Body.List) != 1 {
			return fmt.Errorf("%s: %s: expected one parameter and a body that is a single switch", p.pos(fd), it.fn)
		}
		sw, ok := fd.Body.List[0].(*ast.SwitchStmt)
		if !ok || sw.Tag == nil {
			return fmt.Errorf("%s: %s: body is not a tag switch", p.pos(fd), it.fn)
		}
		tag, ok := sw.Tag.(*ast.CallExpr)
		if !ok || !isSel(tag.Fun, "filepath", "Ext") || len(tag.Args) != 1 || types.ExprString(tag.Args[0]) != params[0] {
			return fmt.Errorf("%s: %s: switch tag is not filepath.Ext(<arg0>)", p.pos(sw), it.fn)
		}
		rows, dflt, hasDefault, err := p.switchTable(sw, p.keyOf, func(body []ast.Stmt) (string, error) {
			if len(body) != 1 {
				return "", fmt.Errorf("case body is not a single return")
			}
			rs, ok := body[0].(*ast.ReturnStmt)
			if !ok || len(rs.Results) != 1 {
				return "", fmt.Errorf("case body is not a single return")
			}
			switch x := rs.Results[0].(type) {
			case *ast.Ident:
				if x.Name == "nil" {
					return "nil", nil
				}
			case *ast.SelectorExpr:
				if id, ok := x.X.(*ast.Ident); ok {
					return id.Name + "." + x.Sel.Name, nil
				}
			}
			return "", fmt.Errorf("returned expression %s is neither nil nor pkg.Func", types.ExprString(rs.Results[0]))
		})
		if err != nil {
			return err
		}
		if !hasDefault {
			return fmt.Errorf("%s: %s: switch has no default clause", p.pos(sw), it.fn)
		}
		fmt.Fprintf(&o.sb, "/-! ## 3. common — %s (%s), `switch filepath.Ext(file)` -/\n\n", p.pos(fd), it.fn)
		o.rows(it.tbl, "common."+it.fn+": file suffix (filepath.Ext) ↦ "+it.what+" function", rows)
		o.str(it.tbl+"Default", "common."+it.fn+": any other suffix", dflt)
	}
	return nil
}

// ---------------------------------------------------------------- 4. pipeline

// defaultAssign recognises `if <cond on subject> { <lhs> = <wrapper>(<Const>) }` / `<lhs> = <Const>` as the
// first such statement in fd whose condition mentions `subject` (rendered with the receiver / parameter names
// normalised away by the caller); returns the resolved constant.
func defaultConst(p *tPkg, fd *ast.FuncDecl, condOK func(ast.Expr) bool, lhsOK func(ast.Expr) bool) (string, string, error) {
	for _, s := range fd.Body.List {
		is, ok := s.(*ast.IfStmt)
		if !ok || is.Init != nil || is.Else != nil || len(is.Body.List) != 1 || !condOK(is.Cond) {
			continue
		}
		as, ok := is.Body.List[0].(*ast.AssignStmt)
		if !ok || as.Tok != token.ASSIGN || len(as.Lhs) != 1 || len(as.Rhs) != 1 || !lhsOK(as.Lhs[0]) {
			return "", "", fmt.Errorf("%s: the default branch is not a single assignment to the tested variable", p.pos(is))
		}
		rhs := as.Rhs[0]
		if c, ok := rhs.(*ast.CallExpr); ok && len(c.Args) == 1 { // ptr(X) / setStrategyPointer(X)
			if _, ok := c.Fun.(*ast.Ident); ok {
				rhs = c.Args[0]
			}
		}
		id, ok := rhs.(*ast.Ident)
		if !ok {
			return "", "", fmt.Errorf("%s: the default is not a named constant", p.pos(as))
		}
		v, ok := p.strConst(id.Name)
		if !ok {
			return "", "", fmt.Errorf("%s: %s is not a string constant", p.pos(as), id.Name)
		}
		return v, p.pos(is), nil
	}
	return "", "", fmt.Errorf("%s: func %s: default assignment not found", p.pos(fd), fd.Name.Name)
}

func tablesPipeline(repo string, o *tOut) error {
	p, err := loadTPkg(repo, "pipeline")
	if err != nil {
		return err
	}
	// ---- import: ParseFileMode.toValue
	tv, err := p.fn("import_op.go", "ParseFileMode", "toValue")
	if err != nil {
		return err
	}
	recv := recvName(tv)
	params := paramNames(tv)
	if len(params) != 1 || len(tv.Body.List) != 1 {
		return fmt.Errorf("%s: toValue: expected one parameter and a body that is a single switch", p.pos(tv))
	}
	sw, ok := tv.Body.List[0].(*ast.SwitchStmt)
	if !ok || sw.Tag == nil || types.ExprString(sw.Tag) != recv {
		return fmt.Errorf("%s: toValue: body is not `switch <receiver>`", p.pos(tv))
	}
	content := params[0]
	classifyImport := func(body []ast.Stmt) (string, error) {
		if len(body) != 1 {
			return "", fmt.Errorf("case body is not a single return")
		}
		if isErrorfReturn(body[0]) {
			return "error", nil
		}
		rs, ok := body[0].(*ast.ReturnStmt)
		if !ok || len(rs.Results) != 2 && len(rs.Results) != 1 {
			return "", fmt.Errorf("case body is not a return")
		}
		c, ok := rs.Results[0].(*ast.CallExpr)
		if !ok {
			return "", fmt.Errorf("unclassified result %s", types.ExprString(rs.Results[0]))
		}
		if len(rs.Results) == 2 {
			if id, ok := rs.Results[1].(*ast.Ident); !ok || id.Name != "nil" {
				return "", fmt.Errorf("unclassified error result %s", types.ExprString(rs.Results[1]))
			}
			if !isSel(c.Fun, "dom", "LeafNode") || len(c.Args) != 1 {
				return "", fmt.Errorf("unclassified result %s", types.ExprString(c))
			}
			a, ok := c.Args[0].(*ast.CallExpr)
			if !ok || len(a.Args) != 1 {
				return "", fmt.Errorf("unclassified leaf value %s", types.ExprString(c.Args[0]))
			}
			if types.ExprString(a.Args[0]) != content {
				return "", fmt.Errorf("leaf value is not built from the content parameter")
			}
			if id, ok := a.Fun.(*ast.Ident); ok && id.Name == "string" {
				return "leaf:string", nil
			}
			if callsSel3("base64", "StdEncoding", "EncodeToString")(a) {
				return "leaf:base64", nil
			}
			return "", fmt.Errorf("unclassified leaf value %s", types.ExprString(a))
		}
		// return b.FromReader(bytes.NewReader(content), <decoder>)
		if s, ok := c.Fun.(*ast.SelectorExpr); !ok || s.Sel.Name != "FromReader" || len(c.Args) != 2 {
			return "", fmt.Errorf("unclassified result %s", types.ExprString(c))
		}
		rd, ok := c.Args[0].(*ast.CallExpr)
		if !ok || !isSel(rd.Fun, "bytes", "NewReader") || len(rd.Args) != 1 || types.ExprString(rd.Args[0]) != content {
			return "", fmt.Errorf("reader is not bytes.NewReader(<content>)")
		}
		d, ok := c.Args[1].(*ast.SelectorExpr)
		if !ok {
			return "", fmt.Errorf("decoder %s is not pkg.Func", types.ExprString(c.Args[1]))
		}
		return "decode:" + types.ExprString(d), nil
	}
	rows, dflt, hasDefault, err := p.switchTable(sw, p.keyOf, classifyImport)
	if err != nil {
		return err
	}
	if !hasDefault {
		return fmt.Errorf("%s: toValue: switch has no default clause", p.pos(sw))
	}
	fmt.Fprintf(&o.sb, "/-! ## 4. pipeline — %s (ParseFileMode.toValue) -/\n\n", p.pos(tv))
	o.rows("importModes", "ParseFileMode.toValue: mode ↦ how the file content becomes a node (`leaf:string` = dom.LeafNode(string(content)), `leaf:base64` = dom.LeafNode(base64.StdEncoding.EncodeToString(content)), `decode:f` = FromReader(bytes.NewReader(content), f))", rows)
	o.str("importModesDefault", "ParseFileMode.toValue: any other mode", dflt)
	pf, err := p.fn("utils.go", "", "parseFile")
	if err != nil {
		return err
	}
	pfParams := paramNames(pf)
	if len(pfParams) != 2 {
		return fmt.Errorf("%s: parseFile: expected (path, mode)", p.pos(pf))
	}
	modeVar := pfParams[1]
	dm, dmPos, err := defaultConst(p, pf, func(c ast.Expr) bool {
		return types.ExprString(c) == "len("+modeVar+") == 0" || types.ExprString(c) == modeVar+` == ""`
	}, func(l ast.Expr) bool { return types.ExprString(l) == modeVar })
	if err != nil {
		return err
	}
	// the defaulted mode must be what toValue is called on
	if !containsCall(pf.Body, func(c *ast.CallExpr) bool {
		s, ok := c.Fun.(*ast.SelectorExpr)
		return ok && s.Sel.Name == "toValue" && types.ExprString(s.X) == modeVar
	}) {
		return fmt.Errorf("%s: parseFile does not call <mode>.toValue", p.pos(pf))
	}
	o.str("importDefaultMode", "parseFile ("+dmPos+"): the mode used when none is given (`len(mode) == 0`)", dm)

	// ---- export: ExportOp.Do
	ex, err := p.fn("export_op.go", "ExportOp", "Do")
	if err != nil {
		return err
	}
	er := recvName(ex)
	esw, err := findSwitch(p, ex, func(t ast.Expr) bool { return types.ExprString(t) == er+".Format" })
	if err != nil {
		return err
	}
	defVals := map[string]string{}
	classifyExport := func(body []ast.Stmt) (string, error) {
		if len(body) == 1 && isErrorfReturn(body[0]) {
			return "error", nil
		}
		enc, dv := "", ""
		for _, s := range body {
			as, ok := s.(*ast.AssignStmt)
			if !ok || as.Tok != token.ASSIGN || len(as.Lhs) != 1 || len(as.Rhs) != 1 {
				return "", fmt.Errorf("unclassified statement in a format case")
			}
			switch types.ExprString(as.Lhs[0]) {
			case "enc":
				switch r := as.Rhs[0].(type) {
				case *ast.SelectorExpr:
					enc = types.ExprString(r)
				case *ast.FuncLit:
					var f string
					n := 0
					ast.Inspect(r.Body, func(m ast.Node) bool {
						if c, ok := m.(*ast.CallExpr); ok {
							n++
							if isSel(c.Fun, "fmt", "Fprintf") && len(c.Args) == 3 {
								if s, ok := stringValue(c.Args[1]); ok {
									f = s
								}
							}
						}
						return true
					})
					if n != 1 || f == "" {
						return "", fmt.Errorf("unclassified encoder function literal")
					}
					enc = "fmt.Fprintf:" + f
				default:
					return "", fmt.Errorf("unclassified encoder %s", types.ExprString(as.Rhs[0]))
				}
			case "defVal":
				c, ok := as.Rhs[0].(*ast.CallExpr)
				if !ok || !isSel(c.Fun, "dom", "LeafNode") || len(c.Args) != 1 {
					return "", fmt.Errorf("unclassified default value %s", types.ExprString(as.Rhs[0]))
				}
				s, ok := stringValue(c.Args[0])
				if !ok {
					return "", fmt.Errorf("unclassified default value %s", types.ExprString(as.Rhs[0]))
				}
				dv = "leaf:" + strconv.Quote(s)
			default:
				return "", fmt.Errorf("assignment to %s in a format case", types.ExprString(as.Lhs[0]))
			}
		}
		if enc == "" {
			return "", fmt.Errorf("format case does not choose an encoder")
		}
		defVals[enc] = dv
		return enc, nil
	}
	erows, edflt, hasDefault, err := p.switchTable(esw, p.keyOf, classifyExport)
	if err != nil {
		return err
	}
	if !hasDefault {
		return fmt.Errorf("%s: ExportOp.Do: format switch has no default clause", p.pos(esw))
	}
	// initial defVal: `defVal = b.Container()` before the switch
	initDef := ""
	for _, s := range ex.Body.List {
		if s == ast.Stmt(esw) {
			break
		}
		if as, ok := s.(*ast.AssignStmt); ok && len(as.Lhs) == 1 && types.ExprString(as.Lhs[0]) == "defVal" {
			if c, ok := as.Rhs[0].(*ast.CallExpr); ok && callsMethod("Container")(c) && len(c.Args) == 0 {
				initDef = "container"
			} else {
				return fmt.Errorf("%s: ExportOp.Do: unclassified initial default value", p.pos(as))
			}
		}
	}
	if initDef == "" {
		return fmt.Errorf("%s: ExportOp.Do: `defVal = b.Container()` not found before the format switch", p.pos(ex))
	}
	fmt.Fprintf(&o.sb, "/-! ## 4. pipeline — %s (ExportOp.Do), format switch at %s -/\n\n", p.pos(ex), p.pos(esw))
	o.rows("exportFormats", "ExportOp.Do: output format ↦ encoder (`fmt.Fprintf:%v` = the function literal printing the leaf value with %v)", erows)
	o.str("exportFormatsDefault", "ExportOp.Do: any other format", edflt)
	var drows []tRow
	for _, r := range erows {
		dv := defVals[r.target]
		if dv == "" {
			dv = initDef
		}
		drows = append(drows, tRow{r.cnst, r.key, dv})
	}
	o.rows("exportDefaults", "ExportOp.Do: output format ↦ the value exported when the path does not resolve (`container` = the empty container assigned before the switch)", drows)

	// ---- set: setHandlerFnMap
	var mapLit *ast.CompositeLit
	var mapPos ast.Node
	for _, d := range p.files["set_op.go"].Decls {
		gd, ok := d.(*ast.GenDecl)
		if !ok || gd.Tok != token.VAR {
			continue
		}
		for _, sp := range gd.Specs {
			vs := sp.(*ast.ValueSpec)
			for i, n := range vs.Names {
				if n.Name == "setHandlerFnMap" && i < len(vs.Values) {
					if cl, ok := vs.Values[i].(*ast.CompositeLit); ok {
						if _, ok := cl.Type.(*ast.MapType); ok {
							mapLit, mapPos = cl, n
						}
					}
				}
			}
		}
	}
	if mapLit == nil {
		return fmt.Errorf("pipeline/set_op.go: `var setHandlerFnMap = map[SetStrategy]setHandlerFn{…}` not found")
	}
	var srows []tRow
	for _, el := range mapLit.Elts {
		kv, ok := el.(*ast.KeyValueExpr)
		if !ok {
			return fmt.Errorf("%s: setHandlerFnMap: element is not key: value", p.pos(el))
		}
		c, k, err := p.keyOf(kv.Key)
		if err != nil {
			return err
		}
		fl, ok := kv.Value.(*ast.FuncLit)
		if !ok {
			return fmt.Errorf("%s: setHandlerFnMap[%s] is not a function literal", p.pos(kv), c)
		}
		// classify: does the handler merge into what is there (calls .Merge / setOpMergeIfContainersReplaceOtherwise)
		// on both of its branches, on none, or is it something else
		merges := containsCall(fl.Body, callsMethod("Merge")) && containsCall(fl.Body, callsIdent("setOpMergeIfContainersReplaceOtherwise"))
		anyMerge := containsCall(fl.Body, callsMethod("Merge")) || containsCall(fl.Body, callsIdent("setOpMergeIfContainersReplaceOtherwise"))
		stores := containsCall(fl.Body, callsMethod("AddValueAt"))
		cls := ""
		switch {
		case merges && stores:
			cls = "merge"
		case !anyMerge && stores:
			cls = "replace"
		default:
			return fmt.Errorf("%s: setHandlerFnMap[%s]: handler body not classified (merges on one branch only, or stores nothing)", p.pos(kv), c)
		}
		srows = append(srows, tRow{c, k, cls})
	}
	sort.Slice(srows, func(i, j int) bool { return srows[i].key < srows[j].key })
	for i := 1; i < len(srows); i++ {
		if srows[i].key == srows[i-1].key {
			return fmt.Errorf("%s: setHandlerFnMap: duplicate key %q", p.pos(mapPos), srows[i].key)
		}
	}
	sd, err := p.fn("set_op.go", "SetOp", "Do")
	if err != nil {
		return err
	}
	sr := recvName(sd)
	ds, dsPos, err := defaultConst(p, sd, func(c ast.Expr) bool { return types.ExprString(c) == sr+".Strategy == nil" },
		func(l ast.Expr) bool { return types.ExprString(l) == sr+".Strategy" })
	if err != nil {
		return err
	}
	// lookup `handler, exists := setHandlerFnMap[*sa.Strategy]; if !exists { return fmt.Errorf }`
	lookupOK, missOK := false, false
	for i, s := range sd.Body.List {
		as, ok := s.(*ast.AssignStmt)
		if !ok || len(as.Lhs) != 2 || len(as.Rhs) != 1 {
			continue
		}
		ix, ok := as.Rhs[0].(*ast.IndexExpr)
		if !ok || types.ExprString(ix.X) != "setHandlerFnMap" || types.ExprString(ix.Index) != "*"+sr+".Strategy" {
			continue
		}
		lookupOK = true
		if i+1 < len(sd.Body.List) {
			if is, ok := sd.Body.List[i+1].(*ast.IfStmt); ok && types.ExprString(is.Cond) == "!"+types.ExprString(as.Lhs[1]) &&
				len(is.Body.List) == 1 && isErrorfReturn(is.Body.List[0]) {
				missOK = true
			}
		}
	}
	if !lookupOK || !missOK {
		return fmt.Errorf("%s: SetOp.Do: `h, exists := setHandlerFnMap[*sa.Strategy]; if !exists { return fmt.Errorf(…) }` not found", p.pos(sd))
	}
	fmt.Fprintf(&o.sb, "/-! ## 4. pipeline — %s (setHandlerFnMap), %s (SetOp.Do) -/\n\n", p.pos(mapPos), p.pos(sd))
	o.rows("setStrategies", "setHandlerFnMap: strategy ↦ class of the handler (`merge` = merges into an existing container at the path and member-wise at the root; `replace` = stores the payload without merging)", srows)
	o.str("setStrategiesDefault", "SetOp.Do: a strategy that is not a key of the map", "error")
	o.str("setDefaultStrategy", "SetOp.Do ("+dsPos+"): the strategy used when none is given", ds)

	// ---- template: TemplateOp.Do
	td, err := p.fn("template_op.go", "TemplateOp", "Do")
	if err != nil {
		return err
	}
	tr := recvName(td)
	tsw, err := findSwitch(p, td, func(t ast.Expr) bool { return types.ExprString(t) == "*"+tr+".ParseAs" })
	if err != nil {
		return err
	}
	trows, tdflt, hasDefault, err := p.switchTable(tsw, p.keyOf, func(body []ast.Stmt) (string, error) {
		if len(body) == 1 && isErrorfReturn(body[0]) {
			return "error", nil
		}
		if len(body) == 1 {
			if as, ok := body[0].(*ast.AssignStmt); ok && len(as.Lhs) == 1 && len(as.Rhs) == 1 {
				if c, ok := as.Rhs[0].(*ast.CallExpr); ok && isSel(c.Fun, "dom", "LeafNode") && len(c.Args) == 1 {
					if _, ok := c.Args[0].(*ast.Ident); ok {
						return "leaf:string", nil
					}
				}
			}
		}
		if stmtsContainCall(body, callsSel("yaml", "Unmarshal")) && stmtsContainCall(body, callsSel("dom", "YamlNodeDecoder")) {
			return "yaml", nil
		}
		return "", fmt.Errorf("unclassified parseAs case")
	})
	if err != nil {
		return err
	}
	if !hasDefault {
		return fmt.Errorf("%s: TemplateOp.Do: parseAs switch has no default clause", p.pos(tsw))
	}
	dp, dpPos, err := defaultConst(p, td, func(c ast.Expr) bool { return types.ExprString(c) == tr+".ParseAs == nil" },
		func(l ast.Expr) bool { return types.ExprString(l) == tr+".ParseAs" })
	if err != nil {
		return err
	}
	fmt.Fprintf(&o.sb, "/-! ## 4. pipeline — %s (TemplateOp.Do), parseAs switch at %s -/\n\n", p.pos(td), p.pos(tsw))
	o.rows("templateParseAs", "TemplateOp.Do: parseAs ↦ what is stored (`leaf:string` = dom.LeafNode(rendered text), `yaml` = yaml.Unmarshal + dom.YamlNodeDecoder)", trows)
	o.str("templateParseAsDefault", "TemplateOp.Do: any other parseAs value", tdflt)
	o.str("templateDefaultParseAs", "TemplateOp.Do ("+dpPos+"): the parseAs value used when none is given", dp)
	return nil
}

// ---------------------------------------------------------------- 5. dom

func tablesDom(repo string, o *tOut) error {
	p, err := loadTPkg(repo, "dom")
	if err != nil {
		return err
	}
	kindKey := func(e ast.Expr) (string, string, error) {
		if s, ok := e.(*ast.SelectorExpr); ok && isPkgPrefix(s.X, "reflect") {
			return "reflect." + s.Sel.Name, s.Sel.Name, nil
		}
		return "", "", fmt.Errorf("%s: case expression %s is not a reflect.Kind constant", p.pos(e), types.ExprString(e))
	}
	// what a branch builds: classes by the constructor calls it contains; it must attach the result
	classify := func(attach []string) func(body []ast.Stmt) (string, error) {
		return func(body []ast.Stmt) (string, error) {
			attached := false
			for _, a := range attach {
				if stmtsContainCall(body, callsMethod(a)) {
					attached = true
				}
			}
			if !attached {
				return "skip", nil // nothing is put into the parent: the value is dropped
			}
			var cls []string
			if stmtsContainCall(body, callsIdent("decodeContainerFn")) || stmtsContainCall(body, callsIdent("DefaultNodeDecoderFn")) {
				cls = append(cls, "container")
			}
			if stmtsContainCall(body, callsIdent("decodeListFn")) {
				cls = append(cls, "list")
			}
			if stmtsContainCall(body, callsIdent("decodeLeafFn")) || stmtsContainCall(body, callsIdent("LeafNode")) {
				cls = append(cls, "leaf")
			}
			if len(cls) != 1 {
				return "", fmt.Errorf("case body builds %v: not classified as exactly one of container / list / leaf", cls)
			}
			return cls[0], nil
		}
	}
	for _, it := range []struct {
		fn, tbl string
		attach  []string
	}{
		{"decodeContainerFn", "decodeContainerKinds", []string{"AddValue", "AddContainer", "AddList"}},
		{"decodeListFn", "decodeListKinds", []string{"Append"}},
	} {
		fd, err := p.fn("codec.go", "", it.fn)
		if err != nil {
			return err
		}
		sw, err := findSwitch(p, fd, func(t ast.Expr) bool {
			c, ok := t.(*ast.CallExpr)
			return ok && callsMethod("Kind")(c)
		})
		if err != nil {
			return err
		}
		// the switch tag must be reflect.ValueOf(<the ranged value>).Kind(), and the nil test must come first
		var rng *ast.RangeStmt
		for _, s := range fd.Body.List {
			if r, ok := s.(*ast.RangeStmt); ok {
				rng = r
			}
		}
		if rng == nil || rng.Value == nil {
			return fmt.Errorf("%s: %s: no `for _, v := range …` loop", p.pos(fd), it.fn)
		}
		val := types.ExprString(rng.Value)
		tagVar := types.ExprString(sw.Tag.(*ast.CallExpr).Fun.(*ast.SelectorExpr).X)
		tagOK := false
		ast.Inspect(rng.Body, func(n ast.Node) bool {
			if as, ok := n.(*ast.AssignStmt); ok && len(as.Lhs) == 1 && len(as.Rhs) == 1 && types.ExprString(as.Lhs[0]) == tagVar {
				if c, ok := as.Rhs[0].(*ast.CallExpr); ok && isSel(c.Fun, "reflect", "ValueOf") && len(c.Args) == 1 && types.ExprString(c.Args[0]) == val {
					tagOK = true
				}
			}
			return true
		})
		if !tagOK {
			return fmt.Errorf("%s: %s: the switch is not over reflect.ValueOf(%s).Kind()", p.pos(sw), it.fn, val)
		}
		// nil guard: first statement of the loop body is `if v == nil { … }` whose body attaches nilLeaf
		nilCls := ""
		if len(rng.Body.List) > 0 {
			if is, ok := rng.Body.List[0].(*ast.IfStmt); ok && is.Init == nil && types.ExprString(is.Cond) == val+" == nil" {
				attached := false
				for _, a := range it.attach {
					if stmtsContainCall(is.Body.List, callsMethod(a)) {
						attached = true
					}
				}
				mentionsNil := false
				ast.Inspect(is.Body, func(n ast.Node) bool {
					if id, ok := n.(*ast.Ident); ok && id.Name == "nilLeaf" {
						mentionsNil = true
					}
					return true
				})
				switch {
				case attached && mentionsNil:
					nilCls = "leaf"
				case !attached:
					nilCls = "skip"
				default:
					return fmt.Errorf("%s: %s: the nil branch is not classified", p.pos(is), it.fn)
				}
			}
		}
		if nilCls == "" {
			return fmt.Errorf("%s: %s: the loop body does not start with `if %s == nil {…}` (reflect.ValueOf(nil).Kind() would be Invalid)", p.pos(rng), it.fn, val)
		}
		rows, dflt, hasDefault, err := p.switchTable(sw, kindKey, classify(it.attach))
		if err != nil {
			return err
		}
		if !hasDefault {
			dflt = "skip" // kinds not listed fall out of the switch: nothing is attached
		}
		fmt.Fprintf(&o.sb, "/-! ## 5. dom — %s (%s), kind switch at %s -/\n\n", p.pos(fd), it.fn, p.pos(sw))
		o.rows(it.tbl, "dom."+it.fn+": reflect.Kind of a non-nil value ↦ the node built for it and attached to the parent (`skip` = nothing attached)", rows)
		o.str(it.tbl+"Default", "dom."+it.fn+": every other kind (default clause; `skip` when there is none)", dflt)
		o.str(it.tbl+"Nil", "dom."+it.fn+": a nil value (tested before reflect.ValueOf)", nilCls)
	}
	// merge.go: the kind dispatch
	for _, it := range []struct{ fn, tbl string }{{"mergeContainers", "mergeContainersCases"}, {"mergeListsMeld", "mergeListsMeldCases"}} {
		fd, err := p.fn("merge.go", "merger", it.fn)
		if err != nil {
			return err
		}
		recv := recvName(fd)
		var chains []*ast.IfStmt
		ast.Inspect(fd.Body, func(n ast.Node) bool {
			if is, ok := n.(*ast.IfStmt); ok {
				if _, _, ok := kindTest(is.Cond); ok {
					chains = append(chains, is)
					return false
				}
			}
			return true
		})
		if len(chains) != 1 {
			return fmt.Errorf("%s: %s: expected exactly one `if a.IsX() && b.IsY() {…} else if … else {…}` chain, found %d", p.pos(fd), it.fn, len(chains))
		}
		type mc struct{ l, r, act string }
		var cases []mc
		var lv, rv string
		var cur ast.Stmt = chains[0]
		for cur != nil {
			switch x := cur.(type) {
			case *ast.IfStmt:
				if x.Init != nil {
					return fmt.Errorf("%s: %s: init statement in the kind chain", p.pos(x), it.fn)
				}
				l, r, ok := kindTest(x.Cond)
				if !ok {
					return fmt.Errorf("%s: %s: condition %s is not `a.IsX() && b.IsY()`", p.pos(x), it.fn, types.ExprString(x.Cond))
				}
				if lv == "" {
					lv, rv = l[0], r[0]
				} else if lv != l[0] || rv != r[0] {
					return fmt.Errorf("%s: %s: the chain tests different variables (%s,%s) vs (%s,%s)", p.pos(x), it.fn, lv, rv, l[0], r[0])
				}
				act, err := mergeAction(x.Body.List, recv, lv, rv)
				if err != nil {
					return fmt.Errorf("%s: %s: %v", p.pos(x), it.fn, err)
				}
				cases = append(cases, mc{l[1], r[1], act})
				cur = x.Else
			case *ast.BlockStmt:
				act, err := mergeAction(x.List, recv, lv, rv)
				if err != nil {
					return fmt.Errorf("%s: %s: %v", p.pos(x), it.fn, err)
				}
				cases = append(cases, mc{"any", "any", act})
				cur = nil
			default:
				return fmt.Errorf("%s: %s: unexpected else", p.pos(cur), it.fn)
			}
		}
		if len(cases) == 0 || cases[len(cases)-1].l != "any" {
			return fmt.Errorf("%s: %s: the kind chain has no final else", p.pos(chains[0]), it.fn)
		}
		fmt.Fprintf(&o.sb, "/-! ## 5. dom — %s (merger.%s), kind chain at %s (ORDERED: first matching arm wins) -/\n\n", p.pos(fd), it.fn, p.pos(chains[0]))
		fmt.Fprintf(&o.sb, "/-- merger.%s: for a key / index present on both sides, (kind of the left node, kind of the right node) ↦\n    `mergeContainers` (recurse), `listMergeFn` (the selected list strategy), `coalesce` (right wins unless null) -/\ndef %s : List MergeCase := [\n", it.fn, it.tbl)
		for i, c := range cases {
			fmt.Fprintf(&o.sb, "  ⟨%s, %s, %s⟩%s\n", leanStr(c.l), leanStr(c.r), leanStr(c.act), sepOf(i, len(cases)))
		}
		o.sb.WriteString("]\n\n")
	}
	return nil
}

// kindTest: `a.IsContainer() && b.IsContainer()` -> ([a, container], [b, container]).
func kindTest(e ast.Expr) (l, r [2]string, ok bool) {
	be, isBin := e.(*ast.BinaryExpr)
	if !isBin || be.Op != token.LAND {
		return l, r, false
	}
	one := func(x ast.Expr) ([2]string, bool) {
		c, ok := x.(*ast.CallExpr)
		if !ok || len(c.Args) != 0 {
			return [2]string{}, false
		}
		s, ok := c.Fun.(*ast.SelectorExpr)
		if !ok {
			return [2]string{}, false
		}
		id, ok := s.X.(*ast.Ident)
		if !ok {
			return [2]string{}, false
		}
		switch s.Sel.Name {
		case "IsContainer":
			return [2]string{id.Name, "container"}, true
		case "IsList":
			return [2]string{id.Name, "list"}, true
		case "IsLeaf":
			return [2]string{id.Name, "leaf"}, true
		}
		return [2]string{}, false
	}
	l, ok1 := one(be.X)
	r, ok2 := one(be.Y)
	return l, r, ok1 && ok2
}

// mergeAction: the arm is a single statement whose value is `mg.mergeContainers(a.(Container), b.(Container))`,
// `mg.listMergeFn(a.(List), b.(List))` or `coalesce(a, b)` — with the LEFT variable first.
func mergeAction(body []ast.Stmt, recv, lv, rv string) (string, error) {
	if len(body) != 1 {
		return "", fmt.Errorf("arm is not a single statement")
	}
	var found []string
	bad := ""
	ast.Inspect(body[0], func(n ast.Node) bool {
		c, ok := n.(*ast.CallExpr)
		if !ok {
			return true
		}
		name := ""
		if s, ok := c.Fun.(*ast.SelectorExpr); ok && types.ExprString(s.X) == recv && (s.Sel.Name == "mergeContainers" || s.Sel.Name == "listMergeFn") {
			name = s.Sel.Name
		} else if id, ok := c.Fun.(*ast.Ident); ok && id.Name == "coalesce" {
			name = "coalesce"
		}
		if name == "" {
			return true
		}
		if len(c.Args) != 2 || baseIdent(c.Args[0]) != lv || baseIdent(c.Args[1]) != rv {
			bad = fmt.Sprintf("%s is not applied to (%s, %s) in this order", name, lv, rv)
		}
		found = append(found, name)
		return false
	})
	if bad != "" {
		return "", fmt.Errorf("%s", bad)
	}
	if len(found) != 1 {
		return "", fmt.Errorf("arm calls %v: not exactly one of mergeContainers / listMergeFn / coalesce", found)
	}
	return found[0], nil
}

func baseIdent(e ast.Expr) string {
	switch x := e.(type) {
	case *ast.Ident:
		return x.Name
	case *ast.TypeAssertExpr:
		return baseIdent(x.X)
	}
	return ""
}
