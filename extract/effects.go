package main

// effects extractor (C20): for every function and method of packages utils, dom, diff, patch a
// write-effect summary — the set of roots (receiver / parameter / package variable; each split
// into "the object itself" and "anything reachable from it") it may write through directly,
// and its call edges with the mapping from callee roots to caller roots.  The transitive closure
// is NOT computed here: Lean computes it (YtkModel/Effects.lean) and the theorems are about that.
//
// The analysis is a small flow-insensitive, field-insensitive points-to analysis per function
// (abstract objects: param objects, global objects, allocation sites) with per-function return
// summaries iterated to a fixpoint.  Conservative rules (part of the trusted base, DESIGN §7.4):
//   - writes through allocation sites of the function itself (composite literals, make, new,
//     local variables, fresh results of callees) are not effects on the caller's memory;
//   - interface method calls fan out to every implementation in the analysed packages;
//   - calls leaving the analysed packages: a short allow-list is write-free, a few (sort.*,
//     slices.Reverse, slices.Sort*) write the object their first argument refers to, everything
//     else writes everything reachable from every argument and an unknown global;
//   - a call of a function-typed PARAMETER (search predicate, visitor, encoder, mapping function) is a
//     caller-supplied callback: listed, assumed not to write (the property's own "read-only visitor");
//   - a call through a function-typed struct field fans out to every value assigned to that field
//     anywhere in the analysed packages — including, when the field is assigned from a parameter of an
//     option constructor (ListsMergeFunc(fn)), every named function the analysed packages pass to that
//     constructor (ListsMergeAppend passes mergeListsAppend);
//   - a call of a function value that can be enumerated syntactically (effects_fnvals.go) — a function literal, a
//     named function, the result of a package function that returns such values, a local variable only ever
//     assigned such values, an element of an unexported package-level variable with an enumerable initializer
//     that no file of the package assigns, appends to, stores into or takes the address of (effects_pkgvars.go)
//     — fans out to the enumerated functions; function literals are table entries of their own (`encl$N`;
//     variables they capture are memory their caller knows nothing about: the unknown global);
//   - a call of a function-typed value that came in through a parameter and whose type mentions an unexported
//     type of the analysed packages (dom.MergeOption = func(*merger)) can only be a function the analysed
//     packages themselves define: it fans out to every function literal / function of that type;
//   - any other dynamic call is conservative.

import (
	"fmt"
	"go/ast"
	"go/importer"
	"go/parser"
	"go/token"
	"go/types"
	"io/fs"
	"os"
	"path/filepath"
	"sort"
	"strings"
)

func init() { generators["Effects"] = genEffects }

var effPkgs = []string{"utils", "dom", "diff", "patch"}

const effModule = "github.com/rkosegi/yaml-toolkit/"

// read API (DESIGN §6 C20): interface of package dom -> method names.
var effReadAPI = [][2]string{
	{"Node", "IsContainer"}, {"Node", "IsList"}, {"Node", "IsLeaf"}, {"Node", "SameAs"}, {"Node", "Equals"}, {"Node", "Clone"},
	{"Leaf", "Value"},
	{"List", "Size"}, {"List", "Items"}, {"List", "AsSlice"},
	{"Container", "Children"}, {"Container", "Child"}, {"Container", "Lookup"}, {"Container", "Flatten"},
	{"Container", "AsMap"}, {"Container", "Search"}, {"Container", "Serialize"},
	{"OverlayDocument", "Lookup"}, {"OverlayDocument", "LookupAny"}, {"OverlayDocument", "Search"},
	{"OverlayDocument", "Merged"}, {"OverlayDocument", "Layers"}, {"OverlayDocument", "LayerNames"},
	{"OverlayDocument", "Walk"}, {"OverlayDocument", "Serialize"},
}

// methods outside the read interfaces that must not write either: ContainerBuilder.Merge builds a new container
// from its receiver and its argument (DESIGN §6 C20 exercises it next to OverlayDocument.Merged)
var effAuxAPI = [][2]string{{"ContainerBuilder", "Merge"}}

// read-only entry points of other packages, by full name
var effReadExtra = []string{"diff.Diff", "patch.(Path).Eval"}

// external calls assumed not to write through their arguments
func effPure(full string) bool {
	for _, p := range []string{"strings.", "strconv.", "math.", "errors.New", "fmt.Sprintf", "fmt.Sprint", "fmt.Errorf",
		"slices.Contains", "github.com/google/go-cmp/cmp.Equal",
		"(*regexp.Regexp).MatchString", "(*regexp.Regexp).FindStringIndex", "(*regexp.Regexp).String", "regexp.MustCompile",
		"(*strings.Builder).String", "(*strings.Builder).Len"} {
		if full == p || (strings.HasSuffix(p, ".") && strings.HasPrefix(full, p)) {
			return true
		}
	}
	return false
}

// external calls that write only the object their first argument refers to (not what it holds)
func effShallow(full string) bool {
	switch full {
	case "slices.Reverse", "slices.Sort", "slices.SortFunc", "slices.SortStableFunc", "sort.Strings", "sort.Ints", "sort.Slice", "sort.SliceStable",
		"(*strings.Builder).WriteString", "(*strings.Builder).WriteByte", "(*strings.Builder).WriteRune":
		return true
	}
	return false
}

// ---------------------------------------------------------------- abstract objects

type eobj struct {
	k byte // 'p' receiver/parameter slot i, 'g' package variable i, 'a' allocation site i
	i int
	d int8 // for p/g: 0 = the object itself (what the parameter refers to / the variable's storage), 1 = objects it
	// holds references to, 2 = anything deeper
}

const effMaxDepth = 2

type eset map[eobj]bool

func (s eset) addAll(t eset) bool {
	ch := false
	for o := range t {
		if !s[o] {
			s[o] = true
			ch = true
		}
	}
	return ch
}

type effEdge struct {
	callee *effFn
	lv     [][3]eset // per callee slot: what depth 0 / 1 / >=2 of the callee's parameter object is in the caller
}

type effSummary struct {
	retTop eset             // callee objects (p/g) the result may refer to; eobj{'a',0,0} = a fresh object
	fresh  eset             // callee objects (p/g) reachable from a fresh object that escapes (returned or stored)
	stores map[[2]eobj]bool // (holder, value): the callee may store a reference to value into holder (p/g objects; value may be fresh)
}

type effFn struct {
	name   string
	fn     *types.Func  // nil for a function literal
	lit    *ast.FuncLit // a function literal analysed as a function of its own (callee of resolved dynamic calls)
	body   *ast.BlockStmt
	ftype  *ast.FuncType
	info   *types.Info
	pkg    *types.Package
	slots  []*types.Var // receiver first (nil when there is none)
	writes eset
	edges  map[string]*effEdge
	cbs    map[string]bool // callbacks called: "slot:N"
	dyn    map[string]bool // conservative dynamic / external calls (informational)
	res    map[string]bool // dynamic calls resolved to enumerated functions (informational)
	sum    effSummary
}

type effWorld struct {
	fset     *token.FileSet
	fns      map[*types.Func]*effFn
	order    []*effFn
	globals  map[*types.Var]int
	gnames   []string
	named    []*types.Named             // concrete named types of the analysed packages
	fieldFns map[*types.Var][]effFieldV // func-typed struct field -> assigned values
	setters  []effSetter                // func-typed field assigned from a parameter of a function (an option constructor)
	pkgs     map[string]*types.Package
	lits     map[*ast.FuncLit]*effFn // every function literal of the analysed packages
	pkgVars  map[*types.Var]*effPkgVar
	varOrder []*effPkgVar
	params   map[*effFn]map[*types.Var]bool
	mvalSigs []types.Type // types of method values / method expressions used as values (not called) somewhere
}

type effFieldV struct {
	kind   string // "method" (bound to the holder of the field) | "func" | "callback" | "unknown"
	callee *types.Func
}

// effSetter: function fn stores its idx-th parameter into the function-typed field.
type effSetter struct {
	fn    *types.Func
	idx   int
	field *types.Var
}

const effUnknownGlobal = "<unknown>"

func (w *effWorld) global(v *types.Var) int {
	if i, ok := w.globals[v]; ok {
		return i
	}
	i := len(w.gnames)
	w.globals[v] = i
	n := v.Name()
	if v.Pkg() != nil {
		n = strings.TrimPrefix(v.Pkg().Path(), effModule) + "." + n
	}
	w.gnames = append(w.gnames, n)
	return i
}

type effImporter struct {
	w    *effWorld
	base types.ImporterFrom
}

func (im effImporter) Import(p string) (*types.Package, error) { return im.ImportFrom(p, "", 0) }
func (im effImporter) ImportFrom(p, dir string, m types.ImportMode) (*types.Package, error) {
	if pk, ok := im.w.pkgs[p]; ok {
		return pk, nil
	}
	return im.base.ImportFrom(p, dir, m)
}

func effFullName(f *types.Func) string {
	sig := f.Type().(*types.Signature)
	pk := ""
	if f.Pkg() != nil {
		pk = strings.TrimPrefix(f.Pkg().Path(), effModule)
	}
	if r := sig.Recv(); r != nil {
		t := r.Type()
		ptr := ""
		if p, ok := t.(*types.Pointer); ok {
			t, ptr = p.Elem(), "*"
		}
		tn := t.String()
		if n, ok := t.(*types.Named); ok {
			tn = n.Obj().Name()
			if n.Obj().Pkg() != nil {
				pk = strings.TrimPrefix(n.Obj().Pkg().Path(), effModule)
			}
		}
		if pk == "" {
			return fmt.Sprintf("(%s%s).%s", ptr, tn, f.Name())
		}
		if f.Pkg() != nil && !strings.HasPrefix(f.Pkg().Path(), effModule) {
			return fmt.Sprintf("(%s%s.%s).%s", ptr, pk, tn, f.Name())
		}
		return fmt.Sprintf("%s.(%s%s).%s", pk, ptr, tn, f.Name())
	}
	return pk + "." + f.Name()
}

func genEffects(repo string) (string, error) {
	repo, _ = filepath.Abs(repo)
	cwd, _ := os.Getwd()
	if err := os.Chdir(repo); err != nil {
		return "", err
	}
	defer os.Chdir(cwd)
	w := &effWorld{fset: token.NewFileSet(), fns: map[*types.Func]*effFn{}, globals: map[*types.Var]int{},
		fieldFns: map[*types.Var][]effFieldV{}, pkgs: map[string]*types.Package{}, lits: map[*ast.FuncLit]*effFn{},
		pkgVars: map[*types.Var]*effPkgVar{}, params: map[*effFn]map[*types.Var]bool{}}
	w.gnames = append(w.gnames, effUnknownGlobal) // global 0: anything an un-analysed callee may write
	base := importer.ForCompiler(w.fset, "source", nil).(types.ImporterFrom)
	type pkgData struct {
		files []*ast.File
		info  *types.Info
		pkg   *types.Package
	}
	var pds []pkgData
	for _, p := range effPkgs {
		parsed, err := parser.ParseDir(w.fset, filepath.Join(repo, p), func(fi fs.FileInfo) bool { return !strings.HasSuffix(fi.Name(), "_test.go") }, 0)
		if err != nil {
			return "", err
		}
		var files []*ast.File
		for _, pk := range parsed {
			names := make([]string, 0, len(pk.Files))
			for n := range pk.Files {
				names = append(names, n)
			}
			sort.Strings(names)
			for _, n := range names {
				files = append(files, pk.Files[n])
			}
		}
		info := &types.Info{Types: map[ast.Expr]types.TypeAndValue{}, Uses: map[*ast.Ident]types.Object{}, Defs: map[*ast.Ident]types.Object{},
			Selections: map[*ast.SelectorExpr]*types.Selection{}, Implicits: map[ast.Node]types.Object{},
			Instances: map[*ast.Ident]types.Instance{}}
		var terr error
		conf := types.Config{Importer: effImporter{w, base}, Error: func(err error) {
			if terr == nil {
				terr = err
			}
		}}
		pkg, _ := conf.Check(effModule+p, w.fset, files, info)
		if terr != nil {
			return "", fmt.Errorf("type-checking %s: %v", p, terr)
		}
		w.pkgs[effModule+p] = pkg
		pds = append(pds, pkgData{files, info, pkg})
		for _, n := range pkg.Scope().Names() {
			if tn, ok := pkg.Scope().Lookup(n).(*types.TypeName); ok {
				if named, ok := tn.Type().(*types.Named); ok && !types.IsInterface(named) {
					w.named = append(w.named, named)
				}
			}
		}
	}
	for _, pd := range pds {
		for _, f := range pd.files {
			for _, d := range f.Decls {
				fd, ok := d.(*ast.FuncDecl)
				if !ok || fd.Body == nil {
					continue
				}
				fn := pd.info.Defs[fd.Name].(*types.Func)
				ef := &effFn{name: effFullName(fn), fn: fn, body: fd.Body, ftype: fd.Type, info: pd.info, pkg: pd.pkg}
				sig := fn.Type().(*types.Signature)
				ef.slots = append(ef.slots, sig.Recv())
				for i := 0; i < sig.Params().Len(); i++ {
					ef.slots = append(ef.slots, sig.Params().At(i))
				}
				ef.sum = effSummary{retTop: eset{}, fresh: eset{}, stores: map[[2]eobj]bool{}}
				w.fns[fn] = ef
				w.order = append(w.order, ef)
			}
		}
	}
	// function literals: table entries of their own, named after the enclosing declaration
	for _, pd := range pds {
		for _, f := range pd.files {
			for _, d := range f.Decls {
				w.collectLits(d, pd.info, pd.pkg)
			}
		}
	}
	// package-level variables: declaration, initializer, syntactic writers (effects_pkgvars.go)
	for _, pd := range pds {
		w.registerPkgVars(pd.files, pd.info, pd.pkg)
	}
	for _, pd := range pds {
		w.scanPkgVarWrites(pd.files, pd.info)
		w.collectMethodValues(pd.files, pd.info)
	}
	sort.Slice(w.order, func(i, j int) bool { return w.order[i].name < w.order[j].name })
	for i := 1; i < len(w.order); i++ {
		if w.order[i].name == w.order[i-1].name {
			return "", fmt.Errorf("duplicate function name %s", w.order[i].name)
		}
	}
	// values assigned to function-typed struct fields
	for _, pd := range pds {
		w.collectFieldFuncs(pd.files, pd.info)
	}
	for _, pd := range pds {
		w.collectSetterArgs(pd.files, pd.info)
	}
	// global fixpoint over return summaries
	for round := 0; ; round++ {
		if round > 50 {
			return "", fmt.Errorf("effects: summaries do not stabilise")
		}
		changed := false
		for _, ef := range w.order {
			if w.analyse(ef) {
				changed = true
			}
		}
		if !changed {
			break
		}
	}
	return w.render()
}

func (w *effWorld) collectFieldFuncs(files []*ast.File, info *types.Info) {
	record := func(field *types.Var, lhsBase ast.Expr, rhs ast.Expr, encl *ast.FuncDecl) {
		if _, ok := field.Type().Underlying().(*types.Signature); !ok {
			return
		}
		v := effFieldV{kind: "unknown"}
		switch r := ast.Unparen(rhs).(type) {
		case *ast.Ident:
			switch o := info.Uses[r].(type) {
			case *types.Func:
				v = effFieldV{"func", o}
			case *types.Var:
				// a function-typed parameter of the enclosing function (or of an enclosing closure's function): caller-supplied
				if encl != nil && o.Parent() != nil && o.Pkg() != nil && o.Parent() != o.Pkg().Scope() && !o.IsField() {
					if effIsParamOf(info, encl, o) {
						v = effFieldV{"callback", nil}
						// the value is whatever the callers of encl pass: besides the caller-supplied
						// (outside) case, every function the analysed packages themselves pass is a
						// possible value of the field (resolved in collectSetterArgs)
						if fn, ok := info.Defs[encl.Name].(*types.Func); ok {
							sig := fn.Type().(*types.Signature)
							for i := 0; i < sig.Params().Len(); i++ {
								if sig.Params().At(i) == o && !(sig.Variadic() && i == sig.Params().Len()-1) {
									w.setters = append(w.setters, effSetter{fn, i, field})
								}
							}
						}
					}
				}
			}
		case *ast.SelectorExpr:
			if sel := info.Selections[r]; sel != nil && sel.Kind() == types.MethodVal {
				lb, ok1 := ast.Unparen(lhsBase).(*ast.Ident)
				rb, ok2 := ast.Unparen(r.X).(*ast.Ident)
				if ok1 && ok2 && info.Uses[lb] == info.Uses[rb] && info.Uses[lb] != nil {
					v = effFieldV{"method", sel.Obj().(*types.Func)}
				}
			} else if f, ok := info.Uses[r.Sel].(*types.Func); ok {
				v = effFieldV{"func", f}
			}
		}
		w.fieldFns[field] = append(w.fieldFns[field], v)
	}
	for _, f := range files {
		for _, d := range f.Decls {
			encl, _ := d.(*ast.FuncDecl)
			ast.Inspect(d, func(n ast.Node) bool {
				switch x := n.(type) {
				case *ast.AssignStmt:
					if len(x.Lhs) == len(x.Rhs) {
						for i, l := range x.Lhs {
							if se, ok := ast.Unparen(l).(*ast.SelectorExpr); ok {
								if sel := info.Selections[se]; sel != nil && sel.Kind() == types.FieldVal {
									record(sel.Obj().(*types.Var), se.X, x.Rhs[i], encl)
								}
							}
						}
					}
				case *ast.CompositeLit:
					for _, el := range x.Elts {
						if kv, ok := el.(*ast.KeyValueExpr); ok {
							if id, ok := kv.Key.(*ast.Ident); ok {
								if fv, ok := info.Uses[id].(*types.Var); ok && fv.IsField() {
									record(fv, nil, kv.Value, encl)
								}
							}
						} else if tv, ok := info.Types[x]; ok {
							if st, ok := tv.Type.Underlying().(*types.Struct); ok {
								for i := 0; i < st.NumFields(); i++ {
									if _, isFn := st.Field(i).Type().Underlying().(*types.Signature); isFn {
										w.fieldFns[st.Field(i)] = append(w.fieldFns[st.Field(i)], effFieldV{kind: "unknown"})
									}
								}
							}
						}
					}
				}
				return true
			})
		}
	}
}

// collectSetterArgs: for every call, inside the analysed packages, of a function that stores a
// parameter into a function-typed field (dom.ListsMergeFunc(fn) -> merger.listMergeFn), a named
// function passed for that parameter becomes a possible value of the field, so a call through
// the field fans out to it (in addition to the caller-supplied callback case).
func (w *effWorld) collectSetterArgs(files []*ast.File, info *types.Info) {
	if len(w.setters) == 0 {
		return
	}
	funcOf := func(e ast.Expr) *types.Func {
		switch x := ast.Unparen(e).(type) {
		case *ast.Ident:
			f, _ := info.Uses[x].(*types.Func)
			return f
		case *ast.SelectorExpr:
			if sel := info.Selections[x]; sel != nil {
				return nil // method value: bound receiver, not resolved here
			}
			f, _ := info.Uses[x.Sel].(*types.Func)
			return f
		}
		return nil
	}
	for _, f := range files {
		ast.Inspect(f, func(n ast.Node) bool {
			call, ok := n.(*ast.CallExpr)
			if !ok {
				return true
			}
			callee := funcOf(call.Fun)
			if callee == nil {
				return true
			}
			callee = callee.Origin()
			for _, st := range w.setters {
				if st.fn != callee || st.idx >= len(call.Args) {
					continue
				}
				arg := funcOf(call.Args[st.idx])
				if arg == nil {
					continue
				}
				dup := false
				for _, v := range w.fieldFns[st.field] {
					dup = dup || (v.kind == "func" && v.callee == arg)
				}
				if !dup {
					w.fieldFns[st.field] = append(w.fieldFns[st.field], effFieldV{"func", arg})
				}
			}
			return true
		})
	}
}

func effIsParamOf(info *types.Info, fd *ast.FuncDecl, v *types.Var) bool {
	found := false
	check := func(fl *ast.FieldList) {
		if fl == nil {
			return
		}
		for _, f := range fl.List {
			for _, n := range f.Names {
				if info.Defs[n] == v {
					found = true
				}
			}
		}
	}
	check(fd.Type.Params)
	return found
}

// ---------------------------------------------------------------- per-function analysis

type effA struct {
	w        *effWorld
	f        *effFn
	contents map[eobj]eset
	varObj   map[*types.Var]eobj
	sites    map[ast.Node]eobj
	nalloc   int
	slotOf   map[*types.Var]int
	cbParams map[*types.Var]int // function-typed parameters (of the function itself)
	litParam map[*types.Var]bool
	ret      eset
	escaped  eset // own allocation sites stored into caller-visible objects
	changed  bool
	allRoots eset
}

func refLike(t types.Type) bool {
	switch t.Underlying().(type) {
	case *types.Pointer, *types.Map, *types.Slice, *types.Chan, *types.Signature, *types.Interface:
		return true
	}
	return false
}

func structLike(t types.Type) bool {
	switch t.Underlying().(type) {
	case *types.Struct, *types.Array:
		return true
	}
	return false
}

func (a *effA) cont(o eobj) eset {
	c, ok := a.contents[o]
	if !ok {
		c = eset{}
		if o.k == 'p' || o.k == 'g' {
			d := o.d + 1
			if d > effMaxDepth {
				d = effMaxDepth
			}
			c[eobj{o.k, o.i, d}] = true
		}
		a.contents[o] = c
	}
	return c
}

func (a *effA) contOf(s eset) eset {
	r := eset{}
	for o := range s {
		r.addAll(a.cont(o))
	}
	return r
}

// reach: everything reachable from the objects of s through contents (excluding s itself unless reachable)
func (a *effA) reach(s eset) eset {
	r := eset{}
	work := []eobj{}
	for o := range s {
		work = append(work, o)
	}
	for len(work) > 0 {
		o := work[len(work)-1]
		work = work[:len(work)-1]
		for c := range a.cont(o) {
			if !r[c] {
				r[c] = true
				work = append(work, c)
			}
		}
	}
	return r
}

func (a *effA) store(holders, val eset) {
	for h := range holders {
		if a.cont(h).addAll(val) {
			a.changed = true
		}
		if h.k == 'a' {
			continue
		}
		// visible to the caller: part of the summary
		for v := range val {
			if v.k == 'a' {
				a.escaped[v] = true
				v = eobj{'a', 0, 0}
			}
			a.f.sum.stores[[2]eobj{h, v}] = true
		}
	}
}

func (a *effA) write(holders eset) {
	for h := range holders {
		if !a.f.writes[h] {
			a.f.writes[h] = true
			a.changed = true
		}
	}
}

func (a *effA) site(n ast.Node) eobj {
	if o, ok := a.sites[n]; ok {
		return o
	}
	a.nalloc++
	o := eobj{'a', a.nalloc, 0}
	a.sites[n] = o
	return o
}

// storage object of a variable
func (a *effA) storage(v *types.Var) eobj {
	if o, ok := a.varObj[v]; ok {
		return o
	}
	var o eobj
	if v.Pkg() != nil && v.Parent() == v.Pkg().Scope() {
		o = eobj{'g', a.w.global(v), 0}
	} else if a.f.lit != nil && !v.IsField() && (v.Pos() < a.f.lit.Pos() || v.Pos() >= a.f.lit.End()) {
		// a variable the literal captures from its enclosing function: memory the caller of the literal knows
		// nothing about — the unknown global (a write to it or through it is charged as a global write)
		o = eobj{'g', 0, 0}
	} else {
		a.nalloc++
		o = eobj{'a', a.nalloc, 0}
		init := eset{}
		if s, ok := a.slotOf[v]; ok {
			if structLike(v.Type()) {
				init[eobj{'p', s, 1}] = true // a copy of the caller's struct: holds the same references
			} else if refLike(v.Type()) {
				init[eobj{'p', s, 0}] = true
			}
		} else if a.litParam[v] {
			init.addAll(a.allRoots)
		}
		a.contents[o] = init
	}
	a.varObj[v] = o
	return o
}

// val: what a value of expression e refers to (reference-like) or is stored in (struct-like)
func (a *effA) val(e ast.Expr) eset {
	tv, ok := a.f.info.Types[e]
	_, isTuple := tv.Type.(*types.Tuple)
	if ok && tv.Type != nil && !isTuple && !refLike(tv.Type) && !structLike(tv.Type) {
		// basic types carry no references; still evaluate calls inside for their effects
		if c, isCall := ast.Unparen(e).(*ast.CallExpr); isCall {
			a.call(c)
		}
		return eset{}
	}
	switch x := e.(type) {
	case *ast.ParenExpr:
		return a.val(x.X)
	case *ast.Ident:
		obj := a.f.info.Uses[x]
		if obj == nil {
			obj = a.f.info.Defs[x]
		}
		if v, ok := obj.(*types.Var); ok {
			st := a.storage(v)
			if structLike(v.Type()) {
				return eset{st: true}
			}
			r := eset{}
			r.addAll(a.cont(st))
			return r
		}
		return eset{}
	case *ast.SelectorExpr:
		if sel := a.f.info.Selections[x]; sel != nil {
			if sel.Kind() != types.FieldVal {
				return eset{}
			}
			h := a.holders(x)
			if structLike(sel.Type()) {
				return h
			}
			return a.contOf(h)
		}
		// qualified identifier
		if v, ok := a.f.info.Uses[x.Sel].(*types.Var); ok {
			if _, mine := a.w.pkgs[v.Pkg().Path()]; mine {
				st := a.storage(v)
				if structLike(v.Type()) {
					return eset{st: true}
				}
				r := eset{}
				r.addAll(a.cont(st))
				return r
			}
			return eset{eobj{'g', 0, 1}: true}
		}
		return eset{}
	case *ast.IndexExpr:
		if tv, ok := a.f.info.Types[x.X]; ok {
			if _, isSig := tv.Type.Underlying().(*types.Signature); isSig {
				return eset{} // generic instantiation
			}
		}
		h := a.val(x.X)
		if t, ok := a.f.info.Types[e]; ok && structLike(t.Type) {
			return h
		}
		return a.contOf(h)
	case *ast.StarExpr:
		h := a.val(x.X)
		if t, ok := a.f.info.Types[e]; ok && structLike(t.Type) {
			return h
		}
		return a.contOf(h)
	case *ast.SliceExpr:
		return a.val(x.X)
	case *ast.TypeAssertExpr:
		return a.val(x.X)
	case *ast.UnaryExpr:
		if x.Op == token.AND {
			return a.addr(x.X)
		}
		if x.Op == token.ARROW {
			return a.contOf(a.val(x.X))
		}
		return eset{}
	case *ast.CompositeLit:
		o := a.site(x)
		for _, el := range x.Elts {
			ev := el
			if kv, ok := el.(*ast.KeyValueExpr); ok {
				ev = kv.Value
				a.store(eset{o: true}, a.rvalue(kv.Key))
			}
			a.store(eset{o: true}, a.rvalue(ev))
		}
		return eset{o: true}
	case *ast.CallExpr:
		return a.call(x)
	case *ast.FuncLit:
		return eset{}
	}
	return eset{}
}

// rvalue: the references a value carries when it is stored somewhere (struct values are copied: their contents)
func (a *effA) rvalue(e ast.Expr) eset {
	if tv, ok := a.f.info.Types[e]; ok && tv.Type != nil && structLike(tv.Type) {
		return a.contOf(a.val(e))
	}
	return a.val(e)
}

// holders: the objects in which the storage designated by the addressable expression e lives
func (a *effA) holders(e ast.Expr) eset {
	switch x := e.(type) {
	case *ast.ParenExpr:
		return a.holders(x.X)
	case *ast.Ident:
		obj := a.f.info.Uses[x]
		if obj == nil {
			obj = a.f.info.Defs[x]
		}
		if v, ok := obj.(*types.Var); ok {
			return eset{a.storage(v): true}
		}
		return eset{}
	case *ast.SelectorExpr:
		sel := a.f.info.Selections[x]
		if sel == nil {
			if v, ok := a.f.info.Uses[x.Sel].(*types.Var); ok {
				if _, mine := a.w.pkgs[v.Pkg().Path()]; mine {
					return eset{a.storage(v): true}
				}
				return eset{eobj{'g', 0, 0}: true}
			}
			return eset{}
		}
		h := a.val(x.X)
		// promoted through embedded pointer fields: the holder is further down
		t := a.f.info.Types[x.X].Type
		idx := sel.Index()
		for i := 0; i < len(idx)-1; i++ {
			if p, ok := t.Underlying().(*types.Pointer); ok {
				t = p.Elem()
			}
			st, ok := t.Underlying().(*types.Struct)
			if !ok {
				break
			}
			ft := st.Field(idx[i]).Type()
			if _, isPtr := ft.Underlying().(*types.Pointer); isPtr {
				h.addAll(a.reach(h))
				break
			}
			t = ft
		}
		return h
	case *ast.IndexExpr:
		return a.val(x.X)
	case *ast.StarExpr:
		return a.val(x.X)
	case *ast.SliceExpr:
		return a.val(x.X)
	}
	return a.val(e)
}

func (a *effA) addr(e ast.Expr) eset {
	if cl, ok := ast.Unparen(e).(*ast.CompositeLit); ok {
		return a.val(cl)
	}
	return a.holders(e)
}

func (a *effA) assign(lhs ast.Expr, v eset) {
	lhs = ast.Unparen(lhs)
	if id, ok := lhs.(*ast.Ident); ok {
		if id.Name == "_" {
			return
		}
		obj := a.f.info.Defs[id]
		if obj == nil {
			obj = a.f.info.Uses[id]
		}
		vr, ok := obj.(*types.Var)
		if !ok {
			return
		}
		if !refLike(vr.Type()) && !structLike(vr.Type()) {
			if st := a.storage(vr); st.k == 'g' {
				a.write(eset{st: true})
			}
			return
		}
		st := a.storage(vr)
		if st.k == 'g' {
			a.write(eset{st: true})
		}
		a.store(eset{st: true}, v)
		return
	}
	h := a.holders(lhs)
	a.write(h)
	a.store(h, v)
}

func (a *effA) calleeName(f *types.Func) string {
	sig := f.Type().(*types.Signature)
	if sig.Recv() != nil {
		return effFullName(f)
	}
	if f.Pkg() == nil {
		return f.Name()
	}
	return f.Pkg().Path() + "." + f.Name()
}

// conservative: writes everything reachable from the arguments and an unknown global
func (a *effA) conservative(args []eset, what string) eset {
	all := eset{}
	for _, s := range args {
		all.addAll(s)
	}
	all.addAll(a.reach(all))
	a.write(all)
	a.write(eset{eobj{'g', 0, 0}: true})
	all[eobj{'g', 0, 1}] = true
	a.store(all, all)
	a.f.dyn[what] = true
	return all
}

func (a *effA) argVals(call *ast.CallExpr, sig *types.Signature, recv ast.Expr) []eset {
	var out []eset
	if recv != nil {
		rv := a.val(recv)
		// a method with pointer receiver called on an addressable struct value: &x
		if tv, ok := a.f.info.Types[recv]; ok && structLike(tv.Type) {
			rv = a.holders(recv)
		}
		out = append(out, rv)
	} else {
		out = append(out, eset{})
	}
	np := 0
	if sig != nil {
		np = sig.Params().Len()
	}
	for i, arg := range call.Args {
		if sig != nil && sig.Variadic() && i >= np-1 && !call.Ellipsis.IsValid() {
			// packed into a fresh slice
			for len(out) < np+1 {
				o := a.site(call)
				out = append(out, eset{o: true})
			}
			a.store(out[np], a.rvalue(arg))
			continue
		}
		if tv, ok := a.f.info.Types[arg]; ok && tv.Type != nil && structLike(tv.Type) {
			// struct passed by value: the callee sees a copy holding the same references
			o := a.site(arg)
			a.store(eset{o: true}, a.contOf(a.val(arg)))
			out = append(out, eset{o: true})
			continue
		}
		out = append(out, a.val(arg))
	}
	for sig != nil && len(out) < np+1 {
		out = append(out, eset{})
	}
	return out
}

func (a *effA) staticCall(call *ast.CallExpr, callee *types.Func, args []eset) eset {
	ef := a.w.fns[callee]
	if ef == nil {
		return a.conservative(args, "no-body:"+effFullName(callee))
	}
	return a.staticCallFn(call, ef, args)
}

func (a *effA) staticCallFn(call *ast.CallExpr, ef *effFn, args []eset) eset {
	key := fmt.Sprintf("%d:%s", a.w.fset.Position(call.Pos()).Offset, ef.name)
	ed := a.f.edges[key]
	if ed == nil {
		ed = &effEdge{callee: ef}
		a.f.edges[key] = ed
	}
	n := len(ef.slots)
	ed.lv = make([][3]eset, n)
	for i := 0; i < n; i++ {
		t := eset{}
		if i < len(args) {
			t = args[i]
		}
		d1 := a.contOf(t)
		d2 := a.contOf(d1)
		d2.addAll(a.reach(d2))
		ed.lv[i] = [3]eset{t, d1, d2}
	}
	fresh := a.site(call.Fun)
	mapObj := func(o eobj) eset {
		switch o.k {
		case 'p':
			return ed.lv[o.i][o.d]
		case 'g':
			return eset{o: true}
		}
		return eset{fresh: true} // a fresh object of the callee
	}
	// fresh objects of the callee that escape to us: one allocation site, holding what they may hold
	fc := eset{fresh: true}
	for c := range ef.sum.fresh {
		fc.addAll(mapObj(c))
	}
	if len(ef.sum.fresh) > 0 || ef.sum.retTop[eobj{'a', 0, 0}] {
		a.store(eset{fresh: true}, fc)
	}
	// what the callee stores into objects we can see
	for pr := range ef.sum.stores {
		a.store(mapObj(pr[0]), mapObj(pr[1]))
	}
	res := eset{}
	for o := range ef.sum.retTop {
		res.addAll(mapObj(o))
	}
	return res
}

func (a *effA) implementations(iface *types.Interface, name string) []*types.Func {
	var out []*types.Func
	seen := map[*types.Func]bool{}
	for _, nt := range a.w.named {
		for _, t := range []types.Type{nt, types.NewPointer(nt)} {
			if !types.Implements(t, iface) {
				continue
			}
			obj, _, _ := types.LookupFieldOrMethod(t, true, nt.Obj().Pkg(), name)
			if f, ok := obj.(*types.Func); ok && !seen[f] {
				seen[f] = true
				out = append(out, f)
			}
		}
	}
	return out
}

func (a *effA) call(call *ast.CallExpr) eset {
	info := a.f.info
	fun := ast.Unparen(call.Fun)
	// conversion
	if tv, ok := info.Types[fun]; ok && tv.IsType() {
		if len(call.Args) == 1 {
			return a.val(call.Args[0])
		}
		return eset{}
	}
	// builtins
	if id, ok := fun.(*ast.Ident); ok {
		if b, ok := info.Uses[id].(*types.Builtin); ok {
			switch b.Name() {
			case "append":
				s := a.val(call.Args[0])
				a.write(s) // may write into spare capacity of the existing backing array
				res := eset{a.site(call): true}
				res.addAll(s)
				for i, x := range call.Args[1:] {
					v := a.rvalue(x)
					if call.Ellipsis.IsValid() && i == len(call.Args)-2 {
						v = a.contOf(a.val(x))
					}
					a.store(res, v)
				}
				return res
			case "copy":
				d := a.val(call.Args[0])
				a.write(d)
				a.store(d, a.contOf(a.val(call.Args[1])))
			case "delete", "clear", "close":
				a.write(a.val(call.Args[0]))
			case "make", "new":
				return eset{a.site(call): true}
			default:
				for _, x := range call.Args {
					a.val(x)
				}
			}
			return eset{}
		}
	}
	// method or function
	var callee *types.Func
	var recv ast.Expr
	switch f := fun.(type) {
	case *ast.Ident:
		callee, _ = info.Uses[f].(*types.Func)
	case *ast.SelectorExpr:
		if sel := info.Selections[f]; sel != nil {
			if sel.Kind() == types.MethodVal {
				callee, _ = sel.Obj().(*types.Func)
				recv = f.X
			}
		} else {
			callee, _ = info.Uses[f.Sel].(*types.Func)
		}
	case *ast.IndexExpr: // generic function instantiation
		if id, ok := ast.Unparen(f.X).(*ast.Ident); ok {
			callee, _ = info.Uses[id].(*types.Func)
		} else if se, ok := ast.Unparen(f.X).(*ast.SelectorExpr); ok {
			callee, _ = info.Uses[se.Sel].(*types.Func)
		}
	}
	if callee != nil {
		callee = callee.Origin()
		sig := callee.Type().(*types.Signature)
		args := a.argVals(call, sig, recv)
		if recv != nil {
			_, mineIface := a.w.pkgs[pkgPath(callee)]
			if it, ok := info.Types[recv].Type.Underlying().(*types.Interface); ok && mineIface {
				impls := a.implementations(it, callee.Name())
				if len(impls) == 0 {
					return a.conservative(args, "iface-no-impl:"+effFullName(callee))
				}
				res := eset{}
				for _, im := range impls {
					res.addAll(a.staticCall(call, im, args))
				}
				return res
			}
		}
		if _, mine := a.w.fns[callee]; mine {
			return a.staticCall(call, callee, args)
		}
		full := a.calleeName(callee)
		all := eset{}
		for _, s := range args {
			all.addAll(s)
		}
		if effPure(full) {
			r := eset{}
			r.addAll(all)
			r.addAll(a.reach(all))
			return r
		}
		if effShallow(full) {
			first := args[0]
			if recv == nil && len(args) > 1 {
				first = args[1]
			}
			a.write(first)
			a.f.dyn["shallow:"+full] = true
			return eset{}
		}
		return a.conservative(args, "external:"+full)
	}
	// dynamic call of a function value
	sig, _ := info.Types[fun].Type.Underlying().(*types.Signature)
	args := a.argVals(call, sig, nil)
	all := eset{}
	for _, s := range args {
		all.addAll(s)
	}
	all.addAll(a.reach(all))
	// the possible values of the function expression can be enumerated syntactically
	if tg, how, ok := a.w.fnVals(fvCtx{info, a.f}, fun, 0); ok {
		return a.fanOut(call, tg, args, exprStr(a.w.fset, fun)+" = "+how)
	}
	if _, isSel := fun.(*ast.SelectorExpr); !isSel {
		// a function value that can only have come in through a parameter (the parameter itself, an
		// element of a parameter slice of functions): caller-supplied callback, assumed not to write
		fv := a.val(fun)
		fromParam := len(fv) > 0
		for o := range fv {
			if o.k != 'p' {
				fromParam = false
			}
		}
		if fromParam {
			// … unless no other package can write a function of that type: then it is one of ours
			if tg, how, ok := a.w.closedWorld(info.Types[fun].Type); ok {
				return a.fanOut(call, tg, args, exprStr(a.w.fset, fun)+" = "+how)
			}
			for o := range fv {
				a.f.cbs[fmt.Sprintf("%d", o.i)] = true
			}
			return all
		}
	}
	switch f := fun.(type) {
	case *ast.SelectorExpr:
		if sel := info.Selections[f]; sel != nil && sel.Kind() == types.FieldVal {
			vals := a.w.fieldFns[sel.Obj().(*types.Var)]
			ok := len(vals) > 0
			for _, v := range vals {
				ok = ok && v.kind != "unknown"
			}
			if ok {
				res := eset{}
				res.addAll(all)
				for _, v := range vals {
					switch v.kind {
					case "callback":
						a.f.cbs["field:"+sel.Obj().Name()] = true
					case "func":
						res.addAll(a.staticCall(call, v.callee.Origin(), args))
					case "method":
						margs := append([]eset{a.val(f.X)}, args[1:]...)
						res.addAll(a.staticCall(call, v.callee.Origin(), margs))
					}
				}
				return res
			}
		}
	}
	return a.conservative(args, "dynamic:"+exprStr(a.w.fset, fun))
}

// fanOut: a dynamic call whose possible callees were enumerated: like a static call of each of them.
func (a *effA) fanOut(call *ast.CallExpr, targets []*effFn, args []eset, what string) eset {
	res := eset{}
	names := make([]string, len(targets))
	for i, t := range targets {
		names[i] = t.name
		res.addAll(a.staticCallFn(call, t, args))
	}
	a.f.res[what+" -> ["+strings.Join(names, ", ")+"]"] = true
	return res
}

func pkgPath(f *types.Func) string {
	if f.Pkg() == nil {
		return ""
	}
	return f.Pkg().Path()
}

func (w *effWorld) analyse(ef *effFn) bool {
	a := &effA{w: w, f: ef, contents: map[eobj]eset{}, varObj: map[*types.Var]eobj{}, sites: map[ast.Node]eobj{},
		slotOf: map[*types.Var]int{}, cbParams: map[*types.Var]int{}, litParam: map[*types.Var]bool{}, ret: eset{}, allRoots: eset{}, escaped: eset{}}
	oldW, oldE := len(ef.writes), len(ef.edges)
	oldSum := fmt.Sprint(len(ef.sum.retTop), len(ef.sum.fresh), len(ef.sum.stores))
	oldEdges := ef.edgeSig()
	ef.writes, ef.edges, ef.cbs, ef.dyn, ef.res = eset{}, map[string]*effEdge{}, map[string]bool{}, map[string]bool{}, map[string]bool{}
	for i, v := range ef.slots {
		if v == nil {
			continue
		}
		a.slotOf[v] = i
		for d := int8(0); d <= effMaxDepth; d++ {
			a.allRoots[eobj{'p', i, d}] = true
		}
		if _, isFn := v.Type().Underlying().(*types.Signature); isFn {
			a.cbParams[v] = i
		}
	}
	a.allRoots[eobj{'g', 0, 1}] = true
	// named results and closure parameters
	ast.Inspect(ef.body, func(n ast.Node) bool {
		if fl, ok := n.(*ast.FuncLit); ok {
			for _, f := range fl.Type.Params.List {
				for _, nm := range f.Names {
					if v, ok := ef.info.Defs[nm].(*types.Var); ok {
						a.litParam[v] = true
					}
				}
			}
		}
		return true
	})
	var named []*types.Var
	if ef.ftype.Results != nil {
		for _, f := range ef.ftype.Results.List {
			for _, nm := range f.Names {
				if v, ok := ef.info.Defs[nm].(*types.Var); ok {
					named = append(named, v)
				}
			}
		}
	}
	for iter := 0; iter < 100; iter++ {
		a.changed = false
		before := len(a.ret)
		ast.Inspect(ef.body, func(n ast.Node) bool {
			switch x := n.(type) {
			case *ast.AssignStmt:
				if len(x.Lhs) == len(x.Rhs) {
					for i := range x.Lhs {
						a.assign(x.Lhs[i], a.rvalue(x.Rhs[i]))
					}
				} else if len(x.Rhs) == 1 {
					v := a.rvalue(x.Rhs[0])
					for _, l := range x.Lhs {
						a.assign(l, v)
					}
				}
			case *ast.IncDecStmt:
				if _, isId := ast.Unparen(x.X).(*ast.Ident); !isId {
					a.write(a.holders(x.X))
				} else {
					a.assign(x.X, eset{})
				}
			case *ast.ValueSpec:
				for i, nm := range x.Names {
					if i < len(x.Values) {
						a.assign(nm, a.rvalue(x.Values[i]))
					} else if len(x.Values) == 1 {
						a.assign(nm, a.rvalue(x.Values[0]))
					}
				}
			case *ast.RangeStmt:
				src := a.val(x.X)
				inner := a.contOf(src)
				if tv, ok := ef.info.Types[x.X]; ok {
					if _, isSig := tv.Type.Underlying().(*types.Signature); isSig {
						inner = a.conservative([]eset{src}, "range-over-func")
					}
				}
				if x.Key != nil {
					a.assign(x.Key, inner)
				}
				if x.Value != nil {
					a.assign(x.Value, inner)
				}
			case *ast.ReturnStmt:
				for _, r := range x.Results {
					a.ret.addAll(a.val(r))
				}
				if len(x.Results) == 0 {
					for _, v := range named {
						a.ret.addAll(a.cont(a.storage(v)))
					}
				}
			case *ast.SendStmt:
				h := a.val(x.Chan)
				a.write(h)
				a.store(h, a.rvalue(x.Value))
			case *ast.TypeSwitchStmt:
				if as, ok := x.Assign.(*ast.AssignStmt); ok && len(as.Rhs) == 1 {
					v := a.val(as.Rhs[0])
					for _, cl := range x.Body.List {
						if o, ok := ef.info.Implicits[cl].(*types.Var); ok {
							a.store(eset{a.storage(o): true}, v)
						}
					}
				}
			case *ast.CallExpr:
				a.call(x)
			case *ast.GoStmt:
				a.call(x.Call)
			case *ast.DeferStmt:
				a.call(x.Call)
			}
			return true
		})
		if !a.changed && len(a.ret) == before {
			break
		}
	}
	// return summary
	for o := range a.ret {
		if o.k == 'a' {
			ef.sum.retTop[eobj{'a', 0, 0}] = true
			a.escaped[o] = true
		} else {
			ef.sum.retTop[o] = true
		}
	}
	for c := range a.reach(a.escaped) {
		if c.k != 'a' {
			ef.sum.fresh[c] = true
		}
	}
	newSum := fmt.Sprint(len(ef.sum.retTop), len(ef.sum.fresh), len(ef.sum.stores))
	return newSum != oldSum || len(ef.writes) != oldW || len(ef.edges) != oldE || ef.edgeSig() != oldEdges
}

func (ef *effFn) edgeSig() string {
	n := 0
	for _, e := range ef.edges {
		for i := range e.lv {
			n += len(e.lv[i][0]) + len(e.lv[i][1]) + len(e.lv[i][2])
		}
	}
	return fmt.Sprint(n)
}

// ---------------------------------------------------------------- output

func effRoot(o eobj) (int, bool) {
	switch o.k {
	case 'p':
		return 3*o.i + int(o.d), true
	case 'g':
		return 1000 + 3*o.i + int(o.d), true
	}
	return 0, false
}

func effRoots(s eset) []int {
	var out []int
	for o := range s {
		if r, ok := effRoot(o); ok {
			out = append(out, r)
		}
	}
	sort.Ints(out)
	return out
}

func leanNats(xs []int) string {
	parts := make([]string, len(xs))
	for i, x := range xs {
		parts[i] = fmt.Sprint(x)
	}
	return "[" + strings.Join(parts, ", ") + "]"
}

func (w *effWorld) render() (string, error) {
	index := map[*effFn]int{}
	for i, ef := range w.order {
		index[ef] = i
	}
	var sb strings.Builder
	sb.WriteString("/- GENERATED by /verif/extract (effects) from /repo/{utils,dom,diff,patch} — do not edit.\n")
	sb.WriteString("   Roots: 3*slot+d — slot 0 = receiver, slot i = i-th parameter; d = 0 the object it refers to, 1 = the objects\n")
	sb.WriteString("   that one holds references to, 2 = anything deeper; 1000+3*g+d the same for package variable g (`globalNames`;\n")
	sb.WriteString("   global 0 = memory the analysis knows nothing about: what an unknown callee may write, what a literal captures).\n")
	sb.WriteString("   `encl$N` is the N-th function literal of declaration `encl`, analysed as a function of its own (it is the\n")
	sb.WriteString("   callee of dynamic calls the extractor resolved — `resolvedCalls`); `pkgVars`: package-level variables and\n")
	sb.WriteString("   their syntactic writers. -/\n")
	sb.WriteString("import YtkModel.EffectTypes\n\nnamespace Ytk.Generated\nopen Ytk.EffectT\n\n")
	sb.WriteString("def globalNames : List String := [")
	for i, g := range w.gnames {
		if i > 0 {
			sb.WriteString(", ")
		}
		sb.WriteString(leanStr(g))
	}
	sb.WriteString("]\n\n")
	sb.WriteString("def effectTable : List FnSummary := [\n")
	for i, ef := range w.order {
		fmt.Fprintf(&sb, "  -- %d\n  { name := %s, slots := %d, writes := %s,\n    calls := [", i, leanStr(ef.name), len(ef.slots), leanNats(effRoots(ef.writes)))
		keys := make([]string, 0, len(ef.edges))
		for k := range ef.edges {
			keys = append(keys, k)
		}
		sort.Slice(keys, func(x, y int) bool {
			var ox, oy int
			fmt.Sscanf(keys[x], "%d:", &ox)
			fmt.Sscanf(keys[y], "%d:", &oy)
			if ox != oy {
				return ox < oy
			}
			return keys[x] < keys[y]
		})
		seen := map[string]bool{}
		first := true
		for _, k := range keys {
			ed := ef.edges[k]
			var maps []string
			for s := range ed.lv {
				for d := 0; d < 3; d++ {
					if r := effRoots(ed.lv[s][d]); len(r) > 0 {
						maps = append(maps, fmt.Sprintf("(%d, %s)", 3*s+d, leanNats(r)))
					}
				}
			}
			txt := fmt.Sprintf("{ callee := %d, map := [%s] }", index[ed.callee], strings.Join(maps, ", "))
			if seen[txt] {
				continue
			}
			seen[txt] = true
			if !first {
				sb.WriteString(",")
			}
			first = false
			sb.WriteString("\n      " + txt)
		}
		sb.WriteString("],\n")
		cbs := make([]string, 0, len(ef.cbs))
		for k := range ef.cbs {
			cbs = append(cbs, k)
		}
		sort.Strings(cbs)
		dyn := make([]string, 0, len(ef.dyn))
		for k := range ef.dyn {
			dyn = append(dyn, k)
		}
		sort.Strings(dyn)
		q := func(xs []string) string {
			ps := make([]string, len(xs))
			for i, x := range xs {
				ps[i] = leanStr(x)
			}
			return "[" + strings.Join(ps, ", ") + "]"
		}
		var unk []string
		for _, d := range dyn {
			if !strings.HasPrefix(d, "shallow:") {
				unk = append(unk, d)
			}
		}
		res := make([]string, 0, len(ef.res))
		for k := range ef.res {
			res = append(res, k)
		}
		sort.Strings(res)
		fmt.Fprintf(&sb, "    callbacks := %s, conservative := %s,\n    unknownCalls := %s, resolvedCalls := %s }", q(cbs), q(dyn), q(unk), q(res))
		if i < len(w.order)-1 {
			sb.WriteString(",")
		}
		sb.WriteString("\n")
	}
	sb.WriteString("]\n\n")
	// package-level variables
	sb.WriteString(w.renderPkgVars(index))
	// read API
	dom := w.pkgs[effModule+"dom"]
	implEntries := func(api [][2]string) ([]string, error) {
		var entries []string
		for _, im := range api {
			tn, ok := dom.Scope().Lookup(im[0]).(*types.TypeName)
			if !ok {
				return nil, fmt.Errorf("interface dom.%s not found", im[0])
			}
			iface, ok := tn.Type().Underlying().(*types.Interface)
			if !ok {
				return nil, fmt.Errorf("dom.%s is not an interface", im[0])
			}
			a := &effA{w: w}
			impls := a.implementations(iface, im[1])
			if len(impls) == 0 {
				return nil, fmt.Errorf("no implementation of dom.%s.%s", im[0], im[1])
			}
			for _, f := range impls {
				i, ok := index[w.fns[f]]
				if !ok || w.fns[f] == nil {
					return nil, fmt.Errorf("implementation %s of dom.%s.%s has no body", effFullName(f), im[0], im[1])
				}
				entries = append(entries, fmt.Sprintf("  (%s, %d)", leanStr(im[0]+"."+im[1]), i))
			}
		}
		return entries, nil
	}
	aux, err := implEntries(effAuxAPI)
	if err != nil {
		return "", err
	}
	sb.WriteString("/-- (interface.method, implementing function) of the non-mutating builder methods the property also speaks\n")
	sb.WriteString("    about (they are not methods of the read interfaces, so they are kept apart from `readApi`) -/\n")
	sb.WriteString("def auxApi : List (String × Nat) := [\n" + strings.Join(aux, ",\n") + "\n]\n\n")
	sb.WriteString("/-- (interface.method, implementing function) for the read API of DESIGN §6 C20 -/\n")
	sb.WriteString("def readApi : List (String × Nat) := [\n")
	entries, err := implEntries(effReadAPI)
	if err != nil {
		return "", err
	}
	for _, n := range effReadExtra {
		found := false
		for i, ef := range w.order {
			if ef.name == n {
				entries = append(entries, fmt.Sprintf("  (%s, %d)", leanStr(n), i))
				found = true
			}
		}
		if !found {
			return "", fmt.Errorf("read-only entry point %s not found", n)
		}
	}
	sb.WriteString(strings.Join(entries, ",\n"))
	sb.WriteString("\n]\n\nend Ytk.Generated\n")
	return sb.String(), nil
}
