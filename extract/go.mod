module verifextract

go 1.24.1
