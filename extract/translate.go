package main

// Go -> Lean translator for a WHITELIST of small pure functions of the library (shallow
// embedding, in the style of Aeneas for Rust).  Output: lean/YtkModel/Generated/Funcs.lean, one
// Lean `def` per whitelisted Go function (plus one auxiliary `def` per loop), over the trusted
// primitives of lean/YtkModel/GoPrelude.lean.  For every translated function a theorem
// `<fn>_generated_eq_model` in lean/YtkProps/Cxx.lean states that the regenerated definition
// equals the hand-written model function for ALL inputs; an edit of the Go function changes
// the regenerated definition and the theorem stops checking.
//
// Any construct outside the supported subset makes the generator FAIL (non-zero exit with the
// source position and the construct): never a partial or approximated definition.
//
// Files: translate.go (whitelist, loading, driver, types), translate_expr.go, translate_stmt.go.

import (
	"bytes"
	"crypto/sha256"
	"encoding/hex"
	"fmt"
	"go/ast"
	"go/importer"
	"go/parser"
	"go/printer"
	"go/token"
	"go/types"
	"io/fs"
	"os"
	"path/filepath"
	"sort"
	"strings"
)

func init() { generators["Funcs"] = genFuncs }

const xlModule = "github.com/rkosegi/yaml-toolkit/"

// xlFunc: one whitelisted function.  Callees must precede callers.
type xlFunc struct {
	Pkg     string   // package directory below the repository root
	Recv    string   // receiver type name ("" for a plain function)
	Name    string   // function / method name
	Lean    string   // name of the generated Lean definition
	Fuel    []string // per `for` loop that is not a range loop, in source order: Go expression (evaluated in the scope right before the loop) bounding the number of iterations
	Opaque  []string // callees ("pkg.Name") that are NOT translated: they become parameters of the generated definition
	Flatten bool     // method on a pointer-to-struct receiver: every selector chain `recv.a.b` becomes a parameter `recv_a_b` (assumes the chain is non-nil)
	Rec     bool     // directly self-recursive: leading Nat fuel, see translate_rec.go
	// --- translate_dom.go (composite algorithms over the DOM API) ---
	Nullable []string // parameters of a DOM interface type that may be nil: `Option …` (all others are assumed non-nil)
	NullRes  bool     // the (single, DOM-typed) result may be nil: `Option …`
	Acc      string   // a parameter `res *[]T` that the function appends to: threaded through as `List T` and returned
	RecFuel  string   // the function is recursive: LEAN expression over its parameters bounding the recursion depth (fuel of `<Lean>_rec`)
	RecGroup string   // mutually recursive functions (consecutive whitelist entries with the same group) are emitted in one `mutual` block
	External string   // already emitted in another generated file under this qualified Lean name: translated for the call interface only
	Plain    bool     // `interface{}` is a PLAIN Go value (`Val`: scalar / []interface{} / map[string]interface{}) — the codec side; otherwise it is a leaf's value (`Scalar`)
	Curried  bool     // the body is `return func(params) T { … }`: translated uncurried, the literal's parameters behind the function's own
	Dispatch string   // synthetic entry (translate_dispatch.go): the dynamic dispatch of the interface method dom.<Dispatch>.<Name> on the implementations
}

var xlWhitelist = []xlFunc{
	{Pkg: "utils", Name: "ToPath", Lean: "ToPath"},
	{Pkg: "utils", Name: "ToListPath", Lean: "ToListPath"},
	{Pkg: "props", Recv: "PathSegment", Name: "String", Lean: "PropSegString"},
	{Pkg: "xform", Name: "PropPath2Pointer", Lean: "PropPath2Pointer", Opaque: []string{"patch.MustParsePath"}},
	{Pkg: "utils", Name: "Unique", Lean: "Unique"},
	{Pkg: "props", Name: "removeFromSlice", Lean: "removeFromSlice"},
	{Pkg: "props", Name: "indexAfter", Lean: "indexAfter"},
	{Pkg: "props", Name: "replaceAt", Lean: "replaceAt"},
	{Pkg: "props", Name: "matchAt", Lean: "matchAt", Fuel: []string{"len(substring)+1"}},
	{Pkg: "props", Recv: "propImpl", Name: "findEndIndex", Lean: "findEndIndex", Fuel: []string{"len(buf)+1"}, Flatten: true},
	{Pkg: "props", Recv: "propImpl", Name: "resolvePlaceholder", Lean: "resolvePlaceholder", Flatten: true},
	{Pkg: "props", Recv: "propImpl", Name: "resolve", Lean: "resolve", Fuel: []string{"len(value)+1"}, Flatten: true, Rec: true},
	{Pkg: "props", Recv: "propImpl", Name: "Resolve", Lean: "Resolve", Flatten: true},
	{Pkg: "patch", Recv: "PathSegment", Name: "IsNumeric", Lean: "IsNumeric"},
	{Pkg: "patch", Recv: "Path", Name: "Parent", Lean: "PathParent"},
	{Pkg: "patch", Recv: "Path", Name: "LastSegment", Lean: "PathLastSegment"},
	{Pkg: "patch", Recv: "Path", Name: "String", Lean: "PathString", Fuel: []string{"len(rps)+1"}},
	{Pkg: "patch", Name: "ParsePath", Lean: "ParsePath", Fuel: []string{"len(rps)+1"}},
	{Pkg: "patch", Name: "MustParsePath", Lean: "MustParsePath"},
	{Pkg: "utils", Name: "ParseListPathComponent", Lean: "ParseListPathComponent", Fuel: []string{"len(path)+1"}},
	{Pkg: "pipeline", Name: "strTruncIfNeeded", Lean: "strTruncIfNeeded"},
	{Pkg: "pipeline", Name: "safeStrDeref", Lean: "safeStrDeref"},
	{Pkg: "pipeline", Name: "nonEmpty", Lean: "nonEmpty"},
	{Pkg: "pipeline", Name: "safeBoolDeref", Lean: "safeBoolDeref"},
	{Pkg: "pipeline", Name: "safeStrListSize", Lean: "safeStrListSize"},
	{Pkg: "pipeline", Name: "safeCopyIntSlice", Lean: "safeCopyIntSlice"},
	// String() methods of the pipeline types [C15, brief mext7c]; hand-written counterparts in YtkModel/OpStrings.lean
	{Pkg: "pipeline", Recv: "AbortOp", Name: "String", Lean: "AbortOp_String", Flatten: true},
	{Pkg: "pipeline", Recv: "ExtOp", Name: "String", Lean: "ExtOp_String", Flatten: true},
	{Pkg: "pipeline", Recv: "Html2DomOp", Name: "String", Lean: "Html2DomOp_String", Flatten: true},
	{Pkg: "pipeline", Recv: "ImportOp", Name: "String", Lean: "ImportOp_String", Flatten: true},
	{Pkg: "pipeline", Recv: "LogOp", Name: "String", Lean: "LogOp_String", Flatten: true},
	{Pkg: "pipeline", Recv: "LoopOp", Name: "String", Lean: "LoopOp_String", Flatten: true},
	{Pkg: "pipeline", Recv: "PatchOp", Name: "String", Lean: "PatchOp_String", Flatten: true},
	{Pkg: "pipeline", Recv: "SetOp", Name: "String", Lean: "SetOp_String", Flatten: true},
	{Pkg: "pipeline", Recv: "TemplateFileOp", Name: "String", Lean: "TemplateFileOp_String", Flatten: true},
	{Pkg: "pipeline", Recv: "TemplateOp", Name: "String", Lean: "TemplateOp_String", Flatten: true},
	{Pkg: "pipeline", Recv: "ExecOp", Name: "String", Lean: "ExecOp_String", Flatten: true},
	{Pkg: "pipeline", Recv: "ValOrRef", Name: "String", Lean: "ValOrRef_String", Flatten: true},
	{Pkg: "pipeline", Recv: "ActionMeta", Name: "String", Lean: "ActionMeta_String", Flatten: true},
}

// regular expressions: pattern text -> GoPrelude function deciding MatchString
var xlRegexps = map[string]string{
	".*(\\[\\d+])+": "Go.reListProp",
}

type xlPkg struct {
	dir   string
	files []*ast.File
	info  *types.Info
	pkg   *types.Package
}

type xlWorld struct {
	fset    *token.FileSet
	repo    string
	base    types.ImporterFrom
	pkgs    map[string]*xlPkg         // by directory
	tpkgs   map[string]*types.Package // by import path
	done    map[*types.Func]*xlDone   // translated so far
	structs map[*types.Named]string   // generated structures
	sorder  []*types.Named
	out     []string // definitions in order
	dom     bool     // translate_dom.go features: DOM interface types, every function in the Res monad
	recs    map[*types.Func]*xlRec
	// translate_dispatch.go
	dispDone map[string]string // interface method name -> generated dispatcher (once its group is emitted)
	disps    map[*xlFunc]*xlDisp
	dispInfo map[string]*xlDisp // by interface method name
}

type xlDone struct {
	lean    string
	monadic bool
	nparams int
	f       *xlFunc
	flat    []xlFlat // flattened-receiver parameters (in order): a caller passes its own parameter of the same key
	nopaque int
	sig     *types.Signature
	// --- translate_rec.go ---
	flatKeys  []string // flattened-receiver selector chains, in parameter order
	flatTypes []string
	rec       bool
}

type xlFlat struct {
	key string
	typ string
}

type xlImporter struct {
	w    *xlWorld
	base types.ImporterFrom
}

func (im xlImporter) Import(p string) (*types.Package, error) { return im.ImportFrom(p, "", 0) }
func (im xlImporter) ImportFrom(p, dir string, m types.ImportMode) (*types.Package, error) {
	if pk, ok := im.w.tpkgs[p]; ok {
		return pk, nil
	}
	if strings.HasPrefix(p, xlModule) && im.w.repo != "" {
		// packages of the module are type-checked ONCE, by us (two copies of `dom` have different types)
		pk, err := im.w.load(im.w.repo, strings.TrimPrefix(p, xlModule))
		if err != nil {
			return nil, err
		}
		return pk.pkg, nil
	}
	return im.base.ImportFrom(p, dir, m)
}

func (w *xlWorld) load(repo, dir string) (*xlPkg, error) {
	if p, ok := w.pkgs[dir]; ok {
		return p, nil
	}
	parsed, err := parser.ParseDir(w.fset, filepath.Join(repo, dir), func(fi fs.FileInfo) bool { return !strings.HasSuffix(fi.Name(), "_test.go") }, 0)
	if err != nil {
		return nil, err
	}
	var files []*ast.File
	for _, pk := range parsed {
		names := make([]string, 0, len(pk.Files))
		for n := range pk.Files {
			names = append(names, n)
		}
		sort.Strings(names)
		for _, n := range names {
			files = append(files, pk.Files[n])
		}
	}
	info := &types.Info{Types: map[ast.Expr]types.TypeAndValue{}, Uses: map[*ast.Ident]types.Object{}, Defs: map[*ast.Ident]types.Object{},
		Selections: map[*ast.SelectorExpr]*types.Selection{}, Implicits: map[ast.Node]types.Object{}, Scopes: map[ast.Node]*types.Scope{}}
	var terr error
	conf := types.Config{Importer: xlImporter{w, w.base}, Error: func(err error) {
		if terr == nil {
			terr = err
		}
	}}
	pkg, _ := conf.Check(xlModule+dir, w.fset, files, info)
	if terr != nil {
		return nil, fmt.Errorf("type-checking %s: %v", dir, terr)
	}
	p := &xlPkg{dir: dir, files: files, info: info, pkg: pkg}
	w.pkgs[dir] = p
	w.tpkgs[xlModule+dir] = pkg
	return p, nil
}

func (p *xlPkg) find(recv, name string) *ast.FuncDecl {
	for _, f := range p.files {
		for _, d := range f.Decls {
			fd, ok := d.(*ast.FuncDecl)
			if !ok || fd.Name.Name != name || fd.Body == nil {
				continue
			}
			r := ""
			if fd.Recv != nil && len(fd.Recv.List) > 0 {
				t := fd.Recv.List[0].Type
				if s, ok := t.(*ast.StarExpr); ok {
					t = s.X
				}
				if id, ok := t.(*ast.Ident); ok {
					r = id.Name
				}
			}
			if r == recv {
				return fd
			}
		}
	}
	return nil
}

func genFuncs(repo string) (string, error) {
	hdr := "/- GENERATED by /verif/extract (translate.go) from the repository's sources — do not edit.\n" +
		"   Shallow Go→Lean translation of the whitelisted functions over YtkModel/GoPrelude.lean.\n" +
		"   Equivalence with the hand-written model: theorems `*_generated_eq_model` in YtkProps/Cxx.lean. -/\n" +
		"import YtkModel.GoPrelude\nimport YtkModel.GoPreludeFmt\n\nset_option linter.unusedVariables false\n\nnamespace Ytk.Generated.Funcs\nopen Ytk\n\n"
	return genFrom(repo, xlWhitelist, false, hdr, "end Ytk.Generated.Funcs\n")
}

func genFrom(repo string, whitelist []xlFunc, dom bool, header, footer string) (string, error) {
	repo, _ = filepath.Abs(repo)
	cwd, _ := os.Getwd()
	if err := os.Chdir(repo); err != nil {
		return "", err
	}
	defer os.Chdir(cwd)
	w := &xlWorld{fset: token.NewFileSet(), pkgs: map[string]*xlPkg{}, tpkgs: map[string]*types.Package{},
		done: map[*types.Func]*xlDone{}, structs: map[*types.Named]string{}, repo: repo, dom: dom, recs: map[*types.Func]*xlRec{},
		dispDone: map[string]string{}, disps: map[*xlFunc]*xlDisp{}, dispInfo: map[string]*xlDisp{}}
	w.base = importer.ForCompiler(w.fset, "source", nil).(types.ImporterFrom)
	for i := 0; i < len(whitelist); {
		// a maximal run of entries with the same non-empty RecGroup is one mutual block
		j := i + 1
		for whitelist[i].RecGroup != "" && j < len(whitelist) && whitelist[j].RecGroup == whitelist[i].RecGroup {
			j++
		}
		var fds []*ast.FuncDecl
		var ps []*xlPkg
		for k := i; k < j; k++ {
			f := &whitelist[k]
			p, err := w.load(repo, f.Pkg)
			if err != nil {
				return "", err
			}
			fd := p.find(f.Recv, f.Name)
			if fd == nil && f.Dispatch == "" {
				return "", fmt.Errorf("whitelisted function %s.%s.%s not found", f.Pkg, f.Recv, f.Name)
			}
			fds, ps = append(fds, fd), append(ps, p)
		}
		if err := w.registerRecs(whitelist[i:j], ps, fds); err != nil {
			return "", err
		}
		var group []string
		for k := i; k < j; k++ {
			f := &whitelist[k]
			txt, err := w.translateFunc(repo, ps[k-i], f, fds[k-i])
			if err != nil {
				return "", fmt.Errorf("%s.%s: %v", f.Pkg, f.Name, err)
			}
			if f.External == "" {
				group = append(group, txt)
			}
		}
		w.out = append(w.out, w.assembleGroup(whitelist[i:j], group)...)
		i = j
	}
	var b strings.Builder
	b.WriteString(header)
	for _, n := range w.sorder {
		b.WriteString(w.structText(n))
	}
	for _, t := range w.out {
		b.WriteString(t)
		b.WriteString("\n")
	}
	b.WriteString(footer)
	return b.String(), nil
}

func xlDigest(fset *token.FileSet, fd *ast.FuncDecl) string {
	var b bytes.Buffer
	_ = (&printer.Config{Mode: printer.RawFormat}).Fprint(&b, fset, fd)
	h := sha256.Sum256(b.Bytes())
	return hex.EncodeToString(h[:8])
}

// ---------------------------------------------------------------- types

var leanKeywords = map[string]bool{}

func init() {
	for _, k := range strings.Fields("in end from at do then fun match with open let have show by if else for where instance def theorem structure class import namespace section variable universe return mut calc using export local private protected deriving Type Prop Sort this macro syntax notation prefix infix postfix initialize abbrev example inductive axiom opaque unsafe partial nomatch nofun exists forall fuel pure bind some none true false") {
		leanKeywords[k] = true
	}
}

func (w *xlWorld) leanType(t types.Type) (string, error) {
	if w.dom {
		if s, ok, err := w.domLeanType(t); ok || err != nil {
			return s, err
		}
	}
	switch x := t.(type) {
	case *types.Basic:
		switch x.Kind() {
		case types.String, types.UntypedString:
			return "String", nil
		case types.Int, types.UntypedInt:
			return "Int", nil
		case types.Bool, types.UntypedBool:
			return "Bool", nil
		case types.Int32, types.UntypedRune, types.Uint8:
			return "Char", nil
		}
	case *types.Alias:
		return w.leanType(types.Unalias(x))
	case *types.Named:
		if x.Obj().Pkg() != nil && x.Obj().Pkg().Path() == "strings" && x.Obj().Name() == "Builder" {
			return "String", nil
		}
		if x.Obj().Pkg() == nil && x.Obj().Name() == "error" {
			return "Go.Error", nil
		}
		if st, ok := x.Underlying().(*types.Struct); ok {
			if n, ok := w.structs[x]; ok {
				return n, nil
			}
			for i := 0; i < st.NumFields(); i++ {
				if _, err := w.leanType(st.Field(i).Type()); err != nil {
					return "", fmt.Errorf("struct %s: %v", x.Obj().Name(), err)
				}
			}
			n := x.Obj().Pkg().Name() + "_" + x.Obj().Name()
			w.structs[x] = n
			w.sorder = append(w.sorder, x)
			return n, nil
		}
		return w.leanType(x.Underlying())
	case *types.Slice:
		e, err := w.leanType(x.Elem())
		if err != nil {
			return "", err
		}
		return "(List " + e + ")", nil
	case *types.Pointer:
		e, err := w.leanType(x.Elem())
		if err != nil {
			return "", err
		}
		return "(Option " + e + ")", nil
	case *types.Signature:
		return w.sigType(x)
	}
	return "", fmt.Errorf("unsupported type %s", t.String())
}

func (w *xlWorld) structText(n *types.Named) string {
	st := n.Underlying().(*types.Struct)
	var b strings.Builder
	fmt.Fprintf(&b, "/-- Go struct %s.%s -/\nstructure %s where\n", n.Obj().Pkg().Name(), n.Obj().Name(), w.structs[n])
	for i := 0; i < st.NumFields(); i++ {
		t, _ := w.leanType(st.Field(i).Type())
		fmt.Fprintf(&b, "  %s : %s\n", leanField(st.Field(i).Name()), t)
	}
	b.WriteString("  deriving DecidableEq, Repr\n\n")
	return b.String()
}

func leanField(n string) string {
	if leanKeywords[n] {
		return n + "_"
	}
	return n
}

func tupleType(ts []string) string {
	switch len(ts) {
	case 0:
		return "Unit"
	case 1:
		return ts[0]
	}
	return "(" + strings.Join(ts, " × ") + ")"
}

func tupleVal(vs []string) string {
	switch len(vs) {
	case 0:
		return "()"
	case 1:
		return vs[0]
	}
	return "(" + strings.Join(vs, ", ") + ")"
}
