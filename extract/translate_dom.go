package main

// translate_dom.go — the Go→Lean translator (translate.go) extended to the library's COMPOSITE
// ALGORITHMS OVER THE DOM API: functions written in terms of dom.Node / Container / List / Leaf /
// ContainerBuilder / ListBuilder calls.  Output: lean/YtkModel/Generated/FuncsDom.lean over the
// trusted primitives of lean/YtkModel/DomPrelude.lean (namespace Ytk.GoDom) and GoPrelude.lean.
//
// What is added to the subset of translate.go (everything else still FAILS LOUDLY):
//   - the DOM interface types and their implementation pointers (see DomPrelude.lean, header);
//     implicit interface conversions Container/List/Leaf → Node become constructors;
//     type assertions `n.(dom.Container)` become `GoDom.asContainer` (panic = failed assertion)
//   - nil: a variable / parameter / result that may be nil is `Option …`; `if v := E; v != nil {A} else {B}`
//     and `if v, ok := m[k]; ok {A} else {B}` become a `match` on the option
//   - method calls on DOM values → GoDom primitives; builder mutation on LOCAL builders created by
//     the function itself → `let`-rebinding of the functional value; Go maps `map[string]Node`
//   - `for k, v := range c.Children()` → recursion over the association list (key order);
//     `for i, x := range xs` → recursion with a counter
//   - variadic parameters (a list); function-valued fields of a flattened receiver (a parameter
//     of function type); calls of whitelisted methods of the same receiver (the caller passes its
//     own flattened parameters on)
//   - recursion: a function with `RecFuel` becomes `<fn>_rec : Nat → …` (structural on the fuel,
//     `.fuel` when exhausted) plus `<fn> … := <fn>_rec (RecFuel) …`; a `RecGroup` is one `mutual`
//     block; loops inside take the recursive callees as parameters `rec_<fn>`
//   - accumulators `res *[]T` (whitelist field Acc): threaded through and returned
//   - struct literals naming every field; cmp.Equal on leaf values; slices.Reverse of a local slice;
//     uint(i), int(math.Max/Min(float64(a), float64(b)))
// Added by the second extension (xlate7d; each still fails loudly outside its stated shape):
//   - DYNAMIC DISPATCH of dom.Node interface methods (translate_dispatch.go): a whitelist entry with `Dispatch` is
//     the method table; the generator enumerates every implementation of the interface in the package
//   - receivers `*leaf`, fields `l.value`, `&leaf{value: v}`; `c.ensureChildren()`; `c2.children[k] = v` on a local builder;
//     `len(m)` of a Go map; `$0` (the receiver) in fuel expressions
//   - `map[string]dom.Leaf` (kind leafmap): `make`, `m[k] = v`, range in key order; accumulators that point to such a
//     map (`ret *map[string]Leaf`, with the alias `m := *ret`); `&local` as the accumulator argument of a callee
//   - `map[string]dom.ContainerBuilder` (kind contmap): index only; `m[k]` on a map[string]Node (nil when absent)
//   - calls of function-valued parameters (`fn(v)`: visitors, predicates) — the parameter has a type `… → Go.Res …`;
//     calls of translated CONCRETE methods on a receiver of an implementation type (`c.Flatten()`)
//   - `strings.Split(s, sep)` for a constant one-character separator; `re.FindStringIndex` for the package-level
//     regexps listed in xlRegexpFind; comma-ok type assertions `l, ok := n.(dom.List)` in an if-else
//   - whitelist flag `Plain` (the codec side): `interface{}` ↦ `Val`, conversions of []interface{} / map[string]interface{}
//     to interface{} are the constructors, `make([]interface{}, n)`, `res[i] = v` on a local slice that the function
//     made itself and uses only by index assignment, len and return (no alias)
// NOT translated (rejected): in-place mutation of a builder the function did not create itself (the
// whole of diff/apply.go and the patch handlers work that way: `current = x.(ContainerBuilder)` walks
// INTO the caller's tree and edits it there), type switches, closures, break/continue.
// Every function of this file's whitelist is translated into the monad Go.Res.

import (
	"fmt"
	"go/ast"
	"go/constant"
	"go/token"
	"go/types"
	"strings"
)

func init() {
	generators["FuncsDom"] = genFuncsDom
	xlRegexps["\\[\\d+]$"] = "GoDom.reIdxSuffix"
}

// regular expressions: pattern text -> DomPrelude function giving FindStringIndex (nil = no match)
var xlRegexpFind = map[string]string{
	"\\[\\d+]$": "GoDom.reIdxSuffixFind",
}

var xlDomWhitelist = []xlFunc{
	// interface of functions emitted in Generated/Funcs.lean
	{Pkg: "utils", Name: "ToPath", Lean: "ToPath", External: "Funcs.ToPath"},
	{Pkg: "utils", Name: "ToListPath", Lean: "ToListPath", External: "Funcs.ToListPath"},
	// dom/overlay.go, dom/merge.go  [C04]
	{Pkg: "dom", Name: "hasValue", Lean: "hasValue", Nullable: []string{"n"}},
	{Pkg: "dom", Name: "coalesce", Lean: "coalesce"},
	{Pkg: "dom", Name: "firstValidListItem", Lean: "firstValidListItem"},
	{Pkg: "dom", Name: "mergeListsAppend", Lean: "mergeListsAppend", Fuel: []string{"$1.Size()+1", "$2.Size()+1"}},
	{Pkg: "dom", Recv: "merger", Name: "mergeContainers", Lean: "mergeContainers", Flatten: true, Nullable: []string{"c2"}, RecFuel: "GoDom.sizeC ($2.getD []) + 1"},
	{Pkg: "dom", Recv: "merger", Name: "mergeListsMeld", Lean: "mergeListsMeld", Flatten: true, Fuel: []string{"$1.Size()+$2.Size()+1", "$1.Size()+$2.Size()+1", "$1.Size()+$2.Size()+1"}},
	// dom/merge.go: what Merged() runs  [C06]
	{Pkg: "dom", Recv: "merger", Name: "mergeLists", Lean: "mergeLists", Flatten: true},
	{Pkg: "dom", Recv: "merger", Name: "mergeOverlay", Lean: "mergeOverlay", Flatten: true},
	// dom/leaf.go, dom/list.go, dom/container.go: Equals / Clone with the dynamic dispatch of the interface calls  [C05]
	{Pkg: "dom", Recv: "leaf", Name: "Equals", Lean: "leafEquals", Nullable: []string{"node"}},
	{Pkg: "dom", Recv: "listImpl", Name: "Equals", Lean: "listEquals", Nullable: []string{"node"}, Fuel: []string{"len($0.items)+1"}, RecFuel: "2 * GoDom.sizeL $0 + 2", RecGroup: "equals"},
	{Pkg: "dom", Recv: "containerImpl", Name: "Equals", Lean: "containerEquals", Nullable: []string{"node"}, RecFuel: "2 * GoDom.sizeC $0 + 2", RecGroup: "equals"},
	{Pkg: "dom", Name: "Equals", Lean: "Equals", Dispatch: "Node", RecFuel: "2 * GoDom.sizeN $1 + 1", RecGroup: "equals"},
	{Pkg: "dom", Recv: "leaf", Name: "Clone", Lean: "leafClone"},
	{Pkg: "dom", Recv: "listImpl", Name: "Clone", Lean: "listClone", RecFuel: "2 * GoDom.sizeL $0 + 2", RecGroup: "clone"},
	{Pkg: "dom", Recv: "containerImpl", Name: "Clone", Lean: "containerClone", RecFuel: "2 * GoDom.sizeC $0 + 2", RecGroup: "clone"},
	{Pkg: "dom", Name: "Clone", Lean: "Clone", Dispatch: "Node", RecFuel: "2 * GoDom.sizeN $1 + 1", RecGroup: "clone"},
	// SameAs of the three kinds and its method table (not recursive: a plain definition)  [C05]
	{Pkg: "dom", Recv: "leaf", Name: "SameAs", Lean: "leafSameAs", Nullable: []string{"node"}},
	{Pkg: "dom", Recv: "listImpl", Name: "SameAs", Lean: "listSameAs", Nullable: []string{"node"}},
	{Pkg: "dom", Recv: "containerImpl", Name: "SameAs", Lean: "containerSameAs", Nullable: []string{"node"}},
	{Pkg: "dom", Name: "SameAs", Lean: "SameAs", Dispatch: "Node"},
	// dom/container.go: Flatten and its walkers, Search  [C02]
	{Pkg: "dom", Name: "flattenLeaf", Lean: "domFlattenLeaf", Acc: "ret"},
	{Pkg: "dom", Name: "flattenList", Lean: "domFlattenList", Acc: "ret", RecFuel: "GoDom.sizeL $1 + 1", RecGroup: "domflatten"},
	{Pkg: "dom", Name: "flattenContainer", Lean: "domFlattenContainer", Acc: "ret", RecFuel: "GoDom.sizeC $1 + 1", RecGroup: "domflatten"},
	{Pkg: "dom", Recv: "containerImpl", Name: "Flatten", Lean: "containerFlatten"},
	{Pkg: "dom", Recv: "containerImpl", Name: "Search", Lean: "containerSearch"},
	{Pkg: "dom", Recv: "containerImpl", Name: "Lookup", Lean: "containerLookup", NullRes: true},
	{Pkg: "dom", Recv: "containerImpl", Name: "Child", Lean: "containerChild", NullRes: true, RecFuel: "($1).length + 1"},
	// dom/overlay.go: the walkers behind OverlayDocument.Walk (the visitor is a parameter)  [C06]
	{Pkg: "dom", Name: "walkNode", Lean: "walkNode", RecFuel: "2 * GoDom.sizeN $4 + 2", RecGroup: "walk"},
	{Pkg: "dom", Name: "walkList", Lean: "walkList", RecFuel: "2 * GoDom.sizeL $3 + 2", RecGroup: "walk"},
	{Pkg: "dom", Name: "walkContainer", Lean: "walkContainer", RecFuel: "2 * GoDom.sizeC $3 + 2", RecGroup: "walk"},
	{Pkg: "dom", Recv: "overlayDocument", Name: "Lookup", Lean: "overlayLookup", Flatten: true, NullRes: true},
	{Pkg: "dom", Recv: "overlayDocument", Name: "LookupAny", Lean: "overlayLookupAny", Flatten: true, NullRes: true},
	// dom/codec.go: the encoders behind AsMap / AsSlice / DefaultNodeEncoderFn  [C01]
	{Pkg: "dom", Name: "encodeLeafFn", Lean: "encodeLeafFn", Plain: true},
	{Pkg: "dom", Name: "encodeListFn", Lean: "encodeListFn", Plain: true, RecFuel: "GoDom.sizeL $1 + 1", RecGroup: "encode"},
	{Pkg: "dom", Name: "encodeContainerFn", Lean: "encodeContainerFn", Plain: true, RecFuel: "GoDom.sizeC $1 + 1", RecGroup: "encode"},
	{Pkg: "dom", Recv: "containerImpl", Name: "AsMap", Lean: "containerAsMap", Plain: true},
	{Pkg: "dom", Recv: "listImpl", Name: "AsSlice", Lean: "listAsSlice", Plain: true},
	{Pkg: "dom", Name: "DefaultNodeMappingFn", Lean: "DefaultNodeMappingFn", Plain: true},
	{Pkg: "dom", Name: "DefaultNodeEncoderFn", Lean: "DefaultNodeEncoderFn", Plain: true},
	// dom/types.go: SearchEqual(in)(val)  [C19: the placeholder resolver searches with it]
	{Pkg: "dom", Name: "SearchEqual", Lean: "SearchEqual", Curried: true},
	// analytics/dependency_resolver.go: the default placeholder matcher `hasPlaceholderFunc(ph)(val)`  [C19]
	{Pkg: "analytics", Name: "hasPlaceholderFunc", Lean: "hasPlaceholderFunc", Curried: true},
	// diff/diff.go  [C07]
	{Pkg: "diff", Name: "appendMod", Lean: "appendMod", Acc: "res"},
	{Pkg: "diff", Name: "flattenLeaf", Lean: "flattenLeaf", Acc: "res"},
	{Pkg: "diff", Name: "flattenContainer", Lean: "flattenContainer", Acc: "res", RecFuel: "GoDom.sizeC $1 + 1", RecGroup: "flatten"},
	{Pkg: "diff", Name: "flattenList", Lean: "flattenList", Acc: "res", RecFuel: "GoDom.sizeL $1 + 1", RecGroup: "flatten"},
	{Pkg: "diff", Name: "flattenNode", Lean: "flattenNode", Acc: "res"},
	{Pkg: "diff", Name: "diffList", Lean: "diffList", Acc: "res"},
	{Pkg: "diff", Name: "handleExisting", Lean: "handleExisting", Acc: "res", RecFuel: "2 * GoDom.sizeN $1 + 1", RecGroup: "diff"},
	{Pkg: "diff", Name: "diff", Lean: "diff", Acc: "res", RecFuel: "2 * GoDom.sizeC $1 + 2", RecGroup: "diff"},
	// dom/list.go: the ListBuilder methods behind the DomPrelude primitives GoDom.append / GoDom.set (they mutate their
	// receiver and return it: Acc "$recv").  LAST in the list, so that the code above keeps calling the primitives; the
	// theorems `listBuilder*_generated_eq_model` (C03) prove the primitives equal to these translations.
	{Pkg: "dom", Recv: "listBuilderImpl", Name: "Append", Lean: "listBuilderAppend", Acc: "$recv"},
	{Pkg: "dom", Recv: "listBuilderImpl", Name: "Clear", Lean: "listBuilderClear", Acc: "$recv"},
	{Pkg: "dom", Recv: "listBuilderImpl", Name: "MustSet", Lean: "listBuilderMustSet", Acc: "$recv"},
	{Pkg: "dom", Recv: "listBuilderImpl", Name: "Set", Lean: "listBuilderSet", Acc: "$recv", Fuel: []string{"int($1)+2"}},
	{Pkg: "dom", Name: "ListNode", Lean: "ListNode"},
	{Pkg: "dom", Recv: "containerBuilderImpl", Name: "Remove", Lean: "containerBuilderRemove", Acc: "$recv"},
}

func genFuncsDom(repo string) (string, error) {
	hdr := "/- GENERATED by /verif/extract (translate_dom.go) from the repository's sources — do not edit.\n" +
		"   Shallow Go→Lean translation of the whitelisted composite algorithms over the DOM API,\n" +
		"   over YtkModel/DomPrelude.lean (GoDom.*) and YtkModel/GoPrelude.lean (Go.*).\n" +
		"   Equivalence with the hand-written model: theorems `*_generated_eq_model` in YtkProps/Cxx.lean. -/\n" +
		"import YtkModel.DomPrelude\nimport YtkModel.Diff\nimport YtkModel.Generated.Funcs\n\nset_option linter.unusedVariables false\n\nnamespace Ytk.Generated.FuncsDom\nopen Ytk Ytk.Generated\n\n"
	return genFrom(repo, xlDomWhitelist, true, hdr, "end Ytk.Generated.FuncsDom\n")
}

// ---------------------------------------------------------------- types

const domPath = xlModule + "dom"

// xlPlainMode: the function being translated has the whitelist flag Plain (set by translateFunc / registerRecs)
var xlPlainMode bool

// domKind classifies a Go type: "node" | "cont" | "list" | "leaf" | "any" | ""
func domKind(t types.Type) string {
	if t == nil {
		return ""
	}
	t = types.Unalias(t)
	switch y := t.(type) {
	case *types.Named:
		if y.Obj().Pkg() != nil && y.Obj().Pkg().Path() == domPath {
			switch y.Obj().Name() {
			case "Node":
				return "node"
			case "Container", "ContainerBuilder":
				return "cont"
			case "List", "ListBuilder":
				return "list"
			case "Leaf":
				return "leaf"
			}
		}
	case *types.Pointer:
		if n, ok := types.Unalias(y.Elem()).(*types.Named); ok && n.Obj().Pkg() != nil && n.Obj().Pkg().Path() == domPath {
			switch n.Obj().Name() {
			case "containerImpl", "containerBuilderImpl":
				return "cont"
			case "listImpl", "listBuilderImpl":
				return "list"
			case "leaf":
				return "leaf"
			}
		}
	case *types.Map:
		if isStringy(y.Key()) && domKind(y.Elem()) == "node" {
			return "cont"
		}
		if isStringy(y.Key()) && domKind(y.Elem()) == "plain" {
			return "plainmap" // map[string]interface{} on the codec side
		}
		if isStringy(y.Key()) && domKind(y.Elem()) == "cont" {
			return "contmap" // map[string]dom.ContainerBuilder (the layers of an overlay document)
		}
		if isStringy(y.Key()) && domKind(y.Elem()) == "leaf" {
			return "leafmap" // map[string]dom.Leaf (the result of Flatten)
		}
	case *types.Interface:
		if y.NumMethods() == 0 {
			if xlPlainMode {
				return "plain"
			}
			return "any"
		}
	}
	return ""
}

func domKindLean(k string) string {
	switch k {
	case "node":
		return "Node"
	case "cont":
		return "GoDom.Container"
	case "list":
		return "GoDom.DList"
	case "leaf":
		return "GoDom.Leaf"
	case "any":
		return "GoDom.Any"
	case "leafmap":
		return "GoDom.LeafMap"
	case "contmap":
		return "GoDom.ContMap"
	case "plain":
		return "Val"
	case "plainmap":
		return "(List (String × Val))"
	}
	return ""
}

func (w *xlWorld) domLeanType(t types.Type) (string, bool, error) {
	if k := domKind(t); k != "" {
		return domKindLean(k), true, nil
	}
	switch y := types.Unalias(t).(type) {
	case *types.Basic:
		if y.Kind() == types.Uint {
			return "Nat", true, nil
		}
	case *types.Signature:
		// a function value: may panic, so it lives in the Res monad
		var ats []string
		for i := 0; i < y.Params().Len(); i++ {
			s, err := w.leanType(y.Params().At(i).Type())
			if err != nil {
				return "", false, err
			}
			ats = append(ats, s)
		}
		var rts []string
		for i := 0; i < y.Results().Len(); i++ {
			s, err := w.leanType(y.Results().At(i).Type())
			if err != nil {
				return "", false, err
			}
			rts = append(rts, s)
		}
		if y.Variadic() {
			return "", false, fmt.Errorf("variadic function value")
		}
		return "(" + strings.Join(append(ats, "Go.Res "+tupleType(rts)), " → ") + ")", true, nil
	}
	return "", false, nil
}

// ---------------------------------------------------------------- nil-ability and coercions

func (x *xl) isOptVar(o types.Object) bool { return o != nil && x.optVars[o] }

// nullable: may the value of e be a nil interface (Lean type `Option …`)?
func (x *xl) nullable(e ast.Expr) bool {
	switch y := e.(type) {
	case *ast.ParenExpr:
		return x.nullable(y.X)
	case *ast.Ident:
		if isNilIdent(x.p.info, y) {
			return true
		}
		return x.isOptVar(x.p.info.Uses[y])
	case *ast.IndexExpr:
		// m[k] on a map[string]Node: nil when the key is absent
		if _, isMap := x.typeOf(y.X).Underlying().(*types.Map); isMap && (domKind(x.typeOf(y.X)) == "cont" || domKind(x.typeOf(y.X)) == "contmap") {
			return true
		}
	case *ast.CallExpr:
		if sel, ok := y.Fun.(*ast.SelectorExpr); ok {
			if s, ok := x.p.info.Selections[sel]; ok && s.Kind() == types.MethodVal && domKind(x.typeOf(sel.X)) == "cont" {
				return sel.Sel.Name == "Child" || sel.Sel.Name == "Lookup"
			}
		}
		if fn := x.calleeFunc(y); fn != nil {
			if d := x.lookupDone(fn); d != nil && d.f != nil {
				return d.f.NullRes
			}
			if r, ok := x.w.recs[fn]; ok {
				return r.f.NullRes
			}
		}
	}
	return false
}

// coerce a Lean expression s of Go type `from` (nullable or not) to Go type `to`
func (x *xl) coerce(n ast.Node, s string, from types.Type, fromOpt bool, to types.Type, toOpt bool) (string, error) {
	fk, tk := domKind(from), domKind(to)
	if fk != tk {
		if tk == "node" && (fk == "cont" || fk == "list" || fk == "leaf") {
			if fromOpt {
				return "", x.errf(n, "conversion of a possibly-nil %s to dom.Node", from)
			}
			s = map[string]string{"cont": "(Node.cont ", "list": "(Node.list ", "leaf": "(Node.leaf "}[fk] + s + ")"
		} else if tk == "plain" && fk == "plainmap" {
			s = "(Val.obj " + s + ")"
		} else if sl, ok := from.Underlying().(*types.Slice); ok && tk == "plain" && domKind(sl.Elem()) == "plain" {
			s = "(Val.arr " + s + ")"
		} else if tk == "any" && fk == "" || fk == "any" && tk == "" {
			return "", x.errf(n, "conversion between %s and %s", from, to)
		} else if tk != "" || fk != "" {
			return "", x.errf(n, "conversion from %s to %s", from, to)
		}
	}
	if fromOpt && !toOpt {
		return "", x.errf(n, "a possibly-nil value is used where the translation assumes non-nil (mark the parameter Nullable, or test it with `if v := …; v != nil`)")
	}
	if !fromOpt && toOpt {
		s = "(some " + s + ")"
	}
	return s, nil
}

// exprTo translates e and coerces it to the Go type `to`
func (x *xl) exprTo(e ast.Expr, to types.Type, toOpt bool) ([]string, string, error) {
	if isNilIdent(x.p.info, e) {
		if domKind(to) == "any" {
			return nil, "GoDom.anyNil", nil
		}
		if domKind(to) == "plain" {
			return nil, "Val.null", nil
		}
		if toOpt {
			return nil, "none", nil
		}
		if domKind(to) != "" {
			return nil, "", x.errf(e, "nil where the translation assumes a non-nil %s", to)
		}
		s, err := x.nilOf(e, to)
		return nil, s, err
	}
	b, s, err := x.expr(e)
	if err != nil {
		return nil, "", err
	}
	if !x.w.dom {
		return b, s, nil
	}
	s, err = x.coerce(e, s, x.typeOf(e), x.nullable(e), to, toOpt)
	return b, s, err
}

func (x *xl) varLeanType(v *types.Var) (string, error) {
	if x.acc != nil && v == x.acc && x.recvAcc {
		return x.w.leanType(v.Type())
	}
	if x.acc != nil && v == x.acc {
		return x.w.leanType(v.Type().Underlying().(*types.Pointer).Elem())
	}
	t, err := x.w.leanType(v.Type())
	if err != nil {
		return "", err
	}
	if x.optVars[v] {
		return "(Option " + t + ")", nil
	}
	return t, nil
}

// ---------------------------------------------------------------- expressions

func isDomPkgVar(o types.Object, name string) bool {
	v, ok := o.(*types.Var)
	return ok && v.Pkg() != nil && v.Pkg().Path() == domPath && v.Parent() == v.Pkg().Scope() && v.Name() == name
}

// receiver of a DOM method call as a non-nil Lean value (a nullable receiver panics when nil)
func (x *xl) domRecv(e ast.Expr) ([]string, string, error) {
	b, s, err := x.expr(e)
	if err != nil {
		return nil, "", err
	}
	if x.nullable(e) {
		b, s = x.bindTmp(b, "GoDom.nonNil "+s)
	}
	return b, s, nil
}

func (x *xl) nodeType() types.Type {
	if p, ok := x.w.tpkgs[domPath]; ok {
		return p.Scope().Lookup("Node").Type()
	}
	return nil
}

// domMethod: a (pure) method call on a DOM value
func (x *xl) domMethod(c *ast.CallExpr, sel *ast.SelectorExpr) ([]string, string, bool, error) {
	k := domKind(x.typeOf(sel.X))
	if k == "" || k == "any" {
		return nil, "", false, nil
	}
	if fn := x.calleeFunc(c); fn != nil {
		// a translated CONCRETE method (`c.Flatten()` on a *containerImpl receiver): the generated definition
		if _, isRec := x.w.recs[fn]; (isRec && x.inGroup[fn]) || x.lookupDone(fn) != nil {
			if sig := fn.Type().(*types.Signature); sig.Recv() != nil && !types.IsInterface(sig.Recv().Type()) {
				return nil, "", false, nil
			}
		}
	}
	m := sel.Sel.Name
	type ent struct {
		lean  string
		nargs int
	}
	var tbl map[string]ent
	switch k {
	case "node":
		tbl = map[string]ent{"IsContainer": {"GoDom.isContainer", 0}, "IsList": {"GoDom.isList", 0}, "IsLeaf": {"GoDom.isLeaf", 0}}
	case "cont":
		tbl = map[string]ent{"Children": {"GoDom.children", 0}, "Child": {"GoDom.child", 1}, "Lookup": {"GoDom.lookup", 1}}
	case "list":
		tbl = map[string]ent{"Items": {"GoDom.items", 0}, "Size": {"GoDom.size", 0}}
	case "leaf":
		tbl = map[string]ent{"Value": {"GoDom.value", 0}}
	}
	if e, ok := tbl[m]; ok && len(c.Args) == e.nargs {
		b, r, err := x.domRecv(sel.X)
		if err != nil {
			return nil, "", true, err
		}
		if k == "leaf" && m == "Value" && xlPlainMode {
			// on the codec side a leaf's value is a plain value
			return b, "(Val.sc (GoDom.value " + r + "))", true, nil
		}
		parts := []string{e.lean, r}
		for _, a := range c.Args {
			if !isStringy(x.typeOf(a)) {
				return nil, "", true, x.errf(a, "argument of %s", m)
			}
			ba, sa, err := x.expr(a)
			if err != nil {
				return nil, "", true, err
			}
			b = append(b, ba...)
			parts = append(parts, sa)
		}
		return b, "(" + strings.Join(parts, " ") + ")", true, nil
	}
	// any other interface method with a generated method table (SameAs …)
	if dn, ok := x.w.dispDone[m]; ok && m != "Equals" && m != "Clone" {
		d := x.w.dispInfo[m]
		sig := d.method.Type().(*types.Signature)
		if len(c.Args) != sig.Params().Len() {
			return nil, "", true, x.errf(c, "call of %s: argument count", m)
		}
		b, r, err := x.domRecv(sel.X)
		if err != nil {
			return nil, "", true, err
		}
		r, err = x.coerce(sel.X, r, x.typeOf(sel.X), false, x.nodeType(), false)
		if err != nil {
			return nil, "", true, err
		}
		args := []string{dn, r}
		for i, a := range c.Args {
			ba, sa, err := x.exprTo(a, sig.Params().At(i).Type(), d.nullAt[i])
			if err != nil {
				return nil, "", true, err
			}
			b, args = append(b, ba...), append(args, sa)
		}
		b, t := x.bindTmp(b, strings.Join(args, " "))
		return b, t, true, nil
	}
	// Equals / Clone through the interface: the hand-written primitive, unless the method is being translated
	if (m == "Equals" && len(c.Args) == 1 || m == "Clone" && len(c.Args) == 0) && k != "leaf" {
		b, r, err := x.domRecv(sel.X)
		if err != nil {
			return nil, "", true, err
		}
		r, err = x.coerce(sel.X, r, x.typeOf(sel.X), false, x.nodeType(), false)
		if err != nil {
			return nil, "", true, err
		}
		if rn, ok := x.dispatch[m]; ok {
			// dynamic dispatch on the node kind, inside the recursion group being translated
			x.touched[rn] = true
			args := []string{rn, r}
			if m == "Equals" {
				ba, sa, err := x.exprTo(c.Args[0], x.nodeType(), true)
				if err != nil {
					return nil, "", true, err
				}
				b = append(b, ba...)
				args = append(args, sa)
			}
			b, t := x.bindTmp(b, strings.Join(args, " "))
			return b, t, true, nil
		}
		if dn, ok := x.w.dispDone[m]; ok {
			// the dispatcher generated earlier in this file
			args := []string{dn, r}
			if m == "Equals" {
				ba, sa, err := x.exprTo(c.Args[0], x.nodeType(), true)
				if err != nil {
					return nil, "", true, err
				}
				b = append(b, ba...)
				args = append(args, sa)
			}
			b, t := x.bindTmp(b, strings.Join(args, " "))
			return b, t, true, nil
		}
		if m == "Clone" {
			return b, "(GoDom.clone " + r + ")", true, nil
		}
		ba, sa, err := x.exprTo(c.Args[0], x.nodeType(), true)
		if err != nil {
			return nil, "", true, err
		}
		return append(b, ba...), "(GoDom.equals " + r + " " + sa + ")", true, nil
	}
	return nil, "", true, x.errf(c, "method %s on a DOM value of kind %s", m, k)
}

// domField: `l.items`, `c.children` on implementation receivers
func (x *xl) domField(y *ast.SelectorExpr) ([]string, string, bool, error) {
	k := domKind(x.typeOf(y.X))
	if k == "list" && y.Sel.Name == "items" || k == "cont" && y.Sel.Name == "children" {
		b, r, err := x.domRecv(y.X)
		if err != nil {
			return nil, "", true, err
		}
		if k == "list" {
			return b, "(GoDom.items " + r + ")", true, nil
		}
		return b, "(GoDom.children " + r + ")", true, nil
	}
	isRecv := false
	if id, ok := y.X.(*ast.Ident); ok && x.f.Flatten && x.p.info.Uses[id] == x.recv {
		isRecv = true
	}
	if pt, ok := x.typeOf(y.X).Underlying().(*types.Pointer); ok && k == "" && !isRecv {
		// p.f on a parameter / variable that is a pointer to a struct: dereference (nil panics), then the field
		if _, isStruct := pt.Elem().Underlying().(*types.Struct); isStruct {
			if sel, ok := x.p.info.Selections[y]; ok && sel.Kind() == types.FieldVal && len(sel.Index()) == 1 {
				if _, err := x.w.leanType(pt.Elem()); err != nil {
					return nil, "", true, x.errf(y, "%v", err)
				}
				b, s, err := x.expr(y.X)
				if err != nil {
					return nil, "", true, err
				}
				b, t := x.bindTmp(b, "Go.deref "+s)
				return b, t + "." + leanField(y.Sel.Name), true, nil
			}
		}
	}
	if k == "leaf" && y.Sel.Name == "value" {
		b, r, err := x.domRecv(y.X)
		if err != nil {
			return nil, "", true, err
		}
		return b, "(GoDom.value " + r + ")", true, nil
	}
	return nil, "", false, nil
}

func (x *xl) typeAssert(y *ast.TypeAssertExpr) ([]string, string, error) {
	if y.Type == nil {
		return nil, "", x.errf(y, "type switch")
	}
	if k := domKind(x.typeOf(y.X)); k != "node" && k != "" && k == domKind(x.typeOf(y)) {
		// n.(dom.Container) on a value that already is a Container: succeeds unless nil
		return x.domRecv(y.X)
	}
	if domKind(x.typeOf(y.X)) != "node" {
		return nil, "", x.errf(y, "type assertion on %s", x.typeOf(y.X))
	}
	fn := map[string]string{"cont": "GoDom.asContainer", "list": "GoDom.asList", "leaf": "GoDom.asLeaf"}[domKind(x.typeOf(y))]
	if fn == "" {
		return nil, "", x.errf(y, "type assertion to %s", x.typeOf(y))
	}
	b, s, err := x.domRecv(y.X)
	if err != nil {
		return nil, "", err
	}
	b, t := x.bindTmp(b, fn+" "+s)
	return b, t, nil
}

// domNew: `&listBuilderImpl{}`, `&containerBuilderImpl{}`, `map[string]Node{}`, `&leaf{value: v}`
func (x *xl) domNew(e ast.Expr) ([]string, string, bool, error) {
	if u, ok := e.(*ast.UnaryExpr); ok && u.Op == token.AND {
		if cl, ok := u.X.(*ast.CompositeLit); ok && len(cl.Elts) == 0 {
			switch domKind(x.typeOf(e)) {
			case "list":
				return nil, "GoDom.newList", true, nil
			case "cont":
				return nil, "GoDom.newContainer", true, nil
			}
		}
		if cl, ok := u.X.(*ast.CompositeLit); ok && len(cl.Elts) == 1 && domKind(x.typeOf(e)) == "leaf" {
			// &leaf{value: v}
			kv, ok := cl.Elts[0].(*ast.KeyValueExpr)
			if !ok {
				return nil, "", true, x.errf(e, "positional leaf literal")
			}
			if id, ok := kv.Key.(*ast.Ident); !ok || id.Name != "value" || domKind(x.typeOf(kv.Value)) != "any" {
				return nil, "", true, x.errf(e, "leaf literal: field other than value")
			}
			b, v, err := x.expr(kv.Value)
			if err != nil {
				return nil, "", true, err
			}
			return b, "(GoDom.mkLeaf " + v + ")", true, nil
		}
	}
	if cl, ok := e.(*ast.CompositeLit); ok && len(cl.Elts) == 0 {
		if _, isMap := x.typeOf(e).Underlying().(*types.Map); isMap && domKind(x.typeOf(e)) == "cont" {
			return nil, "GoDom.newContainer", true, nil
		}
	}
	if cl, ok := e.(*ast.CompositeLit); ok && len(cl.Elts) == 0 && domKind(x.typeOf(e)) == "plainmap" {
		return nil, "GoDom.newPlainMap", true, nil
	}
	if c, ok := e.(*ast.CallExpr); ok && len(c.Args) == 2 {
		// make([]interface{}, n): n nil values
		if id, ok := c.Fun.(*ast.Ident); ok {
			if bi, ok := x.p.info.Uses[id].(*types.Builtin); ok && bi.Name() == "make" {
				if sl, ok := x.typeOf(e).Underlying().(*types.Slice); ok && domKind(sl.Elem()) == "plain" && isInty(x.typeOf(c.Args[1])) {
					b, n, err := x.expr(c.Args[1])
					if err != nil {
						return nil, "", true, err
					}
					return b, "(GoDom.makePlainList " + n + ")", true, nil
				}
			}
		}
	}
	if c, ok := e.(*ast.CallExpr); ok && len(c.Args) == 1 {
		// make(map[string]Node) / make(map[string]Leaf)
		if id, ok := c.Fun.(*ast.Ident); ok {
			if bi, ok := x.p.info.Uses[id].(*types.Builtin); ok && bi.Name() == "make" {
				if _, isMap := x.typeOf(e).Underlying().(*types.Map); isMap {
					switch domKind(x.typeOf(e)) {
					case "cont":
						return nil, "GoDom.newContainer", true, nil
					case "leafmap":
						return nil, "GoDom.newLeafMap", true, nil
					}
				}
			}
		}
	}
	return nil, "", false, nil
}

// numeric conversions: uint(i), int(math.Max(float64(a), float64(b)))
func (x *xl) domConversion(c *ast.CallExpr, to types.Type) ([]string, string, bool, error) {
	tb, ok := to.Underlying().(*types.Basic)
	if !ok || len(c.Args) != 1 {
		return nil, "", false, nil
	}
	from := x.typeOf(c.Args[0])
	if tb.Kind() == types.Uint && isInty(from) {
		b, s, err := x.expr(c.Args[0])
		return b, "(GoDom.uint " + s + ")", true, err
	}
	if tb.Kind() == types.Int {
		if fb, ok := from.Underlying().(*types.Basic); ok && fb.Kind() == types.Uint {
			b, s, err := x.expr(c.Args[0])
			return b, "(Int.ofNat " + s + ")", true, err
		}
		if inner, ok := c.Args[0].(*ast.CallExpr); ok && len(inner.Args) == 2 {
			if fn := x.calleeFunc(inner); fn != nil && fn.Pkg() != nil && fn.Pkg().Path() == "math" && (fn.Name() == "Max" || fn.Name() == "Min") {
				var parts []string
				var bs []string
				for _, a := range inner.Args {
					conv, ok := a.(*ast.CallExpr)
					if !ok || len(conv.Args) != 1 {
						return nil, "", true, x.errf(c, "int(math.%s(…)) whose operands are not float64(int)", fn.Name())
					}
					tv, ok := x.p.info.Types[conv.Fun]
					if !ok || !tv.IsType() || !isInty(x.typeOf(conv.Args[0])) {
						return nil, "", true, x.errf(c, "int(math.%s(…)) whose operands are not float64(int)", fn.Name())
					}
					if fb, ok := tv.Type.Underlying().(*types.Basic); !ok || fb.Kind() != types.Float64 {
						return nil, "", true, x.errf(c, "int(math.%s(…)) whose operands are not float64(int)", fn.Name())
					}
					b, s, err := x.expr(conv.Args[0])
					if err != nil {
						return nil, "", true, err
					}
					bs = append(bs, b...)
					parts = append(parts, s)
				}
				return bs, "(GoDom.int" + fn.Name() + " " + parts[0] + " " + parts[1] + ")", true, nil
			}
		}
	}
	return nil, "", false, nil
}

// ---------------------------------------------------------------- statements

func (x *xl) localBuilder(e ast.Expr, what string) (string, *types.Var, error) {
	id, ok := e.(*ast.Ident)
	if !ok {
		return "", nil, x.errf(e, "%s on something that is not a local variable", what)
	}
	v, ok := x.p.info.Uses[id].(*types.Var)
	if !ok || v.IsField() || v.Parent() == v.Pkg().Scope() {
		return "", nil, x.errf(e, "%s on %s (not a local variable)", what, id.Name)
	}
	if x.paramObjs[v] && v != x.acc {
		return "", nil, x.errf(e, "%s on the parameter %s: in-place mutation of a caller's object is not translated (aliasing)", what, id.Name)
	}
	if x.optVars[v] {
		return "", nil, x.errf(e, "%s on a possibly-nil variable", what)
	}
	x.mutated[v] = true
	return x.nameOf(v), v, nil
}

// domSimple: statements that mutate a local builder / map / accumulator
func (x *xl) domSimple(s ast.Stmt) ([]string, bool, error) {
	if err := x.noteAliases(s); err != nil {
		return nil, true, err
	}
	switch y := s.(type) {
	case *ast.ExprStmt:
		c, ok := y.X.(*ast.CallExpr)
		if !ok {
			return nil, false, nil
		}
		// delete(c.children, k) on the receiver being threaded / a local builder
		if id, ok := c.Fun.(*ast.Ident); ok && len(c.Args) == 2 {
			if bi, ok := x.p.info.Uses[id].(*types.Builtin); ok && bi.Name() == "delete" {
				fs, ok := c.Args[0].(*ast.SelectorExpr)
				if !ok || fs.Sel.Name != "children" || domKind(x.typeOf(fs.X)) != "cont" {
					return nil, true, x.errf(c, "delete on something other than the children of a container builder")
				}
				n, _, err := x.localBuilder(fs.X, "delete")
				if err != nil {
					return nil, true, err
				}
				bk, k, err := x.expr(c.Args[1])
				if err != nil {
					return nil, true, err
				}
				return append(bk, fmt.Sprintf("let %s := (GoDom.setChildren %s (GoDom.mapDelete (GoDom.children %s) %s))", n, n, n, k)), true, nil
			}
		}
		// slices.Reverse(xs) on a local slice
		if fn := x.calleeFunc(c); fn != nil && fn.Pkg() != nil && fn.Pkg().Path() == "slices" && fn.Name() == "Reverse" && len(c.Args) == 1 {
			id, ok := c.Args[0].(*ast.Ident)
			if !ok {
				return nil, true, x.errf(c, "slices.Reverse of something that is not a local variable")
			}
			n, _, err := x.lhsName(id)
			if err != nil {
				return nil, true, err
			}
			return []string{fmt.Sprintf("let %s := (GoDom.slicesReverse %s)", n, n)}, true, nil
		}
		// call of a function with an accumulator parameter
		if fn := x.calleeFunc(c); fn != nil {
			var cf *xlFunc
			if d := x.lookupDone(fn); d != nil {
				cf = d.f
			} else if r, ok := x.w.recs[fn]; ok {
				cf = r.f
			}
			if cf != nil && cf.Acc != "" {
				// the threaded variable: the caller's own accumulator, or `&local`
				target := ""
				sig := fn.Type().(*types.Signature)
				if cf.Acc == "$recv" {
					if sel, ok := c.Fun.(*ast.SelectorExpr); ok {
						n, _, err := x.localBuilder(sel.X, fn.Name())
						if err != nil {
							return nil, true, err
						}
						target = n
					}
				}
				for i := 0; i < sig.Params().Len() && i < len(c.Args); i++ {
					if sig.Params().At(i).Name() == cf.Acc {
						if n, ok := x.accArg(c.Args[i]); ok {
							target = n
						}
					}
				}
				if target == "" {
					return nil, true, x.errf(c, "call of %s: its accumulator argument is neither the caller's accumulator nor the address of a local variable", fn.Name())
				}
				x.inStmtCall = true
				b, v, err := x.callWhitelisted(c, fn)
				x.inStmtCall = false
				if err != nil {
					return nil, true, err
				}
				// callWhitelisted bound the result to a temporary: rebind the threaded variable
				return append(b, fmt.Sprintf("let %s := %s", target, v)), true, nil
			}
		}
		sel, ok := c.Fun.(*ast.SelectorExpr)
		if !ok {
			return nil, false, nil
		}
		k := domKind(x.typeOf(sel.X))
		if s2, ok := x.p.info.Selections[sel]; !ok || s2.Kind() != types.MethodVal || k == "" {
			return nil, false, nil
		}
		type ent struct {
			lean string
			args []string // "node" | "string" | "uint"
		}
		var tbl map[string]ent
		if k == "list" {
			tbl = map[string]ent{"Append": {"GoDom.append", []string{"node"}}, "Set": {"GoDom.set", []string{"uint", "node"}}}
		} else if k == "cont" {
			tbl = map[string]ent{"AddValue": {"GoDom.addValue", []string{"string", "node"}}, "Remove": {"GoDom.remove", []string{"string"}}}
		}
		if k == "cont" && sel.Sel.Name == "ensureChildren" && len(c.Args) == 0 {
			n, _, err := x.localBuilder(sel.X, sel.Sel.Name)
			if err != nil {
				return nil, true, err
			}
			return []string{fmt.Sprintf("let %s := (GoDom.ensureChildren %s)", n, n)}, true, nil
		}
		e, ok := tbl[sel.Sel.Name]
		if !ok || len(c.Args) != len(e.args) {
			return nil, true, x.errf(c, "statement call of method %s on a DOM value", sel.Sel.Name)
		}
		n, _, err := x.localBuilder(sel.X, sel.Sel.Name)
		if err != nil {
			return nil, true, err
		}
		var lines []string
		parts := []string{e.lean, n}
		for i, a := range c.Args {
			var b []string
			var v string
			var err error
			switch e.args[i] {
			case "node":
				b, v, err = x.exprTo(a, x.nodeType(), false)
			case "string":
				if !isStringy(x.typeOf(a)) {
					return nil, true, x.errf(a, "argument of %s", sel.Sel.Name)
				}
				b, v, err = x.expr(a)
			case "uint":
				if bt, ok := x.typeOf(a).Underlying().(*types.Basic); !ok || bt.Kind() != types.Uint {
					return nil, true, x.errf(a, "argument of %s", sel.Sel.Name)
				}
				b, v, err = x.expr(a)
			}
			if err != nil {
				return nil, true, err
			}
			lines = append(lines, b...)
			parts = append(parts, v)
		}
		return append(lines, fmt.Sprintf("let %s := (%s)", n, strings.Join(parts, " "))), true, nil
	case *ast.AssignStmt:
		if y.Tok == token.DEFINE && len(y.Lhs) == 1 && len(y.Rhs) == 1 && x.acc != nil {
			// `m := *ret` where the accumulator points to a MAP: m is the same map (reference type) — one name
			if st, ok := y.Rhs[0].(*ast.StarExpr); ok {
				if id, ok := st.X.(*ast.Ident); ok && x.p.info.Uses[id] == x.acc {
					if _, isMap := x.typeOf(y.Rhs[0]).Underlying().(*types.Map); isMap {
						lid, ok := y.Lhs[0].(*ast.Ident)
						if !ok || x.p.info.Defs[lid] == nil {
							return nil, true, x.errf(s, "alias of the accumulator map")
						}
						x.names[x.p.info.Defs[lid]] = x.nameOf(x.acc)
						x.accAlias[x.p.info.Defs[lid]] = true
						return nil, true, nil
					}
				}
			}
		}
		if y.Tok != token.ASSIGN || len(y.Lhs) != 1 || len(y.Rhs) != 1 {
			return nil, false, nil
		}
		switch l := y.Lhs[0].(type) {
		case *ast.IndexExpr:
			// m[k] = v on a local Go map
			if fs, ok := l.X.(*ast.SelectorExpr); ok && fs.Sel.Name == "items" && domKind(x.typeOf(fs.X)) == "list" {
				// l.items[i] = v on the receiver being threaded / a local builder: panics when out of range
				n, _, err := x.localBuilder(fs.X, "element assignment")
				if err != nil {
					return nil, true, err
				}
				if bt, ok := x.typeOf(l.Index).Underlying().(*types.Basic); !ok || bt.Kind() != types.Uint {
					return nil, true, x.errf(l, "items index that is not a uint")
				}
				bi, i, err := x.expr(l.Index)
				if err != nil {
					return nil, true, err
				}
				bv, v, err := x.exprTo(y.Rhs[0], x.nodeType(), false)
				if err != nil {
					return nil, true, err
				}
				return append(append(bi, bv...), fmt.Sprintf("let %s ← GoDom.setItemAt %s %s %s", n, n, i, v)), true, nil
			}
			if _, isMap := x.typeOf(l.X).Underlying().(*types.Map); isMap && domKind(x.typeOf(l.X)) == "plainmap" {
				n, _, err := x.localBuilder(l.X, "map assignment")
				if err != nil {
					return nil, true, err
				}
				bk, k, err := x.expr(l.Index)
				if err != nil {
					return nil, true, err
				}
				bv, v, err := x.exprTo(y.Rhs[0], x.typeOf(l.X).Underlying().(*types.Map).Elem(), false)
				if err != nil {
					return nil, true, err
				}
				return append(append(bk, bv...), fmt.Sprintf("let %s := (GoDom.plainMapSet %s %s %s)", n, n, k, v)), true, nil
			}
			if sl, isSl := x.typeOf(l.X).Underlying().(*types.Slice); isSl && domKind(sl.Elem()) == "plain" {
				// res[i] = v on a slice the function made itself and never copies (no alias can see the write)
				n, v, err := x.localBuilder(l.X, "element assignment")
				if err != nil {
					return nil, true, err
				}
				if err := x.unaliasedLocalSlice(l.X, v); err != nil {
					return nil, true, err
				}
				bi, i, err := x.expr(l.Index)
				if err != nil {
					return nil, true, err
				}
				if !isInty(x.typeOf(l.Index)) {
					return nil, true, x.errf(l, "index that is not an int")
				}
				bv, val, err := x.exprTo(y.Rhs[0], sl.Elem(), false)
				if err != nil {
					return nil, true, err
				}
				return append(append(bi, bv...), fmt.Sprintf("let %s ← GoDom.plainListSet %s %s %s", n, n, i, val)), true, nil
			}
			if _, isMap := x.typeOf(l.X).Underlying().(*types.Map); isMap && domKind(x.typeOf(l.X)) == "leafmap" {
				// m[k] = leaf on a local map[string]Leaf (or the alias `m := *ret` of the accumulator)
				n, _, err := x.localBuilder(l.X, "map assignment")
				if err != nil {
					return nil, true, err
				}
				bk, k, err := x.expr(l.Index)
				if err != nil {
					return nil, true, err
				}
				bv, v, err := x.exprTo(y.Rhs[0], x.typeOf(l.X).Underlying().(*types.Map).Elem(), false)
				if err != nil {
					return nil, true, err
				}
				return append(append(bk, bv...), fmt.Sprintf("let %s := (GoDom.leafMapSet %s %s %s)", n, n, k, v)), true, nil
			}
			if _, isMap := x.typeOf(l.X).Underlying().(*types.Map); !isMap || domKind(x.typeOf(l.X)) != "cont" {
				return nil, false, nil
			}
			if fs, ok := l.X.(*ast.SelectorExpr); ok && fs.Sel.Name == "children" && domKind(x.typeOf(fs.X)) == "cont" {
				// c2.children[k] = v on a local builder
				n, _, err := x.localBuilder(fs.X, "map assignment")
				if err != nil {
					return nil, true, err
				}
				bk, k, err := x.expr(l.Index)
				if err != nil {
					return nil, true, err
				}
				bv, v, err := x.exprTo(y.Rhs[0], x.nodeType(), false)
				if err != nil {
					return nil, true, err
				}
				return append(append(bk, bv...), fmt.Sprintf("let %s := (GoDom.setChildren %s (GoDom.mapSet (GoDom.children %s) %s %s))", n, n, n, k, v)), true, nil
			}
			n, _, err := x.localBuilder(l.X, "map assignment")
			if err != nil {
				return nil, true, err
			}
			bk, k, err := x.expr(l.Index)
			if err != nil {
				return nil, true, err
			}
			bv, v, err := x.exprTo(y.Rhs[0], x.nodeType(), false)
			if err != nil {
				return nil, true, err
			}
			return append(append(bk, bv...), fmt.Sprintf("let %s := (GoDom.mapSet %s %s %s)", n, n, k, v)), true, nil
		case *ast.SelectorExpr:
			// r.children = m / l.items = xs on a local builder
			k := domKind(x.typeOf(l.X))
			var fn string
			if k == "cont" && l.Sel.Name == "children" {
				fn = "GoDom.setChildren"
			} else if k == "list" && l.Sel.Name == "items" {
				fn = "GoDom.setItems"
			} else {
				return nil, false, nil
			}
			n, _, err := x.localBuilder(l.X, "field assignment")
			if err != nil {
				return nil, true, err
			}
			b, v, err := x.expr(y.Rhs[0])
			if err != nil {
				return nil, true, err
			}
			if x.nullable(y.Rhs[0]) {
				return nil, true, x.errf(s, "possibly-nil value stored in a builder")
			}
			return append(b, fmt.Sprintf("let %s := (%s %s %s)", n, fn, n, v)), true, nil
		case *ast.StarExpr:
			// *res = append(*res, …)
			id, ok := l.X.(*ast.Ident)
			if !ok || x.acc == nil || x.p.info.Uses[id] != x.acc {
				return nil, false, nil
			}
			b, v, err := x.expr(y.Rhs[0])
			if err != nil {
				return nil, true, err
			}
			return append(b, fmt.Sprintf("let %s := %s", x.nameOf(x.acc), v)), true, nil
		}
	}
	return nil, false, nil
}

// optionMatch: `if v := E; v != nil {A} else {B}` / `if v, ok := m[k]; ok {A} else {B}` → match
func (x *xl) optionMatch(y *ast.IfStmt, rest []ast.Stmt, k *cont) ([]string, bool, error) {
	as, ok := y.Init.(*ast.AssignStmt)
	if !ok || as.Tok != token.DEFINE || len(as.Rhs) != 1 {
		return nil, false, nil
	}
	info := x.p.info
	var lines []string
	var scrut string
	var vObj, okObj types.Object
	someFirst := true
	if ta, isTA := as.Rhs[0].(*ast.TypeAssertExpr); isTA && len(as.Lhs) == 2 && ta.Type != nil {
		// if l, ok := n.(dom.List); ok {A} else {B}
		fn := map[string]string{"list": "GoDom.asList?", "cont": "GoDom.asContainer?", "leaf": "GoDom.asLeaf?"}[domKind(x.typeOf(ta.Type))]
		if bt, ok := x.typeOf(ta.Type).(*types.Basic); ok && bt.Kind() == types.String && domKind(x.typeOf(ta.X)) == "any" {
			// s, ok := v.(string) on a leaf's value
			fn = "GoDom.anyString?"
		} else if fn == "" || domKind(x.typeOf(ta.X)) != "node" {
			return nil, true, x.errf(y, "comma-ok type assertion from %s to %s", x.typeOf(ta.X), x.typeOf(ta.Type))
		}
		cid, ok := y.Cond.(*ast.Ident)
		okId, ok2 := as.Lhs[1].(*ast.Ident)
		vId, ok3 := as.Lhs[0].(*ast.Ident)
		if !ok || !ok2 || !ok3 || info.Uses[cid] == nil || info.Uses[cid] != info.Defs[okId] {
			return nil, true, x.errf(y, "comma-ok type assertion whose condition is not the ok variable")
		}
		if x.nullable(ta.X) {
			// a nil interface value fails the assertion (ok = false) instead of panicking
			return nil, true, x.errf(y, "comma-ok type assertion on a possibly-nil value")
		}
		b, v, err := x.expr(ta.X)
		if err != nil {
			return nil, true, err
		}
		lines = append(lines, b...)
		scrut = fn + " " + v
		vObj, okObj = info.Defs[vId], info.Defs[okId]
	} else if len(as.Lhs) == 2 {
		ix, ok := as.Rhs[0].(*ast.IndexExpr)
		if !ok {
			return nil, false, nil
		}
		if _, isMap := x.typeOf(ix.X).Underlying().(*types.Map); !isMap || domKind(x.typeOf(ix.X)) != "cont" {
			return nil, false, nil
		}
		cid, ok := y.Cond.(*ast.Ident)
		okId, ok2 := as.Lhs[1].(*ast.Ident)
		vId, ok3 := as.Lhs[0].(*ast.Ident)
		if !ok || !ok2 || !ok3 || info.Uses[cid] == nil || info.Uses[cid] != info.Defs[okId] {
			return nil, true, x.errf(y, "comma-ok map lookup whose condition is not the ok variable")
		}
		bm, m, err := x.expr(ix.X)
		if err != nil {
			return nil, true, err
		}
		bk, key, err := x.expr(ix.Index)
		if err != nil {
			return nil, true, err
		}
		lines = append(append(lines, bm...), bk...)
		scrut = fmt.Sprintf("GoDom.mapGet %s %s", m, key)
		vObj, okObj = info.Defs[vId], info.Defs[okId]
	} else if len(as.Lhs) == 1 {
		if !x.nullable(as.Rhs[0]) || isNilIdent(info, as.Rhs[0]) {
			return nil, false, nil
		}
		vId, ok := as.Lhs[0].(*ast.Ident)
		be, ok2 := y.Cond.(*ast.BinaryExpr)
		if !ok || !ok2 || (be.Op != token.NEQ && be.Op != token.EQL) {
			return nil, false, nil
		}
		var other ast.Expr
		if isNilIdent(info, be.Y) {
			other = be.X
		} else if isNilIdent(info, be.X) {
			other = be.Y
		}
		oid, ok := other.(*ast.Ident)
		if other == nil || !ok || info.Uses[oid] != info.Defs[vId] {
			return nil, false, nil
		}
		b, s, err := x.expr(as.Rhs[0])
		if err != nil {
			return nil, true, err
		}
		lines = append(lines, b...)
		scrut = s
		vObj = info.Defs[vId]
		someFirst = be.Op == token.NEQ
	} else {
		return nil, false, nil
	}
	var someS, noneS []ast.Stmt
	var elseS []ast.Stmt
	if y.Else != nil {
		elseS = []ast.Stmt{y.Else}
	}
	if someFirst {
		someS, noneS = y.Body.List, elseS
	} else {
		someS, noneS = elseS, y.Body.List
	}
	// in the nil branch the variable is nil: it must not be used there
	used := false
	for _, st := range noneS {
		ast.Inspect(st, func(n ast.Node) bool {
			if id, ok := n.(*ast.Ident); ok && vObj != nil && info.Uses[id] == vObj {
				used = true
			}
			return true
		})
	}
	if used {
		return nil, true, x.errf(y, "the nil-tested variable is used in its nil branch")
	}
	vName := "_"
	if vObj != nil {
		vName = x.nameOf(vObj)
	}
	pre := func(val string) []string {
		if okObj != nil {
			return []string{fmt.Sprintf("let %s := %s", x.nameOf(okObj), val)}
		}
		return nil
	}
	someL, err := x.block(append(append([]ast.Stmt{}, someS...), rest...), k)
	if err != nil {
		return nil, true, err
	}
	noneL, err := x.block(append(append([]ast.Stmt{}, noneS...), rest...), k)
	if err != nil {
		return nil, true, err
	}
	lines = append(lines, "match "+scrut+" with")
	lines = append(lines, "| some "+vName+" =>"+x.blockKw())
	lines = append(lines, ind(append(pre("true"), someL...))...)
	lines = append(lines, "| none =>"+x.blockKw())
	lines = append(lines, ind(append(pre("false"), noneL...))...)
	return lines, true, nil
}

// ---------------------------------------------------------------- calls of whitelisted functions

type xlRec struct {
	lean   string // name of the fuel-indexed definition
	param  string // name under which the recursive callee is visible in bodies and loops
	f      *xlFunc
	typ    string // Lean type of `param`
	sig    *types.Signature
	nflat  int
	isDisp bool
}

func (w *xlWorld) sigLeanTypes(f *xlFunc, sig *types.Signature) (params []string, res string, err error) {
	null := map[string]bool{}
	for _, n := range f.Nullable {
		null[n] = true
	}
	add := func(v *types.Var, variadic bool) error {
		var t string
		var err error
		if f.Acc != "" && v.Name() == f.Acc {
			pt, ok := v.Type().Underlying().(*types.Pointer)
			if !ok {
				return fmt.Errorf("accumulator %s is not a pointer", f.Acc)
			}
			t, err = w.leanType(pt.Elem())
		} else {
			t, err = w.leanType(v.Type())
		}
		if err != nil {
			return err
		}
		if null[v.Name()] {
			t = "(Option " + t + ")"
		}
		params = append(params, t)
		return nil
	}
	if r := sig.Recv(); r != nil && !f.Flatten {
		if err := add(r, false); err != nil {
			return nil, "", err
		}
	}
	for i := 0; i < sig.Params().Len(); i++ {
		if err := add(sig.Params().At(i), false); err != nil {
			return nil, "", err
		}
	}
	var rts []string
	for i := 0; i < sig.Results().Len(); i++ {
		t, err := w.leanType(sig.Results().At(i).Type())
		if err != nil {
			return nil, "", err
		}
		if f.NullRes {
			t = "(Option " + t + ")"
		}
		rts = append(rts, t)
	}
	if f.Acc == "$recv" && sig.Recv() != nil {
		t, err := w.leanType(sig.Recv().Type())
		if err != nil {
			return nil, "", err
		}
		rts = []string{t}
	} else if f.Acc != "" {
		for i := 0; i < sig.Params().Len(); i++ {
			if v := sig.Params().At(i); v.Name() == f.Acc {
				t, _ := w.leanType(v.Type().Underlying().(*types.Pointer).Elem())
				rts = append(rts, t)
			}
		}
	}
	return params, tupleType(rts), nil
}

// registerRecs: the members of a recursion group are known to each other before their bodies are translated
func (w *xlWorld) registerRecs(fs []xlFunc, ps []*xlPkg, fds []*ast.FuncDecl) error {
	for i := range fs {
		f := &fs[i]
		if f.RecFuel == "" {
			if f.RecGroup != "" {
				return fmt.Errorf("%s: RecGroup without RecFuel", f.Name)
			}
			continue
		}
		if f.Dispatch != "" {
			continue
		}
		fn := ps[i].info.Defs[fds[i].Name].(*types.Func)
		sig := fn.Type().(*types.Signature)
		xlPlainMode = f.Plain
		pts, res, err := w.sigLeanTypes(f, sig)
		xlPlainMode = false
		if err != nil {
			return fmt.Errorf("%s.%s: %v", f.Pkg, f.Name, err)
		}
		w.recs[fn] = &xlRec{lean: f.Lean + "_rec", param: "rec_" + f.Lean, f: f, sig: sig,
			typ: "(" + strings.Join(append(pts, "Go.Res "+res), " → ") + ")"}
	}
	for i := range fs {
		if fs[i].Dispatch != "" {
			if err := w.registerDispatch(&fs[i], ps[i]); err != nil {
				return fmt.Errorf("%s.%s: %v", fs[i].Pkg, fs[i].Name, err)
			}
		}
	}
	return nil
}

const flatMark = "\x00FLATS\x00"

// assembleGroup: auxiliary loop definitions first, then the (mutual) fuel-indexed definitions, then the wrappers
func (w *xlWorld) assembleGroup(fs []xlFunc, texts []string) []string {
	var aux, recs, wraps, plain []string
	for _, t := range texts {
		parts := strings.Split(t, "\x01")
		if len(parts) == 3 {
			aux, recs, wraps = append(aux, parts[0]), append(recs, parts[1]), append(wraps, parts[2])
		} else {
			plain = append(plain, t)
		}
	}
	out := append([]string{}, plain...)
	for _, a := range aux {
		if strings.TrimSpace(a) != "" {
			out = append(out, strings.TrimRight(a, "\n")+"\n")
		}
	}
	if len(recs) > 1 {
		out = append(out, "mutual\n"+strings.Join(recs, "")+"end\n")
	} else if len(recs) == 1 {
		out = append(out, recs[0])
	}
	return append(out, wraps...)
}

// callWhitelisted: a call of a translated function / a member of the current recursion group
func (x *xl) callWhitelisted(c *ast.CallExpr, fn *types.Func) ([]string, string, error) {
	info := x.p.info
	sig := fn.Type().(*types.Signature)
	var head string
	var cf *xlFunc
	var flats []xlFlat
	monadic := true
	if r, ok := x.w.recs[fn]; ok && x.inGroup[fn] {
		head, cf = r.param, r.f
		x.touched[r.param] = true
	} else if d := x.lookupDone(fn); d != nil {
		head, cf, flats, monadic = d.lean, d.f, d.flat, d.monadic
		if d.nopaque > 0 {
			return nil, "", x.errf(c, "call of %s: it has opaque callees as parameters", fn.Name())
		}
	} else {
		return nil, "", x.errf(c, "call of %s (neither whitelisted nor a supported primitive)", funcKey(fn))
	}
	if cf.Curried {
		return nil, "", x.errf(c, "call of the curried function %s", fn.Name())
	}
	if cf.Acc == "$recv" && !x.inStmtCall {
		return nil, "", x.errf(c, "call of %s (it mutates its receiver) whose result is used: only the statement form rebinds the receiver", fn.Name())
	}
	x.inStmtCall = false
	var bs, args []string
	// receiver
	if sel, ok := c.Fun.(*ast.SelectorExpr); ok {
		if s, ok := info.Selections[sel]; ok && s.Kind() == types.MethodVal {
			if cf.Flatten {
				id, ok := sel.X.(*ast.Ident)
				if !ok || !x.f.Flatten || info.Uses[id] != x.recv {
					return nil, "", x.errf(c, "call of the flattened method %s on something other than the caller's receiver", fn.Name())
				}
			} else {
				b, v, err := x.exprTo(sel.X, sig.Recv().Type(), false)
				if err != nil {
					return nil, "", err
				}
				bs, args = append(bs, b...), append(args, v)
			}
		}
	}
	if !(cf.Flatten && x.inGroup[fn]) {
		// (a recursive callee is already applied to the identical flattened parameters)
		var ns []string
		for _, fl := range flats {
			n, err := x.flatParam(c, fl.key, fl.typ)
			if err != nil {
				return nil, "", err
			}
			ns = append(ns, n)
		}
		args = append(ns, args...)
	}
	null := map[string]bool{}
	for _, n := range cf.Nullable {
		null[n] = true
	}
	np := sig.Params().Len()
	for i := 0; i < np; i++ {
		pv := sig.Params().At(i)
		if sig.Variadic() && i == np-1 {
			if c.Ellipsis != token.NoPos {
				return nil, "", x.errf(c, "variadic call with ...")
			}
			et := pv.Type().(*types.Slice).Elem()
			var els []string
			for _, a := range c.Args[i:] {
				b, v, err := x.exprTo(a, et, false)
				if err != nil {
					return nil, "", err
				}
				bs, els = append(bs, b...), append(els, v)
			}
			args = append(args, "["+strings.Join(els, ", ")+"]")
			break
		}
		if i >= len(c.Args) {
			return nil, "", x.errf(c, "call with too few arguments")
		}
		a := c.Args[i]
		if cf.Acc != "" && pv.Name() == cf.Acc {
			n, ok := x.accArg(a)
			if !ok {
				return nil, "", x.errf(a, "accumulator argument that is neither the caller's accumulator nor the address of a local variable")
			}
			args = append(args, n)
			continue
		}
		b, v, err := x.exprTo(a, pv.Type(), null[pv.Name()])
		if err != nil {
			return nil, "", err
		}
		bs, args = append(bs, b...), append(args, v)
	}
	app := head + " " + strings.Join(args, " ")
	if monadic {
		bs, t := x.bindTmp(bs, app)
		return bs, t, nil
	}
	return bs, "(" + app + ")", nil
}

// flatParam: the caller's flattened-receiver parameter for the selector chain `key`
func (x *xl) flatParam(n ast.Node, key, typ string) (string, error) {
	if !x.f.Flatten {
		return "", x.errf(n, "callee needs the receiver field %s but the caller has no flattened receiver", key)
	}
	if nm, ok := x.flat[key]; ok {
		x.touched[nm] = true
		return nm, nil
	}
	nm := x.fresh(x.recv.Name() + "_" + strings.ReplaceAll(key, ".", "_"))
	x.flat[key] = nm
	x.flatKeys = append(x.flatKeys, key)
	x.touched[nm] = true
	x.flatPs = append(x.flatPs, xlParam{nm, typ})
	return nm, nil
}

// accArg: the Lean name threaded through a callee's accumulator parameter: the caller's own accumulator, or
// `&v` for a local variable v of the function (not a parameter: nobody else can see it)
func (x *xl) accArg(a ast.Expr) (string, bool) {
	if id, ok := a.(*ast.Ident); ok && x.acc != nil && x.p.info.Uses[id] == x.acc {
		return x.nameOf(x.acc), true
	}
	if u, ok := a.(*ast.UnaryExpr); ok && u.Op == token.AND {
		if id, ok := u.X.(*ast.Ident); ok {
			if v, ok := x.p.info.Uses[id].(*types.Var); ok && !v.IsField() && v.Parent() != v.Pkg().Scope() && !x.paramObjs[v] && !x.optVars[v] {
				return x.nameOf(v), true
			}
		}
	}
	return "", false
}

// domFuncValueCall (DOM mode; the plain mode has funcValueCall in translate_rec.go, a PURE function): a call `fn(args)` of a function-valued parameter / local variable (a visitor, a predicate):
// the function is a Lean parameter of type `… → Go.Res …`
func (x *xl) domFuncValueCall(c *ast.CallExpr, id *ast.Ident) ([]string, string, bool, error) {
	v, ok := x.p.info.Uses[id].(*types.Var)
	if !ok {
		return nil, "", false, nil
	}
	sig, ok := v.Type().Underlying().(*types.Signature)
	if !ok {
		return nil, "", false, nil
	}
	if v.IsField() || v.Parent() == v.Pkg().Scope() {
		return nil, "", true, x.errf(c, "call of the package-level function value %s", id.Name)
	}
	if sig.Variadic() || len(c.Args) != sig.Params().Len() {
		return nil, "", true, x.errf(c, "call of a function value: argument count")
	}
	args := []string{x.nameOf(v)}
	var bs []string
	for i, a := range c.Args {
		b, s, err := x.exprTo(a, sig.Params().At(i).Type(), false)
		if err != nil {
			return nil, "", true, err
		}
		bs, args = append(bs, b...), append(args, s)
	}
	bs, t := x.bindTmp(bs, strings.Join(args, " "))
	return bs, t, true, nil
}

// domStdlib: standard-library calls with a restricted argument shape
func (x *xl) domStdlib(c *ast.CallExpr, key string) ([]string, string, bool, error) {
	switch key {
	case "strings.Contains", "strings.HasSuffix":
		if len(c.Args) != 2 {
			return nil, "", true, x.errf(c, "call of %s", key)
		}
		bs, es, err := x.exprs(c.Args)
		if err != nil {
			return nil, "", true, err
		}
		prim := map[string]string{"strings.Contains": "GoDom.stringsContains", "strings.HasSuffix": "GoDom.hasSuffix"}[key]
		return bs, "(" + prim + " " + es[0] + " " + es[1] + ")", true, nil
	case "strings.Split":
		// strings.Split(s, sep) for a CONSTANT ONE-CHARACTER separator
		if len(c.Args) != 2 {
			return nil, "", true, x.errf(c, "call of %s", key)
		}
		tv := x.p.info.Types[c.Args[1]]
		if tv.Value == nil || tv.Value.Kind() != constant.String || len([]rune(constant.StringVal(tv.Value))) != 1 {
			return nil, "", true, x.errf(c, "strings.Split with a separator that is not a one-character constant")
		}
		b, s, err := x.expr(c.Args[0])
		if err != nil {
			return nil, "", true, err
		}
		return b, "(GoDom.stringsSplit1 " + s + " " + leanChar([]rune(constant.StringVal(tv.Value))[0]) + ")", true, nil
	}
	return nil, "", false, nil
}

// domRegexpCall: `re.FindStringIndex(s)` on a package-level regexp.MustCompile(literal)
func (x *xl) domRegexpCall(c *ast.CallExpr, f *ast.SelectorExpr) ([]string, string, bool, error) {
	id, ok := f.X.(*ast.Ident)
	if !ok || f.Sel.Name != "FindStringIndex" || len(c.Args) != 1 {
		return nil, "", false, nil
	}
	v, ok := x.p.info.Uses[id].(*types.Var)
	if !ok || v.Pkg() == nil || v.Parent() != v.Pkg().Scope() {
		return nil, "", false, nil
	}
	pat, ok := x.regexpPattern(v)
	if !ok {
		return nil, "", true, x.errf(c, "FindStringIndex on %s: not a package-level regexp.MustCompile(literal)", id.Name)
	}
	prim, ok := xlRegexpFind[pat]
	if !ok {
		return nil, "", true, x.errf(c, "FindStringIndex: regular expression %q has no DomPrelude counterpart", pat)
	}
	b, s, err := x.expr(c.Args[0])
	if err != nil {
		return nil, "", true, err
	}
	return b, "(" + prim + " " + s + ")", true, nil
}

// domIndex: `m[k]` on a map[string]dom.Node (nil when absent)
func (x *xl) domIndex(y *ast.IndexExpr) ([]string, string, bool, error) {
	fn := map[string]string{"cont": "GoDom.mapGet", "contmap": "GoDom.contMapGet"}[domKind(x.typeOf(y.X))]
	if _, isMap := x.typeOf(y.X).Underlying().(*types.Map); !isMap || fn == "" {
		return nil, "", false, nil
	}
	bm, m, err := x.expr(y.X)
	if err != nil {
		return nil, "", true, err
	}
	bk, k, err := x.expr(y.Index)
	if err != nil {
		return nil, "", true, err
	}
	return append(bm, bk...), "(" + fn + " " + m + " " + k + ")", true, nil
}

// unaliasedLocalSlice: the local slice variable v was created by `make` in this function and every use of it is an
// element assignment `v[i] = …`, `len(v)`, or `return v` — so no other name can observe an element write
func (x *xl) unaliasedLocalSlice(at ast.Node, v *types.Var) error {
	info := x.p.info
	made := false
	okUse := map[*ast.Ident]bool{}
	ast.Inspect(x.fd.Body, func(n ast.Node) bool {
		switch y := n.(type) {
		case *ast.AssignStmt:
			if y.Tok == token.DEFINE && len(y.Lhs) == 1 && len(y.Rhs) == 1 {
				if id, ok := y.Lhs[0].(*ast.Ident); ok && info.Defs[id] == v {
					if c, ok := y.Rhs[0].(*ast.CallExpr); ok {
						if f, ok := c.Fun.(*ast.Ident); ok {
							if bi, ok := info.Uses[f].(*types.Builtin); ok && bi.Name() == "make" {
								made = true
							}
						}
					}
				}
			}
			if y.Tok == token.ASSIGN {
				for _, l := range y.Lhs {
					if ix, ok := l.(*ast.IndexExpr); ok {
						if id, ok := ix.X.(*ast.Ident); ok && info.Uses[id] == v {
							okUse[id] = true
						}
					}
				}
			}
		case *ast.ReturnStmt:
			for _, r := range y.Results {
				if id, ok := r.(*ast.Ident); ok && info.Uses[id] == v {
					okUse[id] = true
				}
			}
		case *ast.CallExpr:
			if f, ok := y.Fun.(*ast.Ident); ok && len(y.Args) == 1 {
				if bi, ok := info.Uses[f].(*types.Builtin); ok && bi.Name() == "len" {
					if id, ok := y.Args[0].(*ast.Ident); ok && info.Uses[id] == v {
						okUse[id] = true
					}
				}
			}
		}
		return true
	})
	bad := false
	ast.Inspect(x.fd.Body, func(n ast.Node) bool {
		if id, ok := n.(*ast.Ident); ok && info.Uses[id] == v && !okUse[id] {
			bad = true
		}
		return true
	})
	if !made || bad {
		return x.errf(at, "element assignment to a slice that is not a local `make` result used only by index assignment, len and return (aliasing)")
	}
	return nil
}

// ---------------------------------------------------------------- aliasing of reference values
//
// Builders, Go maps and DOM containers / lists are REFERENCES in Go; the translation gives every variable a VALUE.
// The two agree as long as no object that is mutated in place (functional update, see localBuilder) is reachable
// through two names.  noteAliases records every copy `a := b` / `a = b` / `var a = b` between variables of such a
// kind; checkAliases (end of the function) fails when one side of a recorded copy is a mutation target.

func isRefKind(t types.Type) bool {
	switch domKind(t) {
	case "cont", "list", "leafmap", "contmap", "plainmap", "node":
		return true
	}
	return false
}

func (x *xl) noteAliases(s ast.Stmt) error {
	info := x.p.info
	varOf := func(e ast.Expr) types.Object {
		for {
			p, ok := e.(*ast.ParenExpr)
			if !ok {
				break
			}
			e = p.X
		}
		id, ok := e.(*ast.Ident)
		if !ok {
			return nil
		}
		if o := info.Defs[id]; o != nil {
			return o
		}
		if v, ok := info.Uses[id].(*types.Var); ok && !v.IsField() {
			return v
		}
		return nil
	}
	pair := func(l, r ast.Expr) error {
		lo, ro := varOf(l), varOf(r)
		if lo != nil && x.accAlias[lo] {
			return x.errf(s, "assignment to %s, the second name of the accumulator map", lo.Name())
		}
		if lo == nil || ro == nil || lo == ro || !isRefKind(ro.Type()) {
			return nil
		}
		x.aliasPairs = append(x.aliasPairs, [2]types.Object{lo, ro})
		return nil
	}
	switch y := s.(type) {
	case *ast.AssignStmt:
		if len(y.Lhs) == len(y.Rhs) {
			for i := range y.Lhs {
				if err := pair(y.Lhs[i], y.Rhs[i]); err != nil {
					return err
				}
			}
		} else {
			for _, l := range y.Lhs {
				if lo := varOf(l); lo != nil && x.accAlias[lo] {
					return x.errf(s, "assignment to %s, the second name of the accumulator map", lo.Name())
				}
			}
		}
	case *ast.DeclStmt:
		if gd, ok := y.Decl.(*ast.GenDecl); ok {
			for _, sp := range gd.Specs {
				if vs, ok := sp.(*ast.ValueSpec); ok && len(vs.Values) == len(vs.Names) {
					for i := range vs.Names {
						if err := pair(vs.Names[i], vs.Values[i]); err != nil {
							return err
						}
					}
				}
			}
		}
	}
	return nil
}

func (x *xl) checkAliases() error {
	for _, p := range x.aliasPairs {
		if x.mutated[p[0]] || x.mutated[p[1]] {
			return fmt.Errorf("%s: unsupported: %s and %s name the same object and one of them is mutated in place (aliasing)",
				x.w.fset.Position(p[0].Pos()), p[0].Name(), p[1].Name())
		}
	}
	return nil
}

// declThenAssign: s is `var v T` (one name, no value, a DOM kind) and the next statement is `v = e` with an e that
// cannot be nil and does not mention v
func (x *xl) declThenAssign(s ast.Stmt, rest []ast.Stmt) bool {
	ds, ok := s.(*ast.DeclStmt)
	if !ok || len(rest) == 0 {
		return false
	}
	gd, ok := ds.Decl.(*ast.GenDecl)
	if !ok || gd.Tok != token.VAR || len(gd.Specs) != 1 {
		return false
	}
	vs, ok := gd.Specs[0].(*ast.ValueSpec)
	if !ok || len(vs.Names) != 1 || len(vs.Values) != 0 {
		return false
	}
	o := x.p.info.Defs[vs.Names[0]]
	if o == nil || domKind(o.Type()) == "" || domKind(o.Type()) == "any" || domKind(o.Type()) == "plain" {
		return false
	}
	as, ok := rest[0].(*ast.AssignStmt)
	if !ok || as.Tok != token.ASSIGN || len(as.Lhs) != 1 || len(as.Rhs) != 1 {
		return false
	}
	id, ok := as.Lhs[0].(*ast.Ident)
	if !ok || x.p.info.Uses[id] != o || x.nullable(as.Rhs[0]) || isNilIdent(x.p.info, as.Rhs[0]) {
		return false
	}
	mentions := false
	ast.Inspect(as.Rhs[0], func(n ast.Node) bool {
		if i2, ok := n.(*ast.Ident); ok && x.p.info.Uses[i2] == o {
			mentions = true
		}
		return true
	})
	return !mentions
}

// curriedLit: the function literal of a body that is exactly `return func(…) … { … }`
func (x *xl) curriedLit(fd *ast.FuncDecl) (*ast.FuncLit, *types.Signature, error) {
	if len(fd.Body.List) != 1 {
		return nil, nil, x.errf(fd, "Curried: the body is not a single return of a function literal")
	}
	rs, ok := fd.Body.List[0].(*ast.ReturnStmt)
	if !ok || len(rs.Results) != 1 {
		return nil, nil, x.errf(fd, "Curried: the body is not a single return of a function literal")
	}
	lit, ok := rs.Results[0].(*ast.FuncLit)
	if !ok {
		return nil, nil, x.errf(fd, "Curried: the body is not a single return of a function literal")
	}
	lsig, ok := x.p.info.Types[lit].Type.(*types.Signature)
	if !ok || lsig.Variadic() {
		return nil, nil, x.errf(fd, "Curried: signature of the literal")
	}
	return lit, lsig, nil
}
