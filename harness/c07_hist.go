package main

import (
	"encoding/json"
	"math/rand"

	"github.com/rkosegi/yaml-toolkit/diff"
	"github.com/rkosegi/yaml-toolkit/dom"
	"github.com/rkosegi/yaml-toolkit/pipeline"
)

// C07 — "identical on every invocation", "it contains nothing else": the result of a call is a function of its two
// arguments.  It does not depend on which calls were made before it in the process — ordinary ones, or calls that
// FAILED: a call on documents Diff cannot process panics (on the unchanged tree as well), the caller recovers
// (text/template does so for the pipeline's domdiff function) and goes on to diff ordinary documents.
//
// A case holds the ordinary pair (L, R) that is checked and the pair (FL, FR) of the failing call.  (FL, FR) are
// ordinary documents as well, differing at several positions, into which the harness plants what makes the call fail
// part-way (How), at the common container position At:
//   - "uncomparable": both sides hold, under one more key, a leaf whose Go value go-cmp refuses to compare
//     (a struct with an unexported field);
//   - "nil-member": the left side holds a nil Node under one more key;
//   - "nil-right": the right argument is nil.
// Via: the route of both calls — diff.Diff, the domdiff template function, diff.OverlayDocs (one layer per side).

type c07AfterFail struct {
	L   W      `json:"l"`
	R   W      `json:"r"`
	FL  W      `json:"fl"`
	FR  W      `json:"fr"`
	At  []any  `json:"at,omitempty"`
	How string `json:"how"`
	Via string `json:"via"`
}

type c07Opaque struct{ n int }

const c07HostileKey = "zz-hostile"

// c07CommonConts lists the key paths of containers present (as containers) in both documents, the roots included.
func c07CommonConts(l, r W, at []any, out *[][]any) {
	lc, lok := wireCont(l)
	rc, rok := wireCont(r)
	if !lok || !rok {
		return
	}
	*out = append(*out, append([]any{}, at...))
	for _, k := range sortedKeys(lc) {
		if rv, ok := rc[k]; ok {
			c07CommonConts(lc[k], rv, append(append([]any{}, at...), k), out)
		}
	}
}

func c07ContAt(root dom.ContainerBuilder, at []any) dom.ContainerBuilder {
	cur := root
	for _, s := range at {
		k, ok := s.(string)
		if !ok {
			return root
		}
		nb, ok := cur.Children()[k].(dom.ContainerBuilder)
		if !ok {
			return root
		}
		cur = nb
	}
	return cur
}

// c07Hostile builds the two arguments of the failing call.
func c07Hostile(p c07AfterFail) (dom.Container, dom.Container) {
	fl, fr := wireContainer(p.FL), wireContainer(p.FR)
	switch p.How {
	case "nil-member":
		c07ContAt(fl, p.At).AddValue(c07HostileKey, nil)
	case "nil-right":
		return fl, nil
	default:
		c07ContAt(fl, p.At).AddValue(c07HostileKey, dom.LeafNode(c07Opaque{1}))
		c07ContAt(fr, p.At).AddValue(c07HostileKey, dom.LeafNode(c07Opaque{2}))
	}
	return fl, fr
}

func c07OneLayer(c dom.Container) dom.OverlayDocument {
	ov := dom.NewOverlayDocument()
	if c != nil {
		ov.Add("base", c)
	}
	return ov
}

func c07RunHist(c *Ctx) {
	r := c.Rng
	for i := 0; i < c.N(400); i++ {
		c.Tick()
		p := c07GenPair(r)
		f := c07GenPair(r)
		if r.Intn(3) > 0 {
			// the failing call's documents differ at many positions
			g := c07Gen(r)
			g.MaxWidth = 6
			f.L = g.Doc(r)
			f.R = g.Mutate(r, g.Mutate(r, g.Mutate(r, f.L)))
			if r.Intn(2) == 0 {
				f.R = g.Doc(r)
			}
		}
		var at [][]any
		c07CommonConts(f.L, f.R, nil, &at)
		cs := c07AfterFail{L: p.L, R: p.R, FL: f.L, FR: f.R,
			How: pick(r, []string{"uncomparable", "uncomparable", "nil-member", "nil-member", "nil-right"}),
			Via: pick(r, []string{"diff", "diff", "diff", "domdiff", "overlay"})}
		if len(at) > 0 {
			cs.At = pick(r, at)
		}
		c.Do("afterfail", cs)
	}
}

func c07EvalAfterFail(c *Ctx, raw []byte) {
	var p c07AfterFail
	if err := json.Unmarshal(raw, &p); err != nil {
		panic(err)
	}
	if !c07IsDoc(p.L) || !c07IsDoc(p.R) || !c07IsDoc(p.FL) || !c07IsDoc(p.FR) {
		c.Dist("afterfail:not-a-document(skipped)")
		return
	}
	ref := c07RefDiff(p.L, p.R)
	if len(ref) > 0 {
		c.Nontrivial()
	}
	// one ordinary call on (L, R) by the chosen route, as canonical data
	call := func() (any, string) {
		var res any
		out, _ := guard(func() {
			l, r := wireContainer(p.L), wireContainer(p.R)
			switch p.Via {
			case "domdiff":
				a := &c07TplAction{tmpl: c07Tpl, data: map[string]interface{}{"l": l, "r": r}}
				err := pipeline.New().Execute(a)
				res = map[string]any{"out": a.out, "err": errTag(err)}
			case "overlay":
				m := map[string]any{}
				for k, ms := range diff.OverlayDocs(c07OneLayer(l), c07OneLayer(r)) {
					m[k] = c07ModsWire(*ms)
				}
				res = m
			default:
				res = c07ModsWire(*diff.Diff(l, r))
			}
		})
		return res, out
	}
	var want any
	switch p.Via {
	case "domdiff":
		var ms []diff.Modification
		for _, m := range ref {
			ms = append(ms, diff.Modification{Type: diff.ModificationType(m.Ty), Path: m.Path, Value: c07Scalar(m.Value), OldValue: c07Scalar(m.Old)})
		}
		want = map[string]any{"out": c07Render(ms), "err": "ok"}
	case "overlay":
		want = map[string]any{"base": ref}
	default:
		want = ref
	}
	before, out := call()
	if !c.Direct("no-panic", out == "ok", p.Via) {
		return
	}
	if !c.Direct("exactly-the-stated-modifications(reference)", canon(before) == canon(want), map[string]any{"via": p.Via, "result": before, "reference": want}) {
		return
	}
	failed, emitted := 0, 0
	for round := 0; round < 4; round++ {
		// the failing call, recovered by the caller
		fout, _ := guard(func() {
			fl, fr := c07Hostile(p)
			switch p.Via {
			case "domdiff":
				a := &c07TplAction{tmpl: c07Tpl, data: map[string]interface{}{"l": fl, "r": fr}}
				if err := pipeline.New().Execute(a); err != nil {
					panic(err)
				}
			case "overlay":
				diff.OverlayDocs(c07OneLayer(fl), c07OneLayer(fr))
			default:
				diff.Diff(fl, fr)
			}
		})
		if fout != "ok" {
			failed++
		}
		after, out := call()
		if !c.Direct("no-panic(after a failed call)", out == "ok", p.Via) {
			return
		}
		if !c.Direct("result-unaffected-by-an-earlier-failed-call", canon(after) == canon(before),
			map[string]any{"via": p.Via, "before the failed call": before, "after it": after, "reference": want}) {
			return
		}
		again, _ := call()
		if !c.Direct("repeated-calls-equal(after a failed call)", canon(again) == canon(after), map[string]any{"via": p.Via, "first": after, "second": again}) {
			return
		}
	}
	_ = emitted
	if failed > 0 {
		c.Dist("afterfail:earlier-call-failed:" + p.How + ":" + p.Via)
	} else {
		c.Dist("afterfail:earlier-call-succeeded:" + p.How)
	}
}

// c07Scalar: the Go value of a wire scalar.
func c07Scalar(w W) any {
	m, _ := w.(map[string]any)
	t, _ := m["t"].(string)
	s, _ := m["v"].(string)
	return scalarFromWire(t, s)
}

var _ = rand.Int
