package main

import (
	"fmt"
	"math/rand"
	"strings"
)

// C13 — the patch clause read against RFC 6902 itself.
//
// "The patch operation has exactly the effect of the corresponding JSON Patch operation": next to
// the comparison of pipeline.PatchOp with the library's own patch.Do (c13EvalPatch), the outcome
// and the document after the operation are compared with the RFC 6902 reference interpreter of
// harness/c09_ref.go (written from the RFC text, over plain wire trees), on every route.  The value
// of the operation is what the operation carries (the decoded AnyVal) or a copy of what valueFrom
// addresses in the document at that moment.
//
// Scope of the comparison (the same as C09's): non-root locations whose tokens are non-empty member
// names or canonical indices (never "-"); pointer strings that do not parse, root locations and
// empty tokens stay with the PatchOp == patch.Do comparison alone.
//
// Generator (c13RunPatchRFC): operations whose locations are RELATED — from and path inside one
// list (reordering; RFC 6902 4.4: the target is resolved in the document that no longer holds the
// source), from a list element into another element of the same list, path an ancestor / a
// descendant of from, from == path, members of one container, list element <-> container member —
// on documents holding a list of 2, 3, 5, 6, 7 or 9 distinguishable elements.

// c13PtrToks reads an RFC 6901 pointer string ("" = the root = no tokens).
func c13PtrToks(ptr string) ([]string, bool) {
	if ptr == "" {
		return []string{}, true
	}
	if !strings.HasPrefix(ptr, "/") {
		return nil, false
	}
	toks := strings.Split(ptr[1:], "/")
	for i, t := range toks {
		toks[i] = strings.ReplaceAll(strings.ReplaceAll(t, "~1", "/"), "~0", "~")
	}
	return toks, true
}

// c13UnseeW removes the route's variables from a wire document built from c13Seen.
func c13UnseeW(w W, via string) W {
	vars := c13ViaVars(via)
	if len(vars) == 0 {
		return w
	}
	w = deepCopyW(w)
	if dc, ok := wireCont(w); ok {
		for _, v := range vars {
			delete(dc, v[0])
		}
	}
	return w
}

// c13PatchRFC: outcome and document after PatchOp == RFC 6902 reference on the document the
// operation saw.
func c13PatchRFC(c *Ctx, p *c13Patch, seen W, valueWire W, tagA string, afterA W) {
	path, ok := c13PtrToks(p.Path)
	if !ok || len(path) == 0 || !c09PathInScope(path) {
		c.Dist("patch:rfc-reference:location-outside-scope")
		return
	}
	o := c09Op{Op: p.Op, Path: path}
	if p.From != "" {
		from, ok := c13PtrToks(p.From)
		if !ok || len(from) == 0 || !c09PathInScope(from) {
			c.Dist("patch:rfc-reference:location-outside-scope")
			return
		}
		o.From = from
	}
	switch {
	case p.Value != nil:
		o.Value = valueWire
	case p.ValueFrom != nil:
		if v, ok := c13WireAt(seen, *p.ValueFrom); ok {
			o.Value = deepCopyW(v)
		}
	}
	want := "ok"
	ref, err := c09RefApply(deepCopyW(seen), o)
	if err != nil {
		want, ref = "err", seen
	}
	ref = c13UnseeW(ref, p.Via)
	c.Dist("patch:rfc-reference:" + c09OpName(p.Op) + ":" + want)
	if o.From != nil && (p.Op == "move" || p.Op == "copy") && len(o.From) > 0 && len(path) > 0 {
		if c13SameParentList(seen, o.From, path) {
			c.Dist("patch:" + p.Op + ":from-and-path-in-one-list:" + want)
		} else if c09RefProperPrefix(path, o.From) {
			c.Dist("patch:" + p.Op + ":path-is-ancestor-of-from:" + want)
		}
	}
	c.Direct("patch-op-has-exactly-the-effect-of-the-RFC-6902-operation", tagA == want && canon(afterA) == canon(ref),
		map[string]any{"PatchOp": map[string]any{"out": tagA, "data": afterA}, "rfc6902": map[string]any{"out": want, "data": ref}, "operation": o})
}

// c13SameParentList: from and path go through one list (they share a prefix that addresses a list
// and continue with an index each).
func c13SameParentList(doc W, from, path []string) bool {
	for i := 0; i < len(from) && i < len(path); i++ {
		if v, ok := c09RefGet(doc, from[:i]); ok {
			if _, isList := v.([]any); isList {
				return true
			}
		}
		if from[i] != path[i] {
			return false
		}
	}
	return false
}

// ------------------------------------------------------------------ generator

var c13ListLens = []int{2, 3, 3, 4, 5, 6, 7, 9}

// c13MarkedList: n distinguishable elements — mostly scalars, some small containers and lists.
func c13MarkedList(r *rand.Rand, n int) []any {
	l := make([]any, n)
	for i := range l {
		switch r.Intn(6) {
		case 0:
			l[i] = map[string]any{"m": map[string]any{"k": scalarWire(fmt.Sprintf("c%d", i)), "prev": scalarWire(i - 1)}}
		case 1:
			l[i] = map[string]any{"m": map[string]any{"id": scalarWire(i), "sub": []any{scalarWire(fmt.Sprintf("s%d", i)), scalarWire(i)}}}
		case 2:
			l[i] = []any{scalarWire(fmt.Sprintf("n%d", i)), scalarWire(i)}
		default:
			l[i] = scalarWire(fmt.Sprintf("i%d", i))
		}
	}
	return l
}

// c13GenRelated draws a document with a marked list and an operation with related locations.
func c13GenRelated(r *rand.Rand, g *DocGen) c13Patch {
	data := g.Doc(r)
	// place the marked list in the root or in a container of the document
	var locs []c09Loc
	c09Locs(data, nil, &locs)
	host, _ := wireCont(data)
	var hostPath []string
	if r.Intn(2) == 0 {
		for _, l := range locs {
			if l.kind == "cont" && r.Intn(3) == 0 {
				if v, ok := c09RefGet(data, l.p); ok {
					if hc, ok := wireCont(v); ok {
						host, hostPath = hc, l.p
						break
					}
				}
			}
		}
	}
	n := pick(r, c13ListLens)
	lname := pick(r, g.Keys)
	host[lname] = c13MarkedList(r, n)
	lp := append(c09Clone(hostPath), lname)
	locs = nil
	c09Locs(data, nil, &locs)
	idx := func(i int) []string { return append(c09Clone(lp), fmt.Sprint(i)) }
	existing := func() []string { return pick(r, locs).p }
	// composite elements of the marked list
	var compAt []int
	list, _ := c09RefGet(data, lp)
	for i, e := range list.([]any) {
		if wireKind(e) != "leaf" {
			compAt = append(compAt, i)
		}
	}
	below := func(j int) []string { // a location inside element j of the marked list
		e := list.([]any)[j]
		if ec, ok := wireCont(e); ok {
			if r.Intn(2) == 0 && len(ec) > 0 {
				k := pick(r, sortedKeys(ec))
				if sub, isList := ec[k].([]any); isList && r.Intn(2) == 0 {
					return append(idx(j), k, fmt.Sprint(r.Intn(len(sub)+1)))
				}
				return append(idx(j), k)
			}
			return append(idx(j), pick(r, []string{"prev", "moved", "k"}))
		}
		if el, ok := e.([]any); ok {
			return append(idx(j), fmt.Sprint(r.Intn(len(el)+1)))
		}
		return append(idx(j), "x")
	}
	var from, path []string
	switch k := r.Intn(20); {
	case k < 7: // inside one list: every pair of positions, incl. one past the end
		from, path = idx(r.Intn(n)), idx(r.Intn(n+1))
	case k < 10 && len(compAt) > 0: // from an element into another (or the same) element of the list
		from, path = idx(r.Intn(n)), below(pick(r, compAt))
	case k < 11 && len(compAt) > 0: // from inside an element to a position of the list
		from, path = below(pick(r, compAt)), idx(r.Intn(n+1))
	case k < 13: // path is an ancestor of from
		from = existing()
		for tries := 0; len(from) < 2 && tries < 8; tries++ {
			from = existing()
		}
		path = c09Clone(from[:1+r.Intn(max(len(from)-1, 1))])
	case k < 14: // path is a descendant of from
		from = existing()
		path = append(c09Clone(from), pick(r, append([]string{"0"}, g.Keys...)))
	case k < 15: // the same location
		from = existing()
		path = c09Clone(from)
	case k < 17: // members of one container / items of one list
		from = existing()
		path = c09Clone(from)
		par, _ := c09RefGet(data, path[:len(path)-1])
		if arr, ok := par.([]any); ok {
			path[len(path)-1] = fmt.Sprint(r.Intn(len(arr) + 1))
		} else {
			path[len(path)-1] = pick(r, g.Keys)
		}
	case k < 19: // list element <-> anything else
		if r.Intn(2) == 0 {
			from, path = idx(r.Intn(n)), existing()
		} else {
			from, path = existing(), idx(r.Intn(n+1))
		}
	default:
		from, path = existing(), existing()
	}
	cp := c13Patch{Data: data, Op: "move", Path: c09Pointer(path), From: c09Pointer(from), Via: c13PickVia(r)}
	switch r.Intn(10) {
	case 0, 1:
		cp.Op = "copy"
	case 2: // the same pair of locations as add / replace with the value read from the document
		cp.Op = pick(r, []string{"add", "replace"})
		cp.From = ""
		cp.ValueFrom = strp(c09Dotted(data, from))
	case 3:
		cp.Op = "remove"
		cp.From = ""
	}
	return cp
}

// c13RunPatchRFC: the random stream of related locations, and a fixed table of moves and copies
// inside one list of four on every route.
// c13RuleMore is appended to the property's generation rule (kept here so that c13.go stays as it is).
const c13RuleMore = " FURTHER (c13_patch.go, c13_more.go): patch: every patch case is also held to the RFC 6902 reference interpreter (outcome and document; non-root locations), and a stream of operations with RELATED locations runs on documents holding a marked list of 2-9 distinguishable elements: from and path inside one list (every pair of positions incl. one past the end), from an element into / out of another element of the same list, path an ancestor or a descendant of from, from == path, members of one container, list element <-> container member, as move (7 in 10), copy, add / replace with valueFrom, remove; plus a fixed table of 16 such pairs x move / copy x every route. Routes: additionally the OpSpec / ActionSpec holding the operation executed as it is, by value and by pointer. Every execution is preceded by an operation of the same kind that FAILS part-way on another document through another executor (template failing after emitting text / unparsable YAML result, export whose encoder fails after the file was opened (NaN in JSON, text of a container) or whose file cannot be opened, import of an unparsable file, move whose add step fails, set without data / with an unknown strategy). set: structurally equal maps / lists inside the payload are ONE Go object. Histories: before and after every execution the document is read through Children / Items, AsMap, Flatten, Search, Lookup of every flattened path, Clone and Equals, which must all show one document. Kind large (direct predicates only, a fixed handful per run): import in text / binary mode of files in which a 2-, 3- or 4-byte character lies across byte 512 / 4 KiB / 64 KiB / 1 MiB, files of exactly these sizes -1 / +0 / +1, and yaml / json export -> import round trips of subtrees full of multi-byte characters whose files are just under / over 4 KiB and 64 KiB and about 1 MiB."

func c13RunPatchRFC(c *Ctx) {
	if !strings.Contains(c.P.Rule, c13RuleMore) {
		c.P.Rule += c13RuleMore + c13RuleLook
	}
	r := c.Rng
	g := c13Gen()
	for i := 0; i < c.N(700); i++ {
		c.Tick()
		c.Do("patch", c13GenRelated(r, g))
	}
	if c.searchMode {
		return
	}
	leaf := func(v any) W { return scalarWire(v) }
	cont := func(m map[string]any) W { return map[string]any{"m": m} }
	data := cont(map[string]any{
		"a":    leaf("text"),
		"list": []any{leaf("a"), leaf("b"), leaf("c"), leaf("d")},
		"rows": []any{cont(map[string]any{"id": leaf(0)}), cont(map[string]any{"id": leaf(1)}), cont(map[string]any{"id": leaf(2)})},
		"c":    cont(map[string]any{"sub": cont(map[string]any{"x": leaf(true), "deep": cont(map[string]any{"y": leaf(1)})}), "k": leaf("w")}),
	})
	pairs := [][2]string{
		{"/list/3", "/list/0"}, {"/list/0", "/list/3"}, {"/list/0", "/list/4"}, {"/list/1", "/list/2"}, {"/list/2", "/list/1"}, {"/list/2", "/list/2"},
		{"/rows/0", "/rows/1/prev"}, {"/rows/2", "/rows/0/next"}, {"/rows/1/id", "/rows/0"}, {"/rows/0", "/rows/2"},
		{"/c/sub/deep", "/c/sub"}, {"/c/sub/deep/y", "/c"}, {"/c/sub", "/c/sub/deep/z"}, {"/c/k", "/c/sub"}, {"/list/1", "/c/k"}, {"/c/k", "/list/1"},
	}
	for _, via := range c13Vias {
		for _, pr := range pairs {
			for _, op := range []string{"move", "copy"} {
				c.Do("patch", c13Patch{Data: data, Op: op, From: pr[0], Path: pr[1], Via: via})
			}
		}
	}
}
