package main

import (
	"math"
	"math/rand"
	"time"
)

// VALUE-RANGE breadth shared by the harnesses of C01–C05 (identifiers prefixed vr).
//
// The properties quantify over all documents / all generic values.  A generator that draws member names from six
// ASCII identifiers and scalars from a dozen small values never reaches the neighbouring input classes on which a
// plausible maintainer change goes wrong: names that look like syntax of one of the addressing schemes, names that
// differ by case / surrounding blanks / Unicode normalisation only, letters outside ASCII (incl. the supplementary
// planes), numbers at the precision and width boundaries, the two floating point zeros, explicitly empty values.
// This file holds the pools and three document transformers:
//
//	vrSprinkle   replaces leaves of a document by value-range scalars
//	vrGraftCopy  copies one composite subtree of a document to a second position (the document then holds two
//	             structurally equal subtrees; built with heapBuildDag they are ONE node object attached twice)
//	vrKeysOf     the member names of a document
//
// Every pool is inside the domain the property text states; what a property excludes (names ending in an index
// group `[digits]`: finding D26; NaN) is in no pool.

// vrAnyKeys: member names for properties whose maps are keyed by arbitrary strings (C01, C04, C05).  No name ends
// in an index group; all are valid UTF-8 (a case must survive its JSON replay file).
var vrAnyKeys = []string{
	// literal names that spell a path of one of the addressing schemes, next to the steps they spell
	"a", "b", "a.b", "a.b.a", "b.a", "a.a", ".", "a.", ".a", "a..b", "a/b", "/a", "a/", "a//b", "./a", "/", "~", "~0", "~1", "a~1b",
	// case twins, blanks (space, tab, NBSP, newline), empty
	"A", "maxConn", "maxconn", "MAXCONN", " a", "a ", "a b", "a  b", "\ta", "a\n", "\u00a0a", " ", "",
	// outside ASCII: precomposed vs combining sequence, case pairs without ASCII counterpart, supplementary planes, U+FFFD
	"\u00e9", "e\u0301", "größe", "GRÖSSE", "ключ", "名前", "İ", "ı", "🚀", "𝛼", "\ufffd",
	// characters that are syntax somewhere: brackets that are not an index group, YAML / JSON / template / pointer syntax
	"{", "}", "{}", "(", ")", "[", "]", "[]", "a[", "a[x]", "a[1]x", "[0]a", "a[-1]", "a[ 1]", "=", "a=b", ":", "a: b", "#", "# a", "!", "!!str", "\\", "\\n",
	"*", "&a", "*a", "%", "$", "${a}", "{{a}}", "@", "'", "\"", "`", "|", ">", "-", "- a", "--", "---", "?", ",", "<a>",
	// names that are numbers / booleans / null in some notation; very long digit strings
	"0", "00", "1", "-1", "+1", "1e3", "0x1F", "0.0", "-0", ".5", "12345678901234567890123", "9223372036854775807", "9223372036854775808", "18446744073709551616",
	"true", "True", "TRUE", "T", "t", "F", "false", "null", "Null", "nil", "yes", "no", "on", "y", "n",
}

// vrLetterKeys: non-empty member names over letters, digits, '_' and '-' (the key domain of C02, the path-safe
// pool of C03): letters of any script and case — a letter is a letter whether or not it is ASCII — incl. letters
// encoded in 2, 3 and 4 UTF-8 bytes, case twins and prefix-related siblings.
var vrLetterKeys = []string{
	"a", "k1", "A", "maxConn", "maxconn", "MAXCONN", "max", "maxC",
	"é", "È", "größe", "GRÖSSE", "ß", "ключ", "Ключ", "名前", "名", "𝛼", "𝛼𝛽", "İ", "ı", "ǅ", "Ω", "ω",
	"a-é", "é_1", "x-名前", "𝛼9", "0é", "-ß", "_ω",
}

// vrStrings: string scalars.
var vrStrings = []string{
	"", " ", "s", "S", " s", "s ", "s\t", "s\n", "s\r\n", "\u00a0s", "a b", "a  b", "line1\nline2", "line1\r\nline2",
	"maxConn", "maxconn", "\u00e9", "e\u0301", "größe", "ключ", "名前", "🚀", "𝛼", "\ufffd", "İ", "ı",
	"{", "}", "{{x}}", "${x}", "(", "[", "[]", "a[0]", "=", ":", "a: b", "#", "# c", "!", "!!int 1", "\\", "\\n", "/", "a/b", ".", "a.b", "~", "~0", "*x", "&x", "'", "\"", "%d",
	"0", "-0", "0.0", "-0.0", "1", "1.0", "1e3", "0x1F", "007", "+1", "9007199254740993", "9223372036854775807", "9223372036854775808", "18446744073709551615", "18446744073709551616", "123456789012345678901234567890",
	"true", "True", "TRUE", "t", "T", "f", "F", "false", "1", "yes", "no", "on", "off", "null", "Null", "~", "<nil>", "nil", ".inf", ".nan", "NaN",
	"2001-12-14", "2001-12-14T21:59:43Z", "12:30:45",
}

type vrOpts struct {
	Time bool // time.Time values (a struct: only where values are carried, never compared by ==)
	Inf  bool // +Inf / -Inf (NaN-free, but encoding/json has no rendering for them)
}

// vrScalar draws a value-range scalar in wire form.  Go types are the ones scalarFromWire rebuilds exactly
// (nil, string, bool, int, int64, uint64, float64, time.Time).
func vrScalar(r *rand.Rand, o vrOpts) W {
	negZero := math.Copysign(0, -1)
	const p53 = int64(1) << 53
	switch k := r.Intn(12); {
	case k < 4:
		return scalarWire(pick(r, vrStrings))
	case k < 6:
		fs := []float64{0, negZero, 0, negZero, 0.1, 0.5, -0.5, 1, float64(p53 - 1), float64(p53), float64(p53) + 2, 1e20, 1e21, 1e-7, 5e-324, 1e-320,
			math.MaxFloat64, -math.MaxFloat64, math.SmallestNonzeroFloat64, float64(math.MaxInt64), float64(math.MaxUint64), 1 << 63, -(1 << 63), 1 << 31, 1<<32 - 1}
		if o.Inf {
			fs = append(fs, math.Inf(1), math.Inf(-1))
		}
		return scalarWire(pick(r, fs))
	case k < 8:
		is := []int{0, 1, -1, 9, 10, 11, 12, math.MaxInt32, math.MaxInt32 + 1, math.MinInt32, math.MinInt32 - 1, math.MaxUint32, math.MaxUint32 + 1,
			int(p53 - 1), int(p53), int(p53 + 1), -int(p53 + 1), math.MaxInt64, math.MaxInt64 - 1, math.MinInt64, math.MinInt64 + 1}
		return scalarWire(pick(r, is))
	case k == 8:
		return scalarWire(pick(r, []int64{0, 1, -1, p53 + 1, p53, math.MaxInt64, math.MinInt64, math.MaxInt32 + 1}))
	case k == 9:
		return scalarWire(pick(r, []uint64{0, 1, 1 << 63, 1<<63 - 1, 1<<63 + 1, math.MaxUint64, math.MaxUint64 - 1, uint64(p53) + 1}))
	case k == 10:
		if o.Time && r.Intn(2) == 0 {
			return scalarWire(pick(r, []time.Time{time.Date(2001, 12, 14, 21, 59, 43, 0, time.UTC), time.Date(2001, 12, 14, 21, 59, 43, 100000000, time.UTC),
				time.Date(1, 1, 1, 0, 0, 0, 0, time.UTC), time.Date(9999, 12, 31, 23, 59, 59, 999999999, time.UTC)}))
		}
		return scalarWire(r.Intn(2) == 0)
	default:
		return scalarWire(nil)
	}
}

// vrSprinkle returns a copy of w in which every leaf is replaced, with probability p, by a value-range scalar.
func vrSprinkle(r *rand.Rand, w W, p float64, o vrOpts) W {
	switch x := w.(type) {
	case []any:
		l := make([]any, len(x))
		for i, e := range x {
			l[i] = vrSprinkle(r, e, p, o)
		}
		return l
	case map[string]any:
		if c, ok := x["m"].(map[string]any); ok {
			m := map[string]any{}
			for _, k := range sortedKeys(c) {
				m[k] = vrSprinkle(r, c[k], p, o)
			}
			return map[string]any{"m": m}
		}
		if r.Float64() < p {
			return vrScalar(r, o)
		}
		return deepCopyW(w)
	}
	return w
}

// vrIsNegZero: the wire leaf is the float64 negative zero.
func vrIsNegZero(w W) bool {
	m, ok := w.(map[string]any)
	return ok && m["t"] == "float64" && m["v"] == "-0"
}

// vrHasNegZero: some leaf of w is the float64 negative zero.  Go's ==, reflect.DeepEqual and cmp.Equal identify it
// with +0, the Lean model's scalars — (Go type, fmt.Sprint text) pairs — do not: wherever scalars are COMPARED
// such values are judged by direct predicates only and never sent to the model.
func vrHasNegZero(w W) bool {
	switch x := w.(type) {
	case []any:
		for _, e := range x {
			if vrHasNegZero(e) {
				return true
			}
		}
	case map[string]any:
		if c, ok := x["m"].(map[string]any); ok {
			for _, e := range c {
				if vrHasNegZero(e) {
					return true
				}
			}
			return false
		}
		return vrIsNegZero(w)
	}
	return false
}

// vrGraftCopy copies one composite subtree of w (one that holds a scalar, if there is any; never the root) to a
// second position: a member of some container (a new name from keys, or an existing one that is overwritten) or an
// item of some list (overwritten or appended).  The result is a tree again; it contains two structurally equal
// subtrees.  ok=false when w has no composite below the root.  src/dst are the positions (keys / indices).
func vrGraftCopy(r *rand.Rand, w W, keys []string) (out W, src, dst []any, ok bool) {
	var ps []dhPos
	dhPositions(w, []any{}, &ps)
	var srcs, rich []dhPos
	for _, p := range ps {
		if len(p.at) == 0 {
			continue
		}
		srcs = append(srcs, p)
		if sub, has := dhGet(w, p.at); has && wireScalars(sub) > 0 {
			rich = append(rich, p)
		}
	}
	if len(srcs) == 0 {
		return w, nil, nil, false
	}
	s := pick(r, srcs)
	if len(rich) > 0 && r.Intn(4) > 0 {
		s = pick(r, rich)
	}
	sub, _ := dhGet(w, s.at)
	// destinations: the parent of the source first (a sibling), else any composite
	d := pick(r, ps)
	if r.Intn(2) == 0 {
		for _, p := range ps {
			if dhPosKey(p.at) == dhPosKey(s.at[:len(s.at)-1]) {
				d = p
			}
		}
	}
	var step any
	res, good := dhUpdate(w, d.at, func(x W) (W, bool) {
		if l, isList := x.([]any); isList {
			nl := append([]any{}, l...)
			if len(nl) > 0 && r.Intn(2) == 0 {
				i := r.Intn(len(nl))
				nl[i] = deepCopyW(sub)
				step = i
			} else {
				nl = append(nl, deepCopyW(sub))
				step = len(nl) - 1
			}
			return nl, true
		}
		c, isCont := wireCont(x)
		if !isCont {
			return nil, false
		}
		m := map[string]any{}
		for k, v := range c {
			m[k] = v
		}
		k := pick(r, keys)
		if len(d.keys) > 0 && r.Intn(3) == 0 {
			k = pick(r, d.keys)
		}
		m[k] = deepCopyW(sub)
		step = k
		return map[string]any{"m": m}, true
	})
	if !good {
		return w, nil, nil, false
	}
	return res, s.at, append(append([]any{}, d.at...), step), true
}

// vrKeysOf collects the member names that occur in w.
func vrKeysOf(w W, out map[string]bool) {
	switch x := w.(type) {
	case []any:
		for _, e := range x {
			vrKeysOf(e, out)
		}
	case map[string]any:
		if c, ok := x["m"].(map[string]any); ok {
			for k, e := range c {
				out[k] = true
				vrKeysOf(e, out)
			}
		}
	}
}
