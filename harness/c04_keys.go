package main

import (
	"encoding/json"
	"fmt"
	"math/rand"

	"github.com/rkosegi/yaml-toolkit/dom"
)

// C04 over the whole key domain.  The property quantifies over ALL documents: a key is any string — dotted
// labels ("app.kubernetes.io/name"), host names, keys with slashes, spaces, non-ASCII text, the empty key.
// (Only keys ending in an index group `[digits]` cannot be stored by name through the public API: finding D26.)
// Merge works on names, never on paths, so a key that merely LOOKS like a path must be combined like any other.
// The documents are built through routes that do not parse paths: AddValue (wireContainer) and FromMap.

var c04WideKeys = []string{
	"app.kubernetes.io/name", "www.example.com", "hosts.allow", "a.b", "a.b.c", "a.", ".a", ".", "..",
	"", " ", "a b", " a", "x/y", "/", "~", "~0", "a~1b",
	"ü", "ключ", "日本", "😀", "naïve.key",
	"[0]x", "q[x]", "a[0].b", "a]", "[",
	"a", "b", "k1",
}

func c04WideGen() *DocGen {
	g := c04Gen()
	g.Keys = c04WideKeys
	return g
}

// c04Combining returns two values that a merge has to COMBINE when they sit under the same key (or at the same
// list index): container/container with different children, list/list, or anything overridden by null.
func c04Combining(r *rand.Rand, g *DocGen) (W, W) {
	switch r.Intn(4) {
	case 0: // two containers: the second a near miss of the first (keys added, removed, values changed)
		x := g.Cont(r, 1)
		y := x
		for i, n := 0, 1+r.Intn(3); i < n; i++ {
			y = g.Mutate(r, y)
		}
		return x, y
	case 1: // two independent containers over the same pool
		return g.Cont(r, 2), g.Cont(r, 2)
	case 2: // two lists (unequal lengths, containers and lists as items)
		return g.List(r, 2), g.List(r, 2)
	default: // null over anything
		return g.Node(r, 2), scalarWire(nil)
	}
}

// c04Embed puts x and y at the same position of two otherwise equal documents, `depth` levels down; every step
// is a wide key or a list index.
func c04Embed(r *rand.Rand, g *DocGen, x, y W, depth int) (W, W) {
	for ; depth > 0; depth-- {
		if r.Intn(3) == 0 {
			n := 1 + r.Intn(3)
			at := r.Intn(n)
			la, lb := make([]any, n), make([]any, n)
			for i := range la {
				if i == at {
					la[i], lb[i] = x, y
					continue
				}
				s := g.Node(r, g.MaxDepth-1)
				la[i], lb[i] = s, deepCopyW(s)
			}
			x, y = la, lb
			continue
		}
		ma, mb := map[string]any{}, map[string]any{}
		for i, n := 0, r.Intn(3); i < n; i++ {
			k := pick(r, g.Keys)
			s := g.Node(r, g.MaxDepth-1)
			switch r.Intn(4) {
			case 0:
				ma[k] = s
			case 1:
				mb[k] = s
			default:
				ma[k], mb[k] = s, deepCopyW(s)
			}
		}
		k := pick(r, g.Keys)
		ma[k], mb[k] = x, y
		x, y = map[string]any{"m": ma}, map[string]any{"m": mb}
	}
	if wireKind(x) != "cont" || wireKind(y) != "cont" {
		k := pick(r, g.Keys)
		x, y = map[string]any{"m": map[string]any{k: x}}, map[string]any{"m": map[string]any{k: y}}
	}
	return x, y
}

func c04WidePair(r *rand.Rand, g *DocGen) (W, W) {
	if r.Intn(2) == 0 {
		x, y := c04Combining(r, g)
		return c04Embed(r, g, x, y, 1+r.Intn(3))
	}
	a := g.Doc(r)
	b := a
	for i, n := 0, 1+r.Intn(4); i < n; i++ {
		b = g.Mutate(r, b)
	}
	return a, b
}

// c04RunKeys: the three routes of C04 (Merge, OverlayDocument.Merged, fluent.ConfigHelper) over the wide key pool.
func c04RunKeys(c *Ctx, opt func() string) {
	r := c.Rng
	g := c04WideGen()
	for i := 0; i < c.N(1500); i++ {
		c.Tick()
		a, b := c04WidePair(r, g)
		c.Dist("keys:any-string")
		if i%4 == 3 {
			c.Do("pair-frommap", c04Pair{A: a, B: b, Opt: opt()})
		} else {
			c.Do("pair", c04Pair{A: a, B: b, Opt: opt(), Seal: r.Intn(4) == 0})
		}
	}
	for i := 0; i < c.N(300); i++ {
		c.Tick()
		n := 2 + r.Intn(3)
		ls := make([]c04Layer, n)
		a, b := c04WidePair(r, g)
		for j := range ls {
			ls[j] = c04Layer{Name: fmt.Sprintf("L%d", j), Doc: a}
			a, b = b, g.Mutate(r, b)
		}
		c.Dist("keys:any-string")
		c.Do("overlay", c04Overlay{Layers: ls, Opt: opt()})
	}
	for i := 0; i < c.N(200); i++ {
		c.Tick()
		n := 1 + r.Intn(3)
		srcs := make([]c04Source, n)
		a, b := c04WidePair(r, g)
		def := a
		for j := range srcs {
			srcs[j] = c04Source{Via: pick(r, c04Vias), Doc: b}
			b = g.Mutate(r, b)
		}
		c.Dist("keys:any-string")
		c.Do("config", c04Config{Defaults: def, Sources: srcs})
	}
}

// c04IndexNamed: a kind conflict between a list and a container whose member NAMES are list positions — the shape
// in which a flat source (a properties file, environment variables, `servers.1.port=8080`) spells a list, and the
// one kind conflict in which the two sides look like two spellings of the same thing.  The property is plain about it:
// a container and a list under one key are different kinds, so the right side wins as a whole (unless it is null),
// whatever the names are.  Returns (list, container): the container has 1..len+1 members named by decimal numbers,
// mostly positions of the list ("0" .. "len-1"), now and then all of them, a position just past the end, a
// non-canonical spelling ("01", "+1", "-1", "1.0", " 1") or a name that is no number; the values are the list's items
// after an edit, or fresh nodes.
func c04IndexNamed(r *rand.Rand, g *DocGen) (W, W) {
	n := 1 + r.Intn(4)
	if r.Intn(12) == 0 {
		n = 10 + r.Intn(3) // two-digit positions
	}
	l := make([]any, n)
	for i := range l {
		l[i] = g.Node(r, g.MaxDepth-2)
	}
	m := map[string]any{}
	k := 1 + r.Intn(n)
	if r.Intn(4) == 0 {
		k = n
	}
	for _, i := range r.Perm(n)[:k] {
		v := g.Node(r, g.MaxDepth-2)
		switch r.Intn(3) {
		case 0:
			v = deepCopyW(l[i])
		case 1:
			v = g.Mutate(r, l[i])
		}
		m[fmt.Sprint(i)] = v
	}
	if r.Intn(3) == 0 {
		odd := pick(r, []string{fmt.Sprint(n), fmt.Sprint(n + 1), "01", "00", "+1", "-1", "-0", "1.0", " 1", "1 ", "0x1", "1e0", "١", "a", "", "k1"})
		m[odd] = g.Node(r, g.MaxDepth-2)
	}
	return l, map[string]any{"m": m}
}

// c04IndexNamedPair: two otherwise equal documents with the list on one side and the index-named container on the
// other at the same position, 1-3 levels down.
func c04IndexNamedPair(r *rand.Rand, g *DocGen) (W, W) {
	x, y := c04IndexNamed(r, g)
	if r.Intn(3) == 0 {
		x, y = y, x // container on the left, list on the right
	}
	return c04Embed(r, g, x, y, 1+r.Intn(3))
}

// c04RunIndexNamed: the three routes of C04 over list / index-named-container conflicts.
func c04RunIndexNamed(c *Ctx, opt func() string) {
	r := c.Rng
	g := c04Gen()
	for i := 0; i < c.N(400); i++ {
		c.Tick()
		a, b := c04IndexNamedPair(r, g)
		c.Dist("keys:index-named container opposite a list")
		if i%4 == 3 {
			c.Do("pair-frommap", c04Pair{A: a, B: b, Opt: opt()})
		} else {
			c.Do("pair", c04Pair{A: a, B: b, Opt: opt(), Seal: r.Intn(4) == 0})
		}
	}
	for i := 0; i < c.N(80); i++ {
		c.Tick()
		a, b := c04IndexNamedPair(r, g)
		ls := []c04Layer{{Name: "L0", Doc: a}, {Name: "L1", Doc: b}}
		if r.Intn(2) == 0 {
			ls = append(ls, c04Layer{Name: "L2", Doc: g.Mutate(r, pick(r, []W{a, b}))})
		}
		c.Dist("keys:index-named container opposite a list")
		c.Do("overlay", c04Overlay{Layers: ls, Opt: opt()})
	}
	for i := 0; i < c.N(60); i++ {
		c.Tick()
		a, b := c04IndexNamedPair(r, g)
		srcs := []c04Source{{Via: pick(r, c04Vias), Doc: b}}
		if r.Intn(3) == 0 {
			srcs = append(srcs, c04Source{Via: pick(r, c04Vias), Doc: g.Mutate(r, b)})
		}
		c.Dist("keys:index-named container opposite a list")
		c.Do("config", c04Config{Defaults: a, Sources: srcs})
	}
}

// c04EvalFromMap: the pair law on documents decoded with FromMap (children arrive through the decoder:
// AddValue / AddContainer / AddList by name; nulls are the decoder's shared nil leaf).
func c04EvalFromMap(c *Ctx, raw []byte) {
	var p c04Pair
	if err := json.Unmarshal(raw, &p); err != nil {
		panic(err)
	}
	if wireKind(p.A) != "cont" || wireKind(p.B) != "cont" {
		return
	}
	app := p.Opt == "append"
	c.Dist("opt:" + p.Opt)
	if c04Stats(c, p.A, p.B, true) {
		c.Nontrivial()
	}
	var rw, rmap, a0, a1, b0, b1 W
	out, txt := guard(func() {
		a := dom.Builder().FromMap(wirePlain(p.A).(map[string]any))
		b := dom.Builder().FromMap(wirePlain(p.B).(map[string]any))
		a0, b0 = nodeWire(a), nodeWire(b)
		res := a.Merge(b, c04Opts(p.Opt)...)
		rw, rmap = nodeWire(res), plainWire(res.AsMap())
		a1, b1 = nodeWire(a), nodeWire(b)
	})
	if !c.Direct("no-panic", out == "ok", txt) {
		return
	}
	if canon(a0) != canon(p.A) || canon(b0) != canon(p.B) {
		// FromMap did not store the document as given (C01's subject, e.g. a key the decoder re-interprets): not a
		// statement about merging
		c.Dist("pair-frommap:decoded-differently")
		return
	}
	ref := c04RefDoc(p.A, p.B, app)
	c.Direct("merge-eq-reference(AsMap)", canon(rmap) == canon(ref), map[string]any{"impl": rmap, "expected": ref})
	c.Direct("merge-eq-reference(nodes)", canon(rw) == canon(ref), map[string]any{"impl": rw, "expected": ref})
	c.Direct("key-union", c04KeyUnion(rw, p.A, p.B), rw)
	c.Direct("A-unchanged", canon(a1) == canon(p.A), map[string]any{"before": a0, "after": a1})
	c.Direct("B-unchanged", canon(b1) == canon(p.B), map[string]any{"before": b0, "after": b1})
	c.Corr("merge", rw, c.Model("merge", map[string]any{"a": p.A, "b": p.B, "opt": p.Opt}))
}
