package main

import (
	"encoding/json"
	"fmt"
	"math/rand"

	"github.com/rkosegi/yaml-toolkit/dom"
)

// C04 over the whole key domain.  The property quantifies over ALL documents: a key is any string — dotted
// labels ("app.kubernetes.io/name"), host names, keys with slashes, spaces, non-ASCII text, the empty key.
// (Only keys ending in an index group `[digits]` cannot be stored by name through the public API: finding D26.)
// Merge works on names, never on paths, so a key that merely LOOKS like a path must be combined like any other.
// The documents are built through routes that do not parse paths: AddValue (wireContainer) and FromMap.

var c04WideKeys = []string{
	"app.kubernetes.io/name", "www.example.com", "hosts.allow", "a.b", "a.b.c", "a.", ".a", ".", "..",
	"", " ", "a b", " a", "x/y", "/", "~", "~0", "a~1b",
	"ü", "ключ", "日本", "😀", "naïve.key",
	"[0]x", "q[x]", "a[0].b", "a]", "[",
	"a", "b", "k1",
}

func c04WideGen() *DocGen {
	g := c04Gen()
	g.Keys = c04WideKeys
	return g
}

// c04Combining returns two values that a merge has to COMBINE when they sit under the same key (or at the same
// list index): container/container with different children, list/list, or anything overridden by null.
func c04Combining(r *rand.Rand, g *DocGen) (W, W) {
	switch r.Intn(4) {
	case 0: // two containers: the second a near miss of the first (keys added, removed, values changed)
		x := g.Cont(r, 1)
		y := x
		for i, n := 0, 1+r.Intn(3); i < n; i++ {
			y = g.Mutate(r, y)
		}
		return x, y
	case 1: // two independent containers over the same pool
		return g.Cont(r, 2), g.Cont(r, 2)
	case 2: // two lists (unequal lengths, containers and lists as items)
		return g.List(r, 2), g.List(r, 2)
	default: // null over anything
		return g.Node(r, 2), scalarWire(nil)
	}
}

// c04Embed puts x and y at the same position of two otherwise equal documents, `depth` levels down; every step
// is a wide key or a list index.
func c04Embed(r *rand.Rand, g *DocGen, x, y W, depth int) (W, W) {
	for ; depth > 0; depth-- {
		if r.Intn(3) == 0 {
			n := 1 + r.Intn(3)
			at := r.Intn(n)
			la, lb := make([]any, n), make([]any, n)
			for i := range la {
				if i == at {
					la[i], lb[i] = x, y
					continue
				}
				s := g.Node(r, g.MaxDepth-1)
				la[i], lb[i] = s, deepCopyW(s)
			}
			x, y = la, lb
			continue
		}
		ma, mb := map[string]any{}, map[string]any{}
		for i, n := 0, r.Intn(3); i < n; i++ {
			k := pick(r, g.Keys)
			s := g.Node(r, g.MaxDepth-1)
			switch r.Intn(4) {
			case 0:
				ma[k] = s
			case 1:
				mb[k] = s
			default:
				ma[k], mb[k] = s, deepCopyW(s)
			}
		}
		k := pick(r, g.Keys)
		ma[k], mb[k] = x, y
		x, y = map[string]any{"m": ma}, map[string]any{"m": mb}
	}
	if wireKind(x) != "cont" || wireKind(y) != "cont" {
		k := pick(r, g.Keys)
		x, y = map[string]any{"m": map[string]any{k: x}}, map[string]any{"m": map[string]any{k: y}}
	}
	return x, y
}

func c04WidePair(r *rand.Rand, g *DocGen) (W, W) {
	if r.Intn(2) == 0 {
		x, y := c04Combining(r, g)
		return c04Embed(r, g, x, y, 1+r.Intn(3))
	}
	a := g.Doc(r)
	b := a
	for i, n := 0, 1+r.Intn(4); i < n; i++ {
		b = g.Mutate(r, b)
	}
	return a, b
}

// c04RunKeys: the three routes of C04 (Merge, OverlayDocument.Merged, fluent.ConfigHelper) over the wide key pool.
func c04RunKeys(c *Ctx, opt func() string) {
	r := c.Rng
	g := c04WideGen()
	for i := 0; i < c.N(1500); i++ {
		c.Tick()
		a, b := c04WidePair(r, g)
		c.Dist("keys:any-string")
		if i%4 == 3 {
			c.Do("pair-frommap", c04Pair{A: a, B: b, Opt: opt()})
		} else {
			c.Do("pair", c04Pair{A: a, B: b, Opt: opt(), Seal: r.Intn(4) == 0})
		}
	}
	for i := 0; i < c.N(300); i++ {
		c.Tick()
		n := 2 + r.Intn(3)
		ls := make([]c04Layer, n)
		a, b := c04WidePair(r, g)
		for j := range ls {
			ls[j] = c04Layer{Name: fmt.Sprintf("L%d", j), Doc: a}
			a, b = b, g.Mutate(r, b)
		}
		c.Dist("keys:any-string")
		c.Do("overlay", c04Overlay{Layers: ls, Opt: opt()})
	}
	for i := 0; i < c.N(200); i++ {
		c.Tick()
		n := 1 + r.Intn(3)
		srcs := make([]c04Source, n)
		a, b := c04WidePair(r, g)
		def := a
		for j := range srcs {
			srcs[j] = c04Source{Via: pick(r, c04Vias), Doc: b}
			b = g.Mutate(r, b)
		}
		c.Dist("keys:any-string")
		c.Do("config", c04Config{Defaults: def, Sources: srcs})
	}
}

// c04EvalFromMap: the pair law on documents decoded with FromMap (children arrive through the decoder:
// AddValue / AddContainer / AddList by name; nulls are the decoder's shared nil leaf).
func c04EvalFromMap(c *Ctx, raw []byte) {
	var p c04Pair
	if err := json.Unmarshal(raw, &p); err != nil {
		panic(err)
	}
	if wireKind(p.A) != "cont" || wireKind(p.B) != "cont" {
		return
	}
	app := p.Opt == "append"
	c.Dist("opt:" + p.Opt)
	if c04Stats(c, p.A, p.B, true) {
		c.Nontrivial()
	}
	var rw, rmap, a0, a1, b0, b1 W
	out, txt := guard(func() {
		a := dom.Builder().FromMap(wirePlain(p.A).(map[string]any))
		b := dom.Builder().FromMap(wirePlain(p.B).(map[string]any))
		a0, b0 = nodeWire(a), nodeWire(b)
		res := a.Merge(b, c04Opts(p.Opt)...)
		rw, rmap = nodeWire(res), plainWire(res.AsMap())
		a1, b1 = nodeWire(a), nodeWire(b)
	})
	if !c.Direct("no-panic", out == "ok", txt) {
		return
	}
	if canon(a0) != canon(p.A) || canon(b0) != canon(p.B) {
		// FromMap did not store the document as given (C01's subject, e.g. a key the decoder re-interprets): not a
		// statement about merging
		c.Dist("pair-frommap:decoded-differently")
		return
	}
	ref := c04RefDoc(p.A, p.B, app)
	c.Direct("merge-eq-reference(AsMap)", canon(rmap) == canon(ref), map[string]any{"impl": rmap, "expected": ref})
	c.Direct("merge-eq-reference(nodes)", canon(rw) == canon(ref), map[string]any{"impl": rw, "expected": ref})
	c.Direct("key-union", c04KeyUnion(rw, p.A, p.B), rw)
	c.Direct("A-unchanged", canon(a1) == canon(p.A), map[string]any{"before": a0, "after": a1})
	c.Direct("B-unchanged", canon(b1) == canon(p.B), map[string]any{"before": b0, "after": b1})
	c.Corr("merge", rw, c.Model("merge", map[string]any{"a": p.A, "b": p.B, "opt": p.Opt}))
}
