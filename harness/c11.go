package main

import (
	"bytes"
	"encoding/json"
	"fmt"
	"math/rand"
	"sort"
	"strings"
	"time"
	"unicode/utf8"

	"github.com/rkosegi/yaml-toolkit/props"
)

// C11 — placeholder resolution: substitution, defaults, termination, true cycles only.

// the fixed set of non-overlapping delimiter triples (prefix, suffix, separator). "Every
// configured prefix, suffix and separator" includes every combination of LENGTHS: the set has
// triples with |separator| = |suffix| (1/1, 2/2), |separator| > |suffix| (2/1) and
// |separator| < |suffix| (1/2), and with |prefix| = / != |suffix|.
// It also includes delimiters that SHARE characters without overlapping (no delimiter occurs inside
// another one, no proper tail of one delimiter is a head of another one, see c11TripleOK): prefix and
// suffix with the same leading character (%{ %}), all three delimiters with the same first and last
// character (<q> </q> <:>), and delimiters outside ASCII (« » ¦ and “ ” |: in UTF-8 the paired
// quotes share their leading byte(s), the implementation works on bytes).
var c11Triples = [][3]string{{"${", "}", ":"}, {"#{", "}", "|"}, {"<<", ">>", "::"}, {"%(", ")", "?"},
	{"${", "}", ":-"}, {"{{", "}}", "|"}, {"[[", "]]", "=>"}, {"@", "))", "~"},
	{"%{", "%}", ":"}, {"«", "»", "¦"}, {"<q>", "</q>", "<:>"}, {"“", "”", "|"}}

// length bound of the exhaustive token stream per triple (quick / thorough)
var (
	c11MaxLenQuick    = []int{7, 6, 6, 6, 5, 5, 5, 5, 5, 5, 4, 4}
	c11MaxLenThorough = []int{9, 8, 7, 7, 7, 7, 6, 6, 6, 6, 6, 6}
)

type c11Out struct {
	R string `json:"r"`           // ok | cycle | budget | panic
	S string `json:"s,omitempty"` // result string (ok) / panic text (panic)
	O string `json:"o,omitempty"` // placeholder text reported as circular
}

type c11Batch struct {
	D   [3]string   `json:"d"`
	Tbl [][2]string `json:"tbl"` // unique keys, sorted
	In  []string    `json:"in"`
	Src string      `json:"src"` // tok | gram | raw | corpus
	Sib *c11Sib     `json:"sib,omitempty"`
	// Fn: the lookup is a FUNCTION that is total (answers every key), as a wrapper of os.Getenv or a computing lookup is:
	// "" the table alone (props.MapLookup: nil for an unknown key); otherwise the table first and for every other key
	// "env" the empty string, "len" the decimal length of the key, "up" the key's letters and digits in upper case
	// (see c11FnValue).  The model takes a table, so these batches are held against the reference only.
	Fn string `json:"fn,omitempty"`
}

type c11Concat struct {
	D   [3]string   `json:"d"`
	Tbl [][2]string `json:"tbl"`
	S1  string      `json:"s1"`
	S2  string      `json:"s2"`
	Sib *c11Sib     `json:"sib,omitempty"`
}

// c11Sib is a differently configured sibling resolver living next to the resolver under test
// of a batch / concat case: it is built from its own props.Builder() call and used on In.
// When "before": built and used before the resolver under test is built; "between": built and
// used after the resolver under test was built and before that one is used (so the earlier-built
// resolver is used after a later one was configured); "interleaved" (batch): like "between", and
// used again after every input of the batch.
type c11Sib struct {
	D    [3]string   `json:"d"`
	Tbl  [][2]string `json:"tbl"`
	In   string      `json:"in"`
	When string      `json:"when"`
}

// c11HRes is the configuration of one resolver of a history case. D is the delimiter triple the
// resolver is meant to use; Set lists the options that are set on the builder ('p' Prefix,
// 's' Suffix, 'v' ValueSeparator): an option that is not set relies on the documented default
// ("${", "}", ":"), and is only left out where D has that default. LookupFunc is always set.
type c11HRes struct {
	D   [3]string   `json:"d"`
	Set string      `json:"set"`
	Tbl [][2]string `json:"tbl"`
}

// c11HStep: op "build" builds resolver R from its own props.Builder() call (again, if it exists
// already); op "use" resolves In with resolver R as built last.
type c11HStep struct {
	Op string `json:"op"`
	R  int    `json:"r"`
	In string `json:"in,omitempty"`
}

// c11Hist is a HISTORY: several resolvers alive in one process, built from separate
// props.Builder() calls with different delimiter triples / lookup tables, used interleaved.
type c11Hist struct {
	Res   []c11HRes  `json:"res"`
	Steps []c11HStep `json:"steps"`
}

var c11Default = [3]string{"${", "}", ":"}

const (
	c11LookupBudget = 10000 // lookups per Resolve call ("step budget")
	c11RefBudget    = 200000
	c11Timeout      = 20 * time.Second
)

func init() {
	register(&Prop{ID: "C11", Run: c11Run,
		Rule: "for each delimiter triple of {${ } :, #{ } |, << >> ::, %( ) ?, ${ } :-, {{ }} |, [[ ]] =>, @ )) ~, %{ %} :, « » ¦, <q> </q> <:>, “ ” |} (separator shorter than, as long as and longer than the suffix; prefix shorter than, as long as and longer than the suffix; delimiters that share no character, that share their leading / trailing character without overlapping, and delimiters outside ASCII whose UTF-8 encodings share their leading bytes): (tok) ALL token strings over {prefix,suffix,separator,a,b} up to a length bound against 7 fixed tables (plain, chain, self cycle, mutual cycle, separator-injecting values, unterminated values, key containing the separator); (gram) templates from the grammar text | prefix key-template [sep default-template] suffix (nesting depth <= 4, repetition, unknown keys, unterminated tails, stray suffix/separator) against random tables whose values are templates incl. self and mutual references; one generator in three draws key names that differ by case or blanks only (a / A / ' a' / 'a ' / 'a b') one in three adds table keys that LOOK LIKE templates (a key text holding a complete placeholder, db.${env}.url), one in three adds property names that CONTAIN the separator (jdbc:url), the same texts being used as key parts of placeholders, and one in three draws plain text from a wide alphabet as well (backslash, quotes, slash, %, $, #, ^, &, !, ~, path fragments C:\\, characters outside ASCII — whatever is not a character of the triple's own delimiters), in inputs and in table values; (fn) the same templates, half of them a placeholder with a nested key part, against lookup FUNCTIONS that are total — the table first, then for every other key the empty string (os.Getenv-style), the decimal length of the key, or its letters and digits in upper case — held against the reference only (the model takes a table); (raw) random strings over the delimiter CHARACTERS, lexed by the model; (concat) pairs of delimiter-balanced templates; (hist) HISTORIES: 2-3 resolvers alive at once, built from separate props.Builder() calls with pairwise different triples and their own tables (half of the histories contain a resolver whose triple shares delimiters with the documented default ${ } : and leaves those options unset on the builder), used interleaved with a preference for resolvers built EARLIER than the latest builder call, on grammar templates of their own syntax (sometimes followed by a placeholder in a sibling's syntax); every use is compared with the reference and the model for that resolver's OWN triple and table and with a resolver built alone. (live) ONE resolver reused while its lookup source CHANGES: a resolver built once over a Go map (props.MapLookup reads the map on every lookup) resolves a small pool of inputs again and again (4-10 steps) while keys of a small pool — ordinary names, names containing the separator, names that look like templates — are added, changed and removed in place between the uses; every use is compared with the reference, the model and a resolver built at that moment, all for the table as it is at that use. (deep) LONG expansion paths: 1..100 placeholders open at the same time (every scale: up to 8, 24, 48, 100), built from the three ways a placeholder opens another one — the value of a known key holds the next placeholder (k0 -> k1 -> ... over up to 101 keys), the default of an unknown key holds it (defaults nested in defaults), the key part holds it (keys nested in keys, each lookup giving the name for the next) — alone and mixed, ending in a plain word, an unknown key or an unterminated value (acyclic) or closed into a true cycle at the far end (the last link refers to a link of the path), plus the control with as many placeholders side by side; compared with the reference, the model and the repetition clause like every batch. One in four gram/raw/concat cases additionally has a sibling resolver with another triple, built and used before the resolver under test is built, between its build and its use, or interleaved with its uses. 600 more live cases use a lookup that keeps one string per key and hands out a pointer to the string it keeps (LookupFn returns *string): every use is held against the table as the steps made it, and after every use the strings the lookup keeps must still be the ones the steps put there. A batch case is non-trivial when at least one input has a complete placeholder; a history when a resolver is used on an input with a complete placeholder after a later builder call or while relying on builder defaults next to a sibling; a live case when an input with a complete placeholder is resolved after an edit of the table; distinct = distinct canonical case JSON.",
		Assumptions: []string{
			"delimiter triples are the twelve fixed non-overlapping ones (no delimiter occurs inside another one and no proper tail of one delimiter is a head of another one; eight of them share no character at all); strings are valid UTF-8 (the model lexes characters, the implementation bytes: the same thing on valid UTF-8)",
			"the model works on token lists (greedy left-to-right lexing for the triple; the resolved placeholder text is re-lexed before lookup); byte-level = token-level matching is validated by the raw stream (random strings and table values over the delimiter CHARACTERS, incl. partial delimiters), not proved",
			"the concatenation clause is evaluated for pairs whose concatenation lexes to the concatenation of the lexings (no delimiter forms across the junction)",
			"termination is observed as: at most 10000 lookups per Resolve call and a 20 s wall-clock backstop per batch",
			"lookup tables are Go maps given through props.MapLookup (unique keys; any string is a key, incl. texts with delimiters in them; in the live stream the map is edited in place between Resolve calls of one resolver, never during one); lookup functions are the table followed by a total fallback whose values are free of delimiter characters, and are evaluated with direct predicates only",
			"independence of resolvers built from separate props.Builder() calls is probed by histories of at most 3 resolvers and 9 uses; a history case first builds (and uses) one resolver with all four options set explicitly to the documented defaults, so its outcome depends on its own history only and the recorded case replays in a fresh process"}})
	evals["C11"] = c11Eval
	shrinkers["C11"] = c11Shrink
}

// ---------------------------------------------------------------- implementation under test

type c11BudgetHit struct{}

// number of Resolve calls that ran into the step budget so far; once divergence is
// established (10 hits) later calls get a small budget so that a diverging tree does not
// cost minutes (each hit is already a recorded failure of the termination clause)
var c11BudgetHits int

type c11Resolver struct {
	r props.Resolver
	n *int
}

func c11NewResolver(d [3]string, tbl map[string]string) *c11Resolver {
	return c11NewResolverSet(d, "psv", tbl)
}

// c11NewResolverSet builds a resolver from a fresh props.Builder() call, setting only the
// delimiter options listed in set ('p', 's', 'v'); the others keep the builder's defaults.
func c11NewResolverSet(d [3]string, set string, tbl map[string]string) *c11Resolver {
	return c11NewResolverFn(d, set, tbl, "")
}

// c11FnOK: the lookup functions of the domain.
func c11FnOK(fn string) bool { return fn == "" || fn == "env" || fn == "len" || fn == "up" }

// c11FnValue is the lookup function of a batch as a mathematical function key -> (value, known): the INPUT of a case
// (shared by the resolver under test and the reference).  The computed values are free of delimiter characters (every
// delimiter of the fixed triples is punctuation), so that they add no placeholder syntax of their own.
func c11FnValue(tbl map[string]string, fn, k string) (string, bool) {
	if v, ok := tbl[k]; ok {
		return v, true
	}
	switch fn {
	case "env":
		return "", true
	case "len":
		return fmt.Sprint(len(k)), true
	case "up":
		var sb strings.Builder
		for i := 0; i < len(k); i++ {
			ch := k[i]
			switch {
			case ch >= 'a' && ch <= 'z':
				sb.WriteByte(ch - 'a' + 'A')
			case (ch >= 'A' && ch <= 'Z') || (ch >= '0' && ch <= '9'):
				sb.WriteByte(ch)
			}
		}
		return sb.String(), true
	}
	return "", false
}

func c11NewResolverFn(d [3]string, set string, tbl map[string]string, fn string) *c11Resolver {
	n := new(int)
	ml := props.MapLookup(tbl)
	if fn != "" {
		ml = func(k string) *string {
			v, ok := c11FnValue(tbl, fn, k)
			if !ok {
				return nil
			}
			return &v
		}
	}
	b := props.Builder()
	if strings.Contains(set, "p") {
		b = b.Prefix(d[0])
	}
	if strings.Contains(set, "s") {
		b = b.Suffix(d[1])
	}
	if strings.Contains(set, "v") {
		b = b.ValueSeparator(d[2])
	}
	r := b.LookupFunc(func(k string) *string {
		*n++
		if *n > c11LookupBudget || (c11BudgetHits >= 10 && *n > 400) {
			panic(c11BudgetHit{})
		}
		return ml(k)
	}).MustBuild()
	return &c11Resolver{r: r, n: n}
}

// c11Neutral is the first thing a history case does: one resolver is built with all four options
// set explicitly to the documented defaults (and used once). Whatever earlier cases of the same
// process configured, the outcome of a case then depends on the case's OWN history only, so a
// recorded case replays in a fresh process.
func c11Neutral() {
	r := props.Builder().Prefix(c11Default[0]).Suffix(c11Default[1]).ValueSeparator(c11Default[2]).
		LookupFunc(func(string) *string { return nil }).MustBuild()
	_ = r.Resolve("x")
}

// c11SetOK: options may be left unset only where the triple has the documented default.
func c11SetOK(d [3]string, set string) bool {
	for j, o := range []string{"p", "s", "v"} {
		if !strings.Contains(set, o) && d[j] != c11Default[j] {
			return false
		}
	}
	return true
}

// c11TripleOK: the property's "non-overlapping triples" (guards hand-written / shrunk cases): all
// delimiters non-empty valid UTF-8, pairwise different, no delimiter occurs inside another one and no
// proper tail of one delimiter is a head of ANOTHER one — so an occurrence of a delimiter in a string
// never straddles an occurrence of another one and scanning bytes left to right is the same as
// scanning tokens.  (Delimiters may share characters: "%{" / "%}".)
func c11TripleOK(d [3]string) bool {
	for i := range d {
		if d[i] == "" || !utf8.ValidString(d[i]) {
			return false
		}
		for j := range d {
			if i == j {
				continue
			}
			if strings.Contains(d[i], d[j]) {
				return false
			}
			for k := 1; k < len(d[i]); k++ {
				if strings.HasPrefix(d[j], d[i][k:]) {
					return false
				}
			}
		}
	}
	return true
}

const (
	c11CycPre = "Circular placeholder reference '"
	c11CycSuf = "' in property definitions"
)

func (cr *c11Resolver) resolve(s string) (out c11Out) {
	*cr.n = 0
	defer func() {
		if x := recover(); x != nil {
			if _, ok := x.(c11BudgetHit); ok {
				c11BudgetHits++
				out = c11Out{R: "budget"}
				return
			}
			msg := fmt.Sprint(x)
			if strings.HasPrefix(msg, c11CycPre) && strings.HasSuffix(msg, c11CycSuf) && len(msg) >= len(c11CycPre)+len(c11CycSuf) {
				out = c11Out{R: "cycle", O: msg[len(c11CycPre) : len(msg)-len(c11CycSuf)]}
				return
			}
			out = c11Out{R: "panic", S: msg}
		}
	}()
	return c11Out{R: "ok", S: cr.r.Resolve(s)}
}

func c11TblMap(t [][2]string) map[string]string {
	m := map[string]string{}
	for _, kv := range t {
		m[kv[0]] = kv[1]
	}
	return m
}

// ---------------------------------------------------------------- Go-side lexer (domain predicates of the direct clauses)

type c11Tok struct {
	k byte // 'P' prefix, 'S' suffix, 'V' separator, 'c' character
	c rune
}

func c11Lex(d [3]string, s string) []c11Tok {
	var out []c11Tok
	for i := 0; i < len(s); {
		switch {
		case strings.HasPrefix(s[i:], d[0]):
			out = append(out, c11Tok{k: 'P'})
			i += len(d[0])
		case strings.HasPrefix(s[i:], d[1]):
			out = append(out, c11Tok{k: 'S'})
			i += len(d[1])
		case strings.HasPrefix(s[i:], d[2]):
			out = append(out, c11Tok{k: 'V'})
			i += len(d[2])
		default:
			ch, sz := utf8.DecodeRuneInString(s[i:])
			out = append(out, c11Tok{k: 'c', c: ch})
			i += sz
		}
	}
	return out
}

// delimiter-balanced: every prefix is closed inside the string (a suffix at depth 0 is text)
func c11Balanced(t []c11Tok) bool {
	depth := 0
	for _, x := range t {
		switch x.k {
		case 'P':
			depth++
		case 'S':
			if depth > 0 {
				depth--
			}
		}
	}
	return depth == 0
}

func c11HasPh(t []c11Tok) bool {
	depth, seen := 0, false
	for _, x := range t {
		switch x.k {
		case 'P':
			depth++
		case 'S':
			if depth > 0 {
				depth--
				if depth == 0 {
					seen = true
				}
			}
		}
	}
	return seen
}

func c11Hazard(d [3]string, t []c11Tok) bool {
	multi := ""
	for _, x := range d {
		if utf8.RuneCountInString(x) > 1 {
			multi += x
		}
	}
	for _, x := range t {
		if x.k == 'c' && strings.ContainsRune(multi, x.c) {
			return true
		}
	}
	return false
}

// c11Glues: lexing the concatenation differs from concatenating the lexings (a delimiter
// forms across the junction) — outside "delimiter-balanced s1, s2" read on tokens.
func c11Glues(d [3]string, s1, s2 string) bool {
	a, b, ab := c11Lex(d, s1), c11Lex(d, s2), c11Lex(d, s1+s2)
	if len(ab) != len(a)+len(b) {
		return true
	}
	for i := range ab {
		x := b[0:0]
		if i < len(a) {
			x = a[i : i+1]
		} else {
			x = b[i-len(a) : i-len(a)+1]
		}
		if x[0] != ab[i] {
			return true
		}
	}
	return false
}

// ---------------------------------------------------------------- generators

// token alphabet of the exhaustive stream
const c11Alpha = "PSVab"

func c11Render(d [3]string, toks string) string {
	var sb strings.Builder
	for i := 0; i < len(toks); i++ {
		switch toks[i] {
		case 'P':
			sb.WriteString(d[0])
		case 'S':
			sb.WriteString(d[1])
		case 'V':
			sb.WriteString(d[2])
		default:
			sb.WriteByte(toks[i])
		}
	}
	return sb.String()
}

// the fixed tables of the exhaustive stream, in token notation
var c11FixedTables = [][][2]string{
	{},
	{{"a", "x"}, {"b", "y"}},
	{{"a", "PbS"}, {"b", "x"}},
	{{"a", "PaS"}, {"b", "PaS"}},
	{{"a", "PbS"}, {"b", "PaS"}},
	{{"a", "b"}, {"b", "aVb"}},
	{{"a", "Pb"}, {"aVb", "x"}, {"b", "S"}},
}

func c11RenderTbl(d [3]string, t [][2]string) [][2]string {
	out := make([][2]string, 0, len(t))
	for _, kv := range t {
		out = append(out, [2]string{c11Render(d, kv[0]), c11Render(d, kv[1])})
	}
	sort.Slice(out, func(i, j int) bool { return out[i][0] < out[j][0] })
	return out
}

// all token strings of exactly length n, in lexicographic order of the alphabet
func c11Enum(n int, f func(string)) {
	buf := make([]byte, n)
	var rec func(i int)
	rec = func(i int) {
		if i == n {
			f(string(buf))
			return
		}
		for j := 0; j < len(c11Alpha); j++ {
			buf[i] = c11Alpha[j]
			rec(i + 1)
		}
	}
	rec(0)
}

type c11Gen struct {
	r    *rand.Rand
	d    [3]string
	keys []string
	unk  []string
	txt  []string
	// tkeys: table keys that LOOK LIKE templates (a key text with a complete placeholder in it, as "db.${env}.url"): a
	// lookup table is a map from strings, any string can be a key.  The same texts are used as key parts of
	// placeholders, so that the raw text of a nested key is sometimes itself a key of the table.
	tkeys []string
}

func c11NewGen(r *rand.Rand, d [3]string) *c11Gen {
	g := &c11Gen{r: r, d: d, keys: []string{"a", "b", "c", "ab", "ba", "k1"}, unk: []string{"u", "zz", "a.b"},
		txt: []string{"x", "y", "-", " ", "0", "a", "b", "k", "1", "_.", "xy z"}}
	if r.Intn(3) == 0 {
		// names that differ by case or by surrounding / inner blanks only are different keys
		g.keys = []string{"a", "A", " a", "a ", "ab", "a b", "k1", "K1"}
		g.unk = []string{"u", "B", "a  b", "a.b", " "}
	}
	if r.Intn(3) == 0 {
		for i, n := 0, 1+r.Intn(2); i < n; i++ {
			k := pick(r, []string{"", "", "a", "b", "k", "db."}) + d[0] + pick(r, append([]string{"u"}, g.keys...)) + d[1] + pick(r, []string{"", "", "a", "1", ".url"})
			if r.Intn(4) == 0 {
				k = d[0] + k + d[1] // the whole text of a placeholder
			}
			g.tkeys = append(g.tkeys, k)
		}
	}
	if r.Intn(3) == 0 {
		// "text outside placeholders is never altered" holds for ANY text: punctuation, quoting and escape-like characters,
		// path fragments, characters outside ASCII (those that are not characters of the triple's own delimiters)
		for _, t := range c11WideText {
			if !strings.ContainsAny(t, d[0]+d[1]+d[2]) {
				g.txt = append(g.txt, t)
			}
		}
	}
	if r.Intn(3) == 0 {
		// property names that CONTAIN the separator ("jdbc:url"): the same text is a key of the table (or not: see table)
		// and the body of a placeholder (name + separator + default)
		for i, n := 0, 1+r.Intn(2); i < n; i++ {
			g.tkeys = append(g.tkeys, pick(r, append([]string{"u"}, g.keys...))+d[2]+pick(r, []string{"x", "b", "1", "", "u"}))
		}
	}
	return g
}

var c11WideText = []string{"\\", "/", "'", "\"", "`", "^", "&", "!", "%", "$", "#", "*", "~", "C:\\", "\\\\", "é", "€", "\\n", "a\\", "?", "(", "]"}

func (g *c11Gen) text() string {
	s := pick(g.r, g.txt)
	if g.r.Intn(20) == 0 { // stray suffix / separator as plain text
		s += pick(g.r, []string{g.d[1], g.d[2]})
	}
	return s
}

func (g *c11Gen) tmpl(depth int) string {
	n := g.r.Intn(4)
	var sb strings.Builder
	for i := 0; i < n; i++ {
		if depth > 0 && g.r.Intn(2) == 0 {
			sb.WriteString(g.ph(depth))
		} else {
			sb.WriteString(g.text())
		}
	}
	return sb.String()
}

func (g *c11Gen) ph(depth int) string {
	s := g.d[0] + g.key(depth-1)
	if g.r.Intn(3) == 0 {
		s += g.d[2] + g.tmpl(depth-1)
	}
	return s + g.d[1]
}

func (g *c11Gen) key(depth int) string {
	k := g.r.Intn(20)
	if len(g.tkeys) > 0 && g.r.Intn(4) == 0 {
		return pick(g.r, g.tkeys)
	}
	switch {
	case depth > 0 && k < 6:
		s := ""
		if g.r.Intn(3) == 0 {
			s += pick(g.r, []string{"a", "b", "k"})
		}
		s += g.ph(depth)
		if g.r.Intn(3) == 0 {
			s += pick(g.r, []string{"a", "b", "1"})
		}
		return s
	case k < 9:
		return pick(g.r, g.unk)
	case k == 9:
		return ""
	default:
		return pick(g.r, g.keys)
	}
}

// input template: depth <= 4, sometimes with an unterminated tail
func (g *c11Gen) input() string {
	s := g.tmpl(1 + g.r.Intn(4))
	if g.r.Intn(3) > 0 {
		s += g.ph(1 + g.r.Intn(4))
	}
	if g.r.Intn(3) == 0 {
		s += g.text() + g.ph(1+g.r.Intn(2))
	}
	if g.r.Intn(8) == 0 { // unterminated tail
		s += g.d[0] + g.key(g.r.Intn(2))
		if g.r.Intn(2) == 0 {
			s += g.d[2] + g.text()
		}
	}
	return s
}

// a table value: a template, a plain word (sometimes followed by one more piece of text), a repetition, an
// unterminated placeholder, or empty
func (g *c11Gen) value() string {
	var v string
	switch x := g.r.Intn(10); {
	case x < 4:
		v = g.tmpl(1 + g.r.Intn(2))
	case x < 7:
		v = pick(g.r, []string{"a", "b", "c", "x", "1", "ab", "v w"})
		if g.r.Intn(4) == 0 {
			v += g.text()
		}
	case x == 7:
		v = g.ph(1) + g.ph(1) // repetition inside a value
	case x == 8:
		v = g.d[0] + pick(g.r, g.keys) // unterminated value
	default:
		v = ""
	}
	return v
}

func (g *c11Gen) table() [][2]string {
	m := map[string]string{}
	n := 2 + g.r.Intn(5)
	for i := 0; i < n; i++ {
		k := pick(g.r, g.keys)
		m[k] = g.value()
	}
	for _, k := range g.tkeys {
		if g.r.Intn(3) > 0 {
			m[k] = pick(g.r, []string{"T", "t1", "", g.d[0] + pick(g.r, g.keys) + g.d[1]})
		}
	}
	out := make([][2]string, 0, len(m))
	for _, k := range sortedKeys(m) {
		out = append(out, [2]string{k, m[k]})
	}
	return out
}

func c11RawString(r *rand.Rand, alpha string, max int) string {
	al := []rune(alpha)
	n := r.Intn(max + 1)
	b := make([]rune, n)
	for i := range b {
		b[i] = al[r.Intn(len(al))]
	}
	return string(b)
}

// the CHARACTERS of the delimiters, and a, b
func c11RawAlpha(d [3]string) string {
	seen := map[rune]bool{}
	out := []rune{}
	for _, s := range []string{d[0], d[1], d[2], "ab"} {
		for _, ch := range s {
			if !seen[ch] {
				seen[ch] = true
				out = append(out, ch)
			}
		}
	}
	return string(out)
}

// c11OtherTriple picks a triple different from d.
func c11OtherTriple(r *rand.Rand, d [3]string) [3]string {
	for {
		if o := pick(r, c11Triples); o != d {
			return o
		}
	}
}

// c11GenSib: a sibling resolver with another delimiter triple and its own table (one time in
// four for the random streams).
func c11GenSib(r *rand.Rand, d [3]string, whens []string) *c11Sib {
	if r.Intn(4) != 0 {
		return nil
	}
	sd := c11OtherTriple(r, d)
	g := c11NewGen(r, sd)
	return &c11Sib{D: sd, Tbl: g.table(), In: g.input(), When: pick(r, whens)}
}

var (
	c11WhenBatch  = []string{"before", "between", "interleaved"}
	c11WhenConcat = []string{"before", "between"}
)

// c11GenHist: 2-3 resolvers with pairwise different triples (half of the time one of them has
// the default triple, or one that shares delimiters with it, and leaves such options unset on the
// builder), each with its own table; after every build 1-3 uses of resolvers built so far,
// preferring EARLIER ones (used again after a later builder was configured). An input is a template
// of the used resolver's grammar, sometimes followed by a placeholder in a sibling's syntax
// (which the used resolver has to treat according to its own triple).
func c11GenHist(r *rand.Rand) c11Hist {
	var h c11Hist
	n := 2 + r.Intn(2)
	var gens []*c11Gen
	dfltAt := -1
	if r.Intn(2) == 0 {
		dfltAt = r.Intn(n)
	}
	for i := 0; i < n; i++ {
		var d [3]string
		for try := 0; ; try++ {
			d = pick(r, c11Triples)
			if i == dfltAt {
				d = pick(r, [][3]string{c11Triples[0], c11Triples[0], c11Triples[1], c11Triples[4]})
			}
			fresh := true
			for _, x := range h.Res {
				if x.D == d {
					fresh = false
				}
			}
			if fresh {
				break
			}
			if try > 20 {
				dfltAt = -1
			}
		}
		set := ""
		for j, o := range []string{"p", "s", "v"} {
			// an option equal to the documented default is left to the builder half of the time
			if d[j] != c11Default[j] || r.Intn(2) == 0 {
				set += o
			}
		}
		g := c11NewGen(r, d)
		gens = append(gens, g)
		var tbl [][2]string
		if r.Intn(4) == 0 {
			tbl = c11RenderTbl(d, pick(r, c11FixedTables))
		} else {
			tbl = g.table()
		}
		h.Res = append(h.Res, c11HRes{D: d, Set: set, Tbl: tbl})
	}
	for i := 0; i < n; i++ {
		h.Steps = append(h.Steps, c11HStep{Op: "build", R: i})
		for u, k := 0, 1+r.Intn(3); u < k; u++ {
			j := r.Intn(i + 1)
			if i > 0 && u == 0 && r.Intn(3) > 0 {
				j = r.Intn(i) // an earlier-built resolver, after a later builder was configured
			}
			in := gens[j].input()
			if n > 1 && r.Intn(4) == 0 {
				o := r.Intn(n)
				if o != j {
					in += gens[o].ph(1)
				}
			}
			h.Steps = append(h.Steps, c11HStep{Op: "use", R: j, In: in})
		}
	}
	return h
}

func c11Run(c *Ctx) {
	r := c.Rng
	// (tok) exhaustive token strings
	if !c.searchMode {
		maxLen := c11MaxLenQuick
		if c.Thorough() {
			maxLen = c11MaxLenThorough
		}
		total := 0
		for ti, d := range c11Triples {
			var all []string
			for n := 0; n <= maxLen[ti]; n++ {
				c11Enum(n, func(s string) { all = append(all, c11Render(d, s)) })
			}
			total += len(all) * len(c11FixedTables)
			for _, ft := range c11FixedTables {
				tbl := c11RenderTbl(d, ft)
				for i := 0; i < len(all); i += 250 {
					c.Tick()
					j := i + 250
					if j > len(all) {
						j = len(all)
					}
					c.Do("batch", c11Batch{D: d, Tbl: tbl, In: all[i:j], Src: "tok"})
				}
			}
		}
		c.Note("exhaustive scope: all token strings over {prefix,suffix,separator,a,b} up to length %v (per triple) x %d fixed tables = %d resolutions", maxLen, len(c11FixedTables), total)
	} else {
		// witness search: sample the same space
		for i := 0; i < 400; i++ {
			c.Tick()
			d := pick(r, c11Triples)
			var in []string
			for j := 0; j < 100; j++ {
				in = append(in, c11Render(d, c11RawString(r, c11Alpha, 9)))
			}
			c.Do("batch", c11Batch{D: d, Tbl: c11RenderTbl(d, pick(r, c11FixedTables)), In: in, Src: "tok"})
		}
	}
	// (gram) grammar-generated templates against random tables
	for i := 0; i < c.N(2500); i++ {
		c.Tick()
		d := c11Triples[i%len(c11Triples)]
		g := c11NewGen(r, d)
		tbl := g.table()
		var in []string
		for j := 0; j < 4; j++ {
			in = append(in, g.input())
		}
		c.Do("batch", c11Batch{D: d, Tbl: tbl, In: in, Src: "gram", Sib: c11GenSib(r, d, c11WhenBatch)})
	}
	// (fn) the same templates against lookup FUNCTIONS that are total (the table first, then an answer for every other
	// key: os.Getenv-style "", a computed value): no placeholder is unresolvable, no default is ever used
	nFn := c.N(1200)
	if c.Thorough() {
		nFn = c.N(300) // 6000: the thorough tier of this property is dominated by the exhaustive stream
	}
	for i := 0; i < nFn; i++ {
		c.Tick()
		d := c11Triples[i%len(c11Triples)]
		g := c11NewGen(r, d)
		tbl := g.table()
		if r.Intn(4) == 0 {
			tbl = tbl[:r.Intn(len(tbl)+1)]
		}
		var in []string
		for j := 0; j < 4; j++ {
			if r.Intn(2) == 0 {
				in = append(in, g.text()+g.ph(2+g.r.Intn(2))) // a placeholder whose key part is often nested
			} else {
				in = append(in, g.input())
			}
		}
		c.Do("batch", c11Batch{D: d, Tbl: tbl, In: in, Src: "fn", Fn: pick(r, []string{"env", "len", "up"})})
	}
	// (hist) histories: several resolvers from separate Builder() calls, used interleaved
	for i := 0; i < c.N(1500); i++ {
		c.Tick()
		c.Do("hist", c11GenHist(r))
	}
	// (live) one resolver reused while its lookup source changes
	c11RunLive(c)
	// (raw) random strings over the delimiter characters
	for i := 0; i < c.N(2500); i++ {
		c.Tick()
		d := c11Triples[i%len(c11Triples)]
		alpha := c11RawAlpha(d)
		m := map[string]string{}
		for _, k := range []string{"a", "b", "ab", c11RawString(r, alpha, 3)} {
			if r.Intn(4) > 0 {
				if r.Intn(3) == 0 {
					m[k] = c11Render(d, c11RawString(r, c11Alpha, 5))
				} else {
					m[k] = c11RawString(r, alpha, 5)
				}
			}
		}
		var tbl [][2]string
		for _, k := range sortedKeys(m) {
			tbl = append(tbl, [2]string{k, m[k]})
		}
		var in []string
		for j := 0; j < 6; j++ {
			if r.Intn(3) == 0 {
				in = append(in, c11Render(d, c11RawString(r, c11Alpha, 10)))
			} else {
				in = append(in, c11RawString(r, alpha, 12))
			}
		}
		c.Do("batch", c11Batch{D: d, Tbl: tbl, In: in, Src: "raw", Sib: c11GenSib(r, d, c11WhenBatch)})
	}
	// (glue) table values that are halves of delimiters, substituted inside a placeholder body
	// right next to the other half: the resolved body is looked up / split as BYTES
	for i := 0; i < c.N(600); i++ {
		c.Tick()
		d := c11Triples[i%len(c11Triples)]
		dl := []rune(pick(r, d[:]))
		k := len(dl)
		if k > 1 {
			k = 1 + r.Intn(k-1)
		}
		h1, h2 := string(dl[:k]), string(dl[k:])
		m := map[string]string{"a": h1}
		if h2 != "" && r.Intn(2) == 0 {
			m["b"] = h2
		}
		for _, key := range []string{"x", "y", "xy", "x" + d[2] + "y"} {
			if r.Intn(3) == 0 {
				m[key] = pick(r, []string{"1", "x", d[0] + "a" + d[1], d[0] + "y" + d[1], h1, h2})
			}
		}
		var tbl [][2]string
		for _, key := range sortedKeys(m) {
			tbl = append(tbl, [2]string{key, m[key]})
		}
		frag := func() string { return pick(r, []string{"", "x", "y", "a", "u"}) }
		ref := func(k string) string { return d[0] + k + d[1] }
		var in []string
		for j := 0; j < 6; j++ {
			second := h2
			if _, ok := m["b"]; ok && r.Intn(2) == 0 {
				second = ref("b")
			}
			body := frag() + ref("a") + second + frag()
			switch r.Intn(4) {
			case 0:
				body = "u" + d[2] + body
			case 1:
				body = frag() + second + ref("a") + frag()
			}
			s := d[0] + body + d[1]
			if r.Intn(3) == 0 {
				s = frag() + s + second + ref("a") + second
			}
			in = append(in, s)
		}
		c.Do("batch", c11Batch{D: d, Tbl: tbl, In: in, Src: "glue"})
	}
	// (concat) balanced pairs
	for i := 0; i < c.N(2500); i++ {
		c.Tick()
		d := c11Triples[i%len(c11Triples)]
		g := c11NewGen(r, d)
		var tbl [][2]string
		if r.Intn(3) == 0 {
			tbl = c11RenderTbl(d, pick(r, c11FixedTables))
		} else {
			tbl = g.table()
		}
		gen := func() string {
			for try := 0; try < 50; try++ {
				var s string
				if r.Intn(3) == 0 {
					s = c11Render(d, c11RawString(r, c11Alpha, 7))
				} else {
					s = g.input()
				}
				if c11Balanced(c11Lex(d, s)) {
					return s
				}
			}
			return "x"
		}
		s1 := gen()
		s2 := gen()
		if r.Intn(5) == 0 {
			s2 = s1
		}
		c.Do("concat", c11Concat{D: d, Tbl: tbl, S1: s1, S2: s2, Sib: c11GenSib(r, d, c11WhenConcat)})
	}
	// (deep) long expansion paths (1..100 placeholders open at once), acyclic or closed into a true cycle at the far end
	for i := 0; i < c.N(60); i++ {
		c.Tick()
		c.Do("batch", c11GenDeep(r, c11Triples[i%len(c11Triples)]))
	}
}

// ---------------------------------------------------------------- evaluation

func c11Eval(c *Ctx, kind string, raw []byte) {
	switch kind {
	case "batch":
		var b c11Batch
		if err := json.Unmarshal(raw, &b); err != nil {
			panic(err)
		}
		c11EvalBatch(c, b)
	case "concat":
		var p c11Concat
		if err := json.Unmarshal(raw, &p); err != nil {
			panic(err)
		}
		c11EvalConcat(c, p)
	case "hist":
		var h c11Hist
		if err := json.Unmarshal(raw, &h); err != nil {
			panic(err)
		}
		c11EvalHist(c, h)
	case "live":
		var l c11Live
		if err := json.Unmarshal(raw, &l); err != nil {
			panic(err)
		}
		c11EvalLive(c, l)
	}
}

// c11SibRun holds the sibling resolver of a batch / concat case (nil-safe).
type c11SibRun struct {
	sib *c11Sib
	tbl map[string]string
	cr  *c11Resolver
	res []c11Out
}

func c11NewSibRun(c *Ctx, sib *c11Sib) *c11SibRun {
	if sib == nil {
		return nil
	}
	if !c11TripleOK(sib.D) {
		c.Dist("sibling:triple-outside-domain(ignored)")
		return nil
	}
	return &c11SibRun{sib: sib, tbl: c11TblMap(sib.Tbl)}
}

// at runs the sibling at the given point of the case: built on its first turn, used on every turn.
func (sr *c11SibRun) at(point string) {
	if sr == nil {
		return
	}
	switch w := sr.sib.When; {
	case point == "before" && w != "before":
		return
	case point == "between" && w != "between" && w != "interleaved":
		return
	case point == "interleaved" && w != "interleaved":
		return
	}
	if sr.cr == nil {
		sr.cr = c11NewResolver(sr.sib.D, sr.tbl)
	}
	sr.res = append(sr.res, sr.cr.resolve(sr.sib.In))
}

// check: the sibling, too, resolves with ITS OWN triple and table every time it is used.
func (sr *c11SibRun) check(c *Ctx) {
	if sr == nil {
		return
	}
	c.Dist("sibling:" + sr.sib.When)
	ref := c11RefResolve(sr.sib.D, sr.tbl, sr.sib.In, c11RefBudget)
	for _, r := range sr.res {
		det := map[string]any{"sibling": sr.sib, "impl": r, "reference": ref}
		c.DirectF("terminates(step-budget)", r.R != "budget", det, c11DivergeFinding(sr.sib.D, sr.tbl))
		c.Direct("no-panic-other-than-circular-reference", r.R != "panic", det)
		if ref.R != "budget" && r.R != "budget" && r.R != "panic" {
			c.Direct("agrees-with-reference", c11Same(r, ref), det)
		}
	}
}

// c11Timed runs f on its own goroutine; false = the wall-clock backstop fired.
func c11Timed(f func()) bool {
	done := make(chan struct{})
	var esc any
	go func() {
		defer func() {
			esc = recover()
			close(done)
		}()
		f()
	}()
	select {
	case <-done:
		if esc != nil {
			panic(esc)
		}
		return true
	case <-time.After(c11Timeout):
		return false
	}
}

func c11Same(a, b c11Out) bool {
	if a.R == "cycle" && b.R == "cycle" {
		return true
	}
	return a.R == "ok" && b.R == "ok" && a.S == b.S
}

// c11DivergeFinding classifies a failed termination clause.  Known finding D29 covers exactly the
// tables with a value that is not delimiter-balanced (such values can glue into ever-new
// placeholders; proved divergent in Lean: Ytk.C11.resolve_diverges_counterexample).  Known finding
// D31 covers the tables whose values are all balanced but of which one carries, as plain text, a
// character of a multi-character delimiter ("$" or "{" under "${"): two such halves coming out of
// different values are glued into a real delimiter when the resolved key text is scanned again
// (Ytk.C11.resolve_diverges_relex_counterexample).  For tables with balanced values without such
// characters termination is a theorem (resolve_terminates_balanced_relex_partial), so a budget
// overrun there is an unlisted violation.
func c11DivergeFinding(d [3]string, tbl map[string]string) string {
	for _, v := range tbl {
		if !c11Balanced(c11Lex(d, v)) {
			return "D29-unbalanced-values-diverge"
		}
	}
	for _, v := range tbl {
		if c11Hazard(d, c11Lex(d, v)) {
			return "D31-glued-delimiter-halves-diverge"
		}
	}
	return ""
}

func c11EvalBatch(c *Ctx, b c11Batch) {
	if !c11FnOK(b.Fn) {
		c.Dist("batch:lookup-function-outside-domain(skipped)")
		return
	}
	tbl := c11TblMap(b.Tbl)
	n := len(b.In)
	res := make([]c11Out, n)
	dup := make([]c11Out, n)
	lexed := make([][]c11Tok, n)
	bal := make([]bool, n)
	for i, s := range b.In {
		lexed[i] = c11Lex(b.D, s)
		bal[i] = c11Balanced(lexed[i])
	}
	sr := c11NewSibRun(c, b.Sib)
	if !c11Timed(func() {
		sr.at("before")
		cr := c11NewResolverFn(b.D, "psv", tbl, b.Fn)
		sr.at("between")
		for i, s := range b.In {
			res[i] = cr.resolve(s)
			if bal[i] {
				dup[i] = cr.resolve(s + s)
			}
			sr.at("interleaved")
		}
	}) {
		c.Direct("terminates(wall-clock)", false, "batch did not finish within the backstop")
		return
	}
	nontrivial := false
	implObs := make([]any, n)
	for i, s := range b.In {
		r := res[i]
		hz := c11Hazard(b.D, lexed[i])
		hasPh := c11HasPh(lexed[i])
		if hasPh {
			nontrivial = true
		}
		c.Dist(b.Src + ":" + r.R)
		if hz {
			c.Dist(b.Src + ":has-lone-char-of-multichar-delimiter")
		}
		// details (and the known-finding classification) are built only for a failing predicate:
		// the exhaustive stream evaluates these lines more than a million times
		det := func(extra any) any { return map[string]any{"in": s, "impl": r, "more": extra} }
		if r.R == "budget" {
			c.DirectF("terminates(step-budget)", false, det(nil), c11DivergeFinding(b.D, tbl))
		}
		if r.R == "panic" {
			c.Direct("no-panic-other-than-circular-reference", false, det(nil))
		}
		// Resolve(s) == s when s has no prefix
		if !strings.Contains(s, b.D[0]) {
			c.Dist(b.Src + ":no-prefix")
			if !(r.R == "ok" && r.S == s) {
				c.Direct("no-prefix-identity", false, det(nil))
			}
		}
		// agreement with the independent recursive-descent reference
		ref := c11RefResolveFn(b.D, tbl, b.Fn, s, c11RefBudget)
		if b.Src == "deep" {
			c.Dist("deep:" + ref.R + ":" + c11DepthBucket(c11RefLastDepth))
		}
		if ref.R != "budget" && r.R != "budget" && r.R != "panic" {
			if !c11Same(r, ref) {
				c.Direct("agrees-with-reference", false, det(map[string]any{"reference": ref}))
			}
			if r.R == "cycle" && ref.R != "cycle" {
				c.Direct("circular-reference-only-on-true-cycle", false, det(map[string]any{"reference": ref}))
			}
			if ref.R == "cycle" && r.R != "cycle" {
				c.Direct("true-cycle-is-reported", false, det(map[string]any{"reference": ref}))
			}
		}
		// repetition: Resolve(s+s) == Resolve(s)+Resolve(s) for balanced s (never a cycle merely because of the repeat)
		if bal[i] && r.R != "budget" && r.R != "panic" && !c11Glues(b.D, s, s) {
			want := c11Out{R: "ok", S: r.S + r.S}
			if r.R == "cycle" {
				want = r
			}
			if hasPh {
				c.Dist(b.Src + ":dup-checked")
			}
			if !c11Same(dup[i], want) {
				c.Direct("repeat-homomorphism", false, map[string]any{"in": s, "Resolve(s)": r, "Resolve(s+s)": dup[i]})
			}
		}
		implObs[i] = map[string]any{"bal": bal[i], "ntok": len(lexed[i]), "res": c11Wire(r)}
	}
	sr.check(c)
	if nontrivial {
		c.Nontrivial()
	}
	for _, kv := range b.Tbl {
		if c11HasPh(c11Lex(b.D, kv[0])) {
			c.Dist(b.Src + ":table-key-looks-like-a-template")
			break
		}
	}
	if b.Fn != "" {
		// a lookup function is not a table: direct predicates (reference) only
		c.Dist("fn:lookup=" + b.Fn)
		return
	}
	margs := map[string]any{"d": b.D, "tbl": c11TblWire(b.Tbl), "in": b.In}
	if b.Src == "deep" {
		margs["fuel"] = 4000 // one unit per nested call: far above a path of 100 links
	}
	m := c.Model("resolve", margs)
	c.Corr("resolve", implObs, c11ModelObs(m))
}

func c11TblWire(t [][2]string) [][2]string {
	if t == nil {
		return [][2]string{}
	}
	return t
}

func c11Wire(r c11Out) any {
	switch r.R {
	case "ok":
		return map[string]any{"r": "ok", "s": r.S}
	case "cycle":
		return map[string]any{"r": "cycle", "o": r.O}
	case "budget":
		// the implementation ran into the step budget; the model reports running out of fuel
		return map[string]any{"r": "fuel"}
	}
	return map[string]any{"r": r.R}
}

// c11ModelObs projects the driver's answer onto what is compared: result, balance flag,
// token count; "rt" (unlex∘lex = id) must be true.
func c11ModelObs(m any) any {
	l, ok := m.([]any)
	if !ok {
		return m
	}
	out := make([]any, len(l))
	for i, e := range l {
		o, ok := e.(map[string]any)
		if !ok {
			out[i] = e
			continue
		}
		p := map[string]any{"bal": o["bal"], "ntok": o["ntok"], "res": o["res"]}
		if rt, _ := o["rt"].(bool); !rt {
			p["rt"] = o["rt"]
		}
		out[i] = p
	}
	return out
}

func c11EvalConcat(c *Ctx, p c11Concat) {
	tbl := c11TblMap(p.Tbl)
	l1, l2 := c11Lex(p.D, p.S1), c11Lex(p.D, p.S2)
	if !c11Balanced(l1) || !c11Balanced(l2) {
		c.Dist("concat:unbalanced(skipped)")
		return
	}
	if c11Glues(p.D, p.S1, p.S2) {
		c.Dist("concat:delimiter-forms-across-junction(skipped)")
		return
	}
	var r1, r2, r12 c11Out
	sr := c11NewSibRun(c, p.Sib)
	if !c11Timed(func() {
		sr.at("before")
		cr := c11NewResolver(p.D, tbl)
		sr.at("between")
		r1, r2, r12 = cr.resolve(p.S1), cr.resolve(p.S2), cr.resolve(p.S1+p.S2)
	}) {
		c.Direct("terminates(wall-clock)", false, nil)
		return
	}
	if c11HasPh(l1) && c11HasPh(l2) {
		c.Nontrivial()
	}
	sr.check(c)
	det := map[string]any{"Resolve(s1)": r1, "Resolve(s2)": r2, "Resolve(s1+s2)": r12}
	for _, r := range []c11Out{r1, r2, r12} {
		c.DirectF("terminates(step-budget)", r.R != "budget", det, c11DivergeFinding(p.D, tbl))
		c.Direct("no-panic-other-than-circular-reference", r.R != "panic", det)
	}
	var want c11Out
	switch {
	case r1.R == "cycle":
		want = r1
	case r2.R == "cycle":
		want = r2
	default:
		want = c11Out{R: "ok", S: r1.S + r2.S}
	}
	c.Dist("concat:" + r1.R + "+" + r2.R)
	if r1.R != "budget" && r2.R != "budget" && r1.R != "panic" && r2.R != "panic" {
		c.Direct("concat-homomorphism", c11Same(r12, want), det)
	}
	m := c.Model("resolve", map[string]any{"d": p.D, "tbl": c11TblWire(p.Tbl), "in": []string{p.S1, p.S2, p.S1 + p.S2}})
	obs := func(r c11Out, l int, bal bool) any {
		return map[string]any{"bal": bal, "ntok": l, "res": c11Wire(r)}
	}
	c.Corr("resolve", []any{obs(r1, len(l1), true), obs(r2, len(l2), true), obs(r12, len(l1)+len(l2), true)},
		c11ModelObs(m))
}

// c11EvalHist runs a history. Every use of every resolver is held against the resolver's OWN
// configuration: the independent reference and the model are given the triple and table that
// resolver was built with, and a resolver built in isolation (after the history) with the same
// four options must give the same answers as the one that lived next to its siblings.
func c11EvalHist(c *Ctx, h c11Hist) {
	tbls := make([]map[string]string, len(h.Res))
	for i, rc := range h.Res {
		if !c11TripleOK(rc.D) || !c11SetOK(rc.D, rc.Set) {
			c.Dist("hist:configuration-outside-domain(skipped)")
			return
		}
		tbls[i] = c11TblMap(rc.Tbl)
	}
	type use struct {
		r        int
		in       string
		out      c11Out
		laterCfg bool // a sibling builder was configured between this resolver's build and this use
	}
	var uses []use
	if !c11Timed(func() {
		c11Neutral()
		live := make([]*c11Resolver, len(h.Res))
		stamp := make([]int, len(h.Res)) // number of builds seen when resolver i was built
		builds := 0
		for _, st := range h.Steps {
			if st.R < 0 || st.R >= len(h.Res) {
				continue
			}
			switch st.Op {
			case "build":
				live[st.R] = c11NewResolverSet(h.Res[st.R].D, h.Res[st.R].Set, tbls[st.R])
				builds++
				stamp[st.R] = builds
			case "use":
				if live[st.R] == nil {
					continue // used before built: nothing to run (shrunk case)
				}
				uses = append(uses, use{r: st.R, in: st.In, out: live[st.R].resolve(st.In), laterCfg: builds > stamp[st.R]})
			}
		}
	}) {
		c.Direct("terminates(wall-clock)", false, "history did not finish within the backstop")
		return
	}
	// the same uses on resolvers built in isolation: build, use, discard (all four options set)
	iso := make([]c11Out, len(uses))
	if !c11Timed(func() {
		for i, u := range uses {
			iso[i] = c11NewResolver(h.Res[u.r].D, tbls[u.r]).resolve(u.in)
		}
	}) {
		c.Direct("terminates(wall-clock)", false, "isolated re-run did not finish within the backstop")
		return
	}
	c.Dist(fmt.Sprintf("hist:resolvers=%d", len(h.Res)))
	nontrivial := false
	perRes := make([][]int, len(h.Res))
	for i, u := range uses {
		rc := h.Res[u.r]
		lexed := c11Lex(rc.D, u.in)
		perRes[u.r] = append(perRes[u.r], i)
		if u.laterCfg {
			c.Dist("hist:use-after-later-build:" + u.out.R)
			if c11HasPh(lexed) {
				nontrivial = true
			}
		} else {
			c.Dist("hist:use-of-latest-built:" + u.out.R)
		}
		if rc.Set != "psv" {
			c.Dist("hist:use-of-resolver-relying-on-defaults")
			if c11HasPh(lexed) && len(h.Res) > 1 {
				nontrivial = true
			}
		}
		ref := c11RefResolve(rc.D, tbls[u.r], u.in, c11RefBudget)
		det := map[string]any{"resolver": u.r, "config": rc, "in": u.in, "impl": u.out, "reference": ref, "isolated": iso[i]}
		c.DirectF("terminates(step-budget)", u.out.R != "budget", det, c11DivergeFinding(rc.D, tbls[u.r]))
		c.Direct("no-panic-other-than-circular-reference", u.out.R != "panic", det)
		if !strings.Contains(u.in, rc.D[0]) {
			c.Direct("no-prefix-identity", u.out.R == "ok" && u.out.S == u.in, det)
		}
		if u.out.R == "budget" || u.out.R == "panic" {
			continue
		}
		if ref.R != "budget" {
			c.Direct("agrees-with-reference", c11Same(u.out, ref), det)
			c.Direct("circular-reference-only-on-true-cycle", u.out.R != "cycle" || ref.R == "cycle", det)
			c.Direct("true-cycle-is-reported", ref.R != "cycle" || u.out.R == "cycle", det)
		}
		if iso[i].R != "budget" && iso[i].R != "panic" {
			c.Direct("resolves-with-its-own-configuration(same answers as a resolver built alone)", c11Same(u.out, iso[i]), det)
		}
	}
	if nontrivial {
		c.Nontrivial()
	}
	for ri, idx := range perRes {
		if len(idx) == 0 {
			continue
		}
		rc := h.Res[ri]
		ins := make([]string, len(idx))
		obs := make([]any, len(idx))
		for k, i := range idx {
			lexed := c11Lex(rc.D, uses[i].in)
			ins[k] = uses[i].in
			obs[k] = map[string]any{"bal": c11Balanced(lexed), "ntok": len(lexed), "res": c11Wire(uses[i].out)}
		}
		m := c.Model("resolve", map[string]any{"d": rc.D, "tbl": c11TblWire(rc.Tbl), "in": ins})
		c.Corr("resolve", obs, c11ModelObs(m))
	}
}

// ---------------------------------------------------------------- shrinking

func c11DropChars(s string) []string {
	var out []string
	for i, ch := range s {
		out = append(out, s[:i]+s[i+utf8.RuneLen(ch):])
	}
	return out
}

func c11Shrink(kind string, raw []byte) [][]byte {
	var out [][]byte
	emit := func(v any) {
		// no HTML escaping: "<" must not grow to \u003c, or a smaller case looks larger
		var buf bytes.Buffer
		enc := json.NewEncoder(&buf)
		enc.SetEscapeHTML(false)
		if err := enc.Encode(v); err == nil {
			out = append(out, bytes.TrimSpace(buf.Bytes()))
		}
	}
	tblVariants := func(t [][2]string, f func([][2]string)) {
		for i := range t {
			f(append(append([][2]string{}, t[:i]...), t[i+1:]...))
		}
		for i := range t {
			for _, v := range c11DropChars(t[i][1]) {
				n := append([][2]string{}, t...)
				n[i] = [2]string{t[i][0], v}
				f(n)
			}
		}
	}
	// sibling of a batch / concat case: drop it, then empty its table / input
	sibVariants := func(sib *c11Sib, f func(*c11Sib)) {
		if sib == nil {
			return
		}
		f(nil)
		tblVariants(sib.Tbl, func(t [][2]string) { n := *sib; n.Tbl = t; f(&n) })
		for _, v := range c11DropChars(sib.In) {
			n := *sib
			n.In = v
			f(&n)
		}
	}
	switch kind {
	case "live":
		c11ShrinkLive(raw, emit, tblVariants)
	case "hist":
		var h c11Hist
		if json.Unmarshal(raw, &h) != nil {
			return nil
		}
		// drop a resolver together with its steps
		for i := range h.Res {
			n := c11Hist{}
			for j, rc := range h.Res {
				if j != i {
					n.Res = append(n.Res, rc)
				}
			}
			for _, st := range h.Steps {
				switch {
				case st.R < i:
					n.Steps = append(n.Steps, st)
				case st.R > i:
					st.R--
					n.Steps = append(n.Steps, st)
				}
			}
			emit(n)
		}
		// drop a step
		for i := range h.Steps {
			n := h
			n.Steps = append(append([]c11HStep{}, h.Steps[:i]...), h.Steps[i+1:]...)
			emit(n)
		}
		// smaller tables
		for i := range h.Res {
			i := i
			tblVariants(h.Res[i].Tbl, func(t [][2]string) {
				n := h
				n.Res = append([]c11HRes{}, h.Res...)
				n.Res[i].Tbl = t
				emit(n)
			})
		}
		// shorter inputs
		for i, st := range h.Steps {
			for _, v := range c11DropChars(st.In) {
				n := h
				n.Steps = append([]c11HStep{}, h.Steps...)
				n.Steps[i].In = v
				emit(n)
			}
		}
	case "batch":
		var b c11Batch
		if json.Unmarshal(raw, &b) != nil {
			return nil
		}
		sibVariants(b.Sib, func(sib *c11Sib) { n := b; n.Sib = sib; emit(n) })
		if len(b.In) > 1 {
			for _, s := range b.In {
				n := b
				n.In = []string{s}
				emit(n)
			}
			return out
		}
		c11InlineVariants(b, func(n c11Batch) { emit(n) })
		tblVariants(b.Tbl, func(t [][2]string) { n := b; n.Tbl = t; emit(n) })
		if len(b.In) == 1 {
			for _, s := range c11DropChars(b.In[0]) {
				n := b
				n.In = []string{s}
				emit(n)
			}
		}
	case "concat":
		var p c11Concat
		if json.Unmarshal(raw, &p) != nil {
			return nil
		}
		sibVariants(p.Sib, func(sib *c11Sib) { n := p; n.Sib = sib; emit(n) })
		tblVariants(p.Tbl, func(t [][2]string) { n := p; n.Tbl = t; emit(n) })
		for _, s := range c11DropChars(p.S1) {
			n := p
			n.S1 = s
			emit(n)
		}
		for _, s := range c11DropChars(p.S2) {
			n := p
			n.S2 = s
			emit(n)
		}
	}
	return out
}
